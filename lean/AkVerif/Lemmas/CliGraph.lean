import AkVerif.Model.CliGraph
/-! Helper lemmas for C19 (core Lean only): the declared ancestor relation, the closure invariant of
`declareAll`, the option tables after a history of `add_argument` calls, one-option argument lists. -/
namespace CliGraph
open Ak

/-! ### the declared graph -/

/-- `a` is named as a parent by the declaration of `c` -/
def Par (ds : List Decl) (a c : Name) : Prop := ∃ d ∈ ds, d.name = c ∧ a ∈ d.parents

/-- `a` is a proper ancestor of `c`: transitive closure of the declared parent relation -/
inductive Anc (ds : List Decl) : Name → Name → Prop
  | single {a c : Name} : Par ds a c → Anc ds a c
  | tail {a b c : Name} : Anc ds a b → Par ds b c → Anc ds a c

def dnames (ds : List Decl) : List Name := ds.map (·.name)

/-- what the constructor requires: non-empty fresh names, parents declared earlier -/
def WF : List Name → List Decl → Prop
  | _, [] => True
  | seen, d :: ds =>
    d.name ≠ [] ∧ d.name ∉ seen ∧ (∀ p ∈ d.parents, p ∈ seen) ∧ WF (seen ++ [d.name]) ds

instance decWF : (seen : List Name) → (ds : List Decl) → Decidable (WF seen ds)
  | _, [] => isTrue trivial
  | seen, d :: ds => by
    unfold WF
    have := decWF (seen ++ [d.name]) ds
    exact inferInstance

/-- every parent is a declared name -/
def Closed (ds : List Decl) : Prop := ∀ d ∈ ds, ∀ p ∈ d.parents, p ∈ dnames ds

theorem Par.mono {ds : List Decl} {d : Decl} {a c : Name} (h : Par ds a c) : Par (ds ++ [d]) a c := by
  obtain ⟨d', hd, h1, h2⟩ := h
  exact ⟨d', List.mem_append_left _ hd, h1, h2⟩

theorem Anc.mono {ds : List Decl} {d : Decl} {a c : Name} (h : Anc ds a c) : Anc (ds ++ [d]) a c := by
  induction h with
  | single h => exact .single h.mono
  | tail _ h ih => exact .tail ih h.mono

theorem Par.left_mem {ds : List Decl} (hc : Closed ds) {a c : Name} (h : Par ds a c) : a ∈ dnames ds := by
  obtain ⟨d, hd, _, h2⟩ := h
  exact hc d hd a h2

theorem Par.right_mem {ds : List Decl} {a c : Name} (h : Par ds a c) : c ∈ dnames ds := by
  obtain ⟨d, hd, h1, _⟩ := h
  exact h1 ▸ List.mem_map_of_mem hd

theorem Anc.left_mem {ds : List Decl} (hc : Closed ds) {a c : Name} (h : Anc ds a c) : a ∈ dnames ds := by
  induction h with
  | single h => exact h.left_mem hc
  | tail _ _ ih => exact ih

theorem Anc.right_mem {ds : List Decl} {a c : Name} (h : Anc ds a c) : c ∈ dnames ds := by
  cases h with
  | single h => exact h.right_mem
  | tail _ h => exact h.right_mem

theorem Anc.trans {ds : List Decl} {a b c : Name} (h1 : Anc ds a b) (h2 : Anc ds b c) : Anc ds a c := by
  induction h2 with
  | single h => exact .tail h1 h
  | tail _ h ih => exact .tail ih h

theorem par_snoc {ds : List Decl} {d : Decl} {a c : Name} :
    Par (ds ++ [d]) a c ↔ Par ds a c ∨ (c = d.name ∧ a ∈ d.parents) := by
  constructor
  · rintro ⟨d', hd, h1, h2⟩
    rcases List.mem_append.mp hd with h | h
    · exact Or.inl ⟨d', h, h1, h2⟩
    · simp at h; subst h; exact Or.inr ⟨h1.symm, h2⟩
  · rintro (h | ⟨h1, h2⟩)
    · exact h.mono
    · exact ⟨d, by simp, h1.symm, h2⟩

/-- adding a declaration whose name is new and whose parents are declared: the ancestors of the old
commands do not change, the ancestors of the new one are its parents and their ancestors -/
theorem anc_snoc {ds : List Decl} {d : Decl} (hc : Closed ds) (hfresh : d.name ∉ dnames ds)
    (hpar : ∀ p ∈ d.parents, p ∈ dnames ds) (a c : Name) :
    Anc (ds ++ [d]) a c ↔ Anc ds a c ∨ (c = d.name ∧ ∃ p ∈ d.parents, a = p ∨ Anc ds a p) := by
  constructor
  · intro h
    induction h with
    | single h =>
      rcases par_snoc.mp h with h | ⟨h1, h2⟩
      · exact Or.inl (.single h)
      · exact Or.inr ⟨h1, _, h2, Or.inl rfl⟩
    | @tail b c _ h ih =>
      have hb : b ∈ dnames ds := by
        rcases par_snoc.mp h with h | ⟨_, h2⟩
        · exact h.left_mem hc
        · exact hpar _ h2
      have hab : Anc ds a b := by
        rcases ih with ih | ⟨h1, _⟩
        · exact ih
        · exact absurd (h1 ▸ hb) hfresh
      rcases par_snoc.mp h with h | ⟨h1, h2⟩
      · exact Or.inl (.tail hab h)
      · exact Or.inr ⟨h1, _, h2, Or.inr hab⟩
  · rintro (h | ⟨h1, p, hp, h2⟩)
    · exact h.mono
    · have hpd : Par (ds ++ [d]) p c := par_snoc.mpr (Or.inr ⟨h1, hp⟩)
      rcases h2 with h2 | h2
      · exact h2 ▸ .single hpd
      · exact .tail h2.mono hpd

theorem closed_snoc {ds : List Decl} {d : Decl} (hc : Closed ds) (hpar : ∀ p ∈ d.parents, p ∈ dnames ds) :
    Closed (ds ++ [d]) := by
  intro d' hd' p hp
  simp only [dnames, List.map_append, List.mem_append]
  rcases List.mem_append.mp hd' with h | h
  · exact Or.inl (hc d' h p hp)
  · simp at h; subst h; exact Or.inl (hpar p hp)

/-! ### registration -/

theorem register_name (q : Parser) (c : Name) : (q.register c).name = q.name := by
  unfold Parser.register; split <;> rfl

theorem register_internal (q : Parser) (c : Name) : (q.register c).internal = q.internal := by
  unfold Parser.register; split <;> rfl

theorem register_opts (q : Parser) (c : Name) : (q.register c).opts = q.opts := by
  unfold Parser.register; split <;> rfl

theorem mem_register_deps (q : Parser) (c x : Name) : x ∈ (q.register c).deps ↔ x ∈ q.deps ∨ x = c := by
  unfold Parser.register
  split
  · rename_i h
    constructor
    · exact Or.inl
    · rintro (h' | h')
      · exact h'
      · exact h' ▸ h
  · simp only [List.mem_cons]
    exact Or.comm

theorem register_idem (q : Parser) (c : Name) : (q.register c).register c = q.register c := by
  have : c ∈ (q.register c).deps := (mem_register_deps q c c).mpr (Or.inr rfl)
  generalize q.register c = r at this ⊢
  unfold Parser.register
  rw [if_pos this]

theorem push_name (q : Parser) (c : Name) : (q.push c).name = q.name := rfl
theorem push_internal (q : Parser) (c : Name) : (q.push c).internal = q.internal := rfl
theorem push_opts (q : Parser) (c : Name) : (q.push c).opts = q.opts := rfl
theorem mem_push_deps (q : Parser) (c x : Name) : x ∈ (q.push c).deps ↔ x ∈ q.deps ∨ x = c := by
  simp only [Parser.push, List.mem_cons]
  exact Or.comm

theorem register_eq_push {q : Parser} {c : Name} (h : c ∉ q.deps) : q.register c = q.push c := by
  unfold Parser.register Parser.push
  rw [if_neg h]

/-- the per-parser effect of one parent -/
def regOne (c p : Name) (q : Parser) : Parser :=
  if q.name = p ∨ p ∈ q.deps then q.register c else q

theorem regParent_eq (c : Name) (ps : List Parser) (p : Name) : regParent c ps p = ps.map (regOne c p) := rfl

theorem foldl_regParent (c : Name) (parents : List Name) (ps : List Parser) :
    parents.foldl (regParent c) ps = ps.map (fun q => parents.foldl (fun q p => regOne c p q) q) := by
  induction parents generalizing ps with
  | nil => simp only [List.foldl_nil]; exact (List.map_id' ps).symm
  | cons p rest ih =>
    simp only [List.foldl_cons, ih, regParent_eq, List.map_map]
    rfl

theorem touches_register {parents : List Name} {c : Name} (hc : c ∉ parents) (q : Parser) :
    touches parents (q.register c) = touches parents q := by
  unfold touches
  apply Bool.eq_iff_iff.mpr
  simp only [List.any_eq_true, decide_eq_true_eq, register_name, mem_register_deps]
  constructor
  · rintro ⟨p, hp, h | h | h⟩
    · exact ⟨p, hp, Or.inl h⟩
    · exact ⟨p, hp, Or.inr h⟩
    · exact absurd (h ▸ hp) hc
  · rintro ⟨p, hp, h | h⟩
    · exact ⟨p, hp, Or.inl h⟩
    · exact ⟨p, hp, Or.inr (Or.inl h)⟩

theorem foldl_regOne (c : Name) (parents : List Name) (hc : c ∉ parents) (q : Parser) :
    parents.foldl (fun q p => regOne c p q) q = if touches parents q then q.register c else q := by
  induction parents generalizing q with
  | nil => simp [touches]
  | cons p rest ih =>
    have hc' : c ∉ rest := fun h => hc (List.mem_cons_of_mem _ h)
    have hcp : c ≠ p := fun h => hc (h ▸ List.mem_cons_self)
    simp only [List.foldl_cons]
    rw [ih hc']
    unfold regOne
    by_cases h1 : q.name = p ∨ p ∈ q.deps
    · simp only [h1, if_true, touches_register hc', register_idem]
      have : touches (p :: rest) q = true := by
        simp only [touches, List.any_cons, Bool.or_eq_true, decide_eq_true_eq]
        exact Or.inl h1
      simp [this]
    · simp only [h1, if_false]
      have : touches (p :: rest) q = touches rest q := by
        simp [touches, List.any_cons, h1]
      rw [this]

/-- all parents of one declaration at once; in particular their order and repetitions are irrelevant -/
theorem foldl_regParent_eq (c : Name) (parents : List Name) (hc : c ∉ parents) (ps : List Parser) :
    parents.foldl (regParent c) ps = ps.map (fun q => if touches parents q then q.register c else q) := by
  rw [foldl_regParent]
  apply List.map_congr_left
  intro q _
  exact foldl_regOne c parents hc q

/-! ### the closure invariant -/

def skel (ps : List Parser) : List (Name × Bool) := ps.map (fun q => (q.name, q.internal))
def dskel (ds : List Decl) : List (Name × Bool) := ds.map (fun d => (d.name, d.internal))

theorem names_of_skel {ps : List Parser} {ds : List Decl} (h : skel ps = dskel ds) : names ps = dnames ds := by
  have := congrArg (List.map Prod.fst) h
  simpa [skel, dskel, names, dnames, List.map_map, Function.comp_def] using this

/-- state of the loop after the declarations `pre` -/
structure Inv (std : List OptSpec) (pre : List Decl) (ps : List Parser) : Prop where
  skel : skel ps = dskel pre
  closed : Closed pre
  deps : ∀ q ∈ ps, ∀ c, c ∈ q.deps ↔ Anc pre q.name c
  opts : ∀ q ∈ ps, q.opts = std

theorem Inv.names {std pre ps} (h : Inv std pre ps) : names ps = dnames pre := names_of_skel h.skel

theorem inv_nil (std : List OptSpec) : Inv std [] [] :=
  ⟨rfl, (by intro d hd; cases hd), (by intro q hq; cases hq), (by intro q hq; cases hq)⟩

theorem declare_ok_iff (std : List OptSpec) (ps : List Parser) (d : Decl) :
    (∃ ps', declare std ps d = .ok ps') ↔
      d.name ≠ [] ∧ d.name ∉ names ps ∧ ∀ p ∈ d.parents, p ∈ names ps := by
  by_cases h1 : d.name = []
  · have : declare std ps d = .error .assertion := by simp [declare, h1]
    rw [this]
    exact ⟨fun ⟨_, h⟩ => (by cases h), fun ⟨h, _⟩ => absurd h1 h⟩
  by_cases h2 : d.name ∈ names ps
  · have : declare std ps d = .error .assertion := by simp [declare, h1, h2]
    rw [this]
    exact ⟨fun ⟨_, h⟩ => (by cases h), fun ⟨_, h, _⟩ => absurd h2 h⟩
  by_cases h3 : d.parents.any (fun p => !(names ps).contains p) = true
  · have : declare std ps d = .error .assertion := by simp only [declare, h1, h2, h3, if_true, if_false]
    rw [this]
    refine ⟨fun ⟨_, h⟩ => (by cases h), fun ⟨_, _, h⟩ => ?_⟩
    simp only [List.any_eq_true, Bool.not_eq_true', List.contains_eq_mem, decide_eq_false_iff_not] at h3
    obtain ⟨p, hp, hn⟩ := h3
    exact absurd (h p hp) hn
  · have : ∃ r, declare std ps d = .ok r := by
      simp only [declare, h1, h2, h3, if_false]
      exact ⟨_, rfl⟩
    refine ⟨fun _ => ⟨h1, h2, ?_⟩, fun _ => this⟩
    intro p hp
    apply Classical.byContradiction
    intro hn
    apply h3
    simp only [List.any_eq_true, Bool.not_eq_true', List.contains_eq_mem, decide_eq_false_iff_not]
    exact ⟨p, hp, hn⟩

theorem declare_eq (std : List OptSpec) (ps : List Parser) (d : Decl)
    (h1 : d.name ≠ []) (h2 : d.name ∉ names ps) (h3 : ∀ p ∈ d.parents, p ∈ names ps) :
    declare std ps d = .ok (ps.map (fun q => if touches d.parents q then q.push d.name else q) ++
      [{ name := d.name, internal := d.internal, deps := [], opts := std }]) := by
  have hc : d.name ∉ d.parents := fun h => h2 (h3 _ h)
  have h3' : ¬ d.parents.any (fun p => !(names ps).contains p) = true := by
    simp only [List.any_eq_true, Bool.not_eq_true', List.contains_eq_mem, decide_eq_false_iff_not]
    rintro ⟨p, hp, hn⟩
    exact hn (h3 p hp)
  unfold declare
  rw [if_neg h1, if_neg h2, if_neg h3']

/-- the one-pass `declare` is the parent-by-parent loop of the code, as long as the new name is not
already somebody's dependent (true in every reachable state: dependents are declared names) -/
theorem declareByParent_eq (std : List OptSpec) (ps : List Parser) (d : Decl)
    (hfresh : ∀ q ∈ ps, d.name ∉ q.deps) : declareByParent std ps d = declare std ps d := by
  unfold declareByParent declare
  by_cases h1 : d.name = []
  · simp [h1]
  by_cases h2 : d.name ∈ names ps
  · simp [h1, h2]
  by_cases h3 : d.parents.any (fun p => !(names ps).contains p) = true
  · simp only [h1, h2, h3, if_true, if_false]
  · have hc : d.name ∉ d.parents := by
      intro h
      apply h3
      simp only [List.any_eq_true, Bool.not_eq_true', List.contains_eq_mem, decide_eq_false_iff_not]
      exact ⟨d.name, h, h2⟩
    rw [if_neg h1, if_neg h2, if_neg h3, if_neg h1, if_neg h2, if_neg h3, foldl_regParent_eq _ _ hc]
    congr 2
    apply List.map_congr_left
    intro q hq
    split
    · exact register_eq_push (hfresh q hq)
    · rfl

theorem inv_step {std : List OptSpec} {pre : List Decl} {ps : List Parser} (hinv : Inv std pre ps) (d : Decl)
    (h1 : d.name ≠ []) (h2 : d.name ∉ names ps) (h3 : ∀ p ∈ d.parents, p ∈ names ps) :
    ∃ ps', declare std ps d = .ok ps' ∧ Inv std (pre ++ [d]) ps' := by
  refine ⟨_, declare_eq std ps d h1 h2 h3, ?_⟩
  have hn := hinv.names
  have hfresh : d.name ∉ dnames pre := hn ▸ h2
  have hpar : ∀ p ∈ d.parents, p ∈ dnames pre := fun p hp => hn ▸ h3 p hp
  have hanc := anc_snoc hinv.closed hfresh hpar
  refine ⟨?_, closed_snoc hinv.closed hpar, ?_, ?_⟩
  · have : skel (ps.map (fun q => if touches d.parents q then q.push d.name else q)) = skel ps := by
      simp only [skel, List.map_map]
      apply List.map_congr_left
      intro q _
      simp only [Function.comp]
      split <;> simp [push_name, push_internal]
    simp only [skel, dskel, List.map_append] at this ⊢
    rw [this]
    have := hinv.skel
    simp only [skel, dskel] at this
    rw [this]
    rfl
  · intro q' hq' c
    rcases List.mem_append.mp hq' with hq' | hq'
    · obtain ⟨q, hq, rfl⟩ := List.mem_map.mp hq'
      have hd := hinv.deps q hq
      rw [hanc]
      by_cases ht : touches d.parents q = true
      · simp only [ht, if_true, mem_push_deps, push_name, hd]
        constructor
        · rintro (h | h)
          · exact Or.inl h
          · refine Or.inr ⟨h, ?_⟩
            simp only [touches, List.any_eq_true, decide_eq_true_eq] at ht
            obtain ⟨p, hp, hp'⟩ := ht
            exact ⟨p, hp, hp'.imp id (fun h => (hinv.deps q hq p).mp h)⟩
        · rintro (h | ⟨h, _⟩)
          · exact Or.inl h
          · exact Or.inr h
      · have ht' : touches d.parents q = false := by simpa using ht
        simp only [ht', Bool.false_eq_true, if_false, hd]
        constructor
        · exact fun h => Or.inl h
        · rintro (h | ⟨_, p, hp, hp'⟩)
          · exact h
          · exfalso
            apply ht
            simp only [touches, List.any_eq_true, decide_eq_true_eq]
            exact ⟨p, hp, hp'.imp id (fun h => (hinv.deps q hq p).mpr h)⟩
    · simp at hq'
      subst hq'
      simp only [List.not_mem_nil, false_iff]
      intro h
      have := h.left_mem (closed_snoc hinv.closed hpar)
      simp only [dnames, List.map_append, List.mem_append, List.map_cons, List.map_nil, List.mem_singleton] at this
      rcases this with h' | h'
      · exact hfresh h'
      · -- d.name is an ancestor of c: the first step names d.name as a parent
        rw [hanc] at h
        rcases h with h | ⟨_, p, hp, h | h⟩
        · exact hfresh (h.left_mem hinv.closed)
        · exact hfresh (h ▸ hpar p hp)
        · exact hfresh (h.left_mem hinv.closed)
  · intro q' hq'
    rcases List.mem_append.mp hq' with hq' | hq'
    · obtain ⟨q, hq, rfl⟩ := List.mem_map.mp hq'
      split
      · rw [push_opts]; exact hinv.opts q hq
      · exact hinv.opts q hq
    · simp at hq'; subst hq'; rfl

theorem names_snoc_of_inv {std pre ps d ps'} (h : Inv std (pre ++ [d]) ps') (h0 : Inv std pre ps) :
    names ps' = names ps ++ [d.name] := by
  rw [h.names, h0.names]; simp [dnames]

/-- the loop over well-formed declarations succeeds and keeps the invariant -/
theorem declareAll_ok {std : List OptSpec} (ds : List Decl) {pre : List Decl} {ps : List Parser}
    (hinv : Inv std pre ps) (hwf : WF (names ps) ds) :
    ∃ ps', declareAll std ps ds = .ok ps' ∧ Inv std (pre ++ ds) ps' := by
  induction ds generalizing pre ps with
  | nil => exact ⟨ps, rfl, by simpa using hinv⟩
  | cons d ds ih =>
    obtain ⟨h1, h2, h3, h4⟩ := hwf
    obtain ⟨ps1, he, hinv1⟩ := inv_step hinv d h1 h2 h3
    rw [← names_snoc_of_inv hinv1 hinv] at h4
    obtain ⟨ps', he', hinv'⟩ := ih hinv1 h4
    refine ⟨ps', ?_, by simpa using hinv'⟩
    simp [declareAll, he, he']

/-- … and it succeeds only on well-formed declarations -/
theorem declareAll_wf {std : List OptSpec} (ds : List Decl) {pre : List Decl} {ps ps' : List Parser}
    (hinv : Inv std pre ps) (h : declareAll std ps ds = .ok ps') : WF (names ps) ds := by
  induction ds generalizing pre ps with
  | nil => trivial
  | cons d ds ih =>
    unfold declareAll at h
    cases hd : declare std ps d with
    | error e => simp [hd] at h
    | ok ps1 =>
      simp only [hd] at h
      obtain ⟨h1, h2, h3⟩ := (declare_ok_iff std ps d).mp ⟨_, hd⟩
      obtain ⟨ps1', he, hinv1⟩ := inv_step hinv d h1 h2 h3
      rw [hd] at he
      cases he
      refine ⟨h1, h2, h3, ?_⟩
      rw [← names_snoc_of_inv hinv1 hinv]
      exact ih hinv1 h

/-! ### option tables after a history of `add_argument` calls -/

/-- a placement on `t` concerns the command `c` -/
def Applies (ds : List Decl) (t : Option Name) (c : Name) : Prop :=
  t = none ∨ t = some c ∨ ∃ p, t = some p ∧ Anc ds p c

/-- the same, evaluated on a parser list (what `addOption` does) -/
def recvN (ps : List Parser) (t : Option Name) (n : Name) : Bool :=
  match t with
  | none => true
  | some p =>
    match findParser ps p with
    | none => false
    | some r => decide (n = p ∨ n ∈ r.deps)

def ext (ps0 : List Parser) (done : List (Option Name × OptSpec)) (q : Parser) : Parser :=
  { q with opts := q.opts ++ (done.filter (fun a => recvN ps0 a.1 q.name)).map (·.2) }

theorem mapE_eq_ok {α β ε} {f : α → Except ε β} {g : α → β} {l : List α} {l' : List β}
    (h : mapE f l = .ok l') (hf : ∀ a ∈ l, ∀ b, f a = .ok b → b = g a) : l' = l.map g := by
  induction l generalizing l' with
  | nil => simp [mapE] at h; simp [h]
  | cons a as ih =>
    unfold mapE at h
    cases ha : f a with
    | error e => simp [ha] at h
    | ok b =>
      cases has : mapE f as with
      | error e => simp [ha, has] at h
      | ok bs =>
        simp only [ha, has] at h
        cases h
        rw [List.map_cons, ← hf a List.mem_cons_self b ha,
          ← ih has (fun a' h' => hf a' (List.mem_cons_of_mem _ h'))]

theorem addOpt_ok {q q' : Parser} {s : OptSpec} (h : q.addOpt s = .ok q') :
    q' = { q with opts := q.opts ++ [s] } := by
  unfold Parser.addOpt at h
  split at h
  · cases h
  · cases h; rfl

theorem findParser_some {ps : List Parser} {p : Name} {r : Parser} (h : findParser ps p = some r) :
    r ∈ ps ∧ r.name = p := by
  unfold findParser at h
  exact ⟨List.mem_of_find?_eq_some h, by simpa using List.find?_some h⟩

theorem findParser_of_mem {ps : List Parser} {q : Parser} (h : q ∈ ps) :
    ∃ r, findParser ps q.name = some r := by
  unfold findParser
  cases hf : ps.find? (fun r => r.name == q.name) with
  | some r => exact ⟨r, rfl⟩
  | none =>
    have := List.find?_eq_none.mp hf q h
    simp at this

theorem findParser_map (f : Parser → Parser) (hf : ∀ q, (f q).name = q.name) (ps : List Parser) (p : Name) :
    findParser (ps.map f) p = (findParser ps p).map f := by
  unfold findParser
  rw [List.find?_map]
  congr 2
  funext q
  simp [Function.comp, hf]

theorem addOption_ok {st st' : St} {t : Option Name} {s : OptSpec} (h : addOption st t s = .ok st') :
    st'.default = st.default ∧
    st'.parsers = st.parsers.map
      (fun q => if recvN st.parsers t q.name then { q with opts := q.opts ++ [s] } else q) := by
  unfold addOption at h
  cases t with
  | none =>
    simp only at h
    cases hm : mapE (fun q => q.addOpt s) st.parsers with
    | error e => simp [hm] at h
    | ok ps =>
      simp only [hm] at h
      cases h
      refine ⟨rfl, ?_⟩
      simp only [recvN, if_true]
      exact mapE_eq_ok hm (fun a _ b hb => addOpt_ok hb)
  | some p =>
    simp only at h
    cases hf : findParser st.parsers p with
    | none => simp [hf] at h
    | some q =>
      simp only [hf] at h
      cases hm : mapE (fun r => if r.name = p ∨ r.name ∈ q.deps then r.addOpt s else .ok r) st.parsers with
      | error e => simp [hm] at h
      | ok ps =>
        simp only [hm] at h
        cases h
        refine ⟨rfl, ?_⟩
        apply mapE_eq_ok hm
        intro a _ b hb
        simp only [recvN, hf]
        by_cases hc : a.name = p ∨ a.name ∈ q.deps
        · simp only [hc, if_true, decide_true] at hb ⊢
          exact addOpt_ok hb
        · simp only [hc, if_false, decide_false] at hb ⊢
          cases hb
          simp

theorem ext_name (ps0 done) (q : Parser) : (ext ps0 done q).name = q.name := rfl
theorem ext_deps (ps0 done) (q : Parser) : (ext ps0 done q).deps = q.deps := rfl
theorem ext_internal (ps0 done) (q : Parser) : (ext ps0 done q).internal = q.internal := rfl

theorem recvN_map_ext (ps0 : List Parser) (done : List (Option Name × OptSpec)) (t : Option Name) (n : Name) :
    recvN (ps0.map (ext ps0 done)) t n = recvN ps0 t n := by
  cases t with
  | none => rfl
  | some p =>
    simp only [recvN]
    rw [findParser_map _ (ext_name ps0 done)]
    cases findParser ps0 p <;> rfl

/-- after a successful history the parser list is the initial one with, for each parser, the specs
of the placements that reach it appended in order -/
theorem addAll_ok (ps0 : List Parser) (adds : List (Option Name × OptSpec)) :
    ∀ (done : List (Option Name × OptSpec)) (st st' : St), st.parsers = ps0.map (ext ps0 done) →
      addAll st adds = .ok st' →
      st'.default = st.default ∧ st'.parsers = ps0.map (ext ps0 (done ++ adds)) := by
  induction adds with
  | nil =>
    intro done st st' hst h
    simp only [addAll] at h
    cases h
    exact ⟨rfl, by simpa using hst⟩
  | cons a as ih =>
    intro done st st' hst h
    unfold addAll at h
    cases ha : addOption st a.1 a.2 with
    | error e => simp [ha] at h
    | ok st1 =>
      simp only [ha] at h
      obtain ⟨hd, hp⟩ := addOption_ok ha
      have hst1 : st1.parsers = ps0.map (ext ps0 (done ++ [a])) := by
        rw [hp, hst, List.map_map]
        apply List.map_congr_left
        intro q _
        simp only [Function.comp, recvN_map_ext, ext_name]
        unfold ext
        by_cases hr : recvN ps0 a.1 q.name = true
        · simp [hr, List.filter_append]
        · simp [hr, List.filter_append]
      obtain ⟨hd', hp'⟩ := ih (done ++ [a]) st1 st' hst1 h
      exact ⟨hd'.trans hd, by simpa using hp'⟩

theorem recvN_iff_applies {std : List OptSpec} {ds : List Decl} {ps0 : List Parser} (hinv : Inv std ds ps0)
    {q : Parser} (hq : q ∈ ps0) (t : Option Name) :
    recvN ps0 t q.name = true ↔ Applies ds t q.name := by
  cases t with
  | none => simp [recvN, Applies]
  | some p =>
    simp only [recvN, Applies, Option.some.injEq, false_or, reduceCtorEq]
    constructor
    · intro h
      cases hf : findParser ps0 p with
      | none => simp [hf] at h
      | some r =>
        simp only [hf, decide_eq_true_eq] at h
        obtain ⟨hr, hrn⟩ := findParser_some hf
        rcases h with h | h
        · exact Or.inl h.symm
        · exact Or.inr ⟨p, rfl, hrn ▸ (hinv.deps r hr _).mp h⟩
    · rintro (h | ⟨p', h, ha⟩)
      · subst h
        obtain ⟨r, hr⟩ := findParser_of_mem hq
        simp [hr]
      · subst h
        have hp : p ∈ names ps0 := hinv.names ▸ ha.left_mem hinv.closed
        obtain ⟨r0, hr0, hn0⟩ := List.mem_map.mp hp
        obtain ⟨r, hr⟩ := findParser_of_mem hr0
        rw [hn0] at hr
        obtain ⟨hrm, hrn⟩ := findParser_some hr
        simp only [hr, decide_eq_true_eq]
        exact Or.inr ((hinv.deps r hrm _).mpr (hrn ▸ ha))

/-! ### distinct names -/

theorem wf_nodup (ds : List Decl) (seen : List Name) (hwf : WF seen ds) (hs : seen.Nodup) :
    (seen ++ dnames ds).Nodup := by
  induction ds generalizing seen with
  | nil => simpa [dnames] using hs
  | cons d ds ih =>
    obtain ⟨_, h2, _, h4⟩ := hwf
    have : (seen ++ [d.name]).Nodup := by
      rw [List.nodup_append]
      refine ⟨hs, by simp, ?_⟩
      intro a ha b hb
      simp at hb
      subst hb
      exact fun h => h2 (h ▸ ha)
    have := ih (seen ++ [d.name]) h4 this
    simpa [dnames] using this

theorem name_inj {ps : List Parser} (hn : (names ps).Nodup) {q r : Parser} (hq : q ∈ ps) (hr : r ∈ ps)
    (h : q.name = r.name) : q = r := by
  induction ps with
  | nil => cases hq
  | cons a as ih =>
    simp only [names, List.map_cons, List.nodup_cons] at hn
    obtain ⟨h1, h2⟩ := hn
    rcases List.mem_cons.mp hq with hq1 | hq1
    · rcases List.mem_cons.mp hr with hr1 | hr1
      · rw [hq1, hr1]
      · subst hq1
        exact (h1 (List.mem_map.mpr ⟨r, hr1, h.symm⟩)).elim
    · rcases List.mem_cons.mp hr with hr1 | hr1
      · subst hr1
        exact (h1 (List.mem_map.mpr ⟨q, hq1, h⟩)).elim
      · exact ih h2 hq1 hr1

theorem findParser_public {ps : List Parser} (hn : (names ps).Nodup) {q : Parser} (hq : q ∈ ps)
    (hpub : q.internal = false) : findParser (ps.filter (fun q => !q.internal)) q.name = some q := by
  have hq' : q ∈ ps.filter (fun q => !q.internal) := List.mem_filter.mpr ⟨hq, by simp [hpub]⟩
  obtain ⟨r, hr⟩ := findParser_of_mem hq'
  obtain ⟨hrm, hrn⟩ := findParser_some hr
  rw [hr, name_inj hn (List.mem_filter.mp hrm).1 hq hrn]

theorem findParser_internal {ps : List Parser} (hn : (names ps).Nodup) {q : Parser} (hq : q ∈ ps)
    (hint : q.internal = true) : findParser (ps.filter (fun q => !q.internal)) q.name = none := by
  cases hf : findParser (ps.filter (fun q => !q.internal)) q.name with
  | none => rfl
  | some r =>
    obtain ⟨hrm, hrn⟩ := findParser_some hf
    obtain ⟨hr1, hr2⟩ := List.mem_filter.mp hrm
    rw [name_inj hn hr1 hq hrn, hint] at hr2
    simp at hr2

theorem ext_nil (ps0 : List Parser) : ps0.map (ext ps0 []) = ps0 := by
  have : ∀ q : Parser, ext ps0 [] q = q := by intro q; cases q; simp [ext]
  rw [List.map_congr_left (fun q _ => this q)]
  exact List.map_id' ps0

theorem declare_err {std : List OptSpec} {ps : List Parser} {d : Decl} {e : Err}
    (h : declare std ps d = .error e) : e = .assertion := by
  unfold declare at h
  split at h
  · cases h; rfl
  · split at h
    · cases h; rfl
    · split at h
      · cases h; rfl
      · cases h

theorem declareAll_err {std : List OptSpec} (ds : List Decl) {ps : List Parser} {e : Err}
    (h : declareAll std ps ds = .error e) : e = .assertion := by
  induction ds generalizing ps with
  | nil => cases h
  | cons d ds ih =>
    unfold declareAll at h
    cases hd : declare std ps d with
    | error e' =>
      simp only [hd] at h
      cases h
      exact declare_err hd
    | ok ps1 =>
      simp only [hd] at h
      exact ih h

end CliGraph
