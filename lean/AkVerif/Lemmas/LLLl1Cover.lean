import AkVerif.Lemmas.LLLl1Follow
/-!
Two bridges between the factorised dictionary `G` and the user's dictionary `U` for the proof of
`LL.ll1_unambiguous` (`FactRelD U G S`, `S` the helper symbols, `T` the terminals):

* `l1c_cover` — the semantic predict set of a rule `p` of a key `A` of `G` is covered by the predict
  sets (over `U`, at the user symbol `rootOf A`) of the flattenings of `p`;
  `l1c_pred_prefix` puts a nullable prefix in front,
* `l1c_block` — for a key `A` below the user symbol `X` with the symbols `c` in front
  (`Below G S X A c`), the ordered expansion of the rules of `A`, each prefixed with `c`, is a
  contiguous block of the list of the user's alternatives of `X`.

Small facts: the symbols of a flattened expansion / of a `Below` prefix are non-helper symbols of rules
of `G` (`l1c_flat_syms`, `l1c_below_syms`), every right-hand side has a flattening (`l1c_flatR_exists`).
-/
set_option linter.unusedSectionVars false
namespace LL
open Ak

theorem l1c_mem_split_last {α : Type} {p : List α} {l x : α} (hl : p.getLast? = some l) (hx : x ∈ p) :
    x ∈ p.dropLast ∨ x = l := by
  rw [← tr_split_last hl] at hx
  rcases List.mem_append.1 hx with h | h
  · exact Or.inl h
  · exact Or.inr (List.mem_singleton.1 h)

section L1Cover
variable {U G : Prods Sym} {S T NU NG : List Sym}

/-! ### symbols of flattened expansions and of `Below` prefixes -/

/-- the symbols of a flattened expansion are non-helper symbols of rules of `G` -/
theorem l1c_flat_syms
    (hinner : ∀ s rules, (s, rules) ∈ G → ∀ r ∈ rules, ∀ x ∈ r.rhs.dropLast, x ∉ S)
    {s : Sym} {e : List Sym} (h : FlatD G S s e) : ∀ x ∈ e, x ∉ S ∧ x ∈ psyms G := by
  induction h with
  | @base s p hp hl =>
    intro x hx
    obtain ⟨rules, hm, r, hr, hrp⟩ := mem_gramRules.1 hp
    refine ⟨?_, mem_psyms.2 ⟨s, rules, hm, r, hr, by rw [hrp]; exact hx⟩⟩
    rcases hlast : p.getLast? with _ | l
    · rw [List.getLast?_eq_none_iff.1 hlast] at hx
      simp at hx
    · rcases l1c_mem_split_last hlast hx with h1 | h1
      · exact hinner s rules hm r hr x (by rw [hrp]; exact h1)
      · rw [h1]; exact hl l hlast
  | @step s pre s' e hp hs' _ ih =>
    intro x hx
    obtain ⟨rules, hm, r, hr, hrp⟩ := mem_gramRules.1 hp
    rcases List.mem_append.1 hx with h1 | h1
    · refine ⟨hinner s rules hm r hr x (by rw [hrp]; simpa using h1),
        mem_psyms.2 ⟨s, rules, hm, r, hr, by rw [hrp]; simp [h1]⟩⟩
    · exact ih x h1

/-- the symbols in front of a key below `X` are non-helper symbols of rules of `G` -/
theorem l1c_below_syms
    (hinner : ∀ s rules, (s, rules) ∈ G → ∀ r ∈ rules, ∀ x ∈ r.rhs.dropLast, x ∉ S)
    {X A : Sym} {c : List Sym} (hB : Below G S X A c) : ∀ x ∈ c, x ∉ S ∧ x ∈ psyms G := by
  induction hB with
  | root => intro x hx; simp at hx
  | @down k c pre h _ hp hs ih =>
    intro x hx
    rcases List.mem_append.1 hx with h1 | h1
    · exact ih x h1
    · obtain ⟨rules, hm, r, hr, hrp⟩ := mem_gramRules.1 hp
      exact ⟨hinner k rules hm r hr x (by rw [hrp]; simpa using h1),
        mem_psyms.2 ⟨k, rules, hm, r, hr, by rw [hrp]; simp [h1]⟩⟩

/-- the top of a `Below` chain that ends in a key is a key -/
theorem l1c_below_key {X A : Sym} {c : List Sym} (hB : Below G S X A c) (hA : A ∈ pkeys G) :
    X ∈ pkeys G := by
  induction hB with
  | root => exact hA
  | down _ hp _ ih =>
    obtain ⟨rules, hm, _⟩ := mem_gramRules.1 hp
    exact ih (List.mem_map.2 ⟨_, hm, rfl⟩)

/-- every right-hand side has a flattening when every helper has a flattened expansion -/
theorem l1c_flatR_exists (hprod : ∀ s ∈ S, ∃ e, FlatD G S s e) (p : List Sym) :
    ∃ e, FlatR G S p e := by
  rcases hl : p.getLast? with _ | l
  · exact ⟨p, Or.inl ⟨fun l h => (by rw [hl] at h; cases h), rfl⟩⟩
  · by_cases hlS : l ∈ S
    · obtain ⟨e, he⟩ := hprod l hlS
      exact ⟨p.dropLast ++ e, Or.inr ⟨p.dropLast, l, e, (tr_split_last hl).symm, hlS, he, rfl⟩⟩
    · exact ⟨p, Or.inl ⟨fun l' h => (by rw [hl] at h; cases h; exact hlS), rfl⟩⟩

/-! ### the cover lemma -/

/-- a nullable prefix does not change membership in a predict set -/
theorem l1c_pred_prefix {D : Prods Sym} {N : List Sym} {F : SetMap Sym} {start endS X t : Sym}
    {c e : List Sym} (hc : NullIn T N c) (h : PredS D T N F start endS X e t) :
    PredS D T N F start endS X (c ++ e) t := by
  unfold PredS FirstSeq at h ⊢
  rcases h with h | ⟨hn, hf⟩
  · exact Or.inl ((l1f_append e c).2 (Or.inr ⟨hc, h⟩))
  · refine Or.inr ⟨?_, hf⟩
    intro x hx
    rcases List.mem_append.1 hx with hx | hx
    · exact hc x hx
    · exact hn x hx

/-- **cover**: a terminal in the predict set (over `G`) of the rule `p` of `A` is in the predict set
(over `U`, at the user symbol `rootOf A`) of some flattening of `p` -/
theorem l1c_cover {FU FG : SetMap Sym} {start endS : Sym}
    (hR : FactRelD U G S) (hU : UserWF U)
    (hNU : nullables U = .ok NU) (hNG : nullables G = .ok NG)
    (hFU : firstSets T NU U = .ok FU) (hFG : firstSets T NG G = .ok FG)
    (hntU : ∀ s ∈ NU, s ∉ T) (hntG : ∀ s ∈ NG, s ∉ T)
    (hST : ∀ s ∈ S, s ∉ T) (hprod : ∀ s ∈ S, ∃ e, FlatD G S s e)
    (hSpath : ∀ s ∈ S, s.path ≠ [])
    (hext : ∀ k rules, (k, rules) ∈ G → ∀ r ∈ rules, ∀ l, r.rhs.getLast? = some l → l ∈ S → Ext k l)
    (href : ∀ h ∈ S, ∃ k rules r, (k, rules) ∈ G ∧ r ∈ rules ∧ r.rhs.getLast? = some h)
    (hstart : start.path = [])
    {A t : Sym} {p : List Sym} (hp : p ∈ gramRules G A)
    (h : PredS G T NG FG start endS A p t) :
    ∃ e, FlatR G S p e ∧ PredS U T NU FU start endS (rootOf A) e t := by
  unfold PredS at h ⊢
  rcases h with h | ⟨hn, hf⟩
  · rcases firstSeq_rule_sub hR hNU hNG hST hprod hp h with ⟨hl, hfs⟩ | ⟨pre, h', hpe, hS, e, he, hfs⟩
    · exact ⟨p, Or.inl ⟨hl, rfl⟩, Or.inl hfs⟩
    · exact ⟨pre ++ e, Or.inr ⟨pre, h', e, hpe, hS, he, rfl⟩, Or.inl hfs⟩
  · have hfo := follow_sub hR hU hNU hNG hFU hFG hntU hntG hST hprod hSpath hext href hstart A t hf
    have hp' : ([] : List Sym) ++ p ∈ gramRules G A := by simpa using hp
    rcases l1w_tail_cases hR hp' (by simp) with ⟨hβ, _⟩ | ⟨bd, l, hb, hlS, hbd, _⟩
    · exact ⟨p, Or.inl ⟨fun l hl => hβ l (List.mem_of_getLast? hl), rfl⟩,
        Or.inr ⟨nullIn_sub hR hNU hNG hn hβ, hfo⟩⟩
    · subst hb
      have hl : l ∈ NG := (hn l (by simp)).2
      obtain ⟨e, he, hall⟩ := null_helper_sub hR hNU hNG hl
      refine ⟨bd ++ e, Or.inr ⟨bd, l, e, rfl, hlS, he, rfl⟩, Or.inr ⟨?_, hfo⟩⟩
      intro x hx
      rcases List.mem_append.1 hx with hx | hx
      · exact nullIn_sub hR hNU hNG (fun y hy => hn y (List.mem_append_left _ hy)) hbd x hx
      · exact ⟨hntU x (hall x hx), hall x hx⟩

/-! ### blocks -/

/-- **blocks**: for a key `A` below `X` with `c` in front, the ordered expansion of the rules of `A`,
each prefixed with `c`, is a contiguous part of the ordered expansion `LU` of the rules of `X` -/
theorem l1c_block (hndG : (G.map (·.1)).Nodup) {X : Sym} {LU : List (List Sym)}
    (hroot : ∃ rulesG, dget X G = some rulesG ∧ ExA G S (rulesG.map (·.rhs)) LU)
    {A : Sym} {c : List Sym} (hB : Below G S X A c) :
    ∀ rsA, dget A G = some rsA →
      ∃ L1 L L3, LU = L1 ++ L ++ L3 ∧ ExA G S (rsA.map fun r => c ++ r.rhs) L := by
  induction hB with
  | root =>
    intro rsA hd
    obtain ⟨rulesG, hg, hE⟩ := hroot
    rw [hd] at hg
    cases hg
    exact ⟨[], LU, [], by simp, by rw [ex_map_nil]; exact hE⟩
  | @down k c pre h _ hp hS ih =>
    intro rsA hd
    obtain ⟨rsk, hk, r, hr, hrp⟩ := (mem_gramRules_dget hndG).1 hp
    obtain ⟨L1, L, L3, eLU, hE⟩ := ih rsk hk
    obtain ⟨l1, l2, el⟩ := List.append_of_mem hr
    have e : (rsk.map fun r => c ++ r.rhs) =
        (l1.map fun r => c ++ r.rhs) ++ ((c ++ pre) ++ [h]) :: (l2.map fun r => c ++ r.rhs) := by
      rw [el]
      simp [hrp]
    rw [e] at hE
    obtain ⟨M1, M2, eL, _, hM2⟩ := exA_append_inv hE
    obtain ⟨N1, N2, eM, hN1, _⟩ := exA_group_inv hS hd hM2
    refine ⟨L1 ++ M1, N1, N2 ++ L3, ?_, hN1⟩
    rw [eLU, eL, eM]
    simp [List.append_assoc]

end L1Cover

end LL

section
open LL
#print axioms l1c_cover
#print axioms l1c_block
end
