import AkVerif.Lemmas.GhistBumps
import AkVerif.Lemmas.GhistOrder
/-!
What the report shows as the number of a build: the first (smallest) of the build numbers of the build's commit —
its sorted build tags, or the "not built" number when the commit is an untagged head.
-/
namespace Ghist
open Ak

section
variable {π β : Type} {h : Hist π}

/-- every build carries the first of the build numbers of its commit -/
def BnShown (h : Hist π) (rcs : List RC) (builds : List (RB β)) : Prop :=
  ∀ b ∈ builds, ∃ rc cm, rcs[b.iid]? = some rc ∧ h.commits[rc.commit]? = some cm ∧
    ∃ isHead, (buildNums cm isHead).head? = some b.bn

theorem BnShown.mono {rcs rcs' : List RC} {bs bs' : List (RB β)}
    (hpre : ∃ ext, rcs' = rcs ++ ext) (hnew : ∀ b ∈ bs', b ∉ bs →
      ∃ rc cm, rcs'[b.iid]? = some rc ∧ h.commits[rc.commit]? = some cm ∧
        ∃ isHead, (buildNums cm isHead).head? = some b.bn)
    (ok : BnShown h rcs bs) : BnShown h rcs' bs' := by
  classical
  intro b hb
  by_cases hold : b ∈ bs
  · obtain ⟨rc, cm, h1, h2, h3⟩ := ok b hold
    obtain ⟨ext, rfl⟩ := hpre
    exact ⟨rc, cm, by rw [List.getElem?_append_left (List.getElem?_eq_some_iff.mp h1).1]; exact h1, h2, h3⟩
  · exact hnew b hb hold

theorem finish_bnShown {pl : Plug π β} {head : Nat} {st st' : St β} {c : Nat} {cm : Commit π}
    {fr : List Nat} (hcm : h.commits[c]? = some cm) (ok : BnShown h st.rp.rcs st.rp.builds)
    {rel : List Nat} (hf : finish pl head rel st c cm fr = .ok st') : BnShown h st'.rp.rcs st'.rp.builds := by
  cases finish_cases hf with
  | irrelevant => exact ok
  | plain =>
    simp only [Repo.addPlain]; split <;> exact ok
  | plainMatch =>
    exact ok.mono ⟨[_], rfl⟩ (fun b hb hn => absurd hb hn)
  | skip bpar new pb pbs bumps =>
    simp only [St.skipBuild, Repo.addPlain]; split <;> exact ok
  | build bpar new pb pbs bumps bn na _ _ _ _ _ hbn =>
    refine ok.mono ⟨[_], rfl⟩ ?_
    intro b hb hn
    simp only [St.addBuild, Repo.addRC] at hb
    rcases List.mem_append.mp hb with hb | hb
    · exact absurd hb hn
    · simp at hb; subst hb
      exact ⟨{ commit := c, parents := fr, explicit := cm.isMatch, bns := buildNums cm (c == head), time := cm.time }, cm,
        by simp [St.addBuild, Repo.addRC], hcm, (c == head), hbn⟩

theorem visit_bnShown (hT : h.Topo) {pl : Plug π β} {head : Nat} {fuel : Nat} {s s' : St β}
    {acc acc' : List Nat} {c : Nat} (ok : BnShown h s.rp.rcs s.rp.builds)
    {rel : List Nat} (hv : visit h pl head fuel rel (s, acc) c = .ok (s', acc')) :
    BnShown h s'.rp.rcs s'.rp.builds := by
  have H : VisitHyps h pl head (fun s => BnShown h s.rp.rcs s.rp.builds) (fun _ _ _ => True)
      (fun _ _ => True) (fun _ => True) :=
    { Rrefl := fun _ => trivial, Rtrans := fun _ _ => trivial, Qmono := fun _ _ _ _ => trivial
      Qnil := fun _ _ => trivial, Qcls := fun _ _ _ _ => trivial, Vstep := fun _ _ _ => trivial
      Hfin := fun hP _ _ hcm _ hf => ⟨finish_bnShown hcm hP hf, trivial⟩ }
  exact (visit_ind hT H fuel s [] acc c s' acc' ok trivial trivial hv).1

/-- the builds of the final graph carry the first build number of their commits -/
theorem rgraph_bnShown (hT : h.Topo) {pl : Plug π β} {g : Graph β} {mt : Option Nat}
    (hg : rgraphNW h pl mt = .ok g) : BnShown h g.rcs g.builds := by
  unfold rgraphNW at hg
  split at hg
  · cases hg
  · rename_i rp rbs hr
    cases hg
    have hstep : ∀ (pre : List Branch) (rp : Repo β) (b : Branch) (rp' : Repo β) (rb : RBranch β),
        BnShown h rp.rcs rp.builds → readBranch h pl pre.isEmpty rp b = .ok (rp', rb) →
        BnShown h rp'.rcs rp'.builds ∧ True := by
      intro pre rp b rp' rb ok hrb
      obtain ⟨hc0, st, rheads, hhc0, hv, he⟩ := readBranch_inv hrb
      have ok1 := visit_bnShown hT ok hv
      have hs := endBranch_spec he
      exact ⟨by rw [hs.rcs, hs.builds]; exact ok1, trivial⟩
    obtain ⟨hI, _, _⟩ := readBranches_ind (fun _ rp => BnShown h rp.rcs rp.builds) (fun _ _ _ => True) hstep
      (branchesOf h) [] Repo.empty rp rbs (by intro b hb; simp [Repo.empty] at hb) hr
    exact hI

theorem BN.lt_asymm (a b : BN) (h : BN.lt a b = true) : BN.lt b a = false := by
  unfold BN.lt at *
  repeat' split at h
  all_goals (repeat' split)
  all_goals (simp_all <;> omega)

theorem BN.not_lt_trans (a b c : BN) (h1 : BN.lt b a = false) (h2 : BN.lt c b = false) : BN.lt c a = false := by
  unfold BN.lt at *
  repeat' split at h1
  all_goals (repeat' split at h2)
  all_goals (repeat' split)
  all_goals (simp_all <;> omega)

/-- the first of the sorted build numbers is one of them and none is smaller -/
theorem head_sorted_min {l : List BN} {x : BN} (hx : (sortBy BN.lt l).head? = some x) :
    x ∈ l ∧ ∀ t ∈ l, BN.lt t x = false := by
  have hs := sortBy_sorted BN.lt BN.lt_asymm BN.not_lt_trans l
  cases hsl : sortBy BN.lt l with
  | nil => rw [hsl] at hx; cases hx
  | cons y ys =>
    rw [hsl] at hx hs
    simp only [List.head?_cons, Option.some.injEq] at hx
    subst hx
    refine ⟨(mem_sortBy BN.lt l y).mp (by rw [hsl]; simp), ?_⟩
    intro t ht
    have htm : t ∈ y :: ys := by rw [← hsl]; exact (mem_sortBy BN.lt l t).mpr ht
    rcases List.mem_cons.mp htm with h1 | h1
    · subst h1
      cases hc : BN.lt t t with
      | false => rfl
      | true => have := BN.lt_asymm t t hc; rw [hc] at this; cases this
    · exact (List.pairwise_cons.mp hs).1 t h1

end

end Ghist
