import AkVerif.Lemmas.SqlFilterText
/-!
C15, round 8: (1) every value that reaches `cursor.execute` is one of the objects the caller wrote
(`prepare_values`) — whatever its class, also an object that only the driver knows how to adapt;
(2) the ORDER BY text in effect reaches the statement as written (`prepare_text`), and the order of two
rows depends on a key only through the values SQLite computed for that key text (`rowBefore_congr`).
-/
namespace SqlFilter
open Ak

/-! ## the values the caller wrote -/

def argValues : Arg → List Value
  | .scalar v => [v]
  | .list vs => vs
  | .set vs => vs

def argsValues : List Arg → List Value
  | [] => []
  | a :: as => argValues a ++ argsValues as

def kwValues : List (Str × Arg) → List Value
  | [] => []
  | (_, a) :: rest => argValues a ++ kwValues rest

mutual
def condValues : Cond → List Value
  | .triple _ _ a => argValues a
  | .pair _ a => argValues a
  | .badOp _ a => argValues a
  | .badShape => []
  | .raw _ => []
  | .or cs kw => condsValues cs ++ kwValues kw
def condsValues : List Cond → List Value
  | [] => []
  | c :: cs => condValues c ++ condsValues cs
end

/-- every value written in a call: in the positional conditions (OR groups and their keyword members
included) and in the keyword filters; the two options (`_order_by`, `_as_scalars`) are not filters -/
def Call.values (c : Call) : List Value :=
  condsValues (c.args.filterMap id) ++ kwValues (filterKwargs c.kwargs)

theorem argsValues_append (xs ys : List Arg) : argsValues (xs ++ ys) = argsValues xs ++ argsValues ys := by
  induction xs with
  | nil => simp [argsValues]
  | cons x xs ih => simp [argsValues, ih]

theorem argsValues_scalars (vs : List Value) : argsValues (vs.map .scalar) = vs := by
  induction vs with
  | nil => simp [argsValues]
  | cons v vs ih => simp [argsValues, argValues, ih]

theorem mem_kwValues (v : Value) (kw : List (Str × Arg)) :
    v ∈ kwValues kw ↔ ∃ ka ∈ kw, v ∈ argValues ka.2 := by
  induction kw with
  | nil => simp [kwValues]
  | cons ka kw ih =>
    obtain ⟨k, a⟩ := ka
    simp [kwValues, ih]

/-- what `bindAll` hands to the driver are the objects of the list, one by one, untouched -/
theorem bindAll_values {as : List Arg} {vs : List Value} (h : bindAll as = .ok vs) : vs = argsValues as := by
  induction as generalizing vs with
  | nil => simp [bindAll] at h; simp [← h, argsValues]
  | cons a as ih =>
    cases a with
    | scalar v =>
      simp only [bindAll, bind, Except.bind] at h
      cases hr : bindAll as with
      | error e => simp [hr] at h
      | ok r =>
        simp [hr, pure, Except.pure] at h
        subst h
        simp [argsValues, argValues, ih hr]
    | list _ => simp [bindAll] at h
    | set _ => simp [bindAll] at h

theorem mkLeaf_values {f op : Str} {a : Arg} {l : Leaf} (h : mkLeaf f op a = .ok l) :
    ∀ v ∈ argsValues (leafWhere l).2, v ∈ argValues a := by
  unfold mkLeaf at h
  cases hc : classify (upper op) with
  | none => simp [hc] at h
  | some o =>
    simp only [hc] at h
    have hin : ∀ (neg : Bool) (vs : List Value), ∀ v ∈ argsValues (leafWhere (.inl f neg vs)).2, v ∈ vs := by
      intro neg vs v hv
      by_cases he : vs.isEmpty
      · simp [leafWhere, he, argsValues] at hv
      · simpa [leafWhere, he, argsValues_scalars] using hv
    rcases o with (c | neg | neg | neg)
    · cases c <;> first
        | (cases a with
           | scalar v =>
             cases v <;> simp at h <;> subst h <;> simp [leafWhere, argsValues, argValues]
           | list vs => simp at h; subst h; exact hin _ vs
           | set vs => simp at h; subst h; simp [leafWhere, argsValues])
        | (simp at h; subst h; simp [leafWhere, argsValues])
    · cases a with
      | scalar v => simp at h
      | list vs => simp at h; subst h; exact hin _ vs
      | set vs => simp at h; subst h; exact hin _ vs
    · cases a with
      | scalar v => cases v <;> simp at h; subst h; simp [leafWhere, argsValues]
      | list vs => simp at h
      | set vs => simp at h
    · cases a with
      | scalar v => cases v <;> simp at h; subst h; simp [leafWhere, argsValues, argValues]
      | list vs => simp at h
      | set vs => simp at h

theorem toWheres_values_append (xs ys : List NCond) :
    argsValues (toWheres (xs ++ ys)).2 = argsValues (toWheres xs).2 ++ argsValues (toWheres ys).2 := by
  rw [toWheres_append, argsValues_append]

theorem kw_values : ∀ (kw : List (Str × Arg)) (ns : List NCond), mkKw kw = .ok ns →
    ∀ v ∈ argsValues (toWheres ns).2, v ∈ kwValues kw
  | [], ns, h => by simp [mkKw] at h; subst h; simp [toWheres, argsValues]
  | (k, a) :: rest, ns, h => by
    simp only [mkKw, bind, Except.bind] at h
    cases hl : mkLeaf k opEq a with
    | error err => simp [hl] at h
    | ok l =>
      cases hr : mkKw rest with
      | error err => simp [hl, hr] at h
      | ok ls =>
        simp only [hl, hr, pure, Except.pure, Except.ok.injEq] at h
        subst h
        intro v hv
        simp only [toWheres, toWhere_leaf, argsValues_append, List.mem_append] at hv
        simp only [kwValues, List.mem_append]
        rcases hv with hv | hv
        · exact Or.inl (mkLeaf_values hl v hv)
        · exact Or.inr (kw_values rest ls hr v hv)

mutual
theorem cond_values : ∀ (c : Cond) (n : NCond), mkCond c = .ok n →
    ∀ v ∈ argsValues (toWhere n).2, v ∈ condValues c
  | .triple f op a, n, h => by
    simp only [mkCond, bind, Except.bind] at h
    cases hl : mkLeaf f op a with
    | error err => simp [hl] at h
    | ok l =>
      simp only [hl, pure, Except.pure, Except.ok.injEq] at h
      subst h
      intro v hv
      simpa [condValues] using mkLeaf_values hl v (by simpa [toWhere_leaf] using hv)
  | .pair f a, n, h => by
    simp only [mkCond, bind, Except.bind] at h
    cases hl : mkLeaf f opEq a with
    | error err => simp [hl] at h
    | ok l =>
      simp only [hl, pure, Except.pure, Except.ok.injEq] at h
      subst h
      intro v hv
      simpa [condValues] using mkLeaf_values hl v (by simpa [toWhere_leaf] using hv)
  | .badOp _ _, n, h => by simp [mkCond] at h
  | .badShape, n, h => by simp [mkCond] at h
  | .raw t, n, h => by
    simp only [mkCond, Except.ok.injEq] at h
    subst h
    intro v hv
    simp [toWhere_leaf, leafWhere, argsValues] at hv
  | .or cs kw, n, h => by
    simp only [mkCond, bind, Except.bind] at h
    cases hx : mkConds cs with
    | error err => simp [hx] at h
    | ok xs =>
      cases hy : mkKw (sortKw kw) with
      | error err => simp [hx, hy] at h
      | ok ys =>
        simp only [hx, hy, pure, Except.pure, Except.ok.injEq] at h
        subst h
        intro v hv
        rw [toWhere_or_snd, toWheres_values_append, List.mem_append] at hv
        simp only [condValues, List.mem_append]
        rcases hv with hv | hv
        · exact Or.inl (conds_values cs xs hx v hv)
        · right
          have := kw_values (sortKw kw) ys hy v hv
          rw [mem_kwValues] at this ⊢
          obtain ⟨ka, hka, hv⟩ := this
          exact ⟨ka, (mem_sortKw ka kw).mp hka, hv⟩
theorem conds_values : ∀ (cs : List Cond) (ns : List NCond), mkConds cs = .ok ns →
    ∀ v ∈ argsValues (toWheres ns).2, v ∈ condsValues cs
  | [], ns, h => by simp [mkConds] at h; subst h; simp [toWheres, argsValues]
  | c :: cs, ns, h => by
    simp only [mkConds, bind, Except.bind] at h
    cases hx : mkCond c with
    | error err => simp [hx] at h
    | ok x =>
      cases hr : mkConds cs with
      | error err => simp [hx, hr] at h
      | ok xs =>
        simp only [hx, hr, pure, Except.pure, Except.ok.injEq] at h
        subst h
        intro v hv
        simp only [toWheres, argsValues_append, List.mem_append] at hv
        simp only [condsValues, List.mem_append]
        rcases hv with hv | hv
        · exact Or.inl (cond_values c x hx v hv)
        · exact Or.inr (conds_values cs xs hr v hv)
end

/-- every bound value is one of the caller's values, as the caller gave it -/
theorem prepare_values {pct : Bool} {st : Stmt} {call : Call} {p : Prepared} (h : prepare pct st call = .ok p) :
    ∀ v ∈ p.params, v ∈ call.values := by
  obtain ⟨xs, ys, _, hx, hy, _, _, _, hb⟩ := prepare_ok h
  intro v hv
  rw [bindAll_values hb, toWheres_values_append, List.mem_append] at hv
  simp only [Call.values, List.mem_append]
  rcases hv with hv | hv
  · exact Or.inl (conds_values _ xs hx v hv)
  · right
    have := kw_values _ ys hy v hv
    rw [mem_kwValues] at this ⊢
    obtain ⟨ka, hka, hv⟩ := this
    exact ⟨ka, (mem_sortKw ka _).mp hka, hv⟩

/-! ## the ORDER BY text -/

/-- the statement is the caller's SELECT…FROM, the WHERE part, the GROUP BY part and then, character
by character, the ORDER BY text in effect behind ` ORDER BY ` (nothing when there is none) -/
theorem prepare_text {pct : Bool} {st : Stmt} {call : Call} {p : Prepared} (h : prepare pct st call = .ok p) :
    ∃ ts ord, renders pct p.conj = .ok ts ∧ orderClause st call.kwargs = .ok ord ∧
      p.text = st.selectFrom ++ wherePart ts ++ groupPart st ++
        (match ord with
         | some o => Gen.C15.orderPfx ++ o
         | none => []) := by
  obtain ⟨xs, ys, ord, _, _, _, hord, ht, _⟩ := prepare_ok h
  simp only [sqlText, bind, Except.bind] at ht
  cases hr : renders pct p.conj with
  | error e => simp [hr] at ht
  | ok ts =>
    simp only [hr, pure, Except.pure, Except.ok.injEq] at ht
    refine ⟨ts, ord, rfl, hord, ?_⟩
    rw [← ht]
    cases ord <;> simp [orderPart, groupPart]

/-- a key of the order is an opaque expression: which of two rows comes first depends on the key
texts only through the cells found under them -/
theorem rowBefore_congr : ∀ (o : OrderSpec) (r s r' s' : Cells),
    (∀ kd ∈ o, r.get? kd.1 = r'.get? kd.1 ∧ s.get? kd.1 = s'.get? kd.1) →
    rowBefore o r s = rowBefore o r' s'
  | [], _, _, _, _, _ => by simp [rowBefore]
  | (k, desc) :: rest, r, s, r', s', h => by
    have h0 := h (k, desc) (by simp)
    have ih := rowBefore_congr rest r s r' s' (fun kd hkd => h kd (by simp [hkd]))
    simp only [rowBefore]
    rw [← h0.1, ← h0.2, ih]

end SqlFilter
