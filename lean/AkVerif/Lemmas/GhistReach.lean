import AkVerif.Lemmas.GhistFind
/-! `reach` (the `reachable_iids` loop of `_read_branch`) computes the reachability closure of the branch heads. -/
namespace Ghist
open Ak

/-- result of a closure step: the set grows, new elements are reachable from the targets and closed under parents -/
structure ReachStep (rcs : List RC) (targets : List Nat) (s0 s1 : List Nat) : Prop where
  sub : ∀ x ∈ s0, x ∈ s1
  tgt : ∀ t ∈ targets, t ∈ s1
  from_ : ∀ x ∈ s1, x ∈ s0 ∨ ∃ t ∈ targets, RReach rcs x t
  closed : ∀ x ∈ s1, x ∉ s0 → ∃ rc, rcs[x]? = some rc ∧ ∀ p ∈ rc.parents, p ∈ s1

theorem reach_fold {rcs : List RC} (f : List Nat → Nat → Except Err (List Nat))
    (hf : ∀ s r s', f s r = .ok s' → ReachStep rcs [r] s s') :
    ∀ (l : List Nat) (s0 s1 : List Nat), l.foldlM f s0 = .ok s1 → ReachStep rcs l s0 s1 := by
  intro l
  induction l with
  | nil =>
    intro s0 s1 h; cases h
    exact ⟨fun x hx => hx, by simp, fun x hx => Or.inl hx, fun x hx hn => absurd hx hn⟩
  | cons a l ih =>
    intro s0 s1 h
    obtain ⟨s', h1, h2⟩ := foldlM_ok_cons f s0 s1 a l h
    have r1 := hf s0 a s' h1
    have r2 := ih s' s1 h2
    refine ⟨fun x hx => r2.sub x (r1.sub x hx), ?_, ?_, ?_⟩
    · intro t ht
      rcases List.mem_cons.mp ht with ht | ht
      · subst ht; exact r2.sub _ (r1.tgt _ (by simp))
      · exact r2.tgt t ht
    · intro x hx
      rcases r2.from_ x hx with h3 | ⟨t, ht, hr⟩
      · rcases r1.from_ x h3 with h4 | ⟨t, ht, hr⟩
        · exact Or.inl h4
        · simp at ht; subst ht; exact Or.inr ⟨_, by simp, hr⟩
      · exact Or.inr ⟨t, by simp [ht], hr⟩
    · intro x hx hn
      classical
      by_cases hx' : x ∈ s'
      · obtain ⟨rc, h3, h4⟩ := r1.closed x hx' hn
        exact ⟨rc, h3, fun p hp => r2.sub p (h4 p hp)⟩
      · exact r2.closed x hx hx'

theorem reach_spec (rcs : List RC) : ∀ (fuel : Nat) (s : List Nat) (r : Nat) (s' : List Nat),
    reach rcs fuel s r = .ok s' → ReachStep rcs [r] s s' := by
  intro fuel
  induction fuel with
  | zero => intro s r s' h; simp [reach] at h
  | succ fuel ih =>
    intro s r s' h
    rw [reach] at h
    split at h
    · rename_i hc
      cases h
      have hc : r ∈ s := by simpa using hc
      exact ⟨fun x hx => hx, by simpa using hc, fun x hx => Or.inl hx, fun x hx hn => absurd hx hn⟩
    · rename_i hc
      have hc : r ∉ s := by simpa using hc
      split at h
      · cases h
      · rename_i rc hrc
        have rs := reach_fold (reach rcs fuel) ih rc.parents (r :: s) s' h
        refine ⟨fun x hx => rs.sub x (List.mem_cons_of_mem _ hx), ?_, ?_, ?_⟩
        · intro t ht; simp at ht; subst ht; exact rs.sub _ (by simp)
        · intro x hx
          rcases rs.from_ x hx with h1 | ⟨t, ht, hr⟩
          · rcases List.mem_cons.mp h1 with h1 | h1
            · subst h1; exact Or.inr ⟨_, by simp, .refl _⟩
            · exact Or.inl h1
          · exact Or.inr ⟨r, by simp, .step hrc ht hr⟩
        · intro x hx hn
          classical
          by_cases hxr : x = r
          · subst hxr; exact ⟨rc, hrc, fun p hp => rs.tgt p hp⟩
          · exact rs.closed x hx (by simp [hxr, hn])

/-- `reachable_iids` : exactly the report commits reachable from the heads of the reduced graph -/
theorem reach_heads {rcs : List RC} {fuel : Nat} {rheads seen : List Nat}
    (h : rheads.foldlM (reach rcs fuel) [] = .ok seen) :
    ∀ x, x ∈ seen ↔ ∃ r ∈ rheads, RReach rcs x r := by
  have rs := reach_fold (reach rcs fuel) (reach_spec rcs fuel) rheads [] seen h
  intro x
  constructor
  · intro hx
    rcases rs.from_ x hx with h1 | h1
    · cases h1
    · exact h1
  · rintro ⟨r, hr, hrr⟩
    have hr' := rs.tgt r hr
    clear hr
    induction hrr with
    | refl => exact hr'
    | step hrc hp _ ih =>
      obtain ⟨rc', h1, h2⟩ := rs.closed _ hr' (by simp)
      rw [hrc] at h1; cases h1
      exact ih (h2 _ hp)

end Ghist
