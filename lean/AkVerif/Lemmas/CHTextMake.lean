import AkVerif.Lemmas.CHTextEq
import AkVerif.Lemmas.CHTextSlice
/-!
Lemmas about the chunk-list helpers of `CHText` (`make`, `_merge_chunks`, `calc_chunks_len`,
`resize_chunks_list`).
-/
namespace CHText
open Ak

theorem calcChunksLen_eq (cs : List Chunk) : calcChunksLen cs = (cellsOf cs).length := by
  induction cs with
  | nil => rfl
  | cons c cs ih => simp [calcChunksLen, ih]

/-- neighbours differ in colour -/
def NoAdjEq : List Chunk → Prop
  | [] => True
  | [_] => True
  | c :: d :: rest => c.col ≠ d.col ∧ NoAdjEq (d :: rest)

theorem canonChunks_iff (cs : List Chunk) : CanonChunks cs ↔ NoAdjEq cs ∧ ∀ c ∈ cs, c.text ≠ [] := by
  induction cs with
  | nil => simp [CanonChunks, NoAdjEq]
  | cons c cs ih =>
    cases cs with
    | nil => simp [CanonChunks, NoAdjEq]
    | cons d rest =>
      simp only [CanonChunks, NoAdjEq, ih, List.mem_cons, forall_eq_or_imp]
      constructor
      · intro ⟨h1, h2, h3, h4, h5⟩; exact ⟨⟨h2, h3⟩, h1, h4, h5⟩
      · intro ⟨⟨h2, h3⟩, h1, h4, h5⟩; exact ⟨h1, h2, h3, h4, h5⟩

theorem mergeGo_cells (cur : Chunk) (cs : List Chunk) : cellsOf (mergeGo cur cs) = cur.cells ++ cellsOf cs := by
  induction cs generalizing cur with
  | nil => simp [mergeGo]
  | cons c cs ih =>
    unfold mergeGo
    split
    · next h => rw [ih]; simp [Chunk.cells, h]
    · rw [cellsOf_cons, ih]; simp

theorem mergeGo_head (cur : Chunk) (cs : List Chunk) :
    ∃ h rest, mergeGo cur cs = h :: rest ∧ h.col = cur.col := by
  induction cs generalizing cur with
  | nil => exact ⟨cur, [], rfl, rfl⟩
  | cons c cs ih =>
    unfold mergeGo
    split
    · obtain ⟨h, rest, h1, h2⟩ := ih ⟨cur.col, cur.text ++ c.text⟩
      exact ⟨h, rest, h1, h2⟩
    · exact ⟨cur, _, rfl, rfl⟩

theorem mergeGo_noAdj (cur : Chunk) (cs : List Chunk) : NoAdjEq (mergeGo cur cs) := by
  induction cs generalizing cur with
  | nil => trivial
  | cons c cs ih =>
    unfold mergeGo
    split
    · exact ih _
    · next hne =>
      obtain ⟨h, rest, h1, h2⟩ := mergeGo_head c cs
      have := ih c
      rw [h1] at this ⊢
      exact ⟨by rw [h2]; exact hne, this⟩

theorem mergeGo_nonempty (cur : Chunk) (cs : List Chunk) (hcur : cur.text ≠ []) (h : ∀ c ∈ cs, c.text ≠ []) :
    ∀ c ∈ mergeGo cur cs, c.text ≠ [] := by
  induction cs generalizing cur with
  | nil => intro c hc; simp [mergeGo] at hc; rw [hc]; exact hcur
  | cons d cs ih =>
    unfold mergeGo
    split
    · exact ih _ (by simp [hcur]) (fun c hc => h c (by simp [hc]))
    · intro c hc
      simp only [List.mem_cons] at hc
      rcases hc with hc | hc
      · rw [hc]; exact hcur
      · exact ih d (h d (by simp)) (fun c hc => h c (by simp [hc])) c hc

theorem needMerge_false_iff (cs : List Chunk) : needMerge cs = false ↔ NoAdjEq cs := by
  induction cs with
  | nil => simp [needMerge, NoAdjEq]
  | cons c cs ih =>
    cases cs with
    | nil => simp [needMerge, NoAdjEq]
    | cons d rest => simp [needMerge, NoAdjEq, ih]

theorem mergeChunks_cells (cs : List Chunk) : cellsOf (mergeChunks cs) = cellsOf cs := by
  unfold mergeChunks
  split
  · cases cs with
    | nil => rfl
    | cons c rest => simp [mergeGo_cells]
  · rfl

theorem mergeChunks_noAdj (cs : List Chunk) : NoAdjEq (mergeChunks cs) := by
  unfold mergeChunks
  split
  · cases cs with
    | nil => trivial
    | cons c rest => exact mergeGo_noAdj c rest
  · next h => exact (needMerge_false_iff cs).mp (by simpa using h)

theorem mergeChunks_nonempty (cs : List Chunk) (h : ∀ c ∈ cs, c.text ≠ []) :
    ∀ c ∈ mergeChunks cs, c.text ≠ [] := by
  unfold mergeChunks
  split
  · cases cs with
    | nil => intro c hc; cases hc
    | cons c rest => exact mergeGo_nonempty c rest (h c (by simp)) (fun x hx => h x (by simp [hx]))
  · exact h

theorem make_cells (cs : List Chunk) : (Text.make cs).cells = cellsOf cs := by
  simp [Text.make, Text.cells, mergeChunks_cells]

theorem make_lenOK (cs : List Chunk) : LenOK (Text.make cs) := by
  simp [LenOK, Text.make, Text.cells, calcChunksLen_eq]

/-- on a list without empty chunks the optimized constructor is the public one -/
theorem make_eq_fromChunks (cs : List Chunk) (h : ∀ c ∈ cs, c.text ≠ []) :
    Canon (Text.make cs) ∧ Text.make cs = fromChunks cs := by
  have hc : Canon (Text.make cs) :=
    ⟨(canonChunks_iff _).mpr ⟨mergeChunks_noAdj cs, mergeChunks_nonempty cs h⟩, make_lenOK cs⟩
  refine ⟨hc, ?_⟩
  have hf := fromChunks_canon cs
  have hch : (Text.make cs).chunks = (fromChunks cs).chunks :=
    canon_unique _ _ hc.1 hf.1 (by
      have := make_cells cs
      have h2 := fromChunks_cells cs
      simp only [Text.cells] at this h2
      rw [this, h2])
  have hlen : (Text.make cs).scrlen = (fromChunks cs).scrlen := by
    rw [hc.2, hf.2, make_cells, fromChunks_cells]
  cases hm : Text.make cs
  cases hk : fromChunks cs
  rw [hm] at hch hlen
  rw [hk] at hch hlen
  simp only at hch hlen
  rw [hch, hlen]

theorem resizeLoop_cells (cs : List Chunk) (rem : Nat) (h : rem ≤ (cellsOf cs).length) :
    cellsOf (resizeLoop cs rem) = (cellsOf cs).take rem := by
  induction cs generalizing rem with
  | nil =>
    simp at h
    subst h
    simp [resizeLoop, spaces, Chunk.cells]
  | cons c cs ih =>
    unfold resizeLoop
    by_cases h0 : rem = 0
    · simp [h0]
    · rw [if_neg h0]
      by_cases hle : c.text.length ≤ rem
      · rw [if_pos hle, cellsOf_cons, ih _ (by simp at h; omega), cellsOf_cons, List.take_append,
          List.take_of_length_le (show c.cells.length ≤ rem by simp; omega)]
        simp
      · rw [if_neg hle, cellsOf_cons, ih 0 (by omega), cellsOf_cons, List.take_append]
        simp [Chunk.cells, List.map_take, show rem - c.text.length = 0 by omega]

/-- `resize_chunks_list(chunks, n)`, `n ≥ 0`: the first `n` cells, padded with default-coloured
spaces; the result has exactly `n` characters -/
theorem resizeChunks_spec (cs : List Chunk) (n : Nat) :
    ∃ r, resizeChunks cs (n : Int) = .ok r ∧
      cellsOf r = (cellsOf cs).take n ++ List.replicate (n - (cellsOf cs).length) (' ', 0) ∧
      calcChunksLen r = n := by
  unfold resizeChunks
  rw [if_neg (by omega)]
  simp only [calcChunksLen_eq]
  by_cases h1 : ((cellsOf cs).length : Int) = n
  · rw [if_pos h1]
    have : (cellsOf cs).length = n := by omega
    refine ⟨cs, rfl, ?_, this⟩
    rw [List.take_of_length_le (by omega), show n - (cellsOf cs).length = 0 by omega]; simp
  · rw [if_neg h1]
    by_cases h2 : ((cellsOf cs).length : Int) < n
    · rw [if_pos h2]
      refine ⟨_, rfl, ?_, ?_⟩
      · rw [cellsOf_append, List.take_of_length_le (by omega), spaces_eq]
        simp [Chunk.cells, show ((n : Int) - ((cellsOf cs).length : Int)).toNat = n - (cellsOf cs).length by omega]
      · rw [cellsOf_append, spaces_eq]
        simp [Chunk.cells]; omega
    · rw [if_neg h2]
      have hle : n ≤ (cellsOf cs).length := by omega
      refine ⟨_, rfl, ?_, ?_⟩
      · rw [Int.toNat_natCast, resizeLoop_cells cs n hle, show n - (cellsOf cs).length = 0 by omega]; simp
      · rw [Int.toNat_natCast, resizeLoop_cells cs n hle]; simp; omega

/-- a chunk of the colour of the last chunk is merged: the number of chunks does not change -/
theorem pushChunk_length_merge (cs : List Chunk) (c p : Chunk) (hlast : cs.getLast? = some p)
    (hcol : p.col = c.col) : (pushChunk cs c).length = cs.length := by
  fun_induction pushChunk cs c with
  | case1 c => simp at hlast
  | case2 q c heq => rfl
  | case3 q c hneq => simp at hlast; exact absurd (hlast ▸ hcol) hneq
  | case4 q r rs c ih =>
    simp only [List.length_cons]
    rw [ih (by simpa [List.getLast?_cons_cons] using hlast) hcol]
    rfl

end CHText
