import AkVerif.Lemmas.GhistSem
/-!
Attribution invariant of one branch: which report commits are "covered" (a build of the current branch, or a commit
whose build parents are known), that explicit covered commits are listed under a build of the branch, and that the
build is a minimal eligible commit containing them.  This is the key lemma of DESIGN.md §5 C06, proved about the
caches the code keeps.
-/
namespace Ghist
open Ak

section
variable {π β : Type} {h : Hist π}

def Hist.tagged (h : Hist π) (c : Nat) : Bool :=
  match h.commits[c]? with
  | some cm => !cm.tags.isEmpty
  | none => false

/-- a commit at which `_mk_rcommits` considers creating a build: it carries a build tag or is the branch head -/
def Elig (h : Hist π) (head e : Nat) : Prop := h.tagged e = true ∨ e = head

def Cov (st : St β) (r : Nat) : Prop := Covered st.rp st.br.bparents r

structure Attr (h : Hist π) (rp0 : Repo β) (head : Nat) (st : St β) : Prop where
  grow0 : Grow rp0 st.rp
  /-- a commit classified while reading this branch is reachable from the branch head -/
  newAnc : ∀ e cl, classify st.rp e = some cl → classify rp0 e = none → Anc h e head
  closed : ∀ r, Cov st r → ∃ rc, st.rp.rcs[r]? = some rc ∧ ∀ p ∈ rc.parents, Cov st p
  listed : ∀ r, Cov st r → explicitAt st.rp.rcs r →
    ∃ b ∈ st.rp.builds, isCurBuild st.rp b.iid = true ∧ r ∈ b.rcommits
  under : ∀ b ∈ st.rp.builds, isCurBuild st.rp b.iid = true → ∀ r ∈ b.rcommits, RReach st.rp.rcs r b.iid
  buildAt : ∀ b ∈ st.rp.builds, isCurBuild st.rp b.iid = true →
    ∃ rc, st.rp.rcs[b.iid]? = some rc ∧ Elig h head rc.commit ∧ classify rp0 rc.commit = none
  elig : ∀ e cl, classify st.rp e = some cl → classify rp0 e = none → Elig h head e →
    ∀ x, Anc h x e → h.isMatch x = true → ∃ i, selOf st.rp x i ∧ Cov st i
  minimal : ∀ b ∈ st.rp.builds, isCurBuild st.rp b.iid = true → ∀ rcb, st.rp.rcs[b.iid]? = some rcb →
    ∀ r ∈ b.rcommits, ∀ rcr, st.rp.rcs[r]? = some rcr → rcr.explicit = true →
    ∀ e', Elig h head e' → classify rp0 e' = none → Anc h e' rcb.commit → e' ≠ rcb.commit →
      ¬ Anc h rcr.commit e'

theorem Cov.lt {st : St β} (w : WF h st) {r : Nat} (hc : Cov st r) : r < st.rp.rcs.length := by
  rcases hc with hc | hc
  · simp only [isCurBuild, Bool.and_eq_true, List.any_eq_true] at hc
    obtain ⟨⟨b, hb, he⟩, _⟩ := hc
    have : b.iid = r := by simpa using he
    rw [← this]; exact w.bldLt b hb
  · exact (w.keyOk r hc).1

/-- the covered set is closed under reachability among report commits -/
theorem cov_reach {rp : Repo β} {bpar : List (Nat × List Nat)}
    (hcl : ∀ r, Covered rp bpar r → ∃ rc, rp.rcs[r]? = some rc ∧ ∀ p ∈ rc.parents, Covered rp bpar p)
    {i r : Nat} (hr : RReach rp.rcs i r) (hc : Covered rp bpar r) : Covered rp bpar i := by
  induction hr with
  | refl => exact hc
  | step hrc hp _ ih =>
    obtain ⟨rc', h1, h2⟩ := hcl _ hc
    rw [hrc] at h1; cases h1
    exact ih (h2 _ hp)

theorem getElem?_prefix {α} {l l' : List α} (hp : ∃ ext, l' = l ++ ext) {i : Nat} {a : α} (hi : l[i]? = some a) :
    l'[i]? = some a := by
  obtain ⟨ext, rfl⟩ := hp
  rw [List.getElem?_append_left (List.getElem?_eq_some_iff.mp hi).1]; exact hi

theorem getElem?_prefix_lt {α} {l l' : List α} (hp : ∃ ext, l' = l ++ ext) {i : Nat} (hi : i < l.length) :
    l'[i]? = l[i]? := by
  obtain ⟨ext, rfl⟩ := hp
  exact List.getElem?_append_left hi

theorem Hist.tagged_of_get {c : Nat} {cm : Commit π} (hcm : h.commits[c]? = some cm) :
    h.tagged c = !cm.tags.isEmpty := by
  simp [Hist.tagged, hcm]

theorem anc_antisymm (hT : h.Topo) {a b : Nat} (h1 : Anc h a b) (h2 : Anc h b a) : a = b := by
  have := h1.le hT; have := h2.le hT; omega

/-- what has to be checked about a build created by the step -/
structure NewBuildOk (h : Hist π) (rp0 : Repo β) (head : Nat) (s' : St β) (b : RB β) : Prop where
  under : ∀ r ∈ b.rcommits, RReach s'.rp.rcs r b.iid
  buildAt : ∃ rc, s'.rp.rcs[b.iid]? = some rc ∧ Elig h head rc.commit ∧ classify rp0 rc.commit = none
  minimal : ∀ rcb, s'.rp.rcs[b.iid]? = some rcb →
    ∀ r ∈ b.rcommits, ∀ rcr, s'.rp.rcs[r]? = some rcr → rcr.explicit = true →
    ∀ e', Elig h head e' → classify rp0 e' = none → Anc h e' rcb.commit → e' ≠ rcb.commit →
      ¬ Anc h rcr.commit e'

/-- generic preservation of the attribution invariant by one step that finishes the commit `c` -/
theorem Attr.step {rp0 : Repo β} {head : Nat} {s s' : St β} {c : Nat}
    (a : Attr h rp0 head s) (w : WF h s) (sm : Sem h s.rp) (sm' : Sem h s'.rp) (g : Grow s.rp s'.rp)
    (hcov : ∀ r, Cov s r → Cov s' r)
    (hbsub : ∀ b ∈ s.rp.builds, b ∈ s'.rp.builds)
    (hcur_old : ∀ b ∈ s.rp.builds, isCurBuild s'.rp b.iid = isCurBuild s.rp b.iid)
    (hnewb : ∀ b ∈ s'.rp.builds, b ∉ s.rp.builds → NewBuildOk h rp0 head s' b)
    (hnewcov : ∀ r, Cov s' r → ¬ Cov s r →
      (∃ rc, s'.rp.rcs[r]? = some rc ∧ ∀ p ∈ rc.parents, Cov s' p) ∧
      (explicitAt s'.rp.rcs r → ∃ b ∈ s'.rp.builds, isCurBuild s'.rp b.iid = true ∧ r ∈ b.rcommits))
    (hclsc : ∀ e cl, classify s'.rp e = some cl → classify s.rp e = none → e = c)
    (hV : Anc h c head)
    (helig : (∀ r, Cov s' r → ∃ rc, s'.rp.rcs[r]? = some rc ∧ ∀ p ∈ rc.parents, Cov s' p) →
      ∀ cl, classify s'.rp c = some cl → classify rp0 c = none → Elig h head c →
      ∀ x, Anc h x c → h.isMatch x = true → ∃ i, selOf s'.rp x i ∧ Cov s' i) :
    Attr h rp0 head s' := by
  classical
  have hpre := g.rcs
  have hclosed : ∀ r, Cov s' r → ∃ rc, s'.rp.rcs[r]? = some rc ∧ ∀ p ∈ rc.parents, Cov s' p := by
    intro r hr
    by_cases hold : Cov s r
    · obtain ⟨rc, h1, h2⟩ := a.closed r hold
      exact ⟨rc, getElem?_prefix hpre h1, fun p hp => hcov p (h2 p hp)⟩
    · exact (hnewcov r hr hold).1
  refine ⟨a.grow0.trans g, ?_, hclosed, ?_, ?_, ?_, ?_, ?_⟩
  · -- newAnc
    intro e cl he h0
    cases hes : classify s.rp e with
    | none => rw [hclsc e cl he hes]; exact hV
    | some cl0 => exact a.newAnc e cl0 hes h0
  · -- listed
    intro r hr hex
    by_cases hold : Cov s r
    · have hlt := hold.lt w
      obtain ⟨rc, h1, h2⟩ := hex
      rw [getElem?_prefix_lt hpre hlt] at h1
      obtain ⟨b, hb, hcb, hrb⟩ := a.listed r hold ⟨rc, h1, h2⟩
      exact ⟨b, hbsub b hb, by rw [hcur_old b hb]; exact hcb, hrb⟩
    · exact (hnewcov r hr hold).2 hex
  · -- under
    intro b hb hcb r hr
    by_cases hold : b ∈ s.rp.builds
    · rw [hcur_old b hold] at hcb
      obtain ⟨ext, hext⟩ := hpre
      rw [hext]; exact (a.under b hold hcb r hr).append
    · exact (hnewb b hb hold).under r hr
  · -- buildAt
    intro b hb hcb
    by_cases hold : b ∈ s.rp.builds
    · rw [hcur_old b hold] at hcb
      obtain ⟨rc, h1, h2, h3⟩ := a.buildAt b hold hcb
      exact ⟨rc, getElem?_prefix hpre h1, h2, h3⟩
    · exact (hnewb b hb hold).buildAt
  · -- elig
    intro e cl he h0 hel x hx hm
    cases hes : classify s.rp e with
    | none =>
      have := hclsc e cl he hes
      subst this
      exact helig hclosed cl he h0 hel x hx hm
    | some cl0 =>
      obtain ⟨i, h1, h2⟩ := a.elig e cl0 hes h0 hel x hx hm
      obtain ⟨clx, hclx⟩ := sm.anc_classified hes hx
      exact ⟨i, (g.sel_iff sm sm' hclx i).mpr h1, hcov i h2⟩
  · -- minimal
    intro b hb hcb rcb hrcb r hr rcr hrcr hex e' hel h0 hanc hne
    by_cases hold : b ∈ s.rp.builds
    · rw [hcur_old b hold] at hcb
      have hblt := w.bldLt b hold
      rw [getElem?_prefix_lt hpre hblt] at hrcb
      have hrlt : r < s.rp.rcs.length := by
        obtain ⟨_, hcovr⟩ := w.lstOk b hold hcb
        rcases hcovr r hr with h1 | h1
        · rw [h1]; exact hblt
        · exact (w.keyOk r h1).1
      rw [getElem?_prefix_lt hpre hrlt] at hrcr
      exact a.minimal b hold hcb rcb hrcb r hr rcr hrcr hex e' hel h0 hanc hne
    · exact (hnewb b hb hold).minimal rcb hrcb r hr rcr hrcr hex e' hel h0 hanc hne

/-- the matching proper ancestors of the commit being finished, seen through its frontier -/
theorem proper_anc_front {s : St β} {c : Nat} {cm : Commit π} {fr : List Nat} (sm : Sem h s.rp)
    (hcm : h.commits[c]? = some cm) (hQ : FrontQ h s cm.parents.reverse fr) {x : Nat} (hx : Anc h x c) (hne : x ≠ c)
    (hm : h.isMatch x = true) :
    ∃ i r cl, classify s.rp x = some cl ∧ selOf s.rp x i ∧ r ∈ fr ∧ RReach s.rp.rcs i r := by
  rcases hx.cases_parent with rfl | ⟨cm', p, hcm', hp, hxp⟩
  · exact absurd rfl hne
  · rw [hcm] at hcm'; cases hcm'
    obtain ⟨clp, hclp⟩ := hQ.cls p (List.mem_reverse.mpr hp)
    obtain ⟨clx, hclx⟩ := sm.anc_classified hclp hxp
    obtain ⟨i, hi⟩ := sm.matchSel x clx hclx hm
    obtain ⟨r, hr, hrr⟩ := (hQ.reach i).mpr ⟨p, List.mem_reverse.mpr hp, x, hxp, hi⟩
    exact ⟨i, r, clx, hclx, hi, hr, hrr⟩

theorem finish_attr {pl : Plug π β} {head : Nat} {s s' : St β} {c : Nat} {cm : Commit π} {fr : List Nat}
    {rp0 : Repo β} (hT : h.Topo) (a : Attr h rp0 head s) (w : WF h s) (sm : Sem h s.rp)
    (hcl : classify s.rp c = none) (hcm : h.commits[c]? = some cm) (hQ : FrontQ h s cm.parents.reverse fr)
    {rel : List Nat} (hf : finish pl head rel s c cm fr = .ok s') (w' : WF h s') (sm' : Sem h s'.rp) (g : Grow s.rp s'.rp)
    (hV : Anc h c head) :
    Attr h rp0 head s' := by
  obtain ⟨rp, br⟩ := s
  have hclsc : ∀ e cl, classify s'.rp e = some cl → classify rp e = none → e = c := by
    intro e cl he hn
    apply Classical.byContradiction
    intro hne
    rw [finish_classify_ne hf e hne, hn] at he; cases he
  have hc0 : classify rp0 c = none := by
    cases h0 : classify rp0 c with
    | none => rfl
    | some cl => have := a.grow0.cls c cl h0; simp only at this hcl; rw [hcl] at this; cases this
  -- selected-ness of proper ancestors carries over
  have hsel' : ∀ {x i cl}, classify rp x = some cl → selOf rp x i → selOf s'.rp x i :=
    fun hx hi => (g.sel_iff sm sm' hx _).mpr hi
  cases finish_cases hf with
  | irrelevant hm hrel hfr0 =>
    refine a.step w sm sm' g (fun r hr => hr) (fun b hb => hb) (fun b _ => rfl)
      (fun b hb hnb => absurd hb hnb) (fun r hr hnr => absurd hr hnr) hclsc hV ?_
    intro _ cl _ _ _ x hx hmx
    exfalso
    by_cases hxc : x = c
    · subst hxc; rw [Hist.isMatch_of_get hcm, hm] at hmx; cases hmx
    · obtain ⟨i, r, _, _, _, hr, _⟩ := proper_anc_front sm hcm hQ hx hxc hmx
      rw [hfr0] at hr; cases hr
  | plain htags hnh hm _ =>
    have hne : ¬ Elig h head c := by
      rintro (h1 | h1)
      · rw [Hist.tagged_of_get hcm, htags] at h1; cases h1
      · exact hnh h1
    have hcur : ∀ i, isCurBuild (rp.addPlain c fr) i = isCurBuild rp i := by
      intro i; simp only [Repo.addPlain]; split <;> rfl
    have hb : (rp.addPlain c fr).builds = rp.builds := by simp only [Repo.addPlain]; split <;> rfl
    refine a.step w sm sm' g (fun r hr => ?_) (fun b hb' => by rw [hb]; exact hb') (fun b _ => hcur _)
      (fun b hb' hnb => absurd (by rw [hb] at hb'; exact hb') hnb) (fun r hr hnr => absurd ?_ hnr) hclsc hV
      (fun _ cl _ _ he => absurd he hne)
    · rcases hr with hr | hr
      · exact Or.inl (by rw [hcur]; exact hr)
      · exact Or.inr hr
    · rcases hr with hr | hr
      · exact Or.inl (by rw [hcur] at hr; exact hr)
      · exact Or.inr hr
  | plainMatch htags hnh hm =>
    have hne : ¬ Elig h head c := by
      rintro (h1 | h1)
      · rw [Hist.tagged_of_get hcm, htags] at h1; cases h1
      · exact hnh h1
    exact a.step w sm sm' g (fun r hr => hr) (fun b hb' => hb') (fun b _ => rfl)
      (fun b hb' hnb => absurd hb' hnb) (fun r hr hnr => absurd hr hnr) hclsc hV
      (fun _ cl _ _ he => absurd he hne)
  | skip bpar new pb pbs bumps helig _ hfn hm hnew _ =>
    have hs := findNew_spec w.rcPar hfn
    obtain ⟨e, he, _, hk, _, hnewiff⟩ := hs.ext
    have hcur : ∀ i, isCurBuild (rp.addPlain c fr) i = isCurBuild rp i := by
      intro i; simp only [Repo.addPlain]; split <;> rfl
    have hb : (rp.addPlain c fr).builds = rp.builds := by simp only [Repo.addPlain]; split <;> rfl
    have hrcs : (rp.addPlain c fr).rcs = rp.rcs := by simp only [Repo.addPlain]; split <;> rfl
    have hcov : ∀ r, Covered rp bpar r → Cov (St.skipBuild ⟨rp, br⟩ c fr (buildNums cm (c == head)) bpar pb) r := by
      intro r hr
      rcases hr with hr | hr
      · exact Or.inl (by simp only [St.skipBuild]; rw [hcur]; exact hr)
      · exact Or.inr hr
    have hcov0 : ∀ r, Cov ⟨rp, br⟩ r → Covered rp bpar r := by
      intro r hr
      rcases hr with hr | hr
      · exact Or.inl hr
      · exact Or.inr (by rw [he, keys_append]; exact List.mem_append_right _ hr)
    refine a.step w sm sm' g (fun r hr => hcov r (hcov0 r hr))
      (fun b hb' => by simp only [St.skipBuild]; rw [hb]; exact hb') (fun b _ => hcur _)
      (fun b hb' hnb => absurd (by simp only [St.skipBuild] at hb'; rw [hb] at hb'; exact hb') hnb) ?_ hclsc hV ?_
    · intro r hr hnr
      have hrk : r ∈ keys e := by
        rcases hr with hr | hr
        · exact absurd (Or.inl (by simp only [St.skipBuild] at hr; rw [hcur] at hr; exact hr)) hnr
        · simp only [St.skipBuild] at hr
          rw [he, keys_append] at hr
          rcases List.mem_append.mp hr with hr | hr
          · exact hr
          · exact absurd (Or.inr hr) hnr
      obtain ⟨_, _, _, rc, h4, h5⟩ := hk r hrk
      refine ⟨⟨rc, by simp only [St.skipBuild]; rw [hrcs]; exact h4, fun p hp => hcov p (h5 p hp)⟩, ?_⟩
      intro hex
      simp only [St.skipBuild] at hex
      rw [hrcs] at hex
      have : r ∈ new := (hnewiff r).mpr ⟨hrk, hex⟩
      rw [hnew] at this; cases this
    · intro hclosed cl _ _ _ x hx hmx
      by_cases hxc : x = c
      · subst hxc; rw [Hist.isMatch_of_get hcm, hm] at hmx; cases hmx
      · obtain ⟨i, r, clx, hclx, hi, hr, hrr⟩ := proper_anc_front sm hcm hQ hx hxc hmx
        refine ⟨i, hsel' hclx hi, ?_⟩
        have hrr' : RReach (St.skipBuild ⟨rp, br⟩ c fr (buildNums cm (c == head)) bpar pb).rp.rcs i r := by
          simp only [St.skipBuild]; rw [hrcs]; exact hrr
        exact cov_reach hclosed hrr' (hcov r (hs.heads r hr))
  | build bpar new pb pbs bumps bn na helig hfn _ _ hreason _ _ =>
    have hs := findNew_spec w.rcPar hfn
    obtain ⟨e, he, _, hk, _, hnewiff⟩ := hs.ext
    let rc : RC := { commit := c, parents := fr, explicit := cm.isMatch, bns := buildNums cm (c == head), time := cm.time }
    let b : RB β := { iid := rp.rcs.length, rcommit := some rp.rcs.length, parents := pb,
                      rcommits := new ++ [rp.rcs.length], bumps := bumps, bn := bn }
    let s1 : St β := St.addBuild ⟨rp, br⟩ rc bn bpar new pb bumps na
    have hs1rcs : s1.rp.rcs = rp.rcs ++ [rc] := rfl
    have hs1b : s1.rp.builds = rp.builds ++ [b] := rfl
    have hs1bp : s1.br.bparents = bpar := rfl
    have hnp : rp.rcs.length ∉ rp.prevBuilds := fun hm' => by have := w.prevLt _ hm'; simp only at this; omega
    have hcur1 : ∀ i, isCurBuild s1.rp i = (isCurBuild rp i || i == rp.rcs.length) := by
      intro i
      exact isCurBuild_push (rp.addRC rc) b hnp i
    have hcov : ∀ r, Covered rp bpar r → Cov s1 r := by
      intro r hr
      rcases hr with hr | hr
      · exact Or.inl (by rw [hcur1, hr]; rfl)
      · exact Or.inr hr
    have hcov0 : ∀ r, Cov ⟨rp, br⟩ r → Covered rp bpar r := by
      intro r hr
      rcases hr with hr | hr
      · exact Or.inl hr
      · exact Or.inr (by rw [he, keys_append]; exact List.mem_append_right _ hr)
    have hcovlen : Cov s1 rp.rcs.length := Or.inl (by rw [hcur1]; simp)
    have hbcur : isCurBuild s1.rp b.iid = true := by rw [hcur1]; simp [b]
    have hbmem : b ∈ s1.rp.builds := by rw [hs1b]; simp
    have hnewk : ∀ r ∈ new, r ∈ keys e := fun r hr => ((hnewiff r).mp hr).1
    have hklt : ∀ r ∈ keys e, r < rp.rcs.length := by
      intro r hr
      obtain ⟨_, _, _, rc', h4, _⟩ := hk r hr
      exact (List.getElem?_eq_some_iff.mp h4).1
    have helc : Elig h head c := by
      rcases helig with h1 | h1
      · left; rw [Hist.tagged_of_get hcm]; cases ht : cm.tags <;> simp_all
      · exact Or.inr h1
    refine a.step (s' := s1) w sm sm' g (fun r hr => hcov r (hcov0 r hr))
      (fun b' hb' => by rw [hs1b]; exact List.mem_append_left _ hb')
      (fun b' hb' => by
        rw [hcur1]
        have : b'.iid ≠ rp.rcs.length := by have := w.bldLt b' hb'; simp only at this; omega
        have : (b'.iid == rp.rcs.length) = false := by simpa using this
        simp [this])
      ?_ ?_ hclsc hV ?_
    · -- the new build
      intro b' hb' hnb
      have hb'eq : b' = b := by
        rw [hs1b] at hb'
        rcases List.mem_append.mp hb' with h1 | h1
        · exact absurd h1 hnb
        · simpa using h1
      subst hb'eq
      refine ⟨?_, ⟨rc, by rw [hs1rcs]; simp [b], helc, hc0⟩, ?_⟩
      · intro r hr
        rcases List.mem_append.mp hr with hr | hr
        · obtain ⟨_, _, ⟨hd, hhd, hreach⟩, _⟩ := hk r (hnewk r hr)
          rw [hs1rcs]
          exact .step (rc := rc) (by simp [b]) hhd hreach.append
        · simp at hr; subst hr; exact .refl _
      · intro rcb hrcb r hr rcr hrcr hex e' hel h0 hanc hne hcontra
        rw [hs1rcs] at hrcb hrcr
        have hrcb' : rcb = rc := by simpa [b] using hrcb.symm
        subst hrcb'
        rcases List.mem_append.mp hr with hr | hr
        · have hrlt := hklt r (hnewk r hr)
          rw [List.getElem?_append_left hrlt] at hrcr
          -- `e'` is a proper ancestor of `c`, hence classified before
          obtain ⟨cle, hcle⟩ : ∃ cl, classify rp e' = some cl := by
            rcases hanc.cases_parent with h1 | ⟨cm', p, hcm', hp, hxp⟩
            · exact absurd h1 hne
            · rw [hcm] at hcm'; cases hcm'
              obtain ⟨clp, hclp⟩ := hQ.cls p (List.mem_reverse.mpr hp)
              exact sm.anc_classified hclp hxp
          have hmx : h.isMatch rcr.commit = true := by rw [← w.rcExp r rcr hrcr]; exact hex
          obtain ⟨i, hi, hci⟩ := a.elig e' cle hcle h0 hel rcr.commit hcontra hmx
          have := w.rcSel r rcr hrcr
          simp only [selOf] at hi
          simp only at this
          rw [this] at hi; cases hi
          obtain ⟨h1, h2, _⟩ := hk r (hnewk r hr)
          rcases hci with h3 | h3
          · simp only at h3; rw [h2] at h3; cases h3
          · exact h1 h3
        · simp at hr; subst hr
          have : rcr = rc := by simpa using hrcr.symm
          subst this
          exact hne (anc_antisymm hT hanc hcontra)
    · -- newly covered report commits
      intro r hr hnr
      have hcases : r ∈ keys e ∨ r = rp.rcs.length := by
        rcases hr with hr | hr
        · rw [hcur1] at hr
          cases h1 : isCurBuild rp r with
          | true => exact absurd (Or.inl h1) hnr
          | false => rw [h1] at hr; right; simpa using hr
        · rw [hs1bp, he, keys_append] at hr
          rcases List.mem_append.mp hr with hr | hr
          · exact Or.inl hr
          · exact absurd (Or.inr hr) hnr
      rcases hcases with hrk | hrl
      · obtain ⟨_, _, _, rc', h4, h5⟩ := hk r hrk
        have hrlt := hklt r hrk
        refine ⟨⟨rc', by rw [hs1rcs, List.getElem?_append_left hrlt]; exact h4, fun p hp => hcov p (h5 p hp)⟩, ?_⟩
        intro hex
        obtain ⟨rc2, h6, h7⟩ := hex
        rw [hs1rcs, List.getElem?_append_left hrlt] at h6
        exact ⟨b, hbmem, hbcur, List.mem_append_left _ ((hnewiff r).mpr ⟨hrk, rc2, h6, h7⟩)⟩
      · subst hrl
        refine ⟨⟨rc, by rw [hs1rcs]; simp, fun p hp => hcov p (hs.heads p hp)⟩, ?_⟩
        intro _
        exact ⟨b, hbmem, hbcur, by simp [b]⟩
    · -- the finished commit is eligible
      intro hclosed cl _ _ _ x hx hmx
      by_cases hxc : x = c
      · subst hxc
        refine ⟨rp.rcs.length, ?_, hcovlen⟩
        show List.lookup x ((x, rp.rcs.length) :: rp.selected) = some rp.rcs.length
        exact lookup_cons_self _ _ _
      · obtain ⟨i, r, clx, hclx, hi, hr, hrr⟩ := proper_anc_front sm hcm hQ hx hxc hmx
        refine ⟨i, hsel' hclx hi, ?_⟩
        have hrr' : RReach s1.rp.rcs i r := by rw [hs1rcs]; exact hrr.append
        exact cov_reach hclosed hrr' (hcov r (hs.heads r hr))

/-! ### the invariant along the DFS of one branch -/

theorem attr_hyps (hT : h.Topo) (pl : Plug π β) (head : Nat) (rp0 : Repo β) :
    VisitHyps h pl head (fun s => (WF h s ∧ Sem h s.rp) ∧ Attr h rp0 head s) (FrontQ h)
      (fun s s' => Grow s.rp s'.rp) (fun c => Anc h c head) where
  Rrefl := fun s => Grow.refl s.rp
  Rtrans := fun h1 h2 => h1.trans h2
  Qmono := fun hP hP' hR hQ => (sem_hyps h pl head).Qmono hP.1 hP'.1 hR hQ
  Qnil := fun s hP => (sem_hyps h pl head).Qnil s hP.1
  Qcls := fun hP hQ _ hc => (sem_hyps h pl head).Qcls hP.1 hQ trivial hc
  Vstep := fun hV hcm hp => Anc.trans (.step hcm hp (.refl _)) hV
  Hfin := by
    intro rel s c cm fr s' hP hV hcl hcm hQ hf
    obtain ⟨⟨w', sm'⟩, g⟩ := (sem_hyps h pl head).Hfin hP.1 trivial hcl hcm hQ hf
    exact ⟨⟨⟨w', sm'⟩, finish_attr hT hP.2 hP.1.1 hP.1.2 hcl hcm hQ hf w' sm' g hV⟩, g⟩

theorem attr_init (rp0 : Repo β) (head : Nat) (w : WF h ⟨rp0, Br.empty⟩) : Attr h rp0 head ⟨rp0, Br.empty⟩ := by
  have hnc : ∀ i, isCurBuild rp0 i = false := by
    intro i
    cases hc : isCurBuild rp0 i with
    | false => rfl
    | true => have := (w.curIff i).mpr hc; simp [Br.empty] at this
  have hncov : ∀ r, ¬ Cov (⟨rp0, Br.empty⟩ : St β) r := by
    rintro r (hr | hr)
    · rw [hnc] at hr; cases hr
    · simp [Br.empty, keys] at hr
  exact
  { grow0 := Grow.refl _
    newAnc := by intro e cl h1 h2; simp only at h1; rw [h2] at h1; cases h1
    closed := fun r hr => absurd hr (hncov r)
    listed := fun r hr => absurd hr (hncov r)
    under := by intro b _ hc; rw [hnc] at hc; cases hc
    buildAt := by intro b _ hc; rw [hnc] at hc; cases hc
    elig := by intro e cl h1 h2; simp only at h1; rw [h2] at h1; cases h1
    minimal := by intro b _ hc; rw [hnc] at hc; cases hc }

end

end Ghist
