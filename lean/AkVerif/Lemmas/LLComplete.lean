import AkVerif.Lemmas.LLTerm
/-! Spike for C02: a conflict-free table built from closed nullable/first/follow sets makes the
    parse loop accept every sentence (no roll-back ever happens). -/
set_option linter.unusedSectionVars false
namespace LL
variable {σ : Type} [DecidableEq σ]

structure Sets (σ : Type) where
  N : σ → Bool
  F : σ → σ → Bool
  W : σ → σ → Bool

def firstSeq (G : Cfg σ) (S : Sets σ) : List σ → σ → Bool
  | [], _ => false
  | s :: rest, t =>
    if G.isTerm s then decide (t = s) else (S.F s t || (S.N s && firstSeq G S rest t))

def nullSeq (G : Cfg σ) (S : Sets σ) : List σ → Bool
  | [] => true
  | s :: rest => !G.isTerm s && S.N s && nullSeq G S rest

/-- derivation trees of the factorised grammar (before splicing) -/
def PValid (G : Cfg σ) (P : Gram σ) : Tree σ → Prop
  | .leaf n _ => G.isTerm n = true
  | .node n cs => G.isTerm n = false ∧ cs.map Tree.name ∈ P.prods n ∧ ∀ c ∈ cs, PValid G P c
termination_by t => sizeOf t
decreasing_by
  simp_wf
  have := List.sizeOf_lt_of_mem ‹c ∈ cs›
  omega

theorem PValid_leaf (G : Cfg σ) (P : Gram σ) (n : σ) (v : List Char) :
    PValid G P (.leaf n v) ↔ G.isTerm n = true := by unfold PValid; rfl

theorem PValid_node (G : Cfg σ) (P : Gram σ) (n : σ) (cs : List (Tree σ)) :
    PValid G P (.node n cs) ↔
      G.isTerm n = false ∧ cs.map Tree.name ∈ P.prods n ∧ ∀ c ∈ cs, PValid G P c := by
  rw [PValid]

/-- what the completeness proof needs from the computed sets and the table -/
structure Closed (G : Cfg σ) (P : Gram σ) (S : Sets σ) : Prop where
  nul : ∀ X p, p ∈ P.prods X → nullSeq G S p = true → S.N X = true
  fst : ∀ X p t, p ∈ P.prods X → firstSeq G S p t = true → S.F X t = true
  fol1 : ∀ A p i X t, p ∈ P.prods A → p[i]? = some X → G.isTerm X = false →
      firstSeq G S (p.drop (i + 1)) t = true → S.W X t = true
  fol2 : ∀ A p i X t, p ∈ P.prods A → p[i]? = some X → G.isTerm X = false →
      nullSeq G S (p.drop (i + 1)) = true → S.W A t = true → S.W X t = true
  /-- table built as `_make_llone_table` does, and conflict-free -/
  tbl : ∀ X p t, G.isTerm X = false → p ∈ P.prods X →
      (firstSeq G S p t = true ∨ (nullSeq G S p = true ∧ S.W X t = true)) → G.table X t = some [p]

/-- a tree with empty yield is rooted at a nullable non-terminal -/
theorem null_of_empty {G : Cfg σ} {P : Gram σ} {S : Sets σ} (hC : Closed G P S) :
    ∀ (d : Tree σ), PValid G P d → d.yield = [] → G.isTerm d.name = false ∧ S.N d.name = true
  | .leaf n v, _, hy => by simp [Tree.yield] at hy
  | .node n cs, hd, hy => by
    obtain ⟨hnt, hmem, hcs⟩ := (PValid_node ..).1 hd
    refine ⟨hnt, hC.nul n _ hmem ?_⟩
    have hall : ∀ c ∈ cs, c.yield = [] := by
      intro c hc
      have : yieldL cs = [] := by simpa using hy
      simp [yieldL] at this
      exact this c hc
    -- nullSeq of the child names
    have : ∀ (l : List (Tree σ)), (∀ c ∈ l, c ∈ cs) → nullSeq G S (l.map Tree.name) = true := by
      intro l
      induction l with
      | nil => intro _; rfl
      | cons c l ih =>
        intro hl
        have hc : c ∈ cs := hl c (by simp)
        have := null_of_empty hC c (hcs c hc) (hall c hc)
        simp [nullSeq, this.1, this.2]
        exact ih (fun x hx => hl x (by simp [hx]))
    exact this cs (fun _ h => h)
termination_by d => sizeOf d
decreasing_by
  simp_wf
  have := List.sizeOf_lt_of_mem hc
  omega


/-- the first token of a tree's yield is in the FIRST set of its root -/
theorem first_of_yield {G : Cfg σ} {P : Gram σ} {S : Sets σ} (hC : Closed G P S) :
    ∀ (d : Tree σ), PValid G P d → ∀ (tok : Tok σ) (rest : List (Tok σ)), d.yield = tok :: rest →
      (G.isTerm d.name = true ∧ tok.name = d.name) ∨
      (G.isTerm d.name = false ∧ S.F d.name tok.name = true)
  | .leaf n v, hd, tok, rest, hy => by
    left
    simp [Tree.yield] at hy
    exact ⟨(PValid_leaf ..).1 hd, by rw [← hy.1]; rfl⟩
  | .node n cs, hd, tok, rest, hy => by
    obtain ⟨hnt, hmem, hcs⟩ := (PValid_node ..).1 hd
    right
    refine ⟨hnt, hC.fst n _ tok.name hmem ?_⟩
    have : ∀ (l : List (Tree σ)), (∀ c ∈ l, c ∈ cs) → ∀ r, yieldL l = tok :: r →
        firstSeq G S (l.map Tree.name) tok.name = true := by
      intro l
      induction l with
      | nil => intro _ r hr; simp at hr
      | cons c l ih =>
        intro hl r hr
        have hc : c ∈ cs := hl c (by simp)
        have hl' : ∀ x ∈ l, x ∈ cs := fun x hx => hl x (by simp [hx])
        simp only [List.map_cons, firstSeq]
        cases hcy : c.yield with
        | nil =>
          have hn := null_of_empty hC c (hcs c hc) hcy
          have hr' : yieldL l = tok :: r := by
            have : yieldL (c :: l) = c.yield ++ yieldL l := by simp [yieldL]
            rw [this, hcy] at hr; simpa using hr
          simp [hn.1, hn.2, ih hl' r hr']
        | cons t0 r0 =>
          have ht : t0 = tok := by
            have : yieldL (c :: l) = c.yield ++ yieldL l := by simp [yieldL]
            rw [this, hcy] at hr; simp at hr; exact hr.1
          subst ht
          rcases first_of_yield hC c (hcs c hc) t0 r0 hcy with ⟨h1, h2⟩ | ⟨h1, h2⟩
          · simp [h1, h2]
          · simp [h1, h2]
    exact this cs (fun _ h => h) rest (by simpa using hy)
termination_by d => sizeOf d
decreasing_by
  simp_wf
  have := List.sizeOf_lt_of_mem hc
  omega

/-- the sequence version, for any list of valid trees -/
theorem firstSeq_of_yield {G : Cfg σ} {P : Gram σ} {S : Sets σ} (hC : Closed G P S) :
    ∀ (l : List (Tree σ)), (∀ c ∈ l, PValid G P c) → ∀ (tok : Tok σ) (r : List (Tok σ)),
      yieldL l = tok :: r → firstSeq G S (l.map Tree.name) tok.name = true
  | [], _, _, _, hr => by simp at hr
  | c :: l, hl, tok, r, hr => by
    have hc := hl c (by simp)
    have hl' : ∀ x ∈ l, PValid G P x := fun x hx => hl x (by simp [hx])
    have hsplit : yieldL (c :: l) = c.yield ++ yieldL l := by simp [yieldL]
    simp only [List.map_cons, firstSeq]
    cases hcy : c.yield with
    | nil =>
      have hn := null_of_empty hC c hc hcy
      rw [hsplit, hcy] at hr
      simp [hn.1, hn.2, firstSeq_of_yield hC l hl' tok r (by simpa using hr)]
    | cons t0 r0 =>
      rw [hsplit, hcy] at hr
      simp at hr
      obtain ⟨ht, _⟩ := hr
      subst ht
      rcases first_of_yield hC c hc t0 r0 hcy with ⟨h1, h2⟩ | ⟨h1, h2⟩
      · simp [h1, h2]
      · simp [h1, h2]

theorem nullSeq_of_empty {G : Cfg σ} {P : Gram σ} {S : Sets σ} (hC : Closed G P S) :
    ∀ (l : List (Tree σ)), (∀ c ∈ l, PValid G P c) → yieldL l = [] →
      nullSeq G S (l.map Tree.name) = true
  | [], _, _ => rfl
  | c :: l, hl, hy => by
    have hsplit : yieldL (c :: l) = c.yield ++ yieldL l := by simp [yieldL]
    rw [hsplit] at hy
    simp at hy
    have hn := null_of_empty hC c (hl c (by simp)) hy.1
    simp [nullSeq, hn.1, hn.2]
    exact nullSeq_of_empty hC l (fun x hx => hl x (by simp [hx])) hy.2


theorem drop_eq_cons {α : Type} {l : List α} {i : Nat} {a : α} {r : List α}
    (h : l.drop i = a :: r) : l[i]? = some a ∧ l.drop (i + 1) = r := by
  have hi : i < l.length := by
    rcases Nat.lt_or_ge i l.length with h' | h'
    · exact h'
    · rw [List.drop_eq_nil_of_le h'] at h; cases h
  rw [List.drop_eq_getElem_cons hi] at h
  injection h with h1 h2
  exact ⟨by rw [List.getElem?_eq_getElem hi, h1], h2⟩

theorem drop_add_of_append {α : Type} {l a b : List α} {i : Nat}
    (h : l.drop i = a ++ b) : l.drop (i + a.length) = b := by
  have : l.drop (i + a.length) = (l.drop i).drop a.length := by
    rw [List.drop_drop]
  rw [this, h]
  simp

/-- push a finished child onto a frame -/
def Frame.push (f : Frame σ) (t : Tree σ) (c : Nat) : Frame σ :=
  { f with vals := f.vals ++ [t], cur := c }

/-- main lemma: with a conflict-free table built from closed sets, the machine walks down any
    derivation tree without ever rolling back -/
theorem descend {G : Cfg σ} {P : Gram σ} {S : Sets σ} {toks : List (Tok σ)} (hC : Closed G P S) :
    ∀ (d : Tree σ), PValid G P d → ∀ (f : Frame σ) (rest : List (Frame σ)) (prod : List σ)
    (suf : List (Tok σ)),
    f.alts[f.idx]? = some prod → prod[f.vals.length]? = some d.name →
    toks.drop f.cur = d.yield ++ suf →
    (G.isTerm d.name = false → ∃ ta r, suf = ta :: r ∧ S.W d.name ta.name = true) →
    ∃ k t', iter G toks k (f :: rest) = .cont (f.push t' (f.cur + d.yield.length) :: rest)
  | .leaf n v, hd, f, rest, prod, suf, hcur, hsym, hin, hW => by
    have hlt : f.vals.length < prod.length := by
      rcases Nat.lt_or_ge f.vals.length prod.length with h' | h'
      · exact h'
      · simp [List.getElem?_eq_none h'] at hsym
    have hne : ¬ f.vals.length = prod.length := by omega
    have hterm : G.isTerm n = true := (PValid_leaf ..).1 hd
    simp only [Tree.yield, Tree.name] at hin hsym
    obtain ⟨htok, _⟩ := drop_eq_cons (by simpa using hin)
    refine ⟨1, Tree.leaf n v, ?_⟩
    simp [iter, step, hcur, hne, hsym, htok, hterm, Frame.push, Tree.yield]
  | .node X cs, hd, f, rest, prod, suf, hcur, hsym, hin, hW => by
    have hlt : f.vals.length < prod.length := by
      rcases Nat.lt_or_ge f.vals.length prod.length with h' | h'
      · exact h'
      · simp [List.getElem?_eq_none h'] at hsym
    have hne : ¬ f.vals.length = prod.length := by omega
    obtain ⟨hnt, hmem, hcs⟩ := (PValid_node ..).1 hd
    simp only [Tree.name] at hsym hW
    simp only [yield_node] at hin
    obtain ⟨ta0, r0, hsuf, hWX⟩ := hW hnt
    -- the lookahead token and the table entry
    have hlook : ∃ tok, toks[f.cur]? = some tok ∧ G.table X tok.name = some [cs.map Tree.name] := by
      cases hy : yieldL cs with
      | nil =>
        rw [hy, hsuf] at hin
        obtain ⟨htok, _⟩ := drop_eq_cons (by simpa using hin)
        exact ⟨ta0, htok, hC.tbl X _ _ hnt hmem (Or.inr ⟨nullSeq_of_empty hC cs hcs hy, hWX⟩)⟩
      | cons tok r =>
        rw [hy] at hin
        obtain ⟨htok, _⟩ := drop_eq_cons (by simpa using hin)
        exact ⟨tok, htok, hC.tbl X _ _ hnt hmem (Or.inl (firstSeq_of_yield hC cs hcs tok r hy))⟩
    obtain ⟨tok, htok, htab⟩ := hlook
    let p := cs.map Tree.name
    -- first step: push the frame for X
    let g0 : Frame σ := { sym := X, start := f.cur, cur := f.cur, alts := [p], idx := 0, vals := [] }
    have hs0 : step G toks (f :: rest) = .cont (g0 :: f :: rest) := by
      simp [step, hcur, hne, hsym, htok, hnt, htab, g0, p]
    -- walking through the children
    have seq : ∀ (ds : List (Tree σ)), (∀ c ∈ ds, c ∈ cs) → ∀ (g : Frame σ),
        g.sym = X → g.alts = [p] → g.idx = 0 → p.drop g.vals.length = ds.map Tree.name →
        toks.drop g.cur = yieldL ds ++ suf →
        ∃ k vals', iter G toks k (g :: f :: rest) =
            .cont ({ g with vals := vals', cur := g.cur + (yieldL ds).length } :: f :: rest) ∧
          vals'.length = g.vals.length + ds.length := by
      intro ds
      induction ds with
      | nil =>
        intro _ g _ _ _ _ _
        exact ⟨0, g.vals, by simp [iter], by simp⟩
      | cons c ds ih =>
        intro hds g hgs hga hgi hdrop hgin
        have hc : c ∈ cs := hds c (by simp)
        have hds' : ∀ x ∈ ds, x ∈ cs := fun x hx => hds x (by simp [hx])
        have hvds : ∀ x ∈ ds, PValid G P x := fun x hx => hcs x (hds' x hx)
        simp only [List.map_cons] at hdrop
        obtain ⟨hsymc, hdrop'⟩ := drop_eq_cons hdrop
        have hsplit : yieldL (c :: ds) = c.yield ++ yieldL ds := by simp [yieldL]
        have hginc : toks.drop g.cur = c.yield ++ (yieldL ds ++ suf) := by
          rw [hgin, hsplit, List.append_assoc]
        have hgcur : g.alts[g.idx]? = some p := by rw [hga, hgi]; rfl
        have hWc : G.isTerm c.name = false →
            ∃ ta r, yieldL ds ++ suf = ta :: r ∧ S.W c.name ta.name = true := by
          intro hcnt
          cases hyd : yieldL ds with
          | nil =>
            refine ⟨ta0, r0, by simp [hsuf], ?_⟩
            apply hC.fol2 X p g.vals.length c.name ta0.name hmem hsymc hcnt _ hWX
            rw [hdrop']; exact nullSeq_of_empty hC ds hvds hyd
          | cons t1 r1 =>
            refine ⟨t1, r1 ++ suf, by simp, ?_⟩
            apply hC.fol1 X p g.vals.length c.name t1.name hmem hsymc hcnt
            rw [hdrop']; exact firstSeq_of_yield hC ds hvds t1 r1 hyd
        obtain ⟨k1, t1, hk1⟩ := descend hC c (hcs c hc) g (f :: rest) p (yieldL ds ++ suf)
          hgcur hsymc hginc hWc
        have hg1in : toks.drop (g.push t1 (g.cur + c.yield.length)).cur = yieldL ds ++ suf := by
          simp only [Frame.push]
          exact drop_add_of_append hginc
        obtain ⟨k2, vals', hk2, hlen2⟩ := ih hds' (g.push t1 (g.cur + c.yield.length))
          (by simp [Frame.push, hgs]) (by simp [Frame.push, hga]) (by simp [Frame.push, hgi])
          (by simp [Frame.push]; exact hdrop') hg1in
        refine ⟨k1 + k2, vals', ?_, ?_⟩
        · rw [iter_add k1 k2 _ _ hk1, hk2]
          simp [Frame.push, hsplit, Nat.add_assoc]
        · simp [Frame.push] at hlen2; simp; omega
    obtain ⟨k, vals', hk, hlen⟩ := seq cs (fun _ h => h) g0 rfl rfl rfl (by simp [g0, p])
      (by simpa [g0] using hin)
    -- last step: the production of X is complete
    let g1 : Frame σ := { g0 with vals := vals', cur := g0.cur + (yieldL cs).length }
    have hs1 : step G toks (g1 :: f :: rest) =
        .cont (f.push (Tree.node X (splice G p vals')) (f.cur + (yieldL cs).length) :: rest) := by
      have : vals'.length = p.length := by simp [g0] at hlen; simp [p, hlen]
      simp [step, g1, g0, this, Frame.push]
    refine ⟨1 + k + 1, Tree.node X (splice G p vals'), ?_⟩
    rw [iter_add (1 + k) 1 (f :: rest) (g1 :: f :: rest)]
    · simp [iter, hs1]
    · rw [Nat.add_comm 1 k, iter_succ_cont _ hs0]; exact hk
termination_by d => sizeOf d
decreasing_by
  simp_wf
  have := List.sizeOf_lt_of_mem hc
  omega


theorem run_of_iter_done {G : Cfg σ} {toks : List (Tok σ)} : ∀ (k : Nat) (st : List (Frame σ)) (x : Tree σ),
    iter G toks k st = .done x → ∀ fuel, k ≤ fuel → run G toks fuel st = .ok x
  | 0, st, x, h, _, _ => by simp [iter] at h
  | k + 1, st, x, h, fuel, hle => by
    cases fuel with
    | zero => omega
    | succ fuel =>
      cases hs : step G toks st with
      | cont st1 =>
        rw [iter_succ_cont _ hs] at h
        have := run_of_iter_done k st1 x h fuel (by omega)
        simpa [run, hs] using this
      | done y => simp [iter, hs] at h; subst h; simp [run, hs]
      | fail => simp [iter, hs] at h
      | stuck => simp [iter, hs] at h

/-- C02 core: every sentence of the (factorised) grammar is accepted when the table is the
    conflict-free LL(1) table of closed sets.  `init`/`start`/`endS` are `$START$`, the start
    symbol and `$END$`. -/
theorem det_complete {G : Cfg σ} {P : Gram σ} {S : Sets σ} (hC : Closed G P S)
    (init start endS : σ) (endTok : Tok σ) (hend : endTok.name = endS)
    (hendT : G.isTerm endS = true) (hstartW : S.W start endS = true)
    (d : Tree σ) (hd : PValid G P d) (hname : d.name = start) (hnt : G.isTerm start = false) :
    ∃ k x, ∀ fuel, k ≤ fuel →
      run G (d.yield ++ [endTok]) fuel
        [{ sym := init, start := 0, cur := 0, alts := [[start, endS]], idx := 0, vals := [] }] = .ok x := by
  let b : Frame σ := { sym := init, start := 0, cur := 0, alts := [[start, endS]], idx := 0, vals := [] }
  obtain ⟨k, t', hk⟩ := descend (toks := d.yield ++ [endTok]) hC d hd b [] [start, endS] [endTok]
    rfl (by simp [b, hname]) (by simp [b])
    (fun _ => ⟨endTok, [], rfl, by rw [hname, hend]; exact hstartW⟩)
  -- match `$END$`
  have htok : (d.yield ++ [endTok])[(b.push t' (b.cur + d.yield.length)).cur]? = some endTok := by
    simp [Frame.push, b]
  have hs1 : step G (d.yield ++ [endTok]) [b.push t' (b.cur + d.yield.length)] =
      .cont [(b.push t' (b.cur + d.yield.length)).push (Tree.leaf endS endTok.val) (d.yield.length + 1)] := by
    have h' : (d.yield ++ [endTok])[d.yield.length]? = some endTok := by simpa [Frame.push, b] using htok
    simp [step, Frame.push, b, hendT, hend, h']
  have hs2 : step G (d.yield ++ [endTok])
      [(b.push t' (b.cur + d.yield.length)).push (Tree.leaf endS endTok.val) (d.yield.length + 1)] = .done t' := by
    simp [step, Frame.push, b, splice, Tree.children]
    by_cases hsx : G.isSuffix endS = true <;> simp [hsx]
  refine ⟨k + 2, t', run_of_iter_done (k + 2) _ t' ?_⟩
  rw [iter_add k 2 _ _ hk]
  simp [iter, hs1, hs2]

end LL

