import AkVerif.Lemmas.PPrintLayout
/-!
Helper lemmas for C11, part 4: the lexer on the output of `gen` (all layouts), the parser on the
canonical token sequence, the last chunk of `gen`, `norm` keeps the value and sorts the keys.
-/
namespace PPrint

variable (c : Consts)

/-! ### the lexer on the printed text -/

/-- `open ws body ws close` of any container layout -/
theorem lexV_container (o cl : Char) (to tc : Tok)
    (ho : ∀ cs, lexGo c .idle (o :: cs) = addT [to] (lexGo c .idle cs))
    (hcl : ∀ cs, lexGo c .idle (cl :: cs) = addT [tc] (lexGo c .idle cs))
    {ows body ws : List Char} {tss : List (List Tok)}
    (hows : IsWsTxt c ows) (hb : Body c true body tss) (hws : IsWsTxt c ws)
    (hdel : ∀ rest, Delim (ws ++ cl :: rest)) :
    LexV c (o :: (ows ++ (body ++ (ws ++ [cl])))) (to :: (joinT true tss ++ [tc])) := by
  intro rest _
  have e : (o :: (ows ++ (body ++ (ws ++ [cl])))) ++ rest = o :: (ows ++ (body ++ (ws ++ cl :: rest))) := by
    simp
  rw [e, ho, hows, lex_body c hb _ (hdel rest), hws, hcl]
  simp

theorem lexV_simple (hc : c.ok = true) {sk : Bool} {v : J} {s : Simple} (h : v.simple? = some s)
    (hw : WF sk v) :
    LexV c (simpleChunk c s).text (toks (norm v)) := by
  intro rest hr
  cases v with
  | str x =>
    simp [J.simple?] at h; subst h
    simp only [WF] at hw
    simp [simpleChunk, norm, toks, lex_quoted c x rest hw]
  | int n =>
    simp [J.simple?] at h; subst h
    simp [simpleChunk, norm, toks, lex_int c n rest hr]
  | num t =>
    simp [J.simple?] at h; subst h
    simp only [WF] at hw
    simp [simpleChunk, norm, toks, lex_num c t rest hw.1 hw.2 hr]
  | kw k =>
    simp [J.simple?] at h; subst h
    simp [simpleChunk, norm, toks, lex_kw c hc k rest hr]
  | list xs =>
    cases xs with
    | nil => simp [J.simple?] at h; subst h; simp [simpleChunk, norm, normList, toks, toksList]
    | cons _ _ => simp [J.simple?] at h
  | dict kvs =>
    cases kvs with
    | nil =>
      simp [J.simple?] at h; subst h
      simp [simpleChunk, norm, normEntries, sortE, toks, toksEntries]
    | cons _ _ => simp [J.simple?] at h

theorem text_singleton (ch : Chunk) : text [some ch] = ch.text := by simp

/-- the text of a key is read as the key's token (what follows is the colon) -/
theorem lex_key (hc : c.ok = true) {k : Key} (hk : keyOk c.strKeys k = true) (rest : List Char) :
    lexGo c .idle (keyText k ++ (':' :: rest)) = addT [keyTok k] (lexGo c .idle (':' :: rest)) := by
  have hd : Delim (':' :: rest) := Delim_cons (by decide)
  cases k with
  | str s => simp only [keyOk] at hk; simp only [keyText, keyTok]; exact lex_quoted c s _ hk
  | int n => simp only [keyText, keyTok]; exact lex_int c n _ hd
  | kw k =>
    have hs : c.strKeys = false := by simpa [keyOk] using hk
    simp only [keyText, keyTok]
    rw [← lit_kwStr c hc hs k]
    exact lex_kw c hc k _ hd

theorem lexV_entry (hc : c.ok = true) {k : Key} {val : List (Option Chunk)} {ts : List Tok}
    (hk : keyOk c.strKeys k = true) (hv : LexV c (text val) ts) :
    LexV c (text (entryChunks k val)) (keyTok k :: .colon :: ts) := by
  intro rest hr
  have e : text (entryChunks k val) ++ rest = keyText k ++ (':' :: ' ' :: (text val ++ rest)) := by
    simp [entryChunks, keyChunk]
  rw [e, lex_key c hc hk]
  simp [hv rest hr]

theorem text_multiLine (L : Limits) (o cl : Char) (off : Nat) (subs : List (List (Option Chunk))) :
    text (multiLine L o cl off subs) =
      o :: ([] ++ (text (multiBody (spaces (off + L.indent)) true subs) ++
        (('\n' :: spaces off) ++ [cl]))) := by
  simp [multiLine, text_append]

theorem delim_close (ws : List Char) (cl : Char) (hcl : isDelim cl = true)
    (hws : ws = [] ∨ ∃ r, ws = '\n' :: r) : ∀ rest, Delim (ws ++ cl :: rest) := by
  intro rest
  rcases hws with rfl | ⟨r, rfl⟩
  · exact Delim_cons hcl
  · exact Delim_cons (by decide)

theorem lex_gen (hc : c.ok = true) (L : Limits) :
    ∀ v, WF c.strKeys v → ∀ off, LexV c (text (gen c L v off)) (toks (norm v)) := by
  intro v
  induction v using J.ind with
  | hs s =>
    intro hw off
    simpa [gen] using lexV_simple c hc (v := .str s) rfl hw
  | hi n =>
    intro hw off
    simpa [gen] using lexV_simple c hc (v := .int n) rfl hw
  | hn t =>
    intro hw off
    simpa [gen] using lexV_simple c hc (v := .num t) rfl hw
  | hk k =>
    intro hw off
    simpa [gen] using lexV_simple c hc (v := .kw k) rfl hw
  | hl xs ih =>
    intro hw off
    have hw' := (WFList_iff _ xs).mp (by simpa [WF] using hw)
    have hx : ∀ x, x ∈ xs → ∀ off', LexV c (text (gen c L x off')) (toks (norm x)) :=
      fun x hx off' => ih x hx (hw' x hx) off'
    have htoks : toks (norm (.list xs)) =
        .lbrack :: (joinT true (xs.map fun x => toks (norm x)) ++ [.rbrack]) := by
      simp [norm, toks, normList_eq, toksList_eq, List.map_map, Function.comp_def]
    cases xs with
    | nil => simpa [gen, renderList] using lexV_simple c hc (v := .list []) rfl hw
    | cons x xs' =>
      rw [htoks]
      simp only [gen, renderList]
      cases hs : allSimple? (x :: xs') with
      | none =>
        simp only [genList_eq]
        rw [text_multiLine]
        exact lexV_container c '[' ']' .lbrack .rbrack (lex_lbrack c) (lex_rbrack c)
          (isWsTxt_nil c)
          (body_multiBody c (fun x => gen c L x (off + L.indent)) _ _ (x :: xs')
            (fun a ha => hx a ha _) true)
          (isWsTxt_nl_spaces c off) (delim_close _ _ (by decide) (Or.inr ⟨_, rfl⟩))
      | some ss =>
        obtain ⟨hss, hsim⟩ := allSimple?_map hs
        have hitem : ∀ a, a ∈ x :: xs' →
            LexV c (simpleChunk c (toSimple a)).text (toks (norm a)) :=
          fun a ha => lexV_simple c hc (hsim a ha) (hw' a ha)
        simp only []
        split
        · -- one line
          have e : (List.map (simpleChunk c) ss).map (fun it => [some it]) =
              (x :: xs').map (fun a => [some (simpleChunk c (toSimple a))]) := by
            rw [hss]; simp [List.map_map, Function.comp_def]
          rw [e]
          have hb := body_sepItems c (fun a => [some (simpleChunk c (toSimple a))])
            (fun a => toks (norm a)) (x :: xs')
            (fun a ha => by rw [text_singleton]; exact hitem a ha) true
          have := lexV_container c '[' ']' .lbrack .rbrack (lex_lbrack c) (lex_rbrack c)
            (isWsTxt_nil c) hb (isWsTxt_nil c) (delim_close [] ']' (by decide) (Or.inl rfl))
          simpa [text_append] using this
        · -- wrapped
          have e : List.map (simpleChunk c) ss =
              (x :: xs').map (fun a => simpleChunk c (toSimple a)) := by
            rw [hss]; simp [List.map_map, Function.comp_def]
          rw [e]
          obtain ⟨body, eb, hb⟩ := body_wrapItems c (fun a => simpleChunk c (toSimple a))
            (fun a => toks (norm a)) L off x xs' hitem 0 true
          have := lexV_container c '[' ']' .lbrack .rbrack (lex_lbrack c) (lex_rbrack c)
            (isWsTxt_nl_spaces c 0) hb (isWsTxt_nl_spaces c off)
            (delim_close _ _ (by decide) (Or.inr ⟨_, rfl⟩))
          have et : text (wrappedList L off ((x :: xs').map fun a => simpleChunk c (toSimple a))) =
              '[' :: (('\n' :: spaces 0) ++ (body ++ (('\n' :: spaces off) ++ [']']))) := by
            simp only [wrappedList, text_append, eb]
            simp [spaces]
          rw [et]
          exact this
  | hd kvs ih =>
    intro hw off
    have hw' := (WFEntries_iff _ kvs).mp (by simpa [WF] using hw)
    have hx : ∀ kv, kv ∈ kvs → ∀ off', LexV c (text (gen c L kv.2 off')) (toks (norm kv.2)) :=
      fun kv hkv off' => ih kv hkv (hw' kv hkv).2 off'
    let g : Key × J → List Tok := fun kv => keyTok kv.1 :: .colon :: toks (norm kv.2)
    have htoks : toks (norm (.dict kvs)) =
        .lbrace :: (joinT true ((sortE kvs).map g) ++ [.rbrace]) := by
      simp only [norm, toks, normEntries_eq, toksEntries_eq]
      rw [sortE_map (fun kv => norm kv.2) kvs]
      simp [List.map_map, Function.comp_def, g]
    have hentry : ∀ off' kv, kv ∈ sortE kvs →
        LexV c (text (entryChunks kv.1 (gen c L kv.2 off'))) (g kv) :=
      fun off' kv hkv => lexV_entry c hc (hw' kv (mem_sortE.mp hkv)).1 (hx kv (mem_sortE.mp hkv) off')
    cases kvs with
    | nil => simpa [gen, renderDict] using lexV_simple c hc (v := .dict []) rfl hw
    | cons kv kvs' =>
      rw [htoks]
      have hmulti : LexV c (text (multiLine L '{' '}' off
          ((sortE (genEntries c L (kv :: kvs') (off + L.indent))).map fun e => entryChunks e.1 e.2)))
          (.lbrace :: (joinT true ((sortE (kv :: kvs')).map g) ++ [.rbrace])) := by
        rw [genEntries_eq, sortE_map (fun kv => gen c L kv.2 (off + L.indent)), List.map_map,
          text_multiLine]
        exact lexV_container c '{' '}' .lbrace .rbrace (lex_lbrace c) (lex_rbrace c)
          (isWsTxt_nil c)
          (body_multiBody c
            (fun kv : Key × J => entryChunks kv.1 (gen c L kv.2 (off + L.indent))) g _ _
            (fun a ha => hentry _ a ha) true)
          (isWsTxt_nl_spaces c off) (delim_close _ _ (by decide) (Or.inr ⟨_, rfl⟩))
      simp only [gen, renderDict]
      cases hs : allSimpleD? (kv :: kvs') with
      | none => exact hmulti
      | some ss =>
        obtain ⟨hss, hsim⟩ := allSimpleD?_map hs
        simp only []
        split
        · -- one line
          have e : (sortE ss).map (fun e => entryChunks e.1 [some (simpleChunk c e.2)]) =
              (sortE (kv :: kvs')).map
                (fun a => entryChunks a.1 [some (simpleChunk c (toSimple a.2))]) := by
            rw [hss, sortE_map (fun kv => toSimple kv.2)]; simp [List.map_map, Function.comp_def]
          rw [e]
          have hb := body_sepItems c
            (fun a : Key × J => entryChunks a.1 [some (simpleChunk c (toSimple a.2))]) g
            (sortE (kv :: kvs'))
            (fun a ha => by
              have := hentry 0 a ha
              rwa [gen_of_simple c L (hsim a (mem_sortE.mp ha))] at this) true
          have := lexV_container c '{' '}' .lbrace .rbrace (lex_lbrace c) (lex_rbrace c)
            (isWsTxt_nil c) hb (isWsTxt_nil c) (delim_close [] '}' (by decide) (Or.inl rfl))
          simpa [text_append] using this
        · exact hmulti

end PPrint
