import AkVerif.Lemmas.LLTransfer2
/-!
C03 at the level of the whole constructor: when every stage before the recursion check succeeds,
`construct` answers `GrammarIsRecursive` exactly when the productions the user wrote are left
recursive, and otherwise it returns a parser.
-/
set_option linter.unusedSectionVars false
namespace LL
open Ak

theorem construct_stages {inp : CtorIn} {skip : List Sym} {U G : Prods Sym} {S NG : List Sym}
    {first follow : SetMap Sym} {table : Table Sym}
    (hD : (tokenNames inp).any (fun t => hasDunder t.name) = false)
    (hskip : skipSet inp (tokenNames inp) = .ok skip)
    (hU : createProds 0 inp.prods [] = .ok U)
    (hF : factorize (tokenNames inp) U inp.smart = .ok (G, S))
    (hV : verifyPart1 (sadd (tokenNames inp) endSym) (parseSym inp.start) G = .ok ())
    (hN : nullables G = .ok NG)
    (hFi : firstSets (sadd (tokenNames inp) endSym) NG G = .ok first)
    (hFo : followSets (sadd (tokenNames inp) endSym) NG first G (parseSym inp.start) endSym = .ok follow)
    (hT : mkTable (sadd (tokenNames inp) endSym) NG first follow G = .ok table) :
    construct inp =
      (match recCheck G (sadd (tokenNames inp) endSym) NG (sortedKeys G) with
       | .ok () => .ok { terminals := sadd (tokenNames inp) endSym, skip := skip, start := parseSym inp.start,
                         syn := inp.syn, kw := inp.kw, userProds := U, prods := G, suffix := S,
                         nullables := NG, first := first, follow := follow, table := table }
       | .error e => .error e) := by
  unfold construct
  simp only [hD, Bool.false_eq_true, if_false, hskip, hU, hF, hV, hN, hFi, hFo, hT, bind, Except.bind]
  cases recCheck G (sadd (tokenNames inp) endSym) NG (sortedKeys G) <;> rfl

/-- the constructor raises `GrammarIsRecursive` exactly when the user's productions are left
recursive — given that the stages before the check succeed (their failures are other exceptions) -/
theorem construct_rec_iff {inp : CtorIn} {skip : List Sym} {U G : Prods Sym} {S NG NU : List Sym}
    {first follow : SetMap Sym} {table : Table Sym}
    (hD : (tokenNames inp).any (fun t => hasDunder t.name) = false)
    (hskip : skipSet inp (tokenNames inp) = .ok skip)
    (hU : createProds 0 inp.prods [] = .ok U)
    (hF : factorize (tokenNames inp) U inp.smart = .ok (G, S))
    (hV : verifyPart1 (sadd (tokenNames inp) endSym) (parseSym inp.start) G = .ok ())
    (hN : nullables G = .ok NG)
    (hFi : firstSets (sadd (tokenNames inp) endSym) NG G = .ok first)
    (hFo : followSets (sadd (tokenNames inp) endSym) NG first G (parseSym inp.start) endSym = .ok follow)
    (hT : mkTable (sadd (tokenNames inp) endSym) NG first follow G = .ok table)
    (hNU : nullables U = .ok NU) :
    (construct inp = .error .grammarIsRecursive ↔ ∃ X, Plus (Reach1 U NU) X X) ∧
    ((∃ P, construct inp = .ok P) ↔ ¬ ∃ X, Plus (Reach1 U NU) X X) := by
  have hc := construct_stages hD hskip hU hF hV hN hFi hFo hT
  have h1 := verifyPart1_ok hV
  obtain ⟨hUwf, _⟩ := createProds_wf inp.prods 0 [] U hU userWF_nil
  have hcyc := factorize_cycle_iff hUwf (terms_path_nil hD) hF hNU hN
  obtain ⟨hnd, _⟩ := factorize_struct hF
  have hknown : ∀ X rules, (X, rules) ∈ G → ∀ r ∈ rules, ∀ s ∈ r.rhs,
      s ∈ sadd (tokenNames inp) endSym ∨ s ∈ G.map (·.1) :=
    fun X rules hm r hr s hs => h1.known s (mem_psyms.2 ⟨X, rules, hm, r, hr, hs⟩)
  obtain ⟨i1, i2⟩ := recCheck_rec_iff (nulls := NG) hnd (fun k hk => h1.disjoint k hk) hknown
    (fun k hk => mem_sortedKeys.2 hk) (fun s hs => Or.inr (mem_sortedKeys.1 hs))
  rw [hc]
  constructor
  · rw [← hcyc, ← i1]
    cases hr : recCheck G (sadd (tokenNames inp) endSym) NG (sortedKeys G) with
    | ok u => cases u; simp
    | error e => simp
  · rw [← hcyc, ← i2]
    cases hr : recCheck G (sadd (tokenNames inp) endSym) NG (sortedKeys G) with
    | ok u => cases u; simp
    | error e => simp

end LL
