import AkVerif.Lemmas.LLSmart
/-!
Smart undo, part 2 — the loop invariant of `undoLoop`.

`Base` collects what the plain factorisation guarantees about its result `D0` and the helper keys `S0`;
`Inv` is the invariant after the keys `done` have been processed; `inv_step` is one iteration,
`undoLoop_inv` the whole loop over an order that lists every key once, longest names first.
-/
set_option linter.unusedSectionVars false
namespace LL
open Ak

/-- facts about the result of `factorizeAll` used by the smart undo -/
structure Base (terms : List Sym) (D0 : Prods Sym) (S0 : List Sym) : Prop where
  nd : (D0.map (·.1)).Nodup
  sufKey : ∀ b ∈ S0, b ∈ D0.map (·.1)
  two : ∀ b ∈ S0, ∀ rules, dget b D0 = some rules → 2 ≤ rules.length
  par : ∀ k rules, dget k D0 = some rules → ∀ r ∈ rules, ∀ l, r.rhs.getLast? = some l → l ∈ S0 →
    ∃ g, l = k.suf g
  uniq : ∀ k rules, dget k D0 = some rules → ∀ r1 ∈ rules, ∀ r2 ∈ rules, ∀ l,
    r1.rhs.getLast? = some l → r2.rhs.getLast? = some l → l ∈ S0 → r1 = r2
  inner : ∀ k rules, dget k D0 = some rules → ∀ r ∈ rules, ∀ x ∈ r.rhs.dropLast, x ∉ S0
  termNot : ∀ t ∈ terms, t ∉ S0

/-- the state of `undoLoop` after the keys `done` -/
structure Inv (D0 : Prods Sym) (S0 : List Sym) (done : List Sym) (d : Prods Sym) (rm : List Sym) : Prop where
  K : d.map (·.1) = D0.map (·.1)
  J1 : ∀ b ∈ rm, b ∈ S0 ∧ ∃ k g, k ∈ done ∧ b = k.suf g
  J2 : ∀ k ∈ done, ∀ rules, dget k d = some rules → ∀ r ∈ rules, ∀ b, r.rhs.getLast? = some b → b ∈ S0 →
    b ∉ rm ∧ ∃ k' g, k' ∈ done ∧ b = k'.suf g
  J3 : ∀ k, k ∉ done → dget k d = dget k D0
  J4 : ∀ b ∈ S0, ∃ rules, dget b d = some rules ∧ 2 ≤ rules.length
  L2 : ∀ k e, FlatD d S0 k e ↔ FlatD D0 S0 k e
  L3 : ∀ k rules, dget k d = some rules → ∀ r ∈ rules, ∀ x ∈ r.rhs.dropLast, x ∉ S0

theorem inv_init {terms : List Sym} {D0 : Prods Sym} {S0 : List Sym} (hB : Base terms D0 S0) :
    Inv D0 S0 [] D0 [] := by
  refine { K := rfl, J1 := by simp, J2 := by simp, J3 := fun _ _ => rfl, J4 := ?_, L2 := fun _ _ => Iff.rfl,
           L3 := hB.inner }
  intro b hb
  have := dget_isSome_iff.2 (hB.sufKey b hb)
  cases hg : dget b D0 with
  | none => rw [hg] at this; cases this
  | some rules => exact ⟨rules, rfl, hB.two b hb rules hg⟩

theorem inv_two {D0 : Prods Sym} {S0 done : List Sym} {d : Prods Sym} {rm : List Sym} (hI : Inv D0 S0 done d rm) :
    ∀ b ∈ S0, ∀ sp, dget b d = some sp → 2 ≤ sp.length := by
  intro b hb sp hsp
  obtain ⟨rules, h1, h2⟩ := hI.J4 b hb
  rw [hsp] at h1
  cases h1
  exact h2

section Step
variable {terms : List Sym} {D0 : Prods Sym} {S0 done : List Sym} {d : Prods Sym} {rm : List Sym}
  {s : Sym} {rr new : List (Rule Sym)} {rm' : List Sym}

/-- the symbols inlined while processing `s` are children of `s` -/
theorem rm'_child (hB : Base terms D0 S0) (hrr0 : dget s D0 = some rr) (hU : UndoSpec terms S0 d rr new rm') :
    ∀ b ∈ rm', b ∈ S0 ∧ ∃ g, b = s.suf g := by
  intro b hb
  obtain ⟨r, hr, a, sp, hrhs, _, hbS, _, _⟩ := hU.n3 b hb
  exact ⟨hbS, hB.par s rr hrr0 r hr b (by rw [hrhs]; simp) hbS⟩

/-- …so they are not children of an already processed key -/
theorem rm'_not_done (hB : Base terms D0 S0) (hs : s ∉ done) (hrr0 : dget s D0 = some rr)
    (hU : UndoSpec terms S0 d rr new rm') : ∀ b ∈ rm', ∀ k' g, k' ∈ done → b ≠ k'.suf g := by
  intro b hb k' g hk' e
  obtain ⟨_, g0, e0⟩ := rm'_child hB hrr0 hU b hb
  rw [e0] at e
  exact hs (suf_parent_inj e ▸ hk')

/-- where the new rules of `s` may end -/
theorem new_last (hB : Base terms D0 S0) (hI : Inv D0 S0 done d rm) (hs : s ∉ done)
    (hchild : ∀ g, s.suf g ∈ D0.map (·.1) → s.suf g ∈ done)
    (hrr0 : dget s D0 = some rr) (hU : UndoSpec terms S0 d rr new rm') :
    ∀ r ∈ new, ∀ b, r.rhs.getLast? = some b → b ∈ S0 →
      b ∉ rm ∧ b ∉ rm' ∧ ∃ k' g, k' ∈ done ++ [s] ∧ b = k'.suf g := by
  intro r hr b hlast hbS
  rcases hU.n1 r hr with ⟨hrin, hni⟩ | ⟨r0, hr0, a, b0, sp, sr, hrhs, ha, hb0S, hg, hsr, e⟩
  · obtain ⟨g, eg⟩ := hB.par s rr hrr0 r hrin b hlast hbS
    refine ⟨?_, ?_, s, g, by simp, eg⟩
    · intro hbrm
      obtain ⟨_, k, g', hk, e'⟩ := hI.J1 b hbrm
      rw [eg] at e'
      exact hs (suf_parent_inj e' ▸ hk)
    · intro hbrm'
      obtain ⟨r2, hr2, a2, sp2, hrhs2, ha2, _, hg2, hlen2⟩ := hU.n3 b hbrm'
      have : r = r2 := hB.uniq s rr hrr0 r hrin r2 hr2 b hlast (by rw [hrhs2]; simp) hbS
      exact hni (this ▸ ⟨a2, b, sp2, hrhs2, ha2, hbS, hg2, hlen2⟩)
  · subst e
    simp only at hlast
    obtain ⟨g0, eg0⟩ := hB.par s rr hrr0 r0 hr0 b0 (by rw [hrhs]; simp) hb0S
    have hb0done : b0 ∈ done := by
      rw [eg0]; exact hchild g0 (eg0 ▸ hB.sufKey b0 hb0S)
    have hlast' : sr.rhs.getLast? = some b := by
      rcases getLast?_cons_inv hlast with ⟨_, e⟩ | h
      · exact absurd (e ▸ hbS) (hB.termNot a ha)
      · exact h
    obtain ⟨h1, k', g, hk', e'⟩ := hI.J2 b0 hb0done sp hg sr hsr b hlast' hbS
    refine ⟨h1, ?_, k', g, by simp [hk'], e'⟩
    intro hbrm'
    exact rm'_not_done hB hs hrr0 hU b hbrm' k' g hk' e'

variable {d' : Prods Sym} {new' : List (Rule Sym)}

/-- one iteration: the rules of `s` become `new'` (same right-hand sides as `new`), nothing else changes -/
theorem inv_step (hB : Base terms D0 S0) (hI : Inv D0 S0 done d rm) (hs : s ∉ done)
    (hchild : ∀ g, s.suf g ∈ D0.map (·.1) → s.suf g ∈ done)
    (hrr : dget s d = some rr) (hU : UndoSpec terms S0 d rr new rm')
    (hK' : d'.map (·.1) = d.map (·.1)) (hs' : dget s d' = some new')
    (hrhs : new'.map (·.rhs) = new.map (·.rhs)) (hoth : ∀ k, k ≠ s → dget k d' = dget k d) :
    Inv D0 S0 (done ++ [s]) d' (rm'.foldl sadd rm) := by
  have hrr0 : dget s D0 = some rr := by rw [← hI.J3 s hs]; exact hrr
  have hnd : (d.map (·.1)).Nodup := by rw [hI.K]; exact hB.nd
  have hnd' : (d'.map (·.1)).Nodup := by rw [hK']; exact hnd
  have hnew' : ∀ r' ∈ new', ∃ r ∈ new, r.rhs = r'.rhs := by
    intro r' hr'
    have : r'.rhs ∈ new.map (·.rhs) := by rw [← hrhs]; exact List.mem_map.2 ⟨r', hr', rfl⟩
    exact List.mem_map.1 this
  have hnew : ∀ r ∈ new, ∃ r' ∈ new', r'.rhs = r.rhs := by
    intro r hr
    have : r.rhs ∈ new'.map (·.rhs) := by rw [hrhs]; exact List.mem_map.2 ⟨r, hr, rfl⟩
    exact List.mem_map.1 this
  have hlast := new_last hB hI hs hchild hrr0 hU
  have hchildren := rm'_child hB hrr0 hU
  have hnotdone := rm'_not_done hB hs hrr0 hU
  have htwo := inv_two hI
  refine { K := hK'.trans hI.K, J1 := ?_, J2 := ?_, J3 := ?_, J4 := ?_, L2 := ?_, L3 := ?_ }
  · -- J1
    intro b hb
    rcases mem_foldl_sadd.1 hb with hb | hb
    · obtain ⟨h1, k, g, hk, e⟩ := hI.J1 b hb
      exact ⟨h1, k, g, by simp [hk], e⟩
    · obtain ⟨h1, g, e⟩ := hchildren b hb
      exact ⟨h1, s, g, by simp, e⟩
  · -- J2
    intro k hk rules hrules r hr b hb hbS
    by_cases hks : k = s
    · subst hks
      rw [hs'] at hrules
      cases hrules
      obtain ⟨r0, hr0, e0⟩ := hnew' r hr
      obtain ⟨h1, h2, h3⟩ := hlast r0 hr0 b (by rw [e0]; exact hb) hbS
      refine ⟨fun hmem => ?_, h3⟩
      rcases mem_foldl_sadd.1 hmem with h | h
      · exact h1 h
      · exact h2 h
    · have hkd : k ∈ done := by
        simp only [List.mem_append, List.mem_singleton] at hk
        rcases hk with hk | hk
        · exact hk
        · exact absurd hk hks
      rw [hoth k hks] at hrules
      obtain ⟨h1, k', g, hk', e⟩ := hI.J2 k hkd rules hrules r hr b hb hbS
      refine ⟨fun hmem => ?_, k', g, by simp [hk'], e⟩
      rcases mem_foldl_sadd.1 hmem with h | h
      · exact h1 h
      · exact hnotdone b h k' g hk' e
  · -- J3
    intro k hk
    simp only [List.mem_append, List.mem_singleton, not_or] at hk
    rw [hoth k hk.2]
    exact hI.J3 k hk.1
  · -- J4
    intro b hb
    by_cases hbs : b = s
    · subst hbs
      refine ⟨new', hs', ?_⟩
      obtain ⟨rules, h1, h2⟩ := hI.J4 b hb
      rw [hrr] at h1
      cases h1
      have h3 := (hU.n5 htwo).1
      have h4 : new'.length = new.length := by
        have := congrArg List.length hrhs
        simpa using this
      omega
    · rw [hoth b hbs]
      exact hI.J4 b hb
  · -- L2
    intro k e
    rw [← hI.L2 k e]
    have hother : ∀ k, k ≠ s → ∀ p, p ∈ gramRules d' k ↔ p ∈ gramRules d k :=
      fun k hk => gramRules_congr_dget hnd hnd' (hoth k hk)
    have hgs : ∀ p, p ∈ gramRules d s ↔ ∃ r ∈ rr, r.rhs = p := by
      intro p
      rw [mem_gramRules_dget hnd, hrr]
      simp
    have hgs' : ∀ p, p ∈ gramRules d' s ↔ ∃ r ∈ new, r.rhs = p := by
      intro p
      rw [mem_gramRules_dget hnd', hs']
      simp only [Option.some.injEq, exists_eq_left']
      constructor
      · rintro ⟨r', hr', e⟩
        obtain ⟨r, hr, e'⟩ := hnew' r' hr'
        exact ⟨r, hr, e'.trans e⟩
      · rintro ⟨r, hr, e⟩
        obtain ⟨r', hr', e'⟩ := hnew r hr
        exact ⟨r', hr', e'.trans e⟩
    constructor
    · refine flatD_inline_fwd hother ?_
      intro p hp
      obtain ⟨r, hr, e⟩ := (hgs' p).1 hp
      rcases hU.n1 r hr with ⟨hrin, _⟩ | ⟨r0, hr0, a, b0, sp, sr, hrhs0, ha, hb0S, hg, hsr, e'⟩
      · exact Or.inl ((hgs p).2 ⟨r, hrin, e⟩)
      · refine Or.inr ⟨a, b0, sr.rhs, (hgs _).2 ⟨r0, hr0, hrhs0⟩, hB.termNot a ha, hb0S, ?_, ?_⟩
        · exact (mem_gramRules_dget hnd).2 ⟨sp, hg, sr, hsr, rfl⟩
        · rw [← e, e']
    · refine flatD_inline_bwd hother ?_
      intro p hp
      obtain ⟨r, hr, e⟩ := (hgs p).1 hp
      rcases hU.n2 r hr with hrin | ⟨a, b0, sp, hrhs0, ha, hb0S, hg, hb0rm, hall⟩
      · exact Or.inl ((hgs' p).2 ⟨r, hrin, e⟩)
      · refine Or.inr ⟨a, b0, by rw [← e, hrhs0], hB.termNot a ha, hb0S, ?_, ?_⟩
        · obtain ⟨_, g, eg⟩ := hchildren b0 hb0rm
          rw [eg]; exact suf_ne_self s g
        · intro q hq
          obtain ⟨sp', hg', sr, hsr, e'⟩ := (mem_gramRules_dget hnd).1 hq
          rw [hg] at hg'
          cases hg'
          exact (hgs' _).2 ⟨_, hall sr hsr, by rw [← e']⟩
  · -- L3
    intro k rules hrules r hr x hx
    by_cases hks : k = s
    · subst hks
      rw [hs'] at hrules
      cases hrules
      obtain ⟨r0, hr0, e0⟩ := hnew' r hr
      rw [← e0] at hx
      rcases hU.n1 r0 hr0 with ⟨hrin, _⟩ | ⟨r1, hr1, a, b0, sp, sr, hrhs0, ha, hb0S, hg, hsr, e'⟩
      · exact hI.L3 k rr hrr r0 hrin x hx
      · subst e'
        simp only at hx
        cases hsrr : sr.rhs with
        | nil => rw [hsrr] at hx; simp at hx
        | cons y ys =>
          rw [hsrr, List.dropLast_cons_cons, List.mem_cons] at hx
          rcases hx with hx | hx
          · rw [hx]; exact hB.termNot a ha
          · exact hI.L3 b0 sp hg sr hsr x (by rw [hsrr]; exact hx)
    · rw [hoth k hks] at hrules
      exact hI.L3 k rules hrules r hr x hx

end Step

/-- the whole loop.  `order` lists every key of `D0` once, longer names first. -/
theorem undoLoop_inv {terms : List Sym} {D0 : Prods Sym} {S0 : List Sym} (hB : Base terms D0 S0)
    {order : List Sym} (hnd : order.Nodup) (hsorted : order.Pairwise (fun a b => b.nameLen ≤ a.nameLen))
    (hkeys : ∀ x, x ∈ D0.map (·.1) → x ∈ order) :
    ∀ (rest done : List Sym) (d : Prods Sym) (rm : List Sym) (out : Prods Sym × List Sym),
      order = done ++ rest → Inv D0 S0 done d rm → undoLoop terms S0 rest d rm = .ok out →
      Inv D0 S0 order out.1 out.2
  | [], done, d, rm, out, ho, hI, h => by
    rw [undoLoop_nil h, ho, List.append_nil]
    exact hI
  | s :: rest, done, d, rm, out, ho, hI, h => by
    obtain ⟨rr, new, rm', hrr, hu, h'⟩ := undoLoop_cons h
    have hU := undoRules_spec hu
    refine undoLoop_inv hB hnd hsorted hkeys rest (done ++ [s]) _ _ out (by simp [ho]) ?_ h'
    have hs : s ∉ done := by
      rw [ho] at hnd
      have := (List.nodup_append.1 hnd).2.2
      intro hsd
      exact this s hsd s (by simp) rfl
    have hchild : ∀ g, s.suf g ∈ D0.map (·.1) → s.suf g ∈ done := by
      intro g hg
      have hmem := hkeys _ hg
      rw [ho] at hmem hsorted
      simp only [List.mem_append, List.mem_cons] at hmem
      rcases hmem with hmem | hmem | hmem
      · exact hmem
      · exact absurd hmem (suf_ne_self s g)
      · have h1 := (List.pairwise_append.1 hsorted).2.1
        have h2 := (List.pairwise_cons.1 h1).1 _ hmem
        have h3 := nameLen_suf s g
        omega
    have hsk : s ∈ d.map (·.1) := dget_isSome_iff.1 (by rw [hrr]; rfl)
    by_cases hlen : new.length ≠ rr.length
    · rw [if_pos hlen]
      exact inv_step hB hI hs hchild hrr hU (keys_dset_of_mem _ hsk) (dget_dset_self _ _ _) (renum_rhs new)
        (fun k hk => dget_dset_ne _ (fun e => hk e.symm) _)
    · rw [if_neg hlen]
      have hlen' : new.length = rr.length := Classical.not_not.1 hlen
      have hrm : rm' = [] := by
        apply Classical.byContradiction
        intro hne
        have := (hU.n5 (inv_two hI)).2 hne
        omega
      have hnew := hU.n4 hrm
      exact inv_step hB hI hs hchild hrr hU rfl hrr (by rw [hnew]) (fun _ _ => rfl)

end LL
