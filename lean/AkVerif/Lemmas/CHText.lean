import AkVerif.Model.CHText
/-!
Lemmas about the `CHText` model, part 1: the abstraction `cells`, the canonical-form invariant and
the building operations (`_append_chunk`, `+=`, constructor, `+`, `join`).
-/
namespace CHText
open Ak

/-! ### the invariant -/

/-- no empty chunk, neighbours differ in colour -/
def CanonChunks : List Chunk → Prop
  | [] => True
  | [c] => c.text ≠ []
  | c :: d :: rest => c.text ≠ [] ∧ c.col ≠ d.col ∧ CanonChunks (d :: rest)

instance : (cs : List Chunk) → Decidable (CanonChunks cs)
  | [] => isTrue trivial
  | [c] => inferInstanceAs (Decidable (c.text ≠ []))
  | c :: d :: rest =>
    have := instDecidableCanonChunks (d :: rest)
    inferInstanceAs (Decidable (c.text ≠ [] ∧ c.col ≠ d.col ∧ CanonChunks (d :: rest)))

/-- the cached length is the number of visible characters -/
def LenOK (t : Text) : Prop := t.scrlen = t.cells.length

/-- the state invariant of a `CHText` -/
def Canon (t : Text) : Prop := CanonChunks t.chunks ∧ LenOK t

instance (t : Text) : Decidable (Canon t) := inferInstanceAs (Decidable (_ ∧ _ = _))

mutual
/-- all texts inside a value are canonical -/
def Part.Canon : Part → Prop
  | .str _ => True
  | .chunk _ => True
  | .text t => CHText.Canon t
  | .list _ ps => Part.CanonList ps
def Part.CanonList : List Part → Prop
  | [] => True
  | p :: ps => p.Canon ∧ Part.CanonList ps
end

mutual
/-- abstraction of an operand: lists are flattened, as `+=` does -/
def Part.cells : Part → Cells
  | .str s => plainCells s
  | .chunk c => c.cells
  | .text t => t.cells
  | .list _ ps => Part.cellsList ps
def Part.cellsList : List Part → Cells
  | [] => []
  | p :: ps => p.cells ++ Part.cellsList ps
end

/-! ### cells of chunk lists -/

@[simp] theorem cellsOf_nil : cellsOf [] = [] := rfl
@[simp] theorem cellsOf_cons (c : Chunk) (cs : List Chunk) : cellsOf (c :: cs) = c.cells ++ cellsOf cs := rfl

theorem cellsOf_append (a b : List Chunk) : cellsOf (a ++ b) = cellsOf a ++ cellsOf b := by
  induction a with
  | nil => rfl
  | cons c cs ih => simp [ih]

@[simp] theorem Chunk.cells_length (c : Chunk) : c.cells.length = c.text.length := by
  simp [Chunk.cells]

theorem Chunk.cells_eq_nil (c : Chunk) : c.cells = [] ↔ c.text = [] := by
  simp [Chunk.cells]

@[simp] theorem Text.empty_cells : Text.empty.cells = [] := rfl

theorem canon_empty : Canon Text.empty := ⟨trivial, rfl⟩

theorem CanonChunks.tail {c : Chunk} {cs : List Chunk} (h : CanonChunks (c :: cs)) : CanonChunks cs := by
  cases cs with
  | nil => trivial
  | cons d rest => exact h.2.2

theorem CanonChunks.head_ne {c : Chunk} {cs : List Chunk} (h : CanonChunks (c :: cs)) : c.text ≠ [] := by
  cases cs with
  | nil => exact h
  | cons d rest => exact h.1

/-! ### `_append_chunk` -/

theorem cellsOf_pushChunk (cs : List Chunk) (c : Chunk) :
    cellsOf (pushChunk cs c) = cellsOf cs ++ c.cells := by
  fun_induction pushChunk cs c with
  | case1 c => simp
  | case2 p c h => simp [Chunk.cells, h]
  | case3 p c h => simp
  | case4 p q ps c ih => simp [ih]

theorem pushChunk_ne_nil (cs : List Chunk) (c : Chunk) : pushChunk cs c ≠ [] := by
  fun_induction pushChunk cs c <;> simp

/-- the first chunk keeps its colour and stays non-empty -/
theorem pushChunk_head (p : Chunk) (ps : List Chunk) (c : Chunk) :
    ∃ p' rest, pushChunk (p :: ps) c = p' :: rest ∧ p'.col = p.col ∧ (p.text ≠ [] → p'.text ≠ []) := by
  cases ps with
  | nil =>
    unfold pushChunk
    split
    · exact ⟨_, _, rfl, rfl, fun hp h => hp (List.append_eq_nil_iff.mp h).1⟩
    · exact ⟨_, _, rfl, rfl, id⟩
  | cons q qs => exact ⟨p, _, rfl, rfl, id⟩

theorem canonChunks_pushChunk (cs : List Chunk) (c : Chunk) (h : CanonChunks cs) (hc : c.text ≠ []) :
    CanonChunks (pushChunk cs c) := by
  fun_induction pushChunk cs c with
  | case1 c => exact hc
  | case2 p c heq => simp [CanonChunks]; intro hp; exact absurd hp h
  | case3 p c hne => exact ⟨h, hne, hc⟩
  | case4 p q ps c ih =>
    obtain ⟨q', rest, hq, hcol, _⟩ := pushChunk_head q ps c
    have ih' := ih h.2.2 hc
    rw [hq] at ih' ⊢
    exact ⟨h.1, by rw [hcol]; exact h.2.1, ih'⟩

theorem appendChunk_cells (t : Text) (c : Chunk) : (appendChunk t c).cells = t.cells ++ c.cells := by
  unfold appendChunk
  split
  · next h => simp [Chunk.cells, h]
  · simp [Text.cells, cellsOf_pushChunk]

theorem appendChunk_lenOK (t : Text) (c : Chunk) (h : LenOK t) : LenOK (appendChunk t c) := by
  unfold LenOK at *
  rw [appendChunk_cells]
  unfold appendChunk
  split
  · next hc => simp [h, Chunk.cells, hc]
  · simp [h]

theorem appendChunk_canon (t : Text) (c : Chunk) (h : Canon t) : Canon (appendChunk t c) := by
  refine ⟨?_, appendChunk_lenOK t c h.2⟩
  unfold appendChunk
  split
  · exact h.1
  · next hc => exact canonChunks_pushChunk _ _ h.1 hc

theorem appendChunks_cells (t : Text) (cs : List Chunk) :
    (appendChunks t cs).cells = t.cells ++ cellsOf cs := by
  induction cs generalizing t with
  | nil => simp [appendChunks]
  | cons c cs ih => simp [appendChunks, ih, appendChunk_cells]

theorem appendChunks_lenOK (t : Text) (cs : List Chunk) (h : LenOK t) : LenOK (appendChunks t cs) := by
  induction cs generalizing t with
  | nil => exact h
  | cons c cs ih => exact ih _ (appendChunk_lenOK t c h)

theorem appendChunks_canon (t : Text) (cs : List Chunk) (h : Canon t) : Canon (appendChunks t cs) := by
  induction cs generalizing t with
  | nil => exact h
  | cons c cs ih => exact ih _ (appendChunk_canon t c h)

theorem fromChunks_cells (cs : List Chunk) : (fromChunks cs).cells = cellsOf cs := by
  simp [fromChunks, appendChunks_cells]

theorem fromChunks_canon (cs : List Chunk) : Canon (fromChunks cs) :=
  appendChunks_canon _ _ canon_empty

/-! ### `+=`, constructor, `+`, `join` -/

mutual
theorem iadd_cells (t : Text) (p : Part) : (iadd t p).cells = t.cells ++ p.cells := by
  cases p with
  | str s => simp [iadd, appendChunk_cells, Part.cells, Chunk.cells, plainCells]
  | chunk c => simp [iadd, appendChunk_cells, Part.cells]
  | text o => rw [iadd, appendChunks_cells]; rfl
  | list tp ps => simp [iadd, Part.cells, iaddList_cells t ps]
theorem iaddList_cells (t : Text) (ps : List Part) :
    (iaddList t ps).cells = t.cells ++ Part.cellsList ps := by
  cases ps with
  | nil => simp [iaddList, Part.cellsList]
  | cons p ps => simp [iaddList, Part.cellsList, iaddList_cells (iadd t p) ps, iadd_cells t p]
end

mutual
theorem iadd_canon (t : Text) (p : Part) (h : Canon t) : Canon (iadd t p) := by
  cases p with
  | str s => exact appendChunk_canon _ _ h
  | chunk c => exact appendChunk_canon _ _ h
  | text o => exact appendChunks_canon _ _ h
  | list tp ps => exact iaddList_canon t ps h
theorem iaddList_canon (t : Text) (ps : List Part) (h : Canon t) : Canon (iaddList t ps) := by
  cases ps with
  | nil => exact h
  | cons p ps => exact iaddList_canon (iadd t p) ps (iadd_canon t p h)
end

theorem construct_cells (ps : List Part) : (construct ps).cells = Part.cellsList ps := by
  simp [construct, iaddList_cells]

theorem construct_canon (ps : List Part) : Canon (construct ps) := iaddList_canon _ _ canon_empty

theorem add_cells (t : Text) (o : Part) : (t.add o).cells = t.cells ++ o.cells := by
  simp [Text.add, iadd_cells, construct_cells, Part.cellsList, Part.cells]

theorem add_canon (t : Text) (o : Part) : Canon (t.add o) := iadd_canon _ _ (construct_canon _)

theorem radd_cells (self other : Part) : (radd self other).cells = other.cells ++ self.cells := by
  simp [radd, construct_cells, Part.cellsList]

/-- `sep.join(items)` on plain sequences -/
def pyJoin {α} (sep : List α) : List (List α) → List α
  | [] => []
  | [x] => x
  | x :: y :: rest => x ++ sep ++ pyJoin sep (y :: rest)

theorem pyJoin_cons {α} (sep x : List α) (rest : List (List α)) :
    pyJoin sep (x :: rest) = x ++ (rest.map (sep ++ ·)).flatten := by
  induction rest generalizing x with
  | nil => simp [pyJoin]
  | cons y rest ih => simp [pyJoin, ih y]

theorem joinRest_cells (sep acc : Text) (ps : List Part) :
    (joinRest sep acc ps).cells = acc.cells ++ ((ps.map Part.cells).map (sep.cells ++ ·)).flatten := by
  induction ps generalizing acc with
  | nil => simp [joinRest]
  | cons p ps ih => simp [joinRest, ih, iadd_cells, Part.cells]

theorem join_cells (sep : Text) (ps : List Part) :
    (sep.join ps).cells = pyJoin sep.cells (ps.map Part.cells) := by
  cases ps with
  | nil => rfl
  | cons p ps => simp [Text.join, joinRest_cells, pyJoin_cons, iadd_cells]

theorem joinRest_canon (sep acc : Text) (ps : List Part) (h : Canon acc) : Canon (joinRest sep acc ps) := by
  induction ps generalizing acc with
  | nil => exact h
  | cons p ps ih => exact ih _ (iadd_canon _ _ (iadd_canon _ _ h))

theorem join_canon (sep : Text) (ps : List Part) : Canon (sep.join ps) := by
  cases ps with
  | nil => exact canon_empty
  | cons p ps => exact joinRest_canon _ _ _ (iadd_canon _ _ canon_empty)

end CHText
