import AkVerif.Model.LLGrammar
/-!
Facts about the dictionary / set helpers of `Model/LLGrammar.lean` (`dget`, `dset`, `dappend`,
`ddel`, `sadd`, `sunion`) and the reading of a `Prods` dictionary as a grammar (`gramRules`).
-/
set_option linter.unusedSectionVars false
namespace LL

section Dict
variable {κ β : Type} [DecidableEq κ]

theorem dget_mem {k : κ} {v : β} : ∀ {d : List (κ × β)}, dget k d = some v → (k, v) ∈ d
  | [], h => by simp [dget] at h
  | (k', v') :: rest, h => by
    unfold dget at h
    split at h
    · rename_i hk; cases h; subst hk; simp
    · exact List.mem_cons_of_mem _ (dget_mem h)

theorem dget_isSome_iff {k : κ} : ∀ {d : List (κ × β)}, (dget k d).isSome ↔ k ∈ d.map (·.1)
  | [] => by simp [dget]
  | (k', v') :: rest => by
    unfold dget
    by_cases hk : k' = k
    · simp [hk]
    · simp only [hk, if_false, List.map_cons, List.mem_cons]
      rw [dget_isSome_iff]
      constructor
      · intro h; exact Or.inr h
      · intro h; rcases h with h | h
        · exact absurd h.symm hk
        · exact h

theorem dget_none_iff {k : κ} {d : List (κ × β)} : dget k d = none ↔ k ∉ d.map (·.1) := by
  rw [← dget_isSome_iff]
  cases dget k d <;> simp

theorem dget_of_mem_nodup {k : κ} {v : β} : ∀ {d : List (κ × β)}, (d.map (·.1)).Nodup → (k, v) ∈ d →
    dget k d = some v
  | [], _, h => by simp at h
  | (k', v') :: rest, hn, h => by
    simp only [List.map_cons, List.nodup_cons] at hn
    unfold dget
    simp only [List.mem_cons] at h
    rcases h with h | h
    · cases h; simp
    · have : k' ≠ k := by
        intro e; subst e
        exact hn.1 (List.mem_map.2 ⟨(k', v), h, rfl⟩)
      simp only [this, if_false]
      exact dget_of_mem_nodup hn.2 h

theorem dget_dset_self (k : κ) (v : β) : ∀ (d : List (κ × β)), dget k (dset k v d) = some v
  | [] => by simp [dset, dget]
  | (k', v') :: rest => by
    unfold dset
    by_cases hk : k' = k
    · simp [hk, dget]
    · simp [hk, dget, dget_dset_self k v rest]

theorem dget_dset_ne {k k' : κ} (v : β) (h : k' ≠ k) : ∀ (d : List (κ × β)),
    dget k (dset k' v d) = dget k d
  | [] => by simp [dset, dget, h]
  | (k'', v'') :: rest => by
    unfold dset
    by_cases hk : k'' = k'
    · subst hk; simp [dget, h]
    · by_cases hk2 : k'' = k
      · subst hk2; simp [hk, dget]
      · simp [hk, dget, hk2, dget_dset_ne v h rest]

theorem dget_dset (k k' : κ) (v : β) (d : List (κ × β)) :
    dget k (dset k' v d) = if k' = k then some v else dget k d := by
  by_cases h : k' = k
  · subst h; simp [dget_dset_self]
  · simp [h, dget_dset_ne v h]

theorem dset_same {k : κ} {v : β} : ∀ {d : List (κ × β)}, dget k d = some v → dset k v d = d
  | [], h => by simp [dget] at h
  | (k', v') :: rest, h => by
    unfold dget at h
    unfold dset
    split at h
    · rename_i hk; cases h; subst hk; simp
    · rename_i hk; simp only [hk, if_false]; rw [dset_same h]

theorem keys_dset_of_mem {k : κ} (v : β) : ∀ {d : List (κ × β)}, k ∈ d.map (·.1) →
    (dset k v d).map (·.1) = d.map (·.1)
  | [], h => by simp at h
  | (k', v') :: rest, h => by
    unfold dset
    by_cases hk : k' = k
    · subst hk; simp
    · simp only [hk, if_false, List.map_cons]
      have : k ∈ rest.map (·.1) := by
        simp only [List.map_cons, List.mem_cons] at h
        rcases h with h | h
        · exact absurd h.symm hk
        · exact h
      rw [keys_dset_of_mem v this]

theorem mem_sadd {s : List κ} {x y : κ} : y ∈ sadd s x ↔ y ∈ s ∨ y = x := by
  unfold sadd
  split
  · rename_i h
    constructor
    · intro h'; exact Or.inl h'
    · intro h'; rcases h' with h' | h'
      · exact h'
      · subst h'; exact h
  · simp

theorem sadd_sub (s : List κ) (x : κ) : ∀ y ∈ s, y ∈ sadd s x := fun _ h => mem_sadd.2 (Or.inl h)

theorem mem_sunion {a b : List κ} {y : κ} : y ∈ sunion a b ↔ y ∈ a ∨ y ∈ b := by
  unfold sunion
  induction b generalizing a with
  | nil => simp
  | cons x xs ih =>
    simp only [List.foldl_cons]
    rw [ih, mem_sadd]
    simp only [List.mem_cons]
    constructor
    · intro h; rcases h with (h | h) | h
      · exact Or.inl h
      · exact Or.inr (Or.inl h)
      · exact Or.inr (Or.inr h)
    · intro h; rcases h with h | h | h
      · exact Or.inl (Or.inl h)
      · exact Or.inl (Or.inr h)
      · exact Or.inr h

theorem sadd_length_le (s : List κ) (x : κ) : s.length ≤ (sadd s x).length := by
  unfold sadd; split <;> simp

/-- `sadd` keeps the list as a prefix -/
theorem sadd_prefix (s : List κ) (x : κ) : ∃ t, sadd s x = s ++ t := by
  unfold sadd; split
  · exact ⟨[], by simp⟩
  · exact ⟨[x], rfl⟩

theorem sunion_prefix (a b : List κ) : ∃ t, sunion a b = a ++ t := by
  unfold sunion
  induction b generalizing a with
  | nil => exact ⟨[], by simp⟩
  | cons x xs ih =>
    simp only [List.foldl_cons]
    obtain ⟨t1, h1⟩ := sadd_prefix a x
    obtain ⟨t2, h2⟩ := ih (sadd a x)
    exact ⟨t1 ++ t2, by rw [h2, h1, List.append_assoc]⟩

/-- a union that does not change the length does not change the set -/
theorem sunion_eq_of_length {a b : List κ} (h : (sunion a b).length = a.length) : sunion a b = a := by
  obtain ⟨t, ht⟩ := sunion_prefix a b
  rw [ht] at h ⊢
  have : t = [] := by
    cases t with
    | nil => rfl
    | cons x xs => simp at h
  simp [this]

theorem sunion_sub_of_length {a b : List κ} (h : (sunion a b).length = a.length) : ∀ y ∈ b, y ∈ a := by
  intro y hy
  have := sunion_eq_of_length h
  rw [← this]
  exact mem_sunion.2 (Or.inr hy)

end Dict

section Gram
variable {σ : Type} [DecidableEq σ]

/-- the right-hand sides listed for `s` in a `prods_map` -/
def gramRules (G : Prods σ) (s : σ) : List (List σ) :=
  (G.filter fun e => decide (e.1 = s)).flatMap fun e => e.2.map Rule.rhs

theorem mem_gramRules {G : Prods σ} {s : σ} {p : List σ} :
    p ∈ gramRules G s ↔ ∃ rules, (s, rules) ∈ G ∧ ∃ r ∈ rules, r.rhs = p := by
  unfold gramRules
  simp only [List.mem_flatMap, List.mem_filter, List.mem_map, decide_eq_true_eq]
  constructor
  · rintro ⟨⟨k, rules⟩, ⟨hmem, hk⟩, r, hr, hp⟩
    simp only at hk; subst hk
    exact ⟨rules, hmem, r, hr, hp⟩
  · rintro ⟨rules, hmem, r, hr, hp⟩
    exact ⟨(s, rules), ⟨hmem, rfl⟩, r, hr, hp⟩

theorem gramRules_of_dget {G : Prods σ} {s : σ} {rules : List (Rule σ)} (h : dget s G = some rules)
    {r : Rule σ} (hr : r ∈ rules) : r.rhs ∈ gramRules G s :=
  mem_gramRules.2 ⟨rules, dget_mem h, r, hr, rfl⟩

end Gram
end LL
