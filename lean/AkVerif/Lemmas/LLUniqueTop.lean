import AkVerif.Lemmas.LLUnique
import AkVerif.Lemmas.LLUnfactor
import AkVerif.Lemmas.LLCompleteTop
import AkVerif.Lemmas.LLFactAll
/-!
C02, "a single parse": when `is_ambiguous()` is False
* every table entry holds exactly one production (`table_det`),
* a token list has at most one derivation tree rooted at the start symbol — in the factorised dictionary
  (`unique_gtree`) and in the dictionary the user wrote (`unique_user_tree`),
* the tree `parse` returns is that tree (`parse_is_the_tree`).
-/
set_option linter.unusedSectionVars false
namespace LL
open Ak

theorem table_det {σ : Type} [DecidableEq σ] {terms suffix : List σ} {T : Table σ}
    (hamb : isAmbiguous T = false) (X t : σ) (alts : List (List σ))
    (h : (cfgOf terms T suffix).table X t = some alts) : alts.length = 1 := by
  simp only [cfgOf, Option.map_eq_some_iff] at h
  obtain ⟨l, hl, rfl⟩ := h
  have hm := dget_mem hl
  unfold isAmbiguous at hamb
  rw [List.any_eq_false] at hamb
  have := hamb _ hm
  simpa using this

section Top
variable {P : Parser} {inp : CtorIn}

/-- at most one derivation tree of the factorised dictionary per sentence -/
theorem unique_gtree (hB : Built inp P) (hnd : (P.prods.map (·.1)).Nodup)
    (hamb : isAmbiguous P.table = false) (d1 d2 : Tree Sym)
    (h1 : GTree P.terminals P.prods d1) (h2 : GTree P.terminals P.prods d2)
    (hn1 : d1.name = P.start) (hn2 : d2.name = P.start) (hy : d1.yield = d2.yield) : d1 = d2 := by
  have hv := verifyPart1_ok hB.hV
  obtain ⟨hC, hW⟩ := model_closed P.suffix hnd (fun k hk => hv.disjoint k hk) hB.hN hB.hFi hB.hFo hB.hT hamb
  exact tree_unique_root hC P.start endSym hW d1 d2 (pvalid_of_gtree P.table P.suffix d1 h1)
    (pvalid_of_gtree P.table P.suffix d2 h2) hn1 hn2 hy

/-- at most one derivation tree of the user's dictionary per sentence -/
theorem unique_user_tree (hB : Built inp P) (hD : FactRelD P.userProds P.prods P.suffix)
    (hnd : (P.prods.map (·.1)).Nodup) (hamb : isAmbiguous P.table = false) (t1 t2 : Tree Sym)
    (h1 : Derives P.terminals P.userProds t1) (h2 : Derives P.terminals P.userProds t2)
    (hn1 : t1.name = P.start) (hn2 : t2.name = P.start) (hy : t1.yield = t2.yield) : t1 = t2 := by
  have hv := verifyPart1_ok hB.hV
  have hdisj : ∀ k ∈ pkeys P.prods, k ∉ P.terminals := fun k hk => hv.disjoint k hk
  obtain ⟨d1, g1, n1, y1, u1⟩ := gtree_of_derives_unf' hD hdisj t1 h1
  obtain ⟨d2, g2, n2, y2, u2⟩ := gtree_of_derives_unf' hD hdisj t2 h2
  have : d1 = d2 := unique_gtree hB hnd hamb d1 d2 g1 g2 (n1.trans hn1) (n2.trans hn2)
    (by rw [y1, y2, hy])
  rw [← u1, ← u2, this]

/-- the tree `parse` returns is the only derivation tree of its input -/
theorem parse_is_the_tree (hB : Built inp P) (hD : FactRelD P.userProds P.prods P.suffix)
    (hnd : (P.prods.map (·.1)).Nodup) (hamb : isAmbiguous P.table = false)
    (hsu : P.start ∈ pkeys P.userProds) (raw : List (List Char × List Char))
    (hEnd : ∀ tok ∈ (P.tokens raw).dropLast, tok.name ≠ endSym)
    (fuel : Nat) (t : Tree Sym) (h : P.parse raw fuel = .ok t)
    (u : Tree Sym) (hu : Derives P.terminals P.userProds u) (hun : u.name = P.start)
    (huy : u.yield = (P.tokens raw).dropLast) : u = t := by
  have hv := verifyPart1_ok hB.hV
  obtain ⟨hn, hd, _, hy⟩ := parse_sound_of_rel hB.core (factRel_of_D hv hD) hsu raw hEnd fuel t h
  exact unique_user_tree hB hD hnd hamb u t hu hd hun hn (by rw [huy, hy])

end Top
end LL
