import AkVerif.Lemmas.LLTransfer
/-!
The two facts about the result of `factorize` (with or without the smart undo) that `cycle_transfer_fwd`
needs beyond `FactRelD`:

* `ExtLast`: a rule of `k` that ends in a helper symbol `l` ends in a proper descendant of `k`
  (`Ext k l`, so the length of `path` grows) — for the plain factorisation from `Base.par`, kept by
  every iteration of `undoLoop` (`tr_undoLoop_ext`) and by the deletion of the inlined helpers;
* every helper symbol has a flattened expansion (`tr_productive`: it has a rule, and chains of
  "ends in a helper" are bounded by the largest rank of a helper).

Consequences: `factorize_cycle_iff` (left recursion of the factorised dictionary ⟺ of the user's
dictionary, for every result of `factorize`), `rejected_user_cyclic` (if the constructor's recursion
check answers `GrammarIsRecursive`, the grammar the user wrote is left recursive).

Neither fact follows from `FactRelD` alone:
`U = {X: []}`, `G = {X: [[X, h]], h: []}`, `S = [h]` satisfies `FactRelD` (no flattened expansion
exists at all), `G` has the cycle `X ▷ X`, `U` has none (helper without expansion);
`U = {X: [[a]]}`, `G = {X: [[h]], h: [[h], [a]]}`, `S = [h]` satisfies `FactRelD` and every helper has
an expansion, `G` has the cycle `h ▷ h`, `U` has none (no rank).
-/
set_option linter.unusedSectionVars false
namespace LL
open Ak

/-! ### helper symbols have flattened expansions -/

theorem tr_productive {G : Prods Sym} {S : List Sym} (rank : Sym → Nat)
    (hne : ∀ s ∈ S, ∃ p, p ∈ gramRules G s)
    (hrank : ∀ s p, p ∈ gramRules G s → ∀ l, p.getLast? = some l → l ∈ S → rank s < rank l) :
    ∀ s ∈ S, ∃ e, FlatD G S s e := by
  have key : ∀ n s, s ∈ S → maxOf (S.map rank) - rank s < n → ∃ e, FlatD G S s e := by
    intro n
    induction n with
    | zero => intro s _ h; exact absurd h (Nat.not_lt_zero _)
    | succ n ih =>
      intro s hs hn
      obtain ⟨p, hp⟩ := hne s hs
      cases hl : p.getLast? with
      | none => exact ⟨p, FlatD.base hp (fun l h => by rw [hl] at h; cases h)⟩
      | some l =>
        by_cases hlS : l ∈ S
        · have h1 := hrank s p hp l hl hlS
          have h2 : rank l ≤ maxOf (S.map rank) := le_maxOf (List.mem_map.2 ⟨l, hlS, rfl⟩)
          obtain ⟨e, he⟩ := ih l hlS (by omega)
          exact ⟨p.dropLast ++ e, FlatD.step (by rw [tr_split_last hl]; exact hp) hlS he⟩
        · exact ⟨p, FlatD.base hp (fun l' hl' => by rw [hl] at hl'; cases hl'; exact hlS)⟩
  intro s hs
  exact key _ s hs (Nat.lt_succ_self _)

/-! ### rules that end in a helper symbol end in a descendant of their key -/

def ExtLast (S0 : List Sym) (d : Prods Sym) : Prop :=
  ∀ k rules, dget k d = some rules → ∀ r ∈ rules, ∀ b, r.rhs.getLast? = some b → b ∈ S0 → Ext k b

theorem Ext_path_lt {a b : Sym} (h : Ext a b) : a.path.length < b.path.length := by
  obtain ⟨_, q, hq, hp⟩ := h
  rw [hp, List.length_append]
  cases q with
  | nil => exact absurd rfl hq
  | cons x xs => simp

theorem extLast_of_base {terms : List Sym} {D0 : Prods Sym} {S0 : List Sym} (hB : Base terms D0 S0) :
    ExtLast S0 D0 := by
  intro k rules hg r hr b hb hbS
  obtain ⟨g, e⟩ := hB.par k rules hg r hr b hb hbS
  rw [e]
  exact Ext_suf k g

/-- every iteration of the smart-undo loop keeps `ExtLast` -/
theorem tr_undoLoop_ext {terms S0 : List Sym} (hterm : ∀ t ∈ terms, t ∉ S0) :
    ∀ (order : List Sym) (d : Prods Sym) (rm : List Sym) (out : Prods Sym × List Sym),
      undoLoop terms S0 order d rm = .ok out → ExtLast S0 d → ExtLast S0 out.1
  | [], d, rm, out, h, hE => by
    rw [undoLoop_nil h]; exact hE
  | s :: rest, d, rm, out, h, hE => by
    obtain ⟨rr, new, rm', hrr, hu, h'⟩ := undoLoop_cons h
    have hU := undoRules_spec hu
    refine tr_undoLoop_ext hterm rest _ _ out h' ?_
    split
    · intro k rules hg r hr b hb hbS
      rw [dget_dset] at hg
      split at hg
      · rename_i hsk
        cases hg
        subst hsk
        have hmem : r.rhs ∈ new.map (·.rhs) := by
          rw [← renum_rhs]; exact List.mem_map.2 ⟨r, hr, rfl⟩
        obtain ⟨r0, hr0, e0⟩ := List.mem_map.1 hmem
        rcases hU.n1 r0 hr0 with ⟨hrin, _⟩ | ⟨r1, hr1, a, b0, sp, sr, hrhs, ha, hb0S, hg0, hsr, e'⟩
        · exact hE s rr hrr r0 hrin b (by rw [e0]; exact hb) hbS
        · have hsb0 : Ext s b0 := hE s rr hrr r1 hr1 b0 (by rw [hrhs]; simp) hb0S
          rw [← e0, e'] at hb
          simp only at hb
          rcases getLast?_cons_inv hb with ⟨_, e⟩ | h3
          · exact absurd (e ▸ hbS) (hterm a ha)
          · exact Ext_trans hsb0 (hE b0 sp hg0 sr hsr b h3 hbS)
      · exact hE k rules hg r hr b hb hbS
    · exact hE

/-! ### the result of `factorize` -/

/-- what `factorize` guarantees beyond `FactRelD`: helper symbols have flattened expansions, and a
rule of `k` ending in a helper symbol ends in a proper descendant of `k` -/
theorem factorize_helpers {terms : List Sym} {U G : Prods Sym} {S : List Sym} {smart : Bool}
    (hU : UserWF U) (hterm : ∀ t ∈ terms, t.path = []) (h : factorize terms U smart = .ok (G, S)) :
    (∀ s ∈ S, ∃ p, p ∈ gramRules G s) ∧
    (∀ k rules, (k, rules) ∈ G → ∀ r ∈ rules, ∀ l, r.rhs.getLast? = some l → l ∈ S → Ext k l) := by
  unfold factorize at h
  obtain ⟨d, hd, h⟩ := Except.bind_ok h
  split at h
  · cases h
  · rename_i hnd
    have hnd : (d.map (·.1)).Nodup := Classical.not_not.1 hnd
    have hB := base_of_factorizeAll hU hterm hd hnd
    have hE0 := extLast_of_base hB
    cases smart with
    | false =>
      simp only [Bool.false_eq_true, if_false, Except.ok.injEq, Prod.mk.injEq] at h
      obtain ⟨e1, e2⟩ := h
      subst e1; subst e2
      constructor
      · intro s hs
        have hk := dget_isSome_iff.2 (hB.sufKey s hs)
        cases hg : dget s d with
        | none => rw [hg] at hk; cases hk
        | some rules =>
          have h2 := hB.two s hs rules hg
          cases rules with
          | nil => simp at h2
          | cons r rs => exact ⟨r.rhs, gramRules_of_dget hg (by simp)⟩
      · intro k rules hm r hr l hl hlS
        exact hE0 k rules ((mem_iff_dget hnd).1 hm) r hr l hl hlS
    | true =>
      simp only [if_true] at h
      unfold smartUndo at h
      simp only at h
      obtain ⟨⟨d', rm⟩, hloop, h⟩ := Except.bind_ok h
      simp only [Except.ok.injEq, Prod.mk.injEq] at h
      obtain ⟨eG, eS⟩ := h
      have hI := undoLoop_all hB hloop
      have hE := tr_undoLoop_ext hB.termNot _ _ _ _ hloop hE0
      simp only at hE
      have hndd : (d'.map (·.1)).Nodup := by rw [hI.K]; exact hB.nd
      obtain ⟨hndG, hgetG⟩ := ddels_spec rm hndd
      rw [eG] at hndG hgetG
      have hS : ∀ x, x ∈ S ↔ x ∈ (d.map (·.1)).filter Sym.isSuf ∧ x ∉ rm := by
        intro x; rw [← eS, List.mem_filter]; simp only [decide_eq_true_eq]
      constructor
      · intro s hs
        obtain ⟨hs0, hsrm⟩ := (hS s).1 hs
        obtain ⟨rules, hg, h2⟩ := hI.J4 s hs0
        have hgG : dget s G = some rules := by rw [hgetG, if_neg hsrm]; exact hg
        cases rules with
        | nil => simp at h2
        | cons r rs => exact ⟨r.rhs, gramRules_of_dget hgG (by simp)⟩
      · intro k rules hm r hr l hl hlS
        have hg := (mem_iff_dget hndG).1 hm
        rw [hgetG] at hg
        split at hg
        · cases hg
        · exact hE k rules hg r hr l hl ((hS l).1 hlS).1

/-- **left recursion of the factorised dictionary ⟺ left recursion of the user's dictionary**, for
every result of `_factorize_productions` (both values of `smart_factorization`) -/
theorem factorize_cycle_iff {terms : List Sym} {U G : Prods Sym} {S : List Sym} {smart : Bool}
    (hU : UserWF U) (hterm : ∀ t ∈ terms, t.path = []) (h : factorize terms U smart = .ok (G, S))
    {NU NG : List Sym} (hNU : nullables U = .ok NU) (hNG : nullables G = .ok NG) :
    (∃ X, Plus (Reach1 G NG) X X) ↔ (∃ X, Plus (Reach1 U NU) X X) := by
  obtain ⟨hR, _⟩ := factRelD_factorize hU hterm h
  obtain ⟨hne, hext⟩ := factorize_helpers hU hterm h
  have hrank : ∀ k rules, (k, rules) ∈ G → ∀ r ∈ rules, ∀ l, r.rhs.getLast? = some l → l ∈ S →
      k.path.length < l.path.length :=
    fun k rules hm r hr l hl hlS => Ext_path_lt (hext k rules hm r hr l hl hlS)
  have hprod : ∀ s ∈ S, ∃ e, FlatD G S s e := by
    refine tr_productive (fun s => s.path.length) hne ?_
    intro s p hp l hl hlS
    obtain ⟨rules, hm, r, hr, hrp⟩ := mem_gramRules.1 hp
    exact hrank s rules hm r hr l (by rw [hrp]; exact hl) hlS
  exact cycle_transfer hR hNU hNG hprod (fun s => s.path.length) hrank

/-- the same for a parser the constructor built -/
theorem built_cycle_iff {inp : CtorIn} {P : Parser} (hB : Built inp P) {NU : List Sym}
    (hNU : nullables P.userProds = .ok NU) :
    (∃ X, Plus (Reach1 P.prods P.nullables) X X) ↔ (∃ X, Plus (Reach1 P.userProds NU) X X) := by
  obtain ⟨hU, _⟩ := createProds_wf inp.prods 0 [] P.userProds hB.hU userWF_nil
  exact factorize_cycle_iff hU (terms_path_nil hB.hD) hB.hF hNU hB.hN

/-- if the constructor gets as far as its recursion check and that check answers
`GrammarIsRecursive`, then the grammar the user wrote is left recursive (hypotheses = the stages of
`construct` the check depends on: terminal names, `_create_productions`, `_factorize_productions`,
`_get_nullables`; `NU` is `_get_nullables` of the user's productions) -/
theorem rejected_user_cyclic {inp : CtorIn} {U G : Prods Sym} {S NG NU : List Sym}
    (hD : (tokenNames inp).any (fun t => hasDunder t.name) = false)
    (hU : createProds 0 inp.prods [] = .ok U)
    (hF : factorize (tokenNames inp) U inp.smart = .ok (G, S))
    (hNG : nullables G = .ok NG) (hNU : nullables U = .ok NU)
    (hrec : recCheck G (sadd (tokenNames inp) endSym) NG (sortedKeys G) = .error .grammarIsRecursive) :
    ∃ X, Plus (Reach1 U NU) X X := by
  obtain ⟨hUwf, _⟩ := createProds_wf inp.prods 0 [] U hU userWF_nil
  exact (factorize_cycle_iff hUwf (terms_path_nil hD) hF hNU hNG).1 (recCheck_cycle hrec)

end LL
