import AkVerif.Lemmas.GhistBranch
/-!
Semantic invariant of the commit DFS: the classification stored for a commit (`done` / `visited` frontier /
`selected`) describes exactly the selected commits among its git ancestors, through reachability in the graph of
report commits.
-/
namespace Ghist
open Ak

/-- git ancestry: `Anc h a c` — `a` is `c` or an ancestor of `c` -/
inductive Anc {π} (h : Hist π) : Nat → Nat → Prop
  | refl (c : Nat) : Anc h c c
  | step {a p c : Nat} {cm : Commit π} : h.commits[c]? = some cm → p ∈ cm.parents → Anc h a p → Anc h a c

theorem Anc.trans {π} {h : Hist π} {a b c : Nat} (h1 : Anc h a b) (h2 : Anc h b c) : Anc h a c := by
  induction h2 with
  | refl => exact h1
  | step hc hp _ ih => exact .step hc hp ih

/-- a proper ancestor is an ancestor of a parent -/
theorem Anc.cases_parent {π} {h : Hist π} {a c : Nat} (ha : Anc h a c) :
    a = c ∨ ∃ cm p, h.commits[c]? = some cm ∧ p ∈ cm.parents ∧ Anc h a p := by
  cases ha with
  | refl => exact Or.inl rfl
  | step hc hp hr => exact Or.inr ⟨_, _, hc, hp, hr⟩

theorem Anc.le {π} {h : Hist π} (hT : h.Topo) {a c : Nat} (ha : Anc h a c) : a ≤ c := by
  induction ha with
  | refl => exact Nat.le_refl _
  | step hc hp _ ih => have := hT _ _ hc _ hp; omega

/-! ### reachability among report commits is not disturbed by appending report commits -/

theorem RReach.lt_or_eq {rcs : List RC} (hT : RcTopo rcs) {a i : Nat} (hr : RReach rcs a i) : a ≤ i := by
  induction hr with
  | refl => exact Nat.le_refl _
  | step hrc hp _ ih => have := hT _ _ hrc _ hp; omega

theorem RReach.append {rcs ext : List RC} {a i : Nat} (hr : RReach rcs a i) : RReach (rcs ++ ext) a i := by
  induction hr with
  | refl => exact .refl _
  | step hrc hp _ ih =>
    have hi : _ < rcs.length := (List.getElem?_eq_some_iff.mp hrc).1
    exact .step (by rw [List.getElem?_append_left hi]; exact hrc) hp ih

theorem RReach.of_append {rcs ext : List RC} (hT : RcTopo (rcs ++ ext)) {a i : Nat}
    (hr : RReach (rcs ++ ext) a i) (hi : i < rcs.length) : RReach rcs a i := by
  induction hr with
  | refl => exact .refl _
  | step hrc hp _ ih =>
    have hp' := hT _ _ hrc _ hp
    rw [List.getElem?_append_left hi] at hrc
    exact .step hrc hp (ih (by omega))

theorem RReach.trans {rcs : List RC} {a b c : Nat} (h1 : RReach rcs a b) (h2 : RReach rcs b c) : RReach rcs a c := by
  induction h2 with
  | refl => exact h1
  | step hrc hp _ ih => exact .step hrc hp ih

/-- reachability from the last report commit: itself or through one of its parents -/
theorem RReach.last {rcs : List RC} {rc : RC} (hT : RcTopo (rcs ++ [rc])) {a : Nat}
    (hr : RReach (rcs ++ [rc]) a rcs.length) : a = rcs.length ∨ ∃ p ∈ rc.parents, RReach rcs a p := by
  cases hr with
  | refl => exact Or.inl rfl
  | step hrc hp hr' =>
    right
    simp at hrc; subst hrc
    have hlt := hT rcs.length _ (by simp) _ hp
    exact ⟨_, hp, RReach.of_append hT hr' hlt⟩

section
variable {π β : Type} {h : Hist π}

def selOf (rp : Repo β) (x i : Nat) : Prop := rp.selected.lookup x = some i

/-- semantic invariant of the caches -/
structure Sem (h : Hist π) (rp : Repo β) : Prop where
  /-- a classified commit exists and its parents are classified -/
  closed : ∀ c cl, classify rp c = some cl → ∃ cm, h.commits[c]? = some cm ∧
    ∀ p ∈ cm.parents, ∃ cl', classify rp p = some cl'
  /-- the three caches are disjoint: a selected commit is classified as selected -/
  selCls : ∀ x i, selOf rp x i → classify rp x = some (.selected i)
  /-- the report commits reachable from the classification of `c` are the selected ancestors of `c` -/
  reach : ∀ c cl, classify rp c = some cl → ∀ i,
    (∃ r ∈ clsList cl, RReach rp.rcs i r) ↔ (∃ x, Anc h x c ∧ selOf rp x i)
  /-- a classified commit that matches is selected -/
  matchSel : ∀ c cl, classify rp c = some cl → h.isMatch c = true → ∃ i, selOf rp c i

theorem Sem.anc_classified {rp : Repo β} (s : Sem h rp) {a c : Nat} {cl : Cls} (hc : classify rp c = some cl)
    (ha : Anc h a c) : ∃ cl', classify rp a = some cl' := by
  induction ha generalizing cl with
  | refl => exact ⟨cl, hc⟩
  | step hcm hp _ ih =>
    obtain ⟨cm', hcm', hpar⟩ := s.closed _ _ hc
    rw [hcm] at hcm'; cases hcm'
    obtain ⟨cl', hcl'⟩ := hpar _ hp
    exact ih hcl'

/-- how the repository caches may grow during the DFS -/
structure Grow (rp rp' : Repo β) : Prop where
  rcs : ∃ ext, rp'.rcs = rp.rcs ++ ext
  cls : ∀ c cl, classify rp c = some cl → classify rp' c = some cl
  sel : ∀ x i, selOf rp' x i → selOf rp x i ∨ classify rp x = none

theorem Grow.refl (rp : Repo β) : Grow rp rp := ⟨⟨[], by simp⟩, fun _ _ h => h, fun _ _ h => Or.inl h⟩

theorem Grow.trans {a b c : Repo β} (h1 : Grow a b) (h2 : Grow b c) : Grow a c := by
  refine ⟨?_, fun x cl hx => h2.cls x cl (h1.cls x cl hx), ?_⟩
  · obtain ⟨e1, he1⟩ := h1.rcs
    obtain ⟨e2, he2⟩ := h2.rcs
    exact ⟨e1 ++ e2, by rw [he2, he1]; simp⟩
  · intro x i hx
    rcases h2.sel x i hx with h | h
    · exact h1.sel x i h
    · right
      cases hc : classify a x with
      | none => rfl
      | some cl => rw [h1.cls x cl hc] at h; cases h

/-! ### what `finish` does to the caches -/

/-- the three ways a finished commit enters the caches -/
inductive CacheStep (c : Nat) (cm : Commit π) (fr : List Nat) (rp rp' : Repo β) : Prop
  | done : cm.isMatch = false → fr = [] → rp'.done = c :: rp.done → rp'.visited = rp.visited →
      rp'.selected = rp.selected → rp'.rcs = rp.rcs → CacheStep c cm fr rp rp'
  | visited : cm.isMatch = false → fr ≠ [] → rp'.done = rp.done → rp'.visited = (c, fr) :: rp.visited →
      rp'.selected = rp.selected → rp'.rcs = rp.rcs → CacheStep c cm fr rp rp'
  | selected (rc : RC) : rc.commit = c → rc.parents = fr → rp'.done = rp.done → rp'.visited = rp.visited →
      rp'.selected = (c, rp.rcs.length) :: rp.selected → rp'.rcs = rp.rcs ++ [rc] → CacheStep c cm fr rp rp'

theorem cacheStep_addPlain (rp : Repo β) (c : Nat) (cm : Commit π) (fr : List Nat) (hm : cm.isMatch = false) :
    CacheStep c cm fr rp (rp.addPlain c fr) := by
  unfold Repo.addPlain
  split
  · rename_i he
    have : fr = [] := by cases fr <;> simp_all
    exact .done hm this rfl rfl rfl rfl
  · rename_i he
    have : fr ≠ [] := by cases fr <;> simp_all
    exact .visited hm this rfl rfl rfl rfl

theorem finish_cacheStep {pl : Plug π β} {head : Nat} {st st' : St β} {c : Nat} {cm : Commit π} {fr : List Nat}
    {rel : List Nat} (hf : finish pl head rel st c cm fr = .ok st') : CacheStep c cm fr st.rp st'.rp := by
  cases finish_cases hf with
  | irrelevant hm _ hfr => exact .done hm hfr rfl rfl rfl rfl
  | plain _ _ hm => exact cacheStep_addPlain _ _ _ _ hm
  | plainMatch => exact .selected _ rfl rfl rfl rfl rfl rfl
  | skip bpar new pb pbs bumps _ _ _ hm => exact cacheStep_addPlain _ _ _ _ hm
  | build bpar new pb pbs bumps bn na => exact .selected _ rfl rfl rfl rfl rfl rfl

theorem classify_none_parts {rp : Repo β} {c : Nat} (hc : classify rp c = none) :
    c ∉ rp.done ∧ rp.visited.lookup c = none ∧ rp.selected.lookup c = none := by
  unfold classify at hc
  split at hc
  · cases hc
  · rename_i hd
    split at hc
    · cases hc
    · rename_i hv
      split at hc
      · cases hc
      · rename_i hs
        exact ⟨by simpa using hd, hv, hs⟩

/-- classification of the finished commit after the step -/
theorem CacheStep.cls_self {c : Nat} {cm : Commit π} {fr : List Nat} {rp rp' : Repo β}
    (hs : CacheStep c cm fr rp rp') (hc : classify rp c = none) :
    (classify rp' c = some .done ∧ fr = [] ∧ cm.isMatch = false ∧ rp'.selected = rp.selected ∧ rp'.rcs = rp.rcs) ∨
    (classify rp' c = some (.visited fr) ∧ cm.isMatch = false ∧ rp'.selected = rp.selected ∧ rp'.rcs = rp.rcs) ∨
    (∃ rc, classify rp' c = some (.selected rp.rcs.length) ∧ rc.parents = fr ∧ rc.commit = c ∧
      rp'.selected = (c, rp.rcs.length) :: rp.selected ∧ rp'.rcs = rp.rcs ++ [rc]) := by
  obtain ⟨hd, hv, hsel⟩ := classify_none_parts hc
  cases hs with
  | done hm hfr h1 h2 h3 h4 =>
    left
    refine ⟨?_, hfr, hm, h3, h4⟩
    simp [classify, h1]
  | visited hm hfr h1 h2 h3 h4 =>
    right; left
    refine ⟨?_, hm, h3, h4⟩
    have : c ∉ rp'.done := by rw [h1]; exact hd
    simp [classify, this, h2]
  | selected rc hcm hpar h1 h2 h3 h4 =>
    right; right
    refine ⟨rc, ?_, hpar, hcm, h3, h4⟩
    have : c ∉ rp'.done := by rw [h1]; exact hd
    simp [classify, this, h2, hv, h3]

theorem CacheStep.cls_ne {c : Nat} {cm : Commit π} {fr : List Nat} {rp rp' : Repo β}
    (hs : CacheStep c cm fr rp rp') (x : Nat) (hne : x ≠ c) : classify rp' x = classify rp x := by
  cases hs with
  | done _ _ h1 h2 h3 h4 => simp [classify, h1, h2, h3, hne]
  | visited _ _ h1 h2 h3 h4 => simp [classify, h1, h2, h3, lookup_cons_ne x c _ _ hne]
  | selected rc _ _ h1 h2 h3 h4 => simp [classify, h1, h2, h3, lookup_cons_ne x c _ _ hne]

theorem CacheStep.sel_ne {c : Nat} {cm : Commit π} {fr : List Nat} {rp rp' : Repo β}
    (hs : CacheStep c cm fr rp rp') (x i : Nat) (hne : x ≠ c) : selOf rp' x i ↔ selOf rp x i := by
  cases hs with
  | done _ _ h1 h2 h3 h4 => simp [selOf, h3]
  | visited _ _ h1 h2 h3 h4 => simp [selOf, h3]
  | selected rc _ _ h1 h2 h3 h4 => simp [selOf, h3, lookup_cons_ne x c _ _ hne]

theorem CacheStep.rcs_prefix {c : Nat} {cm : Commit π} {fr : List Nat} {rp rp' : Repo β}
    (hs : CacheStep c cm fr rp rp') : ∃ ext, rp'.rcs = rp.rcs ++ ext := by
  cases hs with
  | done _ _ _ _ _ h4 => exact ⟨[], by simp [h4]⟩
  | visited _ _ _ _ _ h4 => exact ⟨[], by simp [h4]⟩
  | selected rc _ _ _ _ _ h4 => exact ⟨[rc], h4⟩

theorem CacheStep.grow {c : Nat} {cm : Commit π} {fr : List Nat} {rp rp' : Repo β}
    (hs : CacheStep c cm fr rp rp') (hc : classify rp c = none) : Grow rp rp' := by
  refine ⟨hs.rcs_prefix, ?_, ?_⟩
  · intro x cl hx
    have hne : x ≠ c := by intro h; subst h; rw [hc] at hx; cases hx
    rw [hs.cls_ne x hne]; exact hx
  · intro x i hx
    by_cases hne : x = c
    · subst hne; exact Or.inr hc
    · exact Or.inl ((hs.sel_ne x i hne).mp hx)

theorem rreach_ext_iff {rcs rcs' : List RC} (hpre : ∃ ext, rcs' = rcs ++ ext) (hT' : RcTopo rcs') {i r : Nat}
    (hr : r < rcs.length) : RReach rcs' i r ↔ RReach rcs i r := by
  obtain ⟨ext, rfl⟩ := hpre
  exact ⟨fun h => h.of_append hT' hr, fun h => h.append⟩

/-- the semantic invariant survives the registration of a finished commit -/
theorem CacheStep.sem {c : Nat} {cm : Commit π} {fr : List Nat} {rp rp' : Repo β}
    (hs : CacheStep c cm fr rp rp') (hcm : h.commits[c]? = some cm) (hc : classify rp c = none) (s : Sem h rp)
    (hT' : RcTopo rp'.rcs)
    (hlt : ∀ x cl, classify rp x = some cl → ∀ r ∈ clsList cl, r < rp.rcs.length)
    (hfrlt : ∀ r ∈ fr, r < rp.rcs.length)
    (hpar : ∀ p ∈ cm.parents, ∃ cl, classify rp p = some cl)
    (hfr : ∀ i, (∃ r ∈ fr, RReach rp.rcs i r) ↔ (∃ p ∈ cm.parents, ∃ x, Anc h x p ∧ selOf rp x i)) :
    Sem h rp' := by
  have hg := hs.grow hc
  have hpre := hs.rcs_prefix
  -- ancestors of commits classified before are different from `c`, and selected as before
  have hanc_ne : ∀ {x cl y}, classify rp x = some cl → Anc h y x → y ≠ c := by
    intro x cl y hx hy hyc
    subst hyc
    obtain ⟨cl', hcl'⟩ := s.anc_classified hx hy
    rw [hc] at hcl'; cases hcl'
  -- selected ancestors of a parent, before and after
  have hparsel : ∀ i, (∃ p ∈ cm.parents, ∃ x, Anc h x p ∧ selOf rp' x i) ↔
      (∃ p ∈ cm.parents, ∃ x, Anc h x p ∧ selOf rp x i) := by
    intro i
    constructor
    · rintro ⟨p, hp, x, hx, hsx⟩
      obtain ⟨cl, hcl⟩ := hpar p hp
      exact ⟨p, hp, x, hx, (hs.sel_ne x i (hanc_ne hcl hx)).mp hsx⟩
    · rintro ⟨p, hp, x, hx, hsx⟩
      obtain ⟨cl, hcl⟩ := hpar p hp
      exact ⟨p, hp, x, hx, (hs.sel_ne x i (hanc_ne hcl hx)).mpr hsx⟩
  -- the selected ancestors of `c` are `c` itself (if selected) and those of its parents
  have hanc_c : ∀ i, (∃ x, Anc h x c ∧ selOf rp' x i) ↔
      (selOf rp' c i ∨ ∃ p ∈ cm.parents, ∃ x, Anc h x p ∧ selOf rp x i) := by
    intro i
    rw [← hparsel i]
    constructor
    · rintro ⟨x, hx, hsx⟩
      rcases hx.cases_parent with rfl | ⟨cm', p, hcm', hp, hxp⟩
      · exact Or.inl hsx
      · rw [hcm] at hcm'; cases hcm'
        exact Or.inr ⟨p, hp, x, hxp, hsx⟩
    · rintro (hsx | ⟨p, hp, x, hxp, hsx⟩)
      · exact ⟨c, .refl c, hsx⟩
      · exact ⟨x, .step hcm hp hxp, hsx⟩
  refine ⟨?_, ?_, ?_, ?_⟩
  · -- closed
    intro x cl hx
    by_cases hxc : x = c
    · subst hxc
      refine ⟨cm, hcm, fun p hp => ?_⟩
      obtain ⟨cl', hcl'⟩ := hpar p hp
      exact ⟨cl', hg.cls p cl' hcl'⟩
    · rw [hs.cls_ne x hxc] at hx
      obtain ⟨cm', hcm', hp'⟩ := s.closed x cl hx
      refine ⟨cm', hcm', fun p hp => ?_⟩
      obtain ⟨cl', hcl'⟩ := hp' p hp
      exact ⟨cl', hg.cls p cl' hcl'⟩
  · -- selCls
    intro x i hx
    by_cases hxc : x = c
    · subst hxc
      rcases hs.cls_self hc with ⟨_, _, _, hsel, _⟩ | ⟨_, _, hsel, _⟩ | ⟨rc, hcl, _, _, hsel, _⟩
      · simp only [selOf, hsel] at hx
        rw [(classify_none_parts hc).2.2] at hx; cases hx
      · simp only [selOf, hsel] at hx
        rw [(classify_none_parts hc).2.2] at hx; cases hx
      · simp only [selOf, hsel, lookup_cons_self] at hx
        cases hx; exact hcl
    · have := s.selCls x i ((hs.sel_ne x i hxc).mp hx)
      exact hg.cls x _ this
  · -- reach
    intro x cl hx i
    by_cases hxc : x = c
    · subst hxc
      rw [hanc_c i]
      rcases hs.cls_self hc with ⟨hcl, hfr0, _, hsel, _⟩ | ⟨hcl, _, hsel, hrcs⟩ | ⟨rc, hcl, hrp, _, hsel, hrcs⟩
      · rw [hcl] at hx; cases hx
        have hns : ¬ selOf rp' x i := by
          simp only [selOf, hsel]; rw [(classify_none_parts hc).2.2]; simp
        simp only [clsList, List.not_mem_nil, false_and, exists_false, false_iff, not_or]
        refine ⟨hns, ?_⟩
        rw [← hfr i, hfr0]; simp
      · rw [hcl] at hx; cases hx
        have hns : ¬ selOf rp' x i := by
          simp only [selOf, hsel]; rw [(classify_none_parts hc).2.2]; simp
        simp only [clsList]
        rw [← hfr i]
        constructor
        · rintro ⟨r, hr, hrr⟩
          exact Or.inr ⟨r, hr, (rreach_ext_iff hpre hT' (hfrlt r hr)).mp hrr⟩
        · rintro (h1 | ⟨r, hr, hrr⟩)
          · exact absurd h1 hns
          · exact ⟨r, hr, (rreach_ext_iff hpre hT' (hfrlt r hr)).mpr hrr⟩
      · rw [hcl] at hx; cases hx
        simp only [clsList, List.mem_singleton, exists_eq_left]
        rw [← hfr i]
        have hself : selOf rp' x i ↔ i = rp.rcs.length := by
          simp only [selOf, hsel, lookup_cons_self, Option.some.injEq]
          exact ⟨fun h => h.symm, fun h => h.symm⟩
        rw [hself, hrcs]
        rw [hrcs] at hT'
        constructor
        · intro hr
          rcases RReach.last hT' hr with h1 | ⟨p, hp, hpr⟩
          · exact Or.inl h1
          · rw [hrp] at hp; exact Or.inr ⟨p, hp, hpr⟩
        · rintro (h1 | ⟨p, hp, hpr⟩)
          · subst h1; exact .refl _
          · rw [← hrp] at hp
            exact .step (rc := rc) (by simp) hp hpr.append
    · rw [hs.cls_ne x hxc] at hx
      have h1 := s.reach x cl hx i
      constructor
      · rintro ⟨r, hr, hrr⟩
        obtain ⟨y, hy, hsy⟩ := h1.mp ⟨r, hr, (rreach_ext_iff hpre hT' (hlt x cl hx r hr)).mp hrr⟩
        exact ⟨y, hy, (hs.sel_ne y i (hanc_ne hx hy)).mpr hsy⟩
      · rintro ⟨y, hy, hsy⟩
        obtain ⟨r, hr, hrr⟩ := h1.mpr ⟨y, hy, (hs.sel_ne y i (hanc_ne hx hy)).mp hsy⟩
        exact ⟨r, hr, (rreach_ext_iff hpre hT' (hlt x cl hx r hr)).mpr hrr⟩
  · -- matchSel
    intro x cl hx hm
    by_cases hxc : x = c
    · subst hxc
      rw [Hist.isMatch_of_get hcm] at hm
      rcases hs.cls_self hc with ⟨_, _, hm', _, _⟩ | ⟨_, hm', _, _⟩ | ⟨rc, hcl, _, _, hsel, _⟩
      · rw [hm] at hm'; cases hm'
      · rw [hm] at hm'; cases hm'
      · exact ⟨rp.rcs.length, by simp [selOf, hsel, lookup_cons_self]⟩
    · rw [hs.cls_ne x hxc] at hx
      obtain ⟨i, hi⟩ := s.matchSel x cl hx hm
      exact ⟨i, (hs.sel_ne x i hxc).mpr hi⟩

/-! ### the invariant along the DFS -/

/-- what the accumulated `rc_parents` of a commit means after the children `ds` have been examined -/
structure FrontQ (h : Hist π) (s : St β) (ds acc : List Nat) : Prop where
  lt : ∀ r ∈ acc, r < s.rp.rcs.length
  cls : ∀ p ∈ ds, ∃ cl, classify s.rp p = some cl
  reach : ∀ i, (∃ r ∈ acc, RReach s.rp.rcs i r) ↔ (∃ p ∈ ds, ∃ x, Anc h x p ∧ selOf s.rp x i)

theorem Grow.sel_iff {rp rp' : Repo β} (g : Grow rp rp') (s : Sem h rp) (s' : Sem h rp') {x : Nat} {cl : Cls}
    (hx : classify rp x = some cl) (i : Nat) : selOf rp' x i ↔ selOf rp x i := by
  constructor
  · intro h1
    rcases g.sel x i h1 with h2 | h2
    · exact h2
    · rw [hx] at h2; cases h2
  · intro h1
    have h2 := g.cls x _ (s.selCls x i h1)
    rcases classify_cases h2 with ⟨h3, _⟩ | ⟨fr, h3, _⟩ | ⟨j, h3, _, _, h4⟩
    · cases h3
    · cases h3
    · cases h3; exact h4

theorem FrontQ.mono {s s' : St β} {ds acc : List Nat} (w' : WF h s') (sm : Sem h s.rp) (sm' : Sem h s'.rp)
    (g : Grow s.rp s'.rp) (q : FrontQ h s ds acc) : FrontQ h s' ds acc := by
  obtain ⟨ext, hext⟩ := g.rcs
  refine ⟨?_, ?_, ?_⟩
  · intro r hr; have := q.lt r hr; rw [hext]; simp; omega
  · intro p hp; obtain ⟨cl, hcl⟩ := q.cls p hp; exact ⟨cl, g.cls p cl hcl⟩
  · intro i
    constructor
    · rintro ⟨r, hr, hrr⟩
      obtain ⟨p, hp, x, hx, hsx⟩ := (q.reach i).mp ⟨r, hr, (rreach_ext_iff g.rcs w'.rcPar (q.lt r hr)).mp hrr⟩
      obtain ⟨cl, hcl⟩ := q.cls p hp
      obtain ⟨cl', hcl'⟩ := sm.anc_classified hcl hx
      exact ⟨p, hp, x, hx, (g.sel_iff sm sm' hcl' i).mpr hsx⟩
    · rintro ⟨p, hp, x, hx, hsx⟩
      obtain ⟨cl, hcl⟩ := q.cls p hp
      obtain ⟨cl', hcl'⟩ := sm.anc_classified hcl hx
      obtain ⟨r, hr, hrr⟩ := (q.reach i).mpr ⟨p, hp, x, hx, (g.sel_iff sm sm' hcl' i).mp hsx⟩
      exact ⟨r, hr, (rreach_ext_iff g.rcs w'.rcPar (q.lt r hr)).mpr hrr⟩

theorem sem_hyps (h : Hist π) (pl : Plug π β) (head : Nat) :
    VisitHyps h pl head (fun s => WF h s ∧ Sem h s.rp) (FrontQ h) (fun s s' => Grow s.rp s'.rp) (fun _ => True) where
  Rrefl := fun s => Grow.refl s.rp
  Rtrans := fun h1 h2 => h1.trans h2
  Qmono := fun hP hP' hR hQ => hQ.mono hP'.1 hP.2 hP'.2 hR
  Qnil := fun s _ => ⟨by simp, by simp, by simp⟩
  Qcls := by
    intro s ds acc c cl hP hQ _ hc
    refine ⟨?_, ?_, ?_⟩
    · intro r hr
      rcases (mem_addCls acc cl r).mp hr with hr | hr
      · exact hQ.lt r hr
      · exact hP.1.cls_lt hc r hr
    · intro p hp
      rcases List.mem_append.mp hp with hp | hp
      · exact hQ.cls p hp
      · simp at hp; subst hp; exact ⟨cl, hc⟩
    · intro i
      constructor
      · rintro ⟨r, hr, hrr⟩
        rcases (mem_addCls acc cl r).mp hr with hr | hr
        · obtain ⟨p, hp, hx⟩ := (hQ.reach i).mp ⟨r, hr, hrr⟩
          exact ⟨p, List.mem_append_left _ hp, hx⟩
        · exact ⟨c, by simp, (hP.2.reach c cl hc i).mp ⟨r, hr, hrr⟩⟩
      · rintro ⟨p, hp, hx⟩
        rcases List.mem_append.mp hp with hp | hp
        · obtain ⟨r, hr, hrr⟩ := (hQ.reach i).mpr ⟨p, hp, hx⟩
          exact ⟨r, (mem_addCls acc cl r).mpr (Or.inl hr), hrr⟩
        · simp at hp; subst hp
          obtain ⟨r, hr, hrr⟩ := (hP.2.reach p cl hc i).mpr hx
          exact ⟨r, (mem_addCls acc cl r).mpr (Or.inr hr), hrr⟩
  Vstep := fun _ _ _ => trivial
  Hfin := by
    intro rel s c cm fr s' hP _ hcl hcm hQ hf
    obtain ⟨w', _⟩ := finish_wf hP.1 hQ.lt hcl hcm hf
    have hs := finish_cacheStep hf
    refine ⟨⟨w', ?_⟩, hs.grow hcl⟩
    refine hs.sem hcm hcl hP.2 w'.rcPar (fun x cl hx => hP.1.cls_lt hx) hQ.lt
      (fun p hp => hQ.cls p (List.mem_reverse.mpr hp)) ?_
    intro i
    rw [hQ.reach i]
    constructor
    · rintro ⟨p, hp, hx⟩; exact ⟨p, List.mem_reverse.mp hp, hx⟩
    · rintro ⟨p, hp, hx⟩; exact ⟨p, List.mem_reverse.mpr hp, hx⟩

end

end Ghist
