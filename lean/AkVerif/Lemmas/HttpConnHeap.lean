import AkVerif.Model.HttpConn
/-!
Heap lemmas for C17: the separation invariant `Inv` (no two connections share an adapter list, no
connection's list is a list of the caller), its preservation by every operation, and the frame
lemmas (what an operation leaves unchanged).
-/
namespace HttpConn
open Ak

/-- Separation invariant of reachable heaps. It speaks about references only, never about the
content of a list. -/
structure Inv (H : Heap) : Prop where
  conn_ok : ∀ (i : Nat) (c : Conn), H.conns[i]? = some c → c.alist < H.lists.length ∧ c.impl < H.impls.length
  conn_inj : ∀ (i j : Nat) (ci cj : Conn), H.conns[i]? = some ci → H.conns[j]? = some cj → ci.alist = cj.alist → i = j
  user_ok : ∀ l : Nat, l ∈ H.userLists → l < H.lists.length ∧ ∀ (i : Nat) (c : Conn), H.conns[i]? = some c → c.alist ≠ l
  caller_ok : ∀ (k : Nat) (cl : Caller), H.callers[k]? = some cl →
    cl.conn < H.conns.length ∧ ∀ (p : Str) (n : Nat), (p, n) ∈ cl.cache → n < H.conns.length

theorem Inv.empty : Inv Heap.empty := by
  constructor <;> simp [Heap.empty]

/-- what `mkConn` does to the heap -/
theorem mkConn_spec {H H' : Heap} {t own plain n} (h : mkConn H t own plain = some (H', n)) :
    ∃ as cn, ownAdapters H own = some as ∧ n = H.conns.length ∧ H'.conns = H.conns ++ [cn] ∧
      cn.alist = H.lists.length ∧ cn.plain = plain ∧
      H'.userLists = H.userLists ∧ H'.dicts = H.dicts ∧ H'.callers = H.callers ∧
      ((∃ p pc pl, t = .conn p ∧ H.conns[p]? = some pc ∧ H.lists[pc.alist]? = some pl ∧
          H'.lists = H.lists ++ [as ++ pl] ∧ cn.impl = pc.impl ∧ H'.impls = H.impls) ∨
       (∃ a isStr sid, t = .addr a isStr sid ∧ H'.lists = H.lists ++ [as] ∧ cn.impl = H.impls.length ∧
          H'.impls = H.impls ++ [⟨if isStr then stripSlash a else a, if isStr then true else sid, 0⟩])) := by
  unfold mkConn at h
  split at h
  · cases h
  · rename_i as has
    split at h
    · rename_i p
      split at h
      · cases h
      · rename_i pc hpc
        split at h
        · cases h
        · rename_i pl hpl
          cases h
          exact ⟨as, _, has, rfl, rfl, rfl, rfl, rfl, rfl, rfl, Or.inl ⟨p, pc, pl, rfl, hpc, hpl, rfl, rfl, rfl⟩⟩
    · rename_i a isStr sid
      cases h
      exact ⟨as, _, has, rfl, rfl, rfl, rfl, rfl, rfl, rfl, Or.inr ⟨a, isStr, sid, rfl, rfl, rfl, rfl⟩⟩

/-- generic extension of the heap by one fresh list and one connection that owns it -/
theorem Inv.extend {H H' : Heap} (hi : Inv H) (x : List Adapter) (cn : Conn)
    (hl : H'.lists = H.lists ++ [x]) (hc : H'.conns = H.conns ++ [cn]) (ha : cn.alist = H.lists.length)
    (himp : cn.impl < H'.impls.length) (hil : H.impls.length ≤ H'.impls.length)
    (hu : H'.userLists = H.userLists) (hk : H'.callers = H.callers) : Inv H' := by
  constructor
  · intro i c h
    rw [hc] at h
    rw [hl]
    by_cases hlt : i < H.conns.length
    · rw [List.getElem?_append_left hlt] at h
      have := hi.conn_ok i c h
      simp; omega
    · have : i = H.conns.length := by
        have := (List.getElem?_eq_some_iff.mp h).1
        simp at this; omega
      subst this
      simp at h; subst h
      simp; omega
  · intro i j ci cj h1 h2 he
    rw [hc] at h1 h2
    by_cases hi1 : i < H.conns.length <;> by_cases hj1 : j < H.conns.length
    · rw [List.getElem?_append_left hi1] at h1
      rw [List.getElem?_append_left hj1] at h2
      exact hi.conn_inj i j ci cj h1 h2 he
    · rw [List.getElem?_append_left hi1] at h1
      have hj : j = H.conns.length := by
        have := (List.getElem?_eq_some_iff.mp h2).1
        simp at this; omega
      subst hj; simp at h2; subst h2
      have := (hi.conn_ok i ci h1).1
      omega
    · rw [List.getElem?_append_left hj1] at h2
      have hi' : i = H.conns.length := by
        have := (List.getElem?_eq_some_iff.mp h1).1
        simp at this; omega
      subst hi'; simp at h1; subst h1
      have := (hi.conn_ok j cj h2).1
      omega
    · have h1' := (List.getElem?_eq_some_iff.mp h1).1
      have h2' := (List.getElem?_eq_some_iff.mp h2).1
      simp at h1' h2'; omega
  · intro l hlm
    rw [hu] at hlm
    have := hi.user_ok l hlm
    refine ⟨by rw [hl]; simp; omega, ?_⟩
    intro i c h
    rw [hc] at h
    by_cases hlt : i < H.conns.length
    · rw [List.getElem?_append_left hlt] at h
      exact this.2 i c h
    · have : i = H.conns.length := by
        have := (List.getElem?_eq_some_iff.mp h).1
        simp at this; omega
      subst this; simp at h; subst h
      omega
  · intro k cl h
    rw [hk] at h
    have := hi.caller_ok k cl h
    rw [hc]
    refine ⟨by simp; omega, fun p n hm => ?_⟩
    have := this.2 p n hm
    simp; omega

theorem Inv.mkConn {H H' : Heap} {t own plain n} (hi : Inv H) (h : mkConn H t own plain = some (H', n)) :
    Inv H' ∧ n = H.conns.length ∧ H'.conns.length = H.conns.length + 1 := by
  obtain ⟨as, cn, _, hn, hc, ha, _, hu, _, hk, hcase⟩ := mkConn_spec h
  refine ⟨?_, hn, by rw [hc]; simp⟩
  rcases hcase with ⟨p, pc, pl, _, hpc, _, hl, himp, himpls⟩ | ⟨a, isStr, sid, _, hl, himp, himpls⟩
  · exact hi.extend _ cn hl hc ha (by rw [himp, himpls]; exact (hi.conn_ok p pc hpc).2) (by rw [himpls]; omega) hu hk
  · exact hi.extend _ cn hl hc ha (by rw [himp, himpls]; simp) (by rw [himpls]; simp) hu hk

/-- replacing the callers by callers that point to existing connections -/
theorem Inv.setCallers {H : Heap} (hi : Inv H) (cs : List Caller)
    (h : ∀ (k : Nat) (cl : Caller), cs[k]? = some cl → cl.conn < H.conns.length ∧ ∀ (p : Str) (n : Nat), (p, n) ∈ cl.cache → n < H.conns.length) :
    Inv { H with callers := cs } :=
  ⟨hi.conn_ok, hi.conn_inj, hi.user_ok, h⟩

/-- overwriting the content of a list keeps the invariant -/
theorem Inv.setList {H : Heap} (hi : Inv H) (l : Nat) (x : List Adapter) :
    Inv { H with lists := H.lists.set l x } := by
  constructor
  · intro i c h; simpa using hi.conn_ok i c h
  · exact hi.conn_inj
  · intro l' hm; simpa using hi.user_ok l' hm
  · exact hi.caller_ok

theorem Inv.setImpl {H : Heap} (hi : Inv H) (r : Nat) (x : Impl) :
    Inv { H with impls := H.impls.set r x } := by
  constructor
  · intro i c h; simpa using hi.conn_ok i c h
  · exact hi.conn_inj
  · exact hi.user_ok
  · exact hi.caller_ok

theorem Inv.setDicts {H : Heap} (hi : Inv H) (d : List UDict) : Inv { H with dicts := d } :=
  ⟨hi.conn_ok, hi.conn_inj, hi.user_ok, hi.caller_ok⟩

theorem getElem?_set_cases {α} {l : List α} {k j : Nat} {x y : α} (h : (l.set k x)[j]? = some y) :
    y = x ∨ l[j]? = some y := by
  by_cases hk : k = j
  · subst hk
    by_cases hlt : k < l.length
    · simp [hlt] at h
      exact Or.inl h.symm
    · have : (l.set k x)[k]? = none := by simp; omega
      rw [this] at h; cases h
  · rw [List.getElem?_set_ne hk] at h
    exact Or.inr h

theorem request_heap (H : Heap) (c : Nat) (args : Args) :
    (request H c args).1 = H ∨ ∃ r x, (request H c args).1 = { H with impls := H.impls.set r x } := by
  unfold request
  split
  · split
    · exact Or.inl rfl
    · simp only []
      split
      · exact Or.inr ⟨_, _, rfl⟩
      · exact Or.inl rfl
  · exact Or.inl rfl

theorem request_inv {H : Heap} (hi : Inv H) (c : Nat) (args : Args) : Inv (request H c args).1 := by
  rcases request_heap H c args with h | ⟨r, x, h⟩
  · rw [h]; exact hi
  · rw [h]; exact hi.setImpl r x

/-- the three things `get_conn` can do to the heap -/
theorem getConn_heap (H : Heap) (k : Nat) (comps : Option (List Str)) :
    (getConn H k comps).1 = H ∨
    (∃ cl pfx, H.callers[k]? = some cl ∧
      (getConn H k comps).1 = { H with callers := H.callers.set k { cl with cache := cl.cache ++ [(pfx, cl.conn)] } }) ∨
    (∃ cl pfx H1 n, H.callers[k]? = some cl ∧ mkConn H (.conn cl.conn) (.one (.pfx pfx)) true = some (H1, n) ∧
      (getConn H k comps).1 = { H1 with callers := H1.callers.set k { cl with cache := cl.cache ++ [(pfx, n)] } }) := by
  unfold getConn
  split
  · exact Or.inl rfl
  · rename_i cl hcl
    split
    · exact Or.inl rfl
    · split
      · split
        · exact Or.inl rfl
        · rename_i pfx _
          split
          · exact Or.inl rfl
          · split
            · exact Or.inr (Or.inl ⟨cl, pfx, hcl, rfl⟩)
            · split
              · exact Or.inl rfl
              · rename_i H1 n hmk
                exact Or.inr (Or.inr ⟨cl, pfx, H1, n, hcl, hmk, rfl⟩)
      · exact Or.inl rfl

theorem getConn_inv {H : Heap} (hi : Inv H) (k : Nat) (comps : Option (List Str)) :
    Inv (getConn H k comps).1 := by
  rcases getConn_heap H k comps with h | ⟨cl, pfx, hcl, h⟩ | ⟨cl, pfx, H1, n, hcl, hmk, h⟩
  · rw [h]; exact hi
  · rw [h]
    apply hi.setCallers
    intro j cl' hj
    have hcl' := hi.caller_ok k cl hcl
    rcases getElem?_set_cases hj with rfl | hj'
    · refine ⟨hcl'.1, fun p n hm => ?_⟩
      simp at hm
      rcases hm with hm | ⟨_, rfl⟩
      · exact hcl'.2 p n hm
      · exact hcl'.1
    · exact hi.caller_ok j cl' hj'
  · rw [h]
    obtain ⟨hi1, hn, hlen⟩ := hi.mkConn hmk
    obtain ⟨_, _, _, _, _, _, _, _, _, hk1, _⟩ := mkConn_spec hmk
    apply hi1.setCallers
    intro j cl' hj
    rw [hk1] at hj
    have hcl' := hi.caller_ok k cl hcl
    rcases getElem?_set_cases hj with rfl | hj'
    · refine ⟨by simp; omega, fun p m hm => ?_⟩
      simp at hm
      rcases hm with hm | ⟨_, rfl⟩
      · have := hcl'.2 p m hm; omega
      · omega
    · have := hi.caller_ok j cl' hj'
      exact ⟨by omega, fun p m hm => by have := this.2 p m hm; omega⟩

/-- appending a caller that points to an existing connection -/
theorem Inv.addCaller {H : Heap} (hi : Inv H) (cl : Caller) (hc : cl.conn < H.conns.length)
    (he : cl.cache = []) : Inv { H with callers := H.callers ++ [cl] } := by
  apply hi.setCallers
  intro k cl' h
  by_cases hlt : k < H.callers.length
  · rw [List.getElem?_append_left hlt] at h
    exact hi.caller_ok k cl' h
  · have : k = H.callers.length := by
      have := (List.getElem?_eq_some_iff.mp h).1
      simp at this; omega
    subst this; simp at h; subst h
    exact ⟨hc, by simp [he]⟩

/-- every operation keeps the separation invariant -/
theorem step_inv {H : Heap} (hi : Inv H) (op : Op) : Inv (step H op).1 := by
  cases op with
  | newList as =>
    simp only [step]
    constructor
    · intro i c h; have := hi.conn_ok i c h; simp; omega
    · exact hi.conn_inj
    · intro l hm
      simp at hm
      rcases hm with hm | rfl
      · have := hi.user_ok l hm
        exact ⟨by simp; omega, this.2⟩
      · refine ⟨by simp, fun i c h => ?_⟩
        have := (hi.conn_ok i c h).1; omega
    · exact hi.caller_ok
  | listAppend l a =>
    simp only [step]
    split
    · split
      · exact hi.setList _ _
      · exact hi
    · exact hi
  | newDict d => exact hi.setDicts _
  | mk t own plain =>
    simp only [step]
    split
    · rename_i H' n h; exact (hi.mkConn h).1
    · exact hi
  | add c a =>
    simp only [step]
    split
    · exact hi
    · split
      · exact hi.setList _ _
      · exact hi
  | newCaller t pmap =>
    simp only [step]
    split
    · rename_i p
      split
      · exact hi
      · rename_i pc hpc
        split
        · apply hi.addCaller _ _ rfl
          exact (List.getElem?_eq_some_iff.mp hpc).1
        · split
          · rename_i H' n h
            obtain ⟨hi1, hn, hlen⟩ := hi.mkConn h
            exact hi1.addCaller _ (by simp; omega) rfl
          · exact hi
    · split
      · rename_i H' n h
        obtain ⟨hi1, hn, hlen⟩ := hi.mkConn h
        exact hi1.addCaller _ (by simp; omega) rfl
      · exact hi
  | clone k own =>
    simp only [step]
    split
    · exact hi
    · split
      · rename_i H' n h
        obtain ⟨hi1, hn, hlen⟩ := hi.mkConn h
        exact hi1.addCaller _ (by simp; omega) rfl
      · exact hi
  | connOf k =>
    simp only [step]
    split <;> exact hi
  | cached k pfx =>
    simp only [step]
    split
    · split <;> exact hi
    · exact hi
  | call k comps args =>
    simp only [step]
    have h1 := getConn_inv hi k comps
    split
    · rename_i H' c heq
      have : H' = (getConn H k comps).1 := by rw [heq]
      subst this
      have h2 := request_inv h1 c args
      split
      · rename_i H'' s heq2
        have : H'' = (request (getConn H k comps).1 c args).1 := by rw [heq2]
        subst this; exact h2
      · rename_i H'' e heq2
        have : H'' = (request (getConn H k comps).1 c args).1 := by rw [heq2]
        subst this; exact h2
    · rename_i H' e heq
      have : H' = (getConn H k comps).1 := by rw [heq]
      subst this; exact h1
  | request c args =>
    simp only [step]
    have h2 := request_inv hi c args
    split
    · rename_i H' s heq
      have : H' = (request H c args).1 := by rw [heq]
      subst this; exact h2
    · rename_i H' e heq
      have : H' = (request H c args).1 := by rw [heq]
      subst this; exact h2

theorem run_inv {H : Heap} (hi : Inv H) (ops : List Op) : Inv (run H ops) := by
  induction ops generalizing H with
  | nil => exact hi
  | cons op ops ih => exact ih (step_inv hi op)

/-! ## frame: what a request through `c` reads is left alone by operations on anything else -/

/-- everything a request through `c` depends on, except the value of the id counter -/
def viewCore (H : Heap) (c : Nat) : Option (Conn × Str × Bool × List Adapter) :=
  (connView H c).map fun v => (v.1, v.2.1.address, v.2.1.sendIds, v.2.2)

def implStatic (i : Impl) : Str × Bool := (i.address, i.sendIds)

theorem viewCore_congr {H H' : Heap} {c : Nat} (hc : H'.conns[c]? = H.conns[c]?)
    (hl : ∀ cn, H.conns[c]? = some cn → H'.lists[cn.alist]? = H.lists[cn.alist]?)
    (hm : ∀ cn, H.conns[c]? = some cn →
      (H'.impls[cn.impl]?).map implStatic = (H.impls[cn.impl]?).map implStatic) :
    viewCore H' c = viewCore H c := by
  unfold viewCore connView
  rw [hc]
  cases hcn : H.conns[c]? with
  | none => rfl
  | some cn =>
    simp only []
    rw [hl cn hcn]
    have := hm cn hcn
    cases h1 : H'.impls[cn.impl]? <;> cases h2 : H.impls[cn.impl]? <;> rw [h1, h2] at this <;>
      simp [implStatic] at this
    all_goals first | rfl | (cases H.lists[cn.alist]? <;> simp [this])

theorem viewCore_mkConn {H H' : Heap} {t own plain n} (hi : Inv H) (h : mkConn H t own plain = some (H', n))
    {c : Nat} (hc : c < H.conns.length) : viewCore H' c = viewCore H c := by
  obtain ⟨as, cn, _, hn, hcs, ha, _, hu, _, hk, hcase⟩ := mkConn_spec h
  apply viewCore_congr
  · rw [hcs, List.getElem?_append_left hc]
  · intro cn' hcn'
    have := (hi.conn_ok c cn' hcn').1
    rcases hcase with ⟨_, _, _, _, _, _, hl, _, _⟩ | ⟨_, _, _, _, hl, _, _⟩ <;>
      rw [hl, List.getElem?_append_left this]
  · intro cn' hcn'
    have := (hi.conn_ok c cn' hcn').2
    rcases hcase with ⟨_, _, _, _, _, _, _, _, hm⟩ | ⟨_, _, _, _, _, _, hm⟩
    · rw [hm]
    · rw [hm, List.getElem?_append_left this]

theorem viewCore_callers (H : Heap) (cs : List Caller) (c : Nat) :
    viewCore { H with callers := cs } c = viewCore H c := rfl

/-- sharper form of `request_heap`: only the counter of one `conn_impl` moves -/
theorem request_heap' (H : Heap) (c : Nat) (args : Args) :
    (request H c args).1 = H ∨
    ∃ r imp, H.impls[r]? = some imp ∧
      (request H c args).1 = { H with impls := H.impls.set r { imp with ctr := imp.ctr + 1 } } := by
  unfold request
  split
  · rename_i cn impl as hd pd hv _ _
    split
    · exact Or.inl rfl
    · simp only []
      split
      · refine Or.inr ⟨cn.impl, impl, ?_, rfl⟩
        unfold connView at hv
        split at hv
        · cases hv
        · split at hv
          · rename_i h1 _; cases hv; exact h1
          · cases hv
      · exact Or.inl rfl
  · exact Or.inl rfl

theorem viewCore_request (H : Heap) (c' : Nat) (args : Args) (c : Nat) :
    viewCore (request H c' args).1 c = viewCore H c := by
  rcases request_heap' H c' args with h | ⟨r, imp, hr, h⟩
  · rw [h]
  · rw [h]
    apply viewCore_congr
    · rfl
    · intros; rfl
    · intro cn _
      simp only []
      by_cases hrc : r = cn.impl
      · subst hrc
        obtain ⟨hlt, hget⟩ := List.getElem?_eq_some_iff.mp hr
        simp [hlt, implStatic, hget]
      · rw [List.getElem?_set_ne hrc]

theorem viewCore_getConn {H : Heap} (hi : Inv H) (k : Nat) (comps : Option (List Str)) {c : Nat}
    (hc : c < H.conns.length) : viewCore (getConn H k comps).1 c = viewCore H c := by
  rcases getConn_heap H k comps with h | ⟨cl, pfx, hcl, h⟩ | ⟨cl, pfx, H1, n, hcl, hmk, h⟩
  · rw [h]
  · rw [h]; rfl
  · rw [h, viewCore_callers]; exact viewCore_mkConn hi hmk hc

theorem getConn_conns_le {H : Heap} (k : Nat) (comps : Option (List Str)) :
    H.conns.length ≤ (getConn H k comps).1.conns.length := by
  rcases getConn_heap H k comps with h | ⟨cl, pfx, hcl, h⟩ | ⟨cl, pfx, H1, n, hcl, hmk, h⟩
  · rw [h]; exact Nat.le_refl _
  · rw [h]; exact Nat.le_refl _
  · rw [h]
    obtain ⟨_, _, _, _, hcs, _⟩ := mkConn_spec hmk
    simp [hcs]

theorem request_conns (H : Heap) (c : Nat) (args : Args) : (request H c args).1.conns = H.conns := by
  rcases request_heap H c args with h | ⟨r, x, h⟩ <;> rw [h]

/-- the operation appends an adapter to the list of connection `c` -/
def Op.addsTo (c : Nat) : Op → Prop
  | .add c' _ => c' = c
  | _ => False

theorem viewCore_setList_ne {H : Heap} {c l : Nat} (x : List Adapter)
    (h : ∀ cn, H.conns[c]? = some cn → cn.alist ≠ l) :
    viewCore { H with lists := H.lists.set l x } c = viewCore H c := by
  apply viewCore_congr
  · rfl
  · intro cn hcn
    simp only []
    rw [List.getElem?_set_ne (Ne.symm (h cn hcn))]
  · intros; rfl

/-- **frame, one step**: an operation that is not `c.add_adapter(…)` leaves what a request through
`c` reads unchanged. -/
theorem step_view {H : Heap} (hi : Inv H) {c : Nat} (hc : c < H.conns.length) (op : Op)
    (hno : ¬ op.addsTo c) : viewCore (step H op).1 c = viewCore H c := by
  cases op with
  | newList as =>
    simp only [step]
    apply viewCore_congr
    · rfl
    · intro cn hcn
      have := (hi.conn_ok c cn hcn).1
      simp only []
      rw [List.getElem?_append_left this]
    · intros; rfl
  | listAppend l a =>
    simp only [step]
    split
    · rename_i hl
      split
      · exact viewCore_setList_ne _ fun cn hcn => (hi.user_ok l hl).2 c cn hcn
      · rfl
    · rfl
  | newDict d => rfl
  | mk t own plain =>
    simp only [step]
    split
    · rename_i H' n h; exact viewCore_mkConn hi h hc
    · rfl
  | add c' a =>
    simp only [step]
    have hne : c' ≠ c := hno
    split
    · rfl
    · rename_i cn' hcn'
      split
      · apply viewCore_setList_ne
        intro cn hcn heq
        exact hne (hi.conn_inj c' c cn' cn hcn' hcn heq.symm)
      · rfl
  | newCaller t pmap =>
    simp only [step]
    split
    · split
      · rfl
      · split
        · rfl
        · split
          · rename_i H' n h; rw [viewCore_callers]; exact viewCore_mkConn hi h hc
          · rfl
    · split
      · rename_i H' n h; rw [viewCore_callers]; exact viewCore_mkConn hi h hc
      · rfl
  | clone k own =>
    simp only [step]
    split
    · rfl
    · split
      · rename_i H' n h; rw [viewCore_callers]; exact viewCore_mkConn hi h hc
      · rfl
  | connOf k => simp only [step]; split <;> rfl
  | cached k pfx =>
    simp only [step]
    split
    · split <;> rfl
    · rfl
  | call k comps args =>
    simp only [step]
    have h1 := viewCore_getConn hi k comps hc
    split
    · rename_i H' c' heq
      have : H' = (getConn H k comps).1 := by rw [heq]
      subst this
      have h2 := viewCore_request (getConn H k comps).1 c' args c
      split
      · rename_i H'' s heq2
        have : H'' = (request (getConn H k comps).1 c' args).1 := by rw [heq2]
        subst this; rw [h2, h1]
      · rename_i H'' e heq2
        have : H'' = (request (getConn H k comps).1 c' args).1 := by rw [heq2]
        subst this; rw [h2, h1]
    · rename_i H' e heq
      have : H' = (getConn H k comps).1 := by rw [heq]
      subst this; exact h1
  | request c' args =>
    simp only [step]
    have h2 := viewCore_request H c' args c
    split
    · rename_i H' s heq
      have : H' = (request H c' args).1 := by rw [heq]
      subst this; exact h2
    · rename_i H' e heq
      have : H' = (request H c' args).1 := by rw [heq]
      subst this; exact h2

/-! ## monotonicity: connections and the caller's dictionaries are only ever added -/

theorem getConn_dicts (H : Heap) (k : Nat) (comps : Option (List Str)) : (getConn H k comps).1.dicts = H.dicts := by
  rcases getConn_heap H k comps with h | ⟨cl, pfx, hcl, h⟩ | ⟨cl, pfx, H1, n, hcl, hmk, h⟩
  · rw [h]
  · rw [h]
  · rw [h]
    obtain ⟨_, _, _, _, _, _, _, _, hd, _⟩ := mkConn_spec hmk
    exact hd

theorem request_dicts (H : Heap) (c : Nat) (args : Args) : (request H c args).1.dicts = H.dicts := by
  rcases request_heap H c args with h | ⟨r, x, h⟩ <;> rw [h]

theorem mkConn_conns_le {H H' : Heap} {t own plain n} (h : mkConn H t own plain = some (H', n)) :
    H.conns.length ≤ H'.conns.length ∧ H'.dicts = H.dicts := by
  obtain ⟨_, _, _, _, hcs, _, _, _, hd, _⟩ := mkConn_spec h
  exact ⟨by simp [hcs], hd⟩

theorem step_mono (H : Heap) (op : Op) :
    H.conns.length ≤ (step H op).1.conns.length ∧ ∃ y, (step H op).1.dicts = H.dicts ++ y := by
  cases op with
  | newList as => exact ⟨Nat.le_refl _, [], by simp [step]⟩
  | listAppend l a =>
    simp only [step]
    split
    · split <;> exact ⟨Nat.le_refl _, [], by simp⟩
    · exact ⟨Nat.le_refl _, [], by simp⟩
  | newDict d => exact ⟨Nat.le_refl _, [d], by simp [step]⟩
  | mk t own plain =>
    simp only [step]
    split
    · rename_i H' n h
      have := mkConn_conns_le h
      exact ⟨this.1, [], by simp [this.2]⟩
    · exact ⟨Nat.le_refl _, [], by simp⟩
  | add c a =>
    simp only [step]
    split
    · exact ⟨Nat.le_refl _, [], by simp⟩
    · split <;> exact ⟨Nat.le_refl _, [], by simp⟩
  | newCaller t pmap =>
    simp only [step]
    split
    · split
      · exact ⟨Nat.le_refl _, [], by simp⟩
      · split
        · exact ⟨Nat.le_refl _, [], by simp⟩
        · split
          · rename_i H' n h
            have := mkConn_conns_le h
            exact ⟨this.1, [], by simp [this.2]⟩
          · exact ⟨Nat.le_refl _, [], by simp⟩
    · split
      · rename_i H' n h
        have := mkConn_conns_le h
        exact ⟨this.1, [], by simp [this.2]⟩
      · exact ⟨Nat.le_refl _, [], by simp⟩
  | clone k own =>
    simp only [step]
    split
    · exact ⟨Nat.le_refl _, [], by simp⟩
    · split
      · rename_i H' n h
        have := mkConn_conns_le h
        exact ⟨this.1, [], by simp [this.2]⟩
      · exact ⟨Nat.le_refl _, [], by simp⟩
  | connOf k => simp only [step]; split <;> exact ⟨Nat.le_refl _, [], by simp⟩
  | cached k pfx =>
    simp only [step]
    split
    · split <;> exact ⟨Nat.le_refl _, [], by simp⟩
    · exact ⟨Nat.le_refl _, [], by simp⟩
  | call k comps args =>
    simp only [step]
    have h1 := getConn_conns_le (H := H) k comps
    have d1 := getConn_dicts H k comps
    split
    · rename_i H' c' heq
      have : H' = (getConn H k comps).1 := by rw [heq]
      subst this
      have h2 := request_conns (getConn H k comps).1 c' args
      have d2 := request_dicts (getConn H k comps).1 c' args
      split
      · rename_i H'' s heq2
        have : H'' = (request (getConn H k comps).1 c' args).1 := by rw [heq2]
        subst this; exact ⟨by rw [h2]; exact h1, [], by simp [d2, d1]⟩
      · rename_i H'' e heq2
        have : H'' = (request (getConn H k comps).1 c' args).1 := by rw [heq2]
        subst this; exact ⟨by rw [h2]; exact h1, [], by simp [d2, d1]⟩
    · rename_i H' e heq
      have : H' = (getConn H k comps).1 := by rw [heq]
      subst this; exact ⟨h1, [], by simp [d1]⟩
  | request c' args =>
    simp only [step]
    have h2 := request_conns H c' args
    have d2 := request_dicts H c' args
    split
    · rename_i H' s heq
      have : H' = (request H c' args).1 := by rw [heq]
      subst this; exact ⟨by rw [h2]; exact Nat.le_refl _, [], by simp [d2]⟩
    · rename_i H' e heq
      have : H' = (request H c' args).1 := by rw [heq]
      subst this; exact ⟨by rw [h2]; exact Nat.le_refl _, [], by simp [d2]⟩

theorem run_mono (H : Heap) (ops : List Op) :
    H.conns.length ≤ (run H ops).conns.length ∧ ∃ y, (run H ops).dicts = H.dicts ++ y := by
  induction ops generalizing H with
  | nil => exact ⟨Nat.le_refl _, [], by simp [run]⟩
  | cons op ops ih =>
    obtain ⟨h1, y1, hy1⟩ := step_mono H op
    obtain ⟨h2, y2, hy2⟩ := ih (step H op).1
    refine ⟨Nat.le_trans h1 h2, y1 ++ y2, ?_⟩
    simp only [run]
    rw [hy2, hy1, List.append_assoc]

/-- **frame over histories** -/
theorem run_view {H : Heap} (hi : Inv H) {c : Nat} (hc : c < H.conns.length) (ops : List Op)
    (hno : ∀ op ∈ ops, ¬ op.addsTo c) : viewCore (run H ops) c = viewCore H c := by
  induction ops generalizing H with
  | nil => rfl
  | cons op ops ih =>
    simp only [run]
    rw [ih (step_inv hi op) (Nat.lt_of_lt_of_le hc (step_mono H op).1)
      (fun o ho => hno o (List.mem_cons_of_mem _ ho))]
    exact step_view hi hc op (hno op List.mem_cons_self)

/-- a dictionary reference that is valid keeps its content -/
theorem optDict_ext {H H' : Heap} (y : List UDict) (h : H'.dicts = H.dicts ++ y) (r : Option Nat)
    (hr : ∀ n, r = some n → n < H.dicts.length) : optDict H' r = optDict H r := by
  cases r with
  | none => rfl
  | some n =>
    simp only [optDict]
    rw [h, List.getElem?_append_left (hr n rfl)]

/-! ## requests as a function of the view -/

def eraseId (s : Sent) : Sent := { s with genId := none }

/-- the request sent through `c`, the number taken from the id counter left out -/
def sentCore (H : Heap) (c : Nat) (args : Args) : Except Err Sent :=
  match (request H c args).2 with
  | .ok s => .ok (eraseId s)
  | .error e => .error e

/-- the same, computed from the view alone -/
def pureSend (v : Conn × Str × Bool × List Adapter) (hd pd : Option UDict) (args : Args) : Except Err Sent :=
  match applyAll v.2.2.2 { path := args.path, headers := copyHeaders hd } with
  | .error e => .error e
  | .ok ra => .ok (eraseId (assemble ⟨v.2.1, v.2.2.1, 0⟩ ra args.method pd args.data (responses v.2.2.2)))

theorem eraseId_assemble (impl : Impl) (ra : RA) (m : Option Str) (pd : Option UDict) (d : Body) (r : List Str) :
    eraseId (assemble impl ra m pd d r) = eraseId (assemble ⟨impl.address, impl.sendIds, 0⟩ ra m pd d r) := by
  simp [assemble, eraseId]

theorem sentCore_eq (H : Heap) (c : Nat) (args : Args) :
    sentCore H c args =
      match viewCore H c, optDict H args.headers, optDict H args.params with
      | some v, some hd, some pd => pureSend v hd pd args
      | _, _, _ => .error .keyError := by
  unfold sentCore request viewCore
  cases hv : connView H c with
  | none => simp
  | some v =>
    obtain ⟨cn, impl, as⟩ := v
    cases hh : optDict H args.headers with
    | none => simp
    | some hd =>
      cases hp : optDict H args.params with
      | none => simp
      | some pd =>
        simp only [Option.map_some, pureSend]
        cases ha : applyAll as { path := args.path, headers := copyHeaders hd } with
        | error e => simp
        | ok ra =>
          simp only []
          rw [← eraseId_assemble impl]
          cases (assemble impl ra args.method pd args.data (responses as)).genId <;> rfl

/-! ## what a derivation creates -/

theorem viewCore_some_iff {H : Heap} {c : Nat} {cn : Conn} {addr : Str} {sid : Bool} {as : List Adapter} :
    viewCore H c = some (cn, addr, sid, as) ↔
      ∃ impl, H.conns[c]? = some cn ∧ H.impls[cn.impl]? = some impl ∧ H.lists[cn.alist]? = some as ∧
        impl.address = addr ∧ impl.sendIds = sid := by
  unfold viewCore connView
  constructor
  · intro h
    cases hc : H.conns[c]? with
    | none => simp [hc] at h
    | some cn' =>
      simp only [hc] at h
      cases hi : H.impls[cn'.impl]? with
      | none => simp [hi] at h
      | some impl =>
        cases hl : H.lists[cn'.alist]? with
        | none => simp [hi, hl] at h
        | some as' =>
          simp [hi, hl] at h
          obtain ⟨rfl, rfl, rfl, rfl⟩ := h
          exact ⟨impl, rfl, hi, hl, rfl, rfl⟩
  · rintro ⟨impl, hc, hi, hl, rfl, rfl⟩
    simp [hc, hi, hl]

/-- `cls(parent, adapters=own)`: the new connection's list is a fresh one holding
`own ++ parent.adapters`; it shares the parent's `conn_impl`. -/
theorem viewCore_mkConn_new {H H' : Heap} {p : Nat} {own : Own} {plain : Bool} {n : Nat}
    (h : mkConn H (.conn p) own plain = some (H', n))
    {pc : Conn} {addr : Str} {sid : Bool} {pl as : List Adapter}
    (hv : viewCore H p = some (pc, addr, sid, pl)) (ho : ownAdapters H own = some as) :
    n = H.conns.length ∧
    viewCore H' n = some (⟨pc.impl, H.lists.length, plain⟩, addr, sid, as ++ pl) := by
  obtain ⟨as', cn, ho', hn, hcs, ha, hp, _, _, _, hcase⟩ := mkConn_spec h
  rw [ho] at ho'; cases ho'
  obtain ⟨impl, hpc, himpl, hpl, rfl, rfl⟩ := viewCore_some_iff.mp hv
  refine ⟨hn, ?_⟩
  rcases hcase with ⟨p', pc', pl', ht, hpc', hpl', hl, himp, himpls⟩ | ⟨_, _, _, ht, _⟩
  · cases ht
    rw [hpc] at hpc'; cases hpc'
    rw [hpl] at hpl'; cases hpl'
    have hcn : cn = ⟨pc.impl, H.lists.length, plain⟩ := by
      cases cn; simp at ha hp himp; simp [ha, hp, himp]
    subst hcn
    apply viewCore_some_iff.mpr
    refine ⟨impl, ?_, ?_, ?_, rfl, rfl⟩
    · rw [hcs, hn]; simp
    · rw [himpls]; exact himpl
    · rw [hl]; simp
  · cases ht

/-- `cls("http://…", adapters=own)` -/
theorem viewCore_mkConn_addr {H H' : Heap} {a : Str} {isStr sendIds : Bool} {own : Own} {plain : Bool} {n : Nat}
    (h : mkConn H (.addr a isStr sendIds) own plain = some (H', n))
    {as : List Adapter} (ho : ownAdapters H own = some as) :
    n = H.conns.length ∧
    viewCore H' n = some (⟨H.impls.length, H.lists.length, plain⟩,
      if isStr then stripSlash a else a, if isStr then true else sendIds, as) := by
  obtain ⟨as', cn, ho', hn, hcs, ha, hp, _, _, _, hcase⟩ := mkConn_spec h
  rw [ho] at ho'; cases ho'
  refine ⟨hn, ?_⟩
  rcases hcase with ⟨_, _, _, ht, _⟩ | ⟨a', isStr', sid', ht, hl, himp, himpls⟩
  · cases ht
  · cases ht
    have hcn : cn = ⟨H.impls.length, H.lists.length, plain⟩ := by
      cases cn; simp at ha hp himp; simp [ha, hp, himp]
    subst hcn
    apply viewCore_some_iff.mpr
    refine ⟨⟨if isStr then stripSlash a else a, if isStr then true else sendIds, 0⟩, ?_, ?_, ?_, rfl, rfl⟩
    · rw [hcs, hn]; simp
    · rw [himpls]; simp
    · rw [hl]; simp

/-- `c.add_adapter(a)` appends to `c`'s list -/
theorem viewCore_add {H : Heap} {c : Nat} (a : Adapter) {cn : Conn} {addr : Str} {sid : Bool} {as : List Adapter}
    (hv : viewCore H c = some (cn, addr, sid, as)) :
    (step H (.add c a)).2 = .ok .unit ∧
    viewCore (step H (.add c a)).1 c = some (cn, addr, sid, as ++ [a]) := by
  obtain ⟨impl, hc, himpl, hl, rfl, rfl⟩ := viewCore_some_iff.mp hv
  simp only [step, hc, hl]
  refine ⟨trivial, viewCore_some_iff.mpr ⟨impl, hc, himpl, ?_, rfl, rfl⟩⟩
  have := (List.getElem?_eq_some_iff.mp hl).1
  simp [this]

theorem lookup_append_new {β} (l : List (Str × β)) (k : Str) (v : β) (h : lookup l k = none) :
    lookup (l ++ [(k, v)]) k = some v := by
  induction l with
  | nil => simp [lookup]
  | cons kv r ih =>
    obtain ⟨k0, v0⟩ := kv
    by_cases h0 : k0 = k
    · simp [lookup, h0] at h
    · simp only [lookup, h0, if_false] at h
      simp [lookup, h0, ih h]

theorem mkConn_ok {H : Heap} {p : Nat} {own : Own} (plain : Bool)
    {pc : Conn} {addr : Str} {sid : Bool} {pl as : List Adapter}
    (hv : viewCore H p = some (pc, addr, sid, pl)) (ho : ownAdapters H own = some as) :
    ∃ H' n, mkConn H (.conn p) own plain = some (H', n) := by
  obtain ⟨impl, hpc, _, hpl, _, _⟩ := viewCore_some_iff.mp hv
  simp [mkConn, ho, hpc, hpl]

/-! ## the caller's lists -/

theorem mkConn_lists {H H' : Heap} {t own plain n} (h : mkConn H t own plain = some (H', n)) :
    (∃ x, H'.lists = H.lists ++ x) ∧ H'.userLists = H.userLists := by
  obtain ⟨_, _, _, _, _, _, _, hu, _, _, hcase⟩ := mkConn_spec h
  refine ⟨?_, hu⟩
  rcases hcase with ⟨_, _, _, _, _, _, hl, _, _⟩ | ⟨_, _, _, _, hl, _, _⟩ <;> exact ⟨_, hl⟩

theorem getConn_lists (H : Heap) (k : Nat) (comps : Option (List Str)) :
    (∃ x, (getConn H k comps).1.lists = H.lists ++ x) ∧ (getConn H k comps).1.userLists = H.userLists := by
  rcases getConn_heap H k comps with h | ⟨cl, pfx, hcl, h⟩ | ⟨cl, pfx, H1, n, hcl, hmk, h⟩
  · rw [h]; exact ⟨⟨[], by simp⟩, rfl⟩
  · rw [h]; exact ⟨⟨[], by simp⟩, rfl⟩
  · rw [h]; have hm := mkConn_lists hmk; exact hm

theorem request_lists (H : Heap) (c : Nat) (args : Args) :
    (request H c args).1.lists = H.lists ∧ (request H c args).1.userLists = H.userLists := by
  rcases request_heap H c args with h | ⟨r, x, h⟩ <;> rw [h] <;> exact ⟨rfl, rfl⟩

/-- a list object of the caller changes only when the caller appends to it -/
theorem step_userList {H : Heap} (hi : Inv H) {l : Nat} (hl : l ∈ H.userLists) (op : Op)
    (hno : ∀ a, op ≠ .listAppend l a) :
    (step H op).1.lists[l]? = H.lists[l]? ∧ l ∈ (step H op).1.userLists := by
  have hlt := (hi.user_ok l hl).1
  have ext : ∀ {H' : Heap}, (∃ x, H'.lists = H.lists ++ x) ∧ H'.userLists = H.userLists →
      H'.lists[l]? = H.lists[l]? ∧ l ∈ H'.userLists := by
    rintro H' ⟨⟨x, hx⟩, hu⟩
    exact ⟨by rw [hx, List.getElem?_append_left hlt], by rw [hu]; exact hl⟩
  have same : H.lists[l]? = H.lists[l]? ∧ l ∈ H.userLists := ⟨rfl, hl⟩
  cases op with
  | newList as =>
    simp only [step]
    exact ⟨by rw [List.getElem?_append_left hlt], by simp [hl]⟩
  | listAppend l' a =>
    have hne : l' ≠ l := fun h => hno a (by rw [h])
    simp only [step]
    split
    · split
      · exact ⟨by simp only []; rw [List.getElem?_set_ne hne], hl⟩
      · exact same
    · exact same
  | newDict d => exact same
  | mk t own plain =>
    simp only [step]
    split
    · rename_i H' n h; have hm := mkConn_lists h; exact ext hm
    · exact same
  | add c a =>
    simp only [step]
    split
    · exact same
    · rename_i cn hcn
      split
      · have := (hi.user_ok l hl).2 c cn hcn
        exact ⟨by simp only []; rw [List.getElem?_set_ne this], hl⟩
      · exact same
  | newCaller t pmap =>
    simp only [step]
    split
    · split
      · exact same
      · split
        · exact same
        · split
          · rename_i H' n h; have hm := mkConn_lists h; exact ext hm
          · exact same
    · split
      · rename_i H' n h; have hm := mkConn_lists h; exact ext hm
      · exact same
  | clone k own =>
    simp only [step]
    split
    · exact same
    · split
      · rename_i H' n h; have hm := mkConn_lists h; exact ext hm
      · exact same
  | connOf k => simp only [step]; split <;> exact same
  | cached k pfx =>
    simp only [step]
    split
    · split <;> exact same
    · exact same
  | call k comps args =>
    simp only [step]
    have h1 := getConn_lists H k comps
    split
    · rename_i H' c' heq
      have : H' = (getConn H k comps).1 := by rw [heq]
      subst this
      have h2 := request_lists (getConn H k comps).1 c' args
      split
      · rename_i H'' s heq2
        have : H'' = (request (getConn H k comps).1 c' args).1 := by rw [heq2]
        subst this; exact ext ⟨by rw [h2.1]; exact h1.1, by rw [h2.2]; exact h1.2⟩
      · rename_i H'' e heq2
        have : H'' = (request (getConn H k comps).1 c' args).1 := by rw [heq2]
        subst this; exact ext ⟨by rw [h2.1]; exact h1.1, by rw [h2.2]; exact h1.2⟩
    · rename_i H' e heq
      have : H' = (getConn H k comps).1 := by rw [heq]
      subst this; exact ext h1
  | request c' args =>
    simp only [step]
    have h2 := request_lists H c' args
    split
    · rename_i H' s heq
      have : H' = (request H c' args).1 := by rw [heq]
      subst this; exact ext ⟨⟨[], by simp [h2.1]⟩, h2.2⟩
    · rename_i H' e heq
      have : H' = (request H c' args).1 := by rw [heq]
      subst this; exact ext ⟨⟨[], by simp [h2.1]⟩, h2.2⟩

theorem run_userList {H : Heap} (hi : Inv H) {l : Nat} (hl : l ∈ H.userLists) (ops : List Op)
    (hno : ∀ op ∈ ops, ∀ a, op ≠ .listAppend l a) :
    (run H ops).lists[l]? = H.lists[l]? := by
  induction ops generalizing H with
  | nil => rfl
  | cons op ops ih =>
    simp only [run]
    have h1 := step_userList hi hl op (hno op List.mem_cons_self)
    rw [ih (step_inv hi op) h1.2 (fun o ho => hno o (List.mem_cons_of_mem _ ho)), h1.1]

end HttpConn
