import AkVerif.Model.HttpConn
/-!
Heap lemmas for C17: the separation invariant `Inv` (no two connections share an adapter list, no
connection's list is a list of the caller), its preservation by every operation, and the frame
lemmas (what an operation leaves unchanged).
-/
namespace HttpConn
open Ak

/-- Separation invariant of reachable heaps. It speaks about references only, never about the
content of a list. -/
structure Inv (H : Heap) : Prop where
  conn_ok : ∀ (i : Nat) (c : Conn), H.conns[i]? = some c → c.alist < H.lists.length ∧ c.impl < H.impls.length
  conn_inj : ∀ (i j : Nat) (ci cj : Conn), H.conns[i]? = some ci → H.conns[j]? = some cj → ci.alist = cj.alist → i = j
  user_ok : ∀ l : Nat, l ∈ H.userLists → l < H.lists.length ∧ ∀ (i : Nat) (c : Conn), H.conns[i]? = some c → c.alist ≠ l
  caller_ok : ∀ (k : Nat) (cl : Caller), H.callers[k]? = some cl →
    cl.conn < H.conns.length ∧ ∀ (p : Str) (n : Nat), (p, n) ∈ cl.cache → n < H.conns.length

theorem Inv.empty : Inv Heap.empty := by
  constructor <;> simp [Heap.empty]

/-- what `mkConn` does to the heap -/
theorem mkConn_spec {H H' : Heap} {t own plain n} (h : mkConn H t own plain = some (H', n)) :
    ∃ as cn, ownAdapters H own = some as ∧ n = H.conns.length ∧ H'.conns = H.conns ++ [cn] ∧
      cn.alist = H.lists.length ∧ cn.plain = plain ∧
      H'.userLists = H.userLists ∧ (H'.dicts = H.dicts ∧ H'.userDicts = H.userDicts) ∧ H'.callers = H.callers ∧
      ((∃ p pc pl, t = .conn p ∧ H.conns[p]? = some pc ∧ H.lists[pc.alist]? = some pl ∧
          H'.lists = H.lists ++ [as ++ pl] ∧ cn.impl = pc.impl ∧ H'.impls = H.impls) ∨
       (∃ a isStr sid, t = .addr a isStr sid ∧ H'.lists = H.lists ++ [as] ∧ cn.impl = H.impls.length ∧
          H'.impls = H.impls ++ [⟨if isStr then stripSlash a else a, if isStr then true else sid, 0⟩])) := by
  unfold mkConn at h
  split at h
  · cases h
  · rename_i as has
    split at h
    · rename_i p
      split at h
      · cases h
      · rename_i pc hpc
        split at h
        · cases h
        · rename_i pl hpl
          cases h
          exact ⟨as, _, has, rfl, rfl, rfl, rfl, rfl, ⟨rfl, rfl⟩, rfl, Or.inl ⟨p, pc, pl, rfl, hpc, hpl, rfl, rfl, rfl⟩⟩
    · rename_i a isStr sid
      cases h
      exact ⟨as, _, has, rfl, rfl, rfl, rfl, rfl, ⟨rfl, rfl⟩, rfl, Or.inr ⟨a, isStr, sid, rfl, rfl, rfl, rfl⟩⟩

/-- generic extension of the heap by one fresh list and one connection that owns it -/
theorem Inv.extend {H H' : Heap} (hi : Inv H) (x : List Adapter) (cn : Conn)
    (hl : H'.lists = H.lists ++ [x]) (hc : H'.conns = H.conns ++ [cn]) (ha : cn.alist = H.lists.length)
    (himp : cn.impl < H'.impls.length) (hil : H.impls.length ≤ H'.impls.length)
    (hu : H'.userLists = H.userLists) (hk : H'.callers = H.callers) : Inv H' := by
  constructor
  · intro i c h
    rw [hc] at h
    rw [hl]
    by_cases hlt : i < H.conns.length
    · rw [List.getElem?_append_left hlt] at h
      have := hi.conn_ok i c h
      simp; omega
    · have : i = H.conns.length := by
        have := (List.getElem?_eq_some_iff.mp h).1
        simp at this; omega
      subst this
      simp at h; subst h
      simp; omega
  · intro i j ci cj h1 h2 he
    rw [hc] at h1 h2
    by_cases hi1 : i < H.conns.length <;> by_cases hj1 : j < H.conns.length
    · rw [List.getElem?_append_left hi1] at h1
      rw [List.getElem?_append_left hj1] at h2
      exact hi.conn_inj i j ci cj h1 h2 he
    · rw [List.getElem?_append_left hi1] at h1
      have hj : j = H.conns.length := by
        have := (List.getElem?_eq_some_iff.mp h2).1
        simp at this; omega
      subst hj; simp at h2; subst h2
      have := (hi.conn_ok i ci h1).1
      omega
    · rw [List.getElem?_append_left hj1] at h2
      have hi' : i = H.conns.length := by
        have := (List.getElem?_eq_some_iff.mp h1).1
        simp at this; omega
      subst hi'; simp at h1; subst h1
      have := (hi.conn_ok j cj h2).1
      omega
    · have h1' := (List.getElem?_eq_some_iff.mp h1).1
      have h2' := (List.getElem?_eq_some_iff.mp h2).1
      simp at h1' h2'; omega
  · intro l hlm
    rw [hu] at hlm
    have := hi.user_ok l hlm
    refine ⟨by rw [hl]; simp; omega, ?_⟩
    intro i c h
    rw [hc] at h
    by_cases hlt : i < H.conns.length
    · rw [List.getElem?_append_left hlt] at h
      exact this.2 i c h
    · have : i = H.conns.length := by
        have := (List.getElem?_eq_some_iff.mp h).1
        simp at this; omega
      subst this; simp at h; subst h
      omega
  · intro k cl h
    rw [hk] at h
    have := hi.caller_ok k cl h
    rw [hc]
    refine ⟨by simp; omega, fun p n hm => ?_⟩
    have := this.2 p n hm
    simp; omega

theorem Inv.mkConn {H H' : Heap} {t own plain n} (hi : Inv H) (h : mkConn H t own plain = some (H', n)) :
    Inv H' ∧ n = H.conns.length ∧ H'.conns.length = H.conns.length + 1 := by
  obtain ⟨as, cn, _, hn, hc, ha, _, hu, _, hk, hcase⟩ := mkConn_spec h
  refine ⟨?_, hn, by rw [hc]; simp⟩
  rcases hcase with ⟨p, pc, pl, _, hpc, _, hl, himp, himpls⟩ | ⟨a, isStr, sid, _, hl, himp, himpls⟩
  · exact hi.extend _ cn hl hc ha (by rw [himp, himpls]; exact (hi.conn_ok p pc hpc).2) (by rw [himpls]; omega) hu hk
  · exact hi.extend _ cn hl hc ha (by rw [himp, himpls]; simp) (by rw [himpls]; simp) hu hk

/-- replacing the callers by callers that point to existing connections -/
theorem Inv.setCallers {H : Heap} (hi : Inv H) (cs : List Caller)
    (h : ∀ (k : Nat) (cl : Caller), cs[k]? = some cl → cl.conn < H.conns.length ∧ ∀ (p : Str) (n : Nat), (p, n) ∈ cl.cache → n < H.conns.length) :
    Inv { H with callers := cs } :=
  ⟨hi.conn_ok, hi.conn_inj, hi.user_ok, h⟩

/-- overwriting the content of a list keeps the invariant -/
theorem Inv.setList {H : Heap} (hi : Inv H) (l : Nat) (x : List Adapter) :
    Inv { H with lists := H.lists.set l x } := by
  constructor
  · intro i c h; simpa using hi.conn_ok i c h
  · exact hi.conn_inj
  · intro l' hm; simpa using hi.user_ok l' hm
  · exact hi.caller_ok

theorem Inv.setImpl {H : Heap} (hi : Inv H) (r : Nat) (x : Impl) :
    Inv { H with impls := H.impls.set r x } := by
  constructor
  · intro i c h; simpa using hi.conn_ok i c h
  · exact hi.conn_inj
  · exact hi.user_ok
  · exact hi.caller_ok

theorem Inv.setDicts {H : Heap} (hi : Inv H) (d : List Dict) (u : List Nat) :
    Inv { H with dicts := d, userDicts := u } :=
  ⟨hi.conn_ok, hi.conn_inj, hi.user_ok, hi.caller_ok⟩

theorem getElem?_set_cases {α} {l : List α} {k j : Nat} {x y : α} (h : (l.set k x)[j]? = some y) :
    y = x ∨ l[j]? = some y := by
  by_cases hk : k = j
  · subst hk
    by_cases hlt : k < l.length
    · simp [hlt] at h
      exact Or.inl h.symm
    · have : (l.set k x)[k]? = none := by simp; omega
      rw [this] at h; cases h
  · rw [List.getElem?_set_ne hk] at h
    exact Or.inr h

def implStatic (i : Impl) : Str × Bool := (i.address, i.sendIds)

/-! ## a request: the adapters write to the fresh header object only -/

theorem set_getElem?_self {α} {l : List α} {w : Nat} {d : α} (h : l[w]? = some d) : l.set w d = l := by
  obtain ⟨hlt, hg⟩ := List.getElem?_eq_some_iff.mp h
  apply List.ext_getElem? ; intro i
  by_cases hi : w = i
  · subst hi; simp [hlt, hg]
  · rw [List.getElem?_set_ne hi]

theorem applyReqH_spec (a : Adapter) (H : Heap) (w : Nat) (path : Str) (d : Dict) (hd : H.dicts[w]? = some d) :
    match applyReq a { path, headers := d } with
    | .ok ra => applyReqH a H w path = ({ H with dicts := H.dicts.set w ra.headers }, .ok ra.path)
    | .error e => applyReqH a H w path = (H, .error e) := by
  unfold applyReqH
  rw [hd]
  cases h : applyReq a { path, headers := d } <;> simp only [h]

/-- the heap loop is the pure loop run on the content of cell `w`; no other cell is touched -/
theorem applyAllH_spec (as : List Adapter) (H : Heap) (w : Nat) (path : Str) (d : Dict)
    (hd : H.dicts[w]? = some d) :
    match applyAll as { path, headers := d } with
    | .ok ra => applyAllH as H w path = ({ H with dicts := H.dicts.set w ra.headers }, .ok ra.path)
    | .error e => ∃ d', applyAllH as H w path = ({ H with dicts := H.dicts.set w d' }, .error e) := by
  induction as generalizing H path d with
  | nil =>
    simp only [applyAll, applyAllH]
    rw [set_getElem?_self hd]
  | cons a as ih =>
    have h1 := applyReqH_spec a H w path d hd
    simp only [applyAll, applyAllH]
    cases hr : applyReq a { path, headers := d } with
    | error e =>
      rw [hr] at h1
      simp only [h1]
      exact ⟨d, by rw [set_getElem?_self hd]⟩
    | ok r1 =>
      rw [hr] at h1
      simp only [h1]
      have hlt := (List.getElem?_eq_some_iff.mp hd).1
      have hd' : ({ H with dicts := H.dicts.set w r1.headers } : Heap).dicts[w]? = some r1.headers := by
        simp [hlt]
      have h2 := ih { H with dicts := H.dicts.set w r1.headers } r1.path r1.headers hd'
      cases hr2 : applyAll as { path := r1.path, headers := r1.headers } with
      | ok ra =>
        rw [hr2] at h2
        have : ({ path := r1.path, headers := r1.headers } : RA) = r1 := rfl
        rw [this] at hr2
        simp only [hr2, h2, List.set_set]
      | error e =>
        rw [hr2] at h2
        obtain ⟨d', h2⟩ := h2
        have : ({ path := r1.path, headers := r1.headers } : RA) = r1 := rfl
        rw [this] at hr2
        simp only [hr2]
        exact ⟨d', by rw [h2]; simp only [List.set_set]⟩

/-- the result of a request, computed without the heap of header objects -/
def requestPure (H : Heap) (c : Nat) (args : Args) : Except Err Sent :=
  match connView H c, optDict H args.headers, optParams H args.params, optData H args.data with
  | some (_, impl, as), some hd, some pd, some body =>
    match applyAll as { path := args.path, headers := copyHeaders hd } with
    | .error e => .error e
    | .ok ra => .ok (assemble impl ra args.method (finalParams as pd) (finalBody as body)
        (respFold as (decodeResp args.raw args.resp)))
  | _, _, _, _ => .error .keyError

/-- everything a request does to the heap -/
structure ReqEffect (H H' : Heap) : Prop where
  lists : H'.lists = H.lists
  userLists : H'.userLists = H.userLists
  userDicts : H'.userDicts = H.userDicts
  conns : H'.conns = H.conns
  callers : H'.callers = H.callers
  datas : H'.datas = H.datas
  dicts : ∃ y, H'.dicts = H.dicts ++ y
  implsLen : H'.impls.length = H.impls.length
  impls : ∀ i : Nat, (H'.impls[i]?).map implStatic = (H.impls[i]?).map implStatic

theorem connView_impl {H : Heap} {c : Nat} {cn : Conn} {impl : Impl} {as : List Adapter}
    (hv : connView H c = some (cn, impl, as)) : H.impls[cn.impl]? = some impl := by
  unfold connView at hv
  split at hv
  · cases hv
  · split at hv
    · rename_i h1 _; cases hv; exact h1
    · cases hv

theorem request_spec (H : Heap) (c : Nat) (args : Args) :
    (requestFlat H c args).2 = requestPure H c args ∧ ReqEffect H (requestFlat H c args).1 ∧
    ((∃ e, (requestFlat H c args).2 = .error e) → (requestFlat H c args).1.impls = H.impls) := by
  have same : ReqEffect H H := ⟨rfl, rfl, rfl, rfl, rfl, rfl, ⟨[], by simp⟩, rfl, fun _ => rfl⟩
  unfold requestFlat requestPure
  cases hv : connView H c with
  | none => exact ⟨rfl, same, fun _ => rfl⟩
  | some v =>
    obtain ⟨cn, impl, as⟩ := v
    cases hh : optDict H args.headers with
    | none => exact ⟨rfl, same, fun _ => rfl⟩
    | some hd =>
      cases hp : optParams H args.params with
      | none => exact ⟨rfl, same, fun _ => rfl⟩
      | some pd =>
       cases hb : optData H args.data with
       | none => exact ⟨rfl, same, fun _ => rfl⟩
       | some body =>
        simp only []
        have hw : ({ H with dicts := H.dicts ++ [copyHeaders hd] } : Heap).dicts[H.dicts.length]? =
            some (copyHeaders hd) := by simp
        have hs := applyAllH_spec as { H with dicts := H.dicts ++ [copyHeaders hd] } H.dicts.length args.path
          (copyHeaders hd) hw
        cases ha : applyAll as { path := args.path, headers := copyHeaders hd } with
        | error e =>
          rw [ha] at hs
          obtain ⟨d', hs⟩ := hs
          simp only [hs]
          refine ⟨?_, ⟨?_, ?_, ?_, ?_, ?_, ?_, ⟨[d'], ?_⟩, ?_, fun _ => ?_⟩, fun _ => ?_⟩ <;> first | rfl | simp
        | ok ra =>
          rw [ha] at hs
          simp only [hs]
          have hget : ((H.dicts ++ [copyHeaders hd]).set H.dicts.length ra.headers)[H.dicts.length]? =
              some ra.headers := by simp
          simp only [hget]
          have era : ({ path := ra.path, headers := ra.headers } : RA) = ra := rfl
          rw [era]
          cases hg : (assemble impl ra args.method (finalParams as pd) (finalBody as body)
              (respFold as (decodeResp args.raw args.resp))).genId with
          | none =>
            simp only []
            refine ⟨?_, ⟨?_, ?_, ?_, ?_, ?_, ?_, ⟨[finalHeaders impl ra (finalBody as body)], ?_⟩, ?_, fun _ => ?_⟩, ?_⟩
            all_goals first | rfl | simp
          | some g =>
            simp only []
            have himp := connView_impl hv
            refine ⟨?_, ⟨?_, ?_, ?_, ?_, ?_, ?_, ⟨[finalHeaders impl ra (finalBody as body)], ?_⟩, ?_, fun i => ?_⟩, ?_⟩
            all_goals first | rfl | simp
            by_cases hic : cn.impl = i
            · subst hic
              obtain ⟨hlt, hget⟩ := List.getElem?_eq_some_iff.mp himp
              simp [hlt, implStatic, hget]
            · rw [List.getElem?_set_ne hic]

theorem requestFlat_effect (H : Heap) (c : Nat) (args : Args) : ReqEffect H (requestFlat H c args).1 :=
  (request_spec H c args).2.1

theorem ReqEffect.refl (H : Heap) : ReqEffect H H := ⟨rfl, rfl, rfl, rfl, rfl, rfl, ⟨[], by simp⟩, rfl, fun _ => rfl⟩

theorem ReqEffect.trans {A B C : Heap} (h1 : ReqEffect A B) (h2 : ReqEffect B C) : ReqEffect A C := by
  obtain ⟨y1, hy1⟩ := h1.dicts
  obtain ⟨y2, hy2⟩ := h2.dicts
  exact ⟨h2.lists.trans h1.lists, h2.userLists.trans h1.userLists, h2.userDicts.trans h1.userDicts,
    h2.conns.trans h1.conns, h2.callers.trans h1.callers, h2.datas.trans h1.datas,
    ⟨y1 ++ y2, by rw [hy2, hy1, List.append_assoc]⟩, h2.implsLen.trans h1.implsLen,
    fun i => (h2.impls i).trans (h1.impls i)⟩

/-- bookkeeping fields (`fired`, `lastSent`) do not take part -/
theorem ReqEffect.of_fields {A B : Heap} (hl : B.lists = A.lists) (hul : B.userLists = A.userLists)
    (hud : B.userDicts = A.userDicts) (hc : B.conns = A.conns) (hk : B.callers = A.callers) (hda : B.datas = A.datas)
    (hd : B.dicts = A.dicts) (hi : B.impls = A.impls) : ReqEffect A B :=
  ⟨hl, hul, hud, hc, hk, hda, ⟨[], by simp [hd]⟩, by rw [hi], fun _ => by rw [hi]⟩

theorem fireNested_effect (H : Heap) (t : Nat) (fo : Bool) (id : Nat) : ReqEffect H (fireNested H t fo id).1 := by
  unfold fireNested
  split
  · exact ReqEffect.refl H
  · have h0 : ReqEffect H (if fo = true then { H with fired := id :: H.fired } else H) := by
      split
      · exact ReqEffect.of_fields rfl rfl rfl rfl rfl rfl rfl rfl
      · exact ReqEffect.refl H
    simp only []
    split
    · split
      · exact h0
      · have h1 := requestFlat_effect (if fo = true then { H with fired := id :: H.fired } else H) t nestedArgs
        split
        · rename_i H2 s heq
          have : H2 = (requestFlat (if fo = true then { H with fired := id :: H.fired } else H) t nestedArgs).1 := by
            rw [heq]
          subst this
          split <;> exact h0.trans h1
        · rename_i H2 e heq
          have : H2 = (requestFlat (if fo = true then { H with fired := id :: H.fired } else H) t nestedArgs).1 := by
            rw [heq]
          subst this
          exact h0.trans h1
    · exact h0

theorem firePre_effect (ra0 : RA) (H : Heap) (pre rest : List Adapter) (acc : List Str) :
    ReqEffect H (firePre ra0 H pre rest acc).1 := by
  induction rest generalizing H pre acc with
  | nil => exact ReqEffect.refl H
  | cons a rest ih =>
    unfold firePre
    split
    · rename_i t fo id
      split
      · exact ReqEffect.refl H
      · have h1 := fireNested_effect H t fo id
        split
        · rename_i H1 u heq
          have : H1 = (fireNested H t fo id).1 := by rw [heq]
          subst this; exact h1.trans (ih _ _ _)
        · rename_i H1 u e heq
          have : H1 = (fireNested H t fo id).1 := by rw [heq]
          subst this; exact h1
    · exact ih _ _ _

theorem firePost_effect (H : Heap) (rev : List Adapter) (v : J) (acc : List Str) :
    ReqEffect H (firePost H rev v acc).1 := by
  induction rev generalizing H v acc with
  | nil => exact ReqEffect.refl H
  | cons a rest ih =>
    unfold firePost
    split
    · rename_i t fo id
      have h1 := fireNested_effect H t fo id
      split
      · rename_i H1 u heq
        have : H1 = (fireNested H t fo id).1 := by rw [heq]
        subst this; exact h1.trans (ih _ _ _)
      · rename_i H1 u e heq
        have : H1 = (fireNested H t fo id).1 := by rw [heq]
        subst this; exact h1
    · split
      · exact ih _ _ _
      · exact ReqEffect.refl H

theorem ReqEffect.lastSent {A B : Heap} (h : ReqEffect A B) (n : Nat) : ReqEffect A { B with lastSent := n } :=
  h.trans (ReqEffect.of_fields rfl rfl rfl rfl rfl rfl rfl rfl)

/-- a request with nesting adapters is a sequence of complete flat requests on one world -/
theorem request_effect (H : Heap) (c : Nat) (args : Args) : ReqEffect H (request H c args).1 := by
  have flat : ReqEffect H (match requestFlat H c args with
      | (H1, .ok s) => (({ H1 with lastSent := 1 } : Heap), (Except.ok s : Except Err Sent))
      | (H1, .error e) => ({ H1 with lastSent := 0 }, .error e)).1 := by
    have h1 := requestFlat_effect H c args
    split
    · rename_i H1 s heq
      have : H1 = (requestFlat H c args).1 := by rw [heq]
      subst this; exact h1.lastSent 1
    · rename_i H1 e heq
      have : H1 = (requestFlat H c args).1 := by rw [heq]
      subst this; exact h1.lastSent 0
  unfold request
  split
  · rename_i cn impl as hd _ _
    split
    · exact flat
    · have hp := firePre_effect { path := args.path, headers := copyHeaders hd } H [] as []
      split
      · rename_i H1 e pre heq
        have : H1 = (firePre { path := args.path, headers := copyHeaders hd } H [] as []).1 := by rw [heq]
        subst this; exact hp.lastSent _
      · rename_i H1 pre x heq
        have : H1 = (firePre { path := args.path, headers := copyHeaders hd } H [] as []).1 := by rw [heq]
        subst this
        have hf := requestFlat_effect (firePre { path := args.path, headers := copyHeaders hd } H [] as []).1 c args
        split
        · rename_i H2 e heq2
          have : H2 = (requestFlat (firePre { path := args.path, headers := copyHeaders hd } H [] as []).1 c args).1 := by
            rw [heq2]
          subst this; exact (hp.trans hf).lastSent _
        · rename_i H2 s heq2
          have : H2 = (requestFlat (firePre { path := args.path, headers := copyHeaders hd } H [] as []).1 c args).1 := by
            rw [heq2]
          subst this
          have hq := firePost_effect (requestFlat (firePre { path := args.path, headers := copyHeaders hd } H [] as []).1 c args).1
            as.reverse (decodeResp args.raw args.resp) []
          split
          · rename_i H3 post x2 heq3
            have : H3 = (firePost (requestFlat (firePre { path := args.path, headers := copyHeaders hd } H [] as []).1 c args).1
              as.reverse (decodeResp args.raw args.resp) []).1 := by rw [heq3]
            subst this; exact ((hp.trans hf).trans hq).lastSent _
          · rename_i H3 e post heq3
            have : H3 = (firePost (requestFlat (firePre { path := args.path, headers := copyHeaders hd } H [] as []).1 c args).1
              as.reverse (decodeResp args.raw args.resp) []).1 := by rw [heq3]
            subst this; exact ((hp.trans hf).trans hq).lastSent _
  · exact flat

/-- a heap that differs only in the content of lists / dicts / counters of equal length, keeps `Inv` -/
theorem Inv.ofEffect {H H' : Heap} (hi : Inv H) (e : ReqEffect H H') : Inv H' := by
  have hil : H'.impls.length = H.impls.length := e.implsLen
  constructor
  · intro i c h
    rw [e.conns] at h
    have := hi.conn_ok i c h
    rw [e.lists, hil]; exact this
  · intro i j ci cj h1 h2
    rw [e.conns] at h1 h2
    exact hi.conn_inj i j ci cj h1 h2
  · intro l hl
    rw [e.userLists] at hl
    rw [e.lists, e.conns]
    exact hi.user_ok l hl
  · intro k cl h
    rw [e.callers] at h
    rw [e.conns]
    exact hi.caller_ok k cl h

theorem request_inv {H : Heap} (hi : Inv H) (c : Nat) (args : Args) : Inv (request H c args).1 :=
  hi.ofEffect (request_effect H c args)

/-- the three things `get_conn` can do to the heap -/
theorem getConn_heap (H : Heap) (k : Nat) (comps : Option (List Str)) :
    (getConn H k comps).1 = H ∨
    (∃ cl pfx, H.callers[k]? = some cl ∧
      (getConn H k comps).1 = { H with callers := H.callers.set k { cl with cache := cl.cache ++ [(pfx, cl.conn)] } }) ∨
    (∃ cl pfx H1 n, H.callers[k]? = some cl ∧ mkConn H (.conn cl.conn) (.one (.pfx pfx)) true = some (H1, n) ∧
      (getConn H k comps).1 = { H1 with callers := H1.callers.set k { cl with cache := cl.cache ++ [(pfx, n)] } }) := by
  unfold getConn
  split
  · exact Or.inl rfl
  · rename_i cl hcl
    split
    · exact Or.inl rfl
    · split
      · split
        · exact Or.inl rfl
        · rename_i pfx _
          split
          · exact Or.inl rfl
          · split
            · exact Or.inr (Or.inl ⟨cl, pfx, hcl, rfl⟩)
            · split
              · exact Or.inl rfl
              · rename_i H1 n hmk
                exact Or.inr (Or.inr ⟨cl, pfx, H1, n, hcl, hmk, rfl⟩)
      · exact Or.inl rfl

theorem getConn_inv {H : Heap} (hi : Inv H) (k : Nat) (comps : Option (List Str)) :
    Inv (getConn H k comps).1 := by
  rcases getConn_heap H k comps with h | ⟨cl, pfx, hcl, h⟩ | ⟨cl, pfx, H1, n, hcl, hmk, h⟩
  · rw [h]; exact hi
  · rw [h]
    apply hi.setCallers
    intro j cl' hj
    have hcl' := hi.caller_ok k cl hcl
    rcases getElem?_set_cases hj with rfl | hj'
    · refine ⟨hcl'.1, fun p n hm => ?_⟩
      simp at hm
      rcases hm with hm | ⟨_, rfl⟩
      · exact hcl'.2 p n hm
      · exact hcl'.1
    · exact hi.caller_ok j cl' hj'
  · rw [h]
    obtain ⟨hi1, hn, hlen⟩ := hi.mkConn hmk
    obtain ⟨_, _, _, _, _, _, _, _, _, hk1, _⟩ := mkConn_spec hmk
    apply hi1.setCallers
    intro j cl' hj
    rw [hk1] at hj
    have hcl' := hi.caller_ok k cl hcl
    rcases getElem?_set_cases hj with rfl | hj'
    · refine ⟨by simp; omega, fun p m hm => ?_⟩
      simp at hm
      rcases hm with hm | ⟨_, rfl⟩
      · have := hcl'.2 p m hm; omega
      · omega
    · have := hi.caller_ok j cl' hj'
      exact ⟨by omega, fun p m hm => by have := this.2 p m hm; omega⟩

/-- appending a caller that points to an existing connection -/
theorem Inv.addCaller {H : Heap} (hi : Inv H) (cl : Caller) (hc : cl.conn < H.conns.length)
    (he : cl.cache = []) : Inv { H with callers := H.callers ++ [cl] } := by
  apply hi.setCallers
  intro k cl' h
  by_cases hlt : k < H.callers.length
  · rw [List.getElem?_append_left hlt] at h
    exact hi.caller_ok k cl' h
  · have : k = H.callers.length := by
      have := (List.getElem?_eq_some_iff.mp h).1
      simp at this; omega
    subst this; simp at h; subst h
    exact ⟨hc, by simp [he]⟩

/-- the heap after `doCall` is the heap after `get_conn`, or after the request made through it -/
theorem doCall_heap (H : Heap) (k : Nat) (comps : Comps) (args : Args) :
    (doCall H k comps args).1 = (getConn H k comps).1 ∨
    ∃ c, (doCall H k comps args).1 = (request (getConn H k comps).1 c args).1 := by
  unfold doCall
  split
  · rename_i H' c heq
    have : H' = (getConn H k comps).1 := by rw [heq]
    subst this
    right; refine ⟨c, ?_⟩
    split
    · rename_i H'' s heq2; rw [heq2]
    · rename_i H'' e heq2; rw [heq2]
  · rename_i H' e heq
    left; rw [heq]

/-- calling a wrapper: an error before anything happens, or `doCall` with the components the class's
table gives for the name (and the path marked with the class whose body runs) -/
theorem step_call_cases (H : Heap) (k : Nat) (m : Str) (args : Args) :
    (∃ e, step H (.call k m args) = (H, .error e)) ∨
    ∃ comps args', step H (.call k m args) = doCall H k comps args' := by
  simp only [step]
  split
  · exact Or.inl ⟨_, rfl⟩
  · split
    · exact Or.inl ⟨_, rfl⟩
    · split
      · exact Or.inl ⟨_, rfl⟩
      · exact Or.inl ⟨_, rfl⟩
      · split
        · exact Or.inr ⟨_, _, rfl⟩
        · exact Or.inl ⟨_, rfl⟩

/-- making a caller: an error, a caller on an existing `HttpConn`, or on a connection made for it -/
theorem step_newCaller_cases (H : Heap) (t : Target) (cls : Nat) :
    (∃ e, step H (.newCaller t cls) = (H, .error e)) ∨
    (∃ cl : Caller, cl.conn < H.conns.length ∧ cl.cache = [] ∧
      step H (.newCaller t cls) = ({ H with callers := H.callers ++ [cl] }, .ok (.ref H.callers.length))) ∨
    (∃ H' n t' cl, mkConn H t' .none true = some (H', n) ∧ Caller.conn cl = n ∧ cl.cache = [] ∧
      step H (.newCaller t cls) = ({ H' with callers := H'.callers ++ [cl] }, .ok (.ref H'.callers.length))) := by
  simp only [step]
  split
  · exact Or.inl ⟨_, rfl⟩
  · split
    · rename_i p
      split
      · exact Or.inl ⟨_, rfl⟩
      · rename_i pc hpc
        split
        · exact Or.inr (Or.inl ⟨_, (List.getElem?_eq_some_iff.mp hpc).1, rfl, rfl⟩)
        · split
          · rename_i H' n h
            exact Or.inr (Or.inr ⟨H', n, _, _, h, rfl, rfl, rfl⟩)
          · exact Or.inl ⟨_, rfl⟩
    · split
      · rename_i H' n h
        exact Or.inr (Or.inr ⟨H', n, _, _, h, rfl, rfl, rfl⟩)
      · exact Or.inl ⟨_, rfl⟩

theorem doCall_inv {H : Heap} (hi : Inv H) (k : Nat) (comps : Comps) (args : Args) :
    Inv (doCall H k comps args).1 := by
  have h1 := getConn_inv hi k comps
  rcases doCall_heap H k comps args with h | ⟨c, h⟩
  · rw [h]; exact h1
  · rw [h]; exact request_inv h1 c args

/-- every operation keeps the separation invariant -/
theorem step_inv {H : Heap} (hi : Inv H) (op : Op) : Inv (step H op).1 := by
  cases op with
  | newList as =>
    simp only [step]
    constructor
    · intro i c h; have := hi.conn_ok i c h; simp; omega
    · exact hi.conn_inj
    · intro l hm
      simp at hm
      rcases hm with hm | rfl
      · have := hi.user_ok l hm
        exact ⟨by simp; omega, this.2⟩
      · refine ⟨by simp, fun i c h => ?_⟩
        have := (hi.conn_ok i c h).1; omega
    · exact hi.caller_ok
  | listAppend l a =>
    simp only [step]
    split
    · split
      · exact hi.setList _ _
      · exact hi
    · exact hi
  | newDict d => exact hi.setDicts _ _
  | mk t own plain =>
    simp only [step]
    split
    · rename_i H' n h; exact (hi.mkConn h).1
    · exact hi
  | add c a =>
    simp only [step]
    split
    · exact hi
    · split
      · exact hi.setList _ _
      · exact hi
  | newData v => exact ⟨hi.conn_ok, hi.conn_inj, hi.user_ok, hi.caller_ok⟩
  | newParams d =>
    simp only [step]
    split
    · exact hi.setDicts _ _
    · exact hi
  | newClass bases mro pmap own dlg =>
    simp only [step]
    split
    · exact hi
    · exact ⟨hi.conn_ok, hi.conn_inj, hi.user_ok, hi.caller_ok⟩
  | newCaller t cls =>
    rcases step_newCaller_cases H t cls with ⟨e, h⟩ | ⟨cl, hc, he, h⟩ | ⟨H', n, t', cl, hmk, hcn, he, h⟩
    · rw [h]; exact hi
    · rw [h]; exact hi.addCaller cl hc he
    · rw [h]
      obtain ⟨hi1, hn, hlen⟩ := hi.mkConn hmk
      exact hi1.addCaller cl (by rw [hcn]; omega) he
  | clone k own =>
    simp only [step]
    split
    · exact hi
    · split
      · rename_i H' n h
        obtain ⟨hi1, hn, hlen⟩ := hi.mkConn h
        exact hi1.addCaller _ (by simp; omega) rfl
      · exact hi
  | connOf k =>
    simp only [step]
    split <;> exact hi
  | cached k pfx =>
    simp only [step]
    split
    · split <;> exact hi
    · exact hi
  | call k m args =>
    rcases step_call_cases H k m args with ⟨e, h⟩ | ⟨comps, a', h⟩
    · rw [h]; exact hi
    · rw [h]; exact doCall_inv hi k comps a'
  | request c args =>
    simp only [step]
    have h2 := request_inv hi c args
    split
    · rename_i H' s heq
      have : H' = (request H c args).1 := by rw [heq]
      subst this; exact h2
    · rename_i H' e heq
      have : H' = (request H c args).1 := by rw [heq]
      subst this; exact h2

theorem run_inv {H : Heap} (hi : Inv H) (ops : List Op) : Inv (run H ops) := by
  induction ops generalizing H with
  | nil => exact hi
  | cons op ops ih => exact ih (step_inv hi op)

/-! ## frame: what a request through `c` reads is left alone by operations on anything else -/

/-- everything a request through `c` depends on, except the value of the id counter -/
def viewCore (H : Heap) (c : Nat) : Option (Conn × Str × Bool × List Adapter) :=
  (connView H c).map fun v => (v.1, v.2.1.address, v.2.1.sendIds, v.2.2)

theorem viewCore_congr {H H' : Heap} {c : Nat} (hc : H'.conns[c]? = H.conns[c]?)
    (hl : ∀ cn, H.conns[c]? = some cn → H'.lists[cn.alist]? = H.lists[cn.alist]?)
    (hm : ∀ cn, H.conns[c]? = some cn →
      (H'.impls[cn.impl]?).map implStatic = (H.impls[cn.impl]?).map implStatic) :
    viewCore H' c = viewCore H c := by
  unfold viewCore connView
  rw [hc]
  cases hcn : H.conns[c]? with
  | none => rfl
  | some cn =>
    simp only []
    rw [hl cn hcn]
    have := hm cn hcn
    cases h1 : H'.impls[cn.impl]? <;> cases h2 : H.impls[cn.impl]? <;> rw [h1, h2] at this <;>
      simp [implStatic] at this
    all_goals first | rfl | (cases H.lists[cn.alist]? <;> simp [this])

theorem viewCore_mkConn {H H' : Heap} {t own plain n} (hi : Inv H) (h : mkConn H t own plain = some (H', n))
    {c : Nat} (hc : c < H.conns.length) : viewCore H' c = viewCore H c := by
  obtain ⟨as, cn, _, hn, hcs, ha, _, hu, _, hk, hcase⟩ := mkConn_spec h
  apply viewCore_congr
  · rw [hcs, List.getElem?_append_left hc]
  · intro cn' hcn'
    have := (hi.conn_ok c cn' hcn').1
    rcases hcase with ⟨_, _, _, _, _, _, hl, _, _⟩ | ⟨_, _, _, _, hl, _, _⟩ <;>
      rw [hl, List.getElem?_append_left this]
  · intro cn' hcn'
    have := (hi.conn_ok c cn' hcn').2
    rcases hcase with ⟨_, _, _, _, _, _, _, _, hm⟩ | ⟨_, _, _, _, _, _, hm⟩
    · rw [hm]
    · rw [hm, List.getElem?_append_left this]

theorem viewCore_callers (H : Heap) (cs : List Caller) (c : Nat) :
    viewCore { H with callers := cs } c = viewCore H c := rfl

theorem viewCore_ofEffect {H H' : Heap} (e : ReqEffect H H') (c : Nat) : viewCore H' c = viewCore H c := by
  apply viewCore_congr
  · rw [e.conns]
  · intro cn _; rw [e.lists]
  · intro cn _
    exact e.impls cn.impl

theorem viewCore_request (H : Heap) (c' : Nat) (args : Args) (c : Nat) :
    viewCore (request H c' args).1 c = viewCore H c :=
  viewCore_ofEffect (request_effect H c' args) c

theorem viewCore_getConn {H : Heap} (hi : Inv H) (k : Nat) (comps : Option (List Str)) {c : Nat}
    (hc : c < H.conns.length) : viewCore (getConn H k comps).1 c = viewCore H c := by
  rcases getConn_heap H k comps with h | ⟨cl, pfx, hcl, h⟩ | ⟨cl, pfx, H1, n, hcl, hmk, h⟩
  · rw [h]
  · rw [h]; rfl
  · rw [h, viewCore_callers]; exact viewCore_mkConn hi hmk hc

theorem getConn_conns_le {H : Heap} (k : Nat) (comps : Option (List Str)) :
    H.conns.length ≤ (getConn H k comps).1.conns.length := by
  rcases getConn_heap H k comps with h | ⟨cl, pfx, hcl, h⟩ | ⟨cl, pfx, H1, n, hcl, hmk, h⟩
  · rw [h]; exact Nat.le_refl _
  · rw [h]; exact Nat.le_refl _
  · rw [h]
    obtain ⟨_, _, _, _, hcs, _⟩ := mkConn_spec hmk
    simp [hcs]

theorem request_conns (H : Heap) (c : Nat) (args : Args) : (request H c args).1.conns = H.conns :=
  (request_effect H c args).conns

/-- the operation appends an adapter to the list of connection `c` -/
def Op.addsTo (c : Nat) : Op → Prop
  | .add c' _ => c' = c
  | _ => False

theorem viewCore_setList_ne {H : Heap} {c l : Nat} (x : List Adapter)
    (h : ∀ cn, H.conns[c]? = some cn → cn.alist ≠ l) :
    viewCore { H with lists := H.lists.set l x } c = viewCore H c := by
  apply viewCore_congr
  · rfl
  · intro cn hcn
    simp only []
    rw [List.getElem?_set_ne (Ne.symm (h cn hcn))]
  · intros; rfl

/-- **frame, one step**: an operation that is not `c.add_adapter(…)` leaves what a request through
`c` reads unchanged. -/
theorem step_view {H : Heap} (hi : Inv H) {c : Nat} (hc : c < H.conns.length) (op : Op)
    (hno : ¬ op.addsTo c) : viewCore (step H op).1 c = viewCore H c := by
  cases op with
  | newList as =>
    simp only [step]
    apply viewCore_congr
    · rfl
    · intro cn hcn
      have := (hi.conn_ok c cn hcn).1
      simp only []
      rw [List.getElem?_append_left this]
    · intros; rfl
  | listAppend l a =>
    simp only [step]
    split
    · rename_i hl
      split
      · exact viewCore_setList_ne _ fun cn hcn => (hi.user_ok l hl).2 c cn hcn
      · rfl
    · rfl
  | newDict d => rfl
  | mk t own plain =>
    simp only [step]
    split
    · rename_i H' n h; exact viewCore_mkConn hi h hc
    · rfl
  | add c' a =>
    simp only [step]
    have hne : c' ≠ c := hno
    split
    · rfl
    · rename_i cn' hcn'
      split
      · apply viewCore_setList_ne
        intro cn hcn heq
        exact hne (hi.conn_inj c' c cn' cn hcn' hcn heq.symm)
      · rfl
  | newData v => rfl
  | newParams d => simp only [step]; split <;> rfl
  | newClass bases mro pmap own dlg => simp only [step]; split <;> rfl
  | newCaller t cls =>
    rcases step_newCaller_cases H t cls with ⟨e, h⟩ | ⟨cl, _, _, h⟩ | ⟨H', n, t', cl, hmk, _, _, h⟩
    · rw [h]
    · rw [h]; rfl
    · rw [h, viewCore_callers]; exact viewCore_mkConn hi hmk hc
  | clone k own =>
    simp only [step]
    split
    · rfl
    · split
      · rename_i H' n h; rw [viewCore_callers]; exact viewCore_mkConn hi h hc
      · rfl
  | connOf k => simp only [step]; split <;> rfl
  | cached k pfx =>
    simp only [step]
    split
    · split <;> rfl
    · rfl
  | call k m args =>
    rcases step_call_cases H k m args with ⟨e, h⟩ | ⟨comps, a', h⟩
    · rw [h]
    · rw [h]
      have h1 := viewCore_getConn hi k comps hc
      rcases doCall_heap H k comps a' with h2 | ⟨c', h2⟩
      · rw [h2]; exact h1
      · rw [h2, viewCore_request]; exact h1
  | request c' args =>
    simp only [step]
    have h2 := viewCore_request H c' args c
    split
    · rename_i H' s heq
      have : H' = (request H c' args).1 := by rw [heq]
      subst this; exact h2
    · rename_i H' e heq
      have : H' = (request H c' args).1 := by rw [heq]
      subst this; exact h2

end HttpConn
