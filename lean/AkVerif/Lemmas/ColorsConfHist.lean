import AkVerif.Lemmas.ColorsConf
/-!
Lemmas for C14, second part: nothing but `res` changes in an entry (`Frame`), insertion of new items, the
invariant of a configuration (`Good`), `get_color` against `SpecColor`; palette classes and their caches,
histories of operations, and the bookkeeping of description strings (first registration wins,
permutations of registrations).
-/
namespace ColorsConf
open Ak

/-! ### nothing but `res` ever changes in an entry -/

/-- `m'` has the same ids with the same registered descriptions (string and parsed form) as `m` -/
def Frame (m m' : SMap) : Prop :=
  ∀ id, (lookup m' id).map (fun e => (e.initStr, e.desc)) = (lookup m id).map (fun e => (e.initStr, e.desc))

theorem Frame.refl (m : SMap) : Frame m m := fun _ => rfl
theorem Frame.trans {a b c : SMap} (h1 : Frame a b) (h2 : Frame b c) : Frame a c :=
  fun id => (h2 id).trans (h1 id)

theorem frame_setRes (m : SMap) (x : Id) (r : Res) : Frame m (setRes m x r) := by
  intro id
  induction m with
  | nil => simp [setRes]
  | cons ke m ih =>
    obtain ⟨k, e⟩ := ke
    by_cases hk : k = x
    · by_cases hk' : k = id
      · simp [setRes, lookup, hk]
        subst hk; subst hk'; simp
      · subst hk
        simp [setRes, lookup, hk']
    · by_cases hk' : k = id
      · subst hk'
        simp [setRes, lookup, hk]
      · simp [setRes, lookup, hk, hk', ih]

theorem resolvePath_frame {nc : Bool} : ∀ (rpath : List Id) (m : SMap) (par : Resolved) (m' : SMap),
    resolvePath nc m par rpath = .ok m' → Frame m m' := by
  intro rpath
  induction rpath with
  | nil => intro m par m' h; simp [resolvePath] at h; subst h; exact Frame.refl _
  | cons x rest ih =>
    intro m par m' h
    unfold resolvePath at h
    cases hl : lookup m x with
    | none => simp [hl] at h
    | some e =>
      simp only [hl] at h
      split at h
      · cases h
      · cases h1 : resolve1 nc e.desc (some par) with
        | error err => simp [h1] at h
        | ok r =>
          simp [h1] at h
          exact (frame_setRes m x r).trans (ih _ _ _ h)

theorem passStep_frame {nc : Bool} {fuel : Nat} {s s' : PassSt} {id : Id}
    (h : passStep nc fuel s id = .ok s') : Frame s.m s'.m := by
  unfold passStep at h
  cases hl : lookup s.m id with
  | none => simp [hl] at h
  | some e =>
    simp only [hl] at h
    split at h
    · cases h; exact Frame.refl _
    · cases hw : walk s.m s.cant fuel id [] with
      | error err => simp [hw] at h
      | ok w =>
        cases w with
        | stuck p => simp [hw] at h; subst h; exact Frame.refl _
        | found par p =>
          simp only [hw] at h
          cases hrp : resolvePath nc s.m par p with
          | error err => simp [hrp] at h
          | ok m' => simp [hrp] at h; subst h; exact resolvePath_frame _ _ _ _ hrp

theorem pass_frame {nc : Bool} {fuel : Nat} : ∀ (ids : List Id) (s s' : PassSt),
    pass nc fuel s ids = .ok s' → Frame s.m s'.m := by
  intro ids
  induction ids with
  | nil => intro s s' h; simp [pass] at h; subst h; exact Frame.refl _
  | cons id ids ih =>
    intro s s' h
    unfold pass at h
    cases h1 : passStep nc fuel s id with
    | error err => simp [h1] at h
    | ok s1 => simp [h1] at h; exact (passStep_frame h1).trans (ih _ _ h)

theorem loop_frame {nc : Bool} {wfuel : Nat} {ids : List Id} : ∀ (fuel : Nat) (m : SMap) (cant : List Id) (m' : SMap),
    loop nc wfuel ids fuel m cant = .ok m' → Frame m m' := by
  intro fuel
  induction fuel with
  | zero => intro m cant m' h; simp [loop] at h
  | succ fuel ih =>
    intro m cant m' h
    unfold loop at h
    cases hp : pass nc wfuel ⟨m, cant, false⟩ ids with
    | error err => simp [hp] at h
    | ok s =>
      simp only [hp] at h
      have hf := pass_frame ids _ s hp
      split at h
      · exact Frame.trans hf (ih _ _ _ h)
      · cases h; exact hf

theorem resolveAll_frame {nc : Bool} {m m' : SMap} (h : resolveAll nc m = .ok m') : Frame m m' := by
  unfold resolveAll at h
  simp only at h
  split at h
  · cases h; exact Frame.refl _
  · exact loop_frame _ _ _ _ h

theorem Frame.strOf {m m' : SMap} (h : Frame m m') : strOf m' = strOf m := by
  funext id
  have := h id
  unfold ColorsConf.strOf
  cases h1 : lookup m' id <;> cases h2 : lookup m id <;> simp [h1, h2] at this ⊢
  exact this.1

theorem Frame.descOf {m m' : SMap} (h : Frame m m') : descOf m' = descOf m := by
  funext id
  have := h id
  unfold ColorsConf.descOf
  cases h1 : lookup m' id <;> cases h2 : lookup m id <;> simp [h1, h2] at this ⊢
  exact this.2

/-- every entry holds the parsed form of its own description string -/
def Parsed (m : SMap) : Prop :=
  ∀ id e, lookup m id = some e → parseInitStr e.initStr = .ok e.desc

theorem Frame.parsed {m m' : SMap} (h : Frame m m') (hp : Parsed m) : Parsed m' := by
  intro id e' hl'
  have := h id
  cases h2 : lookup m id with
  | none => simp [hl', h2] at this
  | some e =>
    simp [hl', h2] at this
    rw [this.1, this.2]
    exact hp id e h2

theorem Parsed.descOf {m : SMap} (hp : Parsed m) (id : Id) : descOf m id = (strOf m id).bind parsed := by
  unfold ColorsConf.descOf ColorsConf.strOf
  cases hl : lookup m id with
  | none => simp
  | some e => simp [parsed, hp id e hl]

/-! ### insertion -/

theorem descOf_append_sub {m : SMap} {k : Id} {e : Entry} :
    ∀ id d, descOf m id = some d → descOf (m ++ [(k, e)]) id = some d := by
  intro id d h
  unfold descOf at h ⊢
  rw [lookup_append_new]
  cases hl : lookup m id with
  | none => simp [hl] at h
  | some x => simpa [hl] using h

theorem append_new_inv {nc : Bool} {m : SMap} {k : Id} {e : Entry}
    (hs : Sound nc m) (hr : Roots m) (hp : Parsed m) (hk : lookup m k = none)
    (hparse : parseInitStr e.initStr = .ok e.desc)
    (hres : (e.res = none ∧ e.desc.parent ≠ none) ∨
      (∃ r, e.res = some r ∧ e.desc.parent = none ∧ r.eff = effOf none e.desc ∧ mkFmt nc r.eff = .ok r.fmt)) :
    Sound nc (m ++ [(k, e)]) ∧ Roots (m ++ [(k, e)]) ∧ Parsed (m ++ [(k, e)]) := by
  have hcase : ∀ id e', lookup (m ++ [(k, e)]) id = some e' →
      lookup m id = some e' ∨ (lookup m id = none ∧ k = id ∧ e' = e) := by
    intro id e' h
    rw [lookup_append_new] at h
    cases hl : lookup m id with
    | some x => simp [hl] at h; exact .inl (by rw [h])
    | none =>
      simp [hl] at h
      exact .inr ⟨rfl, h.1, h.2.symm⟩
  refine ⟨?_, ?_, ?_⟩
  · intro id e' r hl hr'
    rcases hcase id e' hl with h | ⟨_, hid, he⟩
    · obtain ⟨h1, h2⟩ := hs id e' r h hr'
      exact ⟨h1.mono descOf_append_sub, h2⟩
    · subst he; subst hid
      rcases hres with ⟨hn, _⟩ | ⟨r', hr'', hpn, heff, hfmt⟩
      · rw [hn] at hr'; cases hr'
      · rw [hr''] at hr'; cases hr'
        refine ⟨?_, hfmt⟩
        rw [heff]
        refine .root ?_ hpn
        simp [descOf, lookup_append_new, hk]
  · intro id e' hl hpn
    rcases hcase id e' hl with h | ⟨_, _, he⟩
    · exact hr id e' h hpn
    · subst he
      rcases hres with ⟨_, hne⟩ | ⟨r', hr'', _⟩
      · exact absurd hpn hne
      · simp [hr'']
  · intro id e' hl
    rcases hcase id e' hl with h | ⟨_, _, he⟩
    · exact hp id e' h
    · subst he; exact hparse

theorem insertItems_spec {nc : Bool} : ∀ (items : List (Id × Str)) (m m' : SMap),
    Sound nc m → Roots m → Parsed m → insertItems nc m items = .ok m' →
    Sound nc m' ∧ Roots m' ∧ Parsed m' ∧ strOf m' = firstStr (strOf m) items := by
  intro items
  induction items with
  | nil =>
    intro m m' hs hr hp h
    simp [insertItems] at h
    subst h
    refine ⟨hs, hr, hp, ?_⟩
    funext id
    simp only [firstStr]
    cases strOf m id <;> simp [dictGet]
  | cons kv rest ih =>
    intro m m' hs hr hp h
    obtain ⟨k, s⟩ := kv
    unfold insertItems at h
    cases hl : lookup m k with
    | some e0 =>
      simp [hl] at h
      obtain ⟨hs', hr', hp', hstr⟩ := ih m m' hs hr hp h
      refine ⟨hs', hr', hp', ?_⟩
      rw [hstr]
      funext id
      simp only [firstStr]
      cases hsm : strOf m id with
      | some x => rfl
      | none =>
        have : k ≠ id := by
          intro hk; subst hk
          simp [strOf, hl] at hsm
        simp [dictGet, this]
    | none =>
      simp only [hl] at h
      cases hparse : parseInitStr s with
      | error err => simp [hparse] at h
      | ok d =>
        have key : ∀ (e : Entry), e.initStr = s → e.desc = d →
            ((e.res = none ∧ e.desc.parent ≠ none) ∨
              (∃ r, e.res = some r ∧ e.desc.parent = none ∧ r.eff = effOf none e.desc ∧ mkFmt nc r.eff = .ok r.fmt)) →
            insertItems nc (m ++ [(k, e)]) rest = .ok m' →
            Sound nc m' ∧ Roots m' ∧ Parsed m' ∧ strOf m' = firstStr (strOf m) ((k, s) :: rest) := by
          intro e hes hed hres h'
          have hpe : parseInitStr e.initStr = .ok e.desc := by rw [hes, hed]; exact hparse
          obtain ⟨hs1, hr1, hp1⟩ := append_new_inv hs hr hp hl hpe hres
          obtain ⟨hs', hr', hp', hstr⟩ := ih _ m' hs1 hr1 hp1 h'
          refine ⟨hs', hr', hp', ?_⟩
          rw [hstr]
          funext id
          simp only [firstStr, strOf, lookup_append_new]
          cases hlm : lookup m id with
          | some x => simp
          | none =>
            by_cases hk : k = id
            · simp [hk, dictGet, hes]
            · simp [hk, dictGet]
        simp only [hparse] at h
        cases hpar : d.parent with
        | some p =>
          simp only [hpar] at h
          exact key ⟨s, d, none⟩ rfl rfl (.inl ⟨rfl, by simp [hpar]⟩) h
        | none =>
          simp only [hpar] at h
          cases h1 : resolve1 nc d none with
          | error err => simp [h1] at h
          | ok r =>
            simp only [h1] at h
            obtain ⟨_, heff, hfmt⟩ := resolve1_none h1
            exact key ⟨s, d, some r⟩ rfl rfl (.inr ⟨r, rfl, hpar, heff, hfmt⟩) h

/-! ### the configuration -/

structure Good (nc : Bool) (m : SMap) : Prop where
  sound : Sound nc m
  roots : Roots m
  parsed : Parsed m
  complete : Complete m

theorem good_nil (nc : Bool) : Good nc [] :=
  ⟨fun _ _ _ h => by simp [lookup] at h, fun _ _ h => by simp [lookup] at h,
   fun _ _ h => by simp [lookup] at h,
   fun id r h => by obtain ⟨d, hd⟩ := h.known; simp [descOf, lookup] at hd⟩

theorem addNewItems_spec {c c' : Conf} {items : List (Id × Str)} (hg : Good c.noColor c.map)
    (h : addNewItems c items = .ok c') :
    Good c'.noColor c'.map ∧ c'.noColor = c.noColor ∧ c'.sources = c.sources ∧
      strOf c'.map = firstStr (strOf c.map) items ∧
      c'.cache = (if items.any (fun kv => (lookup c.map kv.1).isNone) then [] else c.cache) := by
  unfold addNewItems at h
  split at h
  · rename_i hnil
    cases h
    refine ⟨hg, rfl, rfl, ?_, ?_⟩
    · subst hnil
      funext id
      simp only [firstStr]
      cases strOf c.map id <;> simp [dictGet]
    · subst hnil; simp
  · cases h1 : insertItems c.noColor c.map items with
    | error err => simp [h1] at h
    | ok m1 =>
      simp only [h1] at h
      cases h2 : resolveAll c.noColor m1 with
      | error err => simp [h2] at h
      | ok m2 =>
        simp [h2] at h
        subst h
        obtain ⟨hs1, hr1, hp1, hstr1⟩ := insertItems_spec items c.map m1 hg.sound hg.roots hg.parsed h1
        obtain ⟨hs2, hr2, _, hc2⟩ := resolveAll_spec hs1 hr1 h2
        have hf := resolveAll_frame h2
        refine ⟨⟨hs2, hr2, hf.parsed hp1, hc2⟩, rfl, rfl, ?_, rfl⟩
        simp only
        rw [hf.strOf, hstr1]

/-! ### `get_color` -/

theorem SpecColor.det {nc : Bool} {dm : Id → Option Desc} {id : Id} {f1 f2 : Str}
    (h1 : SpecColor nc dm id f1) (h2 : SpecColor nc dm id f2) : f1 = f2 := by
  unfold SpecColor at h1 h2
  simp only at h1 h2
  rcases h1 with ⟨r1, hr1, hf1⟩ | ⟨hn1, he1⟩ <;> rcases h2 with ⟨r2, hr2, hf2⟩ | ⟨hn2, he2⟩
  · rw [hr1.det hr2] at hf1
    rw [hf1] at hf2
    cases hf2; rfl
  · exact absurd ⟨r1, hr1⟩ hn2
  · exact absurd ⟨r2, hr2⟩ hn1
  · rw [he1, he2]

theorem getColor_spec {c : Conf} (hg : Good c.noColor c.map) (id : Id) :
    SpecColor c.noColor (descOf c.map) id (getColor c id) := by
  unfold SpecColor getColor
  simp only
  have hsel : getEntry c id =
      lookup c.map (if (descOf c.map id).isSome then id else Gen.C14.dfltId) := by
    unfold getEntry
    cases hl : lookup c.map id <;> simp [descOf, hl]
  rw [hsel]
  generalize (if (descOf c.map id).isSome then id else Gen.C14.dfltId) = id'
  cases hl : lookup c.map id' with
  | none =>
    refine .inr ⟨?_, rfl⟩
    rintro ⟨r, hr⟩
    obtain ⟨d, hd⟩ := hr.known
    simp [descOf, hl] at hd
  | some e =>
    obtain ⟨s, d, res⟩ := e
    cases res with
    | none =>
      refine .inr ⟨?_, rfl⟩
      rintro ⟨r, hr⟩
      obtain ⟨e2, rr, hl2, hr2⟩ := hg.complete id' r hr
      rw [hl] at hl2; cases hl2
      cases hr2
    | some r =>
      obtain ⟨h1, h2⟩ := hg.sound id' _ r hl rfl
      exact .inl ⟨r.eff, h1, h2⟩

theorem getColor_congr {c c' : Conf} (hg : Good c.noColor c.map) (hg' : Good c'.noColor c'.map)
    (hnc : c'.noColor = c.noColor) (hd : descOf c'.map = descOf c.map) (id : Id) :
    getColor c' id = getColor c id := by
  have h1 := getColor_spec hg id
  have h2 := getColor_spec hg' id
  rw [hnc, hd] at h2
  exact h2.det h1

/-! ### palettes, caches, histories -/

def CacheOK (classes : List ClassDef) (c : Conf) : Prop :=
  ∀ k s, cacheGet c.cache k = some s → ∃ cd, classes[k]? = some cd ∧ s = snapOf c cd.accessors

def NcOK (classes : List ClassDef) (nc : List (Nat × Snap)) : Prop :=
  ∀ k s, cacheGet nc k = some s → ∃ cd, classes[k]? = some cd ∧ s = plainSnap cd.accessors

structure CGood (classes : List ClassDef) (c : Conf) : Prop where
  good : Good c.noColor c.map
  cache : CacheOK classes c

/-- `c'` is a later state of the configuration `c`: what was registered stays registered -/
structure Later (c c' : Conf) : Prop where
  nc : c'.noColor = c.noColor
  strs : ∀ id s, strOf c.map id = some s → strOf c'.map id = some s

theorem Later.refl (c : Conf) : Later c c := ⟨rfl, fun _ _ h => h⟩
theorem Later.trans {a b c : Conf} (h1 : Later a b) (h2 : Later b c) : Later a c :=
  ⟨h2.nc.trans h1.nc, fun id s h => h2.strs id s (h1.strs id s h)⟩

theorem snapOf_congr {c c' : Conf} (h : ∀ id, getColor c' id = getColor c id) (a : List (Str × Id)) :
    snapOf c' a = snapOf c a := by
  unfold snapOf
  apply List.map_congr_left
  intro x _
  obtain ⟨n, synt⟩ := x
  simp [h]

theorem firstStr_known {sm : Id → Option Str} {items : List (Id × Str)}
    (h : ∀ kv ∈ items, (sm kv.1).isSome) : firstStr sm items = sm := by
  funext id
  simp only [firstStr]
  cases hs : sm id with
  | some x => rfl
  | none =>
    induction items with
    | nil => rfl
    | cons kv rest ih =>
      obtain ⟨k, v⟩ := kv
      have hk : k ≠ id := by
        intro hk; subst hk
        have := h (k, v) List.mem_cons_self
        simp [hs] at this
      simp only [dictGet, hk, if_false]
      exact ih (fun kv hkv => h kv (List.mem_cons_of_mem _ hkv))

theorem addNewItems_cgood {classes : List ClassDef} {c c' : Conf} {items : List (Id × Str)}
    (hg : CGood classes c) (h : addNewItems c items = .ok c') :
    CGood classes c' ∧ Later c c' ∧ c'.sources = c.sources ∧
      strOf c'.map = firstStr (strOf c.map) items := by
  obtain ⟨hg', hnc, hsrc, hstr, hcache⟩ := addNewItems_spec hg.good h
  refine ⟨⟨hg', ?_⟩, ⟨hnc, ?_⟩, hsrc, hstr⟩
  · intro k s hk
    rw [hcache] at hk
    split at hk
    · simp [cacheGet] at hk
    · rename_i hany
      obtain ⟨cd, hcd, hs⟩ := hg.cache k s hk
      refine ⟨cd, hcd, ?_⟩
      rw [hs]
      symm
      apply snapOf_congr
      have hknown : ∀ kv ∈ items, (strOf c.map kv.1).isSome := by
        intro kv hkv
        have : ¬ (lookup c.map kv.1).isNone = true := fun hn => hany (List.any_eq_true.mpr ⟨kv, hkv, hn⟩)
        cases hl : lookup c.map kv.1 with
        | none => simp [hl] at this
        | some e => simp [strOf, hl]
      have hsame : strOf c'.map = strOf c.map := by rw [hstr, firstStr_known hknown]
      have hd : descOf c'.map = descOf c.map := by
        funext id
        rw [hg'.parsed.descOf, hg.good.parsed.descOf, hsame]
      exact getColor_congr hg.good hg' hnc hd
  · intro id s hs
    rw [hstr]
    simp [firstStr, hs]

theorem registerComponent_cgood {classes : List ClassDef} {c c' : Conf} {cfg : Cfg} {src : Src}
    (hg : CGood classes c) (h : registerComponent c cfg src = .ok c') :
    CGood classes c' ∧ Later c c' := by
  unfold registerComponent at h
  split at h
  · cases h
  · have hg1 : CGood classes { c with sources := src :: c.sources } := ⟨hg.good, hg.cache⟩
    obtain ⟨h1, h2, _, _⟩ := addNewItems_cgood hg1 h
    exact ⟨h1, ⟨h2.nc, h2.strs⟩⟩

theorem regParents_cgood {classes : List ClassDef} {reg : Conf → Nat → Except Err Conf}
    (hreg : ∀ c k c', CGood classes c → reg c k = .ok c' → CGood classes c' ∧ Later c c') :
    ∀ (ps : List Nat) (c c' : Conf), CGood classes c → regParents reg c ps = .ok c' →
      CGood classes c' ∧ Later c c' := by
  intro ps
  induction ps with
  | nil => intro c c' hg h; simp [regParents] at h; subst h; exact ⟨hg, Later.refl _⟩
  | cons p ps ih =>
    intro c c' hg h
    unfold regParents at h
    cases h1 : reg c p with
    | error err => simp [h1] at h
    | ok c1 =>
      simp [h1] at h
      obtain ⟨hg1, hl1⟩ := hreg c p c1 hg h1
      obtain ⟨hg2, hl2⟩ := ih c1 c' hg1 h
      exact ⟨hg2, hl1.trans hl2⟩

theorem registerClass_cgood {classes : List ClassDef} : ∀ (fuel : Nat) (c : Conf) (k : Nat) (c' : Conf),
    CGood classes c → registerClass classes fuel c k = .ok c' → CGood classes c' ∧ Later c c' := by
  intro fuel
  induction fuel with
  | zero => intro c k c' _ h; simp [registerClass] at h
  | succ fuel ih =>
    intro c k c' hg h
    unfold registerClass at h
    split at h
    · cases h; exact ⟨hg, Later.refl _⟩
    · cases hcd : classes[k]? with
      | none => simp [hcd] at h
      | some cd =>
        simp only [hcd] at h
        cases h1 : regParents (registerClass classes fuel) c cd.parents with
        | error err => simp [h1] at h
        | ok c1 =>
          simp only [h1] at h
          obtain ⟨hg1, hl1⟩ := regParents_cgood (fun c k c' => ih c k c') cd.parents c c1 hg h1
          cases hdf : cd.defaults with
          | none => simp [hdf] at h; subst h; exact ⟨hg1, hl1⟩
          | some cfg =>
            simp only [hdf] at h
            obtain ⟨hg2, hl2⟩ := registerComponent_cgood hg1 h
            exact ⟨hg2, hl1.trans hl2⟩

theorem cacheGet_cacheSet (cache : List (Nat × Snap)) (k k' : Nat) (s : Snap) :
    cacheGet (cacheSet cache k s) k' = if k = k' then some s else cacheGet cache k' := by
  induction cache with
  | nil => simp [cacheSet, cacheGet]
  | cons ke cache ih =>
    obtain ⟨k0, s0⟩ := ke
    by_cases h0 : k0 = k
    · subst h0
      by_cases h1 : k0 = k'
      · simp [cacheSet, cacheGet, h1]
      · simp [cacheSet, cacheGet, h1]
    · by_cases h1 : k0 = k'
      · subst h1
        simp [cacheSet, cacheGet, h0]
        intro hk; exact absurd hk.symm h0
      · simp [cacheSet, cacheGet, h0, h1, ih]

structure WGood (classes : List ClassDef) (w : World) : Prop where
  conf : CGood classes w.conf
  nc : NcOK classes w.ncCache

/-- what `getPalette` returns, and what it does to the state -/
theorem getPalette_spec {classes : List ClassDef} {w w' : World} {k : Nat} {nc : Bool} {s : Snap}
    (hg : WGood classes w) (h : getPalette classes w k nc = .ok (w', s)) :
    WGood classes w' ∧ Later w.conf w'.conf ∧
      ∃ cd, classes[k]? = some cd ∧
        s = if nc then plainSnap cd.accessors else snapOf w'.conf cd.accessors := by
  unfold getPalette at h
  cases hcd : classes[k]? with
  | none => simp [hcd] at h
  | some cd =>
    simp only [hcd] at h
    cases nc with
    | true =>
      simp only [if_true] at h
      cases h1 : registerClass classes (gFuel classes) w.conf k with
      | error err => simp [h1] at h
      | ok c1 =>
        simp only [h1] at h
        obtain ⟨hg1, hl1⟩ := registerClass_cgood _ _ _ _ hg.conf h1
        cases hc : cacheGet w.ncCache k with
        | some s0 =>
          simp [hc] at h
          obtain ⟨hw, hs⟩ := h
          subst hw; subst hs
          obtain ⟨cd', hcd', hs0⟩ := hg.nc k s0 hc
          rw [hcd] at hcd'; cases hcd'
          exact ⟨⟨hg1, hg.nc⟩, hl1, cd, rfl, by simp [hs0]⟩
        | none =>
          simp [hc] at h
          obtain ⟨hw, hs⟩ := h
          subst hw; subst hs
          refine ⟨⟨hg1, ?_⟩, hl1, cd, rfl, by simp⟩
          intro k' s' hk'
          rw [cacheGet_cacheSet] at hk'
          split at hk'
          · rename_i hkk; subst hkk; cases hk'; exact ⟨cd, hcd, rfl⟩
          · exact hg.nc k' s' hk'
    | false =>
      simp only [Bool.false_eq_true, if_false] at h
      cases hc : cacheGet w.conf.cache k with
      | some s0 =>
        simp [hc] at h
        obtain ⟨hw, hs⟩ := h
        subst hw; subst hs
        obtain ⟨cd', hcd', hs0⟩ := hg.conf.cache k s0 hc
        rw [hcd] at hcd'; cases hcd'
        exact ⟨hg, Later.refl _, cd, rfl, by simp [hs0]⟩
      | none =>
        simp only [hc] at h
        cases h1 : registerClass classes (gFuel classes) w.conf k with
        | error err => simp [h1] at h
        | ok c1 =>
          simp [h1] at h
          obtain ⟨hw, hs⟩ := h
          subst hw; subst hs
          obtain ⟨hg1, hl1⟩ := registerClass_cgood _ _ _ _ hg.conf h1
          refine ⟨⟨⟨hg1.good, ?_⟩, hg.nc⟩, ⟨hl1.nc, hl1.strs⟩, cd, rfl, by simp; rfl⟩
          intro k' s' hk'
          simp only at hk'
          rw [cacheGet_cacheSet] at hk'
          split at hk'
          · rename_i hkk; subst hkk; cases hk'; exact ⟨cd, hcd, rfl⟩
          · exact hg1.cache k' s' hk'

theorem stepOp_good {classes : List ClassDef} {w w' : World} {op : Op} {o : Option Snap}
    (hg : WGood classes w) (h : stepOp classes w op = .ok (w', o)) :
    WGood classes w' ∧ Later w.conf w'.conf := by
  cases op with
  | add items =>
    simp only [stepOp] at h
    cases h1 : addNewItems w.conf items with
    | error err => simp [h1] at h
    | ok c =>
      simp [h1] at h
      obtain ⟨hw, _⟩ := h; subst hw
      obtain ⟨hg1, hl1, _, _⟩ := addNewItems_cgood hg.conf h1
      exact ⟨⟨hg1, hg.nc⟩, hl1⟩
  | reg name cfg =>
    simp only [stepOp] at h
    cases h1 : registerComponent w.conf cfg (.name name) with
    | error err => simp [h1] at h
    | ok c =>
      simp [h1] at h
      obtain ⟨hw, _⟩ := h; subst hw
      obtain ⟨hg1, hl1⟩ := registerComponent_cgood hg.conf h1
      exact ⟨⟨hg1, hg.nc⟩, hl1⟩
  | pal k nc =>
    simp only [stepOp] at h
    cases h1 : getPalette classes w k nc with
    | error err => simp [h1] at h
    | ok ws =>
      obtain ⟨w1, s1⟩ := ws
      simp [h1] at h
      obtain ⟨hw, _⟩ := h; subst hw
      obtain ⟨hg1, hl1, _⟩ := getPalette_spec hg h1
      exact ⟨hg1, hl1⟩
  | get id =>
    simp [stepOp] at h
    obtain ⟨hw, _⟩ := h; subst hw
    exact ⟨hg, Later.refl _⟩

theorem runOps_good {classes : List ClassDef} : ∀ (ops : List Op) (w w' : World),
    WGood classes w → runOps classes w ops = .ok w' → WGood classes w' ∧ Later w.conf w'.conf := by
  intro ops
  induction ops with
  | nil => intro w w' hg h; simp [runOps] at h; subst h; exact ⟨hg, Later.refl _⟩
  | cons op ops ih =>
    intro w w' hg h
    unfold runOps at h
    cases h1 : stepOp classes w op with
    | error err => simp [h1] at h
    | ok wo =>
      obtain ⟨w1, o⟩ := wo
      simp [h1] at h
      obtain ⟨hg1, hl1⟩ := stepOp_good hg h1
      obtain ⟨hg2, hl2⟩ := ih w1 w' hg1 h
      exact ⟨hg2, hl1.trans hl2⟩

theorem cgood_empty (classes : List ClassDef) (nc : Bool) : CGood classes ⟨nc, [], [], []⟩ :=
  ⟨good_nil nc, fun k s h => by simp [cacheGet] at h⟩

theorem newConf_good {classes : List ClassDef} {nc : Bool} {cfg : Cfg} {c : Conf}
    (h : newConf nc cfg = .ok c) :
    CGood classes c ∧ c.noColor = nc ∧
      strOf c.map = firstStr (firstStr (fun _ => none) (flatten cfg)) (flatten Gen.C14.builtin) := by
  unfold newConf at h
  cases h1 : addNewItems ⟨nc, [], [], []⟩ (flatten cfg) with
  | error err => simp [h1] at h
  | ok c1 =>
    simp only [h1] at h
    obtain ⟨hg1, hl1, _, hs1⟩ := addNewItems_cgood (cgood_empty classes nc) h1
    obtain ⟨hg2, hl2, _, hs2⟩ := addNewItems_cgood hg1 h
    refine ⟨hg2, hl2.nc.trans hl1.nc, ?_⟩
    rw [hs2, hs1]
    rfl

theorem run_good {classes : List ClassDef} {nc : Bool} {cfg : Cfg} {ops : List Op} {w : World}
    (h : run classes nc cfg ops = .ok w) : WGood classes w ∧ w.conf.noColor = nc := by
  unfold run at h
  cases h1 : newConf nc cfg with
  | error err => simp [h1] at h
  | ok c =>
    simp only [h1] at h
    obtain ⟨hg, hnc, _⟩ := newConf_good (classes := classes) h1
    obtain ⟨hg', hl⟩ := runOps_good ops ⟨c, []⟩ w ⟨hg, fun k s hk => by simp [cacheGet] at hk⟩ h
    exact ⟨hg', hl.nc.trans hnc⟩

/-! ### first registration wins, permutations -/

theorem dictGet_append {β : Type} (a b : List (Str × β)) (k : Str) :
    dictGet (a ++ b) k = match dictGet a k with
      | some v => some v
      | none => dictGet b k := by
  induction a with
  | nil => simp [dictGet]
  | cons kv a ih =>
    obtain ⟨k0, v0⟩ := kv
    by_cases h : k0 = k
    · simp [dictGet, h]
    · simp [dictGet, h, ih]

theorem firstStr_append (sm : Id → Option Str) (a b : List (Id × Str)) :
    firstStr (firstStr sm a) b = firstStr sm (a ++ b) := by
  funext id
  simp only [firstStr]
  cases hs : sm id with
  | some x => rfl
  | none =>
    simp only [dictGet_append]
    cases dictGet a id <;> rfl

theorem firstStr_empty (items : List (Id × Str)) : firstStr (fun _ => none) items = dictGet items := by
  funext id; rfl

theorem dictGet_none_of_not_mem {β : Type} {l : List (Str × β)} {k : Str} (h : k ∉ l.map (·.1)) :
    dictGet l k = none := by
  induction l with
  | nil => rfl
  | cons kv l ih =>
    obtain ⟨k0, v0⟩ := kv
    simp at h
    have h0 : k0 ≠ k := fun h' => h.1 h'.symm
    simp only [dictGet, h0, if_false]
    apply ih
    simp
    exact h.2

theorem dictGet_perm {β : Type} {l1 l2 : List (Str × β)} (hp : l1.Perm l2) (hnd : (l1.map (·.1)).Nodup)
    (k : Str) : dictGet l1 k = dictGet l2 k := by
  induction hp with
  | nil => rfl
  | cons x _ ih =>
    obtain ⟨k0, v0⟩ := x
    simp at hnd
    by_cases h : k0 = k
    · simp [dictGet, h]
    · simp only [dictGet, h, if_false]
      apply ih
      simpa using hnd.2
  | swap x y l =>
    obtain ⟨kx, vx⟩ := x
    obtain ⟨ky, vy⟩ := y
    simp at hnd
    have hne : ky ≠ kx := hnd.1.1
    by_cases hx : kx = k
    · subst hx
      simp [dictGet, hne]
    · by_cases hy : ky = k
      · simp [dictGet, hx, hy]
      · simp [dictGet, hx, hy]
  | trans h1 _ ih1 ih2 =>
    rw [ih1 hnd]
    apply ih2
    exact ((h1.map (·.1)).nodup_iff).mp hnd

/-- the items a plain operation offers to the configuration -/
def opItems : Op → List (Id × Str)
  | .add items => items
  | .reg _ cfg => flatten cfg
  | .pal _ _ => []
  | .get _ => []

/-- operations whose registrations do not depend on the state (everything but palette creation) -/
def Op.plain : Op → Bool
  | .pal _ _ => false
  | _ => true

theorem runOps_plain_strs {classes : List ClassDef} : ∀ (ops : List Op) (w w' : World),
    WGood classes w → (∀ op ∈ ops, op.plain = true) → runOps classes w ops = .ok w' →
    strOf w'.conf.map = firstStr (strOf w.conf.map) (ops.flatMap opItems) := by
  intro ops
  induction ops with
  | nil =>
    intro w w' _ _ h
    simp [runOps] at h
    subst h
    funext id
    simp only [firstStr, List.flatMap_nil]
    cases strOf w.conf.map id <;> rfl
  | cons op ops ih =>
    intro w w' hg hpl h
    unfold runOps at h
    cases h1 : stepOp classes w op with
    | error err => simp [h1] at h
    | ok wo =>
      obtain ⟨w1, o⟩ := wo
      simp [h1] at h
      obtain ⟨hg1, _⟩ := stepOp_good hg h1
      have hrest := ih w1 w' hg1 (fun op' h' => hpl op' (List.mem_cons_of_mem _ h')) h
      have hstep : strOf w1.conf.map = firstStr (strOf w.conf.map) (opItems op) := by
        cases op with
        | add items =>
          simp only [stepOp] at h1
          cases h2 : addNewItems w.conf items with
          | error err => simp [h2] at h1
          | ok c =>
            simp [h2] at h1
            obtain ⟨hw, _⟩ := h1; subst hw
            exact (addNewItems_cgood hg.conf h2).2.2.2
        | reg name cfg =>
          simp only [stepOp] at h1
          cases h2 : registerComponent w.conf cfg (.name name) with
          | error err => simp [h2] at h1
          | ok c =>
            simp [h2] at h1
            obtain ⟨hw, _⟩ := h1; subst hw
            unfold registerComponent at h2
            split at h2
            · cases h2
            · have hg1' : CGood classes { w.conf with sources := Src.name name :: w.conf.sources } :=
                ⟨hg.conf.good, hg.conf.cache⟩
              exact (addNewItems_cgood hg1' h2).2.2.2
        | pal k nc =>
          have := hpl (.pal k nc) List.mem_cons_self
          simp [Op.plain] at this
        | get id =>
          simp [stepOp] at h1
          obtain ⟨hw, _⟩ := h1; subst hw
          funext id'
          simp only [firstStr, opItems]
          cases strOf w.conf.map id' <;> rfl
      rw [hrest, hstep, firstStr_append]
      rfl

/-- the description strings a plain history ends with: first registration wins over the explicit
configuration, the built-ins and the later registrations, in this order -/
theorem run_plain_strs {classes : List ClassDef} {nc : Bool} {cfg : Cfg} {ops : List Op} {w : World}
    (hpl : ∀ op ∈ ops, op.plain = true) (h : run classes nc cfg ops = .ok w) :
    strOf w.conf.map = dictGet (flatten cfg ++ (flatten Gen.C14.builtin ++ ops.flatMap opItems)) := by
  unfold run at h
  cases h1 : newConf nc cfg with
  | error err => simp [h1] at h
  | ok c =>
    simp only [h1] at h
    obtain ⟨hg, _, hs⟩ := newConf_good (classes := classes) h1
    have := runOps_plain_strs ops ⟨c, []⟩ w ⟨hg, fun k s hk => by simp [cacheGet] at hk⟩ hpl h
    rw [this]
    simp only
    rw [hs, firstStr_append, firstStr_append, firstStr_empty]

end ColorsConf
