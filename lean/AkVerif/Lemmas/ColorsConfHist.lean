import AkVerif.Lemmas.ColorsConf
/-!
Lemmas for C14, second part: palette classes and their caches, histories of operations, and the
bookkeeping of description strings (first registration wins, permutations of registrations).
-/
namespace ColorsConf
open Ak

/-! ### palettes, caches, histories -/

def CacheOK (classes : List ClassDef) (c : Conf) : Prop :=
  ∀ k s, cacheGet c.cache k = some s → ∃ cd, classes[k]? = some cd ∧ s = snapOf c cd.accessors

def NcOK (classes : List ClassDef) (nc : List (Nat × Snap)) : Prop :=
  ∀ k s, cacheGet nc k = some s → ∃ cd, classes[k]? = some cd ∧ s = plainSnap cd.accessors

structure CGood (classes : List ClassDef) (c : Conf) : Prop where
  good : Good c.noColor c.map
  cache : CacheOK classes c

/-- `c'` is a later state of the configuration `c`: what was registered stays registered -/
structure Later (c c' : Conf) : Prop where
  nc : c'.noColor = c.noColor
  strs : ∀ id s, strOf c.map id = some s → strOf c'.map id = some s

theorem Later.refl (c : Conf) : Later c c := ⟨rfl, fun _ _ h => h⟩
theorem Later.trans {a b c : Conf} (h1 : Later a b) (h2 : Later b c) : Later a c :=
  ⟨h2.nc.trans h1.nc, fun id s h => h2.strs id s (h1.strs id s h)⟩

theorem snapOf_congr {c c' : Conf} (h : ∀ id, getColor c' id = getColor c id) (a : List (Str × Id)) :
    snapOf c' a = snapOf c a := by
  unfold snapOf
  apply List.map_congr_left
  intro x _
  obtain ⟨n, synt⟩ := x
  simp [h]

theorem firstStr_known {sm : Id → Option Str} {items : List (Id × Str)}
    (h : ∀ kv ∈ items, (sm kv.1).isSome) : firstStr sm items = sm := by
  funext id
  simp only [firstStr]
  cases hs : sm id with
  | some x => rfl
  | none =>
    induction items with
    | nil => rfl
    | cons kv rest ih =>
      obtain ⟨k, v⟩ := kv
      have hk : k ≠ id := by
        intro hk; subst hk
        have := h (k, v) List.mem_cons_self
        simp [hs] at this
      simp only [dictGet, hk, if_false]
      exact ih (fun kv hkv => h kv (List.mem_cons_of_mem _ hkv))

theorem addNewItems_cgood {classes : List ClassDef} {c c' : Conf} {items : List (Id × Str)}
    (hg : CGood classes c) (h : addNewItems c items = .ok c') :
    CGood classes c' ∧ Later c c' ∧ c'.sources = c.sources ∧
      strOf c'.map = firstStr (strOf c.map) items := by
  obtain ⟨hg', hnc, hsrc, hstr, hcache⟩ := addNewItems_spec hg.good h
  refine ⟨⟨hg', ?_⟩, ⟨hnc, ?_⟩, hsrc, hstr⟩
  · intro k s hk
    rw [hcache] at hk
    split at hk
    · simp [cacheGet] at hk
    · rename_i hany
      obtain ⟨cd, hcd, hs⟩ := hg.cache k s hk
      refine ⟨cd, hcd, ?_⟩
      rw [hs]
      symm
      apply snapOf_congr
      have hknown : ∀ kv ∈ items, (strOf c.map kv.1).isSome := by
        intro kv hkv
        have : ¬ (lookup c.map kv.1).isNone = true := fun hn => hany (List.any_eq_true.mpr ⟨kv, hkv, hn⟩)
        cases hl : lookup c.map kv.1 with
        | none => simp [hl] at this
        | some e => simp [strOf, hl]
      have hsame : strOf c'.map = strOf c.map := by rw [hstr, firstStr_known hknown]
      have hd : descOf c'.map = descOf c.map := by
        funext id
        rw [hg'.parsed.descOf, hg.good.parsed.descOf, hsame]
      exact getColor_congr hg.good hg' hnc hd
  · intro id s hs
    rw [hstr]
    simp [firstStr, hs]

theorem registerComponent_cgood {classes : List ClassDef} {c c' : Conf} {cfg : Cfg} {src : Src}
    (hg : CGood classes c) (h : registerComponent c cfg src = .ok c') :
    CGood classes c' ∧ Later c c' := by
  unfold registerComponent at h
  split at h
  · cases h
  · have hg1 : CGood classes { c with sources := src :: c.sources } := ⟨hg.good, hg.cache⟩
    obtain ⟨h1, h2, _, _⟩ := addNewItems_cgood hg1 h
    exact ⟨h1, ⟨h2.nc, h2.strs⟩⟩

theorem regParents_cgood {classes : List ClassDef} {reg : Conf → Nat → Except Err Conf}
    (hreg : ∀ c k c', CGood classes c → reg c k = .ok c' → CGood classes c' ∧ Later c c') :
    ∀ (ps : List Nat) (c c' : Conf), CGood classes c → regParents reg c ps = .ok c' →
      CGood classes c' ∧ Later c c' := by
  intro ps
  induction ps with
  | nil => intro c c' hg h; simp [regParents] at h; subst h; exact ⟨hg, Later.refl _⟩
  | cons p ps ih =>
    intro c c' hg h
    unfold regParents at h
    cases h1 : reg c p with
    | error err => simp [h1] at h
    | ok c1 =>
      simp [h1] at h
      obtain ⟨hg1, hl1⟩ := hreg c p c1 hg h1
      obtain ⟨hg2, hl2⟩ := ih c1 c' hg1 h
      exact ⟨hg2, hl1.trans hl2⟩

theorem registerClass_cgood {classes : List ClassDef} : ∀ (fuel : Nat) (c : Conf) (k : Nat) (c' : Conf),
    CGood classes c → registerClass classes fuel c k = .ok c' → CGood classes c' ∧ Later c c' := by
  intro fuel
  induction fuel with
  | zero => intro c k c' _ h; simp [registerClass] at h
  | succ fuel ih =>
    intro c k c' hg h
    unfold registerClass at h
    split at h
    · cases h; exact ⟨hg, Later.refl _⟩
    · cases hcd : classes[k]? with
      | none => simp [hcd] at h
      | some cd =>
        simp only [hcd] at h
        cases h1 : regParents (registerClass classes fuel) c cd.parents with
        | error err => simp [h1] at h
        | ok c1 =>
          simp only [h1] at h
          obtain ⟨hg1, hl1⟩ := regParents_cgood (fun c k c' => ih c k c') cd.parents c c1 hg h1
          cases hdf : cd.defaults with
          | none => simp [hdf] at h; subst h; exact ⟨hg1, hl1⟩
          | some cfg =>
            simp only [hdf] at h
            obtain ⟨hg2, hl2⟩ := registerComponent_cgood hg1 h
            exact ⟨hg2, hl1.trans hl2⟩

theorem cacheGet_cacheSet (cache : List (Nat × Snap)) (k k' : Nat) (s : Snap) :
    cacheGet (cacheSet cache k s) k' = if k = k' then some s else cacheGet cache k' := by
  induction cache with
  | nil => simp [cacheSet, cacheGet]
  | cons ke cache ih =>
    obtain ⟨k0, s0⟩ := ke
    by_cases h0 : k0 = k
    · subst h0
      by_cases h1 : k0 = k'
      · simp [cacheSet, cacheGet, h1]
      · simp [cacheSet, cacheGet, h1]
    · by_cases h1 : k0 = k'
      · subst h1
        simp [cacheSet, cacheGet, h0]
        intro hk; exact absurd hk.symm h0
      · simp [cacheSet, cacheGet, h0, h1, ih]

structure WGood (classes : List ClassDef) (w : World) : Prop where
  conf : CGood classes w.conf
  nc : NcOK classes w.ncCache

/-- what `getPalette` returns, and what it does to the state -/
theorem getPalette_spec {classes : List ClassDef} {w w' : World} {k : Nat} {nc : Bool} {s : Snap}
    (hg : WGood classes w) (h : getPalette classes w k nc = .ok (w', s)) :
    WGood classes w' ∧ Later w.conf w'.conf ∧
      ∃ cd, classes[k]? = some cd ∧
        s = if nc then plainSnap cd.accessors else snapOf w'.conf cd.accessors := by
  unfold getPalette at h
  cases hcd : classes[k]? with
  | none => simp [hcd] at h
  | some cd =>
    simp only [hcd] at h
    cases nc with
    | true =>
      simp only [if_true] at h
      cases h1 : registerClass classes (classes.length + 1) w.conf k with
      | error err => simp [h1] at h
      | ok c1 =>
        simp only [h1] at h
        obtain ⟨hg1, hl1⟩ := registerClass_cgood _ _ _ _ hg.conf h1
        cases hc : cacheGet w.ncCache k with
        | some s0 =>
          simp [hc] at h
          obtain ⟨hw, hs⟩ := h
          subst hw; subst hs
          obtain ⟨cd', hcd', hs0⟩ := hg.nc k s0 hc
          rw [hcd] at hcd'; cases hcd'
          exact ⟨⟨hg1, hg.nc⟩, hl1, cd, rfl, by simp [hs0]⟩
        | none =>
          simp [hc] at h
          obtain ⟨hw, hs⟩ := h
          subst hw; subst hs
          refine ⟨⟨hg1, ?_⟩, hl1, cd, rfl, by simp⟩
          intro k' s' hk'
          rw [cacheGet_cacheSet] at hk'
          split at hk'
          · rename_i hkk; subst hkk; cases hk'; exact ⟨cd, hcd, rfl⟩
          · exact hg.nc k' s' hk'
    | false =>
      simp only [Bool.false_eq_true, if_false] at h
      cases hc : cacheGet w.conf.cache k with
      | some s0 =>
        simp [hc] at h
        obtain ⟨hw, hs⟩ := h
        subst hw; subst hs
        obtain ⟨cd', hcd', hs0⟩ := hg.conf.cache k s0 hc
        rw [hcd] at hcd'; cases hcd'
        exact ⟨hg, Later.refl _, cd, rfl, by simp [hs0]⟩
      | none =>
        simp only [hc] at h
        cases h1 : registerClass classes (classes.length + 1) w.conf k with
        | error err => simp [h1] at h
        | ok c1 =>
          simp [h1] at h
          obtain ⟨hw, hs⟩ := h
          subst hw; subst hs
          obtain ⟨hg1, hl1⟩ := registerClass_cgood _ _ _ _ hg.conf h1
          refine ⟨⟨⟨hg1.good, ?_⟩, hg.nc⟩, ⟨hl1.nc, hl1.strs⟩, cd, rfl, by simp; rfl⟩
          intro k' s' hk'
          simp only at hk'
          rw [cacheGet_cacheSet] at hk'
          split at hk'
          · rename_i hkk; subst hkk; cases hk'; exact ⟨cd, hcd, rfl⟩
          · exact hg1.cache k' s' hk'

theorem stepOp_good {classes : List ClassDef} {w w' : World} {op : Op} {o : Option Snap}
    (hg : WGood classes w) (h : stepOp classes w op = .ok (w', o)) :
    WGood classes w' ∧ Later w.conf w'.conf := by
  cases op with
  | add items =>
    simp only [stepOp] at h
    cases h1 : addNewItems w.conf items with
    | error err => simp [h1] at h
    | ok c =>
      simp [h1] at h
      obtain ⟨hw, _⟩ := h; subst hw
      obtain ⟨hg1, hl1, _, _⟩ := addNewItems_cgood hg.conf h1
      exact ⟨⟨hg1, hg.nc⟩, hl1⟩
  | reg name cfg =>
    simp only [stepOp] at h
    cases h1 : registerComponent w.conf cfg (.name name) with
    | error err => simp [h1] at h
    | ok c =>
      simp [h1] at h
      obtain ⟨hw, _⟩ := h; subst hw
      obtain ⟨hg1, hl1⟩ := registerComponent_cgood hg.conf h1
      exact ⟨⟨hg1, hg.nc⟩, hl1⟩
  | pal k nc =>
    simp only [stepOp] at h
    cases h1 : getPalette classes w k nc with
    | error err => simp [h1] at h
    | ok ws =>
      obtain ⟨w1, s1⟩ := ws
      simp [h1] at h
      obtain ⟨hw, _⟩ := h; subst hw
      obtain ⟨hg1, hl1, _⟩ := getPalette_spec hg h1
      exact ⟨hg1, hl1⟩
  | get id =>
    simp [stepOp] at h
    obtain ⟨hw, _⟩ := h; subst hw
    exact ⟨hg, Later.refl _⟩

theorem runOps_good {classes : List ClassDef} : ∀ (ops : List Op) (w w' : World),
    WGood classes w → runOps classes w ops = .ok w' → WGood classes w' ∧ Later w.conf w'.conf := by
  intro ops
  induction ops with
  | nil => intro w w' hg h; simp [runOps] at h; subst h; exact ⟨hg, Later.refl _⟩
  | cons op ops ih =>
    intro w w' hg h
    unfold runOps at h
    cases h1 : stepOp classes w op with
    | error err => simp [h1] at h
    | ok wo =>
      obtain ⟨w1, o⟩ := wo
      simp [h1] at h
      obtain ⟨hg1, hl1⟩ := stepOp_good hg h1
      obtain ⟨hg2, hl2⟩ := ih w1 w' hg1 h
      exact ⟨hg2, hl1.trans hl2⟩

theorem cgood_empty (classes : List ClassDef) (nc : Bool) : CGood classes ⟨nc, [], [], []⟩ :=
  ⟨good_nil nc, fun k s h => by simp [cacheGet] at h⟩

theorem newConf_good {classes : List ClassDef} {nc : Bool} {cfg : Cfg} {c : Conf}
    (h : newConf nc cfg = .ok c) :
    CGood classes c ∧ c.noColor = nc ∧
      strOf c.map = firstStr (firstStr (fun _ => none) (flatten cfg)) (flatten Gen.C14.builtin) := by
  unfold newConf at h
  cases h1 : addNewItems ⟨nc, [], [], []⟩ (flatten cfg) with
  | error err => simp [h1] at h
  | ok c1 =>
    simp only [h1] at h
    obtain ⟨hg1, hl1, _, hs1⟩ := addNewItems_cgood (cgood_empty classes nc) h1
    obtain ⟨hg2, hl2, _, hs2⟩ := addNewItems_cgood hg1 h
    refine ⟨hg2, hl2.nc.trans hl1.nc, ?_⟩
    rw [hs2, hs1]
    rfl

theorem run_good {classes : List ClassDef} {nc : Bool} {cfg : Cfg} {ops : List Op} {w : World}
    (h : run classes nc cfg ops = .ok w) : WGood classes w ∧ w.conf.noColor = nc := by
  unfold run at h
  cases h1 : newConf nc cfg with
  | error err => simp [h1] at h
  | ok c =>
    simp only [h1] at h
    obtain ⟨hg, hnc, _⟩ := newConf_good (classes := classes) h1
    obtain ⟨hg', hl⟩ := runOps_good ops ⟨c, []⟩ w ⟨hg, fun k s hk => by simp [cacheGet] at hk⟩ h
    exact ⟨hg', hl.nc.trans hnc⟩

/-! ### first registration wins, permutations -/

theorem dictGet_append {β : Type} (a b : List (Str × β)) (k : Str) :
    dictGet (a ++ b) k = match dictGet a k with
      | some v => some v
      | none => dictGet b k := by
  induction a with
  | nil => simp [dictGet]
  | cons kv a ih =>
    obtain ⟨k0, v0⟩ := kv
    by_cases h : k0 = k
    · simp [dictGet, h]
    · simp [dictGet, h, ih]

theorem firstStr_append (sm : Id → Option Str) (a b : List (Id × Str)) :
    firstStr (firstStr sm a) b = firstStr sm (a ++ b) := by
  funext id
  simp only [firstStr]
  cases hs : sm id with
  | some x => rfl
  | none =>
    simp only [dictGet_append]
    cases dictGet a id <;> rfl

theorem firstStr_empty (items : List (Id × Str)) : firstStr (fun _ => none) items = dictGet items := by
  funext id; rfl

theorem dictGet_none_of_not_mem {β : Type} {l : List (Str × β)} {k : Str} (h : k ∉ l.map (·.1)) :
    dictGet l k = none := by
  induction l with
  | nil => rfl
  | cons kv l ih =>
    obtain ⟨k0, v0⟩ := kv
    simp at h
    have h0 : k0 ≠ k := fun h' => h.1 h'.symm
    simp only [dictGet, h0, if_false]
    apply ih
    simp
    exact h.2

theorem dictGet_perm {β : Type} {l1 l2 : List (Str × β)} (hp : l1.Perm l2) (hnd : (l1.map (·.1)).Nodup)
    (k : Str) : dictGet l1 k = dictGet l2 k := by
  induction hp with
  | nil => rfl
  | cons x _ ih =>
    obtain ⟨k0, v0⟩ := x
    simp at hnd
    by_cases h : k0 = k
    · simp [dictGet, h]
    · simp only [dictGet, h, if_false]
      apply ih
      simpa using hnd.2
  | swap x y l =>
    obtain ⟨kx, vx⟩ := x
    obtain ⟨ky, vy⟩ := y
    simp at hnd
    have hne : ky ≠ kx := hnd.1.1
    by_cases hx : kx = k
    · subst hx
      simp [dictGet, hne]
    · by_cases hy : ky = k
      · simp [dictGet, hx, hy]
      · simp [dictGet, hx, hy]
  | trans h1 _ ih1 ih2 =>
    rw [ih1 hnd]
    apply ih2
    exact ((h1.map (·.1)).nodup_iff).mp hnd

/-- the items a plain operation offers to the configuration -/
def opItems : Op → List (Id × Str)
  | .add items => items
  | .reg _ cfg => flatten cfg
  | .pal _ _ => []
  | .get _ => []

/-- operations whose registrations do not depend on the state (everything but palette creation) -/
def Op.plain : Op → Bool
  | .pal _ _ => false
  | _ => true

theorem runOps_plain_strs {classes : List ClassDef} : ∀ (ops : List Op) (w w' : World),
    WGood classes w → (∀ op ∈ ops, op.plain = true) → runOps classes w ops = .ok w' →
    strOf w'.conf.map = firstStr (strOf w.conf.map) (ops.flatMap opItems) := by
  intro ops
  induction ops with
  | nil =>
    intro w w' _ _ h
    simp [runOps] at h
    subst h
    funext id
    simp only [firstStr, List.flatMap_nil]
    cases strOf w.conf.map id <;> rfl
  | cons op ops ih =>
    intro w w' hg hpl h
    unfold runOps at h
    cases h1 : stepOp classes w op with
    | error err => simp [h1] at h
    | ok wo =>
      obtain ⟨w1, o⟩ := wo
      simp [h1] at h
      obtain ⟨hg1, _⟩ := stepOp_good hg h1
      have hrest := ih w1 w' hg1 (fun op' h' => hpl op' (List.mem_cons_of_mem _ h')) h
      have hstep : strOf w1.conf.map = firstStr (strOf w.conf.map) (opItems op) := by
        cases op with
        | add items =>
          simp only [stepOp] at h1
          cases h2 : addNewItems w.conf items with
          | error err => simp [h2] at h1
          | ok c =>
            simp [h2] at h1
            obtain ⟨hw, _⟩ := h1; subst hw
            exact (addNewItems_cgood hg.conf h2).2.2.2
        | reg name cfg =>
          simp only [stepOp] at h1
          cases h2 : registerComponent w.conf cfg (.name name) with
          | error err => simp [h2] at h1
          | ok c =>
            simp [h2] at h1
            obtain ⟨hw, _⟩ := h1; subst hw
            unfold registerComponent at h2
            split at h2
            · cases h2
            · have hg1' : CGood classes { w.conf with sources := Src.name name :: w.conf.sources } :=
                ⟨hg.conf.good, hg.conf.cache⟩
              exact (addNewItems_cgood hg1' h2).2.2.2
        | pal k nc =>
          have := hpl (.pal k nc) List.mem_cons_self
          simp [Op.plain] at this
        | get id =>
          simp [stepOp] at h1
          obtain ⟨hw, _⟩ := h1; subst hw
          funext id'
          simp only [firstStr, opItems]
          cases strOf w.conf.map id' <;> rfl
      rw [hrest, hstep, firstStr_append]
      rfl

/-- the description strings a plain history ends with: first registration wins over the explicit
configuration, the built-ins and the later registrations, in this order -/
theorem run_plain_strs {classes : List ClassDef} {nc : Bool} {cfg : Cfg} {ops : List Op} {w : World}
    (hpl : ∀ op ∈ ops, op.plain = true) (h : run classes nc cfg ops = .ok w) :
    strOf w.conf.map = dictGet (flatten cfg ++ (flatten Gen.C14.builtin ++ ops.flatMap opItems)) := by
  unfold run at h
  cases h1 : newConf nc cfg with
  | error err => simp [h1] at h
  | ok c =>
    simp only [h1] at h
    obtain ⟨hg, _, hs⟩ := newConf_good (classes := classes) h1
    have := runOps_plain_strs ops ⟨c, []⟩ w ⟨hg, fun k s hk => by simp [cacheGet] at hk⟩ hpl h
    rw [this]
    simp only
    rw [hs, firstStr_append, firstStr_append, firstStr_empty]

end ColorsConf
