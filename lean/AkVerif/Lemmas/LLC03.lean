import AkVerif.Lemmas.LLSmart
import AkVerif.Lemmas.LLNoStuck
/-!
C03 assembly:
* unconditional structure of `factorize`: distinct keys, the suffix list holds helper symbols only
  (no assumption on the input, so that C03 speaks about *all* grammars the constructor accepts);
* `recCheck` decides the existence of a cycle of "can start with, behind nullables";
* the stack bound and totality of `parse`, composed for the constructed parser.
-/
set_option linter.unusedSectionVars false
namespace LL
open Ak

/-! ### unconditional structure of `factorize` -/

theorem undoLoop_keys {terms suffix : List Sym} : ∀ (order : List Sym) (d : Prods Sym) (rm : List Sym)
    (out : Prods Sym × List Sym), undoLoop terms suffix order d rm = .ok out →
      out.1.map (·.1) = d.map (·.1)
  | [], d, rm, out, h => by
    rw [undoLoop_nil h]
  | s :: rest, d, rm, out, h => by
    obtain ⟨rr, new, rm', h1, _, h3⟩ := undoLoop_cons h
    rw [undoLoop_keys rest _ _ out h3]
    split
    · exact keys_dset_of_mem _ (dget_isSome_iff.1 (by rw [h1]; rfl))
    · rfl

theorem factorize_struct {terms : List Sym} {U G : Prods Sym} {S : List Sym} {smart : Bool}
    (h : factorize terms U smart = .ok (G, S)) :
    (G.map (·.1)).Nodup ∧ ∀ s ∈ S, s.isSuf = true := by
  unfold factorize at h
  obtain ⟨d, _, h⟩ := Except.bind_ok h
  split at h
  · simp at h
  · rename_i hnd
    have hnd' : (d.map (·.1)).Nodup := by simpa using hnd
    simp only at h
    split at h
    · -- smart undo
      unfold smartUndo at h
      simp only at h
      obtain ⟨⟨d', rm⟩, hl, h⟩ := Except.bind_ok h
      simp only [Except.ok.injEq, Prod.mk.injEq] at h
      obtain ⟨e1, e2⟩ := h
      subst e1; subst e2
      have hk := undoLoop_keys _ _ _ _ hl
      simp only at hk
      refine ⟨(ddels_spec rm (by rw [hk]; exact hnd')).1, ?_⟩
      intro s hs
      simp only [List.mem_filter] at hs
      exact hs.1.2
    · simp only [Except.ok.injEq, Prod.mk.injEq] at h
      obtain ⟨e1, e2⟩ := h
      subst e1; subst e2
      exact ⟨hnd', fun s hs => (List.mem_filter.1 hs).2⟩

theorem built_struct {inp : CtorIn} {P : Parser} (hB : Built inp P) :
    (P.prods.map (·.1)).Nodup ∧ endSym ∉ P.suffix := by
  obtain ⟨h1, h2⟩ := factorize_struct hB.hF
  refine ⟨h1, fun h => ?_⟩
  have := h2 _ h
  simp [Sym.isSuf, endSym, Sym.user] at this

/-! ### `recCheck` decides left recursion -/
section Rec
variable {σ : Type} [DecidableEq σ]

theorem reach1_src_key {G : Prods σ} {nulls : List σ} {X Y : σ} (h : Reach1 G nulls X Y) : X ∈ G.map (·.1) := by
  obtain ⟨rules, _, _, hm, _⟩ := h
  exact List.mem_map.2 ⟨(X, rules), hm, rfl⟩

theorem plus_src_key {G : Prods σ} {nulls : List σ} {X Y : σ} (h : Plus (Reach1 G nulls) X Y) :
    X ∈ G.map (·.1) := by
  cases h with
  | one h => exact reach1_src_key h
  | step h _ => exact reach1_src_key h

theorem plus_rank {G : Prods σ} {nulls terms : List σ} {rank : σ → Nat}
    (hr : ∀ X Y, Reach1 G nulls X Y → Y ∉ terms → rank Y < rank X)
    (hdisj : ∀ k ∈ G.map (·.1), k ∉ terms) :
    ∀ {a c : σ}, Plus (Reach1 G nulls) a c → c ∈ G.map (·.1) → rank c < rank a := by
  intro a c h
  induction h with
  | one h => intro hc; exact hr _ _ h (hdisj _ hc)
  | step h h2 ih =>
    intro hc
    have := hr _ _ h (hdisj _ (plus_src_key h2))
    have := ih hc
    omega

/-- `recCheck` answers `GrammarIsRecursive` exactly when some symbol reaches itself through
"can start with, behind nullables" (`Reach1`), for every order in which the symbols are visited -/
theorem recCheck_rec_iff {G : Prods σ} {terms nulls order : List σ}
    (hnd : (G.map (·.1)).Nodup) (hdisj : ∀ k ∈ G.map (·.1), k ∉ terms)
    (hknown : ∀ X rules, (X, rules) ∈ G → ∀ r ∈ rules, ∀ s ∈ r.rhs, s ∈ terms ∨ s ∈ G.map (·.1))
    (hord : ∀ k ∈ G.map (·.1), k ∈ order) (hord' : ∀ s ∈ order, s ∈ terms ∨ s ∈ G.map (·.1)) :
    (recCheck G terms nulls order = .error .grammarIsRecursive ↔ ∃ X, Plus (Reach1 G nulls) X X) ∧
    (recCheck G terms nulls order = .ok () ↔ ¬ ∃ X, Plus (Reach1 G nulls) X X) := by
  have hok : recCheck G terms nulls order = .ok () → ¬ ∃ X, Plus (Reach1 G nulls) X X := by
    intro h ⟨X, hX⟩
    obtain ⟨rank, hr⟩ := recCheck_rank hnd hord h
    have := plus_rank hr hdisj hX (plus_src_key hX)
    omega
  have hrec : recCheck G terms nulls order = .error .grammarIsRecursive → ∃ X, Plus (Reach1 G nulls) X X :=
    recCheck_cycle
  rcases recCheck_decides (nulls := nulls) hknown hord' with h | h
  · refine ⟨⟨fun h' => ?_, fun hc => absurd hc (hok h)⟩, ⟨fun _ => hok h, fun _ => h⟩⟩
    rw [h] at h'; cases h'
  · refine ⟨⟨fun _ => hrec h, fun _ => h⟩, ⟨fun h' => ?_, fun hn => absurd (hrec h) hn⟩⟩
    rw [h] at h'; cases h'

end Rec

/-! ### the stack bound, composed -/
section Bound
variable {σ : Type} [DecidableEq σ]

theorem tstack_syms {C : TCtx σ} {k : σ × Nat × List (List σ)} : ∀ (st : List (Frame σ)), TStack C st →
    Bot k st → ∀ f ∈ st, f.sym = k.1 ∨ ∃ X p, p ∈ C.P.prods X ∧ f.sym ∈ p
  | [], h, _, _, _ => h.elim
  | [b], _, hb, f, hf => by
    simp only [List.mem_singleton] at hf
    subst hf
    left
    have : botKey f = k := by simpa [Bot] using hb
    rw [← this]; rfl
  | f0 :: g :: r, h, hb, f, hf => by
    simp only [List.mem_cons] at hf
    rcases hf with hf | hf
    · subst hf
      right
      obtain ⟨_, ⟨prod, hg1, hg2, _, _⟩, hrest⟩ := h
      obtain ⟨gprod, hgf⟩ := TStack_top hrest
      have hpe : gprod = prod := by
        have := hgf.cur; rw [hg1] at this; injection this with this; exact this.symm
      subst hpe
      exact ⟨g.sym, gprod, hgf.alts _ (List.mem_of_getElem? hgf.cur), List.mem_of_getElem? hg2⟩
    · exact tstack_syms (g :: r) h.2.2 (bot_pop hb) f (by simpa using hf)

def maxOf (l : List Nat) : Nat := l.foldr max 0

theorem le_maxOf {l : List Nat} {x : Nat} (h : x ∈ l) : x ≤ maxOf l := by
  induction l with
  | nil => simp at h
  | cons a l ih =>
    simp only [List.mem_cons] at h
    simp only [maxOf, List.foldr_cons]
    rcases h with h | h
    · subst h; exact Nat.le_max_left _ _
    · exact Nat.le_trans (ih h) (Nat.le_max_right _ _)

theorem iter_bot {G : Cfg σ} {toks : List (Tok σ)} {k : σ × Nat × List (List σ)} :
    ∀ (n : Nat) (st st' : List (Frame σ)), Bot k st → iter G toks n st = .cont st' → Bot k st'
  | 0, st, st', h, hi => by simp [iter] at hi; subst hi; exact h
  | n + 1, st, st', h, hi => by
    cases hs : step G toks st with
    | cont st1 =>
      rw [iter_succ_cont _ hs] at hi
      exact iter_bot n st1 st' (bot_step _ _ h hs) hi
    | done x => simp [iter, hs] at hi
    | fail => simp [iter, hs] at hi
    | stuck => simp [iter, hs] at hi

end Bound

/-- C03 `stack_bound`, composed: there is a bound `B` depending on the grammar only such that
every stack the parse loop reaches has at most `(|tokens| + 1) · B` frames -/
theorem stack_bound_of_built {P : Parser} (hB : Core P) (hnd : (P.prods.map (·.1)).Nodup) :
    ∃ B, ∀ (raw : List (List Char × List Char)) (n : Nat) (st : List (Frame Sym)),
      iter P.cfg (P.tokens raw) n (initStack startSym P.start endSym) = .cont st →
        st.length ≤ ((P.tokens raw).length + 1) * B := by
  obtain ⟨rank, hC⟩ := tctxOK_of_built hB hnd
  let rk : Sym → Nat := fun s => if s = startSym then rank P.start + 1 else rank s
  let R := maxOf ((startSym :: P.start :: endSym :: psyms P.prods).map rk)
  refine ⟨R + 1, fun raw n st hi => ?_⟩
  let C := tctxOf P rank (P.tokens raw)
  have hst : TStack C st := titer (hC _) n _ st (tstack_init rank _) hi
  have hbot : Bot (startSym, 0, [[P.start, endSym]]) st :=
    iter_bot n (initStack startSym P.start endSym) st (by simp [Bot, initStack, botKey]) hi
  have hR : ∀ f ∈ st, C.rank f.sym ≤ R := by
    intro f hf
    have hmem : f.sym ∈ startSym :: P.start :: endSym :: psyms P.prods := by
      rcases tstack_syms st hst hbot f hf with h | ⟨X, p, hp, hfp⟩
      · simp [h]
      · by_cases hX : X = startSym
        · subst hX
          simp only [C, tctxOf, extGram, if_true, List.mem_singleton] at hp
          subst hp
          simp only [List.mem_cons, List.not_mem_nil, or_false] at hfp
          rcases hfp with h | h <;> simp [h]
        · simp only [C, tctxOf, extGram, hX, if_false] at hp
          obtain ⟨rules, hm, r, hr, hrp⟩ := mem_gramRules.1 hp
          subst hrp
          have := mem_psyms.2 ⟨X, rules, hm, r, hr, hfp⟩
          simp [this]
    exact le_maxOf (List.mem_map.2 ⟨f.sym, hmem, rfl⟩)
  exact tstack_bound (hC _) R st hst hR

/-- C03, composed: on every token list `parse` returns a tree or raises `ParsingError`
(for every sufficiently large fuel; never out of fuel, never an `IndexError`) -/
theorem parse_total_of_built {P : Parser} (hB : Core P) (hnd : (P.prods.map (·.1)).Nodup)
    (hsuf : endSym ∉ P.suffix) (raw : List (List Char × List Char)) :
    ∃ k, ∀ fuel, k ≤ fuel → (∃ t, P.parse raw fuel = .ok t) ∨ P.parse raw fuel = .error .parsingError := by
  obtain ⟨k, hk⟩ := parse_terminates_of_built hB hnd raw
  refine ⟨k, fun fuel hf => ?_⟩
  cases hres : P.parse raw fuel with
  | ok t => exact Or.inl ⟨t, rfl⟩
  | error e =>
    right
    rcases run_error_cases fuel _ e hres with he | he | he
    · subst he; exact absurd hres (hk fuel hf)
    · subst he; rfl
    · subst he; exact absurd hres (parse_no_stuck_of_built hB hnd hsuf raw fuel)

end LL
