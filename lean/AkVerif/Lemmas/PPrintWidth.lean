import AkVerif.Lemmas.PPrint
/-!
Helper lemmas for C11: a container that is printed without a new-line marker is the one-line
layout, and its text is shorter than the one-line limit allows at its offset.
-/
namespace PPrint

theorem text_length (l : List (Option Chunk)) : (text l).length = optLen l + l.count none := by
  induction l with
  | nil => rfl
  | cons x r ih =>
    cases x with
    | none => simp [optLen, ih]; omega
    | some ch => simp [optLen, ih]; omega

theorem text_length_of_not_mem {l : List (Option Chunk)} (h : none ∉ l) :
    (text l).length = optLen l := by
  rw [text_length, List.count_eq_zero_of_not_mem h]; rfl

theorem optLen_append (a b : List (Option Chunk)) : optLen (a ++ b) = optLen a + optLen b := by
  induction a with
  | nil => simp [optLen]
  | cons x r ih => cases x <;> simp [optLen, ih]; omega

theorem optLen_sepItems_singletons (items : List Chunk) (first : Bool) :
    optLen (sepItems first (items.map fun it => [some it])) + (if first then 2 else 0) =
      chunksLen items + 2 * items.length + (if items = [] ∧ first then 2 else 0) := by
  induction items generalizing first with
  | nil => cases first <;> simp [sepItems, optLen, chunksLen]
  | cons it r ih =>
    have := ih false
    cases first <;>
      simp [sepItems, optLen, chunksLen] at this ⊢ <;> omega

theorem multiLine_has_marker (L : Limits) (o cl : Char) (off : Nat)
    (subs : List (List (Option Chunk))) : none ∈ multiLine L o cl off subs := by
  simp [multiLine]

theorem wrappedList_has_marker (L : Limits) (off : Nat) (items : List Chunk) :
    none ∈ wrappedList L off items := by
  simp [wrappedList]

/-- a non-empty list printed on one line ends left of the one-line limit -/
theorem list_one_line_fits (c : Consts) (L : Limits) (xs : List J) (off : Nat) (hne : xs ≠ [])
    (h : none ∉ gen c L (.list xs) off) :
    off + (text (gen c L (.list xs) off)).length < L.oneLineList := by
  rw [text_length_of_not_mem h]
  simp only [gen, renderList] at h ⊢
  cases xs with
  | nil => exact absurd rfl hne
  | cons x xs' =>
    simp only [] at h ⊢
    cases hs : allSimple? (x :: xs') with
    | none => rw [hs] at h; exact absurd (multiLine_has_marker _ _ _ _ _) h
    | some ss =>
      rw [hs] at h
      simp only [] at h ⊢
      split
      · rename_i hlt
        have hl := optLen_sepItems_singletons (ss.map (simpleChunk c)) true
        have hne' : ss.map (simpleChunk c) ≠ [] := by
          intro e
          have : ss = [] := by simpa using e
          subst this
          simp [allSimple?] at hs
          split at hs <;> simp at hs
        simp only [hne', false_and, if_false, if_true] at hl
        simp only [optLen, optLen_append, List.length_cons, List.length_nil, plain_text] at hl ⊢
        omega
      · rename_i hge
        rw [if_neg hge] at h
        exact absurd (wrappedList_has_marker _ _ _) h

/-- a non-empty dict printed on one line ends left of the one-line limit -/
theorem dict_one_line_fits (c : Consts) (L : Limits) (kvs : List (Key × J)) (off : Nat)
    (hne : kvs ≠ []) (h : none ∉ gen c L (.dict kvs) off) :
    off + (text (gen c L (.dict kvs) off)).length < L.oneLineDict := by
  rw [text_length_of_not_mem h]
  simp only [gen, renderDict] at h ⊢
  cases kvs with
  | nil => exact absurd rfl hne
  | cons kv r =>
    simp only [] at h ⊢
    cases hs : allSimpleD? (kv :: r) with
    | none => rw [hs] at h; exact absurd (multiLine_has_marker _ _ _ _ _) h
    | some ss =>
      rw [hs] at h
      simp only [] at h ⊢
      split
      · rename_i hlt; exact hlt
      · rename_i hge
        rw [if_neg hge] at h
        exact absurd (multiLine_has_marker _ _ _ _ _) h

end PPrint
