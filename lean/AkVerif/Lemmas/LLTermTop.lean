import AkVerif.Lemmas.LLCompose
import AkVerif.Lemmas.LLTerm
import AkVerif.Lemmas.LLRec2
import AkVerif.Lemmas.LLSets
import AkVerif.Lemmas.LLFactBasic
/-!
C03, composed: for the parser built by `construct`, the hypothesis record `TCtxOK` of the
termination theorem holds (nullable set closed: `nullables_closed`; a rank decreasing along
"can start with, behind nullables": `recCheck_rank`; table entries: `mkTable_inv`), hence
`parse` stops on every token list; the stack is bounded.
-/
set_option linter.unusedSectionVars false
namespace LL
open Ak

theorem mem_sortedKeys {G : Prods Sym} {k : Sym} : k ∈ sortedKeys G ↔ k ∈ G.map (·.1) := by
  unfold sortedKeys
  exact mem_sortBy

section Top
variable {P : Parser}

/-- the termination context of a constructed parser -/
def tctxOf (P : Parser) (rank : Sym → Nat) (toks : List (Tok Sym)) : TCtx Sym :=
  { G := P.cfg, P := extGram P.prods P.start, N := fun s => decide (s ∈ P.nullables),
    rank := fun s => if s = startSym then rank P.start + 1 else rank s, toks := toks }

theorem tctxOK_of_built (hB : Core P) (hnd : (P.prods.map (·.1)).Nodup) :
    ∃ rank : Sym → Nat, ∀ toks, TCtxOK (tctxOf P rank toks) := by
  have h1 := hB.hV
  have hendT : endSym ∈ P.terminals := hB.hendT
  obtain ⟨rank, hrank⟩ := recCheck_rank hnd (fun k hk => mem_sortedKeys.2 hk) hB.hR
  refine ⟨rank, fun toks => ?_⟩
  have hrules : ∀ X p, X ≠ startSym → p ∈ (extGram P.prods P.start).prods X →
      ∃ rules, (X, rules) ∈ P.prods ∧ ∃ r ∈ rules, r.rhs = p := by
    intro X p hX hp
    simp only [extGram, hX, if_false] at hp
    exact mem_gramRules.1 hp
  refine { closed := ?_, rank := ?_, table := ?_ }
  · intro X p hp hall
    by_cases hX : X = startSym
    · exfalso
      subst hX
      simp only [tctxOf, extGram, if_true, List.mem_singleton] at hp
      subst hp
      have : endSym ∈ P.nullables := by simpa [tctxOf] using hall endSym (by simp)
      exact h1.endNoKey (nullables_sub_keys hB.hN _ this)
    · obtain ⟨rules, hm, r, hr, hrp⟩ := hrules X p hX hp
      subst hrp
      have := nullables_closed hB.hN X rules hm r hr (fun s hs => by simpa [tctxOf] using hall s hs)
      simpa [tctxOf] using this
  · intro X p k c hp hpre hc hnt
    have hcT : c ∉ P.terminals := by simpa [tctxOf, Parser.cfg, cfgOf] using hnt
    by_cases hX : X = startSym
    · subst hX
      simp only [tctxOf, extGram, if_true, List.mem_singleton] at hp
      subst hp
      match k, hc with
      | 0, hc =>
        simp at hc; subst hc
        simp [tctxOf, start_ne_init h1]
      | 1, hc =>
        simp at hc; subst hc
        exact absurd hendT hcT
      | k + 2, hc => simp at hc
    · obtain ⟨rules, hm, r, hr, hrp⟩ := hrules X p hX hp
      subst hrp
      have hcsym : c ∈ psyms P.prods := mem_psyms.2 ⟨X, rules, hm, r, hr, List.mem_of_getElem? hc⟩
      have hcne : c ≠ startSym := fun e => h1.initNoSym (e ▸ hcsym)
      have hreach : Reach1 P.prods P.nullables X c :=
        ⟨rules, r, k, hm, hr, fun s hs => by simpa [tctxOf] using hpre s hs, hc⟩
      have := hrank X c hreach hcT
      simpa [tctxOf, hX, hcne] using this
  · intro X t alts hlook
    exact (tableWF_of_built h1 hB.hT).sub X t alts hlook

theorem tstack_init (rank : Sym → Nat) (toks : List (Tok Sym)) :
    TStack (tctxOf P rank toks) (initStack startSym P.start endSym) := by
  refine ⟨[P.start, endSym], ?_⟩
  exact { cur := by simp [initStack], alts := by simp [initStack, tctxOf, extGram],
          len := by simp [initStack], le := Nat.le_refl _, bound := by simp [initStack],
          nul := by simp [initStack] }

/-- C03 (termination), composed -/
theorem parse_terminates_of_built (hB : Core P) (hnd : (P.prods.map (·.1)).Nodup)
    (raw : List (List Char × List Char)) :
    ∃ k, ∀ fuel, k ≤ fuel → P.parse raw fuel ≠ .error .outOfFuel := by
  obtain ⟨rank, hC⟩ := tctxOK_of_built hB hnd
  exact run_terminates (C := tctxOf P rank (P.tokens raw)) (hC _) _ (tstack_init rank _)

end Top

/-! ### the stack is bounded -/
section Bound
variable {σ : Type} [DecidableEq σ]

/-- weight of a frame: `(|tokens| - start, rank)` read as one number -/
def fweight (C : TCtx σ) (R : Nat) (f : Frame σ) : Nat := (C.toks.length - f.start) * (R + 1) + C.rank f.sym

/-- along the stack (top first) the weights strictly increase towards the bottom -/
theorem tstack_chain {C : TCtx σ} (hC : TCtxOK C) (R : Nat) :
    ∀ (rest : List (Frame σ)) (f : Frame σ), TStack C (f :: rest) → (∀ x ∈ f :: rest, C.rank x.sym ≤ R) →
      rest.length + fweight C R f + 1 ≤ (C.toks.length + 1) * (R + 1) ∧ f.start ≤ C.toks.length
  | [], f, h, hR => by
    obtain ⟨prod, hb⟩ := h
    have hs : f.start ≤ C.toks.length := Nat.le_trans hb.le hb.bound
    have hr := hR f (by simp)
    refine ⟨?_, hs⟩
    simp only [List.length_nil, Nat.zero_add, fweight]
    have : (C.toks.length - f.start) * (R + 1) ≤ C.toks.length * (R + 1) :=
      Nat.mul_le_mul_right _ (Nat.sub_le _ _)
    have e2 : (C.toks.length + 1) * (R + 1) = C.toks.length * (R + 1) + (R + 1) := by
      rw [Nat.add_mul]; simp
    omega
  | g :: r, f, h, hR => by
    obtain ⟨⟨prod, hf⟩, ⟨gprod, hg1, hg2, hg3, hg4⟩, hrest⟩ := h
    obtain ⟨ih, hgs⟩ := tstack_chain hC R r g hrest (fun x hx => hR x (by simp [hx]))
    obtain ⟨gprod', hgf⟩ := TStack_top hrest
    have hpe : gprod' = gprod := by
      have := hgf.cur; rw [hg1] at this; injection this with this; exact this.symm
    subst hpe
    have hfs : f.start ≤ C.toks.length := by rw [hg3]; exact hgf.bound
    refine ⟨?_, hfs⟩
    -- weight of f is smaller than the weight of g
    have hlt : fweight C R f < fweight C R g := by
      unfold fweight
      have hrf := hR f (by simp)
      have hrg := hR g (by simp)
      by_cases heq : g.cur = g.start
      · have hrank : C.rank f.sym < C.rank g.sym :=
          hC.rank g.sym gprod' g.vals.length f.sym (hgf.alts _ (List.mem_of_getElem? hgf.cur))
            (hgf.nul heq) hg2 hg4
        rw [hg3, heq]; omega
      · have hlt' : g.start < g.cur := Nat.lt_of_le_of_ne hgf.le (fun e => heq e.symm)
        have hb := hgf.bound
        have : C.toks.length - f.start + 1 ≤ C.toks.length - g.start := by rw [hg3]; omega
        have := Nat.mul_le_mul_right (R + 1) this
        rw [Nat.add_mul] at this
        omega
    simp only [List.length_cons] at ih ⊢
    omega

/-- C03 (`stack_bound`): a stack satisfying the invariant has at most `(|tokens|+1)·(R+1)` frames,
`R` any bound on the ranks of the symbols on it -/
theorem tstack_bound {C : TCtx σ} (hC : TCtxOK C) (R : Nat) (st : List (Frame σ)) (h : TStack C st)
    (hR : ∀ f ∈ st, C.rank f.sym ≤ R) : st.length ≤ (C.toks.length + 1) * (R + 1) := by
  cases st with
  | nil => exact h.elim
  | cons f rest =>
    obtain ⟨h1, _⟩ := tstack_chain hC R rest f h hR
    simp only [List.length_cons]
    omega

end Bound
end LL
