import AkVerif.Lemmas.TemplatesFirst
/-!
C05 on top of C02, user level: FIRST sees through a nullable prefix of a production tuple as the user WROTE it in the
`productions` dictionary (`written_production_first`), a corollary of `first_through_nullable_prefix`.
-/
namespace Templates
open Ak LL

/-- a tuple of the list of productions of a symbol is one of its right-hand sides -/
theorem prodRules_tuple_mem {terms : List Name} {p : List Name} : ∀ (ps : List ProdArg) (seen : Bool)
    (rules : List (List Name)), ProdArg.tuple p ∈ ps → prodRules terms ps seen = .ok rules → p ∈ rules
  | [], _, _, hp, _ => by cases hp
  | .empty :: rest, seen, rules, hp, h => by
    simp only [prodRules] at h
    cases hr : prodRules terms rest seen with
    | error e => simp [hr] at h
    | ok r =>
      simp only [hr, Except.ok.injEq] at h
      subst h
      rcases List.mem_cons.1 hp with hp | hp
      · cases hp
      · exact List.mem_cons_of_mem _ (prodRules_tuple_mem rest seen r hp hr)
  | .tuple q :: rest, seen, rules, hp, h => by
    simp only [prodRules] at h
    cases hr : prodRules terms rest seen with
    | error e => simp [hr] at h
    | ok r =>
      simp only [hr, Except.ok.injEq] at h
      subst h
      rcases List.mem_cons.1 hp with hp | hp
      · cases hp; exact List.mem_cons_self
      · exact List.mem_cons_of_mem _ (prodRules_tuple_mem rest seen r hp hr)
  | .anyExcept ex :: rest, seen, rules, hp, h => by
    simp only [prodRules] at h
    split at h
    · cases h
    · cases hg : getTokens terms ex with
      | error e => simp [hg] at h
      | ok ts =>
        cases hr : prodRules terms rest true with
        | error e => simp [hg, hr] at h
        | ok r =>
          simp only [hg, hr, Except.ok.injEq] at h
          subst h
          rcases List.mem_cons.1 hp with hp | hp
          · cases hp
          · exact List.mem_append_right _ (prodRules_tuple_mem rest true r hp hr)

section Built
variable {groups : List Name} {syn : List (Name × Name)} {skip : Option (List Name)} {start : Name} {smart : Bool}
  {keep termOrder : List Name} {entries : List (Name × GramEntry)} {TP : TParser}

/-- **FIRST sees through a nullable prefix of a production as the user wrote it** in the `productions` dictionary:
for the tuple `pre s post` of the symbol `A` with `pre` nullable, `s` itself (a terminal) resp. all of FIRST(`s`) is in
FIRST(`A`) of the constructed parser -/
theorem written_production_first (hterms : ∀ t ∈ termOrder, LL.hasDunder t = false)
    (h : constructT groups syn skip start smart keep termOrder entries = .ok TP)
    (hargs : ∀ C e, (C, e) ∈ entries → ∀ n ∈ e.argNames, (parseSym n).path = [])
    (A : Name) (ps : List ProdArg) (hm : (A, GramEntry.plain ps) ∈ entries) (p : List Name)
    (hp : ProdArg.tuple p ∈ ps) (pre : List Name) (s : Name) (post : List Name) (hrhs : p = pre ++ s :: post)
    (hpre : ∀ x ∈ pre, parseSym x ∈ TP.ll.nullables) :
    ∃ f, dget (parseSym A) TP.ll.first = some f ∧ (parseSym s ∈ TP.ll.terminals → parseSym s ∈ f) ∧
      (∀ g t, dget (parseSym s) TP.ll.first = some g → t ∈ g → t ∈ f) := by
  obtain ⟨ex, hex, _, hB⟩ := constructT_builtG hterms h hargs
  obtain ⟨_, i2, _⟩ := expandGrammar_spec termOrder entries {} ex hex
  obtain ⟨_, eps, heps, hin⟩ := i2 A _ hm
  simp only [entryProds] at heps
  cases hr : prodRules termOrder ps false with
  | error err => simp [hr] at heps
  | ok rules =>
    simp only [hr, Option.some.injEq] at heps
    subst heps
    have hpr : p ∈ rules := prodRules_tuple_mem ps false rules hp hr
    obtain ⟨R, hmU, hR⟩ := (tf_createProdsT_mem _ _ _ _ hB.hU).2 A rules (hin _ List.mem_cons_self)
    have : p.map parseSym ∈ R.map (·.rhs) := by
      rw [hR]; exact List.mem_map.2 ⟨p, hpr, rfl⟩
    obtain ⟨r, hrR, hr0⟩ := List.mem_map.1 this
    refine first_through_nullable_prefix hterms h hargs (parseSym A) R r (pre.map parseSym) (parseSym s)
      (post.map parseSym) hmU hrR ?_ ?_
    · rw [hr0, hrhs]; simp
    · intro x hx
      obtain ⟨y, hy, rfl⟩ := List.mem_map.1 hx
      exact hpre y hy

end Built
end Templates
