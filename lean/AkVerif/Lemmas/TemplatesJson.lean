import AkVerif.Model.TemplatesLL
import AkVerif.Lemmas.TemplatesLLRun
import AkVerif.Lemmas.TemplatesDenote
/-!
C05 end to end for the json-like grammar `E -> VALUE`, `VALUE -> WORD | LIST | MAP`, `LIST = ListProds('[','VALUE',',',']')`,
`MAP = MapProds('{','WORD',':','VALUE',',','}')` (default options): the constructor model (`constructT`, on top of the LL
model), the parse loop and the clean-up, for every piece of nested data rendered to tokens.
-/
namespace Templates
open Ak LL LLT

def nm (s : String) : Name := s.toList
def sy (s : String) : Sym := ⟨s.toList, []⟩

def jsonEntries : List (Name × GramEntry) :=
  [(nm "E", .plain [.tuple [nm "VALUE"]]),
   (nm "VALUE", .plain [.tuple [nm "WORD"], .tuple [nm "LIST"], .tuple [nm "MAP"]]),
   (nm "LIST", .list ⟨some (nm "["), nm "VALUE", some (nm ","), some (nm "]"), none, none⟩),
   (nm "MAP", .map ⟨some (nm "{"), nm "WORD", some (nm ":"), nm "VALUE", some (nm ","), some (nm "}"), none, none⟩)]

def jsonGroups : List Name := [nm "SPACE", nm "WORD", nm ",", nm "[", nm "]", nm "{", nm "}", nm ":"]

/-- `LLParser(tokenizer, productions=json grammar, smart_factorization=smart)` -/
def jsonT (smart : Bool) : Except Err TParser :=
  constructT jsonGroups [] none (nm "E") smart [] jsonGroups jsonEntries

def jsonLO : ListOpts := ⟨some (nm "["), nm "VALUE", some (nm ","), some (nm "]"), true, false, nm "LIST"⟩
def jsonMO : MapOpts := ⟨some (nm "{"), nm "WORD", nm ":", nm "VALUE", nm ",", some (nm "}"), false, true, nm "MAP"⟩
/-- the cleanuper `StdCleanuper.make` builds for this grammar -/
def jsonCl : Cleanuper :=
  { templates := [(nm "LIST", .list jsonLO), (nm "MAP", .map jsonMO)], choice := [nm "VALUE"], keep := [nm "E"],
    squash := [nm "E", nm "VALUE"] }

/-- nested data as it is written: a final delimiter may follow the last entry of a non-empty container -/
inductive Syn where
  | word (s : List Char)
  | list (xs : List Syn) (fin : Bool)
  | map (kvs : List (List Char × Syn)) (fin : Bool)

def sTAIL : Sym := ⟨nm "LIST" ++ tailSuffix, []⟩
def sKV : Sym := ⟨nm "MAP" ++ kvPairSuffix, []⟩
def sELEMS : Sym := ⟨nm "MAP" ++ kvTailSuffix, []⟩

def lf (s : String) : Tree Sym := .leaf (sy s) s.toList

mutual
/-- the derivation tree (user's grammar, as the loop returns it) of a value -/
def utV : Syn → Tree Sym
  | .word s => .node (sy "VALUE") [.leaf (sy "WORD") s]
  | .list [] _ => .node (sy "VALUE") [.node (sy "LIST") [lf "[", lf "]"]]
  | .list (x :: xs) fin => .node (sy "VALUE") [.node (sy "LIST") [lf "[", utV x, utTail xs fin, lf "]"]]
  | .map [] _ => .node (sy "VALUE") [.node (sy "MAP") [lf "{", lf "}"]]
  | .map ((k, v) :: kvs) fin =>
    .node (sy "VALUE") [.node (sy "MAP")
      [lf "{", .node sKV [.leaf (sy "WORD") k, lf ":", utV v], utElems kvs fin, lf "}"]]
def utTail : List Syn → Bool → Tree Sym
  | [], false => .node sTAIL []
  | [], true => .node sTAIL [lf ","]
  | x :: xs, fin => .node sTAIL [lf ",", utV x, utTail xs fin]
def utElems : List (List Char × Syn) → Bool → Tree Sym
  | [], false => .node sELEMS []
  | [], true => .node sELEMS [lf ","]
  | (k, v) :: kvs, fin => .node sELEMS [lf ",", .node sKV [.leaf (sy "WORD") k, lf ":", utV v], utElems kvs fin]
end

/-- the facts about the constructed parser (smart factorisation, i.e. the default) that the proof uses: the table
entries, with their *order* of alternatives, and the terminals -/
structure JFacts (G : Cfg Sym) : Prop where
  tE : ∀ t, t = sy "WORD" ∨ t = sy "[" ∨ t = sy "{" → G.table (sy "E") t = some [[sy "VALUE"]]
  tVw : G.table (sy "VALUE") (sy "WORD") = some [[sy "WORD"]]
  tVl : G.table (sy "VALUE") (sy "[") = some [[sy "LIST"]]
  tVm : G.table (sy "VALUE") (sy "{") = some [[sy "MAP"]]
  tL : G.table (sy "LIST") (sy "[") = some [[sy "[", sy "]"], [sy "[", sy "VALUE", sTAIL, sy "]"]]
  tT1 : G.table sTAIL (sy ",") = some [[sy ",", sy "VALUE", sTAIL], [sy ","]]
  tT0 : G.table sTAIL (sy "]") = some [[]]
  tM : G.table (sy "MAP") (sy "{") = some [[sy "{", sy "}"], [sy "{", sKV, sELEMS, sy "}"]]
  tS1 : G.table sELEMS (sy ",") = some [[sy ",", sKV, sELEMS], [sy ","]]
  tS0 : G.table sELEMS (sy "}") = some [[]]
  tK : G.table sKV (sy "WORD") = some [[sy "WORD", sy ":", sy "VALUE"]]
  nV : G.table (sy "VALUE") (sy "]") = none
  nK : G.table sKV (sy "}") = none
  term : ∀ t, t ∈ [sy "WORD", sy ",", sy "[", sy "]", sy "{", sy "}", sy ":", endSym] → G.isTerm t = true
  nonterm : ∀ t, t ∈ [sy "E", sy "VALUE", sy "LIST", sy "MAP", sTAIL, sKV, sELEMS] → G.isTerm t = false

def jfactsB (G : Cfg Sym) : Bool :=
  [sy "WORD", sy "[", sy "{"].all (fun t => decide (G.table (sy "E") t = some [[sy "VALUE"]])) &&
  decide (G.table (sy "VALUE") (sy "WORD") = some [[sy "WORD"]]) &&
  decide (G.table (sy "VALUE") (sy "[") = some [[sy "LIST"]]) &&
  decide (G.table (sy "VALUE") (sy "{") = some [[sy "MAP"]]) &&
  decide (G.table (sy "LIST") (sy "[") = some [[sy "[", sy "]"], [sy "[", sy "VALUE", sTAIL, sy "]"]]) &&
  decide (G.table sTAIL (sy ",") = some [[sy ",", sy "VALUE", sTAIL], [sy ","]]) &&
  decide (G.table sTAIL (sy "]") = some [[]]) &&
  decide (G.table (sy "MAP") (sy "{") = some [[sy "{", sy "}"], [sy "{", sKV, sELEMS, sy "}"]]) &&
  decide (G.table sELEMS (sy ",") = some [[sy ",", sKV, sELEMS], [sy ","]]) &&
  decide (G.table sELEMS (sy "}") = some [[]]) &&
  decide (G.table sKV (sy "WORD") = some [[sy "WORD", sy ":", sy "VALUE"]]) &&
  decide (G.table (sy "VALUE") (sy "]") = none) &&
  decide (G.table sKV (sy "}") = none) &&
  [sy "WORD", sy ",", sy "[", sy "]", sy "{", sy "}", sy ":", endSym].all (fun t => G.isTerm t) &&
  [sy "E", sy "VALUE", sy "LIST", sy "MAP", sTAIL, sKV, sELEMS].all (fun t => !G.isTerm t)

theorem jfacts_of_B (G : Cfg Sym) (h : jfactsB G = true) : JFacts G := by
  simp only [jfactsB, Bool.and_eq_true, decide_eq_true_eq, List.all_eq_true] at h
  obtain ⟨⟨⟨⟨⟨⟨⟨⟨⟨⟨⟨⟨⟨⟨h1, h2⟩, h3⟩, h4⟩, h5⟩, h6⟩, h7⟩, h8⟩, h9⟩, h10⟩, h11⟩, h12⟩, h13⟩, h14⟩, h15⟩ := h
  refine ⟨?_, h2, h3, h4, h5, h6, h7, h8, h9, h10, h11, h12, h13, h14, ?_⟩
  · intro t ht
    have := h1 t (by rcases ht with rfl | rfl | rfl <;> simp)
    simpa using this
  · intro t ht
    have := h15 t ht
    simpa using this

set_option maxRecDepth 100000 in
theorem jsonT_true_facts : ∀ T, jsonT true = .ok T → JFacts T.ll.cfg ∧ T.ll.suffix = [] ∧ T.seqSyms = [] ∧
    T.ll.start = sy "E" ∧ T.ll.skip = [sy "SPACE"] ∧ T.ll.syn = [] ∧ T.ll.kw = [] ∧ T.cl = jsonCl := by
  intro T hT
  have h : (match jsonT true with
      | .ok T => jfactsB T.ll.cfg && decide (T.ll.suffix = []) && decide (T.seqSyms = []) &&
          decide (T.ll.start = sy "E") && decide (T.ll.skip = [sy "SPACE"]) && decide (T.ll.syn = []) &&
          decide (T.ll.kw = []) && decide (T.cl = jsonCl)
      | .error _ => false) = true := by decide +kernel
  rw [hT] at h
  simp only [Bool.and_eq_true, decide_eq_true_eq] at h
  obtain ⟨⟨⟨⟨⟨⟨⟨h1, h2⟩, h3⟩, h4⟩, h5⟩, h6⟩, h7⟩, h8⟩ := h
  exact ⟨jfacts_of_B _ h1, h2, h3, h4, h5, h6, h7, h8⟩

/-! ### the rendering and the yield of the derivation tree -/

def tk (s : String) : Tok Sym := ⟨sy s, s.toList⟩

mutual
/-- the tokens of a value (what the tokenizer delivers after dropping blanks and comments) -/
def toksV : Syn → List (Tok Sym)
  | .word s => [⟨sy "WORD", s⟩]
  | .list [] _ => [tk "[", tk "]"]
  | .list (x :: xs) fin => tk "[" :: (toksV x ++ (toksTail xs fin ++ [tk "]"]))
  | .map [] _ => [tk "{", tk "}"]
  | .map ((k, v) :: kvs) fin => tk "{" :: (⟨sy "WORD", k⟩ :: tk ":" :: toksV v) ++ (toksElems kvs fin ++ [tk "}"])
def toksTail : List Syn → Bool → List (Tok Sym)
  | [], false => []
  | [], true => [tk ","]
  | x :: xs, fin => tk "," :: (toksV x ++ toksTail xs fin)
def toksElems : List (List Char × Syn) → Bool → List (Tok Sym)
  | [], false => []
  | [], true => [tk ","]
  | (k, v) :: kvs, fin => tk "," :: ((⟨sy "WORD", k⟩ :: tk ":" :: toksV v) ++ toksElems kvs fin)
end

theorem yield_lf (s : String) : (lf s).yield = [tk s] := by simp [lf, tk, Tree.yield]

theorem yield_tail (xs : List Syn) (fin : Bool) (h : ∀ x ∈ xs, (utV x).yield = toksV x) :
    (utTail xs fin).yield = toksTail xs fin := by
  induction xs with
  | nil => cases fin <;> simp [utTail, toksTail, Tree.yield, Tree.yieldList, yield_lf]
  | cons x xs ih =>
    simp [utTail, toksTail, Tree.yield, Tree.yieldList, yield_lf, h x (by simp), ih (fun y hy => h y (by simp [hy]))]

theorem yield_elems (kvs : List (List Char × Syn)) (fin : Bool) (h : ∀ kv ∈ kvs, (utV kv.2).yield = toksV kv.2) :
    (utElems kvs fin).yield = toksElems kvs fin := by
  induction kvs with
  | nil => cases fin <;> simp [utElems, toksElems, Tree.yield, Tree.yieldList, yield_lf]
  | cons kv kvs ih =>
    obtain ⟨k, v⟩ := kv
    simp [utElems, toksElems, Tree.yield, Tree.yieldList, yield_lf, h (k, v) (by simp),
      ih (fun y hy => h y (by simp [hy]))]

theorem yield_V : ∀ s : Syn, (utV s).yield = toksV s
  | .word s => by simp [utV, toksV, Tree.yield, Tree.yieldList]
  | .list [] _ => by simp [utV, toksV, Tree.yield, Tree.yieldList, yield_lf]
  | .list (x :: xs) fin => by
    have hx := yield_V x
    have ht := yield_tail xs fin (fun y hy => yield_V y)
    simp [utV, toksV, Tree.yield, Tree.yieldList, yield_lf, hx, ht]
  | .map [] _ => by simp [utV, toksV, Tree.yield, Tree.yieldList, yield_lf]
  | .map ((k, v) :: kvs) fin => by
    have hv := yield_V v
    have he := yield_elems kvs fin (fun kv hkv => yield_V kv.2)
    simp [utV, toksV, Tree.yield, Tree.yieldList, yield_lf, hv, he]
termination_by s => sizeOf s
decreasing_by
  all_goals simp_wf
  all_goals (try (have := List.sizeOf_lt_of_mem hy; omega))
  all_goals (try (have := List.sizeOf_lt_of_mem hkv; have : sizeOf kv.2 < sizeOf kv := by cases kv; simp; omega))
  all_goals (try omega)

/-! ### every node of the tree is predicted -/

/-- tokens that may follow a value -/
def Fol (nx : Sym) : Prop := nx = sy "," ∨ nx = sy "]" ∨ nx = sy "}" ∨ nx = endSym

theorem toksV_head (s : Syn) : ∃ t r, toksV s = t :: r ∧ (t.name = sy "WORD" ∨ t.name = sy "[" ∨ t.name = sy "{") := by
  cases s with
  | word s => exact ⟨_, _, by rw [toksV], Or.inl rfl⟩
  | list xs fin =>
    cases xs with
    | nil => exact ⟨_, _, by rw [toksV], Or.inr (Or.inl rfl)⟩
    | cons x xs => exact ⟨_, _, by rw [toksV], Or.inr (Or.inl rfl)⟩
  | map kvs fin =>
    cases kvs with
    | nil => exact ⟨_, _, by rw [toksV], Or.inr (Or.inr rfl)⟩
    | cons kv kvs => obtain ⟨k, v⟩ := kv; exact ⟨_, _, by rw [toksV]; rfl, Or.inr (Or.inr rfl)⟩

theorem toksTail_look (xs : List Syn) (fin : Bool) (r : List (Tok Sym)) (nx : Sym) :
    (toksTail xs fin = [] ∧ xs = [] ∧ fin = false) ∨ look (toksTail xs fin ++ r) nx = sy "," := by
  cases xs with
  | nil => cases fin <;> simp [toksTail, look, tk]
  | cons x xs => right; simp [toksTail, look, tk]

theorem toksElems_look (kvs : List (List Char × Syn)) (fin : Bool) (r : List (Tok Sym)) (nx : Sym) :
    (toksElems kvs fin = [] ∧ kvs = [] ∧ fin = false) ∨ look (toksElems kvs fin ++ r) nx = sy "," := by
  cases kvs with
  | nil => cases fin <;> simp [toksElems, look, tk]
  | cons kv kvs => obtain ⟨k, v⟩ := kv; right; simp [toksElems, look, tk]

theorem utV_name (s : Syn) : (utV s).name = sy "VALUE" := by
  cases s with
  | word s => rw [utV]; rfl
  | list xs fin => cases xs <;> (rw [utV]; rfl)
  | map kvs fin =>
    cases kvs with
    | nil => rw [utV]; rfl
    | cons kv kvs => obtain ⟨k, v⟩ := kv; rw [utV]; rfl

theorem utTail_name (xs : List Syn) (fin : Bool) : (utTail xs fin).name = sTAIL := by
  cases xs with
  | nil => cases fin <;> (rw [utTail]; rfl)
  | cons x xs => rw [utTail]; rfl

theorem utElems_name (kvs : List (List Char × Syn)) (fin : Bool) : (utElems kvs fin).name = sELEMS := by
  cases kvs with
  | nil => cases fin <;> (rw [utElems]; rfl)
  | cons kv kvs => obtain ⟨k, v⟩ := kv; rw [utElems]; rfl

theorem pred_lf (G : Cfg Sym) (F : JFacts G) (s : String) (nx : Sym)
    (h : sy s ∈ [sy "WORD", sy ",", sy "[", sy "]", sy "{", sy "}", sy ":", endSym]) : Pred G (lf s) nx := by
  simp only [lf, Pred]
  exact F.term _ h

theorem pred_tail (G : Cfg Sym) (F : JFacts G) (xs : List Syn) (fin : Bool)
    (h : ∀ x ∈ xs, ∀ nx, Fol nx → Pred G (utV x) nx) : Pred G (utTail xs fin) (sy "]") := by
  induction xs with
  | nil =>
    cases fin with
    | false =>
      rw [utTail, Pred]
      refine ⟨F.nonterm _ (by simp), ⟨_, 0, by simpa [Tree.yieldList, look] using F.tT0, rfl, by intro i hi; omega⟩, ?_⟩
      simp [PredL]
    | true =>
      rw [utTail, Pred]
      refine ⟨F.nonterm _ (by simp), ⟨_, 1, by simpa [Tree.yieldList, yield_lf, look, tk] using F.tT1, rfl, ?_⟩, ?_⟩
      · intro i hi
        have : i = 0 := by omega
        subst this
        refine ⟨_, rfl, [sy ","], sy "VALUE", [sTAIL], sy "]", rfl, ?_, ?_, ?_, ?_⟩
        · intro s hs; simp at hs; subst hs; exact F.term _ (by simp)
        · simp [Tree.yieldList, yield_lf, names, tk]
        · simp [Tree.yieldList, yield_lf, names, tk]
        · simp [F.nonterm (sy "VALUE") (by simp), F.nV]
      · simp only [PredL, and_true]
        exact pred_lf G F "," _ (by simp)
  | cons x xs ih =>
    have hx := h x (by simp)
    have ht := ih (fun y hy => h y (by simp [hy]))
    have hyt := yield_tail xs fin (fun y _ => yield_V y)
    rw [utTail, Pred]
    refine ⟨F.nonterm _ (by simp), ⟨_, 0, by simpa [Tree.yieldList, yield_lf, look, tk] using F.tT1,
      by simp only [List.map, utV_name, utTail_name]; rfl, by intro i hi; omega⟩, ?_⟩
    simp only [PredL, and_true]
    refine ⟨pred_lf G F "," _ (by simp), ?_, ?_⟩
    · apply hx
      simp only [Tree.yieldList, hyt, List.append_nil]
      rcases toksTail_look xs fin [] (sy "]") with ⟨h0, _, _⟩ | h1
      · simp [h0, look, Fol]
      · simp at h1; simp [h1, Fol]
    · simpa [Tree.yieldList, look] using ht

def utKV (k : List Char) (v : Syn) : Tree Sym := .node sKV [.leaf (sy "WORD") k, lf ":", utV v]

theorem pred_kv (G : Cfg Sym) (F : JFacts G) (k : List Char) (v : Syn) (nx : Sym) (hnx : Fol nx)
    (hv : ∀ nx, Fol nx → Pred G (utV v) nx) : Pred G (utKV k v) nx := by
  rw [utKV, Pred]
  refine ⟨F.nonterm _ (by simp), ⟨_, 0, by simpa [Tree.yieldList, Tree.yield, look] using F.tK,
    by simp only [List.map, utV_name]; rfl, by intro i hi; omega⟩, ?_⟩
  simp only [PredL, and_true]
  refine ⟨by simp only [Pred]; exact F.term _ (by simp), pred_lf G F ":" _ (by simp), ?_⟩
  apply hv
  simpa [Tree.yieldList, look] using hnx

theorem pred_elems (G : Cfg Sym) (F : JFacts G) (kvs : List (List Char × Syn)) (fin : Bool)
    (h : ∀ kv ∈ kvs, ∀ nx, Fol nx → Pred G (utV kv.2) nx) : Pred G (utElems kvs fin) (sy "}") := by
  induction kvs with
  | nil =>
    cases fin with
    | false =>
      rw [utElems, Pred]
      refine ⟨F.nonterm _ (by simp), ⟨_, 0, by simpa [Tree.yieldList, look] using F.tS0, rfl, by intro i hi; omega⟩, ?_⟩
      simp [PredL]
    | true =>
      rw [utElems, Pred]
      refine ⟨F.nonterm _ (by simp), ⟨_, 1, by simpa [Tree.yieldList, yield_lf, look, tk] using F.tS1, rfl, ?_⟩, ?_⟩
      · intro i hi
        have : i = 0 := by omega
        subst this
        refine ⟨_, rfl, [sy ","], sKV, [sELEMS], sy "}", rfl, ?_, ?_, ?_, ?_⟩
        · intro s hs; simp at hs; subst hs; exact F.term _ (by simp)
        · simp [Tree.yieldList, yield_lf, names, tk]
        · simp [Tree.yieldList, yield_lf, names, tk]
        · simp [F.nonterm sKV (by simp), F.nK]
      · simp only [PredL, and_true]
        exact pred_lf G F "," _ (by simp)
  | cons kv kvs ih =>
    obtain ⟨k, v⟩ := kv
    have hv := h (k, v) (by simp)
    have ht := ih (fun y hy => h y (by simp [hy]))
    have hyt := yield_elems kvs fin (fun y _ => yield_V y.2)
    rw [utElems, Pred]
    refine ⟨F.nonterm _ (by simp), ⟨_, 0, by simpa [Tree.yieldList, yield_lf, look, tk] using F.tS1,
      by simp only [List.map, utElems_name]; rfl, by intro i hi; omega⟩, ?_⟩
    simp only [PredL, and_true]
    refine ⟨pred_lf G F "," _ (by simp), ?_, ?_⟩
    · apply pred_kv G F k v _ _ hv
      simp only [Tree.yieldList, hyt, List.append_nil]
      rcases toksElems_look kvs fin [] (sy "}") with ⟨h0, _, _⟩ | h1
      · simp [h0, look, Fol]
      · simp at h1; simp [h1, Fol]
    · simpa [Tree.yieldList, look] using ht

theorem pred_V (G : Cfg Sym) (F : JFacts G) : ∀ (s : Syn) (nx : Sym), Fol nx → Pred G (utV s) nx
  | .word s, nx, hnx => by
    rw [utV, Pred]
    refine ⟨F.nonterm _ (by simp), ⟨_, 0, by simpa [Tree.yieldList, Tree.yield, look] using F.tVw, rfl,
      by intro i hi; omega⟩, ?_⟩
    simp only [PredL, and_true, Pred]
    exact F.term _ (by simp)
  | .list [] fin, nx, hnx => by
    rw [utV, Pred]
    refine ⟨F.nonterm _ (by simp), ⟨_, 0, by simpa [Tree.yieldList, Tree.yield, yield_lf, look, tk] using F.tVl, rfl,
      by intro i hi; omega⟩, ?_⟩
    simp only [PredL, and_true]
    rw [Pred]
    refine ⟨F.nonterm _ (by simp), ⟨_, 0, by simpa [Tree.yieldList, yield_lf, look, tk] using F.tL, rfl,
      by intro i hi; omega⟩, ?_⟩
    simp only [PredL, and_true]
    exact ⟨pred_lf G F "[" _ (by simp), pred_lf G F "]" _ (by simp)⟩
  | .list (x :: xs) fin, nx, hnx => by
    have hx := pred_V G F x
    have ht := pred_tail G F xs fin (fun y hy => pred_V G F y)
    have hyt := yield_tail xs fin (fun y _ => yield_V y)
    obtain ⟨t0, r0, ht0, ht0n⟩ := toksV_head x
    rw [utV, Pred]
    refine ⟨F.nonterm _ (by simp), ⟨_, 0, by simpa [Tree.yieldList, Tree.yield, yield_lf, look, tk] using F.tVl, rfl,
      by intro i hi; omega⟩, ?_⟩
    simp only [PredL, and_true]
    rw [Pred]
    refine ⟨F.nonterm _ (by simp), ⟨_, 1, by simpa [Tree.yieldList, yield_lf, look, tk] using F.tL,
      by simp only [List.map, utV_name, utTail_name]; rfl, ?_⟩, ?_⟩
    · intro i hi
      have : i = 0 := by omega
      subst this
      refine ⟨_, rfl, [sy "["], sy "]", [], t0.name, rfl, ?_, ?_, ?_, ?_⟩
      · intro s hs; simp at hs; subst hs; exact F.term _ (by simp)
      · simp [Tree.yieldList, yield_lf, names, tk]
      · simp [Tree.yieldList, yield_lf, names, tk, yield_V, ht0]
      · simp only [F.term (sy "]") (by simp), if_true]
        rcases ht0n with e | e | e <;> (rw [e]; decide)
    · simp only [PredL, and_true]
      refine ⟨pred_lf G F "[" _ (by simp), ?_, ?_, pred_lf G F "]" _ (by simp)⟩
      · apply hx
        simp only [Tree.yieldList, hyt, yield_lf, List.append_nil]
        rcases toksTail_look xs fin [tk "]"] nx with ⟨h0, _, _⟩ | h1
        · simp [h0, look, Fol, tk]
        · rw [show look ([] : List (Tok Sym)) nx = nx from rfl]; simp [h1, Fol]
      · simpa [Tree.yieldList, yield_lf, look, tk] using ht
  | .map [] fin, nx, hnx => by
    rw [utV, Pred]
    refine ⟨F.nonterm _ (by simp), ⟨_, 0, by simpa [Tree.yieldList, Tree.yield, yield_lf, look, tk] using F.tVm, rfl,
      by intro i hi; omega⟩, ?_⟩
    simp only [PredL, and_true]
    rw [Pred]
    refine ⟨F.nonterm _ (by simp), ⟨_, 0, by simpa [Tree.yieldList, yield_lf, look, tk] using F.tM, rfl,
      by intro i hi; omega⟩, ?_⟩
    simp only [PredL, and_true]
    exact ⟨pred_lf G F "{" _ (by simp), pred_lf G F "}" _ (by simp)⟩
  | .map ((k, v) :: kvs) fin, nx, hnx => by
    have hv := pred_V G F v
    have ht := pred_elems G F kvs fin (fun kv hkv => pred_V G F kv.2)
    have hyt := yield_elems kvs fin (fun y _ => yield_V y.2)
    rw [utV, Pred]
    refine ⟨F.nonterm _ (by simp), ⟨_, 0, by simpa [Tree.yieldList, Tree.yield, yield_lf, look, tk] using F.tVm, rfl,
      by intro i hi; omega⟩, ?_⟩
    simp only [PredL, and_true]
    rw [Pred]
    refine ⟨F.nonterm _ (by simp), ⟨_, 1, by simpa [Tree.yieldList, yield_lf, look, tk] using F.tM,
      by simp only [List.map, utElems_name]; rfl, ?_⟩, ?_⟩
    · intro i hi
      have : i = 0 := by omega
      subst this
      refine ⟨_, rfl, [sy "{"], sy "}", [], sy "WORD", rfl, ?_, ?_, ?_, ?_⟩
      · intro s hs; simp at hs; subst hs; exact F.term _ (by simp)
      · simp [Tree.yieldList, yield_lf, names, tk]
      · simp [Tree.yieldList, Tree.yield, yield_lf, names, tk]
      · simp only [F.term (sy "}") (by simp), if_true]
        decide
    · simp only [PredL, and_true]
      refine ⟨pred_lf G F "{" _ (by simp), ?_, ?_, pred_lf G F "}" _ (by simp)⟩
      · apply pred_kv G F k v _ _ hv
        simp only [Tree.yieldList, hyt, yield_lf, List.append_nil]
        rcases toksElems_look kvs fin [tk "}"] nx with ⟨h0, _, _⟩ | h1
        · simp [h0, look, Fol, tk]
        · rw [show look ([] : List (Tok Sym)) nx = nx from rfl]; simp [h1, Fol]
      · simpa [Tree.yieldList, yield_lf, look, tk] using ht
termination_by s => sizeOf s
decreasing_by
  all_goals simp_wf
  all_goals (try (have := List.sizeOf_lt_of_mem hy; omega))
  all_goals (try (have := List.sizeOf_lt_of_mem hkv; have : sizeOf kv.2 < sizeOf kv := by cases kv; simp; omega))
  all_goals (try omega)

/-! ### line splitting of the tokenizer -/

theorem splitOn_ne_nil (sep : Char) (s : List Char) : splitOn sep s ≠ [] := by
  induction s with
  | nil => simp [splitOn]
  | cons c cs ih =>
    simp only [splitOn]
    split
    · simp
    · split <;> simp

theorem splitOn_no_sep (sep : Char) (s : List Char) (h : sep ∉ s) : splitOn sep s = [s] := by
  induction s with
  | nil => simp [splitOn]
  | cons c cs ih =>
    have hc : ¬ c = sep := fun e => h (by simp [e])
    have := ih (fun hm => h (by simp [hm]))
    simp [splitOn, hc, this]

theorem splitOn_join (sep : Char) (s : List Char) : List.intercalate [sep] (splitOn sep s) = s := by
  induction s with
  | nil => simp [splitOn, List.intercalate]
  | cons c cs ih =>
    simp only [splitOn]
    by_cases hc : c = sep
    · subst hc
      simp only [if_true]
      cases hs : splitOn c cs with
      | nil => exact absurd hs (splitOn_ne_nil c cs)
      | cons l ls =>
        rw [hs] at ih
        simp [List.intercalate] at ih ⊢
        exact ih
    · simp only [hc, if_false]
      cases hs : splitOn sep cs with
      | nil => exact absurd hs (splitOn_ne_nil sep cs)
      | cons l ls =>
        rw [hs] at ih
        simp [List.intercalate] at ih ⊢
        cases ls with
        | nil => simpa using ih
        | cons l2 ls2 => simpa using ih

theorem splitOn_mem_no_sep (sep : Char) (s : List Char) : ∀ l ∈ splitOn sep s, sep ∉ l := by
  induction s with
  | nil => simp [splitOn]
  | cons c cs ih =>
    simp only [splitOn]
    by_cases hc : c = sep
    · subst hc
      simp only [if_true]
      intro l hl
      simp at hl
      rcases hl with rfl | hl
      · simp
      · exact ih l hl
    · simp only [hc, if_false]
      cases hs : splitOn sep cs with
      | nil => exact absurd hs (splitOn_ne_nil sep cs)
      | cons l0 ls =>
        rw [hs] at ih
        intro l hl
        simp at hl
        rcases hl with rfl | hl
        · intro hm
          simp at hm
          rcases hm with e | hm
          · exact hc e.symm
          · exact ih l0 (by simp) hm
        · exact ih l (by simp [hl])

end Templates
