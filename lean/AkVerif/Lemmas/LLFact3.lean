import AkVerif.Lemmas.LLFact2
/-!
Third part of the factorisation proof — facts needed by the smart undo:
* every helper symbol gets at least two rules (`factorizeList_two`; uses maximality of the common prefix),
* the rules of one key end in pairwise different helper symbols (`factorizeList_uniq`).
-/
set_option linter.unusedSectionVars false
namespace LL
open Ak

/-- the rules have no common first symbol -/
def Reduced (rl : List (Rule Sym)) : Prop := ¬ ∃ x, ∀ r ∈ rl, ∃ t, r.rhs = x :: t

theorem sufRules_reduced (r0 : Rule Sym) (rest : List (Rule Sym)) :
    Reduced (sufRulesOf (lcpAll r0.rhs rest).length (r0 :: rest)) := by
  rintro ⟨x, hx⟩
  let pre := lcpAll r0.rhs rest
  have hpre : ∀ r ∈ r0 :: rest, pre <+: r.rhs := by
    intro r hr
    simp only [List.mem_cons] at hr
    rcases hr with hr | hr
    · subst hr; exact lcpAll_prefix_init _ _
    · exact lcpAll_prefix_mem rest r0.rhs r hr
  have hext : ∀ r ∈ r0 :: rest, (pre ++ [x]) <+: r.rhs := by
    intro r hr
    have hd : r.rhs.drop pre.length ∈ (sufRulesOf pre.length (r0 :: rest)).map (·.rhs) := by
      rw [sufRules_rhs]; exact List.mem_map.2 ⟨r, hr, rfl⟩
    obtain ⟨r', hr', hre⟩ := List.mem_map.1 hd
    obtain ⟨t, ht⟩ := hx r' hr'
    have := prefix_append_drop (hpre r hr)
    rw [← hre, ht] at this
    exact ⟨t, by rw [← this]; simp⟩
  have := prefix_lcpAll rest r0.rhs (pre ++ [x]) (hext r0 (by simp)) (fun r hr => hext r (by simp [hr]))
  have := this.length_le
  simp [pre] at this
  omega

theorem factorizeChunks_len {recur : Sym → List (Rule Sym) → Except Err (Prods Sym)} (sym : Sym) :
    ∀ (chunks : List (List (Rule Sym))) (gid : Nat) (rs : List (Rule Sym)) (sp : Prods Sym),
    factorizeChunks recur sym chunks gid = .ok (rs, sp) → rs.length = chunks.length
  | [], gid, rs, sp, h => by
    obtain ⟨e, _⟩ := factorizeChunks_nil h; subst e; rfl
  | [] :: rest, gid, rs, sp, h => by simp [factorizeChunks] at h
  | [r] :: rest, gid, rs, sp, h => by
    obtain ⟨rs', e, h'⟩ := factorizeChunks_single h
    subst e
    simp [factorizeChunks_len sym rest gid rs' sp h']
  | (r0 :: r1 :: more) :: rest, gid, rs, sp, h => by
    obtain ⟨_, extra, rs', sp', _, h2, e1, _⟩ := factorizeChunks_group h
    subst e1
    simp [factorizeChunks_len sym rest (gid + 1) rs' sp' h2]

def TwoOK (recur : Sym → List (Rule Sym) → Except Err (Prods Sym)) : Prop :=
  ∀ s rl d, recur s rl = .ok d → ∀ rs sp, d = (s, rs) :: sp →
    (2 ≤ rl.length → Reduced rl → 2 ≤ rs.length) ∧ (∀ k rs', (k, rs') ∈ sp → 2 ≤ rs'.length)

theorem factorizeChunks_two {recur : Sym → List (Rule Sym) → Except Err (Prods Sym)}
    (hshape : ShapeOK recur) (htwo : TwoOK recur) (sym : Sym) :
    ∀ (chunks : List (List (Rule Sym))) (gid : Nat) (rs : List (Rule Sym)) (sp : Prods Sym),
    factorizeChunks recur sym chunks gid = .ok (rs, sp) → ∀ k rs', (k, rs') ∈ sp → 2 ≤ rs'.length
  | [], gid, rs, sp, h => by
    obtain ⟨_, e⟩ := factorizeChunks_nil h; subst e; simp
  | [] :: rest, gid, rs, sp, h => by simp [factorizeChunks] at h
  | [r] :: rest, gid, rs, sp, h => by
    obtain ⟨rs', _, h'⟩ := factorizeChunks_single h
    exact factorizeChunks_two hshape htwo sym rest gid rs' sp h'
  | (r0 :: r1 :: more) :: rest, gid, rs, sp, h => by
    obtain ⟨_, extra, rs', sp', h1, h2, _, e2⟩ := factorizeChunks_group h
    subst e2
    obtain ⟨rsx, spx, ex, _⟩ := hshape _ _ _ h1
    obtain ⟨t1, t2⟩ := htwo _ _ _ h1 rsx spx ex
    intro k rs'' hk
    rw [ex] at hk
    simp only [List.cons_append, List.mem_cons, Prod.mk.injEq, List.mem_append] at hk
    rcases hk with ⟨_, e⟩ | hk | hk
    · subst e
      exact t1 (by simp [sufRules_length]) (sufRules_reduced r0 (r1 :: more))
    · exact t2 k rs'' hk
    · exact factorizeChunks_two hshape htwo sym rest (gid + 1) rs' sp' h2 k rs'' hk

theorem factorizeList_two : ∀ (fuel : Nat), TwoOK (factorizeList fuel)
  | 0 => by intro s rl d h; simp [factorizeList] at h
  | fuel + 1 => by
    intro s rl d h rs sp ed
    obtain ⟨rs0, sp0, h1, e⟩ := factorizeList_succ h
    rw [e] at ed
    simp only [List.cons.injEq, Prod.mk.injEq, true_and] at ed
    obtain ⟨e1, e2⟩ := ed
    subst e1; subst e2
    refine ⟨?_, factorizeChunks_two (factorizeList_shape fuel) (factorizeList_two fuel) s _ 0 rs0 sp0 h1⟩
    intro hlen hred
    rw [factorizeChunks_len s _ 0 rs0 sp0 h1]
    apply Classical.byContradiction
    intro hlt
    have hflat := splitChunks_flatten rl
    -- fewer than two chunks: exactly one, equal to `rl`
    generalize splitChunks rl = cs at h1 hflat hlt
    match cs, hflat, hlt, h1 with
    | [], hflat, _, _ => simp at hflat; subst hflat; simp at hlen
    | [c], hflat, _, h1 =>
      simp at hflat
      subst hflat
      match c, hlen, h1 with
      | [], hlen, _ => simp at hlen
      | [_], hlen, _ => simp at hlen
      | r0 :: r1 :: more, _, h1 =>
        obtain ⟨hne, _⟩ := factorizeChunks_group h1
        apply hred
        cases hp : lcpAll r0.rhs (r1 :: more) with
        | nil => exact absurd hp hne
        | cons x xs =>
          refine ⟨x, fun r hr => ?_⟩
          have hpre : lcpAll r0.rhs (r1 :: more) <+: r.rhs := by
            simp only [List.mem_cons] at hr
            rcases hr with hr | hr
            · subst hr; exact lcpAll_prefix_init _ _
            · exact lcpAll_prefix_mem (r1 :: more) r0.rhs r (by simpa using hr)
          rw [hp] at hpre
          obtain ⟨t, ht⟩ := hpre
          exact ⟨xs ++ t, by rw [← ht]; simp⟩
    | _ :: _ :: _, _, hlt, _ => simp at hlt

/-! ### the rules of one key end in pairwise different helper symbols -/

theorem suf_inj {s : Sym} {g1 g2 : Nat} (h : s.suf g1 = s.suf g2) : g1 = g2 := by
  simp [Sym.suf] at h
  exact h

theorem suf_path_ne (s : Sym) (g : Nat) : (s.suf g).path ≠ [] := by simp [Sym.suf]

/-- within each entry, two rules ending in the same helper symbol are the same rule -/
def UniqOK (d : Prods Sym) : Prop :=
  ∀ k rs', (k, rs') ∈ d → ∀ r1 ∈ rs', ∀ r2 ∈ rs', ∀ l, r1.rhs.getLast? = some l → r2.rhs.getLast? = some l →
    l.path ≠ [] → r1 = r2

theorem factorizeChunks_uniq {recur : Sym → List (Rule Sym) → Except Err (Prods Sym)}
    (hrec : ∀ s rl d, recur s rl = .ok d → (∀ x ∈ rulesSyms rl, x.path = []) → UniqOK d) (sym : Sym) :
    ∀ (chunks : List (List (Rule Sym))) (gid : Nat) (rs : List (Rule Sym)) (sp : Prods Sym),
    factorizeChunks recur sym chunks gid = .ok (rs, sp) → (∀ x ∈ rulesSyms chunks.flatten, x.path = []) →
    (∀ r ∈ rs, ∀ l, r.rhs.getLast? = some l → l.path = [] ∨ ∃ g, gid ≤ g ∧ l = sym.suf g) ∧
    (∀ r1 ∈ rs, ∀ r2 ∈ rs, ∀ l, r1.rhs.getLast? = some l → r2.rhs.getLast? = some l → l.path ≠ [] → r1 = r2) ∧
    UniqOK sp
  | [], gid, rs, sp, h, _ => by
    obtain ⟨e1, e2⟩ := factorizeChunks_nil h
    subst e1; subst e2
    exact ⟨by simp, by simp, by intro k rs' hk; simp at hk⟩
  | [] :: rest, gid, rs, sp, h, _ => by simp [factorizeChunks] at h
  | [r] :: rest, gid, rs, sp, h, hsyms => by
    obtain ⟨rs', e, h'⟩ := factorizeChunks_single h
    subst e
    have hsyms' : ∀ x ∈ rulesSyms rest.flatten, x.path = [] := by
      intro x hx
      obtain ⟨r', hr', hx'⟩ := mem_rulesSyms.1 hx
      exact hsyms x (mem_rulesSyms.2 ⟨r', by simp [hr'], hx'⟩)
    obtain ⟨i1, i2, i3⟩ := factorizeChunks_uniq hrec sym rest gid rs' sp h' hsyms'
    have hr_last : ∀ l, r.rhs.getLast? = some l → l.path = [] := fun l hl =>
      hsyms l (mem_rulesSyms.2 ⟨r, by simp, List.mem_of_getLast? hl⟩)
    refine ⟨?_, ?_, i3⟩
    · intro r' hr' l hl
      simp only [List.mem_cons] at hr'
      rcases hr' with hr' | hr'
      · subst hr'; exact Or.inl (hr_last l hl)
      · exact i1 r' hr' l hl
    · intro r1 h1 r2 h2 l hl1 hl2 hp
      simp only [List.mem_cons] at h1 h2
      rcases h1 with h1 | h1
      · subst h1; exact absurd (hr_last l hl1) hp
      · rcases h2 with h2 | h2
        · subst h2; exact absurd (hr_last l hl2) hp
        · exact i2 r1 h1 r2 h2 l hl1 hl2 hp
  | (r0 :: r1 :: more) :: rest, gid, rs, sp, h, hsyms => by
    obtain ⟨_, extra, rs', sp', h1, h2, e1, e2⟩ := factorizeChunks_group h
    subst e1; subst e2
    have hsyms' : ∀ x ∈ rulesSyms rest.flatten, x.path = [] := by
      intro x hx
      obtain ⟨r', hr', hx'⟩ := mem_rulesSyms.1 hx
      exact hsyms x (mem_rulesSyms.2 ⟨r', by simp [hr'], hx'⟩)
    have hsymsC : ∀ x ∈ rulesSyms (r0 :: r1 :: more), x.path = [] := by
      intro x hx
      obtain ⟨r', hr', hx'⟩ := mem_rulesSyms.1 hx
      exact hsyms x (mem_rulesSyms.2 ⟨r', by simp only [List.flatten_cons, List.mem_append]; exact Or.inl hr', hx'⟩)
    obtain ⟨i1, i2, i3⟩ := factorizeChunks_uniq hrec sym rest (gid + 1) rs' sp' h2 hsyms'
    have hux := hrec _ _ _ h1 (fun x hx => hsymsC x (sufRules_syms hx))
    have hgrp_last : ∀ l, (lcpAll r0.rhs (r1 :: more) ++ [sym.suf gid]).getLast? = some l → l = sym.suf gid := by
      intro l hl
      simp only [List.getLast?_append, List.getLast?_singleton, Option.some_or, Option.some.injEq] at hl
      exact hl.symm
    refine ⟨?_, ?_, ?_⟩
    · intro r hr l hl
      simp only [List.mem_cons] at hr
      rcases hr with hr | hr
      · subst hr
        exact Or.inr ⟨gid, Nat.le_refl _, hgrp_last l hl⟩
      · rcases i1 r hr l hl with h' | ⟨g, hg, h'⟩
        · exact Or.inl h'
        · exact Or.inr ⟨g, by omega, h'⟩
    · intro ra ha rb hb l hla hlb hp
      simp only [List.mem_cons] at ha hb
      have hcross : ∀ r ∈ rs', r.rhs.getLast? = some (sym.suf gid) → False := by
        intro r hr hl
        rcases i1 r hr _ hl with h' | ⟨g, hg, h'⟩
        · exact suf_path_ne _ _ h'
        · have := suf_inj h'; omega
      rcases ha with ha | ha
      · rcases hb with hb | hb
        · rw [ha, hb]
        · subst ha
          have := hgrp_last l hla
          subst this
          exact (hcross rb hb hlb).elim
      · rcases hb with hb | hb
        · subst hb
          have := hgrp_last l hlb
          subst this
          exact (hcross ra ha hla).elim
        · exact i2 ra ha rb hb l hla hlb hp
    · intro k rs'' hk
      simp only [List.mem_append] at hk
      rcases hk with hk | hk
      · exact hux k rs'' hk
      · exact i3 k rs'' hk

theorem factorizeList_uniq : ∀ (fuel : Nat) (s : Sym) (rl : List (Rule Sym)) (d : Prods Sym),
    factorizeList fuel s rl = .ok d → (∀ x ∈ rulesSyms rl, x.path = []) → UniqOK d
  | 0, s, rl, d, h, _ => by simp [factorizeList] at h
  | fuel + 1, s, rl, d, h, hsyms => by
    obtain ⟨rs, sp, h1, e⟩ := factorizeList_succ h
    subst e
    obtain ⟨_, c2, c3⟩ := factorizeChunks_uniq (factorizeList_uniq fuel) s _ 0 rs sp h1
      (by rw [splitChunks_flatten]; exact hsyms)
    intro k rs' hk
    simp only [List.mem_cons, Prod.mk.injEq] at hk
    rcases hk with ⟨e1, e2⟩ | hk
    · subst e1; subst e2; exact c2
    · exact c3 k rs' hk

end LL
