import AkVerif.Lemmas.TemplatesNesting
/-!
C05, totality: on a well-typed raw tree whose template nodes conform to the generated productions and whose squash
symbols have one child, the clean-up never raises `AssertionError` / `IndexError` / `AttributeError`; the only possible
exception is Python's `TypeError` for an unhashable dictionary key.
-/
namespace Templates
open Ak

/-- every template of the cleanuper is well-formed, registered under its result symbol, and the production table `P`
lists for its symbols exactly the productions it generates -/
structure TplOK (cl : Cleanuper) (P : Prods) : Prop where
  list : ∀ name o, lookup cl.templates name = some (.list o) →
    o.result = name ∧ o.WF ∧ lookup P o.result = some (o.listProdsRaw.map purge) ∧
      lookup P o.tailSym = some (o.tailProdsRaw.map purge)
  map : ∀ name o, lookup cl.templates name = some (.map o) →
    o.result = name ∧ o.WF ∧ lookup P o.result = some o.mapRules ∧
      lookup P o.kvPairSym = some [[o.key, o.assign, o.val]] ∧ lookup P o.kvTailSym = some o.tailRules

/-- the computation returns normally or raises `TypeError` -/
def Fine {α} (x : Except Err α) : Prop := (∃ r, x = .ok r) ∨ x = .error .typeError

theorem wellTypedAll_mem {cl : Cleanuper} {xs : List Val} (h : wellTypedAll cl xs = true) {x : Val} (hx : x ∈ xs) :
    wellTyped cl x = true := by
  induction xs with
  | nil => cases hx
  | cons y ys ih =>
    simp [wellTypedAll] at h
    cases hx with
    | head => exact h.1
    | tail _ hx => exact ih h.2 hx

theorem wellTyped_children {cl : Cleanuper} {n : Name} {l : Bool} {xs : List Val}
    (h : wellTyped cl (.elem n l (.list xs)) = true) : wellTypedAll cl xs = true := by
  cases l <;> simp [wellTyped] at h
  · exact h.1.2
  · exact h

theorem conforms_children {P : Prods} {n : Name} {l : Bool} {xs : List Val}
    (h : conforms P (.elem n l (.list xs)) = true) : conformsAll P xs = true := by
  rw [conforms] at h
  split at h
  · exact h
  · split at h
    · rename_i e1 e2; cases e2
    · rename_i e1 e2
      cases e2
      simp at h
      exact h.2
    · cases h

theorem sizeOf_child_lt {n : Name} {l : Bool} {xs : List Val} {x : Val} (hx : x ∈ xs) :
    sizeOf x < sizeOf (Val.elem n l (.list xs)) := by
  have := sizeOf_lt_of_mem hx
  simp at this ⊢
  omega

/-- facts about a sub-element that the induction needs -/
def Sub (cl : Cleanuper) (P : Prods) (t x : Val) : Prop :=
  wellTyped cl x = true ∧ conforms P x = true ∧ sizeOf x < sizeOf t ∧ ∀ y ∈ preorder x, y ∈ preorder t

theorem mem_preorderAll {x : Val} {xs : List Val} (hx : x ∈ xs) {y : Val} (hy : y ∈ preorder x) :
    y ∈ preorderAll xs := by
  induction xs with
  | nil => cases hx
  | cons z zs ih =>
    rw [preorderAll_cons]
    cases hx with
    | head => exact List.mem_append_left _ hy
    | tail _ hx => exact List.mem_append_right _ (ih hx)

theorem sub_child {cl : Cleanuper} {P : Prods} {n : Name} {l : Bool} {xs : List Val} {x : Val}
    (hw : wellTyped cl (.elem n l (.list xs)) = true) (hc : conforms P (.elem n l (.list xs)) = true) (hx : x ∈ xs) :
    Sub cl P (.elem n l (.list xs)) x :=
  ⟨wellTypedAll_mem (wellTyped_children hw) hx, conformsAll_mem (conforms_children hc) hx, sizeOf_child_lt hx,
    fun y hy => by rw [preorder_node]; exact List.mem_cons_of_mem _ (mem_preorderAll hx hy)⟩

theorem Sub.trans {cl : Cleanuper} {P : Prods} {t u x : Val} (h1 : Sub cl P t u) (h2 : Sub cl P u x) : Sub cl P t x :=
  ⟨h2.1, h2.2.1, Nat.lt_trans h2.2.2.1 h1.2.2.1, fun y hy => h1.2.2.2 y (h2.2.2.2 y hy)⟩

theorem tailShape_sub {cl : Cleanuper} {P : Prods} {o : ListOpts} {t : Val} {is : List Val} {f : Bool}
    (h : TailShape o t is f) (hw : wellTyped cl t = true) (hc : conforms P t = true) :
    ∀ i ∈ is, Sub cl P t i := by
  induction h with
  | nil => intro i hi; cases hi
  | fin d l v _ _ => intro i hi; cases hi
  | consNone il iv tl is f _ _ ih =>
    intro i hi
    cases hi with
    | head => exact sub_child hw hc (by simp)
    | tail _ hi =>
      have hs := sub_child hw hc (x := tl) (by simp)
      exact hs.trans (ih hs.1 hs.2.1 i hi)
  | consSome d dl dv il iv tl is f _ _ ih =>
    intro i hi
    cases hi with
    | head => exact sub_child hw hc (by simp)
    | tail _ hi =>
      have hs := sub_child hw hc (x := tl) (by simp)
      exact hs.trans (ih hs.1 hs.2.1 i hi)

theorem listShape_sub {cl : Cleanuper} {P : Prods} {o : ListOpts} {t : Val} {is : List Val} {f : Bool}
    (h : ListShape o t (some (is, f))) (hw : wellTyped cl t = true) (hc : conforms P t = true) :
    ∀ i ∈ is, Sub cl P t i := by
  cases h with
  | emptyNoBr _ => intro i hi; cases hi
  | emptyBr ob cb ol ov cl' cv _ _ => intro i hi; cases hi
  | noBr il iv tl is f _ ht =>
    intro i hi
    cases hi with
    | head => exact sub_child hw hc (by simp)
    | tail _ hi =>
      have hs := sub_child hw hc (x := tl) (by simp)
      exact hs.trans (tailShape_sub ht hs.1 hs.2.1 i hi)
  | br ob cb ol ov cl' cv il iv tl is f _ _ ht =>
    intro i hi
    cases hi with
    | head => exact sub_child hw hc (by simp)
    | tail _ hi =>
      have hs := sub_child hw hc (x := tl) (by simp)
      exact hs.trans (tailShape_sub ht hs.1 hs.2.1 i hi)

theorem kvShape_sub {cl : Cleanuper} {P : Prods} {o : MapOpts} {p k w : Val} (h : KvShape o p k w)
    (hw : wellTyped cl p = true) (hc : conforms P p = true) : Sub cl P p k ∧ Sub cl P p w := by
  cases h with
  | mk kl kv al av vl vv => exact ⟨sub_child hw hc (by simp), sub_child hw hc (by simp)⟩

theorem kvTailShape_sub {cl : Cleanuper} {P : Prods} {o : MapOpts} {t : Val} {ps : List (Val × Val)} {f : Bool}
    (h : KvTailShape o t ps f) (hw : wellTyped cl t = true) (hc : conforms P t = true) :
    ∀ kw ∈ ps, Sub cl P t kw.1 ∧ Sub cl P t kw.2 := by
  induction h with
  | nil => intro i hi; cases hi
  | fin l v _ => intro i hi; cases hi
  | cons dl dv p k w tl ps f hp _ ih =>
    intro kw hi
    cases hi with
    | head =>
      have hs := sub_child hw hc (x := p) (by simp)
      have := kvShape_sub hp hs.1 hs.2.1
      exact ⟨hs.trans this.1, hs.trans this.2⟩
    | tail _ hi =>
      have hs := sub_child hw hc (x := tl) (by simp)
      have := ih hs.1 hs.2.1 kw hi
      exact ⟨hs.trans this.1, hs.trans this.2⟩

theorem mapShape_sub {cl : Cleanuper} {P : Prods} {o : MapOpts} {t : Val} {ps : List (Val × Val)} {f : Bool}
    (h : MapShape o t (some (ps, f))) (hw : wellTyped cl t = true) (hc : conforms P t = true) :
    ∀ kw ∈ ps, Sub cl P t kw.1 ∧ Sub cl P t kw.2 := by
  cases h with
  | emptyNoBr _ => intro i hi; cases hi
  | emptyBr ob cb ol ov cl' cv _ _ => intro i hi; cases hi
  | noBr p k w tl ps f _ hp ht =>
    intro kw hi
    cases hi with
    | head =>
      have hs := sub_child hw hc (x := p) (by simp)
      have := kvShape_sub hp hs.1 hs.2.1
      exact ⟨hs.trans this.1, hs.trans this.2⟩
    | tail _ hi =>
      have hs := sub_child hw hc (x := tl) (by simp)
      have := kvTailShape_sub ht hs.1 hs.2.1 kw hi
      exact ⟨hs.trans this.1, hs.trans this.2⟩
  | br ob cb ol ov cl' cv p k w tl ps f _ _ hp ht =>
    intro kw hi
    cases hi with
    | head =>
      have hs := sub_child hw hc (x := p) (by simp)
      have := kvShape_sub hp hs.1 hs.2.1
      exact ⟨hs.trans this.1, hs.trans this.2⟩
    | tail _ hi =>
      have hs := sub_child hw hc (x := tl) (by simp)
      have := kvTailShape_sub ht hs.1 hs.2.1 kw hi
      exact ⟨hs.trans this.1, hs.trans this.2⟩

/-! propagation of `Fine` -/

theorem fine_cleanItem {cl : Cleanuper} {i : Val} (h : Fine (cleanup cl i true false)) : Fine (cleanItem cl i) := by
  rcases h with ⟨r, hr⟩ | hr
  · exact Or.inl ⟨r.1, by simp [cleanItem, hr]⟩
  · exact Or.inr (by simp [cleanItem, hr])

theorem fine_cleanItems {cl : Cleanuper} {is : List Val} (h : ∀ i ∈ is, Fine (cleanup cl i true false)) :
    Fine (cleanItems cl is) := by
  induction is with
  | nil => exact Or.inl ⟨[], rfl⟩
  | cons i is ih =>
    rcases fine_cleanItem (h i (by simp)) with ⟨e, he⟩ | he
    · rcases ih (fun j hj => h j (by simp [hj])) with ⟨es, hes⟩ | hes
      · exact Or.inl ⟨e :: es, by simp [cleanItems, he, hes]⟩
      · exact Or.inr (by simp [cleanItems, he, hes])
    · exact Or.inr (by simp [cleanItems, he])

theorem fine_cleanPairs {cl : Cleanuper} {ps : List (Val × Val)}
    (h : ∀ kw ∈ ps, Fine (cleanup cl kw.1 true false) ∧ Fine (cleanup cl kw.2 true false)) :
    Fine (cleanPairs cl ps) := by
  induction ps with
  | nil => exact Or.inl ⟨[], rfl⟩
  | cons kw ps ih =>
    obtain ⟨k, w⟩ := kw
    have hkw := h (k, w) (by simp)
    have hp : Fine (cleanPair cl k w) := by
      rcases fine_cleanItem hkw.1 with ⟨e, he⟩ | he
      · rcases fine_cleanItem hkw.2 with ⟨e', he'⟩ | he'
        · exact Or.inl (by simp [cleanPair, he, he'])
        · exact Or.inr (by simp [cleanPair, he, he'])
      · exact Or.inr (by simp [cleanPair, he])
    rcases hp with ⟨e, he⟩ | he
    · rcases ih (fun j hj => h j (by simp [hj])) with ⟨es, hes⟩ | hes
      · exact Or.inl ⟨e :: es, by simp [cleanPairs, he, hes]⟩
      · exact Or.inr (by simp [cleanPairs, he, hes])
    · exact Or.inr (by simp [cleanPairs, he])

theorem fine_pyDict (kvs : List (Val × Val)) : Fine (pyDict kvs) := by
  unfold pyDict
  split
  · exact Or.inl ⟨_, rfl⟩
  · exact Or.inr rfl

theorem fine_cleanupAll {cl : Cleanuper} {xs : List Val} {fch : Bool}
    (h : ∀ x ∈ xs, Fine (cleanup cl x false fch)) :
    (∃ rs, cleanupAll cl xs fch = .ok rs ∧ rs.length = xs.length) ∨ cleanupAll cl xs fch = .error .typeError := by
  induction xs with
  | nil => exact Or.inl ⟨[], by simp [cleanupAll], rfl⟩
  | cons x xs ih =>
    rcases h x (by simp) with ⟨r, hr⟩ | hr
    · rcases ih (fun j hj => h j (by simp [hj])) with ⟨rs, hrs, hl⟩ | hrs
      · exact Or.inl ⟨r :: rs, by simp [cleanupAll, hr, hrs, bind, Except.bind, pure, Except.pure], by simp [hl]⟩
      · exact Or.inr (by simp [cleanupAll, hr, hrs, bind, Except.bind])
    · exact Or.inr (by simp [cleanupAll, hr, bind, Except.bind])

theorem fine_cleanSeq {cl : Cleanuper} {xs : List Val}
    (h : ∀ x ∈ xs, Fine (cleanup cl x false false)) : Fine (cleanSeq cl xs) := by
  induction xs with
  | nil => exact Or.inl ⟨[], by simp [cleanSeq]⟩
  | cons x xs ih =>
    have ih' := ih (fun j hj => h j (by simp [hj]))
    cases x with
    | elem n l v =>
      rcases h (.elem n l v) (by simp) with ⟨r, hr⟩ | hr
      · rcases ih' with ⟨rs, hrs⟩ | hrs
        · exact Or.inl (by simp [cleanSeq, hr, hrs, bind, Except.bind, pure, Except.pure])
        · exact Or.inr (by simp [cleanSeq, hr, hrs, bind, Except.bind])
      · exact Or.inr (by simp [cleanSeq, hr, bind, Except.bind])
    | _ =>
      rcases ih' with ⟨rs, hrs⟩ | hrs
      · exact Or.inl (by simp [cleanSeq, hrs, bind, Except.bind, pure, Except.pure])
      · exact Or.inr (by simp [cleanSeq, hrs, bind, Except.bind])

theorem fine_squashStep (cl : Cleanuper) (name : Name) (fc fch : Bool) (rs : List (El × Bool))
    (h : name ∈ cl.squash → rs.length = 1) : ∃ r, squashStep cl name fc fch rs = .ok r := by
  unfold squashStep
  cases rs with
  | nil => exact ⟨_, rfl⟩
  | cons r rest =>
    by_cases hs : name ∈ cl.squash
    · have := h hs
      cases rest with
      | nil =>
        simp only [hs, if_true]
        split
        · exact ⟨_, rfl⟩
        · split <;> exact ⟨_, rfl⟩
      | cons _ _ => simp at this
    · simp only [hs, if_false]
      exact ⟨_, rfl⟩

/-- **Totality.** -/
theorem cleanup_fine (cl : Cleanuper) (P : Prods) (hT : TplOK cl P) :
    ∀ (n : Nat) (t : Val), sizeOf t < n → wellTyped cl t = true → conforms P t = true →
      ∀ fc fch, Fine (cleanup cl t fc fch) := by
  intro n
  induction n with
  | zero => intro t h; omega
  | succ n ih =>
    intro t hs hw hc fc fch
    have sub_fine : ∀ x, Sub cl P t x → ∀ fc fch, Fine (cleanup cl x fc fch) := fun x hx =>
      ih x (by have := hx.2.2.1; omega) hx.1 hx.2.1
    cases t with
    | elem name leaf v =>
      cases htp : lookup cl.templates name with
      | some tpl =>
        cases tpl with
        | list o =>
          obtain ⟨hres, wf, hPr, hPt⟩ := hT.list name o htp
          subst hres
          obtain ⟨r, hr⟩ := listShape_of_conforms' o wf P hPr hPt leaf v hc
          rw [cleanup_list cl o wf htp hr fc fch]
          cases r with
          | none => exact Or.inl ⟨_, rfl⟩
          | some p =>
            obtain ⟨items, f⟩ := p
            have hsub := listShape_sub hr hw hc
            have hfi : Fine (cleanItems cl items) := fine_cleanItems fun i hi => sub_fine i (hsub i hi) true false
            simp only [listResult]
            rcases hfi with ⟨es, hes⟩ | hes
            · exact Or.inl (by simp [hes])
            · exact Or.inr (by simp [hes])
        | map o =>
          obtain ⟨hres, wf, hPr, hPp, hPt⟩ := hT.map name o htp
          subst hres
          obtain ⟨r, hr⟩ := mapShape_of_conforms' o wf P hPr hPp hPt leaf v hc
          rw [cleanup_map cl o wf htp hr fc fch]
          cases r with
          | none => exact Or.inl ⟨_, rfl⟩
          | some p =>
            obtain ⟨pairs, f⟩ := p
            have hsub := mapShape_sub hr hw hc
            have hfp : Fine (cleanPairs cl pairs) := fine_cleanPairs fun kw hkw =>
              ⟨sub_fine kw.1 (hsub kw hkw).1 true false, sub_fine kw.2 (hsub kw hkw).2 true false⟩
            simp only [mapResult]
            rcases hfp with ⟨kvs, hk⟩ | hk
            · rcases fine_pyDict kvs with ⟨d, hd⟩ | hd
              · exact Or.inl (by simp [hk, hd])
              · exact Or.inr (by simp [hk, hd])
            · exact Or.inr (by simp [hk])
      | none =>
        cases leaf with
        | true =>
          cases v with
          | list xs =>
            have hf : Fine (cleanSeq cl xs) := fine_cleanSeq fun x hx => sub_fine x (sub_child hw hc hx) false false
            rw [cleanup]
            simp only [htp, bind, Except.bind, pure, Except.pure]
            rcases hf with ⟨rs, hrs⟩ | hrs
            · exact Or.inl (by simp [hrs])
            · exact Or.inr (by simp [hrs])
          | none => exact Or.inl (by simp [cleanup, htp])
          | str s => exact Or.inl (by simp [cleanup, htp])
          | dict _ => simp [wellTyped] at hw
          | elem _ _ _ => simp [wellTyped] at hw
        | false =>
          cases v with
          | list xs =>
            have hf := fine_cleanupAll (cl := cl) (xs := xs) (fch := decide (name ∈ cl.choice))
              fun x hx => sub_fine x (sub_child hw hc hx) false _
            rw [cleanup]
            simp only [htp, bind, Except.bind]
            rcases hf with ⟨rs, hrs, hl⟩ | hrs
            · simp only [hrs]
              have hlen : name ∈ cl.squash → rs.length = 1 := by
                intro hsq
                simp [wellTyped, hsq, htp] at hw
                omega
              obtain ⟨r, hr⟩ := fine_squashStep cl name fc fch rs hlen
              exact Or.inl ⟨r, by simpa using hr⟩
            · exact Or.inr (by simp [hrs])
          | none => simp [wellTyped] at hw
          | str _ => simp [wellTyped] at hw
          | dict _ => simp [wellTyped] at hw
          | elem _ _ _ => simp [wellTyped] at hw
    | none => simp [wellTyped] at hw
    | str _ => simp [wellTyped] at hw
    | list _ => simp [wellTyped] at hw
    | dict _ => simp [wellTyped] at hw

end Templates
