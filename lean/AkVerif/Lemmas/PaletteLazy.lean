import AkVerif.Lemmas.PaletteOps
/-!
Invariant of the palette state machine (C10) — part 4: lazy results and line iterators
(`CHTextResult`, suspended `gen_ch_lines` generators), whole histories.
-/
namespace PaletteState
open Ak Render

theorem inv_lazy_irrel {cfg : Cfg} {s : State} (h : Inv cfg s) (rs : List (ResId × Res)) (is : List (IterId × Iter)) :
    Inv cfg { s with results := rs, iters := is } :=
  ⟨h.confs, h.pals, h.live, h.cache, h.nc, h.subs, h.enums, h.cur, h.subcur, h.glob, h.gp⟩

theorem fill_frame (p : Addr) : ∀ (ts : List Tag) (s : State), Frame s (ts.foldl (fun st t => fillOne st p t) s) := by
  intro ts
  induction ts with
  | nil => intro s; exact Frame.refl s
  | cons t ts ih =>
    intro s
    obtain ⟨e1, e2, e3⟩ := fillOne_fields s p t
    have f1 : Frame s (fillOne s p t) := by
      refine ⟨fun a q h => by rw [e2]; exact h, ?_, fun k b h => by rw [e3]; exact h⟩
      intro k c h
      exact ⟨c, by rw [e1]; exact h, rfl, rfl, Nat.le_refl _, fun _ => ⟨rfl, fun _ _ hh => hh⟩⟩
    exact f1.trans (ih _)

theorem stepLine_spec {cfg : Cfg} (hcfg : cfgOk cfg = true) {alloc : Alloc} (hal : ValidAlloc alloc) {p : Addr}
    {top : ClassId} {l : LLine} {s s' : State} {out : List Chunk} (hinv : Inv cfg s)
    (h : stepLine cfg alloc p top l s = .ok (s', out)) : Inv cfg s' ∧ Frame s s' := by
  unfold stepLine at h
  simp only [bind, Except.bind] at h
  cases h1 : getSubs cfg alloc p l.reqs s with
  | error e => simp [h1] at h
  | ok s1 =>
    simp only [h1] at h
    obtain ⟨hinv1, hfr1⟩ := getSubs_spec hcfg hal p l.reqs s s1 hinv h1
    cases h2 : colorChunks s1 p top l.line.chunks with
    | error e => simp [h2] at h
    | ok cs =>
      simp only [h2] at h
      cases h
      exact ⟨(fill_inv p _ s1 hinv1).1, hfr1.trans (fill_frame p _ s1)⟩

theorem stepLines_spec {cfg : Cfg} (hcfg : cfgOk cfg = true) {alloc : Alloc} (hal : ValidAlloc alloc) (p : Addr)
    (top : ClassId) : ∀ (ls : List LLine) (s s' : State) (outs : List (List Chunk)), Inv cfg s →
      stepLines cfg alloc p top ls s = .ok (s', outs) → Inv cfg s' ∧ Frame s s' := by
  intro ls
  induction ls with
  | nil => intro s s' outs hinv h; simp [stepLines] at h; obtain ⟨rfl, _⟩ := h; exact ⟨hinv, Frame.refl _⟩
  | cons l rest ih =>
    intro s s' outs hinv h
    simp only [stepLines, bind, Except.bind] at h
    cases h1 : stepLine cfg alloc p top l s with
    | error e => simp [h1] at h
    | ok r1 =>
      obtain ⟨s1, out⟩ := r1
      simp only [h1] at h
      obtain ⟨hinv1, hfr1⟩ := stepLine_spec hcfg hal hinv h1
      cases h2 : stepLines cfg alloc p top rest s1 with
      | error e => simp [h2] at h
      | ok r2 =>
        obtain ⟨s2, outs2⟩ := r2
        simp only [h2] at h
        cases h
        obtain ⟨hinv2, hfr2⟩ := ih s1 _ _ hinv1 h2
        exact ⟨hinv2, hfr1.trans hfr2⟩

theorem mkRes_inv {cfg : Cfg} (hcfg : cfgOk cfg = true) {alloc : Alloc} (hal : ValidAlloc alloc) {r : ResId}
    {k : ConfId} {nc : Bool} {top : ClassId} {lines : List LLine} {s s' : State} (hinv : Inv cfg s)
    (h : mkRes cfg alloc r k nc top lines s = .ok s') : Inv cfg s' := by
  unfold mkRes at h
  simp only [bind, Except.bind] at h
  cases h1 : mkPalette cfg alloc top k nc s with
  | error e => simp [h1] at h
  | ok r1 =>
    obtain ⟨s1, p⟩ := r1
    simp only [h1] at h
    cases h
    exact inv_lazy_irrel (mkPalette_spec hcfg hal hinv h1).1 _ _

theorem strRes_inv {cfg : Cfg} (hcfg : cfgOk cfg = true) {alloc : Alloc} (hal : ValidAlloc alloc) {r : ResId}
    {s s' : State} {w : List Chunk} (hinv : Inv cfg s) (h : strRes cfg alloc r s = .ok (s', w)) : Inv cfg s' := by
  unfold strRes at h
  split at h
  · cases h
  · rename_i res _
    split at h
    · cases h; exact hinv
    · simp only [bind, Except.bind] at h
      cases h1 : stepLines cfg alloc res.p res.top res.lines s with
      | error e => simp [h1] at h
      | ok r1 =>
        obtain ⟨s1, ls⟩ := r1
        simp only [h1] at h
        cases h
        exact inv_lazy_irrel (stepLines_spec hcfg hal _ _ _ s _ _ hinv h1).1 _ _

theorem mkIter_inv {cfg : Cfg} {i : IterId} {r : ResId} {s s' : State} (hinv : Inv cfg s)
    (h : mkIter i r s = .ok s') : Inv cfg s' := by
  unfold mkIter at h
  split at h
  · cases h
  · cases h; exact inv_lazy_irrel hinv _ _

theorem nextIter_inv {cfg : Cfg} (hcfg : cfgOk cfg = true) {alloc : Alloc} (hal : ValidAlloc alloc) {i : IterId}
    {n : Nat} {s s' : State} {outs : List (List Chunk)} (hinv : Inv cfg s)
    (h : nextIter cfg alloc i n s = .ok (s', outs)) : Inv cfg s' := by
  unfold nextIter at h
  split at h
  · cases h
  · rename_i it _
    simp only [bind, Except.bind] at h
    cases h1 : stepLines cfg alloc it.p it.top (it.rest.take n) s with
    | error e => simp [h1] at h
    | ok r1 =>
      obtain ⟨s1, ls⟩ := r1
      simp only [h1] at h
      cases h
      exact inv_lazy_irrel (stepLines_spec hcfg hal _ _ _ s _ _ hinv h1).1 _ _

/-! ### histories -/

theorem step_inv {cfg : Cfg} (hcfg : cfgOk cfg = true) (hko : cfg.keyByObj = true) {alloc : Alloc}
    (hal : ValidAlloc alloc) {s : State} (hinv : Inv cfg s) (op : Op) : Inv cfg (step cfg alloc s op) := by
  cases op with
  | newConf k nc items =>
    simp only [step]
    split
    · rename_i s' h; exact newConf_inv hcfg hinv h
    · exact hinv
  | dropConf k => exact dropConf_inv hinv k
  | gc kp kc => exact gc_inv hinv kp kc
  | setGlobal k =>
    simp only [step]
    split
    · rename_i s' h; exact setGlobal_inv hinv h
    · exact hinv
  | newEnum e =>
    simp only [step]
    split
    · rename_i s' h; exact newEnum_inv hinv h
    · exact hinv
  | dropEnum e => exact dropEnum_inv hinv e
  | render k nc sh =>
    simp only [step]
    split
    · rename_i s' out h; exact (render_spec hcfg hko hal hinv h).1
    · exact hinv
  | mkRes r k nc top lines =>
    simp only [step]
    split
    · rename_i s' h; exact mkRes_inv hcfg hal hinv h
    · exact hinv
  | strRes r =>
    simp only [step]
    split
    · rename_i s' w h; exact strRes_inv hcfg hal hinv h
    · exact hinv
  | mkIter i r =>
    simp only [step]
    split
    · rename_i s' h; exact mkIter_inv hinv h
    · exact hinv
  | nextIter i n =>
    simp only [step]
    split
    · rename_i s' outs h; exact nextIter_inv hcfg hal hinv h
    · exact hinv

theorem run_inv {cfg : Cfg} (hcfg : cfgOk cfg = true) (hko : cfg.keyByObj = true) {alloc : Alloc}
    (hal : ValidAlloc alloc) : ∀ (ops : List Op) (s : State), Inv cfg s → Inv cfg (run cfg alloc s ops) := by
  intro ops
  induction ops with
  | nil => intro s h; exact h
  | cons op ops ih => intro s h; exact ih _ (step_inv hcfg hko hal h op)

end PaletteState
