import AkVerif.Lemmas.PaletteOps
/-!
Invariant of the palette state machine (C10) — part 4: lazy results and line iterators
(`CHTextResult`, suspended `gen_ch_lines` generators), whole histories.
-/
namespace PaletteState
open Ak Render

theorem inv_lazy_irrel {cfg : Cfg} {s : State} (h : Inv cfg s) (rs : List (ResId × Res)) (is : List (IterId × Iter)) :
    Inv cfg { s with results := rs, iters := is } :=
  ⟨h.confs, h.pals, h.live, h.cache, h.nc, h.subs, h.enums, h.cur, h.subcur, h.glob, h.gp⟩

theorem inv_synced_irrel {cfg : Cfg} {s : State} (h : Inv cfg s) (sy : List (ClassId × List Color)) :
    Inv cfg { s with synced := sy } :=
  ⟨h.confs, h.pals, h.live, h.cache, h.nc, h.subs, h.enums, h.cur, h.subcur, h.glob, h.gp⟩

theorem setConf_keeps (cfg : Cfg) (s : State) (k : ConfId) (old new : Conf) :
    (setConf cfg s k old new).heap = s.heap ∧ (setConf cfg s k old new).results = s.results ∧
    (setConf cfg s k old new).iters = s.iters := by
  unfold setConf syncGp putConf
  simp only []
  split
  · split <;> simp
  · simp

theorem regSynced_keeps (cfg : Cfg) (k : ConfId) : ∀ (cs : List ClassId) (s : State),
    (regSynced cfg k cs s).heap = s.heap ∧ (regSynced cfg k cs s).results = s.results ∧
    (regSynced cfg k cs s).iters = s.iters := by
  intro cs
  induction cs with
  | nil => intro s; exact ⟨rfl, rfl, rfl⟩
  | cons cls rest ih =>
    intro s
    simp only [regSynced]
    split
    · exact ⟨rfl, rfl, rfl⟩
    · rename_i c _
      split
      · rename_i c' _
        obtain ⟨a1, a2, a3⟩ := ih (setConf cfg s k c c')
        obtain ⟨b1, b2, b3⟩ := setConf_keeps cfg s k c c'
        exact ⟨a1.trans b1, a2.trans b2, a3.trans b3⟩
      · exact ih s

theorem mkSynced_inv {cfg : Cfg} (hcfg : cfgOk cfg = true) {cls : ClassId} {s s' : State} (hinv : Inv cfg s)
    (h : mkSynced cfg cls s = .ok s') :
    Inv cfg s' ∧ s'.heap = s.heap ∧ s'.results = s.results ∧ s'.iters = s.iters := by
  unfold mkSynced at h
  simp only [bind, Except.bind, getClass, getConf] at h
  cases hci : cfg.classes[cls]? with
  | none => simp [hci] at h
  | some ci =>
  simp only [hci] at h
  split at h
  · cases h
  · split at h
    · cases h; exact ⟨hinv, rfl, rfl, rfl⟩
    · cases hk : s.confs.lookup s.global with
      | none => simp [hk] at h
      | some c =>
        simp only [hk] at h
        cases hr : registerCls cfg cls c with
        | error e => simp [hr] at h
        | ok c' =>
          simp only [hr] at h
          cases h
          obtain ⟨hc', hstep⟩ := registerCls_ok hcfg (hinv.confs _ c hk) hr
          have h1 := inv_setConf hcfg hinv hk hc' hstep
          obtain ⟨b1, b2, b3⟩ := setConf_keeps cfg s s.global c c'
          exact ⟨inv_synced_irrel h1 _, b1, b2, b3⟩

theorem frame_lazy (s : State) (rs : List (ResId × Res)) (is : List (IterId × Iter)) :
    Frame s { s with results := rs, iters := is } :=
  ⟨fun _ _ h => h, fun _ c h => ⟨c, h, rfl, rfl, Nat.le_refl _, fun _ => ⟨rfl, fun _ _ hh => hh⟩⟩,
   fun _ _ h => h, fun _ ec h => ⟨ec, h⟩⟩

theorem fillOne_enumKeys (s : State) (p : Addr) (t : Tag) :
    ∀ e ec, s.enums.lookup e = some ec → ∃ ec', (fillOne s p t).enums.lookup e = some ec' := by
  intro e ec h
  unfold fillOne
  split
  · rename_i e0 v c i
    split
    · rename_i a ec0 _ hen
      split
      · simp only []
        by_cases he : e = e0
        · subst he; exact ⟨_, lookup_cons_eq _ _ _⟩
        · rw [lookup_cons_ne _ _ he, lookup_filter_key (fun x => x ≠ e0)]
          simp only [ne_eq, he, not_false_eq_true, decide_true, if_true]
          exact ⟨ec, h⟩
      · exact ⟨ec, h⟩
    · exact ⟨ec, h⟩
  · exact ⟨ec, h⟩

theorem fill_frame (p : Addr) : ∀ (ts : List Tag) (s : State), Frame s (ts.foldl (fun st t => fillOne st p t) s) := by
  intro ts
  induction ts with
  | nil => intro s; exact Frame.refl s
  | cons t ts ih =>
    intro s
    obtain ⟨e1, e2, e3⟩ := fillOne_fields s p t
    have f1 : Frame s (fillOne s p t) := by
      refine ⟨fun a q h => by rw [e2]; exact h, ?_, fun k b h => by rw [e3]; exact h, fillOne_enumKeys s p t⟩
      intro k c h
      exact ⟨c, by rw [e1]; exact h, rfl, rfl, Nat.le_refl _, fun _ => ⟨rfl, fun _ _ hh => hh⟩⟩
    exact f1.trans (ih _)

theorem stepLine_spec {cfg : Cfg} (hcfg : cfgOk cfg = true) {alloc : Alloc} (hal : ValidAlloc alloc) {p : Addr}
    {top : ClassId} {l : LLine} {s s' : State} {out : List Chunk} (hinv : Inv cfg s)
    (h : stepLine cfg alloc p top l s = .ok (s', out)) : Inv cfg s' ∧ Frame s s' := by
  unfold stepLine at h
  simp only [bind, Except.bind] at h
  cases h1 : getSubs cfg alloc p l.reqs s with
  | error e => simp [h1] at h
  | ok s1 =>
    simp only [h1] at h
    obtain ⟨hinv1, hfr1⟩ := getSubs_spec hcfg hal p l.reqs s s1 hinv h1
    cases h2 : colorChunks s1 p top l.line.chunks with
    | error e => simp [h2] at h
    | ok cs =>
      simp only [h2] at h
      cases h
      exact ⟨(fill_inv p _ s1 hinv1).1, hfr1.trans (fill_frame p _ s1)⟩

theorem stepLines_spec {cfg : Cfg} (hcfg : cfgOk cfg = true) {alloc : Alloc} (hal : ValidAlloc alloc) (p : Addr)
    (top : ClassId) : ∀ (ls : List LLine) (s s' : State) (outs : List (List Chunk)), Inv cfg s →
      stepLines cfg alloc p top ls s = .ok (s', outs) → Inv cfg s' ∧ Frame s s' := by
  intro ls
  induction ls with
  | nil => intro s s' outs hinv h; simp [stepLines] at h; obtain ⟨rfl, _⟩ := h; exact ⟨hinv, Frame.refl _⟩
  | cons l rest ih =>
    intro s s' outs hinv h
    simp only [stepLines, bind, Except.bind] at h
    cases h1 : stepLine cfg alloc p top l s with
    | error e => simp [h1] at h
    | ok r1 =>
      obtain ⟨s1, out⟩ := r1
      simp only [h1] at h
      obtain ⟨hinv1, hfr1⟩ := stepLine_spec hcfg hal hinv h1
      cases h2 : stepLines cfg alloc p top rest s1 with
      | error e => simp [h2] at h
      | ok r2 =>
        obtain ⟨s2, outs2⟩ := r2
        simp only [h2] at h
        cases h
        obtain ⟨hinv2, hfr2⟩ := ih s1 _ _ hinv1 h2
        exact ⟨hinv2, hfr1.trans hfr2⟩

theorem mkRes_inv {cfg : Cfg} (hcfg : cfgOk cfg = true) {alloc : Alloc} (hal : ValidAlloc alloc) {r : ResId}
    {k : ConfId} {nc : Bool} {top : ClassId} {lines : List LLine} {s s' : State} (hinv : Inv cfg s)
    (h : mkRes cfg alloc r k nc top lines s = .ok s') : Inv cfg s' := by
  unfold mkRes at h
  simp only [bind, Except.bind] at h
  cases h1 : mkPalette cfg alloc top k nc s with
  | error e => simp [h1] at h
  | ok r1 =>
    obtain ⟨s1, p⟩ := r1
    simp only [h1] at h
    cases h
    exact inv_lazy_irrel (mkPalette_spec hcfg hal hinv h1).1 _ _

theorem strRes_inv {cfg : Cfg} (hcfg : cfgOk cfg = true) {alloc : Alloc} (hal : ValidAlloc alloc) {r : ResId}
    {s s' : State} {w : List Chunk} (hinv : Inv cfg s) (h : strRes cfg alloc r s = .ok (s', w)) : Inv cfg s' := by
  unfold strRes at h
  split at h
  · cases h
  · rename_i res _
    split at h
    · cases h; exact hinv
    · simp only [bind, Except.bind] at h
      cases h1 : stepLines cfg alloc res.p res.top res.lines s with
      | error e => simp [h1] at h
      | ok r1 =>
        obtain ⟨s1, ls⟩ := r1
        simp only [h1] at h
        cases h
        exact inv_lazy_irrel (stepLines_spec hcfg hal _ _ _ s _ _ hinv h1).1 _ _

theorem mkIter_inv {cfg : Cfg} {i : IterId} {r : ResId} {s s' : State} (hinv : Inv cfg s)
    (h : mkIter i r s = .ok s') : Inv cfg s' := by
  unfold mkIter at h
  split at h
  · cases h
  · cases h; exact inv_lazy_irrel hinv _ _

theorem nextIter_inv {cfg : Cfg} (hcfg : cfgOk cfg = true) {alloc : Alloc} (hal : ValidAlloc alloc) {i : IterId}
    {n : Nat} {s s' : State} {outs : List (List Chunk)} (hinv : Inv cfg s)
    (h : nextIter cfg alloc i n s = .ok (s', outs)) : Inv cfg s' := by
  unfold nextIter at h
  split at h
  · cases h
  · rename_i it _
    simp only [bind, Except.bind] at h
    cases h1 : stepLines cfg alloc it.p it.top (it.rest.take n) s with
    | error e => simp [h1] at h
    | ok r1 =>
      obtain ⟨s1, ls⟩ := r1
      simp only [h1] at h
      cases h
      exact inv_lazy_irrel (stepLines_spec hcfg hal _ _ _ s _ _ hinv h1).1 _ _

/-! ### a colour read now is read again later -/

theorem subAddr_mono {s1 s2 : State} (hfr : Frame s1 s2) {p : Addr} {c : ClassId} {a : Addr}
    (h : subAddr s1 p c = .ok a) : subAddr s2 p c = .ok a := by
  unfold subAddr at h ⊢
  split at h
  · rename_i b hb; cases h; rw [hfr.subs _ _ hb]
  · cases h

theorem getPal_mono {s1 s2 : State} (hfr : Frame s1 s2) {a : Addr} {pa : Pal}
    (h : getPal s1 a = .ok pa) : getPal s2 a = .ok pa := by
  unfold getPal at h ⊢
  split at h
  · rename_i q hq; cases h; rw [hfr.heap _ _ hq]
  · cases h

theorem getPal_some {s : State} {a : Addr} {pa : Pal} (h : getPal s a = .ok pa) : s.heap.lookup a = some pa := by
  unfold getPal at h
  split at h
  · rename_i q hq; cases h; exact hq
  · cases h

/-- the colour of a tag does not change while the state only grows (palettes are never overwritten, a memoised
sub-palette stays, a cached cell holds the colours of its key palette) -/
theorem tagColor_mono {cfg : Cfg} (hko : cfg.keyByObj = true) {s1 s2 : State} (hi1 : Inv cfg s1) (hi2 : Inv cfg s2)
    (hfr : Frame s1 s2) (p : Addr) (top : ClassId) (t : Tag) {col : Color}
    (h : tagColor s1 p top t = .ok col) : tagColor s2 p top t = .ok col := by
  cases t with
  | plain => simpa [tagColor] using h
  | pal c i =>
    simp only [tagColor, bind, Except.bind] at h ⊢
    by_cases hcp : c = top
    · simp only [hcp, if_true] at h ⊢
      cases hg : getPal s1 p with
      | error e => simp [hg] at h
      | ok pa => simp only [hg] at h; rw [getPal_mono hfr hg]; exact h
    · simp only [hcp, if_false] at h ⊢
      cases ha : subAddr s1 p c with
      | error e => simp [ha] at h
      | ok a =>
        simp only [ha] at h
        rw [subAddr_mono hfr ha]
        simp only []
        cases hg : getPal s1 a with
        | error e => simp [hg] at h
        | ok pa => simp only [hg] at h; rw [getPal_mono hfr hg]; exact h
  | enum e v c i =>
    simp only [tagColor, bind, Except.bind] at h ⊢
    cases ha : subAddr s1 p c with
    | error er => simp [ha] at h
    | ok a =>
      simp only [ha] at h
      rw [subAddr_mono hfr ha]
      simp only []
      -- in both states the result is `nth q.colors i` for the palette `q` at address `a`
      have key1 : ∃ q, s1.heap.lookup a = some q ∧ nth q.colors i = .ok col := by
        split at h
        · cases h
        · rename_i ec hen
          split at h
          · rename_i cols hhit
            obtain ⟨q, hq, hc⟩ := hi1.enums hko e ec a v cols hen hhit
            exact ⟨q, hq, by rw [← hc]; exact h⟩
          · cases hg : getPal s1 a with
            | error er => simp [hg] at h
            | ok pa => simp only [hg] at h; exact ⟨pa, getPal_some hg, h⟩
      obtain ⟨q, hq, hn⟩ := key1
      have hq2 := hfr.heap a q hq
      have hen2 : ∃ ec2, s2.enums.lookup e = some ec2 := by
        cases hen : s1.enums.lookup e with
        | none => simp [hen] at h
        | some ec => exact hfr.enumKeys e ec hen
      obtain ⟨ec2, hen2⟩ := hen2
      rw [hen2]
      simp only []
      cases hhit : ec2.lookup (a, v) with
      | some cols2 =>
        simp only []
        obtain ⟨q', hq', hc'⟩ := hi2.enums hko e ec2 a v cols2 hen2 hhit
        rw [hq2] at hq'; cases hq'
        rw [hc']; exact hn
      | none =>
        simp only [getPal, hq2]
        exact hn

theorem colorChunks_mono {cfg : Cfg} (hko : cfg.keyByObj = true) {s1 s2 : State} (hi1 : Inv cfg s1) (hi2 : Inv cfg s2)
    (hfr : Frame s1 s2) (p : Addr) (top : ClassId) :
    ∀ (chs : List SChunk) (cs : List Chunk), colorChunks s1 p top chs = .ok cs → colorChunks s2 p top chs = .ok cs := by
  intro chs
  induction chs with
  | nil => intro cs h; simpa [colorChunks] using h
  | cons ch rest ih =>
    intro cs h
    simp only [colorChunks, bind, Except.bind] at h ⊢
    cases h1 : tagColor s1 p top ch.tag with
    | error e => simp [h1] at h
    | ok col =>
      simp only [h1] at h
      rw [tagColor_mono hko hi1 hi2 hfr p top ch.tag h1]
      simp only []
      cases h2 : colorChunks s1 p top rest with
      | error e => simp [h2] at h
      | ok cs' =>
        simp only [h2] at h
        rw [ih cs' h2]
        exact h

/-- the lines an iterator generates, judged in any later state `F` -/
theorem stepLines_pure {cfg : Cfg} (hcfg : cfgOk cfg = true) (hko : cfg.keyByObj = true) {alloc : Alloc}
    (hal : ValidAlloc alloc) (p : Addr) (top : ClassId) (f : Tag → Color) {F : State} (hiF : Inv cfg F) :
    ∀ (ls : List LLine) (s s' : State) (outs : List (List Chunk)), Inv cfg s →
      stepLines cfg alloc p top ls s = .ok (s', outs) → Frame s' F →
      (∀ l ∈ ls, ∀ ch ∈ l.line.chunks, ∀ col, tagColor F p top ch.tag = .ok col → col = f ch.tag) →
      outs = ls.map fun l => paintLine f l.line := by
  intro ls
  induction ls with
  | nil => intro s s' outs _ h _ _; simp [stepLines] at h; rw [h.2]; rfl
  | cons l rest ih =>
    intro s s' outs hinv h hfrF hcol
    simp only [stepLines, bind, Except.bind] at h
    cases h1 : stepLine cfg alloc p top l s with
    | error e => simp [h1] at h
    | ok r1 =>
      obtain ⟨s1, out⟩ := r1
      simp only [h1] at h
      obtain ⟨hinv1, _⟩ := stepLine_spec hcfg hal hinv h1
      cases h2 : stepLines cfg alloc p top rest s1 with
      | error e => simp [h2] at h
      | ok r2 =>
        obtain ⟨s2, outs2⟩ := r2
        simp only [h2] at h
        cases h
        obtain ⟨_, hfr12⟩ := stepLines_spec hcfg hal p top rest s1 _ _ hinv1 h2
        have e2 := ih s1 _ _ hinv1 h2 hfrF (fun x hx => hcol x (by simp [hx]))
        -- the line itself
        unfold stepLine at h1
        simp only [bind, Except.bind] at h1
        cases g1 : getSubs cfg alloc p l.reqs s with
        | error e => simp [g1] at h1
        | ok sa =>
          simp only [g1] at h1
          obtain ⟨hinva, _⟩ := getSubs_spec hcfg hal p l.reqs s sa hinv g1
          cases g2 : colorChunks sa p top l.line.chunks with
          | error e => simp [g2] at h1
          | ok cs =>
            simp only [g2] at h1
            cases h1
            have hfrA : Frame sa F := ((fill_frame p _ sa).trans hfr12).trans hfrF
            have g2F := colorChunks_mono hko hinva hiF hfrA p top l.line.chunks cs g2
            have ecs := colorChunks_eq F p top f l.line.chunks cs (hcol l (by simp)) g2F
            simp only [List.map_cons, e2, paintLine]
            subst ecs
            cases l.line.kind <;> rfl

/-- generating the same lines a second time, in any later state, gives the same lines: every colour read the first
time is read again (no hypothesis on the configuration) -/
theorem stepLines_again {cfg : Cfg} (hcfg : cfgOk cfg = true) (hko : cfg.keyByObj = true) {alloc alloc' : Alloc}
    (hal : ValidAlloc alloc) (hal' : ValidAlloc alloc') (p : Addr) (top : ClassId) :
    ∀ (ls : List LLine) (s s1 t t1 : State) (outs1 outs2 : List (List Chunk)), Inv cfg s → Inv cfg t →
      stepLines cfg alloc p top ls s = .ok (s1, outs1) → Frame s1 t →
      stepLines cfg alloc' p top ls t = .ok (t1, outs2) → outs2 = outs1 := by
  intro ls
  induction ls with
  | nil =>
    intro s s1 t t1 outs1 outs2 _ _ h1 _ h2
    simp [stepLines] at h1 h2
    rw [h1.2, h2.2]
  | cons l rest ih =>
    intro s s1 t t1 outs1 outs2 his hit h1 hfr h2
    simp only [stepLines, bind, Except.bind] at h1 h2
    cases a1 : stepLine cfg alloc p top l s with
    | error e => simp [a1] at h1
    | ok r1 =>
      obtain ⟨s', out⟩ := r1
      simp only [a1] at h1
      cases b1 : stepLines cfg alloc p top rest s' with
      | error e => simp [b1] at h1
      | ok r1' =>
        obtain ⟨s1', outs⟩ := r1'
        simp only [b1] at h1
        cases h1
        cases a2 : stepLine cfg alloc' p top l t with
        | error e => simp [a2] at h2
        | ok r2 =>
          obtain ⟨t', out2⟩ := r2
          simp only [a2] at h2
          cases b2 : stepLines cfg alloc' p top rest t' with
          | error e => simp [b2] at h2
          | ok r2' =>
            obtain ⟨t1', outs'⟩ := r2'
            simp only [b2] at h2
            cases h2
            obtain ⟨his', _⟩ := stepLine_spec hcfg hal his a1
            obtain ⟨hit', hfrt⟩ := stepLine_spec hcfg hal' hit a2
            obtain ⟨_, hfr_rest⟩ := stepLines_spec hcfg hal p top rest s' _ _ his' b1
            have etail := ih s' _ t' _ _ _ his' hit' b1 (hfr.trans hfrt) b2
            -- the line itself
            unfold stepLine at a1 a2
            simp only [bind, Except.bind] at a1 a2
            cases g1 : getSubs cfg alloc p l.reqs s with
            | error e => simp [g1] at a1
            | ok sa =>
              simp only [g1] at a1
              obtain ⟨hia, _⟩ := getSubs_spec hcfg hal p l.reqs s sa his g1
              cases c1 : colorChunks sa p top l.line.chunks with
              | error e => simp [c1] at a1
              | ok cs =>
                simp only [c1] at a1
                cases a1
                cases g2 : getSubs cfg alloc' p l.reqs t with
                | error e => simp [g2] at a2
                | ok ta =>
                  simp only [g2] at a2
                  obtain ⟨hita, hfrta⟩ := getSubs_spec hcfg hal' p l.reqs t ta hit g2
                  cases c2 : colorChunks ta p top l.line.chunks with
                  | error e => simp [c2] at a2
                  | ok cs2 =>
                    simp only [c2] at a2
                    cases a2
                    have hfa : Frame sa ta := (((fill_frame p _ sa).trans hfr_rest).trans hfr).trans hfrta
                    have := colorChunks_mono hko hia hita hfa p top l.line.chunks cs c1
                    rw [this] at c2
                    cases c2
                    rw [etail]

/-! ### what a lazy result holds stays alive -/

/-- the palette object a result / an iterator was given: still there, of the class and kind asked for -/
def HolderOk (s : State) (p : Addr) (conf : ConfId) (top : ClassId) (nc : Bool) : Prop :=
  ∃ pp, s.heap.lookup p = some pp ∧ pp.cls = top ∧ pp.noColor = nc ∧ (nc = false → pp.conf = conf)

structure ResOk (s : State) : Prop where
  res : ∀ r x, s.results.lookup r = some x → HolderOk s x.p x.conf x.top x.nc
  its : ∀ i x, s.iters.lookup i = some x → HolderOk s x.p x.conf x.top x.nc

theorem holder_mono {s s' : State} (h : ∀ a q, s.heap.lookup a = some q → s'.heap.lookup a = some q)
    {p : Addr} {conf : ConfId} {top : ClassId} {nc : Bool} (ho : HolderOk s p conf top nc) : HolderOk s' p conf top nc := by
  obtain ⟨pp, h1, h2⟩ := ho
  exact ⟨pp, h _ _ h1, h2⟩

theorem resOk_same {s s' : State} (ho : ResOk s) (h : ∀ a q, s.heap.lookup a = some q → s'.heap.lookup a = some q)
    (hr : s'.results = s.results) (hi : s'.iters = s.iters) : ResOk s' :=
  ⟨fun r x hx => holder_mono h (ho.res r x (by rw [← hr]; exact hx)),
   fun i x hx => holder_mono h (ho.its i x (by rw [← hi]; exact hx))⟩

theorem render_frame {cfg : Cfg} (hcfg : cfgOk cfg = true) {alloc : Alloc} (hal : ValidAlloc alloc) {k : ConfId}
    {nc : Bool} {sh : Shape} {s s' : State} {out : List (List Chunk)} (hinv : Inv cfg s)
    (h : render cfg alloc k nc sh s = .ok (s', out)) : Frame s s' := by
  unfold render at h
  simp only [bind, Except.bind] at h
  cases h1 : mkPalette cfg alloc sh.top k nc s with
  | error e => simp [h1] at h
  | ok r =>
    obtain ⟨s1, p⟩ := r
    simp only [h1] at h
    obtain ⟨hinv1, hfr1, _, _⟩ := mkPalette_spec hcfg hal hinv h1
    cases h2 : getSubs cfg alloc p sh.subs s1 with
    | error e => simp [h2] at h
    | ok s2 =>
      simp only [h2] at h
      obtain ⟨_, hfr2⟩ := getSubs_spec hcfg hal p sh.subs s1 s2 hinv1 h2
      cases h3 : colorLines s2 p sh.top sh.lines with
      | error e => simp [h3] at h
      | ok lines =>
        simp only [h3] at h
        cases h
        exact (hfr1.trans hfr2).trans (fill_frame p _ s2)

theorem lazy_fields_of_frame_ops (cfg : Cfg) (s : State) :
    (∀ k old new, (setConf cfg s k old new).results = s.results ∧ (setConf cfg s k old new).iters = s.iters) ∧
    (∀ a p, (allocPal s a p).results = s.results ∧ (allocPal s a p).iters = s.iters) ∧
    (∀ k cls a, (cachePal s k cls a).results = s.results ∧ (cachePal s k cls a).iters = s.iters) ∧
    (∀ cls a, (cacheNc s cls a).results = s.results ∧ (cacheNc s cls a).iters = s.iters) ∧
    (∀ p c b, (memoSub s p c b).results = s.results ∧ (memoSub s p c b).iters = s.iters) ∧
    (∀ p t, (fillOne s p t).results = s.results ∧ (fillOne s p t).iters = s.iters) := by
  refine ⟨?_, ?_, ?_, ?_, ?_, ?_⟩
  · intro k old new
    unfold setConf syncGp putConf
    simp only []
    split
    · split <;> simp
    · simp
  · intro a p; simp [allocPal]
  · intro k cls a
    unfold cachePal putConf
    split <;> simp
  · intro cls a; simp [cacheNc]
  · intro p c b; simp [memoSub]
  · intro p t
    unfold fillOne
    split
    · split
      · split <;> simp
      · simp
    · simp

theorem mkPalette_lazy {cfg : Cfg} {alloc : Alloc} {cls : ClassId} {k : ConfId} {nc : Bool} {s s' : State} {a : Addr}
    (h : mkPalette cfg alloc cls k nc s = .ok (s', a)) : s'.results = s.results ∧ s'.iters = s.iters := by
  have L := fun t => lazy_fields_of_frame_ops cfg t
  unfold mkPalette at h
  simp only [bind, Except.bind, getClass, getConf] at h
  cases hci : cfg.classes[cls]? with
  | none => simp [hci] at h
  | some ci =>
  cases hk : s.confs.lookup k with
  | none => simp [hci, hk] at h
  | some c =>
  simp only [hci, hk] at h
  cases nc with
  | true =>
    simp only [if_true] at h
    cases hr : registerCls cfg cls c with
    | error e => simp [hr] at h
    | ok c' =>
      simp only [hr] at h
      split at h
      · cases h; exact (L s).1 k c c'
      · cases h
        have e1 := (L s).1 k c c'
        have e2 := (L (setConf cfg s k c c')).2.1 (alloc ((setConf cfg s k c c').heap.map Prod.fst)) ⟨cls, k, true, ci.localSyntax.map fun _ => []⟩
        have e3 := (L (allocPal (setConf cfg s k c c') (alloc ((setConf cfg s k c c').heap.map Prod.fst)) ⟨cls, k, true, ci.localSyntax.map fun _ => []⟩)).2.2.2.1 cls (alloc ((setConf cfg s k c c').heap.map Prod.fst))
        exact ⟨e3.1.trans (e2.1.trans e1.1), e3.2.trans (e2.2.trans e1.2)⟩
  | false =>
    simp only [Bool.false_eq_true, if_false] at h
    split at h
    · cases h; exact ⟨rfl, rfl⟩
    · cases hr : registerCls cfg cls c with
      | error e => simp [hr] at h
      | ok c' =>
        simp only [hr] at h
        cases h
        have e1 := (L s).1 k c c'
        have e2 := (L (setConf cfg s k c c')).2.1 (alloc ((setConf cfg s k c c').heap.map Prod.fst)) ⟨cls, k, false, snapshot cfg ci c'⟩
        have e3 := (L (allocPal (setConf cfg s k c c') (alloc ((setConf cfg s k c c').heap.map Prod.fst)) ⟨cls, k, false, snapshot cfg ci c'⟩)).2.2.1 k cls (alloc ((setConf cfg s k c c').heap.map Prod.fst))
        exact ⟨e3.1.trans (e2.1.trans e1.1), e3.2.trans (e2.2.trans e1.2)⟩

theorem getSubs_lazy {cfg : Cfg} {alloc : Alloc} (p : Addr) : ∀ (cs : List ClassId) (s s' : State),
    getSubs cfg alloc p cs s = .ok s' → s'.results = s.results ∧ s'.iters = s.iters := by
  intro cs
  induction cs with
  | nil => intro s s' h; simp [getSubs] at h; subst h; exact ⟨rfl, rfl⟩
  | cons c cs ih =>
    intro s s' h
    simp only [getSubs, bind, Except.bind] at h
    cases hg : getSub cfg alloc p c s with
    | error e => simp [hg] at h
    | ok r =>
      obtain ⟨s1, b⟩ := r
      simp only [hg] at h
      have e1 : s1.results = s.results ∧ s1.iters = s.iters := by
        unfold getSub at hg
        simp only [bind, Except.bind, getPal, getClass] at hg
        cases hpa : s.heap.lookup p with
        | none => simp [hpa] at hg
        | some pp =>
        simp only [hpa] at hg
        cases hci : cfg.classes[pp.cls]? with
        | none => simp [hci] at hg
        | some ci =>
        simp only [hci] at hg
        split at hg
        · cases hg
        · split at hg
          · cases hg; exact ⟨rfl, rfl⟩
          · cases hmk : mkPalette cfg alloc (ci.actual c) pp.conf pp.noColor s with
            | error e => simp [hmk] at hg
            | ok r2 =>
              obtain ⟨s2, b2⟩ := r2
              simp only [hmk] at hg
              cases hg
              have := mkPalette_lazy hmk
              exact ⟨by simp [memoSub, this.1], by simp [memoSub, this.2]⟩
      have e2 := ih s1 s' h
      exact ⟨e2.1.trans e1.1, e2.2.trans e1.2⟩

theorem fill_lazy (p : Addr) : ∀ (ts : List Tag) (s : State),
    (ts.foldl (fun st t => fillOne st p t) s).results = s.results ∧
    (ts.foldl (fun st t => fillOne st p t) s).iters = s.iters := by
  intro ts
  induction ts with
  | nil => intro s; exact ⟨rfl, rfl⟩
  | cons t ts ih =>
    intro s
    have e1 := (lazy_fields_of_frame_ops (cfg := ⟨[], [], [], 0, true⟩) s).2.2.2.2.2 p t
    have e2 := ih (fillOne s p t)
    exact ⟨e2.1.trans e1.1, e2.2.trans e1.2⟩

theorem stepLines_lazy {cfg : Cfg} {alloc : Alloc} (p : Addr) (top : ClassId) : ∀ (ls : List LLine) (s s' : State)
    (outs : List (List Chunk)), stepLines cfg alloc p top ls s = .ok (s', outs) →
      s'.results = s.results ∧ s'.iters = s.iters := by
  intro ls
  induction ls with
  | nil => intro s s' outs h; simp [stepLines] at h; rw [← h.1]; exact ⟨rfl, rfl⟩
  | cons l rest ih =>
    intro s s' outs h
    simp only [stepLines, bind, Except.bind] at h
    cases h1 : stepLine cfg alloc p top l s with
    | error e => simp [h1] at h
    | ok r1 =>
      obtain ⟨s1, out⟩ := r1
      simp only [h1] at h
      cases h2 : stepLines cfg alloc p top rest s1 with
      | error e => simp [h2] at h
      | ok r2 =>
        obtain ⟨s2, outs2⟩ := r2
        simp only [h2] at h
        cases h
        have e2 := ih s1 _ _ h2
        have e1 : s1.results = s.results ∧ s1.iters = s.iters := by
          unfold stepLine at h1
          simp only [bind, Except.bind] at h1
          cases g1 : getSubs cfg alloc p l.reqs s with
          | error e => simp [g1] at h1
          | ok sa =>
            simp only [g1] at h1
            cases g2 : colorChunks sa p top l.line.chunks with
            | error e => simp [g2] at h1
            | ok cs =>
              simp only [g2] at h1
              cases h1
              have a1 := getSubs_lazy p l.reqs s sa g1
              have a2 := fill_lazy p (l.line.chunks.map (·.tag)) sa
              exact ⟨a2.1.trans a1.1, a2.2.trans a1.2⟩
        exact ⟨e2.1.trans e1.1, e2.2.trans e1.2⟩

theorem step_resOk {cfg : Cfg} (hcfg : cfgOk cfg = true) {alloc : Alloc} (hal : ValidAlloc alloc) {s : State}
    (hinv : Inv cfg s) (ho : ResOk s) (op : Op) : ResOk (step cfg alloc s op) := by
  have idm : ∀ a q, s.heap.lookup a = some q → s.heap.lookup a = some q := fun _ _ h => h
  cases op with
  | newConf k nc items =>
    simp only [step]
    split
    · rename_i s' h
      unfold newConf at h
      simp only [bind, Except.bind] at h
      split at h
      · cases h
      · cases hm : mkConf cfg nc items with
        | error e => simp [hm] at h
        | ok c => simp only [hm] at h; cases h; exact resOk_same ho idm rfl rfl
    · exact ho
  | dropConf k => exact resOk_same ho idm rfl rfl
  | gc kp kc =>
    simp only [step, gc]
    split
    · rename_i hok
      simp only [gcOk, Bool.and_eq_true, List.all_eq_true] at hok
      obtain ⟨⟨_, hres⟩, hits⟩ := hok
      have keep : ∀ a q, kp.contains a = true → s.heap.lookup a = some q →
          List.lookup a (s.heap.filter fun e => kp.contains e.1) = some q := by
        intro a q h1 h2
        rw [lookup_filter_key (fun x => kp.contains x) a s.heap, h1]; exact h2
      refine ⟨?_, ?_⟩
      · intro r x hx
        obtain ⟨pp, h1, h2⟩ := ho.res r x hx
        exact ⟨pp, keep _ _ (hres (r, x) (lookup_mem hx)) h1, h2⟩
      · intro i x hx
        obtain ⟨pp, h1, h2⟩ := ho.its i x hx
        exact ⟨pp, keep _ _ (hits (i, x) (lookup_mem hx)) h1, h2⟩
    · exact ho
  | setGlobal k =>
    simp only [step]
    split
    · rename_i s' h
      unfold setGlobal at h
      simp only [bind, Except.bind] at h
      cases hg : getConf s k with
      | error e => simp [hg] at h
      | ok c =>
        simp only [hg] at h
        cases h
        obtain ⟨a1, a2, a3⟩ := regSynced_keeps cfg k (s.synced.map (·.1)) s
        have hm : ∀ a q, s.heap.lookup a = some q →
            (regSynced cfg k (s.synced.map (·.1)) s).heap.lookup a = some q := by
          intro a q hq; rw [a1]; exact hq
        unfold syncGp
        split
        · exact resOk_same ho hm a2 a3
        · exact resOk_same ho hm a2 a3
    · exact ho
  | newEnum e =>
    simp only [step]
    split
    · rename_i s' h
      unfold newEnum at h
      split at h
      · cases h
      · cases h; exact resOk_same ho idm rfl rfl
    · exact ho
  | dropEnum e => exact resOk_same ho idm rfl rfl
  | render k nc sh =>
    simp only [step]
    split
    · rename_i s' out h
      have hfr := render_frame hcfg hal hinv h
      have hl : s'.results = s.results ∧ s'.iters = s.iters := by
        unfold render at h
        simp only [bind, Except.bind] at h
        cases h1 : mkPalette cfg alloc sh.top k nc s with
        | error e => simp [h1] at h
        | ok r =>
          obtain ⟨s1, p⟩ := r
          simp only [h1] at h
          cases h2 : getSubs cfg alloc p sh.subs s1 with
          | error e => simp [h2] at h
          | ok s2 =>
            simp only [h2] at h
            cases h3 : colorLines s2 p sh.top sh.lines with
            | error e => simp [h3] at h
            | ok lines =>
              simp only [h3] at h
              cases h
              have a1 := mkPalette_lazy h1
              have a2 := getSubs_lazy p sh.subs s1 s2 h2
              have a3 := fill_lazy p sh.tags s2
              exact ⟨a3.1.trans (a2.1.trans a1.1), a3.2.trans (a2.2.trans a1.2)⟩
      exact resOk_same ho hfr.heap hl.1 hl.2
    · exact ho
  | mkRes r k nc top lines =>
    simp only [step]
    split
    · rename_i s' h
      unfold mkRes at h
      simp only [bind, Except.bind] at h
      cases h1 : mkPalette cfg alloc top k nc s with
      | error e => simp [h1] at h
      | ok r1 =>
        obtain ⟨s1, p⟩ := r1
        simp only [h1] at h
        cases h
        obtain ⟨_, hfr, ⟨pp, hp1, hp2, hp3, hp4⟩, _⟩ := mkPalette_spec hcfg hal hinv h1
        have hl := mkPalette_lazy h1
        refine ⟨?_, ?_⟩
        · intro r' x hx
          simp only [] at hx
          by_cases e : r' = r
          · subst e
            rw [lookup_cons_eq] at hx; cases hx
            exact ⟨pp, hp1, hp2, hp3, hp4⟩
          · rw [lookup_cons_ne _ _ e, lookup_filter_key (fun y => y ≠ r)] at hx
            simp only [ne_eq, e, not_false_eq_true, decide_true, if_true] at hx
            rw [hl.1] at hx
            exact holder_mono hfr.heap (ho.res r' x hx)
        · intro i x hx
          simp only [] at hx
          rw [hl.2] at hx
          exact holder_mono hfr.heap (ho.its i x hx)
    · exact ho
  | strRes r =>
    simp only [step]
    split
    · rename_i s' w h
      unfold strRes at h
      split at h
      · cases h
      · rename_i res hres
        split at h
        · cases h; exact ho
        · simp only [bind, Except.bind] at h
          cases h1 : stepLines cfg alloc res.p res.top res.lines s with
          | error e => simp [h1] at h
          | ok r1 =>
            obtain ⟨s1, ls⟩ := r1
            simp only [h1] at h
            cases h
            obtain ⟨_, hfr⟩ := stepLines_spec hcfg hal _ _ _ s _ _ hinv h1
            have hl := stepLines_lazy _ _ _ s _ _ h1
            refine ⟨?_, ?_⟩
            · intro r' x hx
              simp only [] at hx
              by_cases e : r' = r
              · subst e
                rw [lookup_cons_eq] at hx; cases hx
                exact holder_mono hfr.heap (ho.res r' res hres)
              · rw [lookup_cons_ne _ _ e, lookup_filter_key (fun y => y ≠ r)] at hx
                simp only [ne_eq, e, not_false_eq_true, decide_true, if_true] at hx
                rw [hl.1] at hx
                exact holder_mono hfr.heap (ho.res r' x hx)
            · intro i x hx
              simp only [] at hx
              rw [hl.2] at hx
              exact holder_mono hfr.heap (ho.its i x hx)
    · exact ho
  | mkIter i r =>
    simp only [step]
    split
    · rename_i s' h
      unfold mkIter at h
      split at h
      · cases h
      · rename_i res hres
        cases h
        refine ⟨ho.res, ?_⟩
        intro i' x hx
        simp only [] at hx
        by_cases e : i' = i
        · subst e
          rw [lookup_cons_eq] at hx; cases hx
          exact ho.res r res hres
        · rw [lookup_cons_ne _ _ e, lookup_filter_key (fun y => y ≠ i)] at hx
          simp only [ne_eq, e, not_false_eq_true, decide_true, if_true] at hx
          exact ho.its i' x hx
    · exact ho
  | nextIter i n =>
    simp only [step]
    split
    · rename_i s' outs h
      unfold nextIter at h
      split at h
      · cases h
      · rename_i it hit
        simp only [bind, Except.bind] at h
        cases h1 : stepLines cfg alloc it.p it.top (it.rest.take n) s with
        | error e => simp [h1] at h
        | ok r1 =>
          obtain ⟨s1, ls⟩ := r1
          simp only [h1] at h
          cases h
          obtain ⟨_, hfr⟩ := stepLines_spec hcfg hal _ _ _ s _ _ hinv h1
          have hl := stepLines_lazy _ _ _ s _ _ h1
          refine ⟨?_, ?_⟩
          · intro r' x hx
            simp only [] at hx
            rw [hl.1] at hx
            exact holder_mono hfr.heap (ho.res r' x hx)
          · intro i' x hx
            simp only [] at hx
            by_cases e : i' = i
            · subst e
              rw [lookup_cons_eq] at hx; cases hx
              exact holder_mono hfr.heap (ho.its i' it hit)
            · rw [lookup_cons_ne _ _ e, lookup_filter_key (fun y => y ≠ i)] at hx
              simp only [ne_eq, e, not_false_eq_true, decide_true, if_true] at hx
              rw [hl.2] at hx
              exact holder_mono hfr.heap (ho.its i' x hx)
    · exact ho
  | mkPal k cls =>
    simp only [step]
    split
    · rename_i s' a h
      obtain ⟨_, hfr, _, _⟩ := mkPalette_spec hcfg hal hinv h
      have hl := mkPalette_lazy h
      exact resOk_same ho hfr.heap hl.1 hl.2
    · exact ho
  | mkSynced cls =>
    simp only [step]
    split
    · rename_i s' h
      obtain ⟨_, b1, b2, b3⟩ := mkSynced_inv hcfg hinv h
      exact resOk_same ho (fun a q hq => by rw [b1]; exact hq) b2 b3
    · exact ho

/-! ### histories -/

theorem step_inv {cfg : Cfg} (hcfg : cfgOk cfg = true) (hko : cfg.keyByObj = true) {alloc : Alloc}
    (hal : ValidAlloc alloc) {s : State} (hinv : Inv cfg s) (op : Op) : Inv cfg (step cfg alloc s op) := by
  cases op with
  | newConf k nc items =>
    simp only [step]
    split
    · rename_i s' h; exact newConf_inv hcfg hinv h
    · exact hinv
  | dropConf k => exact dropConf_inv hinv k
  | gc kp kc => exact gc_inv hinv kp kc
  | setGlobal k =>
    simp only [step]
    split
    · rename_i s' h; exact setGlobal_inv hcfg hinv h
    · exact hinv
  | newEnum e =>
    simp only [step]
    split
    · rename_i s' h; exact newEnum_inv hinv h
    · exact hinv
  | dropEnum e => exact dropEnum_inv hinv e
  | render k nc sh =>
    simp only [step]
    split
    · rename_i s' out h; exact (render_spec hcfg hko hal hinv h).1
    · exact hinv
  | mkRes r k nc top lines =>
    simp only [step]
    split
    · rename_i s' h; exact mkRes_inv hcfg hal hinv h
    · exact hinv
  | strRes r =>
    simp only [step]
    split
    · rename_i s' w h; exact strRes_inv hcfg hal hinv h
    · exact hinv
  | mkIter i r =>
    simp only [step]
    split
    · rename_i s' h; exact mkIter_inv hinv h
    · exact hinv
  | nextIter i n =>
    simp only [step]
    split
    · rename_i s' outs h; exact nextIter_inv hcfg hal hinv h
    · exact hinv
  | mkPal k cls =>
    simp only [step]
    split
    · rename_i s' a h; exact (mkPalette_spec hcfg hal hinv h).1
    · exact hinv
  | mkSynced cls =>
    simp only [step]
    split
    · rename_i s' h; exact (mkSynced_inv hcfg hinv h).1
    · exact hinv

theorem run_inv {cfg : Cfg} (hcfg : cfgOk cfg = true) (hko : cfg.keyByObj = true) {alloc : Alloc}
    (hal : ValidAlloc alloc) : ∀ (ops : List Op) (s : State), Inv cfg s → Inv cfg (run cfg alloc s ops) := by
  intro ops
  induction ops with
  | nil => intro s h; exact h
  | cons op ops ih => intro s h; exact ih _ (step_inv hcfg hko hal h op)

theorem run_inv_resOk {cfg : Cfg} (hcfg : cfgOk cfg = true) (hko : cfg.keyByObj = true) {alloc : Alloc}
    (hal : ValidAlloc alloc) : ∀ (ops : List Op) (s : State), Inv cfg s → ResOk s →
      Inv cfg (run cfg alloc s ops) ∧ ResOk (run cfg alloc s ops) := by
  intro ops
  induction ops with
  | nil => intro s h1 h2; exact ⟨h1, h2⟩
  | cons op ops ih => intro s h1 h2; exact ih _ (step_inv hcfg hko hal h1 op) (step_resOk hcfg hal h1 h2 op)

theorem initState_resOk (cfg : Cfg) : ResOk (initState cfg) := by
  unfold initState
  split
  · unfold syncGp
    split <;> exact ⟨fun r x h => by simp [emptyState] at h, fun i x h => by simp [emptyState] at h⟩
  · exact ⟨fun r x h => by simp [emptyState] at h, fun i x h => by simp [emptyState] at h⟩

end PaletteState
