import AkVerif.Model.LLDriver
import AkVerif.Lemmas.LLCompose
/-!
`ProdSequence` nodes are returned flattened by the real `parse` (`_process_seq_telement`: the node's value is the
list of the matched members); the model's `parse` returns the un-flattened right-recursive chain
`S → S__ELEMENT S | ()`, `S__ELEMENT → member`, and the driver prints it flattened (`Drv.showTreeF` through
`Drv.seqChain`).  This file states what that flattening is and that it loses nothing:

* `flatF seqs fuel t` — the tree with every sequence node (name in `seqs`) replaced by the node whose children
  are the members of its chain, recursively — exactly the traversal of `Drv.showTreeF`; `none` where `showTreeF`
  would print its fallback `?` (a chain element without exactly one child, or the depth fuel exhausted),
* `SeqOK terms U seqs` — the symbols named in `seqs` have the productions a `ProdSequence` generates,
* `flatF_derives` — on a derivation tree of `U` (what `parse` returns, `C01.parse_valid_templates`) with fewer
  nodes than the fuel, `flatF` succeeds, keeps the root name and **keeps the yield** (leaf order and values),
* `showTreeF_flatF` — what the driver prints is the plain rendering (`showPlain`) of that flattened tree.
-/
set_option linter.unusedSectionVars false
namespace LL
open Ak Ak.Proto

/-- number of nodes and leaves -/
def Tree.nodes {σ : Type} : Tree σ → Nat
  | .leaf _ _ => 1
  | .node _ cs => 1 + nodesL cs
where nodesL : List (Tree σ) → Nat
  | [] => 0
  | t :: ts => t.nodes + nodesL ts

/-- the single child of every chain element, or `none` (the driver prints `?` there) -/
def seqMember (el : Tree Sym) : Option (Tree Sym) :=
  match el.children with
  | [m] => some m
  | _ => none

/-- the flattening `Drv.showTreeF` performs while printing, as a tree -/
def flatF (seqs : List (List Char)) : Nat → Tree Sym → Option (Tree Sym)
  | 0, _ => none
  | _ + 1, .leaf n v => some (.leaf n v)
  | fuel + 1, .node n cs =>
    if n.name ∈ seqs then
      ((Drv.seqChain 10000000 (.node n cs)).mapM fun el =>
        match seqMember el with
        | some m => flatF seqs fuel m
        | none => none).map (Tree.node n)
    else (cs.mapM (flatF seqs fuel)).map (Tree.node n)

/-- rendering without any chain logic: `[S …]` for a sequence symbol, `(X …)` otherwise -/
def showPlain (seqs : List (List Char)) : Nat → Tree Sym → String
  | 0, _ => "?"
  | _ + 1, .leaf n v => Drv.showName n ++ ":" ++ showCps v
  | fuel + 1, .node n cs =>
    if n.name ∈ seqs then "[" ++ " ".intercalate (Drv.showName n :: cs.map (showPlain seqs fuel)) ++ "]"
    else "(" ++ " ".intercalate (Drv.showName n :: cs.map (showPlain seqs fuel)) ++ ")"

/-- the symbols named in `seqs` have the productions of a `ProdSequence`: `S → E S | ()` with `E` a non-terminal
all of whose productions have exactly one symbol -/
def SeqOK (terms : List Sym) (U : Prods Sym) (seqs : List (List Char)) : Prop :=
  ∀ n ∈ pkeys U, n.name ∈ seqs → n ∉ terms ∧
    ∃ E ∈ psyms U, E ∉ terms ∧ (∀ p ∈ gramRules U n, p = [E, n] ∨ p = []) ∧ (∀ p ∈ gramRules U E, p.length = 1)

instance (terms : List Sym) (U : Prods Sym) (seqs : List (List Char)) : Decidable (SeqOK terms U seqs) := by
  unfold SeqOK; infer_instance

/-! ### auxiliary lemmas -/

theorem sf_nodes_node {σ : Type} (n : σ) (cs : List (Tree σ)) :
    (Tree.node n cs).nodes = 1 + Tree.nodes.nodesL cs := by rw [Tree.nodes]

theorem sf_nodes_leaf {σ : Type} (n : σ) (v : List Char) : (Tree.leaf n v).nodes = 1 := by rw [Tree.nodes]

theorem sf_nodesL_nil {σ : Type} : Tree.nodes.nodesL ([] : List (Tree σ)) = 0 := by rw [Tree.nodes.nodesL]

theorem sf_nodesL_cons {σ : Type} (t : Tree σ) (ts : List (Tree σ)) :
    Tree.nodes.nodesL (t :: ts) = t.nodes + Tree.nodes.nodesL ts := by rw [Tree.nodes.nodesL]

theorem sf_nodes_mem {σ : Type} {c : Tree σ} : ∀ {cs : List (Tree σ)}, c ∈ cs → c.nodes ≤ Tree.nodes.nodesL cs
  | [], h => by cases h
  | t :: ts, h => by
    rw [sf_nodesL_cons]
    rcases List.mem_cons.1 h with rfl | h
    · omega
    · have := sf_nodes_mem h; omega

theorem sf_flatF_node (seqs : List (List Char)) (fuel : Nat) (n : Sym) (cs : List (Tree Sym)) :
    flatF seqs (fuel + 1) (.node n cs) =
      if n.name ∈ seqs then
        ((Drv.seqChain 10000000 (.node n cs)).mapM fun el =>
          match seqMember el with
          | some m => flatF seqs fuel m
          | none => none).map (Tree.node n)
      else (cs.mapM (flatF seqs fuel)).map (Tree.node n) := by rw [flatF]

theorem sf_flatF_leaf (seqs : List (List Char)) (fuel : Nat) (n : Sym) (v : List Char) :
    flatF seqs (fuel + 1) (.leaf n v) = some (.leaf n v) := by rw [flatF]

theorem sf_flatF_zero (seqs : List (List Char)) (t : Tree Sym) : flatF seqs 0 t = none := by rw [flatF]

theorem sf_mapM_cons_some {α β : Type} (f : α → Option β) (a : α) (l : List α) (l' : List β) :
    (a :: l).mapM f = some l' ↔ ∃ b bs, f a = some b ∧ l.mapM f = some bs ∧ l' = b :: bs := by
  rw [List.mapM_cons]
  cases f a <;> cases l.mapM f <;> simp [eq_comm]

theorem sf_mapM_some (f : Tree Sym → Option (Tree Sym)) :
    ∀ l : List (Tree Sym),
      (∀ m ∈ l, ∃ m', f m = some m' ∧ m'.name = m.name ∧ m'.yield = m.yield ∧ m'.nodes ≤ m.nodes) →
      ∃ l', l.mapM f = some l' ∧ yieldL l' = yieldL l ∧ Tree.nodes.nodesL l' ≤ Tree.nodes.nodesL l
  | [], _ => ⟨[], by simp, rfl, Nat.le_refl _⟩
  | a :: l, h => by
    obtain ⟨b, hb, _, hy, hn⟩ := h a (by simp)
    obtain ⟨l', hl', hy', hn'⟩ := sf_mapM_some f l (fun x hx => h x (by simp [hx]))
    refine ⟨b :: l', (sf_mapM_cons_some ..).2 ⟨b, l', hb, hl', rfl⟩, ?_, ?_⟩
    · simp only [yieldL, List.map_cons, List.flatten_cons] at hy' ⊢
      rw [hy, hy']
    · rw [sf_nodesL_cons, sf_nodesL_cons]; omega

theorem sf_mapM_map {α β γ : Type} {f : α → Option β} {p : α → γ} {q : β → γ}
    (h : ∀ a b, f a = some b → p a = q b) : ∀ (l : List α) (l' : List β), l.mapM f = some l' → l.map p = l'.map q
  | [], l', hl => by
    simp at hl; subst hl; rfl
  | a :: l, l', hl => by
    obtain ⟨b, bs, hb, hbs, rfl⟩ := (sf_mapM_cons_some ..).1 hl
    simp only [List.map_cons, h a b hb, sf_mapM_map h l bs hbs]

/-- mapping a chain whose members are all present is mapping its members -/
theorem sf_mapM_chain (F : Tree Sym → Option (Tree Sym)) : ∀ (chain items : List (Tree Sym)),
    chain.map seqMember = items.map some →
    (chain.mapM fun el => match seqMember el with | some m => F m | none => none) = items.mapM F
  | [], [], _ => by simp
  | [], _ :: _, h => by simp at h
  | _ :: _, [], h => by simp at h
  | el :: chain, m :: items, h => by
    simp only [List.map_cons, List.cons.injEq] at h
    rw [List.mapM_cons, List.mapM_cons, h.1, sf_mapM_chain F chain items h.2]

/-- the chain of a derivation tree of a sequence symbol: every element has its member, the members are derivation
trees, carry the whole yield, and are smaller -/
theorem sf_chain {terms : List Sym} {U : Prods Sym} {n E : Sym} (hn : n ∉ terms) (hE : E ∉ terms)
    (hrn : ∀ p ∈ gramRules U n, p = [E, n] ∨ p = []) (hrE : ∀ p ∈ gramRules U E, p.length = 1) :
    ∀ (k : Nat) (cs : List (Tree Sym)), Derives terms U (.node n cs) → (Tree.node n cs).nodes < k →
      ∃ items, (Drv.seqChain k (.node n cs)).map seqMember = items.map some ∧ yieldL items = yieldL cs ∧
        (∀ m ∈ items, Derives terms U m) ∧ Tree.nodes.nodesL items < (Tree.node n cs).nodes := by
  intro k
  induction k with
  | zero => intro cs _ h; omega
  | succ k ih =>
    intro cs hd hk
    obtain ⟨hr, hcs⟩ := (Derives_node ..).1 hd
    rcases hrn _ hr with h | h
    · match cs, h, hcs, hk with
      | [el, tail], h, hcs, hk =>
        simp only [List.map_cons, List.map_nil, List.cons.injEq, and_true] at h
        obtain ⟨hel, htl⟩ := h
        have hdel := hcs el (by simp)
        have hdtl := hcs tail (by simp)
        match el, hel, hdel, hk with
        | .leaf e v, hel, hdel, _ =>
          simp only [Tree.name] at hel; subst hel
          exact absurd ((Derives_leaf ..).1 hdel) hE
        | .node e cs', hel, hdel, hk =>
          simp only [Tree.name] at hel; subst hel
          obtain ⟨hr', hcs'⟩ := (Derives_node ..).1 hdel
          have hl := hrE _ hr'
          rw [List.length_map] at hl
          match cs', hl, hcs', hk with
          | [m], _, hcs', hk =>
            match tail, htl, hdtl, hk with
            | .leaf e v, htl, hdtl, _ =>
              simp only [Tree.name] at htl; subst htl
              exact absurd ((Derives_leaf ..).1 hdtl) hn
            | .node e cs2, htl, hdtl, hk =>
              simp only [Tree.name] at htl; subst htl
              simp only [sf_nodes_node, sf_nodesL_cons, sf_nodesL_nil] at hk
              obtain ⟨items, h1, h2, h3, h4⟩ := ih cs2 hdtl (by rw [sf_nodes_node]; omega)
              refine ⟨m :: items, ?_, ?_, ?_, ?_⟩
              · simp only [Drv.seqChain, List.map_cons, h1, seqMember, Tree.children]
              · simp [yieldL] at h2 ⊢
                rw [h2]
              · intro x hx
                rcases List.mem_cons.1 hx with rfl | hx
                · exact hcs' _ (by simp)
                · exact h3 x hx
              · simp only [sf_nodes_node, sf_nodesL_cons, sf_nodesL_nil] at h4 ⊢
                omega
    · have : cs = [] := List.map_eq_nil_iff.1 h
      subst this
      refine ⟨[], ?_, rfl, by simp, ?_⟩
      · simp [Drv.seqChain]
      · simp only [sf_nodes_node, sf_nodesL_nil]; omega

/-! ### the flattening loses nothing -/

theorem flatF_derives {terms : List Sym} {U : Prods Sym} {seqs : List (List Char)} (hS : SeqOK terms U seqs) :
    ∀ (fuel : Nat) (t : Tree Sym), Derives terms U t → t.nodes < fuel → t.nodes < 10000000 →
      ∃ t', flatF seqs fuel t = some t' ∧ t'.name = t.name ∧ t'.yield = t.yield ∧ t'.nodes ≤ t.nodes := by
  intro fuel
  induction fuel with
  | zero => intro t _ h; omega
  | succ fuel ih =>
    intro t hd hf hb
    match t, hd, hf, hb with
    | .leaf n v, _, _, _ => exact ⟨.leaf n v, sf_flatF_leaf .., rfl, rfl, Nat.le_refl _⟩
    | .node n cs, hd, hf, hb =>
      rw [sf_flatF_node]
      obtain ⟨hr, hcs⟩ := (Derives_node ..).1 hd
      by_cases hs : n.name ∈ seqs
      · rw [if_pos hs]
        have hk : n ∈ pkeys U := by
          obtain ⟨rules, hm, _⟩ := mem_gramRules.1 hr
          exact List.mem_map.2 ⟨(n, rules), hm, rfl⟩
        obtain ⟨hnt, E, _, hEt, hrn, hrE⟩ := hS n hk hs
        obtain ⟨items, hch, hy, hdi, hni⟩ := sf_chain hnt hEt hrn hrE 10000000 cs hd hb
        rw [sf_mapM_chain _ _ _ hch]
        obtain ⟨items', hm, h1, h2⟩ := sf_mapM_some (flatF seqs fuel) items
          (fun m hm => ih m (hdi m hm) (by have := sf_nodes_mem hm; omega) (by have := sf_nodes_mem hm; omega))
        refine ⟨.node n items', by rw [hm]; rfl, rfl, ?_, ?_⟩
        · rw [yield_node, yield_node, h1, hy]
        · rw [sf_nodes_node]; omega
      · rw [if_neg hs]
        rw [sf_nodes_node] at hf hb
        obtain ⟨cs', hm, h1, h2⟩ := sf_mapM_some (flatF seqs fuel) cs
          (fun m hm => ih m (hcs m hm) (by have := sf_nodes_mem hm; omega) (by have := sf_nodes_mem hm; omega))
        refine ⟨.node n cs', by rw [hm]; rfl, rfl, ?_, ?_⟩
        · rw [yield_node, yield_node, h1]
        · rw [sf_nodes_node, sf_nodes_node]; omega

theorem sf_showTreeF_node (seqs : List (List Char)) (fuel : Nat) (n : Sym) (cs : List (Tree Sym)) :
    Drv.showTreeF seqs (fuel + 1) (.node n cs) =
      if n.name ∈ seqs then
        "[" ++ " ".intercalate (Drv.showName n :: (Drv.seqChain 10000000 (.node n cs)).map fun el =>
          match el.children with
          | [m] => Drv.showTreeF seqs fuel m
          | _ => "?") ++ "]"
      else "(" ++ " ".intercalate (Drv.showName n :: cs.map (Drv.showTreeF seqs fuel)) ++ ")" := by
  rw [Drv.showTreeF]
  rfl

theorem sf_seqMember_some {el m : Tree Sym} (h : seqMember el = some m) : el.children = [m] := by
  unfold seqMember at h
  split at h
  · next x heq => cases h; exact heq
  · cases h

theorem sf_showTreeF_leaf (seqs : List (List Char)) (fuel : Nat) (n : Sym) (v : List Char) :
    Drv.showTreeF seqs (fuel + 1) (.leaf n v) = Drv.showName n ++ ":" ++ showCps v := by
  rw [Drv.showTreeF]
  intro h; cases h

theorem showTreeF_flatF (seqs : List (List Char)) : ∀ (fuel : Nat) (t t' : Tree Sym),
    flatF seqs fuel t = some t' → Drv.showTreeF seqs fuel t = showPlain seqs fuel t' := by
  intro fuel
  induction fuel with
  | zero => intro t t' h; rw [sf_flatF_zero] at h; cases h
  | succ fuel ih =>
    intro t t' h
    match t, h with
    | .leaf n v, h =>
      rw [sf_flatF_leaf] at h; cases h
      rw [sf_showTreeF_leaf, showPlain]
    | .node n cs, h =>
      rw [sf_flatF_node] at h
      rw [sf_showTreeF_node]
      by_cases hs : n.name ∈ seqs
      · rw [if_pos hs] at h ⊢
        obtain ⟨items', hm, rfl⟩ := Option.map_eq_some_iff.1 h
        rw [showPlain, if_pos hs]
        congr 3
        refine congrArg _ (sf_mapM_map ?_ _ _ hm)
        intro el m' hel
        split at hel
        · next m heq => rw [sf_seqMember_some heq]; exact ih m m' hel
        · cases hel
      · rw [if_neg hs] at h ⊢
        obtain ⟨cs', hm, rfl⟩ := Option.map_eq_some_iff.1 h
        rw [showPlain, if_neg hs]
        congr 3
        exact congrArg _ (sf_mapM_map (fun c c' hc => ih c c' hc) _ _ hm)

theorem showTree_derives {terms : List Sym} {U : Prods Sym} {seqs : List (List Char)} (hS : SeqOK terms U seqs)
    (t : Tree Sym) (hd : Derives terms U t) (hn : t.nodes < 10000000) :
    ∃ t', flatF seqs 10000000 t = some t' ∧ t'.name = t.name ∧ t'.yield = t.yield ∧
      Drv.showTree seqs t = showPlain seqs 10000000 t' := by
  obtain ⟨t', h1, h2, h3, _⟩ := flatF_derives hS 10000000 t hd hn hn
  exact ⟨t', h1, h2, h3, showTreeF_flatF seqs 10000000 t t' h1⟩

end LL

section
open LL
#print axioms flatF_derives
#print axioms showTreeF_flatF
#print axioms showTree_derives
end
