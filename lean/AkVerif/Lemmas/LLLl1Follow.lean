import AkVerif.Lemmas.LLLl1First
/-!
FOLLOW of the factorised dictionary `G` is contained in FOLLOW of the user's dictionary `U`
(`FactRelD U G S`, `S` the helper symbols, `T` the terminals, `NU` / `NG` the computed nullable sets,
`FU` / `FG` the computed FIRST maps):

* `below_exists` — every key `A` of `G` lies below its user symbol `rootOf A` (`Below G S (rootOf A) A c`),
* `follow_sub`   — `Follow G T NG FG start endS s t → Follow U T NU FU start endS (rootOf s) t`.

The occurrence `A → α X β` of a non-helper `X` in a rule of `G` is turned into the occurrence
`rootOf A → c α X β'` in a rule of `U`: `c` are the symbols in front of `A` on the way down from `rootOf A`
(`Below`, `below_flat`), `β'` is `β` with a trailing helper replaced by a suitable flattened expansion
(`l1w_tail_cases`, `l1w_tail_first`, `l1w_tail_null`).  A helper `X` occurs only last; then
`rootOf X = rootOf A` and only the dependency case is possible.
-/
set_option linter.unusedSectionVars false
namespace LL
open Ak

/-! ### list helpers -/

theorem l1w_idx {α : Type} (x : α) (b : List α) : ∀ a : List α,
    (a ++ x :: b)[a.length]? = some x ∧ (a ++ x :: b).drop (a.length + 1) = b
  | [] => by simp
  | y :: a => by simp

theorem l1w_split {α : Type} {x : α} : ∀ {l : List α} {i : Nat}, l[i]? = some x →
    l = l.take i ++ x :: l.drop (i + 1)
  | [], _, h => by simp at h
  | a :: l, 0, h => by
    simp only [List.getElem?_cons_zero, Option.some.injEq] at h
    subst h; simp
  | a :: l, i + 1, h => by
    simp only [List.getElem?_cons_succ] at h
    have := l1w_split h
    simp only [List.take_succ_cons, List.drop_succ_cons, List.cons_append, List.cons.injEq, true_and]
    exact this

/-- the computed FIRST map, read on sequences, is `FirstSeq` -/
theorem l1w_firstIn_iff {D : Prods Sym} {T N : List Sym} {F : SetMap Sym}
    (hF : firstSets T N D = .ok F) (hnt : ∀ s ∈ N, s ∉ T) (l : List Sym) (t : Sym) :
    FirstIn T N F l t ↔ FirstSeq D T N l t := by
  have e : (fun s t => ∃ f, dget s F = some f ∧ t ∈ f) = First D T N := by
    funext s t; exact propext (firstSets_exact hF hnt s t)
  rw [lst_FirstIn_iff, e]
  exact Iff.rfl

section L1Follow
variable {U G : Prods Sym} {S T NU NG : List Sym}

/-! ### the tail of a rule of `G` behind a position -/

/-- a rule `γ ++ β` of `A` with `γ` free of helpers: either `β` is free of helpers and the rule is its own
flattening, or `β = bd ++ [l]` with a helper `l`, and every expansion `e` of `l` gives the flattening
`γ ++ bd ++ e` -/
theorem l1w_tail_cases (hR : FactRelD U G S) {A : Sym} {γ β : List Sym}
    (hp : γ ++ β ∈ gramRules G A) (hγ : ∀ x ∈ γ, x ∉ S) :
    ((∀ x ∈ β, x ∉ S) ∧ FlatD G S A (γ ++ β)) ∨
    (∃ bd l, β = bd ++ [l] ∧ l ∈ S ∧ (∀ x ∈ bd, x ∉ S) ∧
      ∀ e, FlatD G S l e → FlatD G S A (γ ++ (bd ++ e))) := by
  obtain ⟨rules, hm, r, hr, hrp⟩ := mem_gramRules.1 hp
  have hinner : ∀ x ∈ (γ ++ β).dropLast, x ∉ S := by
    rw [← hrp]; exact hR.inner A rules hm r hr
  rcases hl : β.getLast? with _ | l
  · have hb : β = [] := List.getLast?_eq_none_iff.1 hl
    subst hb
    left
    refine ⟨by simp, FlatD.base hp ?_⟩
    intro l hl'
    rw [List.append_nil] at hl'
    exact hγ l (List.mem_of_getLast? hl')
  · have hsplit : β.dropLast ++ [l] = β := tr_split_last hl
    have hdl : (γ ++ β).dropLast = γ ++ β.dropLast := by
      conv => lhs; rw [← hsplit, ← List.append_assoc, List.dropLast_concat]
    have hbd : ∀ x ∈ β.dropLast, x ∉ S := by
      intro x hx
      apply hinner x
      rw [hdl]
      exact List.mem_append_right _ hx
    by_cases hlS : l ∈ S
    · right
      refine ⟨β.dropLast, l, hsplit.symm, hlS, hbd, ?_⟩
      intro e he
      have hp' : (γ ++ β.dropLast) ++ [l] ∈ gramRules G A := by
        rw [List.append_assoc, hsplit]; exact hp
      have := FlatD.step hp' hlS he
      rwa [List.append_assoc] at this
    · left
      have hβ : ∀ x ∈ β, x ∉ S := by
        intro x hx
        rw [← hsplit] at hx
        rcases List.mem_append.1 hx with hx | hx
        · exact hbd x hx
        · rw [List.mem_singleton.1 hx]; exact hlS
      refine ⟨hβ, FlatD.base hp ?_⟩
      intro l' hl'
      have : l' ∈ γ ++ β := List.mem_of_getLast? hl'
      rcases List.mem_append.1 this with h | h
      · exact hγ _ h
      · exact hβ _ h

/-- FIRST of the tail: some flattening of the rule keeps `γ` and has `t` in FIRST (over `U`) of the rest -/
theorem l1w_tail_first (hR : FactRelD U G S) (hNU : nullables U = .ok NU) (hNG : nullables G = .ok NG)
    (hST : ∀ s ∈ S, s ∉ T) (hprod : ∀ s ∈ S, ∃ e, FlatD G S s e) {A t : Sym} {γ β : List Sym}
    (hp : γ ++ β ∈ gramRules G A) (hγ : ∀ x ∈ γ, x ∉ S)
    (h : FirstInM T NG (First G T NG) β t) :
    ∃ β', FlatD G S A (γ ++ β') ∧ FirstSeq U T NU β' t := by
  rcases l1w_tail_cases hR hp hγ with ⟨hβ, hf⟩ | ⟨bd, l, hb, hlS, hbd, hf⟩
  · exact ⟨β, hf, firstSeq_sub hR hNU hNG hST hprod hβ h⟩
  · subst hb
    rcases (l1f_append [l] bd).1 h with h1 | ⟨hn, h2⟩
    · obtain ⟨e, he⟩ := hprod l hlS
      exact ⟨bd ++ e, hf e he,
        (l1f_append e bd).2 (Or.inl (firstSeq_sub hR hNU hNG hST hprod hbd h1))⟩
    · rw [l1f_cons] at h2
      rcases h2 with ⟨hT, _⟩ | ⟨_, h2 | ⟨_, hF⟩⟩
      · exact absurd hT (hST l hlS)
      · obtain ⟨e, he, hfe⟩ := first_sub_helper hR hNU hNG hST hprod hlS h2
        exact ⟨bd ++ e, hf e he,
          (l1f_append e bd).2 (Or.inr ⟨nullIn_sub hR hNU hNG hn hbd, hfe⟩)⟩
      · exact absurd hF l1f_nil

/-- nullability of the tail: some flattening of the rule keeps `γ` and has a `U`-nullable rest -/
theorem l1w_tail_null (hR : FactRelD U G S) (hNU : nullables U = .ok NU) (hNG : nullables G = .ok NG)
    (hntU : ∀ s ∈ NU, s ∉ T) {A : Sym} {γ β : List Sym}
    (hp : γ ++ β ∈ gramRules G A) (hγ : ∀ x ∈ γ, x ∉ S) (hn : NullIn T NG β) :
    ∃ β', FlatD G S A (γ ++ β') ∧ NullIn T NU β' := by
  rcases l1w_tail_cases hR hp hγ with ⟨hβ, hf⟩ | ⟨bd, l, hb, hlS, hbd, hf⟩
  · exact ⟨β, hf, nullIn_sub hR hNU hNG hn hβ⟩
  · subst hb
    have hl : l ∈ NG := (hn l (by simp)).2
    obtain ⟨e, he, hall⟩ := null_helper_sub hR hNU hNG hl
    refine ⟨bd ++ e, hf e he, ?_⟩
    intro x hx
    rcases List.mem_append.1 hx with hx | hx
    · exact nullIn_sub hR hNU hNG (fun y hy => hn y (List.mem_append_left _ hy)) hbd x hx
    · exact ⟨hntU x (hall x hx), hall x hx⟩

/-! ### a position in a rule of `G` -/

/-- a non-helper at position `i`: the rule is `(take i ++ [X]) ++ drop (i+1)` with a helper-free front -/
theorem l1w_pos (hR : FactRelD U G S) {A X : Sym} {rules : List (Rule Sym)} {r : Rule Sym} {i : Nat}
    (hm : (A, rules) ∈ G) (hr : r ∈ rules) (hi : r.rhs[i]? = some X) (hXS : X ∉ S) :
    (r.rhs.take i ++ [X]) ++ r.rhs.drop (i + 1) ∈ gramRules G A ∧
      ∀ x ∈ r.rhs.take i ++ [X], x ∉ S := by
  constructor
  · have h : r.rhs ∈ gramRules G A := mem_gramRules.2 ⟨rules, hm, r, hr, rfl⟩
    have e : (r.rhs.take i ++ [X]) ++ r.rhs.drop (i + 1) = r.rhs := by
      rw [List.append_assoc, List.singleton_append]
      exact (l1w_split hi).symm
    rw [e]; exact h
  · intro x hx
    rcases List.mem_append.1 hx with hx | hx
    · exact hR.inner A rules hm r hr x (tr_take_dropLast hi x hx)
    · rw [List.mem_singleton.1 hx]; exact hXS

/-- a helper at position `i` is the last symbol -/
theorem l1w_helper_last (hR : FactRelD U G S) {A X : Sym} {rules : List (Rule Sym)} {r : Rule Sym}
    {i : Nat} (hm : (A, rules) ∈ G) (hr : r ∈ rules) (hi : r.rhs[i]? = some X) (hXS : X ∈ S) :
    r.rhs.getLast? = some X ∧ r.rhs.drop (i + 1) = [] := by
  rcases tr_idx_cases hi with h | h
  · exact absurd hXS (hR.inner A rules hm r hr X h)
  · constructor
    · rw [h]; simp
    · have h1 : i < r.rhs.length := (List.getElem?_eq_some_iff.1 hi).1
      have h2 := congrArg List.length h
      simp only [List.length_append, List.length_take, List.length_singleton] at h2
      exact List.drop_eq_nil_of_le (by omega)

/-! ### every key of `G` lies below its user symbol -/

theorem l1w_below_aux (hR : FactRelD U G S) (hU : UserWF U)
    (hext : ∀ k rules, (k, rules) ∈ G → ∀ r ∈ rules, ∀ l, r.rhs.getLast? = some l → l ∈ S → Ext k l)
    (href : ∀ h ∈ S, ∃ k rules r, (k, rules) ∈ G ∧ r ∈ rules ∧ r.rhs.getLast? = some h) :
    ∀ (n : Nat) (A : Sym), A.path.length < n → A ∈ pkeys G → ∃ c, Below G S (rootOf A) A c
  | 0, _, h, _ => absurd h (Nat.not_lt_zero _)
  | n + 1, A, h, hA => by
    by_cases hAS : A ∈ S
    · obtain ⟨k, rules, r, hm, hr, hl⟩ := href A hAS
      have hE := hext k rules hm r hr A hl hAS
      obtain ⟨_, q, hq, hpq⟩ := hE
      have hlen : k.path.length < n := by
        have h1 := congrArg List.length hpq
        rw [List.length_append] at h1
        have h2 : 0 < q.length := List.length_pos_iff.2 hq
        omega
      obtain ⟨c, hB⟩ := l1w_below_aux hR hU hext href n k hlen (List.mem_map.2 ⟨_, hm, rfl⟩)
      rw [rootOf_ext (hext k rules hm r hr A hl hAS)]
      refine ⟨c ++ r.rhs.dropLast, Below.down hB ?_ hAS⟩
      rw [tr_split_last hl]
      exact mem_gramRules.2 ⟨rules, hm, r, hr, rfl⟩
    · have hp : A.path = [] := hU.keyUser A (hR.keysBack A hA hAS)
      rw [rootOf_user hp]
      exact ⟨[], Below.root⟩

/-- every key `A` of `G` is reached from its user symbol `rootOf A` through last positions -/
theorem below_exists (hR : FactRelD U G S) (hU : UserWF U)
    (hext : ∀ k rules, (k, rules) ∈ G → ∀ r ∈ rules, ∀ l, r.rhs.getLast? = some l → l ∈ S → Ext k l)
    (href : ∀ h ∈ S, ∃ k rules r, (k, rules) ∈ G ∧ r ∈ rules ∧ r.rhs.getLast? = some h) :
    ∀ A, A ∈ pkeys G → ∃ c, Below G S (rootOf A) A c :=
  fun A hA => l1w_below_aux hR hU hext href (A.path.length + 1) A (Nat.lt_succ_self _) hA

/-- a flattened expansion `α X β'` of a key `A` of `G` is the tail of a rule of the user symbol `rootOf A` -/
theorem l1w_user_rule (hR : FactRelD U G S) (hU : UserWF U) (hSpath : ∀ s ∈ S, s.path ≠ [])
    (hext : ∀ k rules, (k, rules) ∈ G → ∀ r ∈ rules, ∀ l, r.rhs.getLast? = some l → l ∈ S → Ext k l)
    (href : ∀ h ∈ S, ∃ k rules r, (k, rules) ∈ G ∧ r ∈ rules ∧ r.rhs.getLast? = some h)
    {A X : Sym} {α β' : List Sym} (hA : A ∈ pkeys G) (hf : FlatD G S A ((α ++ [X]) ++ β')) :
    ∃ rules r i, (rootOf A, rules) ∈ U ∧ r ∈ rules ∧ r.rhs[i]? = some X ∧ r.rhs.drop (i + 1) = β' ∧
      X.path = [] := by
  obtain ⟨c, hB⟩ := below_exists hR hU hext href A hA
  have hroot : rootOf A ∉ S := fun h => hSpath _ h rfl
  have hu := hR.flatIn _ hroot _ (below_flat hB _ hf)
  obtain ⟨rules, hm, r, hr, hrp⟩ := mem_gramRules.1 hu
  have e : r.rhs = (c ++ α) ++ X :: β' := by rw [hrp]; simp
  have hi : r.rhs[(c ++ α).length]? = some X := by rw [e]; exact (l1w_idx X β' (c ++ α)).1
  refine ⟨rules, r, (c ++ α).length, hm, hr, hi, ?_, ?_⟩
  · rw [e]; exact (l1w_idx X β' (c ++ α)).2
  · exact hU.symUser X (mem_psyms.2 ⟨_, rules, hm, r, hr, List.mem_of_getElem? hi⟩)

/-! ### the two closure steps -/

theorem l1w_imm {FU FG : SetMap Sym} {start endS : Sym}
    (hR : FactRelD U G S) (hU : UserWF U)
    (hNU : nullables U = .ok NU) (hNG : nullables G = .ok NG)
    (hFU : firstSets T NU U = .ok FU) (hFG : firstSets T NG G = .ok FG)
    (hntU : ∀ s ∈ NU, s ∉ T) (hntG : ∀ s ∈ NG, s ∉ T)
    (hST : ∀ s ∈ S, s ∉ T) (hprod : ∀ s ∈ S, ∃ e, FlatD G S s e)
    (hSpath : ∀ s ∈ S, s.path ≠ [])
    (hext : ∀ k rules, (k, rules) ∈ G → ∀ r ∈ rules, ∀ l, r.rhs.getLast? = some l → l ∈ S → Ext k l)
    (href : ∀ h ∈ S, ∃ k rules r, (k, rules) ∈ G ∧ r ∈ rules ∧ r.rhs.getLast? = some h)
    {A X t : Sym} {rules : List (Rule Sym)} {r : Rule Sym} {i : Nat}
    (hm : (A, rules) ∈ G) (hr : r ∈ rules) (hi : r.rhs[i]? = some X) (hX : X ∉ T)
    (hF : FirstIn T NG FG (r.rhs.drop (i + 1)) t) :
    Follow U T NU FU start endS (rootOf X) t := by
  by_cases hXS : X ∈ S
  · exfalso
    rw [(l1w_helper_last hR hm hr hi hXS).2] at hF
    simp [FirstIn] at hF
  · obtain ⟨hp, hγ⟩ := l1w_pos hR hm hr hi hXS
    have hF' := (l1w_firstIn_iff hFG hntG _ _).1 hF
    obtain ⟨β', hf, hfs⟩ := l1w_tail_first hR hNU hNG hST hprod hp hγ hF'
    obtain ⟨rules', r', j, hm', hr', hj, hd, hXp⟩ :=
      l1w_user_rule hR hU hSpath hext href (List.mem_map.2 ⟨_, hm, rfl⟩) hf
    rw [rootOf_user hXp]
    refine Follow.imm hm' hr' hj hX ?_
    rw [hd]
    exact (l1w_firstIn_iff hFU hntU _ _).2 hfs

theorem l1w_dep {FU : SetMap Sym} {start endS : Sym}
    (hR : FactRelD U G S) (hU : UserWF U)
    (hNU : nullables U = .ok NU) (hNG : nullables G = .ok NG)
    (hntU : ∀ s ∈ NU, s ∉ T)
    (hSpath : ∀ s ∈ S, s.path ≠ [])
    (hext : ∀ k rules, (k, rules) ∈ G → ∀ r ∈ rules, ∀ l, r.rhs.getLast? = some l → l ∈ S → Ext k l)
    (href : ∀ h ∈ S, ∃ k rules r, (k, rules) ∈ G ∧ r ∈ rules ∧ r.rhs.getLast? = some h)
    {A X t : Sym} {rules : List (Rule Sym)} {r : Rule Sym} {i : Nat}
    (hm : (A, rules) ∈ G) (hr : r ∈ rules) (hi : r.rhs[i]? = some X) (hX : X ∉ T)
    (hn : NullIn T NG (r.rhs.drop (i + 1)))
    (ih : Follow U T NU FU start endS (rootOf A) t) :
    Follow U T NU FU start endS (rootOf X) t := by
  by_cases hXS : X ∈ S
  · rw [rootOf_ext (hext A rules hm r hr X (l1w_helper_last hR hm hr hi hXS).1 hXS)]
    exact ih
  · obtain ⟨hp, hγ⟩ := l1w_pos hR hm hr hi hXS
    obtain ⟨β', hf, hnull⟩ := l1w_tail_null hR hNU hNG hntU hp hγ hn
    obtain ⟨rules', r', j, hm', hr', hj, hd, hXp⟩ :=
      l1w_user_rule hR hU hSpath hext href (List.mem_map.2 ⟨_, hm, rfl⟩) hf
    rw [rootOf_user hXp]
    refine Follow.dep hm' hr' hj hX ?_ ih
    rw [hd]
    exact hnull

/-! ### the main statement -/

/-- FOLLOW of the factorised dictionary, read at the user symbol `rootOf s`, is contained in FOLLOW of
the user's dictionary -/
theorem follow_sub {FU FG : SetMap Sym} {start endS : Sym}
    (hR : FactRelD U G S) (hU : UserWF U)
    (hNU : nullables U = .ok NU) (hNG : nullables G = .ok NG)
    (hFU : firstSets T NU U = .ok FU) (hFG : firstSets T NG G = .ok FG)
    (hntU : ∀ s ∈ NU, s ∉ T) (hntG : ∀ s ∈ NG, s ∉ T)
    (hST : ∀ s ∈ S, s ∉ T) (hprod : ∀ s ∈ S, ∃ e, FlatD G S s e)
    (hSpath : ∀ s ∈ S, s.path ≠ [])
    (hext : ∀ k rules, (k, rules) ∈ G → ∀ r ∈ rules, ∀ l, r.rhs.getLast? = some l → l ∈ S → Ext k l)
    (href : ∀ h ∈ S, ∃ k rules r, (k, rules) ∈ G ∧ r ∈ rules ∧ r.rhs.getLast? = some h)
    (hstart : start.path = []) :
    ∀ s t, Follow G T NG FG start endS s t → Follow U T NU FU start endS (rootOf s) t := by
  intro s t h
  induction h with
  | start =>
    rw [rootOf_user hstart]
    exact Follow.start
  | imm hm hr hi hX hF =>
    exact l1w_imm hR hU hNU hNG hFU hFG hntU hntG hST hprod hSpath hext href hm hr hi hX hF
  | dep hm hr hi hX hn _ ih =>
    exact l1w_dep hR hU hNU hNG hntU hSpath hext href hm hr hi hX hn ih

end L1Follow

end LL

section
open LL
#print axioms below_exists
#print axioms follow_sub
end
