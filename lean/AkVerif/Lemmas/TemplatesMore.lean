import AkVerif.Lemmas.Templates
/-!
C05: Python `dict` semantics of the model's dictionaries, sequences, document order of the items, and the fact that
the template constructors produce well-formed options when user symbols do not contain `__`.
-/
namespace Templates
open Ak

/-! ### Python dict semantics -/

/-- keys in the order of their first occurrence -/
def firstOcc {α} [DecidableEq α] : List α → List α
  | [] => []
  | a :: as => a :: (firstOcc as).filter (fun x => x ≠ a)

/-- value of the last pair with the given key -/
def lastVal {α β} [DecidableEq α] : List (α × β) → α → Option β
  | [], _ => none
  | (k, v) :: ps, a =>
    match lastVal ps a with
    | some w => some w
    | none => if k = a then some v else none

theorem keys_dictSet {α β} [DecidableEq α] (d : List (α × β)) (k : α) (v : β) :
    (dictSet d k v).map (·.1) = if k ∈ d.map (·.1) then d.map (·.1) else d.map (·.1) ++ [k] := by
  induction d with
  | nil => simp [dictSet]
  | cons p d ih =>
    obtain ⟨a, b⟩ := p
    by_cases h : a = k
    · subst h; simp [dictSet]
    · have h' : ¬ k = a := fun e => h e.symm
      simp only [dictSet, h, if_false, List.map_cons, ih, List.mem_cons, h', false_or]
      by_cases hm : k ∈ d.map (·.1) <;> simp [hm]

theorem foldl_dictSet_keys {α β} [DecidableEq α] (ps : List (α × β)) (d : List (α × β)) :
    (ps.foldl (fun d p => dictSet d p.1 p.2) d).map (·.1) =
      d.map (·.1) ++ (firstOcc (ps.map (·.1))).filter (fun x => x ∉ d.map (·.1)) := by
  induction ps generalizing d with
  | nil => simp [firstOcc]
  | cons p ps ih =>
    obtain ⟨k, v⟩ := p
    simp only [List.foldl_cons, ih, keys_dictSet, List.map_cons, firstOcc]
    by_cases hk : k ∈ d.map (·.1)
    · simp only [hk, if_true, List.filter_cons, decide_not, Bool.not_true, decide_true, Bool.false_eq_true, if_false,
        List.filter_filter]
      congr 1
      apply List.filter_congr
      intro x _
      by_cases hx : x ∈ d.map (·.1)
      · simp [hx]
      · have : x ≠ k := fun e => hx (e ▸ hk)
        simp [hx, this]
    · simp only [hk, if_false, List.filter_cons, decide_not, decide_false, Bool.not_false, if_true, List.filter_filter,
        List.append_assoc, List.singleton_append]
      congr 2
      apply List.filter_congr
      intro x _
      by_cases hx : x = k
      · subst hx; simp
      · simp [hx]

/-- `dict(pairs)` lists every key once, at the position of its first occurrence -/
theorem dictOf_keys {α β} [DecidableEq α] (ps : List (α × β)) :
    (dictOf ps).map (·.1) = firstOcc (ps.map (·.1)) := by
  simp [dictOf, foldl_dictSet_keys]

theorem foldl_dictSet_lookup {α β} [DecidableEq α] (ps : List (α × β)) (d : List (α × β)) (a : α) :
    lookup (ps.foldl (fun d p => dictSet d p.1 p.2) d) a =
      match lastVal ps a with
      | some w => some w
      | none => lookup d a := by
  induction ps generalizing d with
  | nil => simp [lastVal]
  | cons p ps ih =>
    obtain ⟨k, v⟩ := p
    simp only [List.foldl_cons, ih, lastVal, lookup_dictSet]
    cases lastVal ps a with
    | some w => simp
    | none => by_cases h : k = a <;> simp [h]

/-- … and maps it to the value of its last occurrence -/
theorem dictOf_lookup {α β} [DecidableEq α] (ps : List (α × β)) (a : α) :
    lookup (dictOf ps) a = lastVal ps a := by
  simp only [dictOf, foldl_dictSet_lookup, lookup]
  cases lastVal ps a <;> rfl

/-- for string keys (`WORD` tokens) the model's `dict(kv_pairs)` is the generic dictionary -/
theorem pySet_str (d : List (List Char × Val)) (k : List Char) (v : Val) :
    pySet (d.map fun p => (Val.str p.1, p.2)) (.str k) v = (dictSet d k v).map fun p => (Val.str p.1, p.2) := by
  induction d with
  | nil => simp [pySet, dictSet]
  | cons p d ih =>
    obtain ⟨a, b⟩ := p
    by_cases h : a = k
    · subst h; simp [pySet, dictSet, keyEq]
    · simp [pySet, dictSet, keyEq, h, ih]

theorem pyDict_str (ps : List (List Char × Val)) :
    pyDict (ps.map fun p => (Val.str p.1, p.2)) = .ok ((dictOf ps).map fun p => (Val.str p.1, p.2)) := by
  have hall : (ps.map fun p => (Val.str p.1, p.2)).all (fun p => hashable p.1) = true := by
    simp [hashable]
  simp only [pyDict, hall, if_true, dictOf]
  congr 1
  suffices h : ∀ (d : List (List Char × Val)),
      List.foldl (fun d p => pySet d p.1 p.2) (d.map fun p => (Val.str p.1, p.2)) (ps.map fun p => (Val.str p.1, p.2)) =
        (List.foldl (fun d p => dictSet d p.1 p.2) d ps).map fun p => (Val.str p.1, p.2) by
    simpa using h []
  clear hall
  induction ps with
  | nil => simp
  | cons p ps ih =>
    intro d
    simp only [List.map_cons, List.foldl_cons, pySet_str]
    exact ih _

/-! ### sequences -/

/-- the un-flattened raw tree of a sequence (what the parse loop builds from `SEQ -> SEQ__ELEMENT SEQ | ()`) and the
matched elements in source order -/
inductive SeqShape (name : Name) : Val → List Val → Prop
  | nil (leaf : Bool) : SeqShape name (.elem name leaf .none) []
  | cons (en : Name) (el : Bool) (x tl : Val) (xs : List Val) (leaf : Bool) : SeqShape name tl xs →
      SeqShape name (.elem name leaf (.list [.elem en el (.list [x]), tl])) (x :: xs)

theorem flattenSeq_shape {name : Name} {t : Val} {xs : List Val} (h : SeqShape name t xs) :
    flattenSeq t = .ok (.elem name true (.list xs)) := by
  induction h with
  | nil leaf => simp [flattenSeq, processSeq]
  | cons en el x tl xs leaf _ ih =>
    rw [flattenSeq]
    simp [ih, bind, Except.bind, processSeq]

/-- cleaning the matched elements of a sequence one by one (default flags), in order -/
def cleanElems (cl : Cleanuper) : List Val → Except Err (List Val)
  | [] => .ok []
  | x :: xs =>
    match cleanup cl x false false with
    | .error e => .error e
    | .ok r =>
      match cleanElems cl xs with
      | .error e => .error e
      | .ok rs => .ok (r.1.toVal :: rs)

def allElems : List Val → Bool
  | [] => true
  | .elem _ _ _ :: xs => allElems xs
  | _ :: _ => false

theorem cleanSeq_elems (cl : Cleanuper) (xs : List Val) (h : allElems xs = true) :
    cleanSeq cl xs = cleanElems cl xs := by
  induction xs with
  | nil => simp [cleanSeq, cleanElems]
  | cons x xs ih =>
    cases x <;> simp [allElems] at h
    rw [cleanSeq]
    simp only [cleanElems, ih h, bind, Except.bind, pure, Except.pure]
    rename_i n l v
    cases cleanup cl (.elem n l v) false false <;> simp
    cases cleanElems cl xs <;> simp

theorem cleanElems_length (cl : Cleanuper) (xs rs : List Val) (h : cleanElems cl xs = .ok rs) :
    rs.length = xs.length := by
  induction xs generalizing rs with
  | nil => simp [cleanElems] at h; subst h; rfl
  | cons x xs ih =>
    simp only [cleanElems] at h
    cases hc : cleanup cl x false false with
    | error e => simp [hc] at h
    | ok r =>
      cases hr : cleanElems cl xs with
      | error e => simp [hc, hr] at h
      | ok rs' =>
        simp [hc, hr] at h
        subst h
        simp [ih rs' hr]

theorem cleanup_seq_leaf (cl : Cleanuper) (name : Name) (xs : List Val) (fc fch : Bool)
    (hT : lookup cl.templates name = none) (h : allElems xs = true) :
    cleanup cl (.elem name true (.list xs)) fc fch =
      match cleanElems cl xs with
      | .ok rs => .ok ((name, true, .list rs), fch)
      | .error e => .error e := by
  rw [cleanup]
  simp only [hT, cleanSeq_elems cl xs h, bind, Except.bind, pure, Except.pure]
  cases cleanElems cl xs <;> simp

/-! ### source order -/

mutual
/-- all nodes of a tree in document order (a node before its children, children left to right) -/
def preorder : Val → List Val
  | .elem n l (.list xs) => .elem n l (.list xs) :: preorderAll xs
  | t => [t]
def preorderAll : List Val → List Val
  | [] => []
  | x :: xs => preorder x ++ preorderAll xs
end

theorem preorder_node (n : Name) (l : Bool) (xs : List Val) :
    preorder (.elem n l (.list xs)) = .elem n l (.list xs) :: preorderAll xs := by
  rw [preorder]
theorem preorderAll_cons (x : Val) (xs : List Val) : preorderAll (x :: xs) = preorder x ++ preorderAll xs := by
  rw [preorderAll]
theorem preorderAll_nil : preorderAll [] = [] := by
  rw [preorderAll]

theorem head_preorder (t : Val) : ∃ r, preorder t = t :: r := by
  cases t with
  | elem n l v =>
    cases v with
    | list xs => exact ⟨_, preorder_node n l xs⟩
    | _ => exact ⟨[], by rw [preorder]; intro _ _ _ h; cases h⟩
  | _ => exact ⟨[], by rw [preorder]; intro _ _ _ h; cases h⟩

theorem sublist_cons_preorder {t : Val} {is r : List Val} (h : is.Sublist r) :
    (t :: is).Sublist (preorder t ++ r) := by
  obtain ⟨q, hq⟩ := head_preorder t
  rw [hq]
  exact (h.trans (List.sublist_append_right q r)).cons_cons t

theorem tail_items_sublist {o : ListOpts} {t : Val} {is : List Val} {f : Bool} (h : TailShape o t is f) :
    is.Sublist (preorder t) := by
  induction h with
  | nil => simp
  | fin d l v _ _ => simp
  | consNone il iv tl is f _ _ ih =>
    simp only [preorder_node, preorderAll_cons, preorderAll_nil, List.append_nil]
    exact (sublist_cons_preorder ih).cons _
  | consSome d dl dv il iv tl is f _ _ ih =>
    simp only [preorder_node, preorderAll_cons, preorderAll_nil, List.append_nil]
    exact ((sublist_cons_preorder ih).trans (List.sublist_append_right _ _)).cons _

theorem list_items_sublist {o : ListOpts} {t : Val} {is : List Val} {f : Bool}
    (h : ListShape o t (some (is, f))) : is.Sublist (preorder t) := by
  cases h with
  | emptyNoBr _ => simp
  | noBr il iv tl is f _ ht =>
    simp only [preorder_node, preorderAll_cons, preorderAll_nil, List.append_nil]
    exact (sublist_cons_preorder (tail_items_sublist ht)).cons _
  | emptyBr ob cb ol ov cl' cv _ _ => simp
  | br ob cb ol ov cl' cv il iv tl is f _ _ ht =>
    simp only [preorder_node, preorderAll_cons, preorderAll_nil, List.append_nil]
    have h1 : is.Sublist (preorder tl ++ preorder (.elem cb cl' cv)) :=
      (tail_items_sublist ht).trans (List.sublist_append_left _ _)
    exact ((sublist_cons_preorder h1).trans (List.sublist_append_right _ _)).cons _

/-! ### the constructors give well-formed options when user names do not contain `__` -/

theorem tailSuffix_du : hasDU tailSuffix = true := by decide
theorem kvPairSuffix_du : hasDU kvPairSuffix = true := by decide
theorem kvTailSuffix_du : hasDU kvTailSuffix = true := by decide

theorem ne_append_of_du {n r s : Name} (hn : hasDU n = false) (hs : hasDU s = true) : n ≠ r ++ s := by
  intro e
  have := hasDU_append_right r s hs
  rw [← e, hn] at this
  cases this

theorem ListOpts.wf_of_mk (a : ListArgs) (res : Name) (o : ListOpts) (h : mkListOpts a res = .ok o)
    (hitem : hasDU a.item = false)
    (hopen : ∀ n, a.openBr = some n → hasDU n = false ∧ n ≠ a.item)
    (hclose : ∀ n, a.closeBr = some n → hasDU n = false ∧ n ≠ a.item)
    (hdelim : ∀ n, a.delim = some n → hasDU n = false ∧ n ≠ a.item)
    (hres : a.openBr = none → a.delim = none → a.item ≠ res) : o.WF := by
  obtain ⟨ob, item, dl, cb, afd, opt⟩ := a
  have e1 := @ne_append_of_du item res tailSuffix hitem tailSuffix_du
  cases ob <;> cases cb <;> cases dl <;> cases afd <;> cases opt <;>
    simp [mkListOpts] at h <;>
    (try (rename_i b; cases b <;> simp at h)) <;>
    (try (rename_i b c; cases b <;> cases c <;> simp at h)) <;>
    (try subst h) <;>
    (constructor <;> simp_all [ListOpts.tailSym] <;>
      (try (apply ne_append_of_du _ tailSuffix_du; first | exact hopen.1 | exact hclose.1 | exact hdelim.1)))

theorem MapOpts.wf_of_mk (a : MapArgs) (res : Name) (o : MapOpts) (h : mkMapOpts a res = .ok o)
    (hopen : ∀ n, a.openBr = some n → hasDU n = false)
    (hclose : ∀ n, a.closeBr = some n → hasDU n = false)
    (hdelim : ∀ n, a.delim = some n → hasDU n = false) : o.WF := by
  obtain ⟨ob, key, asg, val, dl, cb, opt, afd⟩ := a
  cases ob <;> cases cb <;> cases dl <;> cases asg <;> cases opt <;>
    simp [mkMapOpts] at h <;>
    (try subst h) <;>
    (constructor <;> simp_all [MapOpts.kvPairSym, MapOpts.kvTailSym] <;>
      (first
        | (apply ne_append_of_du _ kvPairSuffix_du; first | exact hopen | exact hclose | exact hdelim)
        | (apply ne_append_of_du _ kvTailSuffix_du; first | exact hopen | exact hclose | exact hdelim)))

/-! ### final delimiter -/

theorem tailShape_fin_afd {o : ListOpts} {t : Val} {is : List Val} (h : TailShape o t is true) : o.afd = true := by
  generalize hf : true = f at h
  induction h with
  | nil => cases hf
  | fin d l v ha _ => exact ha
  | consNone il iv tl is f _ _ ih => exact ih hf
  | consSome d dl dv il iv tl is f _ _ ih => exact ih hf

theorem listShape_fin_afd {o : ListOpts} {t : Val} {is : List Val} (h : ListShape o t (some (is, true))) :
    o.afd = true := by
  cases h with
  | noBr il iv tl is f _ ht => exact tailShape_fin_afd ht
  | br ob cb ol ov cl' cv il iv tl is f _ _ ht => exact tailShape_fin_afd ht

theorem kvTailShape_fin_afd {o : MapOpts} {t : Val} {ps : List (Val × Val)} (h : KvTailShape o t ps true) :
    o.afd = true := by
  generalize hf : true = f at h
  induction h with
  | nil => cases hf
  | fin l v ha => exact ha
  | cons dl dv p k w tl ps f _ _ ih => exact ih hf

theorem mapShape_fin_afd {o : MapOpts} {t : Val} {ps : List (Val × Val)} (h : MapShape o t (some (ps, true))) :
    o.afd = true := by
  cases h with
  | noBr p k w tl ps f _ _ ht => exact kvTailShape_fin_afd ht
  | br ob cb ol ov cl' cv p k w tl ps f _ _ _ ht => exact kvTailShape_fin_afd ht

theorem lastIsNone_append_none (vs : List Val) : lastIsNone (vs ++ [.none]) = true := by
  induction vs with
  | nil => simp [lastIsNone, Val.isNone]
  | cons x xs ih =>
    cases xs with
    | nil => simp [lastIsNone, Val.isNone]
    | cons y ys => simpa [lastIsNone] using ih

theorem adjust_drop_none (o : ListOpts) (ha : o.afd = true) (vs : List Val) : adjust o (vs ++ [.none]) = vs := by
  simp [adjust, lastIsNone_append_none, ha]

/-! ### `_make_squash_data` -/

/-- one step of the loop of `_make_squash_data` -/
def squashOK (suffix : List Name) (p : Name × List (List Name)) : Bool :=
  decide (p.1 ∉ suffix) && p.2.all (fun r => r.length ≤ 1)

theorem count_le_one (rules : List (List Name)) :
    ((rules.filter fun r => r.length = 0).length + (rules.filter fun r => r.length = 1).length < rules.length) =
      !(rules.all fun r => decide (r.length ≤ 1)) := by
  have key : ∀ rules : List (List Name),
      (rules.filter fun r => r.length = 0).length + (rules.filter fun r => r.length = 1).length ≤ rules.length ∧
      ((rules.filter fun r => r.length = 0).length + (rules.filter fun r => r.length = 1).length = rules.length ↔
        rules.all (fun r => decide (r.length ≤ 1)) = true) := by
    intro rules
    induction rules with
    | nil => simp
    | cons r rs ih =>
      obtain ⟨h1, h2⟩ := ih
      by_cases h0 : r.length = 0
      · have e0 : decide (r.length = 0) = true := by simp [h0]
        have e1 : decide (r.length = 1) = false := by simp [h0]
        have e2 : decide (r.length ≤ 1) = true := by simp [h0]
        simp only [List.filter_cons, e0, e1, e2, if_true, List.length_cons, List.all_cons, Bool.true_and,
          Bool.false_eq_true, if_false]
        constructor
        · omega
        · rw [← h2]; omega
      · by_cases h1' : r.length = 1
        · have e0 : decide (r.length = 0) = false := by simp [h1']
          have e1 : decide (r.length = 1) = true := by simp [h1']
          have e2 : decide (r.length ≤ 1) = true := by simp [h1']
          simp only [List.filter_cons, e0, e1, e2, if_true, List.length_cons, List.all_cons, Bool.true_and,
            Bool.false_eq_true, if_false]
          constructor
          · omega
          · rw [← h2]; omega
        · have e0 : decide (r.length = 0) = false := by simp [h0]
          have e1 : decide (r.length = 1) = false := by simp [h1']
          have e2 : decide (r.length ≤ 1) = false := by simp; omega
          simp only [List.filter_cons, e0, e1, e2, List.length_cons, List.all_cons, Bool.false_and,
            Bool.false_eq_true, if_false, iff_false]
          omega
  obtain ⟨h1, h2⟩ := key rules
  by_cases h : rules.all (fun r => decide (r.length ≤ 1)) = true
  · have := h2.mpr h
    simp [h, -List.length_eq_zero_iff]; omega
  · have hne : ¬ _ := fun e => h (h2.mp e)
    simp [h, -List.length_eq_zero_iff]
    omega

theorem mkSquashData_eq (P : Prods) (suffix : List Name) :
    mkSquashData P suffix =
      ((P.filter (squashOK suffix)).map (·.1),
       ((P.filter (squashOK suffix)).filter fun p => 1 < (p.2.filter fun r => r.length = 1).length).map (·.1)) := by
  unfold mkSquashData
  suffices h : ∀ (acc : List Name × List Name),
      List.foldl (fun (acc : List Name × List Name) (p : Name × List (List Name)) =>
        if p.1 ∈ suffix then acc else
        let nNull := (p.2.filter fun r => r.length = 0).length
        let nOne := (p.2.filter fun r => r.length = 1).length
        if nNull + nOne < p.2.length then acc else
        (acc.1 ++ [p.1], if nOne > 1 then acc.2 ++ [p.1] else acc.2)) acc P =
      (acc.1 ++ (P.filter (squashOK suffix)).map (·.1),
       acc.2 ++ ((P.filter (squashOK suffix)).filter fun p => 1 < (p.2.filter fun r => r.length = 1).length).map (·.1)) by
    simpa using h ([], [])
  induction P with
  | nil => intro acc; simp
  | cons p P ih =>
    intro acc
    simp only [List.foldl_cons]
    by_cases hs : p.1 ∈ suffix
    · simp [hs, ih, squashOK, -List.length_eq_zero_iff]
    · by_cases hr : p.2.all (fun r => decide (r.length ≤ 1)) = true
      · have hc := count_le_one p.2
        rw [hr] at hc
        simp [-List.length_eq_zero_iff] at hc
        have hlt : ¬ ((p.2.filter fun r => r.length = 0).length + (p.2.filter fun r => r.length = 1).length < p.2.length) := by
          omega
        by_cases h1 : 1 < (p.2.filter fun r => r.length = 1).length
        · simp [hs, hlt, ih, squashOK, hr, h1, -List.length_eq_zero_iff]
        · simp [hs, hlt, ih, squashOK, hr, h1, -List.length_eq_zero_iff]
      · have hc := count_le_one p.2
        simp only [Bool.not_eq_true] at hr
        rw [hr] at hc
        simp [-List.length_eq_zero_iff] at hc
        simp [hs, hc, ih, squashOK, hr, -List.length_eq_zero_iff]

/-! ### `AnyTokenExcept` -/

/-- what an argument of `ProdSequence` stands for -/
def SymArg.denote (terminals : List Name) : SymArg → List Name
  | .sym s => [s]
  | .anyExcept ex => terminals.filter fun t => decide (t ∉ ex)

theorem getTokens_ok {terminals ex out : List Name} (h : getTokens terminals ex = .ok out) :
    out = terminals.filter fun t => decide (t ∉ ex) := by
  unfold getTokens at h
  split at h
  · cases h
  · cases h; rfl

theorem expandArgs_ok {terminals : List Name} {args : List SymArg} {out : List Name}
    (h : expandArgs terminals args = .ok out) : out = args.flatMap (SymArg.denote terminals) := by
  induction args generalizing out with
  | nil => simp [expandArgs] at h; subst h; rfl
  | cons a rest ih =>
    cases a with
    | sym s =>
      simp only [expandArgs] at h
      cases hr : expandArgs terminals rest with
      | error e => simp [hr] at h
      | ok r =>
        simp [hr] at h
        subst h
        simp [List.flatMap_cons, SymArg.denote, ih hr]
    | anyExcept ex =>
      simp only [expandArgs] at h
      cases hg : getTokens terminals ex with
      | error e => simp [hg] at h
      | ok ts =>
        cases hr : expandArgs terminals rest with
        | error e => simp [hg, hr] at h
        | ok r =>
          simp [hg, hr] at h
          subst h
          simp [List.flatMap_cons, SymArg.denote, ih hr, getTokens_ok hg]

theorem seqSymbols_ok {terminals : List Name} {args : List SymArg} {out : List Name}
    (h : seqSymbols terminals args = .ok out) : out = args.flatMap (SymArg.denote terminals) := by
  unfold seqSymbols at h
  split at h
  · cases h
  · exact expandArgs_ok h

/-- what an entry of a list of productions stands for -/
def ProdArg.denote (terminals : List Name) : ProdArg → List (List Name)
  | .empty => [[]]
  | .tuple p => [p]
  | .anyExcept ex => (terminals.filter fun t => decide (t ∉ ex)).map fun t => [t]

theorem prodRules_ok {terminals : List Name} {args : List ProdArg} {seen : Bool} {out : List (List Name)}
    (h : prodRules terminals args seen = .ok out) : out = args.flatMap (ProdArg.denote terminals) := by
  induction args generalizing out seen with
  | nil => simp [prodRules] at h; subst h; rfl
  | cons a rest ih =>
    cases a with
    | empty =>
      simp only [prodRules] at h
      cases hr : prodRules terminals rest seen with
      | error e => simp [hr] at h
      | ok r => simp [hr] at h; subst h; simp [List.flatMap_cons, ProdArg.denote, ih hr]
    | tuple p =>
      simp only [prodRules] at h
      cases hr : prodRules terminals rest seen with
      | error e => simp [hr] at h
      | ok r => simp [hr] at h; subst h; simp [List.flatMap_cons, ProdArg.denote, ih hr]
    | anyExcept ex =>
      simp only [prodRules] at h
      cases seen with
      | true => simp at h
      | false =>
        simp only [Bool.false_eq_true, if_false] at h
        cases hg : getTokens terminals ex with
        | error e => simp [hg] at h
        | ok ts =>
          cases hr : prodRules terminals rest true with
          | error e => simp [hg, hr] at h
          | ok r =>
            simp [hg, hr] at h
            subst h
            simp [List.flatMap_cons, ProdArg.denote, ih hr, getTokens_ok hg]

theorem lookup_seqGenProds_elem (res : Name) (syms : List Name) :
    lookup (seqGenProds res syms) (res ++ seqElemSuffix) = some (syms.map fun s => [s]) := by
  have h : res ≠ res ++ seqElemSuffix := fun e => append_ne_self res seqElemSuffix (by decide) e.symm
  simp [seqGenProds, lookup, h]

end Templates
