import AkVerif.Lemmas.GhistBranch
/-!
The obsolete-branch test of `RGraph.__init__`: when the commit times are inside the window (`Hist.InWindow`, stated
with the generated `_OBSOLETE_BRANCH_CUTOFF_PERIOD`) no branch is skipped, so the graph is the one of the loop without
the test (`rgraphNW`), about which the other lemma files speak.
-/
namespace Ghist
open Ak

section
variable {π β : Type} {h : Hist π}

/-- the recorded time of a report commit is the time of its commit -/
def RcTime (h : Hist π) (rcs : List RC) : Prop :=
  ∀ (i : Nat) (rc : RC), rcs[i]? = some rc → ∃ cm, h.commits[rc.commit]? = some cm ∧ rc.time = cm.time

/-- `min_rbuild_timestamp`, when set, is the time of some commit -/
def TimeOf (h : Hist π) (mt : Option Nat) : Prop :=
  ∀ m, mt = some m → ∃ (c : Nat) (cm : Commit π), h.commits[c]? = some cm ∧ cm.time = m

theorem finish_ext {pl : Plug π β} {head : Nat} {st st' : St β} {c : Nat} {cm : Commit π} {fr : List Nat}
    {rel : List Nat} (hf : finish pl head rel st c cm fr = .ok st') :
    ∃ ext, st'.rp.rcs = st.rp.rcs ++ ext ∧ ∀ rc ∈ ext, rc.commit = c ∧ rc.time = cm.time := by
  cases finish_cases hf with
  | irrelevant => exact ⟨[], by simp [Repo.addDone]⟩
  | plain => exact ⟨[], by simp only [Repo.addPlain]; split <;> simp [Repo.addDone, Repo.addVisited]⟩
  | plainMatch =>
    exact ⟨[{ commit := c, parents := fr, explicit := true, bns := [], time := cm.time }], by simp [Repo.addRC]⟩
  | skip bpar new pb pbs bumps =>
    exact ⟨[], by simp only [St.skipBuild, Repo.addPlain]; split <;> simp [Repo.addDone, Repo.addVisited]⟩
  | build bpar new pb pbs bumps bn na =>
    exact ⟨[{ commit := c, parents := fr, explicit := cm.isMatch, bns := buildNums cm (c == head), time := cm.time }],
      by simp [St.addBuild, Repo.addRC]⟩

theorem RcTime.append {rcs ext : List RC} (ht : RcTime h rcs) {c : Nat} {cm : Commit π}
    (hcm : h.commits[c]? = some cm) (hx : ∀ rc ∈ ext, rc.commit = c ∧ rc.time = cm.time) : RcTime h (rcs ++ ext) := by
  intro i rc hi
  by_cases hlt : i < rcs.length
  · rw [List.getElem?_append_left hlt] at hi
    exact ht i rc hi
  · rw [List.getElem?_append_right (by omega)] at hi
    obtain ⟨h1, h2⟩ := hx rc (List.mem_of_getElem? hi)
    exact ⟨cm, by rw [h1]; exact hcm, h2⟩

theorem visit_rcTime (hT : h.Topo) {pl : Plug π β} {head : Nat} {fuel : Nat} {s s' : St β}
    {acc acc' : List Nat} {c : Nat} (ht : RcTime h s.rp.rcs)
    {rel : List Nat} (hv : visit h pl head fuel rel (s, acc) c = .ok (s', acc')) : RcTime h s'.rp.rcs := by
  have H : VisitHyps h pl head (fun s => RcTime h s.rp.rcs) (fun _ _ _ => True) (fun _ _ => True) (fun _ => True) :=
    { Rrefl := fun _ => trivial
      Rtrans := fun _ _ => trivial
      Qmono := fun _ _ _ _ => trivial
      Qnil := fun _ _ => trivial
      Qcls := fun _ _ _ _ => trivial
      Vstep := fun _ _ _ => trivial
      Hfin := by
        intro rel s c cm fr s' hP _ _ hcm _ hf
        obtain ⟨ext, h1, h2⟩ := finish_ext hf
        refine ⟨?_, trivial⟩
        show RcTime h s'.rp.rcs
        rw [h1]
        exact hP.append hcm h2 }
  exact (visit_ind hT H fuel s [] acc c s' acc' ht trivial trivial hv).1

theorem readBranch_rcTime (hT : h.Topo) {pl : Plug π β} {first : Bool} {rp : Repo β} {b : Branch} {rp' : Repo β}
    {rb : RBranch β} (ht : RcTime h rp.rcs) (hr : readBranch h pl first rp b = .ok (rp', rb)) : RcTime h rp'.rcs := by
  obtain ⟨hc0, st, rheads, hhc0, hv, he⟩ := readBranch_inv hr
  rw [(endBranch_spec he).rcs]
  exact visit_rcTime hT ht hv

theorem minTs_timeOf {rcs : List RC} (ht : RcTime h rcs) : ∀ (bm : List (BN × Nat)) (mt mt1 : Option Nat),
    minTs rcs mt bm = .ok mt1 → TimeOf h mt → TimeOf h mt1 := by
  intro bm
  induction bm with
  | nil => intro mt mt1 hm hmt; simp only [minTs] at hm; cases hm; exact hmt
  | cons e bm ih =>
    intro mt mt1 hm hmt
    obtain ⟨bn, i⟩ := e
    simp only [minTs] at hm
    split at hm
    · cases hm
    · rename_i rc hrc
      refine ih _ mt1 hm ?_
      obtain ⟨cm, hcm, htime⟩ := ht i rc hrc
      intro m hmeq
      cases mt with
      | none =>
        simp only [Option.some.injEq] at hmeq
        exact ⟨rc.commit, cm, hcm, by rw [← hmeq, htime]⟩
      | some x =>
        simp only [Option.some.injEq] at hmeq
        rw [Nat.min_def] at hmeq
        split at hmeq
        · exact ⟨rc.commit, cm, hcm, by rw [← hmeq, htime]⟩
        · exact hmt m (by rw [hmeq])

/-- inside the window no branch is skipped -/
theorem readBranches_nw (hT : h.Topo) {pl : Plug π β} : ∀ (bs : List Branch),
    (∀ b ∈ bs, ∀ hc, h.commits[b.head]? = some hc →
      ∀ (c : Nat) (cm : Commit π), h.commits[c]? = some cm → cm.time ≤ hc.time + Gen.Ghist.obsoleteCutoff) →
    ∀ (mt : Option Nat) (first : Bool) (rp : Repo β) (res : Repo β × List (RBranch β) × Option Nat),
      RcTime h rp.rcs → TimeOf h mt → readBranches h pl mt first rp bs = .ok res →
      readBranchesNW h pl first rp bs = .ok (res.1, res.2.1) := by
  intro bs
  induction bs with
  | nil => intro _ mt first rp res _ _ hr; simp only [readBranches] at hr; cases hr; rfl
  | cons b bs ih =>
    intro hW mt first rp res ht hmt hr
    simp only [readBranches] at hr
    split at hr
    · cases hr
    · rename_i hc hhc
      have hnot : obsolete mt hc.time = false := by
        unfold obsolete
        cases mt with
        | none => rfl
        | some m =>
          obtain ⟨c, cm, hcm, htm⟩ := hmt m rfl
          have := hW b (by simp) hc hhc c cm hcm
          simp only [decide_eq_false_iff_not]
          omega
      simp only [hnot, Bool.false_eq_true, if_false] at hr
      split at hr
      · cases hr
      · rename_i rp1 rb h1
        split at hr
        · cases hr
        · rename_i mt1 hm
          have ht1 := readBranch_rcTime hT ht h1
          have hmt1 := minTs_timeOf ht1 rb.bnMap mt mt1 hm hmt
          split at hr
          · cases hr
          · rename_i rp2 rbs mt2 h2
            have := ih (fun b' hb' => hW b' (by simp [hb'])) mt1 false rp1 (rp2, rbs, mt2) ht1 hmt1 h2
            cases hr
            simp only [readBranchesNW, h1, this]

/-- inside the window the graph is the graph of the loop without the obsolete-branch test -/
theorem rgraph_nw (hT : h.Topo) (hW : h.InWindow) {pl : Plug π β} {g : Graph β} (hg : rgraph h pl = .ok g) :
    rgraphNW h pl g.minTs = .ok g := by
  unfold rgraph at hg
  split at hg
  · cases hg
  · rename_i rp rbs mt hr
    have := readBranches_nw hT (branchesOf h) hW none true Repo.empty (rp, rbs, mt)
      (by intro i rc hi; simp [Repo.empty] at hi) (by intro m hm; cases hm) hr
    cases hg
    simp only [rgraphNW, this]

/-- decidable form of `Hist.InWindow` (for concrete histories) -/
def Hist.inWindowB (h : Hist π) : Bool :=
  (branchesOf h).all fun b =>
    match h.commits[b.head]? with
    | none => true
    | some hc => h.commits.all fun cm => decide (cm.time ≤ hc.time + Gen.Ghist.obsoleteCutoff)

theorem Hist.inWindow_of_B (hb : h.inWindowB = true) : h.InWindow := by
  intro b hbm hc hhc c cm hcm
  unfold Hist.inWindowB at hb
  have h1 := List.all_eq_true.mp hb b hbm
  simp only [hhc] at h1
  have h2 := List.all_eq_true.mp h1 cm (List.mem_of_getElem? hcm)
  simpa using h2

end

end Ghist
