import AkVerif.Model.TableFmt
import AkVerif.Lemmas.Table
/-!
Lemmas about the format-string model (`Model/TableFmt.lean`): `split`/`strip`/`int` on what the
serialiser prints, and the round trip of one column, of the column list and of the whole format.
-/
namespace Table
open Ak

/-! ## split -/

theorem splitAux_no_sep (sep : Char) (cur a : List Char) (h : sep ∉ a) :
    splitAux sep cur a = [cur.reverse ++ a] := by
  induction a generalizing cur with
  | nil => simp [splitAux]
  | cons c cs ih =>
    have hc : c ≠ sep := fun e => h (by simp [e])
    have hcs : sep ∉ cs := fun e => h (List.mem_cons_of_mem _ e)
    simp [splitAux, hc, ih (c :: cur) hcs]

theorem splitAux_append (sep : Char) (cur a rest : List Char) (h : sep ∉ a) :
    splitAux sep cur (a ++ sep :: rest) = (cur.reverse ++ a) :: splitAux sep [] rest := by
  induction a generalizing cur with
  | nil => simp [splitAux]
  | cons c cs ih =>
    have hc : c ≠ sep := fun e => h (by simp [e])
    have hcs : sep ∉ cs := fun e => h (List.mem_cons_of_mem _ e)
    simp [splitAux, hc, ih (c :: cur) hcs]

theorem splitOn_no_sep (sep : Char) (a : List Char) (h : sep ∉ a) : splitOn sep a = [a] := by
  simp [splitOn, splitAux_no_sep sep [] a h]

theorem splitOn_append (sep : Char) (a rest : List Char) (h : sep ∉ a) :
    splitOn sep (a ++ sep :: rest) = a :: splitOn sep rest := by
  simp [splitOn, splitAux_append sep [] a rest h]

theorem splitOn_joinWith (sep : Char) (parts : List (List Char)) (hne : parts ≠ [])
    (h : ∀ p ∈ parts, sep ∉ p) : splitOn sep (joinWith sep parts) = parts := by
  induction parts with
  | nil => exact absurd rfl hne
  | cons a rest ih =>
    cases rest with
    | nil => simp [joinWith, splitOn_no_sep sep a (h a (by simp))]
    | cons b rest' =>
      simp only [joinWith]
      rw [splitOn_append sep a _ (h a (by simp))]
      rw [ih (by simp) (fun p hp => h p (List.mem_cons_of_mem _ hp))]

theorem mem_joinWith (sep c : Char) (parts : List (List Char)) (h : c ∈ joinWith sep parts) :
    c = sep ∨ ∃ p ∈ parts, c ∈ p := by
  induction parts with
  | nil => simp [joinWith] at h
  | cons a rest ih =>
    cases rest with
    | nil => simp only [joinWith] at h; exact Or.inr ⟨a, by simp, h⟩
    | cons b rest' =>
      simp only [joinWith, List.mem_append, List.mem_cons] at h
      rcases h with h | h | h
      · exact Or.inr ⟨a, by simp, h⟩
      · exact Or.inl h
      · rcases ih h with h | ⟨p, hp, hc⟩
        · exact Or.inl h
        · exact Or.inr ⟨p, List.mem_cons_of_mem _ hp, hc⟩

theorem mem_joinWith_of_mem (sep c : Char) (parts : List (List Char)) (p : List Char) (hp : p ∈ parts)
    (hc : c ∈ p) : c ∈ joinWith sep parts := by
  induction parts with
  | nil => simp at hp
  | cons a rest ih =>
    cases rest with
    | nil => simp at hp; subst hp; simpa [joinWith] using hc
    | cons b rest' =>
      simp only [joinWith, List.mem_append, List.mem_cons]
      rcases List.mem_cons.mp hp with rfl | hp
      · exact Or.inl hc
      · exact Or.inr (Or.inr (ih hp))

/-! ## strip -/

/-- no blank at either end (the empty string qualifies) -/
def EdgeOk (s : List Char) : Prop :=
  (∀ c, s.head? = some c → isSpace c = false) ∧ (∀ c, s.getLast? = some c → isSpace c = false)

theorem lstrip_id (s : List Char) (h : ∀ c, s.head? = some c → isSpace c = false) : lstrip s = s := by
  cases s with
  | nil => rfl
  | cons c cs => simp [lstrip, List.dropWhile, h c rfl]

theorem rstrip_id (s : List Char) (h : ∀ c, s.getLast? = some c → isSpace c = false) : rstrip s = s := by
  unfold rstrip
  have : s.reverse.dropWhile isSpace = s.reverse := by
    apply lstrip_id
    intro c hc
    rw [List.head?_reverse] at hc
    exact h c hc
  rw [this, List.reverse_reverse]

theorem strip_id (s : List Char) (h : EdgeOk s) : strip s = s := by
  unfold strip
  rw [lstrip_id s h.1, rstrip_id s h.2]

theorem edgeOk_of_all (s : List Char) (h : ∀ c ∈ s, isSpace c = false) : EdgeOk s :=
  ⟨fun c hc => h c (List.mem_of_mem_head? hc), fun c hc => h c (List.mem_of_getLast? hc)⟩

/-! ## decimal numbers -/

theorem spaceCodes_not_digit : ∀ n ∈ Gen.C12.spaceCodes, n < 45 ∨ 57 < n := by decide

theorem isSpace_false_of_range (c : Char) (h : 45 ≤ c.toNat ∧ c.toNat ≤ 57) : isSpace c = false := by
  unfold isSpace
  cases hc : Gen.C12.spaceCodes.contains c.toNat with
  | false => rfl
  | true =>
    have := spaceCodes_not_digit c.toNat (by simpa using hc)
    omega

theorem isDigit_range (c : Char) (h : c.isDigit = true) : 48 ≤ c.toNat ∧ c.toNat ≤ 57 := by
  simp only [Char.isDigit, Bool.and_eq_true, decide_eq_true_eq] at h
  have h1 : (48 : UInt32) ≤ c.val := h.1
  have h2 : c.val ≤ (57 : UInt32) := h.2
  simp only [Char.toNat]
  constructor
  · exact UInt32.le_iff_toNat_le.mp h1
  · exact UInt32.le_iff_toNat_le.mp h2

theorem natToDec_digits (n : Nat) : ∀ c ∈ natToDec n, c.isDigit = true :=
  fun _ hc => Nat.isDigit_of_mem_toDigits (by decide) (by decide) hc

theorem natToDec_ne_nil (n : Nat) : natToDec n ≠ [] := Nat.toDigits_ne_nil

/-- a character of a printed number is none of the marks of the format syntax, and not a blank -/
theorem digit_facts (c : Char) (h : c.isDigit = true) :
    isSpace c = false ∧ c ≠ ',' ∧ c ≠ ':' ∧ c ≠ ';' ∧ c ≠ '!' ∧ c ≠ '/' ∧ c ≠ '<' ∧ c ≠ '(' ∧ c ≠ ')'
      ∧ c ≠ '-' ∧ c ≠ '+' ∧ c ≠ '_' ∧ c ≠ '*' := by
  have hr := isDigit_range c h
  refine ⟨isSpace_false_of_range c (by omega), ?_, ?_, ?_, ?_, ?_, ?_, ?_, ?_, ?_, ?_, ?_, ?_⟩ <;>
    (intro e; subst e; revert hr; decide)

theorem parseDigits_natToDec (n : Nat) : parseDigits (natToDec n) = some n := by
  have hd := natToDec_digits n
  have hne := natToDec_ne_nil n
  have hus : '_' ∉ natToDec n := fun hc => (digit_facts _ (hd _ hc)).2.2.2.2.2.2.2.2.2.2.2.1 rfl
  have hsplit : splitOn '_' (natToDec n) = [natToDec n] := splitOn_no_sep _ _ hus
  have hall : (natToDec n).all Char.isDigit = true := by rw [List.all_eq_true]; exact hd
  have hemp : (natToDec n).isEmpty = false := by
    cases h : natToDec n with
    | nil => exact absurd h hne
    | cons _ _ => rfl
  have hval : Nat.ofDigitChars 10 (natToDec n) 0 = n := Nat.ofDigitChars_ten_toDigits
  simp [parseDigits, hsplit, hall, hemp, hval]

theorem signSplit_digit (s : List Char) (h : ∀ c, s.head? = some c → c.isDigit = true) :
    signSplit s = (false, s) := by
  cases s with
  | nil => rfl
  | cons c cs =>
    have hc := h c rfl
    have hm : c ≠ '-' := (digit_facts c hc).2.2.2.2.2.2.2.2.2.1
    have hp : c ≠ '+' := (digit_facts c hc).2.2.2.2.2.2.2.2.2.2.1
    unfold signSplit
    split
    · rename_i heq; simp only [List.cons.injEq] at heq; exact absurd heq.1 hm
    · rename_i heq; simp only [List.cons.injEq] at heq; exact absurd heq.1 hp
    · rfl

theorem parsePyInt_natToDec (n : Nat) : parsePyInt (natToDec n) = some (n : Int) := by
  have hd := natToDec_digits n
  have hstrip : strip (natToDec n) = natToDec n :=
    strip_id _ (edgeOk_of_all _ fun c hc => (digit_facts c (hd c hc)).1)
  unfold parsePyInt
  rw [hstrip, signSplit_digit _ (fun c hc => hd c (List.mem_of_mem_head? hc))]
  simp [parseDigits_natToDec]

theorem parsePyInt_intToDec (i : Int) : parsePyInt (intToDec i) = some i := by
  cases i with
  | ofNat n => exact parsePyInt_natToDec n
  | negSucc n =>
    have hd := natToDec_digits (n + 1)
    have hedge : EdgeOk ('-' :: natToDec (n + 1)) := by
      apply edgeOk_of_all
      intro c hc
      rcases List.mem_cons.mp hc with rfl | hc
      · exact isSpace_false_of_range _ (by decide)
      · exact (digit_facts c (hd c hc)).1
    unfold parsePyInt intToDec
    rw [strip_id _ hedge]
    simp only [signSplit, parseDigits_natToDec]
    rfl

theorem intToDec_chars (i : Int) : ∀ c ∈ intToDec i, c = '-' ∨ c.isDigit = true := by
  intro c hc
  cases i with
  | ofNat n => exact Or.inr (natToDec_digits n c hc)
  | negSucc n =>
    rcases List.mem_cons.mp hc with rfl | hc
    · exact Or.inl rfl
    · exact Or.inr (natToDec_digits _ c hc)

theorem intToDec_ne_nil (i : Int) : intToDec i ≠ [] := by
  cases i with
  | ofNat n => exact natToDec_ne_nil n
  | negSucc n => simp [intToDec]

/-! ## one column -/

/-- characters a field name (or a modifier) must not contain for the printed form to be readable -/
def forbidden : List Char := [',', ':', ';', '!', '/', '<', '(', ')']

/-- a name the serialised form can express: none of `, : ; ! / < ( )`, no blank at either end -/
def NameOk (s : List Char) : Prop := (∀ c ∈ s, c ∉ forbidden) ∧ EdgeOk s

theorem NameOk.not_mem {s : List Char} (h : NameOk s) {c : Char} (hc : c ∈ forbidden) : c ∉ s :=
  fun hm => h.1 c hm hc

theorem parseWidthNums_dec (ns : List Nat) : parseWidthNums (ns.map natToDec) = .ok ns := by
  induction ns with
  | nil => rfl
  | cons n ns ih => simp [parseWidthNums, parsePyInt_natToDec, ih, bind, Except.bind]

theorem dec_not_mem (n : Nat) (c : Char) (h : c.isDigit = false) : c ∉ natToDec n := by
  intro hc
  rw [natToDec_digits n c hc] at h
  cases h

theorem natToDec_head_digit (n : Nat) : ∀ c, (natToDec n).head? = some c → c.isDigit = true :=
  fun c hc => natToDec_digits n c (List.mem_of_mem_head? hc)

theorem natToDec_ne_hidden (n : Nat) (rest : List Char) : natToDec n ++ rest ≠ ['-', '1'] := by
  intro h
  cases hs : natToDec n with
  | nil => exact natToDec_ne_nil n hs
  | cons c cs =>
    rw [hs] at h
    simp only [List.cons_append, List.cons.injEq] at h
    have := natToDec_digits n c (by simp [hs])
    rw [h.1] at this
    cases this

theorem getLast_digit_ne (n : Nat) (pre : List Char) (c : Char) (hc : c.isDigit = false) :
    (pre ++ natToDec n).getLast? ≠ some c := by
  intro h
  rw [List.getLast?_append] at h
  cases hl : (natToDec n).getLast? with
  | none => simp at hl; exact natToDec_ne_nil n hl
  | some d =>
    rw [hl] at h
    simp only [Option.some_or, Option.some.injEq] at h
    have := natToDec_digits n d (List.mem_of_getLast? hl)
    rw [h] at this
    rw [this] at hc
    cases hc

theorem isEmpty_dec_append (a : Nat) (rest : List Char) : (natToDec a ++ rest).isEmpty = false := by
  cases hs : natToDec a with
  | nil => exact absurd hs (natToDec_ne_nil a)
  | cons _ _ => rfl

theorem parseRange_two (a b : Nat) : parseRange (natToDec a ++ '-' :: natToDec b) = .ok (.range a b) := by
  have hsplit : splitOn '-' (natToDec a ++ '-' :: natToDec b) = [natToDec a, natToDec b] := by
    rw [splitOn_append _ _ _ (dec_not_mem a '-' (by decide)), splitOn_no_sep _ _ (dec_not_mem b '-' (by decide))]
  have := parseWidthNums_dec [a, b]
  simp only [List.map_cons, List.map_nil] at this
  unfold parseRange
  rw [hsplit, this]
  simp [bind, Except.bind]

theorem parseRange_one (a : Nat) : parseRange (natToDec a) = .ok (.range a a) := by
  have hsplit : splitOn '-' (natToDec a) = [natToDec a] := splitOn_no_sep _ _ (dec_not_mem a '-' (by decide))
  have := parseWidthNums_dec [a]
  simp only [List.map_cons, List.map_nil] at this
  unfold parseRange
  rw [hsplit, this]
  simp [bind, Except.bind]

theorem cutPrinted_dec (pre : List Char) (b : Nat) : cutPrinted (pre ++ natToDec b) = pre ++ natToDec b := by
  unfold cutPrinted
  have h3 : endsWith (pre ++ natToDec b) ')' = false := by
    unfold endsWith
    have := getLast_digit_ne b pre ')' (by decide)
    simpa using this
  simp [h3]

theorem takeWhile_append_stop (p : Char → Bool) (a rest : List Char) (c : Char) (ha : ∀ x ∈ a, p x = true)
    (hc : p c = false) : (a ++ c :: rest).takeWhile p = a := by
  induction a with
  | nil => simp [hc]
  | cons x xs ih =>
    simp [ha x (by simp), ih (fun y hy => ha y (List.mem_cons_of_mem _ hy))]

theorem cutPrinted_printed (a b w : Nat) :
    cutPrinted (natToDec a ++ '-' :: natToDec b ++ '(' :: (natToDec w ++ [')']))
      = natToDec a ++ '-' :: natToDec b := by
  unfold cutPrinted
  have h3 : endsWith (natToDec a ++ '-' :: natToDec b ++ '(' :: (natToDec w ++ [')'])) ')' = true := by
    unfold endsWith
    have : natToDec a ++ '-' :: natToDec b ++ '(' :: (natToDec w ++ [')'])
        = (natToDec a ++ '-' :: natToDec b ++ '(' :: natToDec w) ++ [')'] := by simp
    rw [this, List.getLast?_append]; simp
  have h4 : (natToDec a ++ '-' :: natToDec b ++ '(' :: (natToDec w ++ [')'])).contains '(' = true := by
    simp
  have hpre : ∀ x ∈ natToDec a ++ '-' :: natToDec b, decide (x ≠ '(') = true := by
    intro x hx
    simp only [List.mem_append, List.mem_cons] at hx
    rcases hx with hx | rfl | hx
    · have := (digit_facts x (natToDec_digits a x hx)).2.2.2.2.2.2.2.1; simpa using this
    · decide
    · have := (digit_facts x (natToDec_digits b x hx)).2.2.2.2.2.2.2.1; simpa using this
  have h5 : (natToDec a ++ '-' :: natToDec b ++ '(' :: (natToDec w ++ [')'])).takeWhile (fun x => decide (x ≠ '('))
      = natToDec a ++ '-' :: natToDec b :=
    takeWhile_append_stop (fun x => decide (x ≠ '(')) (natToDec a ++ '-' :: natToDec b)
      (natToDec w ++ [')']) '(' hpre (by simp)
  have h6 : strip (natToDec a ++ '-' :: natToDec b) = natToDec a ++ '-' :: natToDec b := by
    apply strip_id
    apply edgeOk_of_all
    intro x hx
    simp only [List.mem_append, List.mem_cons] at hx
    rcases hx with hx | rfl | hx
    · exact (digit_facts x (natToDec_digits a x hx)).1
    · exact isSpace_false_of_range _ (by decide)
    · exact (digit_facts x (natToDec_digits b x hx)).1
  rw [h3, h4]
  simp only [Bool.and_self, if_true]
  rw [h5, h6]

theorem parseWidth_range_plain (a b : Nat) :
    parseWidth (natToDec a ++ '-' :: natToDec b) = .ok (.range a b) := by
  unfold parseWidth
  rw [if_neg (natToDec_ne_hidden a _), isEmpty_dec_append]
  simp only [Bool.false_eq_true, if_false]
  have := cutPrinted_dec (natToDec a ++ ['-']) b
  simp only [List.append_assoc, List.singleton_append] at this
  rw [this, parseRange_two]

theorem parseWidth_fixed (a : Nat) : parseWidth (natToDec a) = .ok (.range a a) := by
  unfold parseWidth
  have h1 : natToDec a ≠ ['-', '1'] := by simpa using natToDec_ne_hidden a []
  have h2 : (natToDec a).isEmpty = false := by simpa using isEmpty_dec_append a []
  rw [if_neg h1, h2]
  simp only [Bool.false_eq_true, if_false]
  have := cutPrinted_dec [] a
  simp only [List.nil_append] at this
  rw [this, parseRange_one]

theorem parseWidth_range_printed (a b w : Nat) :
    parseWidth (natToDec a ++ '-' :: natToDec b ++ '(' :: (natToDec w ++ [')'])) = .ok (.range a b) := by
  unfold parseWidth
  have h1 : natToDec a ++ '-' :: natToDec b ++ '(' :: (natToDec w ++ [')']) ≠ ['-', '1'] := by
    rw [List.append_assoc]; exact natToDec_ne_hidden a _
  have h2 : (natToDec a ++ '-' :: natToDec b ++ '(' :: (natToDec w ++ [')'])).isEmpty = false := by
    rw [List.append_assoc]; exact isEmpty_dec_append a _
  rw [if_neg h1, h2]
  simp only [Bool.false_eq_true, if_false]
  rw [cutPrinted_printed, parseRange_two]

theorem parseWidth_widthStr (c : Col) : parseWidth (widthStr c) = .ok (.range c.minW c.maxW) := by
  unfold widthStr
  by_cases h : c.minW = c.maxW
  · simp only [h, if_true]; exact parseWidth_fixed _
  · simp only [h, if_false]
    cases c.width with
    | none => simpa using parseWidth_range_plain c.minW c.maxW
    | some w => exact parseWidth_range_printed c.minW c.maxW w

theorem findArrow_none (s : List Char) (h : '<' ∉ s) : findArrow s = Option.none := by
  induction s with
  | nil => rfl
  | cons a tl ih =>
    have ha : a ≠ '<' := fun e => h (by simp [e])
    have htl : '<' ∉ tl := fun e => h (List.mem_cons_of_mem _ e)
    unfold findArrow
    cases tl with
    | nil => rfl
    | cons b rest => simp [ha, ih htl]

/-- what the parser is expected to read back from a column -/
def pcolOf (c : Col) : PCol :=
  { fieldName := c.field.name, modifier := c.modifier, breakBy := c.breakBy, valuePath := Option.none,
    width := .range c.minW c.maxW }

/-- the column's name and modifier can be expressed in a format string -/
def ColNameOk (c : Col) : Prop := NameOk c.field.name ∧ ∀ m, c.modifier = some m → NameOk m

theorem splitArrow_none (s : List Char) (h : '<' ∉ s) : splitArrow s = (s, Option.none) := by
  simp [splitArrow, findArrow_none s h]

theorem splitBreak_brkStr (x : List Char) (b : Bool) (h : '!' ∉ x) : splitBreak (x ++ brkStr b) = (x, b) := by
  unfold splitBreak brkStr endsWith
  cases b with
  | true => simp
  | false =>
    have : x.getLast? ≠ some '!' := fun e => h (List.mem_of_getLast? e)
    simp [this]

theorem splitModifier_modStr (name : List Char) (m : Option (List Char)) (h : '/' ∉ name) :
    splitModifier (name ++ modStr m) = (name, m) := by
  unfold splitModifier modStr
  cases m with
  | none =>
    have : name.contains '/' = false := by simpa using h
    simp only [List.append_nil, this, Bool.false_eq_true, if_false]
  | some mod =>
    have hnot : ∀ x ∈ name, decide (x ≠ '/') = true := by
      intro x hx
      have : x ≠ '/' := fun e => h (by rw [← e]; exact hx)
      simpa using this
    have htw := takeWhile_append_stop (fun x => decide (x ≠ '/')) name mod '/' hnot (by simp)
    have hc : (name ++ '/' :: mod).contains '/' = true := by simp
    simp only [hc, if_true, htw]
    simp

theorem mem_modStr (x : Char) (m : Option (List Char)) (h : x ∈ modStr m) :
    x = '/' ∨ ∃ mod, m = some mod ∧ x ∈ mod := by
  cases m with
  | none => simp [modStr] at h
  | some mod =>
    simp only [modStr, List.mem_cons] at h
    rcases h with h | h
    · exact Or.inl h
    · exact Or.inr ⟨mod, rfl, h⟩

theorem nameMod_not_mem (c : Col) (h : ColNameOk c) (x : Char) (hf : x ∈ forbidden) (hs : x ≠ '/') :
    x ∉ c.field.name ++ modStr c.modifier := by
  intro hm
  rcases List.mem_append.mp hm with hm | hm
  · exact h.1.not_mem hf hm
  · rcases mem_modStr x _ hm with e | ⟨mod, hmod, hx⟩
    · exact hs e
    · exact (h.2 mod hmod).not_mem hf hx

theorem parseHead_colHead (c : Col) (h : ColNameOk c) (w : PWidth) :
    parseHead (colHead c) w = { pcolOf c with width := w } := by
  unfold parseHead colHead
  have harrow : '<' ∉ c.field.name ++ modStr c.modifier ++ brkStr c.breakBy := by
    intro hm
    rcases List.mem_append.mp hm with hm | hm
    · exact nameMod_not_mem c h '<' (by decide) (by decide) hm
    · unfold brkStr at hm; split at hm <;> simp at hm
  rw [splitArrow_none _ harrow]
  simp only
  rw [splitBreak_brkStr _ _ (nameMod_not_mem c h '!' (by decide) (by decide))]
  simp only
  rw [splitModifier_modStr _ _ (h.1.not_mem (by decide))]
  rfl

theorem EdgeOk.append {a b : List Char} (ha : EdgeOk a) (hb : EdgeOk b) : EdgeOk (a ++ b) := by
  constructor
  · intro c hc
    rw [List.head?_append] at hc
    cases h : a.head? with
    | none => rw [h] at hc; exact hb.1 c (by simpa using hc)
    | some x => rw [h] at hc; simp at hc; subst hc; exact ha.1 x h
  · intro c hc
    rw [List.getLast?_append] at hc
    cases h : b.getLast? with
    | none => rw [h] at hc; exact ha.2 c (by simpa using hc)
    | some x => rw [h] at hc; simp at hc; subst hc; exact hb.2 x h

theorem edgeOk_cons (x : Char) (s : List Char) (hx : isSpace x = false) (hs : EdgeOk s) : EdgeOk (x :: s) := by
  have : EdgeOk [x] := edgeOk_of_all _ (by intro c hc; simp at hc; subst hc; exact hx)
  exact this.append hs

theorem colHead_edgeOk (c : Col) (h : ColNameOk c) : EdgeOk (colHead c) := by
  unfold colHead
  refine (h.1.2.append ?_).append ?_
  · cases hm : c.modifier with
    | none => exact edgeOk_of_all _ (by simp [modStr])
    | some m => exact edgeOk_cons _ _ (isSpace_false_of_range _ (by decide)) (h.2 m hm).2
  · unfold brkStr
    split
    · exact edgeOk_of_all _ (by intro x hx; simp at hx; subst hx; decide)
    · exact edgeOk_of_all _ (by simp)

theorem colHead_not_mem (c : Col) (h : ColNameOk c) (x : Char) (hf : x ∈ forbidden) (h1 : x ≠ '/') (h2 : x ≠ '!') :
    x ∉ colHead c := by
  unfold colHead
  intro hm
  rcases List.mem_append.mp hm with hm | hm
  · exact nameMod_not_mem c h x hf h1 hm
  · unfold brkStr at hm; split at hm <;> simp at hm; exact h2 hm

theorem widthStr_chars (c : Col) : ∀ x ∈ widthStr c, x.isDigit = true ∨ x = '-' ∨ x = '(' ∨ x = ')' := by
  intro x hx
  unfold widthStr at hx
  split at hx
  · exact Or.inl (natToDec_digits _ x hx)
  · simp only [List.mem_append, List.mem_cons] at hx
    rcases hx with (hx | rfl | hx) | hx
    · exact Or.inl (natToDec_digits _ x hx)
    · exact Or.inr (Or.inl rfl)
    · exact Or.inl (natToDec_digits _ x hx)
    · cases hw : c.width with
      | none => simp [hw] at hx
      | some w =>
        simp only [hw, List.mem_cons, List.mem_append, List.not_mem_nil, or_false] at hx
        rcases hx with rfl | hx | rfl
        · exact Or.inr (Or.inr (Or.inl rfl))
        · exact Or.inl (natToDec_digits _ x hx)
        · exact Or.inr (Or.inr (Or.inr rfl))

theorem widthStr_not_mem (c : Col) (x : Char) (hd : x.isDigit = false) (h1 : x ≠ '-') (h2 : x ≠ '(') (h3 : x ≠ ')') :
    x ∉ widthStr c := by
  intro hm
  rcases widthStr_chars c x hm with h | h | h | h
  · rw [h] at hd; cases hd
  · exact h1 h
  · exact h2 h
  · exact h3 h

theorem widthStr_edgeOk (c : Col) : EdgeOk (widthStr c) := by
  apply edgeOk_of_all
  intro x hx
  rcases widthStr_chars c x hx with h | rfl | rfl | rfl
  · exact (digit_facts x h).1
  · exact isSpace_false_of_range _ (by decide)
  · unfold isSpace; decide
  · unfold isSpace; decide

theorem parseCol_colToStr (c : Col) (h : ColNameOk c) : parseCol (colToStr c) = .ok (pcolOf c) := by
  unfold parseCol colToStr
  rw [splitOn_append _ _ _ (colHead_not_mem c h ':' (by decide) (by decide) (by decide)),
    splitOn_no_sep _ _ (widthStr_not_mem c ':' (by decide) (by decide) (by decide) (by decide))]
  simp only [List.map_cons, List.map_nil, strip_id _ (colHead_edgeOk c h), strip_id _ (widthStr_edgeOk c)]
  rw [parseWidth_widthStr]
  simp only [bind, Except.bind, parseHead_colHead c h]
  rfl

theorem colToStr_not_mem (c : Col) (h : ColNameOk c) (x : Char) (hx : x = ',' ∨ x = ';') : x ∉ colToStr c := by
  unfold colToStr
  intro hm
  have hf : x ∈ forbidden := by rcases hx with rfl | rfl <;> decide
  simp only [List.mem_append, List.mem_cons] at hm
  rcases hm with hm | hm | hm
  · exact colHead_not_mem c h x hf (by rcases hx with rfl | rfl <;> decide) (by rcases hx with rfl | rfl <;> decide) hm
  · rcases hx with rfl | rfl <;> cases hm
  · refine widthStr_not_mem c x ?_ ?_ ?_ ?_ hm <;> rcases hx with rfl | rfl <;> decide

theorem colon_mem_colToStr (c : Col) : ':' ∈ colToStr c := by simp [colToStr]

/-! ## the column list and the whole format -/

theorem parseColList_map (cols : List Col) (h : ∀ c ∈ cols, ColNameOk c) :
    parseColList (cols.map colToStr) = .ok (cols.map pcolOf) := by
  induction cols with
  | nil => rfl
  | cons c cs ih =>
    simp only [List.map_cons, parseColList, parseCol_colToStr c (h c (by simp)),
      ih (fun x hx => h x (List.mem_cons_of_mem _ hx)), bind, Except.bind]

theorem parseCols_colsToStr (cols : List Col) (hne : cols ≠ []) (h : ∀ c ∈ cols, ColNameOk c) :
    parseCols (colsToStr cols) = .ok (.explicit (cols.map pcolOf)) := by
  have hcolon : ':' ∈ colsToStr cols := by
    cases cols with
    | nil => exact absurd rfl hne
    | cons c cs => exact mem_joinWith_of_mem _ _ _ (colToStr c) (by simp) (colon_mem_colToStr c)
  have h1 : (colsToStr cols).isEmpty = false := by
    cases hs : colsToStr cols with
    | nil => rw [hs] at hcolon; simp at hcolon
    | cons _ _ => rfl
  have h2 : colsToStr cols ≠ ['*'] := by
    intro e; rw [e] at hcolon; simp at hcolon
  unfold parseCols
  rw [h1, if_neg h2]
  simp only [Bool.false_eq_true, if_false]
  unfold colsToStr
  rw [splitOn_joinWith ',' _ (by simpa using hne)
    (by intro p hp; simp only [List.mem_map] at hp; obtain ⟨c, hc, rfl⟩ := hp
        exact colToStr_not_mem c (h c hc) ',' (Or.inl rfl))]
  rw [parseColList_map cols h]
  rfl

theorem colsToStr_not_mem (cols : List Col) (h : ∀ c ∈ cols, ColNameOk c) : ';' ∉ colsToStr cols := by
  intro hm
  rcases mem_joinWith _ _ _ hm with e | ⟨p, hp, hc⟩
  · cases e
  · simp only [List.mem_map] at hp
    obtain ⟨c, hcm, rfl⟩ := hp
    exact colToStr_not_mem c (h c hcm) ';' (Or.inr rfl) hc

/-- what `_parse_vis_lines_fmt` is expected to read back -/
def visOf (f : Fmt) : Option (Option Int × Option Int) :=
  if f.anySkipped = some false then Option.none
  else match f.limF, f.limL with
    | some a, some b => some (some a, some b)
    | _, _ => some (Option.none, Option.none)

theorem intToDec_not_mem (i : Int) (x : Char) (hd : x.isDigit = false) (h1 : x ≠ '-') : x ∉ intToDec i := by
  intro hm
  rcases intToDec_chars i x hm with h | h
  · exact h1 h
  · rw [h] at hd; cases hd

theorem intToDec_edgeOk (i : Int) : EdgeOk (intToDec i) := by
  apply edgeOk_of_all
  intro x hx
  rcases intToDec_chars i x hx with rfl | h
  · exact isSpace_false_of_range _ (by decide)
  · exact (digit_facts x h).1

theorem limitsToStr_not_mem (f : Fmt) : ';' ∉ limitsToStr f := by
  unfold limitsToStr
  split
  · simp
  · split
    · intro hm
      simp only [List.mem_append, List.mem_cons] at hm
      rcases hm with hm | hm | hm
      · exact intToDec_not_mem _ ';' (by decide) (by decide) hm
      · cases hm
      · exact intToDec_not_mem _ ';' (by decide) (by decide) hm
    · simp

theorem parseVis_limitsToStr (f : Fmt) : parseVis (limitsToStr f) = .ok (visOf f) := by
  unfold limitsToStr visOf
  by_cases hs : f.anySkipped = some false
  · simp [hs, parseVis]
  · simp only [hs, if_false]
    cases hF : f.limF with
    | none => simp [parseVis]
    | some a =>
    cases hL : f.limL with
    | none => simp [parseVis]
    | some b =>
      simp only
      unfold parseVis
      have hne : (intToDec a ++ ':' :: intToDec b).isEmpty = false := by
        cases h : intToDec a with
        | nil => exact absurd h (intToDec_ne_nil a)
        | cons _ _ => rfl
      have hstar : intToDec a ++ ':' :: intToDec b ≠ ['*'] := by
        intro e
        have : ':' ∈ intToDec a ++ ':' :: intToDec b := by simp
        rw [e] at this; simp at this
      rw [hne, if_neg hstar]
      simp only [Bool.false_eq_true, if_false]
      rw [splitOn_append _ _ _ (intToDec_not_mem a ':' (by decide) (by decide)),
        splitOn_no_sep _ _ (intToDec_not_mem b ':' (by decide) (by decide))]
      simp only [List.map_cons, List.map_nil, strip_id _ (intToDec_edgeOk a), strip_id _ (intToDec_edgeOk b),
        parsePyInt_intToDec]

/-- what the format parser is expected to read back from `str(table.fmt)` -/
def pfmtOf (f : Fmt) : PFmt := ⟨.explicit (f.cols.map pcolOf), visOf f⟩

theorem parseFmt_fmtToStr (f : Fmt) (hne : f.cols ≠ []) (h : ∀ c ∈ f.cols, ColNameOk c) :
    parseFmt (fmtToStr f) = .ok (pfmtOf f) := by
  have hcols := parseCols_colsToStr f.cols hne h
  have hvis := parseVis_limitsToStr f
  have hsemi := colsToStr_not_mem f.cols h
  have hcne : (colsToStr f.cols).isEmpty = false := by
    cases hs : colsToStr f.cols with
    | nil =>
      rw [hs] at hcols
      simp [parseCols] at hcols
    | cons _ _ => rfl
  unfold fmtToStr parseFmt pfmtOf
  cases hl : limitsToStr f with
  | nil =>
    have hpop : popEmpty [colsToStr f.cols, []] = [colsToStr f.cols] := by
      simp [popEmpty, hcne]
    rw [hpop]
    simp only [joinWith]
    rw [splitOn_no_sep _ _ hsemi]
    simp only [hcols, bind, Except.bind]
    rw [hl] at hvis
    simp only [parseVis, List.isEmpty_nil, if_true, Except.ok.injEq] at hvis
    rw [← hvis]
  | cons x xs =>
    have hpop : popEmpty [colsToStr f.cols, x :: xs] = [colsToStr f.cols, x :: xs] := by
      simp [popEmpty]
    rw [hpop]
    simp only [joinWith]
    rw [splitOn_append _ _ _ hsemi, splitOn_no_sep _ _ (by rw [← hl]; exact limitsToStr_not_mem f)]
    rw [hl] at hvis
    simp only [hcols, hvis, bind, Except.bind]

/-! ## invariants of reachable tables -/

/-- limits are natural numbers (or absent) -/
def NatLim (f : Fmt) : Prop := (∀ a, f.limF = some a → 0 ≤ a) ∧ (∀ b, f.limL = some b → 0 ≤ b)

/-- `any_lines_skipped = False` is the truth about the table as it is now -/
def SkipFaithful (t : Tbl) : Prop :=
  NatLim t.fmt → t.fmt.anySkipped = some false →
    ∀ tls, mkTableLines (breakFields t.fmt.cols) Option.none t.records = .ok tls →
      applyLimits t.fmt.limF t.fmt.limL tls t.records.length = (tls, 0)

/-- every column shows a field of the table (found under its name) with a modifier its type accepts -/
def ColsOk (t : Tbl) : Prop :=
  ∀ c ∈ t.fmt.cols, findField t.fmt.fields c.field.name = some c.field ∧
    verifyModifier c.field.ftype c.modifier = .ok ()

def footerOf (a : CtorArgs) : List Char :=
  match a.footer with
  | some f => f
  | Option.none => Gen.C12.footerPrefix ++ natToDec a.records.length ++ Gen.C12.footerSuffix

structure Inv (a : CtorArgs) (specs : List FieldSpec) (t : Tbl) : Prop where
  nodup : hasDup (specs.map (·.name)) = false
  records_eq : t.records = a.records
  header_eq : t.header = a.header
  footer_eq : t.footer = footerOf a
  fields_eq : t.fmt.fields = mkFields 0 specs
  colsOk : ColsOk t
  widths : WidthsFaithful t
  skip : SkipFaithful t

theorem mkFields_names (pos : Nat) (specs : List FieldSpec) :
    (mkFields pos specs).map (·.name) = specs.map (·.name) := by
  induction specs generalizing pos with
  | nil => rfl
  | cons s ss ih => simp [mkFields, ih]

theorem findField_self (fields : List Field) (h : hasDup (fields.map (·.name)) = false) :
    ∀ f ∈ fields, findField fields f.name = some f := by
  induction fields with
  | nil => simp
  | cons g gs ih =>
    simp only [List.map_cons, hasDup, Bool.or_eq_false_iff] at h
    intro f hf
    rcases List.mem_cons.mp hf with rfl | hf
    · simp [findField]
    · have hne : g.name ≠ f.name := by
        intro e
        have : (gs.map (·.name)).contains g.name = true := by
          rw [e]; simp only [List.contains_eq_mem, List.mem_map, decide_eq_true_eq]; exact ⟨f, hf, rfl⟩
        rw [this] at h; exact absurd h.1 (by simp)
      have := ih h.2 f hf
      simp only [findField] at this ⊢
      rw [List.find?_cons_of_neg (by simpa using hne)]
      exact this

theorem findField_name (fields : List Field) (n : List Char) (f : Field) (h : findField fields n = some f) :
    f.name = n ∧ f ∈ fields ∧ findField fields f.name = some f := by
  unfold findField at h
  have h1 := List.find?_some h
  have h2 := List.mem_of_find?_eq_some h
  simp only [decide_eq_true_eq] at h1
  refine ⟨h1, h2, ?_⟩
  unfold findField
  rw [h1]; exact h

theorem verify_none (ft : FType) : verifyModifier ft Option.none = .ok () := by
  cases ft <;> simp [verifyModifier, enumMod?]

theorem mkCol_ok (f : Field) (p : PCol) (a b : Option Nat) (c : Col) (h : mkCol f p a b = .ok c) :
    c.field = f ∧ c.modifier = p.modifier ∧ c.breakBy = p.breakBy ∧ c.width = Option.none ∧
      verifyModifier f.ftype p.modifier = .ok () := by
  simp only [mkCol, bind_ok] at h
  obtain ⟨u, hu, h⟩ := h
  cases h
  cases u
  exact ⟨rfl, rfl, rfl, rfl, hu⟩

theorem setterCols_ok (fields : List Field) (ps : List PCol) (cols : List Col)
    (h : setterCols fields ps = .ok cols) :
    ∀ c ∈ cols, findField fields c.field.name = some c.field ∧
      verifyModifier c.field.ftype c.modifier = .ok () ∧ c.width = Option.none := by
  induction ps generalizing cols with
  | nil => simp [setterCols] at h; subst h; simp
  | cons p ps ih =>
    unfold setterCols at h
    cases hf : findField fields p.fieldName with
    | none => simp [hf] at h
    | some f =>
      simp only [hf] at h
      obtain ⟨_, _, hself⟩ := findField_name fields _ f hf
      cases hw : p.width with
      | hidden => simp only [hw] at h; exact ih cols h
      | unspec =>
        simp only [hw, bind_ok] at h
        obtain ⟨c, hc, rest, hr, h⟩ := h
        cases h
        obtain ⟨h1, h2, _, h4, h5⟩ := mkCol_ok f p _ _ c hc
        intro x hx
        rcases List.mem_cons.mp hx with rfl | hx
        · rw [h1, h2]; exact ⟨hself, h5, h4⟩
        · exact ih rest hr x hx
      | range a b =>
        simp only [hw, bind_ok] at h
        obtain ⟨c, hc, rest, hr, h⟩ := h
        cases h
        obtain ⟨h1, h2, _, h4, h5⟩ := mkCol_ok f p _ _ c hc
        intro x hx
        rcases List.mem_cons.mp hx with rfl | hx
        · rw [h1, h2]; exact ⟨hself, h5, h4⟩
        · exact ih rest hr x hx

theorem ctorCols_ok (fields : List Field) (ps : List PCol) (cols : List Col)
    (h : ctorCols fields ps = .ok cols) :
    ∀ c ∈ cols, findField fields c.field.name = some c.field ∧
      verifyModifier c.field.ftype c.modifier = .ok () ∧ c.width = Option.none := by
  induction ps generalizing cols with
  | nil => simp [ctorCols] at h; subst h; simp
  | cons p ps ih =>
    unfold ctorCols at h
    cases hw : p.width with
    | hidden => simp only [hw] at h; exact ih cols h
    | unspec =>
      simp only [hw] at h
      cases hf : findField fields p.fieldName with
      | none => simp [hf] at h
      | some f =>
        simp only [hf, bind_ok] at h
        obtain ⟨_, _, hself⟩ := findField_name fields _ f hf
        obtain ⟨c, hc, rest, hr, h⟩ := h
        cases h
        obtain ⟨h1, h2, _, h4, h5⟩ := mkCol_ok f p _ _ c hc
        intro x hx
        rcases List.mem_cons.mp hx with rfl | hx
        · rw [h1, h2]; exact ⟨hself, h5, h4⟩
        · exact ih rest hr x hx
    | range a b =>
      simp only [hw] at h
      cases hf : findField fields p.fieldName with
      | none => simp [hf] at h
      | some f =>
        simp only [hf, bind_ok] at h
        obtain ⟨_, _, hself⟩ := findField_name fields _ f hf
        obtain ⟨c, hc, rest, hr, h⟩ := h
        cases h
        obtain ⟨h1, h2, _, h4, h5⟩ := mkCol_ok f p _ _ c hc
        intro x hx
        rcases List.mem_cons.mp hx with rfl | hx
        · rw [h1, h2]; exact ⟨hself, h5, h4⟩
        · exact ih rest hr x hx

theorem dfltCols_ok (fields : List Field) (h : hasDup (fields.map (·.name)) = false) :
    ∀ c ∈ fields.map dfltCol, findField fields c.field.name = some c.field ∧
      verifyModifier c.field.ftype c.modifier = .ok () ∧ c.width = Option.none := by
  intro c hc
  simp only [List.mem_map] at hc
  obtain ⟨f, hf, rfl⟩ := hc
  exact ⟨findField_self fields h f hf, verify_none _, rfl⟩

theorem skipFaithful_of_none (t : Tbl) (h : t.fmt.anySkipped = Option.none) : SkipFaithful t := by
  intro _ hs; rw [h] at hs; cases hs

/-- `PPTable(records, fields=[…], …)` establishes the invariants -/
theorem mkTable_inv (a : CtorArgs) (specs : List FieldSpec) (ha : a.fields = some specs) (t : Tbl)
    (h : mkTable a = .ok t) : Inv a specs t := by
  unfold mkTable at h
  simp only [bind_ok, ha] at h
  obtain ⟨p, _, fc, hfc, h⟩ := h
  cases h
  -- the fields and columns
  have hnd : hasDup (specs.map (·.name)) = false := by
    cases hd : hasDup (specs.map (·.name)) with
    | false => rfl
    | true => simp [hd] at hfc
  simp only [hnd, Bool.false_eq_true, if_false] at hfc
  have hnd' : hasDup ((mkFields 0 specs).map (·.name)) = false := by rw [mkFields_names]; exact hnd
  have hfc' : fc.1 = mkFields 0 specs ∧ ∀ c ∈ fc.2, findField (mkFields 0 specs) c.field.name = some c.field ∧
      verifyModifier c.field.ftype c.modifier = .ok () ∧ c.width = Option.none := by
    cases hp : p.cols with
    | explicit cs =>
      simp only [hp] at hfc
      split at hfc
      · cases hfc
      · simp only [bind_ok] at hfc
        obtain ⟨cols, hcols, hfc⟩ := hfc
        cases hfc
        exact ⟨rfl, ctorCols_ok _ _ _ hcols⟩
    | keep => simp only [hp] at hfc; cases hfc; exact ⟨rfl, dfltCols_ok _ hnd'⟩
    | all => simp only [hp] at hfc; cases hfc; exact ⟨rfl, dfltCols_ok _ hnd'⟩
  obtain ⟨hf1, hf2⟩ := hfc'
  have hcols : ∀ c ∈ (match a.skip with
      | some names => fc.2.filter fun (c : Col) => !names.contains c.field.name
      | Option.none => fc.2), findField (mkFields 0 specs) c.field.name = some c.field ∧
      verifyModifier c.field.ftype c.modifier = .ok () ∧ c.width = Option.none := by
    intro c hc
    cases hs : a.skip with
    | none => rw [hs] at hc; exact hf2 c hc
    | some names => rw [hs] at hc; exact hf2 c (List.mem_filter.mp hc).1
  refine ⟨hnd, rfl, rfl, rfl, hf1, ?_, ?_, ?_⟩
  · intro c hc
    simp only [hf1]
    exact ⟨(hcols c hc).1, (hcols c hc).2.1⟩
  · exact widthsFaithful_of_fresh _ (fun c hc => (hcols c hc).2.2)
  · exact skipFaithful_of_none _ rfl

theorem inv_congr_args (a a' : CtorArgs) (specs : List FieldSpec) (t : Tbl) (h : Inv a' specs t)
    (h1 : a'.records = a.records) (h2 : a'.header = a.header) (h3 : a'.footer = a.footer) : Inv a specs t :=
  ⟨h.nodup, h.records_eq.trans h1, h.header_eq.trans h2,
   by rw [h.footer_eq]; simp [footerOf, h1, h3], h.fields_eq, h.colsOk, h.widths, h.skip⟩

/-- `table.fmt = s` preserves the invariants, whatever `s` is -/
theorem applySetter_inv (a : CtorArgs) (specs : List FieldSpec) (t t' : Tbl) (s : List Char)
    (hi : Inv a specs t) (h : applySetter t s = .ok t') : Inv a specs t' := by
  unfold applySetter at h
  simp only [bind_ok] at h
  obtain ⟨p, _, cols, hcols, h⟩ := h
  cases h
  have hnd' : hasDup (t.fmt.fields.map (·.name)) = false := by
    rw [hi.fields_eq, mkFields_names]; exact hi.nodup
  have hc : ∀ c ∈ cols, findField t.fmt.fields c.field.name = some c.field ∧
      verifyModifier c.field.ftype c.modifier = .ok () ∧ c.width = Option.none := by
    cases hp : p.cols with
    | keep =>
      simp only [hp, Except.ok.injEq] at hcols
      subst hcols
      intro c hc
      simp only [List.mem_map] at hc
      obtain ⟨c0, hc0, rfl⟩ := hc
      exact ⟨(hi.colsOk c0 hc0).1, (hi.colsOk c0 hc0).2, rfl⟩
    | all =>
      simp only [hp, Except.ok.injEq] at hcols
      subst hcols
      exact dfltCols_ok _ hnd'
    | explicit cs =>
      simp only [hp] at hcols
      exact setterCols_ok _ _ _ hcols
  refine ⟨hi.nodup, hi.records_eq, hi.header_eq, hi.footer_eq, hi.fields_eq, ?_, ?_, ?_⟩
  · intro c hcm; exact ⟨(hc c hcm).1, (hc c hcm).2.1⟩
  · exact widthsFaithful_of_fresh _ (fun c hcm => (hc c hcm).2.2)
  · exact skipFaithful_of_none _ rfl

theorem applyLimits_natLim (f : Fmt) (h : NatLim f) (tls : List TLine) (n : Nat) (hb : brkOk tls)
    (hn : tls.countP TLine.isRec = n) :
    applyLimits f.limF f.limL tls n = (tls, 0) ∨ (applyLimits f.limF f.limL tls n).2 > 0 := by
  cases hF : f.limF with
  | none => left; simp [applyLimits]
  | some a =>
    cases hL : f.limL with
    | none => left; simp [applyLimits]
    | some b =>
      obtain ⟨first, rfl⟩ := Int.eq_ofNat_of_zero_le (h.1 a hF)
      obtain ⟨last, rfl⟩ := Int.eq_ofNat_of_zero_le (h.2 b hL)
      rw [applyLimits_nat]
      by_cases hgt : tls.length > first + last + 1
      · right
        obtain ⟨hk, hpos⟩ := skipped_count tls first last hb hgt
        simp only [hgt, if_true]
        rw [← hn, hk]
        omega
      · left; simp [hgt]

/-- printing preserves the invariants -/
theorem render_inv (a : CtorArgs) (specs : List FieldSpec) (t t' : Tbl) (ls : List Line)
    (hi : Inv a specs t) (h : render t = .ok (t', ls)) : Inv a specs t' := by
  obtain ⟨tls, ws, nTitle, body, R⟩ := render_elim h
  have hcols := finalWidths_cols _ _ _ R.ws_eq
  have hst := R.state_eq
  have hbf : breakFields t'.fmt.cols = breakFields t.fmt.cols := by
    rw [hst]; simp only [printed]; rw [breakFields_setWidths, hcols]
  refine ⟨hi.nodup, ?_, ?_, ?_, ?_, ?_, widthsFaithful_render h hi.widths, ?_⟩
  · rw [hst]; exact hi.records_eq
  · rw [hst]; exact hi.header_eq
  · rw [hst]; exact hi.footer_eq
  · rw [hst]; exact hi.fields_eq
  · intro c hc
    rw [hst] at hc ⊢
    simp only [printed, setWidths, List.mem_map] at hc ⊢
    obtain ⟨cw, hcw, rfl⟩ := hc
    have : cw.1 ∈ t.fmt.cols := by rw [← hcols]; exact List.mem_map_of_mem hcw
    exact hi.colsOk cw.1 this
  · intro hnat hs tls' htls'
    rw [hbf] at htls'
    have hrec : t'.records = t.records := by rw [hst]; rfl
    have hF : t'.fmt.limF = t.fmt.limF := by rw [hst]; rfl
    have hL : t'.fmt.limL = t.fmt.limL := by rw [hst]; rfl
    rw [hrec] at htls' ⊢
    rw [R.tls_eq] at htls'
    cases htls'
    rw [hF, hL]
    have hnat' : NatLim t.fmt := by
      constructor
      · intro x hx; exact hnat.1 x (by rw [hF]; exact hx)
      · intro x hx; exact hnat.2 x (by rw [hL]; exact hx)
    have hb := mkTableLines_brkOk _ _ _ _ R.tls_eq
    have hn : tls.countP TLine.isRec = t.records.length := by
      rw [countP_isRec_eq, mkTableLines_rows _ _ _ _ R.tls_eq]
    rcases applyLimits_natLim t.fmt hnat' tls _ hb hn with h0 | hpos
    · exact h0
    · rw [hst] at hs
      simp only [printed, Option.some.injEq, decide_eq_false_iff_not] at hs
      exact absurd hpos hs

/-- the states a table goes through: constructed, printed, re-formatted with any string,
re-constructed from any string -/
inductive Reach (a : CtorArgs) : Tbl → Prop where
  | new (t : Tbl) : mkTable a = .ok t → Reach a t
  | print (t t' : Tbl) (ls : List Line) : Reach a t → render t = .ok (t', ls) → Reach a t'
  | set (t t' : Tbl) (s : List Char) : Reach a t → applySetter t s = .ok t' → Reach a t'
  | ctor (t t' : Tbl) (s : List Char) : Reach a t →
      mkTable { a with fmt := some s, limits := Option.none, skip := Option.none } = .ok t' → Reach a t'

theorem reach_inv (a : CtorArgs) (specs : List FieldSpec) (ha : a.fields = some specs) (t : Tbl)
    (h : Reach a t) : Inv a specs t := by
  induction h with
  | new t hm => exact mkTable_inv a specs ha t hm
  | print t t' ls _ hr ih => exact render_inv a specs t t' ls ih hr
  | set t t' s _ hs ih => exact applySetter_inv a specs t t' s ih hs
  | ctor t t' s _ hm _ =>
    exact inv_congr_args a { a with fmt := some s, limits := Option.none, skip := Option.none } specs t'
      (mkTable_inv { a with fmt := some s, limits := Option.none, skip := Option.none } specs ha t' hm)
      rfl rfl rfl

/-! ## reading the printed format back -/

theorem nameOk_of_all (s : List Char) (h : ∀ c ∈ s, c ∉ forbidden ∧ isSpace c = false) : NameOk s :=
  ⟨fun c hc => (h c hc).1, edgeOk_of_all s fun c hc => (h c hc).2⟩

theorem enumMods_nameOk : NameOk Gen.C12.enumModFull ∧ NameOk Gen.C12.enumModVal ∧ NameOk Gen.C12.enumModName :=
  ⟨nameOk_of_all _ (by decide), nameOk_of_all _ (by decide), nameOk_of_all _ (by decide)⟩

theorem verified_modifier_nameOk (ft : FType) (m : List Char) (h : verifyModifier ft (some m) = .ok ()) :
    NameOk m := by
  cases ft with
  | dflt => simp [verifyModifier] at h
  | enum e =>
    simp only [verifyModifier, enumMod?] at h
    by_cases h1 : m = Gen.C12.enumModFull
    · rw [h1]; exact enumMods_nameOk.1
    · by_cases h2 : m = Gen.C12.enumModVal
      · rw [h2]; exact enumMods_nameOk.2.1
      · by_cases h3 : m = Gen.C12.enumModName
        · rw [h3]; exact enumMods_nameOk.2.2
        · simp [h1, h2, h3] at h

theorem inv_colNameOk {a : CtorArgs} {specs : List FieldSpec} {t : Tbl} (hi : Inv a specs t)
    (hn : ∀ sp ∈ specs, NameOk sp.name) : ∀ c ∈ t.fmt.cols, ColNameOk c := by
  intro c hc
  obtain ⟨hf, hv⟩ := hi.colsOk c hc
  obtain ⟨_, hmem, _⟩ := findField_name _ _ _ hf
  constructor
  · have : c.field.name ∈ (t.fmt.fields.map (·.name)) := List.mem_map_of_mem hmem
    rw [hi.fields_eq, mkFields_names] at this
    simp only [List.mem_map] at this
    obtain ⟨sp, hsp, hname⟩ := this
    rw [← hname]; exact hn sp hsp
  · intro m hm
    rw [hm] at hv
    exact verified_modifier_nameOk _ m hv

theorem mkCol_pcolOf (c : Col) (hv : verifyModifier c.field.ftype c.modifier = .ok ()) :
    mkCol c.field (pcolOf c) (some c.minW) (some c.maxW) = .ok c.reset := by
  simp only [mkCol, pcolOf, hv, bind, Except.bind, Col.reset]

theorem setterCols_pcolOf (fields : List Field) (cols : List Col)
    (h : ∀ c ∈ cols, findField fields c.field.name = some c.field ∧
      verifyModifier c.field.ftype c.modifier = .ok ()) :
    setterCols fields (cols.map pcolOf) = .ok (cols.map Col.reset) := by
  induction cols with
  | nil => rfl
  | cons c cs ih =>
    obtain ⟨hf, hv⟩ := h c (by simp)
    have hf' : findField fields (pcolOf c).fieldName = some c.field := hf
    have hw : (pcolOf c).width = .range c.minW c.maxW := rfl
    simp only [List.map_cons, setterCols, hf', hw, mkCol_pcolOf c hv,
      ih (fun x hx => h x (List.mem_cons_of_mem _ hx)), bind, Except.bind]

theorem ctorCols_pcolOf (fields : List Field) (cols : List Col)
    (h : ∀ c ∈ cols, findField fields c.field.name = some c.field ∧
      verifyModifier c.field.ftype c.modifier = .ok ()) :
    ctorCols fields (cols.map pcolOf) = .ok (cols.map Col.reset) := by
  induction cols with
  | nil => rfl
  | cons c cs ih =>
    obtain ⟨hf, hv⟩ := h c (by simp)
    have hf' : findField fields (pcolOf c).fieldName = some c.field := hf
    have hw : (pcolOf c).width = .range c.minW c.maxW := rfl
    simp only [List.map_cons, ctorCols, hf', hw, mkCol_pcolOf c hv,
      ih (fun x hx => h x (List.mem_cons_of_mem _ hx)), bind, Except.bind]

theorem applyLimits_none_left (b : Option Int) (tls : List TLine) (n : Nat) :
    applyLimits Option.none b tls n = (tls, 0) := by simp [applyLimits]

theorem applyLimits_none_right (a : Option Int) (tls : List TLine) (n : Nat) :
    applyLimits a Option.none tls n = (tls, 0) := by cases a <;> simp [applyLimits]

/-- the limits a format string re-establishes act like the table's own -/
theorem limits_of_visOf (t : Tbl) (hs : SkipFaithful t) (ctor : Bool) (hnat : ctor = true → NatLim t.fmt) :
    let l : Option Int × Option Int := match visOf t.fmt with
      | some l => l
      | Option.none => if ctor then (Option.none, Option.none) else (t.fmt.limF, t.fmt.limL)
    ∀ tls, mkTableLines (breakFields t.fmt.cols) Option.none t.records = .ok tls →
      applyLimits l.1 l.2 tls t.records.length = applyLimits t.fmt.limF t.fmt.limL tls t.records.length := by
  intro l tls htls
  simp only [l, visOf]
  by_cases hsk : t.fmt.anySkipped = some false
  · simp only [hsk, if_true]
    cases ctor with
    | false => rfl
    | true =>
      simp only [if_true]
      rw [hs (hnat rfl) hsk tls htls, applyLimits_none_left]
  · simp only [hsk, if_false]
    cases hF : t.fmt.limF with
    | none => simp [applyLimits_none_left]
    | some a =>
      cases hL : t.fmt.limL with
      | none => simp [applyLimits_none_left, applyLimits_none_right]
      | some b => rfl

/-- a table with the same records, header, footer and columns (widths forgotten) whose limits act
like `t`'s prints what `t` prints -/
theorem lines_of_same (t u : Tbl) (hw : WidthsFaithful t) (hr : u.records = t.records)
    (hh : u.header = t.header) (hf : u.footer = t.footer) (hc : u.fmt.cols = t.fmt.cols.map Col.reset)
    (hl : ∀ tls, mkTableLines (breakFields t.fmt.cols) Option.none t.records = .ok tls →
      applyLimits u.fmt.limF u.fmt.limL tls t.records.length
        = applyLimits t.fmt.limF t.fmt.limL tls t.records.length) : lines u = lines t := by
  rw [hw, lines_eq_linesWith, lines_eq_linesWith]
  simp only [fresh, hr, hh, hf, hc]
  apply linesWith_congr
  intro tls htls
  have hb : breakFields (t.fmt.cols.map Col.reset) = breakFields t.fmt.cols :=
    breakFields_map_width t.fmt.cols (fun _ => Option.none)
  rw [hb] at htls
  exact hl tls htls

end Table
