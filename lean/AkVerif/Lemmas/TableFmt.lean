import AkVerif.Model.TableFmt
import AkVerif.Lemmas.Table
/-!
Lemmas about the format-string model (`Model/TableFmt.lean`): `split`/`strip`/`int` on what the
serialiser prints, and the round trip of one column, of the column list and of the whole format.
-/
namespace Table
open Ak

/-! ## split -/

theorem splitAux_no_sep (sep : Char) (cur a : List Char) (h : sep ∉ a) :
    splitAux sep cur a = [cur.reverse ++ a] := by
  induction a generalizing cur with
  | nil => simp [splitAux]
  | cons c cs ih =>
    have hc : c ≠ sep := fun e => h (by simp [e])
    have hcs : sep ∉ cs := fun e => h (List.mem_cons_of_mem _ e)
    simp [splitAux, hc, ih (c :: cur) hcs]

theorem splitAux_append (sep : Char) (cur a rest : List Char) (h : sep ∉ a) :
    splitAux sep cur (a ++ sep :: rest) = (cur.reverse ++ a) :: splitAux sep [] rest := by
  induction a generalizing cur with
  | nil => simp [splitAux]
  | cons c cs ih =>
    have hc : c ≠ sep := fun e => h (by simp [e])
    have hcs : sep ∉ cs := fun e => h (List.mem_cons_of_mem _ e)
    simp [splitAux, hc, ih (c :: cur) hcs]

theorem splitOn_no_sep (sep : Char) (a : List Char) (h : sep ∉ a) : splitOn sep a = [a] := by
  simp [splitOn, splitAux_no_sep sep [] a h]

theorem splitOn_append (sep : Char) (a rest : List Char) (h : sep ∉ a) :
    splitOn sep (a ++ sep :: rest) = a :: splitOn sep rest := by
  simp [splitOn, splitAux_append sep [] a rest h]

theorem splitOn_joinWith (sep : Char) (parts : List (List Char)) (hne : parts ≠ [])
    (h : ∀ p ∈ parts, sep ∉ p) : splitOn sep (joinWith sep parts) = parts := by
  induction parts with
  | nil => exact absurd rfl hne
  | cons a rest ih =>
    cases rest with
    | nil => simp [joinWith, splitOn_no_sep sep a (h a (by simp))]
    | cons b rest' =>
      simp only [joinWith]
      rw [splitOn_append sep a _ (h a (by simp))]
      rw [ih (by simp) (fun p hp => h p (List.mem_cons_of_mem _ hp))]

theorem mem_joinWith (sep c : Char) (parts : List (List Char)) (h : c ∈ joinWith sep parts) :
    c = sep ∨ ∃ p ∈ parts, c ∈ p := by
  induction parts with
  | nil => simp [joinWith] at h
  | cons a rest ih =>
    cases rest with
    | nil => simp only [joinWith] at h; exact Or.inr ⟨a, by simp, h⟩
    | cons b rest' =>
      simp only [joinWith, List.mem_append, List.mem_cons] at h
      rcases h with h | h | h
      · exact Or.inr ⟨a, by simp, h⟩
      · exact Or.inl h
      · rcases ih h with h | ⟨p, hp, hc⟩
        · exact Or.inl h
        · exact Or.inr ⟨p, List.mem_cons_of_mem _ hp, hc⟩

theorem mem_joinWith_of_mem (sep c : Char) (parts : List (List Char)) (p : List Char) (hp : p ∈ parts)
    (hc : c ∈ p) : c ∈ joinWith sep parts := by
  induction parts with
  | nil => simp at hp
  | cons a rest ih =>
    cases rest with
    | nil => simp at hp; subst hp; simpa [joinWith] using hc
    | cons b rest' =>
      simp only [joinWith, List.mem_append, List.mem_cons]
      rcases List.mem_cons.mp hp with rfl | hp
      · exact Or.inl hc
      · exact Or.inr (Or.inr (ih hp))

/-! ## strip -/

/-- no blank at either end (the empty string qualifies) -/
def EdgeOk (s : List Char) : Prop :=
  (∀ c, s.head? = some c → isSpace c = false) ∧ (∀ c, s.getLast? = some c → isSpace c = false)

theorem lstrip_id (s : List Char) (h : ∀ c, s.head? = some c → isSpace c = false) : lstrip s = s := by
  cases s with
  | nil => rfl
  | cons c cs => simp [lstrip, List.dropWhile, h c rfl]

theorem rstrip_id (s : List Char) (h : ∀ c, s.getLast? = some c → isSpace c = false) : rstrip s = s := by
  unfold rstrip
  have : s.reverse.dropWhile isSpace = s.reverse := by
    apply lstrip_id
    intro c hc
    rw [List.head?_reverse] at hc
    exact h c hc
  rw [this, List.reverse_reverse]

theorem strip_id (s : List Char) (h : EdgeOk s) : strip s = s := by
  unfold strip
  rw [lstrip_id s h.1, rstrip_id s h.2]

theorem edgeOk_of_all (s : List Char) (h : ∀ c ∈ s, isSpace c = false) : EdgeOk s :=
  ⟨fun c hc => h c (List.mem_of_mem_head? hc), fun c hc => h c (List.mem_of_getLast? hc)⟩

/-! ## decimal numbers -/

theorem spaceCodes_not_digit : ∀ n ∈ Gen.C12.spaceCodes, n < 45 ∨ 57 < n := by decide

theorem isSpace_false_of_range (c : Char) (h : 45 ≤ c.toNat ∧ c.toNat ≤ 57) : isSpace c = false := by
  unfold isSpace
  cases hc : Gen.C12.spaceCodes.contains c.toNat with
  | false => rfl
  | true =>
    have := spaceCodes_not_digit c.toNat (by simpa using hc)
    omega

theorem isDigit_range (c : Char) (h : c.isDigit = true) : 48 ≤ c.toNat ∧ c.toNat ≤ 57 := by
  simp only [Char.isDigit, Bool.and_eq_true, decide_eq_true_eq] at h
  have h1 : (48 : UInt32) ≤ c.val := h.1
  have h2 : c.val ≤ (57 : UInt32) := h.2
  simp only [Char.toNat]
  constructor
  · exact UInt32.le_iff_toNat_le.mp h1
  · exact UInt32.le_iff_toNat_le.mp h2

theorem natToDec_digits (n : Nat) : ∀ c ∈ natToDec n, c.isDigit = true :=
  fun _ hc => Nat.isDigit_of_mem_toDigits (by decide) (by decide) hc

theorem natToDec_ne_nil (n : Nat) : natToDec n ≠ [] := Nat.toDigits_ne_nil

/-- a character of a printed number is none of the marks of the format syntax, and not a blank -/
theorem digit_facts (c : Char) (h : c.isDigit = true) :
    isSpace c = false ∧ c ≠ ',' ∧ c ≠ ':' ∧ c ≠ ';' ∧ c ≠ '!' ∧ c ≠ '/' ∧ c ≠ '<' ∧ c ≠ '(' ∧ c ≠ ')'
      ∧ c ≠ '-' ∧ c ≠ '+' ∧ c ≠ '_' ∧ c ≠ '*' := by
  have hr := isDigit_range c h
  refine ⟨isSpace_false_of_range c (by omega), ?_, ?_, ?_, ?_, ?_, ?_, ?_, ?_, ?_, ?_, ?_, ?_⟩ <;>
    (intro e; subst e; revert hr; decide)

theorem parseDigits_natToDec (n : Nat) : parseDigits (natToDec n) = some n := by
  have hd := natToDec_digits n
  have hne := natToDec_ne_nil n
  have hus : '_' ∉ natToDec n := fun hc => (digit_facts _ (hd _ hc)).2.2.2.2.2.2.2.2.2.2.2.1 rfl
  have hsplit : splitOn '_' (natToDec n) = [natToDec n] := splitOn_no_sep _ _ hus
  have hall : (natToDec n).all Char.isDigit = true := by rw [List.all_eq_true]; exact hd
  have hemp : (natToDec n).isEmpty = false := by
    cases h : natToDec n with
    | nil => exact absurd h hne
    | cons _ _ => rfl
  have hval : Nat.ofDigitChars 10 (natToDec n) 0 = n := Nat.ofDigitChars_ten_toDigits
  simp [parseDigits, hsplit, hall, hemp, hval]

theorem signSplit_digit (s : List Char) (h : ∀ c, s.head? = some c → c.isDigit = true) :
    signSplit s = (false, s) := by
  cases s with
  | nil => rfl
  | cons c cs =>
    have hc := h c rfl
    have hm : c ≠ '-' := (digit_facts c hc).2.2.2.2.2.2.2.2.2.1
    have hp : c ≠ '+' := (digit_facts c hc).2.2.2.2.2.2.2.2.2.2.1
    unfold signSplit
    split
    · rename_i heq; simp only [List.cons.injEq] at heq; exact absurd heq.1 hm
    · rename_i heq; simp only [List.cons.injEq] at heq; exact absurd heq.1 hp
    · rfl

theorem parsePyInt_natToDec (n : Nat) : parsePyInt (natToDec n) = some (n : Int) := by
  have hd := natToDec_digits n
  have hstrip : strip (natToDec n) = natToDec n :=
    strip_id _ (edgeOk_of_all _ fun c hc => (digit_facts c (hd c hc)).1)
  unfold parsePyInt
  rw [hstrip, signSplit_digit _ (fun c hc => hd c (List.mem_of_mem_head? hc))]
  simp [parseDigits_natToDec]

theorem parsePyInt_intToDec (i : Int) : parsePyInt (intToDec i) = some i := by
  cases i with
  | ofNat n => exact parsePyInt_natToDec n
  | negSucc n =>
    have hd := natToDec_digits (n + 1)
    have hedge : EdgeOk ('-' :: natToDec (n + 1)) := by
      apply edgeOk_of_all
      intro c hc
      rcases List.mem_cons.mp hc with rfl | hc
      · exact isSpace_false_of_range _ (by decide)
      · exact (digit_facts c (hd c hc)).1
    unfold parsePyInt intToDec
    rw [strip_id _ hedge]
    simp only [signSplit, parseDigits_natToDec]
    rfl

theorem intToDec_chars (i : Int) : ∀ c ∈ intToDec i, c = '-' ∨ c.isDigit = true := by
  intro c hc
  cases i with
  | ofNat n => exact Or.inr (natToDec_digits n c hc)
  | negSucc n =>
    rcases List.mem_cons.mp hc with rfl | hc
    · exact Or.inl rfl
    · exact Or.inr (natToDec_digits _ c hc)

theorem intToDec_ne_nil (i : Int) : intToDec i ≠ [] := by
  cases i with
  | ofNat n => exact natToDec_ne_nil n
  | negSucc n => simp [intToDec]

/-! ## one column -/

/-- characters a field name must not contain for the printed form to be readable: the separators of
columns, width and sections, the modifier mark, and `<` (of `<-`; a lone `<` would do no harm) -/
def forbidden : List Char := [',', ':', ';', '/', '<']

/-- a name the serialised form can express: none of `, : ; / <`, no blank at either end, no `!` at the
end (an inner `!`, parentheses, `-` … are fine: the break-by mark is a *trailing* `!`) -/
def NameOk (s : List Char) : Prop := (∀ c ∈ s, c ∉ forbidden) ∧ EdgeOk s ∧ s.getLast? ≠ some '!'

theorem NameOk.not_mem {s : List Char} (h : NameOk s) {c : Char} (hc : c ∈ forbidden) : c ∉ s :=
  fun hm => h.1 c hm hc

/-- characters a format *modifier* must not contain: it is free text otherwise (a `/` inside it is
fine, the name ends at the first `/`) -/
def modForbidden : List Char := [',', ':', ';', '!', '<']

/-- a modifier the serialised form can express: none of `, : ; ! <`, no blank at its end -/
def ModOk (m : List Char) : Prop :=
  (∀ c ∈ m, c ∉ modForbidden) ∧ (∀ c, m.getLast? = some c → isSpace c = false)

/-- the separators proper: in neither a name nor a modifier -/
def sepForbidden : List Char := [',', ':', ';', '<']

theorem sepForbidden_sub {x : Char} (h : x ∈ sepForbidden) :
    x ∈ forbidden ∧ x ∈ modForbidden ∧ x ≠ '/' ∧ x ≠ '!' := by
  simp only [sepForbidden, List.mem_cons, List.not_mem_nil, or_false] at h
  rcases h with rfl | rfl | rfl | rfl <;> exact ⟨by decide, by decide, by decide, by decide⟩

theorem modOk_of_all (s : List Char) (h : ∀ c ∈ s, c ∉ modForbidden ∧ isSpace c = false) : ModOk s :=
  ⟨fun c hc => (h c hc).1, fun c hc => (h c (List.mem_of_getLast? hc)).2⟩

theorem parseWidthNums_dec (ns : List Nat) : parseWidthNums (ns.map natToDec) = .ok ns := by
  induction ns with
  | nil => rfl
  | cons n ns ih => simp [parseWidthNums, parsePyInt_natToDec, ih, bind, Except.bind]

theorem dec_not_mem (n : Nat) (c : Char) (h : c.isDigit = false) : c ∉ natToDec n := by
  intro hc
  rw [natToDec_digits n c hc] at h
  cases h

theorem natToDec_head_digit (n : Nat) : ∀ c, (natToDec n).head? = some c → c.isDigit = true :=
  fun c hc => natToDec_digits n c (List.mem_of_mem_head? hc)

theorem natToDec_ne_hidden (n : Nat) (rest : List Char) : natToDec n ++ rest ≠ ['-', '1'] := by
  intro h
  cases hs : natToDec n with
  | nil => exact natToDec_ne_nil n hs
  | cons c cs =>
    rw [hs] at h
    simp only [List.cons_append, List.cons.injEq] at h
    have := natToDec_digits n c (by simp [hs])
    rw [h.1] at this
    cases this

theorem getLast_digit_ne (n : Nat) (pre : List Char) (c : Char) (hc : c.isDigit = false) :
    (pre ++ natToDec n).getLast? ≠ some c := by
  intro h
  rw [List.getLast?_append] at h
  cases hl : (natToDec n).getLast? with
  | none => simp at hl; exact natToDec_ne_nil n hl
  | some d =>
    rw [hl] at h
    simp only [Option.some_or, Option.some.injEq] at h
    have := natToDec_digits n d (List.mem_of_getLast? hl)
    rw [h] at this
    rw [this] at hc
    cases hc

theorem isEmpty_dec_append (a : Nat) (rest : List Char) : (natToDec a ++ rest).isEmpty = false := by
  cases hs : natToDec a with
  | nil => exact absurd hs (natToDec_ne_nil a)
  | cons _ _ => rfl

theorem parseRange_two (a b : Nat) : parseRange (natToDec a ++ '-' :: natToDec b) = .ok (.range a b) := by
  have hsplit : splitOn '-' (natToDec a ++ '-' :: natToDec b) = [natToDec a, natToDec b] := by
    rw [splitOn_append _ _ _ (dec_not_mem a '-' (by decide)), splitOn_no_sep _ _ (dec_not_mem b '-' (by decide))]
  have := parseWidthNums_dec [a, b]
  simp only [List.map_cons, List.map_nil] at this
  unfold parseRange
  rw [hsplit, this]
  simp [bind, Except.bind]

theorem parseRange_one (a : Nat) : parseRange (natToDec a) = .ok (.range a a) := by
  have hsplit : splitOn '-' (natToDec a) = [natToDec a] := splitOn_no_sep _ _ (dec_not_mem a '-' (by decide))
  have := parseWidthNums_dec [a]
  simp only [List.map_cons, List.map_nil] at this
  unfold parseRange
  rw [hsplit, this]
  simp [bind, Except.bind]

theorem cutPrinted_dec (pre : List Char) (b : Nat) : cutPrinted (pre ++ natToDec b) = pre ++ natToDec b := by
  unfold cutPrinted
  have h3 : endsWith (pre ++ natToDec b) ')' = false := by
    unfold endsWith
    have := getLast_digit_ne b pre ')' (by decide)
    simpa using this
  simp [h3]

theorem takeWhile_append_stop (p : Char → Bool) (a rest : List Char) (c : Char) (ha : ∀ x ∈ a, p x = true)
    (hc : p c = false) : (a ++ c :: rest).takeWhile p = a := by
  induction a with
  | nil => simp [hc]
  | cons x xs ih =>
    simp [ha x (by simp), ih (fun y hy => ha y (List.mem_cons_of_mem _ hy))]

theorem cutPrinted_printed (a b w : Nat) :
    cutPrinted (natToDec a ++ '-' :: natToDec b ++ '(' :: (natToDec w ++ [')']))
      = natToDec a ++ '-' :: natToDec b := by
  unfold cutPrinted
  have h3 : endsWith (natToDec a ++ '-' :: natToDec b ++ '(' :: (natToDec w ++ [')'])) ')' = true := by
    unfold endsWith
    have : natToDec a ++ '-' :: natToDec b ++ '(' :: (natToDec w ++ [')'])
        = (natToDec a ++ '-' :: natToDec b ++ '(' :: natToDec w) ++ [')'] := by simp
    rw [this, List.getLast?_append]; simp
  have h4 : (natToDec a ++ '-' :: natToDec b ++ '(' :: (natToDec w ++ [')'])).contains '(' = true := by
    simp
  have hpre : ∀ x ∈ natToDec a ++ '-' :: natToDec b, decide (x ≠ '(') = true := by
    intro x hx
    simp only [List.mem_append, List.mem_cons] at hx
    rcases hx with hx | rfl | hx
    · have := (digit_facts x (natToDec_digits a x hx)).2.2.2.2.2.2.2.1; simpa using this
    · decide
    · have := (digit_facts x (natToDec_digits b x hx)).2.2.2.2.2.2.2.1; simpa using this
  have h5 : (natToDec a ++ '-' :: natToDec b ++ '(' :: (natToDec w ++ [')'])).takeWhile (fun x => decide (x ≠ '('))
      = natToDec a ++ '-' :: natToDec b :=
    takeWhile_append_stop (fun x => decide (x ≠ '(')) (natToDec a ++ '-' :: natToDec b)
      (natToDec w ++ [')']) '(' hpre (by simp)
  have h6 : strip (natToDec a ++ '-' :: natToDec b) = natToDec a ++ '-' :: natToDec b := by
    apply strip_id
    apply edgeOk_of_all
    intro x hx
    simp only [List.mem_append, List.mem_cons] at hx
    rcases hx with hx | rfl | hx
    · exact (digit_facts x (natToDec_digits a x hx)).1
    · exact isSpace_false_of_range _ (by decide)
    · exact (digit_facts x (natToDec_digits b x hx)).1
  rw [h3, h4]
  simp only [Bool.and_self, if_true]
  rw [h5, h6]

theorem parseWidth_range_plain (a b : Nat) :
    parseWidth (natToDec a ++ '-' :: natToDec b) = .ok (.range a b) := by
  unfold parseWidth
  rw [if_neg (natToDec_ne_hidden a _), isEmpty_dec_append]
  simp only [Bool.false_eq_true, if_false]
  have := cutPrinted_dec (natToDec a ++ ['-']) b
  simp only [List.append_assoc, List.singleton_append] at this
  rw [this, parseRange_two]

theorem parseWidth_fixed (a : Nat) : parseWidth (natToDec a) = .ok (.range a a) := by
  unfold parseWidth
  have h1 : natToDec a ≠ ['-', '1'] := by simpa using natToDec_ne_hidden a []
  have h2 : (natToDec a).isEmpty = false := by simpa using isEmpty_dec_append a []
  rw [if_neg h1, h2]
  simp only [Bool.false_eq_true, if_false]
  have := cutPrinted_dec [] a
  simp only [List.nil_append] at this
  rw [this, parseRange_one]

theorem parseWidth_range_printed (a b w : Nat) :
    parseWidth (natToDec a ++ '-' :: natToDec b ++ '(' :: (natToDec w ++ [')'])) = .ok (.range a b) := by
  unfold parseWidth
  have h1 : natToDec a ++ '-' :: natToDec b ++ '(' :: (natToDec w ++ [')']) ≠ ['-', '1'] := by
    rw [List.append_assoc]; exact natToDec_ne_hidden a _
  have h2 : (natToDec a ++ '-' :: natToDec b ++ '(' :: (natToDec w ++ [')'])).isEmpty = false := by
    rw [List.append_assoc]; exact isEmpty_dec_append a _
  rw [if_neg h1, h2]
  simp only [Bool.false_eq_true, if_false]
  rw [cutPrinted_printed, parseRange_two]

theorem parseWidth_widthStr (c : Col) : parseWidth (widthStr c) = .ok (.range c.minW c.maxW) := by
  unfold widthStr
  by_cases h : c.minW = c.maxW
  · simp only [h, if_true]; exact parseWidth_fixed _
  · simp only [h, if_false]
    cases c.width with
    | none => simpa using parseWidth_range_plain c.minW c.maxW
    | some w => exact parseWidth_range_printed c.minW c.maxW w

theorem findArrow_none (s : List Char) (h : '<' ∉ s) : findArrow s = Option.none := by
  induction s with
  | nil => rfl
  | cons a tl ih =>
    have ha : a ≠ '<' := fun e => h (by simp [e])
    have htl : '<' ∉ tl := fun e => h (List.mem_cons_of_mem _ e)
    unfold findArrow
    cases tl with
    | nil => rfl
    | cons b rest => simp [ha, ih htl]

/-- what the parser is expected to read back from a column -/
def pcolOf (c : Col) : PCol :=
  { fieldName := c.field.name, modifier := c.modifier, breakBy := c.breakBy, valuePath := Option.none,
    width := .range c.minW c.maxW }

/-- the column's name and modifier can be expressed in a format string -/
def ColNameOk (c : Col) : Prop := NameOk c.field.name ∧ ∀ m, c.modifier = some m → ModOk m

theorem splitArrow_none (s : List Char) (h : '<' ∉ s) : splitArrow s = (s, Option.none) := by
  simp [splitArrow, findArrow_none s h]

theorem splitBreak_brkStr (x : List Char) (b : Bool) (h : x.getLast? ≠ some '!') :
    splitBreak (x ++ brkStr b) = (x, b) := by
  unfold splitBreak brkStr endsWith
  cases b with
  | true => simp
  | false => simp [h]

theorem splitModifier_modStr (name : List Char) (m : Option (List Char)) (h : '/' ∉ name) :
    splitModifier (name ++ modStr m) = (name, m) := by
  unfold splitModifier modStr
  cases m with
  | none =>
    have : name.contains '/' = false := by simpa using h
    simp only [List.append_nil, this, Bool.false_eq_true, if_false]
  | some mod =>
    have hnot : ∀ x ∈ name, decide (x ≠ '/') = true := by
      intro x hx
      have : x ≠ '/' := fun e => h (by rw [← e]; exact hx)
      simpa using this
    have htw := takeWhile_append_stop (fun x => decide (x ≠ '/')) name mod '/' hnot (by simp)
    have hc : (name ++ '/' :: mod).contains '/' = true := by simp
    simp only [hc, if_true, htw]
    simp

theorem mem_modStr (x : Char) (m : Option (List Char)) (h : x ∈ modStr m) :
    x = '/' ∨ ∃ mod, m = some mod ∧ x ∈ mod := by
  cases m with
  | none => simp [modStr] at h
  | some mod =>
    simp only [modStr, List.mem_cons] at h
    rcases h with h | h
    · exact Or.inl h
    · exact Or.inr ⟨mod, rfl, h⟩

theorem nameMod_not_mem (c : Col) (h : ColNameOk c) (x : Char) (hx : x ∈ sepForbidden) :
    x ∉ c.field.name ++ modStr c.modifier := by
  obtain ⟨hf, hmf, hs, _⟩ := sepForbidden_sub hx
  intro hm
  rcases List.mem_append.mp hm with hm | hm
  · exact h.1.not_mem hf hm
  · rcases mem_modStr x _ hm with e | ⟨mod, hmod, hx⟩
    · exact hs e
    · exact (h.2 mod hmod).1 x hx hmf

/-- name and modifier together do not end in `!` -/
theorem nameMod_last (c : Col) (h : ColNameOk c) : (c.field.name ++ modStr c.modifier).getLast? ≠ some '!' := by
  cases hm : c.modifier with
  | none => simpa [modStr] using h.1.2.2
  | some m =>
    intro e
    simp only [modStr] at e
    rw [List.getLast?_append] at e
    cases hl : m.getLast? with
    | none =>
      have : m = [] := by simpa using hl
      subst this
      simp at e
    | some y =>
      have h1 : ('/' :: m).getLast? = some y := by
        rw [show '/' :: m = ['/'] ++ m from rfl, List.getLast?_append, hl]; rfl
      rw [h1] at e
      simp only [Option.some_or, Option.some.injEq] at e
      subst e
      exact (h.2 m hm).1 '!' (List.mem_of_getLast? hl) (by decide)

theorem parseHead_colHead (c : Col) (h : ColNameOk c) (w : PWidth) :
    parseHead (colHead c) w = { pcolOf c with width := w } := by
  unfold parseHead colHead
  have harrow : '<' ∉ c.field.name ++ modStr c.modifier ++ brkStr c.breakBy := by
    intro hm
    rcases List.mem_append.mp hm with hm | hm
    · exact nameMod_not_mem c h '<' (by decide) hm
    · unfold brkStr at hm; split at hm <;> simp at hm
  rw [splitArrow_none _ harrow]
  simp only
  rw [splitBreak_brkStr _ _ (nameMod_last c h)]
  simp only
  rw [splitModifier_modStr _ _ (h.1.not_mem (by decide))]
  rfl

theorem EdgeOk.append {a b : List Char} (ha : EdgeOk a) (hb : EdgeOk b) : EdgeOk (a ++ b) := by
  constructor
  · intro c hc
    rw [List.head?_append] at hc
    cases h : a.head? with
    | none => rw [h] at hc; exact hb.1 c (by simpa using hc)
    | some x => rw [h] at hc; simp at hc; subst hc; exact ha.1 x h
  · intro c hc
    rw [List.getLast?_append] at hc
    cases h : b.getLast? with
    | none => rw [h] at hc; exact ha.2 c (by simpa using hc)
    | some x => rw [h] at hc; simp at hc; subst hc; exact hb.2 x h

theorem edgeOk_cons (x : Char) (s : List Char) (hx : isSpace x = false) (hs : EdgeOk s) : EdgeOk (x :: s) := by
  have : EdgeOk [x] := edgeOk_of_all _ (by intro c hc; simp at hc; subst hc; exact hx)
  exact this.append hs

theorem colHead_edgeOk (c : Col) (h : ColNameOk c) : EdgeOk (colHead c) := by
  unfold colHead
  refine (h.1.2.1.append ?_).append ?_
  · cases hm : c.modifier with
    | none => exact edgeOk_of_all _ (by simp [modStr])
    | some m =>
      have hslash : isSpace '/' = false := isSpace_false_of_range _ (by decide)
      refine ⟨fun x hx => by simp [modStr] at hx; subst hx; exact hslash, fun x hx => ?_⟩
      simp only [modStr] at hx
      cases hl : m.getLast? with
      | none =>
        have : m = [] := by simpa using hl
        subst this; simp at hx; subst hx; exact hslash
      | some y =>
        have : ('/' :: m).getLast? = some y := by
          rw [show '/' :: m = ['/'] ++ m from rfl, List.getLast?_append, hl]; rfl
        rw [this] at hx
        have : y = x := by simpa using hx
        subst this
        exact (h.2 m hm).2 y hl
  · unfold brkStr
    split
    · exact edgeOk_of_all _ (by intro x hx; simp at hx; subst hx; decide)
    · exact edgeOk_of_all _ (by simp)

theorem colHead_not_mem (c : Col) (h : ColNameOk c) (x : Char) (hf : x ∈ sepForbidden) :
    x ∉ colHead c := by
  have h2 : x ≠ '!' := (sepForbidden_sub hf).2.2.2
  unfold colHead
  intro hm
  rcases List.mem_append.mp hm with hm | hm
  · exact nameMod_not_mem c h x hf hm
  · unfold brkStr at hm; split at hm <;> simp at hm; exact h2 hm

theorem widthStr_chars (c : Col) : ∀ x ∈ widthStr c, x.isDigit = true ∨ x = '-' ∨ x = '(' ∨ x = ')' := by
  intro x hx
  unfold widthStr at hx
  split at hx
  · exact Or.inl (natToDec_digits _ x hx)
  · simp only [List.mem_append, List.mem_cons] at hx
    rcases hx with (hx | rfl | hx) | hx
    · exact Or.inl (natToDec_digits _ x hx)
    · exact Or.inr (Or.inl rfl)
    · exact Or.inl (natToDec_digits _ x hx)
    · cases hw : c.width with
      | none => simp [hw] at hx
      | some w =>
        simp only [hw, List.mem_cons, List.mem_append, List.not_mem_nil, or_false] at hx
        rcases hx with rfl | hx | rfl
        · exact Or.inr (Or.inr (Or.inl rfl))
        · exact Or.inl (natToDec_digits _ x hx)
        · exact Or.inr (Or.inr (Or.inr rfl))

theorem widthStr_not_mem (c : Col) (x : Char) (hd : x.isDigit = false) (h1 : x ≠ '-') (h2 : x ≠ '(') (h3 : x ≠ ')') :
    x ∉ widthStr c := by
  intro hm
  rcases widthStr_chars c x hm with h | h | h | h
  · rw [h] at hd; cases hd
  · exact h1 h
  · exact h2 h
  · exact h3 h

theorem widthStr_edgeOk (c : Col) : EdgeOk (widthStr c) := by
  apply edgeOk_of_all
  intro x hx
  rcases widthStr_chars c x hx with h | rfl | rfl | rfl
  · exact (digit_facts x h).1
  · exact isSpace_false_of_range _ (by decide)
  · unfold isSpace; decide
  · unfold isSpace; decide

theorem parseCol_colToStr (c : Col) (h : ColNameOk c) : parseCol (colToStr c) = .ok (pcolOf c) := by
  unfold parseCol colToStr
  rw [splitOn_append _ _ _ (colHead_not_mem c h ':' (by decide)),
    splitOn_no_sep _ _ (widthStr_not_mem c ':' (by decide) (by decide) (by decide) (by decide))]
  simp only [List.map_cons, List.map_nil, strip_id _ (colHead_edgeOk c h), strip_id _ (widthStr_edgeOk c)]
  rw [parseWidth_widthStr]
  simp only [bind, Except.bind, parseHead_colHead c h]
  rfl

theorem colToStr_not_mem (c : Col) (h : ColNameOk c) (x : Char) (hx : x = ',' ∨ x = ';') : x ∉ colToStr c := by
  unfold colToStr
  intro hm
  have hf : x ∈ sepForbidden := by rcases hx with rfl | rfl <;> decide
  simp only [List.mem_append, List.mem_cons] at hm
  rcases hm with hm | hm | hm
  · exact colHead_not_mem c h x hf hm
  · rcases hx with rfl | rfl <;> cases hm
  · refine widthStr_not_mem c x ?_ ?_ ?_ ?_ hm <;> rcases hx with rfl | rfl <;> decide

theorem colon_mem_colToStr (c : Col) : ':' ∈ colToStr c := by simp [colToStr]

/-! ## the column list and the whole format -/

theorem parseColList_map (cols : List Col) (h : ∀ c ∈ cols, ColNameOk c) :
    parseColList (cols.map colToStr) = .ok (cols.map pcolOf) := by
  induction cols with
  | nil => rfl
  | cons c cs ih =>
    simp only [List.map_cons, parseColList, parseCol_colToStr c (h c (by simp)),
      ih (fun x hx => h x (List.mem_cons_of_mem _ hx)), bind, Except.bind]

theorem parseCols_colsToStr (cols : List Col) (hne : cols ≠ []) (h : ∀ c ∈ cols, ColNameOk c) :
    parseCols (colsToStr cols) = .ok (.explicit (cols.map pcolOf)) := by
  have hcolon : ':' ∈ colsToStr cols := by
    cases cols with
    | nil => exact absurd rfl hne
    | cons c cs => exact mem_joinWith_of_mem _ _ _ (colToStr c) (by simp) (colon_mem_colToStr c)
  have h1 : (colsToStr cols).isEmpty = false := by
    cases hs : colsToStr cols with
    | nil => rw [hs] at hcolon; simp at hcolon
    | cons _ _ => rfl
  have h2 : colsToStr cols ≠ ['*'] := by
    intro e; rw [e] at hcolon; simp at hcolon
  unfold parseCols
  rw [h1, if_neg h2]
  simp only [Bool.false_eq_true, if_false]
  unfold colsToStr
  rw [splitOn_joinWith ',' _ (by simpa using hne)
    (by intro p hp; simp only [List.mem_map] at hp; obtain ⟨c, hc, rfl⟩ := hp
        exact colToStr_not_mem c (h c hc) ',' (Or.inl rfl))]
  rw [parseColList_map cols h]
  rfl

theorem colsToStr_not_mem (cols : List Col) (h : ∀ c ∈ cols, ColNameOk c) : ';' ∉ colsToStr cols := by
  intro hm
  rcases mem_joinWith _ _ _ hm with e | ⟨p, hp, hc⟩
  · cases e
  · simp only [List.mem_map] at hp
    obtain ⟨c, hcm, rfl⟩ := hp
    exact colToStr_not_mem c (h c hcm) ';' (Or.inr rfl) hc

/-- what `_parse_vis_lines_fmt` is expected to read back -/
def visOf (f : Fmt) : Option (Option Int × Option Int) :=
  if f.anySkipped = some false then Option.none
  else match f.limF, f.limL with
    | some a, some b => some (some a, some b)
    | _, _ => some (Option.none, Option.none)

theorem intToDec_not_mem (i : Int) (x : Char) (hd : x.isDigit = false) (h1 : x ≠ '-') : x ∉ intToDec i := by
  intro hm
  rcases intToDec_chars i x hm with h | h
  · exact h1 h
  · rw [h] at hd; cases hd

theorem intToDec_edgeOk (i : Int) : EdgeOk (intToDec i) := by
  apply edgeOk_of_all
  intro x hx
  rcases intToDec_chars i x hx with rfl | h
  · exact isSpace_false_of_range _ (by decide)
  · exact (digit_facts x h).1

theorem limitsToStr_not_mem (f : Fmt) : ';' ∉ limitsToStr f := by
  unfold limitsToStr
  split
  · simp
  · split
    · intro hm
      simp only [List.mem_append, List.mem_cons] at hm
      rcases hm with hm | hm | hm
      · exact intToDec_not_mem _ ';' (by decide) (by decide) hm
      · cases hm
      · exact intToDec_not_mem _ ';' (by decide) (by decide) hm
    · simp

theorem parseVis_limitsToStr (f : Fmt) : parseVis (limitsToStr f) = .ok (visOf f) := by
  unfold limitsToStr visOf
  by_cases hs : f.anySkipped = some false
  · simp [hs, parseVis]
  · simp only [hs, if_false]
    cases hF : f.limF with
    | none => simp [parseVis]
    | some a =>
    cases hL : f.limL with
    | none => simp [parseVis]
    | some b =>
      simp only
      unfold parseVis
      have hne : (intToDec a ++ ':' :: intToDec b).isEmpty = false := by
        cases h : intToDec a with
        | nil => exact absurd h (intToDec_ne_nil a)
        | cons _ _ => rfl
      have hstar : intToDec a ++ ':' :: intToDec b ≠ ['*'] := by
        intro e
        have : ':' ∈ intToDec a ++ ':' :: intToDec b := by simp
        rw [e] at this; simp at this
      rw [hne, if_neg hstar]
      simp only [Bool.false_eq_true, if_false]
      rw [splitOn_append _ _ _ (intToDec_not_mem a ':' (by decide) (by decide)),
        splitOn_no_sep _ _ (intToDec_not_mem b ':' (by decide) (by decide))]
      simp only [List.map_cons, List.map_nil, strip_id _ (intToDec_edgeOk a), strip_id _ (intToDec_edgeOk b),
        parsePyInt_intToDec]

/-- what the format parser is expected to read back from `str(table.fmt)` -/
def pfmtOf (f : Fmt) : PFmt := ⟨.explicit (f.cols.map pcolOf), visOf f⟩

theorem parseFmt_fmtToStr (f : Fmt) (hne : f.cols ≠ []) (h : ∀ c ∈ f.cols, ColNameOk c) :
    parseFmt (fmtToStr f) = .ok (pfmtOf f) := by
  have hcols := parseCols_colsToStr f.cols hne h
  have hvis := parseVis_limitsToStr f
  have hsemi := colsToStr_not_mem f.cols h
  have hcne : (colsToStr f.cols).isEmpty = false := by
    cases hs : colsToStr f.cols with
    | nil =>
      rw [hs] at hcols
      simp [parseCols] at hcols
    | cons _ _ => rfl
  unfold fmtToStr parseFmt pfmtOf
  cases hl : limitsToStr f with
  | nil =>
    have hpop : popEmpty [colsToStr f.cols, []] = [colsToStr f.cols] := by
      simp [popEmpty, hcne]
    rw [hpop]
    simp only [joinWith]
    rw [splitOn_no_sep _ _ hsemi]
    simp only [hcols, bind, Except.bind]
    rw [hl] at hvis
    simp only [parseVis, List.isEmpty_nil, if_true, Except.ok.injEq] at hvis
    rw [← hvis]
  | cons x xs =>
    have hpop : popEmpty [colsToStr f.cols, x :: xs] = [colsToStr f.cols, x :: xs] := by
      simp [popEmpty]
    rw [hpop]
    simp only [joinWith]
    rw [splitOn_append _ _ _ hsemi, splitOn_no_sep _ _ (by rw [← hl]; exact limitsToStr_not_mem f)]
    rw [hl] at hvis
    simp only [hcols, hvis, bind, Except.bind]

end Table
