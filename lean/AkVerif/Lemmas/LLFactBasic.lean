import AkVerif.Lemmas.LLDict
/-!
List-level facts behind the factorisation proof (C01 `factorize_ok`, C02 `fact_lang_eq`):
`splitChunks` (consecutive rules with equal first symbol), `lcp` (longest common prefix and its
maximality), `numberFrom`, names of suffix symbols (`nameLen` grows from parent to child),
stable insertion sort (`sortBy`: permutation, sorted), `parseSym` on names without `__`,
flattened expansions over a dictionary (`FlatD`).
-/
set_option linter.unusedSectionVars false
namespace LL

/-! ### flattened expansions over a dictionary -/
section FlatD
variable {σ : Type} [DecidableEq σ]

/-- expansions of `s` in the dictionary `G` when the symbols of `S` (allowed only in last position)
are replaced by their own expansions, recursively -/
inductive FlatD (G : Prods σ) (S : List σ) : σ → List σ → Prop where
  | base {s p} : p ∈ gramRules G s → (∀ l, p.getLast? = some l → l ∉ S) → FlatD G S s p
  | step {s pre s' e} : pre ++ [s'] ∈ gramRules G s → s' ∈ S → FlatD G S s' e → FlatD G S s (pre ++ e)

theorem nodup_keys_unique {G : Prods σ} (hnd : (G.map (·.1)).Nodup) {k : σ} {r1 r2 : List (Rule σ)}
    (h1 : (k, r1) ∈ G) (h2 : (k, r2) ∈ G) : r1 = r2 := by
  have a := dget_of_mem_nodup hnd h1
  have b := dget_of_mem_nodup hnd h2
  rw [a] at b
  cases b; rfl

end FlatD

/-! ### lcp -/
section Lcp
variable {σ : Type} [DecidableEq σ]

theorem lcp_prefix_left : ∀ (a b : List σ), lcp a b <+: a
  | [], _ => by simp [lcp]
  | _ :: _, [] => by simp [lcp]
  | x :: xs, y :: ys => by
    unfold lcp
    split
    · exact (List.cons_prefix_cons).2 ⟨rfl, lcp_prefix_left xs ys⟩
    · exact List.nil_prefix

theorem lcp_prefix_right : ∀ (a b : List σ), lcp a b <+: b
  | [], _ => by simp [lcp]
  | _ :: _, [] => by simp [lcp]
  | x :: xs, y :: ys => by
    unfold lcp
    split
    · rename_i h; subst h
      exact (List.cons_prefix_cons).2 ⟨rfl, lcp_prefix_right xs ys⟩
    · exact List.nil_prefix

theorem prefix_lcp : ∀ {q a b : List σ}, q <+: a → q <+: b → q <+: lcp a b
  | [], _, _, _, _ => List.nil_prefix
  | z :: zs, [], _, h, _ => by simp at h
  | z :: zs, _ :: _, [], _, h => by simp at h
  | z :: zs, x :: xs, y :: ys, h1, h2 => by
    obtain ⟨e1, p1⟩ := (List.cons_prefix_cons).1 h1
    obtain ⟨e2, p2⟩ := (List.cons_prefix_cons).1 h2
    subst e1; subst e2
    unfold lcp
    simp only [if_true]
    exact (List.cons_prefix_cons).2 ⟨rfl, prefix_lcp p1 p2⟩

/-- the common prefix computed for a chunk -/
def lcpAll (init : List σ) (rs : List (Rule σ)) : List σ := rs.foldl (fun acc r => lcp acc r.rhs) init

theorem lcpAll_prefix_init : ∀ (rs : List (Rule σ)) (init : List σ), lcpAll init rs <+: init
  | [], init => by simp [lcpAll]
  | r :: rs, init => by
    simp only [lcpAll, List.foldl_cons]
    exact List.IsPrefix.trans (lcpAll_prefix_init rs _) (lcp_prefix_left _ _)

theorem lcpAll_prefix_mem : ∀ (rs : List (Rule σ)) (init : List σ), ∀ r ∈ rs, lcpAll init rs <+: r.rhs
  | [], _, _, h => by simp at h
  | r0 :: rs, init, r, h => by
    simp only [lcpAll, List.foldl_cons]
    simp only [List.mem_cons] at h
    rcases h with h | h
    · subst h
      exact List.IsPrefix.trans (lcpAll_prefix_init rs _) (lcp_prefix_right _ _)
    · exact lcpAll_prefix_mem rs _ r h

theorem prefix_lcpAll : ∀ (rs : List (Rule σ)) (init q : List σ), q <+: init → (∀ r ∈ rs, q <+: r.rhs) →
    q <+: lcpAll init rs
  | [], _, _, h, _ => by simpa [lcpAll] using h
  | r0 :: rs, init, q, h, hall => by
    simp only [lcpAll, List.foldl_cons]
    exact prefix_lcpAll rs _ q (prefix_lcp h (hall r0 (by simp))) (fun r hr => hall r (by simp [hr]))

end Lcp

/-! ### splitChunks -/
section Chunks
variable {σ : Type} [DecidableEq σ]

theorem splitChunks_flatten : ∀ (rules : List (Rule σ)), (splitChunks rules).flatten = rules
  | [] => by simp [splitChunks]
  | r :: rs => by
    have ih := splitChunks_flatten rs
    unfold splitChunks
    split
    · rename_i h; rw [h] at ih; simp at ih; simp [← ih]
    · rename_i cs h; rw [h] at ih; simp at ih; simp [← ih]
    · rename_i r' c cs h
      rw [h] at ih
      split
      · simp at ih ⊢; rw [← ih]
      · simp at ih ⊢; rw [← ih]

theorem splitChunks_ne_nil : ∀ (rules : List (Rule σ)), ∀ c ∈ splitChunks rules, c ≠ []
  | [], c, h => by simp [splitChunks] at h
  | r :: rs, c, h => by
    have ih := splitChunks_ne_nil rs
    unfold splitChunks at h
    split at h
    · simp at h; subst h; simp
    · rename_i cs hs
      exact absurd rfl (ih [] (by rw [hs]; simp))
    · rename_i r' c' cs hs
      split at h
      · simp only [List.mem_cons] at h
        rcases h with h | h
        · subst h; simp
        · exact ih c (by rw [hs]; simp [h])
      · simp only [List.mem_cons] at h
        rcases h with h | h | h
        · subst h; simp
        · subst h; simp
        · exact ih c (by rw [hs]; simp [h])

/-- all rules of a chunk start with the same symbol -/
theorem splitChunks_head : ∀ (rules : List (Rule σ)), ∀ c ∈ splitChunks rules, ∀ r1 ∈ c, ∀ r2 ∈ c,
    r1.rhs.head? = r2.rhs.head?
  | [], c, h => by simp [splitChunks] at h
  | r :: rs, c, h => by
    have ih := splitChunks_head rs
    unfold splitChunks at h
    split at h
    · simp at h; subst h
      intro r1 h1 r2 h2
      simp at h1 h2; subst h1; subst h2; rfl
    · rename_i cs hs
      simp only [List.mem_cons] at h
      rcases h with h | h
      · subst h
        intro r1 h1 r2 h2
        simp at h1 h2; subst h1; subst h2; rfl
      · exact ih c (by rw [hs]; simp [h])
    · rename_i r' c' cs hs
      have ihc := ih (r' :: c') (by rw [hs]; simp)
      split at h
      · rename_i heq
        simp only [List.mem_cons] at h
        rcases h with h | h
        · subst h
          intro r1 h1 r2 h2
          have key : ∀ x ∈ r :: r' :: c', x.rhs.head? = r'.rhs.head? := by
            intro x hx
            simp only [List.mem_cons] at hx
            rcases hx with hx | hx | hx
            · subst hx; exact heq
            · subst hx; rfl
            · exact ihc x (by simp [hx]) r' (by simp)
          rw [key r1 h1, key r2 h2]
        · exact ih c (by rw [hs]; simp [h])
      · simp only [List.mem_cons] at h
        rcases h with h | h | h
        · subst h
          intro r1 h1 r2 h2
          simp at h1 h2; subst h1; subst h2; rfl
        · subst h; exact ihc
        · exact ih c (by rw [hs]; simp [h])

/-- if all rules start with the same symbol there is exactly one chunk -/
theorem splitChunks_single : ∀ (rules : List (Rule σ)) (h : Option σ), rules ≠ [] →
    (∀ r ∈ rules, r.rhs.head? = h) → splitChunks rules = [rules]
  | [], _, hne, _ => absurd rfl hne
  | [r], _, _, _ => by simp [splitChunks]
  | r :: r2 :: rs, h, _, hall => by
    have ih := splitChunks_single (r2 :: rs) h (by simp) (fun x hx => hall x (by simp [hx]))
    unfold splitChunks
    rw [ih]
    simp only
    have h1 := hall r (by simp)
    have h2 := hall r2 (by simp)
    simp [h1, h2]

theorem mem_of_mem_chunk {rules : List (Rule σ)} {c : List (Rule σ)} (hc : c ∈ splitChunks rules)
    {r : Rule σ} (hr : r ∈ c) : r ∈ rules := by
  rw [← splitChunks_flatten rules]
  exact List.mem_flatten.2 ⟨c, hc, hr⟩

end Chunks

/-! ### numberFrom -/
theorem numberFrom_map_snd {α : Type} : ∀ (n : Nat) (l : List α), (numberFrom n l).map (·.2) = l
  | _, [] => rfl
  | n, x :: xs => by simp [numberFrom, numberFrom_map_snd (n + 1) xs]

theorem numberFrom_length {α : Type} : ∀ (n : Nat) (l : List α), (numberFrom n l).length = l.length
  | _, [] => rfl
  | n, x :: xs => by simp [numberFrom, numberFrom_length (n + 1) xs]

theorem mem_numberFrom {α : Type} {n : Nat} {l : List α} {p : Nat × α} (h : p ∈ numberFrom n l) : p.2 ∈ l := by
  have := numberFrom_map_snd n l
  rw [← this]
  exact List.mem_map.2 ⟨p, h, rfl⟩

theorem mem_numberFrom_of_mem {α : Type} {l : List α} {x : α} (n : Nat) (h : x ∈ l) :
    ∃ i, (i, x) ∈ numberFrom n l := by
  have := numberFrom_map_snd n l
  rw [← this] at h
  obtain ⟨p, hp, hx⟩ := List.mem_map.1 h
  exact ⟨p.1, by rw [← hx]; exact hp⟩

/-! ### stable insertion sort -/
section SortSec
variable {α : Type}

theorem insertBy_perm (le : α → α → Bool) (x : α) : ∀ (l : List α), (insertBy le x l).Perm (x :: l)
  | [] => by simp [insertBy]
  | y :: ys => by
    unfold insertBy
    split
    · exact List.Perm.refl _
    · exact ((insertBy_perm le x ys).cons y).trans (List.Perm.swap x y ys)

theorem sortBy_perm (le : α → α → Bool) : ∀ (l : List α), (sortBy le l).Perm l
  | [] => by simp [sortBy]
  | x :: xs => by
    simp only [sortBy]
    exact (insertBy_perm le x _).trans ((sortBy_perm le xs).cons x)

theorem mem_sortBy {le : α → α → Bool} {l : List α} {x : α} : x ∈ sortBy le l ↔ x ∈ l :=
  (sortBy_perm le l).mem_iff

theorem insertBy_sorted {le : α → α → Bool} (htot : ∀ a b, le a b = true ∨ le b a = true)
    (htr : ∀ a b c, le a b = true → le b c = true → le a c = true) (x : α) :
    ∀ (l : List α), l.Pairwise (fun a b => le a b = true) → (insertBy le x l).Pairwise (fun a b => le a b = true)
  | [], _ => by simp [insertBy]
  | y :: ys, h => by
    unfold insertBy
    split
    · rename_i hxy
      refine List.Pairwise.cons ?_ h
      intro z hz
      simp only [List.mem_cons] at hz
      rcases hz with hz | hz
      · subst hz; exact hxy
      · exact htr _ _ _ hxy ((List.pairwise_cons.1 h).1 z hz)
    · rename_i hxy
      have hyx : le y x = true := by
        rcases htot x y with h' | h'
        · exact absurd h' hxy
        · exact h'
      refine List.Pairwise.cons ?_ (insertBy_sorted htot htr x ys (List.pairwise_cons.1 h).2)
      intro z hz
      have := (insertBy_perm le x ys).mem_iff.1 hz
      simp only [List.mem_cons] at this
      rcases this with hz' | hz'
      · subst hz'; exact hyx
      · exact (List.pairwise_cons.1 h).1 z hz'

theorem sortBy_sorted {le : α → α → Bool} (htot : ∀ a b, le a b = true ∨ le b a = true)
    (htr : ∀ a b c, le a b = true → le b c = true → le a c = true) :
    ∀ (l : List α), (sortBy le l).Pairwise (fun a b => le a b = true)
  | [] => by simp [sortBy]
  | x :: xs => by
    simp only [sortBy]
    exact insertBy_sorted htot htr x _ (sortBy_sorted htot htr xs)

end SortSec

/-! ### names -/

theorem pad2_length (g : Nat) : 2 ≤ (pad2 g).length := by
  unfold pad2
  simp only
  split
  · rename_i h
    have : 0 < (Nat.toDigits 10 g).length := by
      cases hd : Nat.toDigits 10 g with
      | nil => exact absurd hd (Nat.toDigits_ne_nil)
      | cons a b => simp
    simp; omega
  · omega

theorem name_suf (s : Sym) (g : Nat) : (s.suf g).name = s.name ++ ("__S".toList ++ pad2 g) := by
  simp [Sym.name, Sym.suf]

theorem nameLen_suf (s : Sym) (g : Nat) : s.nameLen < (s.suf g).nameLen := by
  unfold Sym.nameLen
  rw [name_suf]
  simp

end LL
