import AkVerif.Model.LLCtorN
import AkVerif.Lemmas.LLTmpl
import AkVerif.Lemmas.LLCtorRecG
/-!
`constructGN` (the constructor with the `verify_grammar` stage of the production templates — what the driver
executes) against `constructG`:

* `constructGN_ok_iff` — it returns `P` iff `constructG` returns `P` and no item symbol of a delimiter-less list
  template is nullable; so every theorem about `constructG T inp = .ok P` applies to it (`constructGN_ok`),
* `constructGN_nil` — without such templates it *is* `constructG`,
* `constructGN_stages` — the constructor unfolded to the recursion check when every other stage succeeds.
-/
set_option linter.unusedSectionVars false
namespace LL
open Ak

theorem verifyTemplates_ok_iff {nonull : List (List Char)} {nulls : List Sym} :
    verifyTemplates nonull nulls = .ok () ↔ ∀ n ∈ nonull, parseSym n ∉ nulls := by
  unfold verifyTemplates
  split
  · rename_i h
    simp only [List.any_eq_true, decide_eq_true_eq] at h
    obtain ⟨n, hn, hm⟩ := h
    constructor
    · intro h'; cases h'
    · intro h'; exact absurd hm (h' n hn)
  · rename_i h
    simp only [List.any_eq_true, decide_eq_true_eq, not_exists, not_and] at h
    exact ⟨fun _ => h, fun _ => rfl⟩

theorem verifyTemplates_nil (nulls : List Sym) : verifyTemplates [] nulls = .ok () := by
  simp [verifyTemplates]

theorem verifyTemplates_cases (nonull : List (List Char)) (nulls : List Sym) :
    verifyTemplates nonull nulls = .ok () ∨ verifyTemplates nonull nulls = .error .grammarError := by
  unfold verifyTemplates; split <;> simp

theorem constructGN_nil (T : Tmpl) (inp : CtorIn) : constructGN [] T inp = constructG T inp := by
  unfold constructGN constructG
  simp only [verifyTemplates_nil]
  rfl

/-- `constructGN` returns a parser exactly when `constructG` returns it and the templates' check passes -/
theorem constructGN_ok_iff {nonull : List (List Char)} {T : Tmpl} {inp : CtorIn} {P : Parser} :
    constructGN nonull T inp = .ok P ↔
      constructG T inp = .ok P ∧ ∀ n ∈ nonull, parseSym n ∉ P.nullables := by
  constructor
  · intro h
    unfold constructGN at h
    dsimp only at h
    split at h
    · simp at h
    · rename_i hD
      obtain ⟨skip, hskip, h⟩ := Except.bind_ok h
      obtain ⟨U, hU, h⟩ := Except.bind_ok h
      obtain ⟨⟨G, suffix⟩, hF, h⟩ := Except.bind_ok h
      simp only at h
      obtain ⟨_, hV, h⟩ := Except.bind_ok h
      obtain ⟨nulls, hN, h⟩ := Except.bind_ok h
      obtain ⟨_, hVT, h⟩ := Except.bind_ok h
      obtain ⟨first, hFi, h⟩ := Except.bind_ok h
      obtain ⟨follow, hFo, h⟩ := Except.bind_ok h
      obtain ⟨table, hT, h⟩ := Except.bind_ok h
      obtain ⟨_, hR, h⟩ := Except.bind_ok h
      simp only [Except.ok.injEq] at h
      subst h
      refine ⟨?_, verifyTemplates_ok_iff.1 hVT⟩
      unfold constructG
      simp only [hD, hskip, hU, hF, hV, hN, hFi, hFo, hT, hR, bind, Except.bind]
      rfl
  · rintro ⟨h, hno⟩
    have hB := constructG_built h
    have hVT : verifyTemplates nonull P.nullables = .ok () := verifyTemplates_ok_iff.2 hno
    have e1 := hB.hterms
    have e2 := hB.hstart
    have hV := hB.hV; have hFi := hB.hFi; have hFo := hB.hFo; have hT := hB.hT; have hR := hB.hR
    rw [e1, e2] at hV
    rw [e1] at hFi hT hR
    rw [e1, e2] at hFo
    unfold constructGN
    simp only [hB.hD, Bool.false_eq_true, if_false, hB.hskip, hB.hU, hB.hF, hV, hB.hN, hVT, hFi, hFo, hT, hR,
      bind, Except.bind]
    congr 1
    cases P
    simp only [Parser.mk.injEq]
    simp only at e1 e2
    exact ⟨e1.symm, trivial, e2.symm, hB.hsyn.symm, hB.hkw.symm, trivial, trivial, trivial, trivial, trivial,
      trivial, trivial⟩

theorem constructGN_ok {nonull : List (List Char)} {T : Tmpl} {inp : CtorIn} {P : Parser}
    (h : constructGN nonull T inp = .ok P) : constructG T inp = .ok P :=
  (constructGN_ok_iff.1 h).1

/-- the constructor unfolded down to the recursion check when every other stage succeeds -/
theorem constructGN_stages {nonull : List (List Char)} {T : Tmpl} {inp : CtorIn} {skip : List Sym}
    {U G : Prods Sym} {S NG : List Sym} {first follow : SetMap Sym} {table : Table Sym}
    (hD : (tokenNames inp).any (fun t => hasDunder t.name) = false)
    (hskip : skipSet inp (tokenNames inp) = .ok skip)
    (hU : createProdsT T 0 inp.prods [] = .ok U)
    (hF : factorize (tokenNames inp) U inp.smart = .ok (G, S))
    (hV : verifyPart1 (sadd (tokenNames inp) endSym) (parseSym inp.start) G = .ok ())
    (hN : nullables G = .ok NG)
    (hVT : verifyTemplates nonull NG = .ok ())
    (hFi : firstSets (sadd (tokenNames inp) endSym) NG G = .ok first)
    (hFo : followSets (sadd (tokenNames inp) endSym) NG first G (parseSym inp.start) endSym = .ok follow)
    (hT : mkTable (sadd (tokenNames inp) endSym) NG first follow G = .ok table) :
    constructGN nonull T inp =
      (match recCheck G (sadd (tokenNames inp) endSym) NG (sortedKeys G) with
       | .ok () => .ok { terminals := sadd (tokenNames inp) endSym, skip := skip, start := parseSym inp.start,
                         syn := inp.syn, kw := inp.kw, userProds := U, prods := G, suffix := S,
                         nullables := NG, first := first, follow := follow, table := table }
       | .error e => .error e) := by
  unfold constructGN
  simp only [hD, Bool.false_eq_true, if_false, hskip, hU, hF, hV, hN, hVT, hFi, hFo, hT, bind, Except.bind]
  cases recCheck G (sadd (tokenNames inp) endSym) NG (sortedKeys G) <;> rfl

/-- a nullable item of a delimiter-less list template: `GrammarError`, whatever the later stages would say -/
theorem constructGN_grammarError {nonull : List (List Char)} {T : Tmpl} {inp : CtorIn} {skip : List Sym}
    {U G : Prods Sym} {S NG : List Sym}
    (hD : (tokenNames inp).any (fun t => hasDunder t.name) = false)
    (hskip : skipSet inp (tokenNames inp) = .ok skip)
    (hU : createProdsT T 0 inp.prods [] = .ok U)
    (hF : factorize (tokenNames inp) U inp.smart = .ok (G, S))
    (hV : verifyPart1 (sadd (tokenNames inp) endSym) (parseSym inp.start) G = .ok ())
    (hN : nullables G = .ok NG) {n : List Char} (hn : n ∈ nonull) (hnull : parseSym n ∈ NG) :
    constructGN nonull T inp = .error .grammarError := by
  have hVT : verifyTemplates nonull NG = .error .grammarError := by
    rcases verifyTemplates_cases nonull NG with h | h
    · exact absurd hnull (verifyTemplates_ok_iff.1 h n hn)
    · exact h
  unfold constructGN
  simp only [hD, Bool.false_eq_true, if_false, hskip, hU, hF, hV, hN, hVT, bind, Except.bind]

/-- when every stage other than the recursion check succeeds (the templates' check included), the two
constructors are the same computation -/
theorem constructGN_eq_of_stages {nonull : List (List Char)} {T : Tmpl} {inp : CtorIn} {skip : List Sym}
    {U G : Prods Sym} {S NG : List Sym} {first follow : SetMap Sym} {table : Table Sym}
    (hD : (tokenNames inp).any (fun t => hasDunder t.name) = false)
    (hskip : skipSet inp (tokenNames inp) = .ok skip)
    (hU : createProdsT T 0 inp.prods [] = .ok U)
    (hF : factorize (tokenNames inp) U inp.smart = .ok (G, S))
    (hV : verifyPart1 (sadd (tokenNames inp) endSym) (parseSym inp.start) G = .ok ())
    (hN : nullables G = .ok NG)
    (hVT : ∀ n ∈ nonull, parseSym n ∉ NG)
    (hFi : firstSets (sadd (tokenNames inp) endSym) NG G = .ok first)
    (hFo : followSets (sadd (tokenNames inp) endSym) NG first G (parseSym inp.start) endSym = .ok follow)
    (hT : mkTable (sadd (tokenNames inp) endSym) NG first follow G = .ok table) :
    constructGN nonull T inp = constructG T inp := by
  rw [constructGN_stages hD hskip hU hF hV hN (verifyTemplates_ok_iff.2 hVT) hFi hFo hT,
    constructG_stages hD hskip hU hF hV hN hFi hFo hT]
  cases recCheck G (sadd (tokenNames inp) endSym) NG (sortedKeys G) <;> rfl

/-- `constructG_rec_iff` for the constructor with the templates' `verify_grammar` stage -/
theorem constructGN_rec_iff {nonull : List (List Char)} {T : Tmpl} {inp : CtorIn} {skip : List Sym}
    {U G : Prods Sym} {S NG NU : List Sym} {first follow : SetMap Sym} {table : Table Sym}
    (hpl : PlainNames inp.prods)
    (hD : (tokenNames inp).any (fun t => hasDunder t.name) = false)
    (hskip : skipSet inp (tokenNames inp) = .ok skip)
    (hU : createProdsT T 0 inp.prods [] = .ok U)
    (hF : factorize (tokenNames inp) U inp.smart = .ok (G, S))
    (hV : verifyPart1 (sadd (tokenNames inp) endSym) (parseSym inp.start) G = .ok ())
    (hN : nullables G = .ok NG)
    (hVT : ∀ n ∈ nonull, parseSym n ∉ NG)
    (hFi : firstSets (sadd (tokenNames inp) endSym) NG G = .ok first)
    (hFo : followSets (sadd (tokenNames inp) endSym) NG first G (parseSym inp.start) endSym = .ok follow)
    (hT : mkTable (sadd (tokenNames inp) endSym) NG first follow G = .ok table)
    (hNU : nullables U = .ok NU) :
    (constructGN nonull T inp = .error .grammarIsRecursive ↔ ∃ X, Plus (Reach1 U NU) X X) ∧
    ((∃ P, constructGN nonull T inp = .ok P) ↔ ¬ ∃ X, Plus (Reach1 U NU) X X) := by
  rw [constructGN_eq_of_stages hD hskip hU hF hV hN hVT hFi hFo hT]
  exact constructG_rec_iff hpl hD hskip hU hF hV hN hFi hFo hT hNU

end LL
