import AkVerif.Lemmas.CliGraphScan
/-! Helper lemmas for C19, fifth part: everything after `--` is a word; `-vv…` counts. -/
namespace CliGraph
open Ak

/-! ### after `--` -/

/-- once `--` was seen the scan only collects words -/
theorem runP_afterDD (tbl : List OptSpec) (ws : List Name) (ps : PS) (hd : ps.afterDD = true)
    (r : List (Name × Bool)) (hr : ps.run = .opened r) :
    runP tbl ws ps = finish tbl { ps with run := .opened (r ++ ws.map (fun w => (w, false))) } := by
  induction ws generalizing ps r with
  | nil =>
    rw [runP]
    congr 1
    cases ps
    simp only [] at hr
    simp [hr]
  | cons w ws ih =>
    rw [runP]
    simp only [hd, if_true]
    have h1 : (addWord tbl ps (w, false)).afterDD = true := by
      simp [addWord, hr, hd]
    have h2 : (addWord tbl ps (w, false)).run = .opened (r ++ [(w, false)]) := by
      simp [addWord, hr]
    rw [ih _ h1 _ h2]
    congr 1
    simp [addWord, hr, hd]

/-- **`--` ends the options.** With one `nargs='*'` positional, the arguments `-- w1 w2 …` are accepted
whatever the words look like, and the positional receives exactly those words. -/
theorem runParser_dd {q : Parser} {o : OptSpec} (hp : posSpecs q.opts = [o]) (hn : posN o = .star)
    (hreq : ∀ u, missingReq q.opts u = false) (ws : List Name) :
    ∃ ns, runParser q (dd :: ws) = .ok ns ∧ ns.get (destOf o) = some (.list ws) ∧
      ∀ k, k ≠ destOf o → ns.get k = (defaults q.opts []).get k := by
  have hpos : posOk q.opts = true := by simp [posOk, hp]
  have ha : ambiguousIn q.opts (dd :: ws) = false := by simp [ambiguousIn]
  have hi : (PS.init q.opts).afterDD = false := rfl
  have hne : (posSpecs q.opts).isEmpty = false := by simp [hp]
  rw [runParser_eq hpos, ha]
  simp only [Bool.false_eq_true, if_false]
  rw [runP]
  simp only [hi, Bool.false_eq_true, if_false, if_true]
  have hrun : (addWord q.opts { PS.init q.opts with afterDD := true } (dd, true)).run = .opened [(dd, true)] := by
    simp [addWord, PS.init, hne]
  rw [runP_afterDD q.opts ws _ (by simp [addWord, PS.init, hne]) _ hrun]
  simp only [finish, hreq, Bool.false_eq_true, if_false, finishPos, closeRun, consumeRun, hp, hn, splitRun, List.cons_append, List.nil_append, List.map_cons,
    List.map_map, assignRest]
  have hstr : posValue PosN.star (dd :: List.map ((fun x => x.1) ∘ fun w => (w, false)) ws) = .list ws := by
    simp [posValue, List.erase_cons_head, Function.comp_def]
  have hex : (addWord q.opts { PS.init q.opts with afterDD := true } (dd, true)).extras = false := by
    simp [addWord, PS.init, hne]
  have hns : (addWord q.opts { PS.init q.opts with afterDD := true } (dd, true)).ns = defaults q.opts [] := by
    simp [addWord, PS.init, hne]
  simp only [hstr, hex, hns, List.isEmpty_nil, Bool.not_true, Bool.or_false, Bool.false_eq_true, if_false]
  exact ⟨_, rfl, get_set_self _ _ _, fun k hk => get_set_ne _ hk _⟩

/-! ### `-vv…` -/

theorem expand_count {tbl : List OptSpec} {o : OptSpec} {c : Char} (hk : o.kind = .count)
    (hf : findOpt tbl ['-', c] = some o) (k : Nat) :
    expand tbl o (List.replicate (k + 1) c) = some (List.replicate (k + 1) o, o, none) := by
  induction k with
  | zero => simp [expand, takesArg, hk, hf]
  | succ k ih =>
    have : List.replicate (k + 1 + 1) c = c :: c :: List.replicate k c := by simp [List.replicate_succ]
    rw [this, expand]
    have ih' : expand tbl o (c :: List.replicate k c) = some (List.replicate (k + 1) o, o, none) := by
      simpa [List.replicate_succ] using ih
    simp only [takesArg, hk, Bool.false_eq_true, if_false, hf, ih']
    simp [List.replicate_succ]

theorem applyAll_count {o : OptSpec} (hk : o.kind = .count) (hm : o.mutex = false) (k : Nat) (ps : PS) (n : Nat)
    (hg : ps.ns.get (destOf o) = some (.nat n)) :
    ∃ ps', applyAll (List.replicate k o) ps = .ok ps' ∧ ps'.ns.get (destOf o) = some (.nat (n + k)) ∧
      ps'.run = ps.run ∧ ps'.extras = ps.extras ∧ ps'.afterDD = ps.afterDD ∧
      (∀ d, Has ps.ns d → Has ps'.ns d) ∧ (∀ d, d ≠ destOf o → ps'.ns.get d = ps.ns.get d) := by
  induction k generalizing ps n with
  | zero => exact ⟨ps, rfl, by simpa using hg, rfl, rfl, rfl, fun _ h => h, fun _ _ => rfl⟩
  | succ k ih =>
    have h1 : applyNoArg o ps = .ok (setv o (.nat (n + 1)) ps) := by
      simp [applyNoArg, hk, mutexOk, hm, hg]
    have hg' : (setv o (.nat (n + 1)) ps).ns.get (destOf o) = some (.nat (n + 1)) := get_set_self _ _ _
    obtain ⟨ps', h2, h3, h4, h5, h6, h7, h8⟩ := ih (setv o (.nat (n + 1)) ps) (n + 1) hg'
    refine ⟨ps', ?_, ?_, h4, h5, h6, fun d hd => h7 d (has_set hd _ _), fun d hd => ?_⟩
    · simp only [List.replicate_succ, applyAll, h1, h2]
    · rw [h3]; congr 2; omega
    · rw [h8 d hd]; exact get_set_ne _ hd _

/-- **`-vv…v`.** A cluster of `k+2` letters of a count option (not itself an option string) counts `k+2`. -/
theorem runParser_count_cluster {q : Parser} (hf : finishable q.opts = true) {o : OptSpec} {c : Char}
    (hc1 : c ≠ '-') (hc2 : c ≠ '=') (hk : o.kind = .count) (hm : o.mutex = false)
    (ho : findOpt q.opts ['-', c] = some o) (k : Nat)
    (hn : ('-' :: List.replicate (k + 2) c) ∉ optStrings q.opts)
    (hd : (defaults q.opts []).get (destOf o) = some (.nat 0))
    (hpc : ∀ o' ∈ posSpecs q.opts, destOf o' ≠ destOf o) :
    ∃ ns, runParser q ['-' :: List.replicate (k + 2) c] = .ok ns ∧ ns.get (destOf o) = some (.nat (k + 2)) ∧
      ∀ d, Has (defaults q.opts []) d → Has ns d := by
  have htok : ('-' :: List.replicate (k + 2) c) = '-' :: c :: List.replicate (k + 1) c := by
    simp [List.replicate_succ]
  have hne : '=' ∉ ('-' :: List.replicate (k + 2) c) := by
    simp [Ne.symm hc2, List.mem_replicate]
  obtain ⟨h2, h3⟩ := takeWhile_ne_self hne
  have hcl : classify q.opts ('-' :: List.replicate (k + 2) c) = .opt o true (some (List.replicate (k + 1) c)) := by
    have h1 := findOpt_none_iff.mpr hn
    rw [htok] at h1 h2 h3 ⊢
    unfold classify
    simp only [h1, h2, h3]
    simp [hc1, ho]
  have hdd : ('-' :: List.replicate (k + 2) c) ≠ dd := by
    rw [htok]; simp [dd, hc1]
  obtain ⟨ps1, ha1, hg1, hr1, he1, _, hh1, _⟩ :=
    applyAll_count hk hm (k + 1) (PS.init q.opts) 0 (by simpa [PS.init] using hd)
  have hg1' : ps1.ns.get (destOf o) = some (.nat (k + 1)) := by simpa using hg1
  have hlast : applyNoArg o ps1 = .ok (setv o (.nat (k + 1 + 1)) ps1) := by
    simp [applyNoArg, hk, mutexOk, hm, hg1']
  have hi : (PS.init q.opts).afterDD = false := rfl
  obtain ⟨ps', hfin, hex, hhas, hget⟩ := finish_idle hf (ps := setv o (.nat (k + 1 + 1)) ps1)
    (by simp only [setv]; rw [hr1]; rfl)
  refine ⟨ps'.ns, ?_, ?_, ?_⟩
  · rw [runParser_eq (posOk_of_finishable hf), ambiguousIn_opt hcl [] rfl]
    simp only [Bool.false_eq_true, if_false]
    rw [runP]
    simp only [hi, Bool.false_eq_true, if_false, hdd, hcl, closeRun_init, if_true, expand_count hk ho k, ha1, hk,
      hlast, runP, hfin, valueMissing]
    have : ps'.extras = false := by rw [hex]; simp only [setv]; rw [he1]; rfl
    simp [this]
  · rw [hget _ hpc]
    simp only [setv]
    rw [get_set_self]
  · intro d hd'
    apply hhas
    simp only [setv]
    exact has_set (hh1 d (by simpa [PS.init] using hd')) _ _

/-! ### `store_false` and `store_const` alone -/

theorem runP_single_noarg2 {tbl : List OptSpec} {s : Name} {o : OptSpec} {b : Bool} (hs : s ≠ dd)
    (hc : classify tbl s = .opt o b none) (hk : o.kind = .flagOff ∨ ∃ v, o.kind = .const v) :
    runP tbl [s] (PS.init tbl) =
      match applyNoArg o (PS.init tbl) with
      | .error e => .error e
      | .ok ps => finish tbl ps := by
  have hi : (PS.init tbl).afterDD = false := rfl
  rw [runP]
  simp only [hi, Bool.false_eq_true, if_false, hs, hc, closeRun_init, applyAll]
  rcases hk with hk | ⟨v, hk⟩ <;> simp only [hk] <;> cases applyNoArg o (PS.init tbl) <;> simp [runP, valueMissing, hk]

/-- a `store_false` option alone -/
theorem runParser_flagOff {q : Parser} (hf : finishable q.opts = true) {s : Name} {o : OptSpec} {b : Bool}
    (hs : s ≠ dd) (hc : classify q.opts s = .opt o b none) (hk : o.kind = .flagOff) :
    SingleOk q [s] o (.bool false) := by
  obtain ⟨ps1, h1, h2, h3, h4, _⟩ := mutexOk_init o (PS.init q.opts) rfl
  apply single_finish hf h2 h3 h4 (ambiguousIn_opt hc [] rfl)
  rw [runP_single_noarg2 hs hc (Or.inl hk)]
  simp [applyNoArg, hk, h1]

/-- a `store_const` option alone -/
theorem runParser_const {q : Parser} (hf : finishable q.opts = true) {s : Name} {o : OptSpec} {b : Bool} {v : Name}
    (hs : s ≠ dd) (hc : classify q.opts s = .opt o b none) (hk : o.kind = .const v) :
    SingleOk q [s] o (.str v) := by
  obtain ⟨ps1, h1, h2, h3, h4, _⟩ := mutexOk_init o (PS.init q.opts) rfl
  apply single_finish hf h2 h3 h4 (ambiguousIn_opt hc [] rfl)
  rw [runP_single_noarg2 hs hc (Or.inr ⟨v, hk⟩)]
  simp [applyNoArg, hk, h1]

end CliGraph
