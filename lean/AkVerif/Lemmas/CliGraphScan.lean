import AkVerif.Lemmas.CliGraphArgs
/-! Helper lemmas for C19, third part: namespaces, the token classifier, one parser scanning short
argument lists, the top-level dispatch, the default-command insertion, repeated calls. -/
namespace CliGraph
open Ak

/-! ### namespaces -/

theorem find?_congr' {α} {p q : α → Bool} {l : List α} (h : ∀ x ∈ l, p x = q x) : l.find? p = l.find? q := by
  induction l with
  | nil => rfl
  | cons a as ih =>
    simp only [List.find?_cons, h a List.mem_cons_self]
    rw [ih (fun x hx => h x (List.mem_cons_of_mem _ hx))]

/-- the namespace has the attribute `k` -/
def Has (ns : Ns) (k : Name) : Prop := ∃ v, (k, v) ∈ ns

theorem get_of_has {ns : Ns} {k : Name} (h : Has ns k) : ∃ v, ns.get k = some v := by
  obtain ⟨v, hv⟩ := h
  unfold Ns.get
  cases hf : ns.find? (fun p => p.1 == k) with
  | some p => exact ⟨p.2, rfl⟩
  | none =>
    have := List.find?_eq_none.mp hf (k, v) hv
    simp at this

theorem has_of_get {ns : Ns} {k : Name} {v : Val} (h : ns.get k = some v) : Has ns k := by
  unfold Ns.get at h
  cases hf : ns.find? (fun p => p.1 == k) with
  | none => simp [hf] at h
  | some p =>
    have h1 := List.mem_of_find?_eq_some hf
    have h2 : p.1 = k := by simpa using List.find?_some hf
    exact ⟨p.2, h2 ▸ h1⟩

theorem get_none_iff {ns : Ns} {k : Name} : ns.get k = none ↔ ¬ Has ns k := by
  constructor
  · intro h hh
    obtain ⟨v, hv⟩ := get_of_has hh
    rw [h] at hv; cases hv
  · intro h
    cases hg : ns.get k with
    | none => rfl
    | some v => exact absurd (has_of_get hg) h

theorem has_set_self (ns : Ns) (k : Name) (v : Val) : Has (ns.set k v) k := by
  unfold Ns.set
  split
  · rename_i h
    obtain ⟨p, hp, hk⟩ := List.any_eq_true.mp h
    exact ⟨v, List.mem_map.mpr ⟨p, hp, by simp [hk]⟩⟩
  · exact ⟨v, by simp⟩

theorem has_set {ns : Ns} {k : Name} (h : Has ns k) (k' : Name) (v : Val) : Has (ns.set k' v) k := by
  by_cases hk : k = k'
  · exact hk ▸ has_set_self ns k v
  · obtain ⟨v0, hv0⟩ := h
    unfold Ns.set
    split
    · refine ⟨v0, List.mem_map.mpr ⟨(k, v0), hv0, ?_⟩⟩
      simp [hk]
    · exact ⟨v0, List.mem_append_left _ hv0⟩

theorem find_set_map (ns : Ns) (k k' : Name) (v : Val) :
    (ns.map (fun p => if p.1 == k then (k, v) else p)).find? (fun p => p.1 == k') =
      (ns.find? (fun p => p.1 == k')).map (fun p => if p.1 == k then (k, v) else p) := by
  rw [List.find?_map]
  congr 1
  apply find?_congr'
  intro x _
  simp only [Function.comp]
  by_cases h : x.1 = k
  · simp [h]
  · simp [h]

theorem get_set_self (ns : Ns) (k : Name) (v : Val) : (ns.set k v).get k = some v := by
  unfold Ns.set Ns.get
  split
  · rename_i h
    rw [find_set_map]
    cases hf : ns.find? (fun p => p.1 == k) with
    | none =>
      obtain ⟨x, hx, hxk⟩ := List.any_eq_true.mp h
      exact absurd hxk (List.find?_eq_none.mp hf x hx)
    | some p =>
      have : p.1 = k := by simpa using List.find?_some hf
      simp [this]
  · rename_i h
    rw [List.find?_append]
    have : ns.find? (fun p => p.1 == k) = none := by
      apply List.find?_eq_none.mpr
      intro x hx hxk
      exact h (List.any_eq_true.mpr ⟨x, hx, hxk⟩)
    rw [this]; simp

theorem get_set_ne (ns : Ns) {k k' : Name} (hk : k' ≠ k) (v : Val) : (ns.set k v).get k' = ns.get k' := by
  unfold Ns.set Ns.get
  split
  · rw [find_set_map]
    cases hf : ns.find? (fun p => p.1 == k') with
    | none => rfl
    | some p =>
      have : p.1 = k' := by simpa using List.find?_some hf
      have hne : ¬ p.1 = k := this ▸ hk
      simp [hne]
  · rw [List.find?_append]
    have : ([(k, v)] : Ns).find? (fun p => p.1 == k') = none := by
      simp [Ne.symm hk]
    rw [this, Option.or_none]

theorem get_erase_self (ns : Ns) (k : Name) : (ns.erase k).get k = none := by
  apply get_none_iff.mpr
  rintro ⟨v, hv⟩
  have := (List.mem_filter.mp hv).2
  simp at this

theorem get_erase_ne (ns : Ns) {k k' : Name} (hk : k' ≠ k) : (ns.erase k).get k' = ns.get k' := by
  unfold Ns.erase Ns.get
  rw [List.find?_filter]
  congr 1
  apply find?_congr'
  intro x _
  by_cases h : x.1 = k'
  · have : x.1 ≠ k := h ▸ hk
    simp [h, hk]
  · simp [h]

theorem get_append_of_some {ns : Ns} {k : Name} {v : Val} (h : ns.get k = some v) (ns' : Ns) :
    (ns ++ ns').get k = some v := by
  unfold Ns.get at h ⊢
  rw [List.find?_append]
  cases hf : ns.find? (fun p => p.1 == k) with
  | none => simp [hf] at h
  | some p => simpa [hf] using h

theorem get_append_of_none {ns : Ns} {k : Name} (h : ns.get k = none) (ns' : Ns) :
    (ns ++ ns').get k = ns'.get k := by
  unfold Ns.get at h ⊢
  rw [List.find?_append]
  cases hf : ns.find? (fun p => p.1 == k) with
  | none => simp
  | some p => simp [hf] at h

theorem has_defaults {ns : Ns} {k : Name} (h : Has ns k) (os : List OptSpec) : Has (defaults os ns) k := by
  induction os generalizing ns with
  | nil => exact h
  | cons o os ih =>
    unfold defaults
    split
    · exact ih h
    · apply ih
      split
      · exact h
      · obtain ⟨v, hv⟩ := h
        exact ⟨v, List.mem_append_left _ hv⟩

theorem defaults_append (a b : List OptSpec) (ns : Ns) : defaults (a ++ b) ns = defaults b (defaults a ns) := by
  induction a generalizing ns with
  | nil => rfl
  | cons o os ih =>
    simp only [List.cons_append, defaults]
    split <;> exact ih _

theorem defaults_get {ns : Ns} {k : Name} {v : Val} (h : ns.get k = some v) (os : List OptSpec) :
    (defaults os ns).get k = some v := by
  induction os generalizing ns with
  | nil => exact h
  | cons o os ih =>
    unfold defaults
    split
    · exact ih h
    · apply ih
      split
      · exact h
      · exact get_append_of_some h _

/-- the sub-parser's attributes win, the top-level ones fill the gaps -/
theorem get_mergeNs (base sub : Ns) (k : Name) :
    (mergeNs base sub).get k = match sub.get k with
      | some v => some v
      | none => base.get k := by
  unfold mergeNs
  cases hs : sub.get k with
  | some v => exact get_append_of_some hs _
  | none =>
    rw [get_append_of_none hs]
    simp only []
    unfold Ns.get
    rw [List.find?_filter]
    congr 1
    apply find?_congr'
    intro x _
    by_cases h : x.1 = k
    · have hs' := hs
      unfold Ns.get at hs'
      rw [h, hs']; simp
    · simp [h]

theorem has_mergeNs {sub : Ns} {k : Name} (h : Has sub k) (base : Ns) : Has (mergeNs base sub) k := by
  obtain ⟨v, hv⟩ := get_of_has h
  apply has_of_get (v := v)
  rw [get_mergeNs, hv]

theorem post_ok {ns : Ns} (h : Has ns noColor) : ∃ ns', post ns = .ok ns' := by
  obtain ⟨v, hv⟩ := get_of_has h
  simp only [post, hv]
  exact ⟨_, rfl⟩

/-- what `parse_args` does after argparse: `no_color` disappears, a true `no_color` forces `color=False`,
every other attribute is untouched -/
theorem post_spec {ns ns' : Ns} (h : post ns = .ok ns') :
    ns'.get noColor = none ∧
    (∃ v, ns.get noColor = some v ∧
      (truthy v = true → ns'.get color = some (.bool false)) ∧
      (truthy v = false → ns'.get color = ns.get color)) ∧
    ∀ k, k ≠ color → k ≠ noColor → ns'.get k = ns.get k := by
  unfold post at h
  cases hv : ns.get noColor with
  | none => simp [hv] at h
  | some v =>
    simp only [hv] at h
    cases h
    have hcn : color ≠ noColor := by decide
    refine ⟨get_erase_self _ _, ⟨v, rfl, ?_, ?_⟩, ?_⟩
    · intro ht
      rw [get_erase_ne _ hcn, if_pos ht, get_set_self]
    · intro ht
      rw [get_erase_ne _ hcn]
      simp [ht]
    · intro k h1 h2
      rw [get_erase_ne _ h2]
      split
      · exact get_set_ne _ h1 _
      · rfl

/-! ### the token classifier -/

theorem classify_exact {tbl : List OptSpec} {s : Name} {o : OptSpec} (hs : s.head? = some '-')
    (h : findOpt tbl s = some o) : classify tbl s = .opt o (isSingle s) none := by
  cases s with
  | nil => simp at hs
  | cons c r =>
    simp only [List.head?_cons, Option.some.injEq] at hs
    subst hs
    simp [classify, h]

/-- a long token `--name` without `=` that is not itself an option string: argparse's abbreviation rule -/
theorem classify_long {tbl : List OptSpec} {c : Char} {r : Name}
    (heq : '=' ∉ ('-' :: '-' :: c :: r)) (hn : ('-' :: '-' :: c :: r) ∉ optStrings tbl) :
    classify tbl ('-' :: '-' :: c :: r) =
      match extensions tbl ('-' :: '-' :: c :: r) with
      | [] => .unknown
      | [x] =>
        match findOpt tbl x with
        | some o => .opt o false none
        | none => .unknown
      | _ => .ambiguous := by
  have h1 := findOpt_none_iff.mpr hn
  obtain ⟨h2, h3⟩ := takeWhile_ne_self heq
  unfold classify
  simp only [h1, h2, h3]
  first | rfl | simp

theorem extensions_mem {tbl : List OptSpec} {t x : Name} (h : x ∈ extensions tbl t) :
    x ∈ optStrings tbl ∧ t <+: x := by
  unfold extensions at h
  obtain ⟨h1, h2⟩ := List.mem_filter.mp h
  exact ⟨h1, List.isPrefixOf_iff_prefix.mp h2⟩

theorem extensions_nil_iff {tbl : List OptSpec} {t : Name} :
    extensions tbl t = [] ↔ ∀ x ∈ optStrings tbl, ¬ t <+: x := by
  unfold extensions
  rw [List.filter_eq_nil_iff]
  constructor
  · intro h x hx hp; exact h x hx (List.isPrefixOf_iff_prefix.mpr hp)
  · intro h x hx hp; exact h x hx (List.isPrefixOf_iff_prefix.mp hp)

theorem isSingle_of_long_prefix {c : Char} {r x : Name} (h : ('-' :: '-' :: c :: r) <+: x) :
    isSingle x = false ∧ x.head? = some '-' := by
  obtain ⟨t, rfl⟩ := h
  simp [isSingle]

/-- a unique extension: the abbreviation is read exactly like the option string it abbreviates -/
theorem classify_abbrev {tbl : List OptSpec} {c : Char} {r x : Name}
    (heq : '=' ∉ ('-' :: '-' :: c :: r)) (hn : ('-' :: '-' :: c :: r) ∉ optStrings tbl)
    (hx : extensions tbl ('-' :: '-' :: c :: r) = [x]) :
    classify tbl ('-' :: '-' :: c :: r) = classify tbl x := by
  have hm : x ∈ extensions tbl ('-' :: '-' :: c :: r) := by rw [hx]; exact List.mem_singleton.mpr rfl
  obtain ⟨h1, h2⟩ := extensions_mem hm
  obtain ⟨o, ho⟩ := findOpt_isSome_iff.mpr h1
  obtain ⟨h3, h4⟩ := isSingle_of_long_prefix h2
  rw [classify_long heq hn, hx, classify_exact h4 ho, h3]
  simp [ho]

theorem classify_unknown_long {tbl : List OptSpec} {c : Char} {r : Name}
    (heq : '=' ∉ ('-' :: '-' :: c :: r)) (hn : ('-' :: '-' :: c :: r) ∉ optStrings tbl)
    (hp : ∀ x ∈ optStrings tbl, ¬ ('-' :: '-' :: c :: r) <+: x) :
    classify tbl ('-' :: '-' :: c :: r) = .unknown := by
  rw [classify_long heq hn, extensions_nil_iff.mpr hp]

theorem classify_ambiguous {tbl : List OptSpec} {c : Char} {r x y : Name} {l : List Name}
    (heq : '=' ∉ ('-' :: '-' :: c :: r)) (hn : ('-' :: '-' :: c :: r) ∉ optStrings tbl)
    (hx : extensions tbl ('-' :: '-' :: c :: r) = x :: y :: l) :
    classify tbl ('-' :: '-' :: c :: r) = .ambiguous := by
  rw [classify_long heq hn, hx]

/-- a short token `-x` that is no option string -/
theorem classify_unknown_short {tbl : List OptSpec} {c : Char} (hc1 : c ≠ '-') (hc2 : c ≠ '=')
    (hc3 : c.isDigit = false) (hn : ['-', c] ∉ optStrings tbl) :
    classify tbl ['-', c] = .unknown := by
  have h1 := findOpt_none_iff.mpr hn
  have heq : '=' ∉ ['-', c] := by simp [Ne.symm hc2]
  obtain ⟨h2, h3⟩ := takeWhile_ne_self heq
  unfold classify
  simp only [h1, h2, h3]
  simp [hc1, isNegNum, hc3]

/-! ### one parser, short argument lists -/

/-- no positional that must be given, and a modelled combination of positionals -/
def finishable (tbl : List OptSpec) : Bool :=
  posOk tbl && (posSpecs tbl).all (fun o => posN o == .star || posN o == .opt) &&
    tbl.all (fun o => !(o.isOpt && o.required))

theorem missingReq_false {tbl : List OptSpec} (h : finishable tbl = true) (u : List Name) :
    missingReq tbl u = false := by
  unfold finishable at h
  simp only [Bool.and_eq_true, List.all_eq_true] at h
  unfold missingReq
  apply Bool.eq_false_iff.mpr
  intro hc
  obtain ⟨o, ho, hoo⟩ := List.any_eq_true.mp hc
  have := h.2 o ho
  simp only [Bool.and_eq_true] at hoo
  simp [hoo.1.1, hoo.1.2] at this

theorem has_assignRest {ns : Ns} {k : Name} (h : Has ns k) (os : List OptSpec) : Has (assignRest os ns) k := by
  induction os generalizing ns with
  | nil => exact h
  | cons o os ih => exact ih (has_set h _ _)

theorem get_assignRest {ns : Ns} {k : Name} (os : List OptSpec) (h : ∀ o ∈ os, destOf o ≠ k) :
    (assignRest os ns).get k = ns.get k := by
  induction os generalizing ns with
  | nil => rfl
  | cons o os ih =>
    unfold assignRest
    rw [ih (fun o' ho' => h o' (List.mem_cons_of_mem _ ho'))]
    exact get_set_ne _ (Ne.symm (h o List.mem_cons_self)) _

/-- the end of the arguments when no words were seen -/
theorem finish_idle {tbl : List OptSpec} (hf : finishable tbl = true) {ps : PS} (hr : ps.run = .idle) :
    ∃ ps', finish tbl ps = .ok ps' ∧ ps'.extras = ps.extras ∧ (∀ k, Has ps.ns k → Has ps'.ns k) ∧
      ∀ k, (∀ o ∈ posSpecs tbl, destOf o ≠ k) → ps'.ns.get k = ps.ns.get k := by
  have hmr := missingReq_false hf ps.used
  unfold finishable at hf
  simp only [Bool.and_eq_true, List.all_eq_true, Bool.or_eq_true, beq_iff_eq] at hf
  obtain ⟨⟨_, hall⟩, _⟩ := hf
  unfold finish
  rw [hmr]
  simp only [Bool.false_eq_true, if_false]
  unfold finishPos
  rw [hr]
  simp only []
  cases hp : posSpecs tbl with
  | nil => exact ⟨_, rfl, rfl, fun k h => h, fun k _ => rfl⟩
  | cons o os =>
    simp only []
    have ho := hall o (hp ▸ List.mem_cons_self)
    rcases ho with ho | ho
    · rw [ho]
      refine ⟨_, rfl, rfl, fun k h => has_assignRest (has_set h _ _) _, fun k hk => ?_⟩
      simp only []
      rw [get_assignRest os (fun o' ho' => hk o' (List.mem_cons_of_mem _ ho'))]
      exact get_set_ne _ (Ne.symm (hk o List.mem_cons_self)) _
    · rw [ho]
      refine ⟨_, rfl, rfl, fun k h => has_assignRest (has_set h _ _) _, fun k hk => ?_⟩
      simp only []
      rw [get_assignRest os (fun o' ho' => hk o' (List.mem_cons_of_mem _ ho'))]
      exact get_set_ne _ (Ne.symm (hk o List.mem_cons_self)) _

theorem finish_extras_true {tbl : List OptSpec} {ps ps' : PS} (he : ps.extras = true)
    (h : finish tbl ps = .ok ps') : ps'.extras = true := by
  unfold finish at h
  split at h
  · cases h
  unfold finishPos at h
  split at h
  · cases h
    unfold closeRun
    split <;> simp [he]
  · cases h; exact he
  · split at h
    · cases h; exact he
    · split at h
      · cases h
      · cases h
      · cases h; exact he

theorem posOk_of_finishable {tbl : List OptSpec} (h : finishable tbl = true) : posOk tbl = true := by
  unfold finishable at h
  simp only [Bool.and_eq_true] at h
  exact h.1.1

theorem runParser_eq {q : Parser} (hp : posOk q.opts = true) (args : List Name) :
    runParser q args =
      if ambiguousIn q.opts args then .error (.exit 2)
      else match runP q.opts args (PS.init q.opts) with
        | .error e => .error e
        | .ok ps => if ps.extras then .error (.exit 2) else .ok ps.ns := by
  unfold runParser
  simp only [hp, Bool.not_true, Bool.false_eq_true, if_false]
  first | rfl | simp

theorem mutexOk_init (o : OptSpec) (ps : PS) (hs : ps.seen = []) :
    ∃ ps', mutexOk o ps = some ps' ∧ ps'.ns = ps.ns ∧ ps'.run = ps.run ∧ ps'.extras = ps.extras ∧
      ps'.afterDD = ps.afterDD := by
  unfold mutexOk
  split
  · simp [hs]
  · exact ⟨ps, rfl, rfl, rfl, rfl, rfl⟩

theorem ambiguousIn_single {tbl : List OptSpec} {s : Name} {o : OptSpec} {b : Bool} {e : Option Name}
    (hc : classify tbl s = .opt o b e) (rest : List Name) : ambiguousIn tbl (s :: rest) = ambiguousIn tbl rest ∨
      s = dd := by
  by_cases hd : s = dd
  · exact Or.inr hd
  · left
    simp [ambiguousIn, hd, hc]

/-- the first step of the scan depends on an option token only through `classify` -/
theorem runParser_head_congr {q : Parser} {t x : Name} {o : OptSpec} {b : Bool} {e : Option Name}
    (ht : t ≠ dd) (hx : x ≠ dd)
    (hct : classify q.opts t = .opt o b e) (hcx : classify q.opts x = .opt o b e) (rest : List Name) :
    runParser q (t :: rest) = runParser q (x :: rest) := by
  have ha : ambiguousIn q.opts (t :: rest) = ambiguousIn q.opts (x :: rest) := by
    simp only [ambiguousIn, ht, hx, if_false, hct, hcx]
  have hr : runP q.opts (t :: rest) (PS.init q.opts) = runP q.opts (x :: rest) (PS.init q.opts) := by
    have hi : (PS.init q.opts).afterDD = false := rfl
    rw [runP, runP]
    simp only [hi, Bool.false_eq_true, if_false, ht, hx, hct, hcx]
  unfold runParser
  rw [ha, hr]

theorem ambiguousIn_mem {tbl : List OptSpec} {t : Name} (ht : t ≠ dd) (hc : classify tbl t = .ambiguous)
    (pre rest : List Name) (hpre : dd ∉ pre) : ambiguousIn tbl (pre ++ t :: rest) = true := by
  induction pre with
  | nil => simp [ambiguousIn, ht, hc]
  | cons a as ih =>
    have ha : a ≠ dd := fun e => hpre (e ▸ List.mem_cons_self)
    have := ih (fun e => hpre (List.mem_cons_of_mem _ e))
    simp only [List.cons_append, ambiguousIn, ha, if_false, this]
    split <;> rfl

/-- an ambiguous abbreviation anywhere before `--` ends the parse with an error, whatever else is there -/
theorem runParser_ambiguous {q : Parser} (hp : posOk q.opts = true) {t : Name} (ht : t ≠ dd)
    (hc : classify q.opts t = .ambiguous) (pre rest : List Name) (hpre : dd ∉ pre) :
    runParser q (pre ++ t :: rest) = .error (.exit 2) := by
  rw [runParser_eq hp, ambiguousIn_mem ht hc pre rest hpre]
  rfl

theorem finish_err {tbl : List OptSpec} {ps : PS} {e : Fail} (h : finish tbl ps = .error e) : e = .exit 2 := by
  unfold finish at h
  split at h
  · cases h; rfl
  unfold finishPos at h
  split at h
  · cases h
  · cases h
  · split at h
    · cases h
    · split at h
      · cases h; rfl
      · cases h; rfl
      · cases h

theorem closeRun_init (tbl : List OptSpec) : closeRun tbl (PS.init tbl) = PS.init tbl := rfl

theorem ambiguousIn_one {tbl : List OptSpec} {s : Name} (h : classify tbl s ≠ .ambiguous ∨ s = dd)
    (rest : List Name) (hr : ambiguousIn tbl rest = false) : ambiguousIn tbl (s :: rest) = false := by
  unfold ambiguousIn
  by_cases hd : s = dd
  · simp [hd]
  · simp only [hd, if_false]
    rcases h with h | h
    · split
      · rename_i hc; exact absurd hc h
      · exact hr
    · exact absurd h hd

/-- an unknown option alone -/
theorem runParser_unknown {q : Parser} (hp : posOk q.opts = true) {s : Name} (hs : s ≠ dd)
    (hc : classify q.opts s = .unknown) : runParser q [s] = .error (.exit 2) := by
  have ha : ambiguousIn q.opts [s] = false :=
    ambiguousIn_one (Or.inl (by rw [hc]; intro h; cases h)) [] rfl
  rw [runParser_eq hp, ha]
  have hi : (PS.init q.opts).afterDD = false := rfl
  simp only [Bool.false_eq_true, if_false]
  rw [runP]
  simp only [hi, Bool.false_eq_true, if_false, hs, hc, runP]
  cases hf : finish q.opts { closeRun q.opts (PS.init q.opts) with extras := true } with
  | error e => rw [finish_err hf]
  | ok ps' =>
    have : ps'.extras = true := finish_extras_true rfl hf
    simp [this]

/-- the scan of `[s]` when `s` is read as an option without attached text and without argument -/
theorem runP_single_noarg {tbl : List OptSpec} {s : Name} {o : OptSpec} {b : Bool} (hs : s ≠ dd)
    (hc : classify tbl s = .opt o b none) (hk : o.kind = .flag ∨ o.kind = .count ∨ o.kind = .help) :
    runP tbl [s] (PS.init tbl) =
      match applyNoArg o (PS.init tbl) with
      | .error e => .error e
      | .ok ps => finish tbl ps := by
  have hi : (PS.init tbl).afterDD = false := rfl
  rw [runP]
  simp only [hi, Bool.false_eq_true, if_false, hs, hc, closeRun_init, applyAll]
  rcases hk with hk | hk | hk <;> simp only [hk] <;> cases applyNoArg o (PS.init tbl) <;> simp [runP, valueMissing, hk]

structure SingleOk (q : Parser) (args : List Name) (o : OptSpec) (v : Val) : Prop where
  ok : ∃ ns, runParser q args = .ok ns ∧
    (∀ k, Has (defaults q.opts []) k → Has ns k) ∧
    ((∀ o' ∈ posSpecs q.opts, destOf o' ≠ destOf o) → ns.get (destOf o) = some v) ∧
    (∀ k, k ≠ destOf o → (∀ o' ∈ posSpecs q.opts, destOf o' ≠ k) → ns.get k = (defaults q.opts []).get k)

/-- common end of the one-option lemmas: the option set `dest := v` on the initial state, then the
arguments ended -/
theorem single_finish {q : Parser} (hf : finishable q.opts = true) {args : List Name} {o : OptSpec} {v : Val}
    {ps1 : PS} (h1 : ps1.ns = (PS.init q.opts).ns) (h2 : ps1.run = .idle) (h3 : ps1.extras = false)
    (ha : ambiguousIn q.opts args = false)
    (hr : runP q.opts args (PS.init q.opts) = finish q.opts (setv o v ps1)) : SingleOk q args o v := by
  obtain ⟨ps', hfin, hex, hhas, hget⟩ := finish_idle hf (ps := setv o v ps1) (by simpa [setv] using h2)
  refine ⟨ps'.ns, ?_, ?_, ?_, ?_⟩
  · rw [runParser_eq (posOk_of_finishable hf), ha, hr, hfin]
    have : ps'.extras = false := by rw [hex]; simpa [setv] using h3
    simp [this]
  · intro k hk
    apply hhas
    simp only [setv, h1]
    exact has_set hk _ _
  · intro hk
    rw [hget _ hk]
    simp only [setv]
    exact get_set_self _ _ _
  · intro k hne hk
    rw [hget _ hk]
    simp only [setv, h1]
    exact get_set_ne _ hne _

theorem ambiguousIn_opt {tbl : List OptSpec} {s : Name} {o : OptSpec} {b : Bool} {e : Option Name}
    (hc : classify tbl s = .opt o b e) (rest : List Name) (hr : ambiguousIn tbl rest = false) :
    ambiguousIn tbl (s :: rest) = false :=
  ambiguousIn_one (Or.inl (by rw [hc]; intro h; cases h)) rest hr

/-- a flag alone -/
theorem runParser_flag {q : Parser} (hf : finishable q.opts = true) {s : Name} {o : OptSpec} {b : Bool}
    (hs : s ≠ dd) (hc : classify q.opts s = .opt o b none) (hk : o.kind = .flag) :
    SingleOk q [s] o (.bool true) := by
  obtain ⟨ps1, h1, h2, h3, h4, _⟩ := mutexOk_init o (PS.init q.opts) rfl
  apply single_finish hf h2 h3 h4 (ambiguousIn_opt hc [] rfl)
  rw [runP_single_noarg hs hc (Or.inl hk)]
  simp [applyNoArg, hk, h1]

/-- the count option alone, when the default of its dest is a number -/
theorem runParser_count {q : Parser} (hf : finishable q.opts = true) {s : Name} {o : OptSpec} {b : Bool} {n : Nat}
    (hs : s ≠ dd) (hc : classify q.opts s = .opt o b none) (hk : o.kind = .count)
    (hd : (defaults q.opts []).get (destOf o) = some (.nat n)) :
    SingleOk q [s] o (.nat (n + 1)) := by
  obtain ⟨ps1, h1, h2, h3, h4, _⟩ := mutexOk_init o (PS.init q.opts) rfl
  apply single_finish hf h2 h3 h4 (ambiguousIn_opt hc [] rfl)
  rw [runP_single_noarg hs hc (Or.inr (Or.inl hk))]
  have hd' : ps1.ns.get (destOf o) = some (.nat n) := by rw [h2]; exact hd
  simp [applyNoArg, hk, h1, hd']

/-- help alone: `SystemExit(0)` -/
theorem runParser_help {q : Parser} (hp : posOk q.opts = true) {s : Name} {o : OptSpec} {b : Bool}
    (hs : s ≠ dd) (hc : classify q.opts s = .opt o b none) (hk : o.kind = .help) :
    runParser q [s] = .error (.exit 0) := by
  rw [runParser_eq hp, ambiguousIn_opt hc [] rfl, runP_single_noarg hs hc (Or.inr (Or.inr hk))]
  simp [applyNoArg, hk]

/-- what an `action='help'` / `action='version'` option ends the parse with -/
def infoExit : Kind → Option Fail
  | .help => some (.exit 0)
  | .version v => some (.version v)
  | _ => none

/-- a help / version option as the first argument of a parser ends the parse with status 0, whatever follows
(unknown options, stray words, missing required options and positionals are reported only at the end of the
scan) — unless an ambiguous abbreviation follows before `--` (that test precedes all actions) -/
theorem runParser_info_head {q : Parser} (hp : posOk q.opts = true) {s : Name} {o : OptSpec} {b : Bool} {e : Fail}
    (hs : s ≠ dd) (hc : classify q.opts s = .opt o b none) (hk : infoExit o.kind = some e)
    (rest : List Name) (ha : ambiguousIn q.opts rest = false) :
    runParser q (s :: rest) = .error e := by
  have hi : (PS.init q.opts).afterDD = false := rfl
  rw [runParser_eq hp, ambiguousIn_opt hc rest ha, runP]
  simp only [hi, Bool.false_eq_true, if_false, hs, hc, closeRun_init, applyAll]
  cases hk' : o.kind <;> simp only [hk', infoExit, Option.some.injEq, reduceCtorEq] at hk
  · subst hk; simp [applyNoArg, hk', valueMissing]
  · subst hk; simp [applyNoArg, hk', valueMissing]

/-- `--color` alone: the optional value is absent, the attribute becomes `None` -/
theorem runParser_optChoice {q : Parser} (hf : finishable q.opts = true) {s : Name} {o : OptSpec} {b : Bool}
    {ch : List Name} {d : Name} (hs : s ≠ dd) (hc : classify q.opts s = .opt o b none)
    (hk : o.kind = .optChoice ch d) : SingleOk q [s] o .none := by
  obtain ⟨ps1, h1, h2, h3, h4, _⟩ := mutexOk_init o (PS.init q.opts) rfl
  apply single_finish hf h2 h3 h4 (ambiguousIn_opt hc [] rfl)
  have hi : (PS.init q.opts).afterDD = false := rfl
  rw [runP]
  simp only [hi, Bool.false_eq_true, if_false, hs, hc, closeRun_init, applyAll, hk, applyConst, h1, runP, valueMissing]

/-- a value option followed by a word that its `type=` / `choices=` accept: the converted value is stored -/
theorem runParser_value {q : Parser} (hf : finishable q.opts = true) {s w : Name} {o : OptSpec} {b : Bool} {v : Val}
    (hs : s ≠ dd) (hc : classify q.opts s = .opt o b none) (hk : o.kind = .value)
    (hw : w ≠ dd) (hcw : classify q.opts w = .word) (hcv : convArg o.conv w = some v) : SingleOk q [s, w] o v := by
  obtain ⟨ps1, h1, h2, h3, h4, _⟩ := mutexOk_init o (PS.init q.opts) rfl
  have haw : ambiguousIn q.opts [w] = false :=
    ambiguousIn_one (Or.inl (by rw [hcw]; intro h; cases h)) [] rfl
  apply single_finish hf h2 h3 h4 (ambiguousIn_opt hc [w] haw)
  have hi : (PS.init q.opts).afterDD = false := rfl
  have hiw : isArgWord q.opts (PS.init q.opts) w = true := by simp [isArgWord, hi, hw, hcw]
  rw [runP]
  simp only [hi, Bool.false_eq_true, if_false, hs, hc, closeRun_init, applyAll, hk, hiw, if_true, applyArg, h1, runP,
    valueMissing, Bool.not_true, hcv]

/-- … and one that they refuse ends the parse with status 2 -/
theorem runParser_value_refused {q : Parser} (hp : posOk q.opts = true) {s w : Name} {o : OptSpec} {b : Bool}
    (hs : s ≠ dd) (hc : classify q.opts s = .opt o b none) (hk : o.kind = .value)
    (hw : w ≠ dd) (hcw : classify q.opts w = .word) (hcv : convArg o.conv w = none) (rest : List Name)
    (ha : ambiguousIn q.opts rest = false) :
    runParser q (s :: w :: rest) = .error (.exit 2) := by
  have haw : ambiguousIn q.opts (w :: rest) = false :=
    ambiguousIn_one (Or.inl (by rw [hcw]; intro h; cases h)) rest ha
  have hi : (PS.init q.opts).afterDD = false := rfl
  have hiw : isArgWord q.opts (PS.init q.opts) w = true := by simp [isArgWord, hi, hw, hcw]
  rw [runParser_eq hp, ambiguousIn_opt hc _ haw, runP]
  simp only [hi, Bool.false_eq_true, if_false, hs, hc, closeRun_init, applyAll, hk, hiw, if_true, applyArg,
    valueMissing, Bool.not_true, hcv]

/-! ### the top level: default command, dispatch, repeated calls -/

theorem filterMap_map_some (l : List Name) : (l.map some).filterMap id = l := by simp

/-- the top-level parser hands the arguments after a public command name to that command's parser -/
theorem dispatch_public {st : St} {q : Parser} (hn : (names st.parsers).Nodup) (hq : q ∈ st.parsers)
    (hpub : q.internal = false) (h1 : q.name ≠ ['-', 'h']) (h2 : q.name ≠ helpLong)
    (rest : List Name) :
    dispatch st (some q.name :: rest.map some) =
      match runParser q rest with
      | .error e => .error e
      | .ok sub => .ok (mergeNs [(command, .str q.name)] sub) := by
  simp only [dispatch, h1, h2, or_self, if_false, findParser_public hn hq hpub, filterMap_map_some]
  rfl

theorem dispatch_internal {st : St} {q : Parser} (hn : (names st.parsers).Nodup) (hq : q ∈ st.parsers)
    (hint : q.internal = true) (h1 : q.name ≠ ['-', 'h']) (h2 : q.name ≠ helpLong)
    (rest : List (Option Name)) : dispatch st (some q.name :: rest) = .error (.exit 2) := by
  simp only [dispatch, h1, h2, or_self, if_false, findParser_internal hn hq hint]

theorem withDefault_keep {cfg : Cfg} {st : St} {a : Name} (rest : List (Option Name))
    (h : a ∈ cfg.helpFirst ∨ a ∈ firstArgNames cfg st) :
    withDefault cfg st (some a :: rest) = some a :: rest := by
  have : (cfg.helpFirst.contains a || (firstArgNames cfg st).contains a) = true := by
    simpa using h
  unfold withDefault
  simp only [this, if_true]

theorem withDefault_insert {cfg : Cfg} {st : St} (argv : List (Option Name))
    (h : ∀ a, argv.head? = some (some a) → a ∉ cfg.helpFirst ∧ a ∉ firstArgNames cfg st) :
    withDefault cfg st argv = st.default :: argv := by
  unfold withDefault
  cases argv with
  | nil => simp
  | cons x rest =>
    cases x with
    | none => simp
    | some a =>
      obtain ⟨h1, h2⟩ := h a rfl
      have : (cfg.helpFirst.contains a || (firstArgNames cfg st).contains a) = false := by
        simp [h1, h2]
      simp only [this, Bool.false_eq_true, if_false]

theorem withDefault_cases (cfg : Cfg) (st : St) (argv : List (Option Name)) :
    (withDefault cfg st argv = argv ∧ ∃ a rest, argv = some a :: rest ∧
        (a ∈ cfg.helpFirst ∨ a ∈ firstArgNames cfg st)) ∨
    (withDefault cfg st argv = st.default :: argv ∧
      ∀ a, argv.head? = some (some a) → a ∉ cfg.helpFirst ∧ a ∉ firstArgNames cfg st) := by
  cases argv with
  | nil => exact Or.inr ⟨withDefault_insert [] (by simp), by simp⟩
  | cons x rest =>
    cases x with
    | none => exact Or.inr ⟨withDefault_insert _ (by simp), by simp⟩
    | some a =>
      by_cases h : a ∈ cfg.helpFirst ∨ a ∈ firstArgNames cfg st
      · exact Or.inl ⟨withDefault_keep rest h, a, rest, rfl, h⟩
      · have h' : ∀ b, (some a :: rest).head? = some (some b) → b ∉ cfg.helpFirst ∧ b ∉ firstArgNames cfg st := by
          intro b hb
          simp only [List.head?_cons, Option.some.injEq] at hb
          subst hb
          exact ⟨fun h1 => h (Or.inl h1), fun h2 => h (Or.inr h2)⟩
        exact Or.inr ⟨withDefault_insert _ h', h'⟩

theorem publicNames_sub_first {cfg : Cfg} {st : St} {a : Name} (h : a ∈ publicNames st.parsers) :
    a ∈ firstArgNames cfg st := by
  unfold firstArgNames
  split
  · unfold publicNames names at h
    obtain ⟨q, hq, rfl⟩ := List.mem_map.mp h
    exact List.mem_map.mpr ⟨q, (List.mem_filter.mp hq).1, rfl⟩
  · exact h

/-- a first word that is no help option and no known name: the top-level parser's answer depends on
that word only -/
theorem dispatch_unknown_head {cfg : Cfg} {st : St} {a : Name} (h : a ∉ firstArgNames cfg st)
    (r1 r2 : List (Option Name)) : dispatch st (some a :: r1) = dispatch st (some a :: r2) := by
  unfold dispatch
  simp only []
  split
  · rfl
  · have : findParser (st.parsers.filter (fun q => !q.internal)) a = none := by
      cases hf : findParser (st.parsers.filter (fun q => !q.internal)) a with
      | none => rfl
      | some r =>
        obtain ⟨hr, hn⟩ := findParser_some hf
        exfalso
        apply h
        apply publicNames_sub_first
        unfold publicNames names
        exact List.mem_map.mpr ⟨r, hr, hn⟩
    simp only [this]

theorem prepare_idem (sw : Switches) (l : List (Option Name)) : prepare sw (prepare sw l) = prepare sw l := by
  unfold prepare
  by_cases h : (l.isEmpty && sw.helpIfNoArgs) = true
  · simp [h]
  · simp [h]

theorem prepare_nonempty (sw : Switches) {l : List (Option Name)} (h : l ≠ []) : prepare sw l = l := by
  unfold prepare
  cases l with
  | nil => exact absurd rfl h
  | cons a as => simp

/-- **A parser object has no memory, and the caller's list is left in a state that parses the same
way**: calling `parse_args` again with the list object the first call modified gives the same result. -/
theorem parseList_twice (cfg : Cfg) (ap : ArgP) (l : List (Option Name)) :
    (parseList cfg ap (parseList cfg ap l).2).1 = (parseList cfg ap l).1 := by
  unfold parseList
  cases hm : ap.mode with
  | single p => simp only [prepare_idem]
  | multi st =>
    simp only []
    rcases withDefault_cases cfg st (prepare ap.sw l) with ⟨hk, a, rest, hl, hmem⟩ | ⟨hi, hcond⟩
    · -- nothing inserted: the list is unchanged
      have hne : prepare ap.sw l ≠ [] := by rw [hl]; simp
      rw [hk, prepare_nonempty _ hne, hk]
    · have hne : st.default :: prepare ap.sw l ≠ [] := by simp
      rw [hi, prepare_nonempty _ hne]
      rcases withDefault_cases cfg st (st.default :: prepare ap.sw l) with ⟨hk2, _⟩ | ⟨hi2, hcond2⟩
      · rw [hk2]
      · -- the default is inserted again: it is `None` or an unknown name, and the answer depends on it only
        rw [hi2]
        cases hd : st.default with
        | none => simp [dispatch]
        | some d =>
          have := (hcond2 d (by simp [hd])).2
          rw [dispatch_unknown_head this (some d :: prepare ap.sw l) (prepare ap.sw l)]

/-- with the private copy the caller sees the answer of `parseList` and its own sequence, unchanged -/
theorem parseCall_copy {cfg : Cfg} (hc : cfg.copiesArgs = true) (ap : ArgP) (t : Bool) (l : List (Option Name)) :
    parseCall cfg ap t l = ((parseList cfg ap l).1, l) := by
  unfold parseCall
  simp [hc]

/-- a list passed twice parses the same way both times, copy or no copy -/
theorem parseCall_twice (cfg : Cfg) (ap : ArgP) (l : List (Option Name)) :
    (parseCall cfg ap false (parseCall cfg ap false l).2).1 = (parseCall cfg ap false l).1 := by
  unfold parseCall
  cases hc : cfg.copiesArgs with
  | true => simp
  | false => simpa using parseList_twice cfg ap l

theorem parseArgs_eq (cfg : Cfg) (st : St) (argv : List Name) :
    parseArgs cfg st argv =
      match dispatch st (withDefault cfg st (argv.map some)) with
      | .error e => .error e
      | .ok ns => post ns := by
  unfold parseArgs parseList prepare afterParse
  simp only [Bool.and_false, Bool.false_eq_true, if_false]
  rfl

/-- from the sub-parser's namespace to the result of `parse_args` -/
theorem final_of_sub {sub : Ns} (a : Name) (hnc : Has sub noColor) :
    ∃ ns, post (mergeNs [(command, .str a)] sub) = .ok ns ∧ ns.get noColor = none ∧
      (∀ k v, k ≠ color → k ≠ noColor → sub.get k = some v → ns.get k = some v) ∧
      (sub.get command = none → ns.get command = some (.str a)) ∧
      (∀ v, sub.get noColor = some v → truthy v = true → ns.get color = some (.bool false)) ∧
      (∀ v c, sub.get noColor = some v → truthy v = false → sub.get color = some c → ns.get color = some c) := by
  obtain ⟨ns, hns⟩ := post_ok (has_mergeNs hnc [(command, .str a)])
  obtain ⟨h1, ⟨v0, hv0, ht, hf⟩, h3⟩ := post_spec hns
  have hv0' : sub.get noColor = some v0 := by
    rw [get_mergeNs] at hv0
    obtain ⟨v, hv⟩ := get_of_has hnc
    rw [hv] at hv0 ⊢
    exact hv0
  refine ⟨ns, hns, h1, ?_, ?_, ?_, ?_⟩
  · intro k v hk1 hk2 hs
    rw [h3 k hk1 hk2, get_mergeNs, hs]
  · intro hs
    rw [h3 command (by decide) (by decide), get_mergeNs, hs]
    rfl
  · intro v hv htv
    rw [hv0'] at hv
    cases hv
    exact ht htv
  · intro v c hv htv hc
    rw [hv0'] at hv
    cases hv
    rw [hf htv, get_mergeNs, hc]

end CliGraph
