import AkVerif.Lemmas.LLSmart3
/-!
Every helper symbol that survives `_factorize_productions` (model: `factorize`, with or without the
smart undo) is referenced: it is the last symbol of some rule of some key of the result.

* plain factorisation: a helper key `sym.suf gid` is created together with the group rule
  `pre ++ [sym.suf gid]` of `sym` (`l1r_chunks`, `l1r_list`, `l1r_all`);
* smart undo: invariant `l1r_RInv` carried through `undoLoop` next to `Inv` (`l1r_step`,
  `l1r_undoLoop_inv`): removed symbols have been processed, and every helper that is not removed is the
  last symbol of a rule of a key that is not removed.
-/
set_option linter.unusedSectionVars false
namespace LL
open Ak

/-- `b` is the last symbol of a rule of some key of `d` -/
def l1r_Ref (d : Prods Sym) (b : Sym) : Prop :=
  ∃ k rules r, (k, rules) ∈ d ∧ r ∈ rules ∧ r.rhs.getLast? = some b

theorem l1r_Ref_mono {d d' : Prods Sym} (h : ∀ e ∈ d, e ∈ d') {b : Sym} (hr : l1r_Ref d b) : l1r_Ref d' b := by
  obtain ⟨k, rules, r, h1, h2, h3⟩ := hr
  exact ⟨k, rules, r, h _ h1, h2, h3⟩

/-! ### the plain factorisation -/

/-- every key of the result except the symbol itself is referenced inside the result -/
def l1r_RefOK (recur : Sym → List (Rule Sym) → Except Err (Prods Sym)) : Prop :=
  ∀ s rl d, recur s rl = .ok d → ∀ k ∈ pkeys d, k ≠ s → l1r_Ref d k

theorem l1r_chunks {recur : Sym → List (Rule Sym) → Except Err (Prods Sym)} (hshape : ShapeOK recur)
    (hrec : l1r_RefOK recur) (sym : Sym) :
    ∀ (chunks : List (List (Rule Sym))) (gid : Nat) (rs : List (Rule Sym)) (sp : Prods Sym),
    factorizeChunks recur sym chunks gid = .ok (rs, sp) →
    ∀ k ∈ pkeys sp, (∃ r ∈ rs, r.rhs.getLast? = some k) ∨ l1r_Ref sp k
  | [], gid, rs, sp, h => by
    obtain ⟨_, e⟩ := factorizeChunks_nil h
    subst e; intro k hk; simp [pkeys] at hk
  | [] :: rest, gid, rs, sp, h => by simp [factorizeChunks] at h
  | [r] :: rest, gid, rs, sp, h => by
    obtain ⟨rs', e, h'⟩ := factorizeChunks_single h
    subst e
    intro k hk
    rcases l1r_chunks hshape hrec sym rest gid rs' sp h' k hk with ⟨r', hr', hl⟩ | h3
    · exact Or.inl ⟨r', by simp [hr'], hl⟩
    · exact Or.inr h3
  | (r0 :: r1 :: more) :: rest, gid, rs, sp, h => by
    obtain ⟨_, extra, rs', sp', h1, h2, e1, e2⟩ := factorizeChunks_group h
    subst e1; subst e2
    intro k hk
    simp only [pkeys, List.map_append, List.mem_append] at hk
    rcases hk with hk | hk
    · by_cases hks : k = sym.suf gid
      · subst hks
        exact Or.inl ⟨_, List.mem_cons_self, by simp⟩
      · exact Or.inr (l1r_Ref_mono (fun e he => by simp [he]) (hrec _ _ _ h1 k hk hks))
    · rcases l1r_chunks hshape hrec sym rest (gid + 1) rs' sp' h2 k hk with ⟨r, hr, hl⟩ | h3
      · exact Or.inl ⟨r, by simp [hr], hl⟩
      · exact Or.inr (l1r_Ref_mono (fun e he => by simp [he]) h3)

theorem l1r_list : ∀ (fuel : Nat), l1r_RefOK (factorizeList fuel)
  | 0 => by intro s rl d h; simp [factorizeList] at h
  | fuel + 1 => by
    intro s rl d h k hk hks
    obtain ⟨rs, sp, h1, e⟩ := factorizeList_succ h
    subst e
    have hk' : k ∈ pkeys sp := by
      simp only [pkeys, List.map_cons, List.mem_cons] at hk
      rcases hk with hk | hk
      · exact absurd hk hks
      · exact hk
    rcases l1r_chunks (factorizeList_shape fuel) (l1r_list fuel) s _ 0 rs sp h1 k hk' with ⟨r, hr, hl⟩ | h3
    · exact ⟨s, rs, r, by simp, hr, hl⟩
    · exact l1r_Ref_mono (fun e he => by simp [he]) h3

/-- `factorizeAll`: every helper key of the result is referenced -/
theorem l1r_all {U d : Prods Sym} {fuel : Nat} (hU : UserWF U) (h : factorizeAll fuel U = .ok d) :
    ∀ b ∈ (d.map (·.1)).filter Sym.isSuf, l1r_Ref d b := by
  obtain ⟨sp1, sp2⟩ := factorizeAll_spec fuel U d h
  intro b hb
  rw [List.mem_filter] at hb
  obtain ⟨hbk, hsuf⟩ := hb
  obtain ⟨e, he, hek⟩ := List.mem_map.1 hbk
  obtain ⟨s, rules, part, hm, hp, hep⟩ := sp2 e he
  obtain ⟨part', hp', hsub⟩ := sp1 s rules hm
  rw [hp] at hp'
  cases hp'
  have hne : b ≠ s := by
    intro e'
    have := path_nil_not_isSuf (hU.keyUser s (List.mem_map.2 ⟨(s, rules), hm, rfl⟩))
    rw [← e', hsuf] at this
    cases this
  exact l1r_Ref_mono hsub (l1r_list fuel s rules part hp b (List.mem_map.2 ⟨e, hep, hek⟩) hne)

/-- the result without the smart undo -/
theorem factorize_referenced_plain {terms : List Sym} {U G : Prods Sym} {S : List Sym}
    (hU : UserWF U) (h : factorize terms U false = .ok (G, S)) :
    ∀ hs ∈ S, ∃ k rules r, (k, rules) ∈ G ∧ r ∈ rules ∧ r.rhs.getLast? = some hs := by
  unfold factorize at h
  obtain ⟨d, hd, h⟩ := Except.bind_ok h
  split at h
  · cases h
  · simp only [Bool.false_eq_true, if_false, Except.ok.injEq, Prod.mk.injEq] at h
    obtain ⟨e1, e2⟩ := h
    subst e1; subst e2
    exact l1r_all hU hd

/-! ### the smart undo -/

/-- an inlinable rule of the list is replaced by all its expansions -/
theorem l1r_undoRules_inl {terms suffix : List Sym} {d : Prods Sym} :
    ∀ {rr new : List (Rule Sym)} {rm' : List Sym}, undoRules terms suffix d rr = .ok (new, rm') →
    ∀ r ∈ rr, ∀ a b sp, r.rhs = [a, b] → a ∈ terms → b ∈ suffix → dget b d = some sp → sp.length ≤ 5 →
      ∀ sr ∈ sp, (⟨a :: sr.rhs, 0⟩ : Rule Sym) ∈ new
  | [], new, rm', h => by simp
  | r :: rest, new, rm', h => by
    simp only [undoRules] at h
    obtain ⟨⟨rs, o⟩, h1, h⟩ := Except.bind_ok h
    obtain ⟨⟨rs2, rm2⟩, h2, h⟩ := Except.bind_ok h
    simp only [Except.ok.injEq, Prod.mk.injEq] at h
    obtain ⟨e1, e2⟩ := h
    subst e1; subst e2
    have ih := l1r_undoRules_inl h2
    intro r0 hr0 a b sp hrhs ha hb hg hlen sr hsr
    simp only [List.mem_cons] at hr0
    rcases hr0 with hr0 | hr0
    · subst hr0
      rcases undoRule_spec h1 with ⟨_, _, hni⟩ | ⟨a', b', sp', hrhs', _, _, hg', _, e1, _⟩
      · exact absurd ⟨a, b, sp, hrhs, ha, hb, hg, hlen⟩ hni
      · rw [hrhs] at hrhs'
        simp only [List.cons.injEq, and_true] at hrhs'
        obtain ⟨ea, eb⟩ := hrhs'
        subst ea; subst eb
        rw [hg] at hg'
        cases hg'
        subst e1
        simp only [List.mem_append, List.mem_map]
        exact Or.inl ⟨sr, hsr, rfl⟩
    · simp only [List.mem_append]
      exact Or.inr (ih r0 hr0 a b sp hrhs ha hb hg hlen sr hsr)

/-- the extra invariant of `undoLoop`: removed symbols have been processed; a helper that is not
removed is the last symbol of a rule of a key that is not removed -/
structure l1r_RInv (S0 done : List Sym) (d : Prods Sym) (rm : List Sym) : Prop where
  R1 : ∀ b ∈ rm, b ∈ done
  R2 : ∀ b ∈ S0, b ∉ rm →
    ∃ k rules r, dget k d = some rules ∧ k ∉ rm ∧ r ∈ rules ∧ r.rhs.getLast? = some b

theorem l1r_init {D0 : Prods Sym} {S0 : List Sym} (hnd : (D0.map (·.1)).Nodup)
    (href : ∀ b ∈ S0, l1r_Ref D0 b) : l1r_RInv S0 [] D0 [] := by
  refine ⟨by simp, ?_⟩
  intro b hb _
  obtain ⟨k, rules, r, hm, hr, hl⟩ := href b hb
  exact ⟨k, rules, r, (mem_iff_dget hnd).1 hm, by simp, hr, hl⟩

section Step
variable {terms : List Sym} {D0 : Prods Sym} {S0 done : List Sym} {d : Prods Sym} {rm : List Sym}
  {s : Sym} {rr new : List (Rule Sym)} {rm' : List Sym} {d' : Prods Sym} {new' : List (Rule Sym)}

/-- one iteration (same shape as `inv_step`) -/
theorem l1r_step (hB : Base terms D0 S0) (hI : Inv D0 S0 done d rm) (hR : l1r_RInv S0 done d rm)
    (hs : s ∉ done) (hchild : ∀ g, s.suf g ∈ D0.map (·.1) → s.suf g ∈ done)
    (hrr : dget s d = some rr) (hu : undoRules terms S0 d rr = .ok (new, rm'))
    (hs' : dget s d' = some new') (hrhs : new'.map (·.rhs) = new.map (·.rhs))
    (hoth : ∀ k, k ≠ s → dget k d' = dget k d) :
    l1r_RInv S0 (done ++ [s]) d' (rm'.foldl sadd rm) := by
  have hU := undoRules_spec hu
  have hrr0 : dget s D0 = some rr := by rw [← hI.J3 s hs]; exact hrr
  have hchildren := rm'_child hB hrr0 hU
  have hsrm : s ∉ rm'.foldl sadd rm := by
    intro hmem
    rcases mem_foldl_sadd.1 hmem with h | h
    · exact hs (hR.R1 s h)
    · obtain ⟨_, g, e⟩ := hchildren s h
      exact suf_ne_self s g e.symm
  have hsref : ∀ r ∈ new, ∀ b, r.rhs.getLast? = some b →
      ∃ k rules r, dget k d' = some rules ∧ k ∉ rm'.foldl sadd rm ∧ r ∈ rules ∧ r.rhs.getLast? = some b := by
    intro r hr b hl
    have : r.rhs ∈ new'.map (·.rhs) := by rw [hrhs]; exact List.mem_map.2 ⟨r, hr, rfl⟩
    obtain ⟨r', hr', e⟩ := List.mem_map.1 this
    exact ⟨s, new', r', hs', hsrm, hr', by rw [e]; exact hl⟩
  refine ⟨?_, ?_⟩
  · intro b hb
    rcases mem_foldl_sadd.1 hb with hb | hb
    · simp [hR.R1 b hb]
    · obtain ⟨hbS, g, e⟩ := hchildren b hb
      have := hchild g (e ▸ hB.sufKey b hbS)
      rw [e]
      simp [this]
  · intro b hbS hbrm
    have hb1 : b ∉ rm := fun h => hbrm (mem_foldl_sadd.2 (Or.inl h))
    have hb2 : b ∉ rm' := fun h => hbrm (mem_foldl_sadd.2 (Or.inr h))
    obtain ⟨k, rules, r, hg, hkrm, hr, hl⟩ := hR.R2 b hbS hb1
    by_cases hks : k = s
    · rw [hks, hrr] at hg
      cases hg
      rcases hU.n2 r hr with hin | ⟨a, b', sp, hrhs0, _, _, _, hb'rm, _⟩
      · exact hsref r hin b hl
      · rw [hrhs0] at hl
        simp only [List.getLast?_cons_cons, List.getLast?_singleton, Option.some.injEq] at hl
        exact absurd (hl ▸ hb'rm) hb2
    · by_cases hkrm' : k ∈ rm'
      · obtain ⟨r0, hr0, a, sp, hrhs0, ha, hkS, hgk, hlen⟩ := hU.n3 k hkrm'
        rw [hg] at hgk
        cases hgk
        have := l1r_undoRules_inl hu r0 hr0 a k rules hrhs0 ha hkS hg hlen r hr
        exact hsref _ this b (getLast?_cons_of hl)
      · refine ⟨k, rules, r, by rw [hoth k hks]; exact hg, ?_, hr, hl⟩
        intro hmem
        rcases mem_foldl_sadd.1 hmem with h | h
        · exact hkrm h
        · exact hkrm' h

end Step

/-- the whole loop, next to `undoLoop_inv` -/
theorem l1r_undoLoop_inv {terms : List Sym} {D0 : Prods Sym} {S0 : List Sym} (hB : Base terms D0 S0)
    {order : List Sym} (hnd : order.Nodup) (hsorted : order.Pairwise (fun a b => b.nameLen ≤ a.nameLen))
    (hkeys : ∀ x, x ∈ D0.map (·.1) → x ∈ order) :
    ∀ (rest done : List Sym) (d : Prods Sym) (rm : List Sym) (out : Prods Sym × List Sym),
      order = done ++ rest → Inv D0 S0 done d rm → l1r_RInv S0 done d rm →
      undoLoop terms S0 rest d rm = .ok out → l1r_RInv S0 order out.1 out.2
  | [], done, d, rm, out, ho, _, hR, h => by
    rw [undoLoop_nil h, ho, List.append_nil]
    exact hR
  | s :: rest, done, d, rm, out, ho, hI, hR, h => by
    obtain ⟨rr, new, rm', hrr, hu, h'⟩ := undoLoop_cons h
    have hU := undoRules_spec hu
    have hs : s ∉ done := by
      rw [ho] at hnd
      have := (List.nodup_append.1 hnd).2.2
      intro hsd
      exact this s hsd s (by simp) rfl
    have hchild : ∀ g, s.suf g ∈ D0.map (·.1) → s.suf g ∈ done := by
      intro g hg
      have hmem := hkeys _ hg
      rw [ho] at hmem hsorted
      simp only [List.mem_append, List.mem_cons] at hmem
      rcases hmem with hmem | hmem | hmem
      · exact hmem
      · exact absurd hmem (suf_ne_self s g)
      · have h1 := (List.pairwise_append.1 hsorted).2.1
        have h2 := (List.pairwise_cons.1 h1).1 _ hmem
        have h3 := nameLen_suf s g
        omega
    have hsk : s ∈ d.map (·.1) := dget_isSome_iff.1 (by rw [hrr]; rfl)
    by_cases hlen : new.length ≠ rr.length
    · rw [if_pos hlen] at h'
      exact l1r_undoLoop_inv hB hnd hsorted hkeys rest (done ++ [s]) _ _ out (by simp [ho])
        (inv_step hB hI hs hchild hrr hU (keys_dset_of_mem _ hsk) (dget_dset_self _ _ _) (renum_rhs new)
          (fun k hk => dget_dset_ne _ (fun e => hk e.symm) _))
        (l1r_step hB hI hR hs hchild hrr hu (dget_dset_self _ _ _) (renum_rhs new)
          (fun k hk => dget_dset_ne _ (fun e => hk e.symm) _)) h'
    · rw [if_neg hlen] at h'
      have hlen' : new.length = rr.length := Classical.not_not.1 hlen
      have hrm : rm' = [] := by
        apply Classical.byContradiction
        intro hne
        have := (hU.n5 (inv_two hI)).2 hne
        omega
      have hnew := hU.n4 hrm
      exact l1r_undoLoop_inv hB hnd hsorted hkeys rest (done ++ [s]) _ _ out (by simp [ho])
        (inv_step hB hI hs hchild hrr hU rfl hrr (by rw [hnew]) (fun _ _ => rfl))
        (l1r_step hB hI hR hs hchild hrr hu hrr (by rw [hnew]) (fun _ _ => rfl)) h'

/-- the state after the loop over all keys -/
theorem l1r_undoLoop_all {terms : List Sym} {D0 : Prods Sym} {S0 : List Sym} (hB : Base terms D0 S0)
    (href : ∀ b ∈ S0, l1r_Ref D0 b) {d' : Prods Sym} {rm : List Sym}
    (h : undoLoop terms S0 (sortBy (fun (a b : Sym) => decide (b.nameLen ≤ a.nameLen)) (D0.map (·.1))) D0 [] =
      .ok (d', rm)) :
    l1r_RInv S0 (sortBy (fun (a b : Sym) => decide (b.nameLen ≤ a.nameLen)) (D0.map (·.1))) d' rm := by
  have hperm := sortBy_perm (fun (a b : Sym) => decide (b.nameLen ≤ a.nameLen)) (D0.map (·.1))
  have hnd := hperm.nodup_iff.2 hB.nd
  have hsorted : (sortBy (fun (a b : Sym) => decide (b.nameLen ≤ a.nameLen)) (D0.map (·.1))).Pairwise
      (fun a b => b.nameLen ≤ a.nameLen) := by
    have := sortBy_sorted (le := fun (a b : Sym) => decide (b.nameLen ≤ a.nameLen))
      (by intro a b; simp only [decide_eq_true_eq]; omega)
      (by intro a b c; simp only [decide_eq_true_eq]; omega) (D0.map (·.1))
    exact this.imp (by intro a b h; simpa using h)
  exact l1r_undoLoop_inv hB hnd hsorted (fun x hx => mem_sortBy.2 hx) _ [] D0 [] (d', rm) rfl (inv_init hB)
    (l1r_init hB.nd href) h

/-! ### the result of `factorize` -/

/-- **every surviving helper symbol is referenced**: it is the last symbol of some rule of some key
of the result of `_factorize_productions` (both values of `smart_factorization`) -/
theorem factorize_referenced {terms : List Sym} {U G : Prods Sym} {S : List Sym} {smart : Bool}
    (hU : UserWF U) (hterm : ∀ t ∈ terms, t.path = []) (h : factorize terms U smart = .ok (G, S)) :
    ∀ hs ∈ S, ∃ k rules r, (k, rules) ∈ G ∧ r ∈ rules ∧ r.rhs.getLast? = some hs := by
  cases smart with
  | false => exact factorize_referenced_plain hU h
  | true =>
    unfold factorize at h
    obtain ⟨d, hd, h⟩ := Except.bind_ok h
    split at h
    · cases h
    · rename_i hnd
      have hnd : (d.map (·.1)).Nodup := Classical.not_not.1 hnd
      have hB := base_of_factorizeAll hU hterm hd hnd
      simp only [if_true] at h
      unfold smartUndo at h
      simp only at h
      obtain ⟨⟨d', rm⟩, hloop, h⟩ := Except.bind_ok h
      simp only [Except.ok.injEq, Prod.mk.injEq] at h
      obtain ⟨eG, eS⟩ := h
      have hI := undoLoop_all hB hloop
      have hR := l1r_undoLoop_all hB (l1r_all hU hd) hloop
      have hndd : (d'.map (·.1)).Nodup := by rw [hI.K]; exact hB.nd
      obtain ⟨_, hgetG⟩ := ddels_spec rm hndd
      rw [eG] at hgetG
      intro b hb
      rw [← eS, List.mem_filter] at hb
      simp only [decide_eq_true_eq] at hb
      obtain ⟨k, rules, r, hg, hkrm, hr, hl⟩ := hR.R2 b hb.1 hb.2
      exact ⟨k, rules, r, dget_mem (by rw [hgetG, if_neg hkrm]; exact hg), hr, hl⟩

end LL
