import AkVerif.Lemmas.LLClosed
/-!
`mkTable` and the LL(1) condition.

`PredDisjoint … A r1 r2`: the predict sets (`startSyms … A r.rhs []`) of two rules of `A`, as the
table constructor computes them, have no symbol in common.

* `not_ambiguous_of_disjoint` — keys of `G` duplicate-free, the rules of every symbol pairwise
  predict-disjoint ⇒ the table built by `mkTable` is not ambiguous (every entry has exactly one rule).
* `disjoint_of_not_ambiguous` — the table built by `mkTable` is not ambiguous ⇒ the rules of every
  symbol are pairwise predict-disjoint (no extra hypothesis: a rule listed twice with a non-empty
  predict set makes an entry of length ≥ 2, this is counted with `dlen`).
* `not_ambiguous_iff_disjoint` — both together.

Invariant of the table before sorting (`GInv`): every stored entry `((A, t), l)` has `l` a sublist
of the rules of `A` and `t` is in the predict set of every rule in `l`.
-/
set_option linter.unusedSectionVars false
namespace LL

/-! ### `sadd` / `sunion` keep lists duplicate-free -/
section Dict
variable {κ : Type} [DecidableEq κ]

theorem sadd_nodup {s : List κ} (x : κ) (h : s.Nodup) : (sadd s x).Nodup := by
  unfold sadd
  split
  · exact h
  · rename_i hx
    rw [List.nodup_append]
    refine ⟨h, by simp, ?_⟩
    intro a ha b hb
    simp only [List.mem_singleton] at hb
    subst hb
    intro e; subst e; exact hx ha

theorem sunion_nodup : ∀ (b : List κ) {a : List κ}, a.Nodup → (sunion a b).Nodup
  | [], a, h => by simpa [sunion] using h
  | x :: xs, a, h => by
    unfold sunion
    simp only [List.foldl_cons]
    exact sunion_nodup xs (sadd_nodup x h)

/-- length of the list stored under `k` (`0` for a missing key) -/
def dlen {γ : Type} (k : κ) (d : List (κ × List γ)) : Nat :=
  match dget k d with
  | some l => l.length
  | none => 0

theorem dlen_dappend {γ : Type} (k k' : κ) (x : γ) : ∀ (d : List (κ × List γ)),
    dlen k (dappend k' x d) = dlen k d + (if k' = k then 1 else 0)
  | [] => by
    by_cases h : k' = k
    · simp [dappend, dlen, dget, h]
    · simp [dappend, dlen, dget, h]
  | (k'', l) :: rest => by
    have ih := dlen_dappend k k' x rest
    unfold dappend
    by_cases h1 : k'' = k'
    · subst h1
      by_cases h2 : k'' = k
      · simp [dlen, dget, h2]
      · simp [dlen, dget, h2]
    · by_cases h2 : k'' = k
      · subst h2
        have h1' : ¬ k' = k'' := fun e => h1 e.symm
        simp [dlen, dget, h1, h1']
      · simp only [h1, if_false]
        unfold dlen at ih ⊢
        simp only [dget, h2, if_false]
        exact ih

theorem dlen_dappend_le {γ : Type} (k k' : κ) (x : γ) (d : List (κ × List γ)) :
    dlen k d ≤ dlen k (dappend k' x d) := by
  rw [dlen_dappend]; exact Nat.le_add_right _ _

theorem dget_of_dlen_pos {γ : Type} {k : κ} {d : List (κ × List γ)} {n : Nat} (h : n + 1 ≤ dlen k d) :
    ∃ l, dget k d = some l ∧ n + 1 ≤ l.length := by
  unfold dlen at h
  cases hd : dget k d with
  | none => rw [hd] at h; simp at h
  | some l => rw [hd] at h; exact ⟨l, rfl, h⟩

/-- entries under another key are not touched by `dappend` -/
theorem mem_dappend_ne {γ : Type} {k k' : κ} {x : γ} {l : List γ} {d : List (κ × List γ)}
    (h : (k', l) ∈ dappend k x d) (hne : k' ≠ k) : (k', l) ∈ d := by
  rcases mem_dappend h with h | ⟨h, _⟩
  · exact h
  · exact absurd h hne

end Dict

variable {σ : Type} [DecidableEq σ]

/-! ### predict sets -/

theorem startSyms_nodup {terms nulls : List σ} {first follow : SetMap σ} {A : σ} :
    ∀ (l acc ss : List σ), acc.Nodup → startSyms terms nulls first follow A l acc = .ok ss → ss.Nodup
  | [], acc, ss, hn, h => by
    unfold startSyms at h
    split at h
    · obtain ⟨w, _, h⟩ := exc_bind_ok h
      simp only [Except.ok.injEq] at h
      subst h
      exact sunion_nodup w hn
    · cases h
  | s :: rest, acc, ss, hn, h => by
    unfold startSyms at h
    split at h
    · simp only [Except.ok.injEq] at h
      subst h
      exact sadd_nodup s hn
    · obtain ⟨f, _, h⟩ := exc_bind_ok h
      split at h
      · exact startSyms_nodup rest _ ss (sunion_nodup f hn) h
      · simp only [Except.ok.injEq] at h
        subst h
        exact sunion_nodup f hn

/-- `t` is in the predict set the constructor computes for the rule `r` of `A` -/
def Pred (terms nulls : List σ) (first follow : SetMap σ) (A : σ) (r : Rule σ) (t : σ) : Prop :=
  ∃ ss, startSyms terms nulls first follow A r.rhs [] = .ok ss ∧ t ∈ ss

/-- the predict sets of two rules of `A`, as the table constructor computes them, are disjoint -/
def PredDisjoint (terms nulls : List σ) (first follow : SetMap σ) (A : σ) (r1 r2 : Rule σ) : Prop :=
  ∀ ss1 ss2, startSyms terms nulls first follow A r1.rhs [] = .ok ss1 →
    startSyms terms nulls first follow A r2.rhs [] = .ok ss2 → ∀ t, t ∈ ss1 → t ∉ ss2

theorem predDisjoint_iff {terms nulls : List σ} {first follow : SetMap σ} {A : σ} {r1 r2 : Rule σ} :
    PredDisjoint terms nulls first follow A r1 r2 ↔
      ∀ t, Pred terms nulls first follow A r1 t → Pred terms nulls first follow A r2 t → False := by
  constructor
  · rintro h t ⟨ss1, h1, ht1⟩ ⟨ss2, h2, ht2⟩
    exact h ss1 ss2 h1 h2 t ht1 ht2
  · intro h ss1 ss2 h1 h2 t ht1 ht2
    exact h t ⟨ss1, h1, ht1⟩ ⟨ss2, h2, ht2⟩

/-! ### upper bound: stored lists are sublists of the rule list -/

/-- the entry `(k, l)`: `l` is a sublist of `rs`, and `k.2` is in the predict set of each of its rules -/
def EntryOK (terms nulls : List σ) (first follow : SetMap σ) (rs : List (Rule σ))
    (k : σ × σ) (l : List (Rule σ)) : Prop :=
  l.Sublist rs ∧ ∀ r ∈ l, Pred terms nulls first follow k.1 r k.2

theorem EntryOK.mono {terms nulls : List σ} {first follow : SetMap σ} {rs rs' : List (Rule σ)}
    {k : σ × σ} {l : List (Rule σ)} (h : EntryOK terms nulls first follow rs k l)
    (hs : rs.Sublist rs') : EntryOK terms nulls first follow rs' k l :=
  ⟨h.1.trans hs, h.2⟩

/-- the `for t in start_symbols` loop of the rule `r` that follows the processed rules `pre` -/
theorem foldl_entryOK {terms nulls : List σ} {first follow : SetMap σ} (A : σ) (r : Rule σ)
    (pre : List (Rule σ)) : ∀ (rem : List σ) (T : Table σ), rem.Nodup →
    (∀ t ∈ rem, Pred terms nulls first follow A r t) →
    (∀ k l, (k, l) ∈ T → k.1 = A →
      EntryOK terms nulls first follow (pre ++ [r]) k l ∧ (k.2 ∈ rem → l.Sublist pre)) →
    ∀ k l, (k, l) ∈ rem.foldl (fun T t => dappend (A, t) r T) T → k.1 = A →
      EntryOK terms nulls first follow (pre ++ [r]) k l
  | [], T, _, _, hT, k, l, hm, hk => (hT k l hm hk).1
  | t0 :: rem, T, hnd, hP, hT, k, l, hm, hk => by
    simp only [List.foldl_cons] at hm
    rw [List.nodup_cons] at hnd
    refine foldl_entryOK A r pre rem (dappend (A, t0) r T) hnd.2
      (fun t ht => hP t (List.mem_cons_of_mem _ ht)) ?_ k l hm hk
    intro k' l' hm' hk'
    rcases mem_dappend hm' with hm1 | ⟨hkey, hm2⟩
    · obtain ⟨h1, h2⟩ := hT k' l' hm1 hk'
      exact ⟨h1, fun h => h2 (List.mem_cons_of_mem _ h)⟩
    · subst hkey
      have hnot : ((A, t0) : σ × σ).2 ∈ rem → l'.Sublist pre := fun h => absurd h hnd.1
      have hp0 : Pred terms nulls first follow A r t0 := hP t0 (by simp)
      rcases hm2 with ⟨l0, hl0, hl⟩ | hl
      · subst hl
        obtain ⟨h1, h2⟩ := hT _ _ hl0 rfl
        have hsub : l0.Sublist pre := h2 (by simp)
        refine ⟨⟨List.Sublist.append hsub (List.Sublist.refl _), ?_⟩, hnot⟩
        intro r' hr'
        rcases List.mem_append.1 hr' with hr' | hr'
        · exact h1.2 r' hr'
        · simp only [List.mem_singleton] at hr'
          subst hr'; exact hp0
      · subst hl
        refine ⟨⟨List.sublist_append_right _ _, ?_⟩, hnot⟩
        intro r' hr'
        simp only [List.mem_singleton] at hr'
        subst hr'; exact hp0

theorem tableRules_entryOK {terms nulls : List σ} {first follow : SetMap σ} (A : σ) :
    ∀ (rs pre : List (Rule σ)) (T T' : Table σ),
    tableRules terms nulls first follow A rs T = .ok T' →
    (∀ k l, (k, l) ∈ T → k.1 = A → EntryOK terms nulls first follow pre k l) →
    ∀ k l, (k, l) ∈ T' → k.1 = A → EntryOK terms nulls first follow (pre ++ rs) k l
  | [], pre, T, T', h, hT => by
    simp only [tableRules, Except.ok.injEq] at h
    subst h
    simpa using hT
  | r :: rest, pre, T, T', h, hT => by
    unfold tableRules at h
    obtain ⟨ss, hss, h⟩ := exc_bind_ok h
    have hnd : ss.Nodup := startSyms_nodup _ _ _ List.nodup_nil hss
    have h1 := foldl_entryOK (terms := terms) (nulls := nulls) (first := first) (follow := follow)
      A r pre ss T hnd (fun t ht => ⟨ss, hss, ht⟩)
      (fun k l hm hk => ⟨(hT k l hm hk).mono (List.sublist_append_left _ _), fun _ => (hT k l hm hk).1⟩)
    have h2 := tableRules_entryOK A rest (pre ++ [r]) _ T' h h1
    intro k l hm hk
    have := h2 k l hm hk
    simpa [List.append_assoc] using this

/-- entries of other symbols are not touched while the rules of `A` are processed -/
theorem foldl_frame (A : σ) (r : Rule σ) : ∀ (ss : List σ) (T : Table σ) (k : σ × σ) (l : List (Rule σ)),
    (k, l) ∈ ss.foldl (fun T t => dappend (A, t) r T) T → k.1 ≠ A → (k, l) ∈ T
  | [], _, _, _, hm, _ => hm
  | t0 :: ss, T, k, l, hm, hk => by
    simp only [List.foldl_cons] at hm
    have := foldl_frame A r ss _ k l hm hk
    exact mem_dappend_ne this (fun e => hk (by rw [e]))

theorem tableRules_frame {terms nulls : List σ} {first follow : SetMap σ} (A : σ) :
    ∀ (rs : List (Rule σ)) (T T' : Table σ), tableRules terms nulls first follow A rs T = .ok T' →
    ∀ k l, (k, l) ∈ T' → k.1 ≠ A → (k, l) ∈ T
  | [], T, T', h => by
    simp only [tableRules, Except.ok.injEq] at h
    subst h
    exact fun _ _ hm _ => hm
  | r :: rest, T, T', h => by
    unfold tableRules at h
    obtain ⟨ss, _, h⟩ := exc_bind_ok h
    intro k l hm hk
    exact foldl_frame A r ss T k l (tableRules_frame A rest _ T' h k l hm hk) hk

/-- every stored entry belongs to a processed symbol and is a sublist of its rules -/
def GInv (terms nulls : List σ) (first follow : SetMap σ) (Gd : Prods σ) (T : Table σ) : Prop :=
  ∀ k l, (k, l) ∈ T → ∃ rules, (k.1, rules) ∈ Gd ∧ EntryOK terms nulls first follow rules k l

theorem tableFill_ginv {terms nulls : List σ} {first follow : SetMap σ} :
    ∀ (G' Gd : Prods σ) (T T' : Table σ), tableFill terms nulls first follow G' T = .ok T' →
    (G'.map (·.1)).Nodup → (∀ A ∈ G'.map (·.1), A ∉ Gd.map (·.1)) →
    GInv terms nulls first follow Gd T → GInv terms nulls first follow (Gd ++ G') T'
  | [], Gd, T, T', h, _, _, hI => by
    simp only [tableFill, Except.ok.injEq] at h
    subst h
    simpa using hI
  | (A, rules) :: rest, Gd, T, T', h, hnd, hfresh, hI => by
    unfold tableFill at h
    obtain ⟨T1, h1, h⟩ := exc_bind_ok h
    simp only [List.map_cons, List.nodup_cons] at hnd
    have hA : A ∉ Gd.map (·.1) := hfresh A (by simp)
    have hnone : ∀ k l, (k, l) ∈ T → k.1 = A → EntryOK terms nulls first follow [] k l := by
      intro k l hm hk
      obtain ⟨rules', hm', _⟩ := hI k l hm
      exact absurd (List.mem_map.2 ⟨(k.1, rules'), hm', hk⟩) hA
    have hok := tableRules_entryOK A rules [] T T1 h1 hnone
    have hfr := tableRules_frame A rules T T1 h1
    have hI1 : GInv terms nulls first follow (Gd ++ [(A, rules)]) T1 := by
      intro k l hm
      by_cases hk : k.1 = A
      · have := hok k l hm hk
        simp only [List.nil_append] at this
        exact ⟨rules, by rw [hk]; simp, this⟩
      · obtain ⟨rules', hm', he⟩ := hI k l (hfr k l hm hk)
        exact ⟨rules', List.mem_append_left _ hm', he⟩
    have hfresh1 : ∀ B ∈ rest.map (·.1), B ∉ (Gd ++ [(A, rules)]).map (·.1) := by
      intro B hB
      simp only [List.map_append, List.map_cons, List.map_nil, List.mem_append, List.mem_singleton,
        not_or]
      refine ⟨hfresh B (by simp only [List.map_cons]; exact List.mem_cons_of_mem _ hB), ?_⟩
      intro e; subst e; exact hnd.1 hB
    have := tableFill_ginv rest (Gd ++ [(A, rules)]) T1 T' h hnd.2 hfresh1 hI1
    simpa [List.append_assoc] using this

/-- keys of `G` duplicate-free and the rules of every symbol pairwise predict-disjoint:
the table is not ambiguous -/
theorem not_ambiguous_of_disjoint {G : Prods σ} {terms nulls : List σ} {first follow : SetMap σ}
    {T : Table σ}
    (hnd : (G.map (·.1)).Nodup) (hT : mkTable terms nulls first follow G = .ok T)
    (hdisj : ∀ A rules, (A, rules) ∈ G → rules.Pairwise (PredDisjoint terms nulls first follow A)) :
    isAmbiguous T = false := by
  have hinv := mkTable_inv hT
  unfold mkTable at hT
  obtain ⟨T0, h0, hT⟩ := exc_bind_ok hT
  simp only [Except.ok.injEq] at hT
  have hG : GInv terms nulls first follow ([] ++ G) T0 :=
    tableFill_ginv G [] [] T0 h0 hnd (fun _ _ => by simp) (fun k l hm => by simp at hm)
  simp only [List.nil_append] at hG
  unfold isAmbiguous
  rw [List.any_eq_false]
  rintro ⟨k, l⟩ hm
  have hne := (hinv k l hm).1
  rw [← hT] at hm
  simp only [List.mem_map] at hm
  obtain ⟨⟨k0, l0⟩, hm0, he⟩ := hm
  simp only [Prod.mk.injEq] at he
  obtain ⟨hk, hl⟩ := he
  subst hk; subst hl
  obtain ⟨rules, hmG, hsub, hpred⟩ := hG _ _ hm0
  have hlen := sortRules_length l0
  suffices h : l0.length = 1 by simp [hlen, h]
  match l0, hsub, hpred, hne, hlen with
  | [], _, _, hne, _ => exact absurd rfl hne
  | [_], _, _, _, _ => rfl
  | a :: b :: c, hsub, hpred, _, _ =>
    exfalso
    have hab : [a, b].Sublist rules :=
      List.Sublist.trans (List.Sublist.cons_cons a (List.Sublist.cons_cons b (List.nil_sublist c))) hsub
    have hpw := (hdisj k0.1 rules hmG).sublist hab
    have hd : PredDisjoint terms nulls first follow k0.1 a b := by
      simpa using hpw
    exact predDisjoint_iff.1 hd k0.2 (hpred a (by simp)) (hpred b (by simp))

/-! ### lower bound: a shared predict symbol makes an entry of length ≥ 2 -/

theorem foldl_dlen_le (A : σ) (r : Rule σ) (k : σ × σ) : ∀ (ss : List σ) (T : Table σ),
    dlen k T ≤ dlen k (ss.foldl (fun T t => dappend (A, t) r T) T)
  | [], _ => Nat.le_refl _
  | t0 :: ss, T => by
    simp only [List.foldl_cons]
    exact Nat.le_trans (dlen_dappend_le k (A, t0) r T) (foldl_dlen_le A r k ss _)

theorem foldl_dlen_mem (A : σ) (r : Rule σ) (t : σ) : ∀ (ss : List σ) (T : Table σ), t ∈ ss →
    dlen (A, t) T + 1 ≤ dlen (A, t) (ss.foldl (fun T t => dappend (A, t) r T) T)
  | [], _, h => by simp at h
  | t0 :: ss, T, h => by
    simp only [List.foldl_cons]
    by_cases e : t0 = t
    · subst e
      have h1 : dlen (A, t0) (dappend (A, t0) r T) = dlen (A, t0) T + 1 := by
        rw [dlen_dappend]; simp
      rw [← h1]
      exact foldl_dlen_le A r (A, t0) ss _
    · have ht : t ∈ ss := by
        rcases List.mem_cons.1 h with h | h
        · exact absurd h.symm e
        · exact h
      exact Nat.le_trans (Nat.add_le_add_right (dlen_dappend_le (A, t) (A, t0) r T) 1)
        (foldl_dlen_mem A r t ss _ ht)

theorem tableRules_dlen_le {terms nulls : List σ} {first follow : SetMap σ} (A : σ) (k : σ × σ) :
    ∀ (rs : List (Rule σ)) (T T' : Table σ), tableRules terms nulls first follow A rs T = .ok T' →
    dlen k T ≤ dlen k T'
  | [], T, T', h => by
    simp only [tableRules, Except.ok.injEq] at h
    subst h; exact Nat.le_refl _
  | r :: rest, T, T', h => by
    unfold tableRules at h
    obtain ⟨ss, _, h⟩ := exc_bind_ok h
    exact Nat.le_trans (foldl_dlen_le A r k ss T) (tableRules_dlen_le A k rest _ T' h)

theorem tableRules_dlen_mem {terms nulls : List σ} {first follow : SetMap σ} (A : σ) (t : σ)
    {a : Rule σ} (ha : Pred terms nulls first follow A a t) :
    ∀ (rs : List (Rule σ)) (T T' : Table σ), tableRules terms nulls first follow A rs T = .ok T' →
    a ∈ rs → dlen (A, t) T + 1 ≤ dlen (A, t) T'
  | [], _, _, _, hm => by simp at hm
  | r :: rest, T, T', h, hm => by
    unfold tableRules at h
    obtain ⟨ss, hss, h⟩ := exc_bind_ok h
    by_cases e : a = r
    · subst e
      obtain ⟨ss', hss', ht⟩ := ha
      rw [hss] at hss'
      simp only [Except.ok.injEq] at hss'
      subst hss'
      exact Nat.le_trans (foldl_dlen_mem A a t ss T ht) (tableRules_dlen_le A (A, t) rest _ T' h)
    · have hm' : a ∈ rest := by
        rcases List.mem_cons.1 hm with hm | hm
        · exact absurd hm e
        · exact hm
      exact Nat.le_trans (Nat.add_le_add_right (foldl_dlen_le A r (A, t) ss T) 1)
        (tableRules_dlen_mem A t ha rest _ T' h hm')

theorem tableRules_dlen_two {terms nulls : List σ} {first follow : SetMap σ} (A : σ) (t : σ)
    {a b : Rule σ} (ha : Pred terms nulls first follow A a t) (hb : Pred terms nulls first follow A b t) :
    ∀ (rs : List (Rule σ)) (T T' : Table σ), tableRules terms nulls first follow A rs T = .ok T' →
    [a, b].Sublist rs → 2 ≤ dlen (A, t) T'
  | [], _, _, _, hs => by simp at hs
  | r :: rest, T, T', h, hs => by
    unfold tableRules at h
    obtain ⟨ss, hss, h⟩ := exc_bind_ok h
    cases hs with
    | cons _ hs' => exact tableRules_dlen_two A t ha hb rest _ T' h hs'
    | cons_cons _ hs' =>
      have hbm : b ∈ rest := by simpa using hs'
      obtain ⟨ss', hss', ht⟩ := ha
      rw [hss] at hss'
      simp only [Except.ok.injEq] at hss'
      subst hss'
      have h1 := foldl_dlen_mem A a t ss T ht
      have h2 := tableRules_dlen_mem A t hb rest _ T' h hbm
      exact Nat.le_trans
        (Nat.add_le_add_right (Nat.le_trans (Nat.le_add_left 1 _) h1) 1) h2

theorem tableFill_dlen_le {terms nulls : List σ} {first follow : SetMap σ} (k : σ × σ) :
    ∀ (G : Prods σ) (T T' : Table σ), tableFill terms nulls first follow G T = .ok T' →
    dlen k T ≤ dlen k T'
  | [], T, T', h => by
    simp only [tableFill, Except.ok.injEq] at h
    subst h; exact Nat.le_refl _
  | (A, rules) :: rest, T, T', h => by
    unfold tableFill at h
    obtain ⟨T1, h1, h⟩ := exc_bind_ok h
    exact Nat.le_trans (tableRules_dlen_le A k rules T T1 h1) (tableFill_dlen_le k rest T1 T' h)

theorem tableFill_dlen_two {terms nulls : List σ} {first follow : SetMap σ} (A : σ) (t : σ)
    {a b : Rule σ} (ha : Pred terms nulls first follow A a t) (hb : Pred terms nulls first follow A b t)
    {rules : List (Rule σ)} (hs : [a, b].Sublist rules) :
    ∀ (G : Prods σ) (T T' : Table σ), tableFill terms nulls first follow G T = .ok T' →
    (A, rules) ∈ G → 2 ≤ dlen (A, t) T'
  | [], _, _, _, hm => by simp at hm
  | (A0, rs0) :: rest, T, T', h, hm => by
    unfold tableFill at h
    obtain ⟨T1, h1, h2⟩ := exc_bind_ok h
    rcases List.mem_cons.1 hm with e | hm
    · cases e
      exact Nat.le_trans (tableRules_dlen_two A t ha hb rules T T1 h1 hs)
        (tableFill_dlen_le (A, t) rest T1 T' h2)
    · exact tableFill_dlen_two A t ha hb hs rest T1 T' h2 hm

/-- the table is not ambiguous: the rules of every symbol are pairwise predict-disjoint -/
theorem disjoint_of_not_ambiguous {G : Prods σ} {terms nulls : List σ} {first follow : SetMap σ}
    {T : Table σ}
    (hT : mkTable terms nulls first follow G = .ok T) (hamb : isAmbiguous T = false) :
    ∀ A rules, (A, rules) ∈ G → rules.Pairwise (PredDisjoint terms nulls first follow A) := by
  intro A rules hm
  rw [List.pairwise_iff_forall_sublist]
  intro a b hs
  rw [predDisjoint_iff]
  intro t ha hb
  unfold mkTable at hT
  obtain ⟨T0, h0, hT⟩ := exc_bind_ok hT
  simp only [Except.ok.injEq] at hT
  have h2 := tableFill_dlen_two A t ha hb hs G [] T0 h0 hm
  obtain ⟨l0, hl0, hlen0⟩ := dget_of_dlen_pos (n := 1) h2
  have hget : dget (A, t) T = some (sortRules l0) := by
    rw [← hT, dget_map_val, hl0]; rfl
  have hlen := isAmbiguous_false hamb _ _ hget
  rw [sortRules_length] at hlen
  omega

/-- for a dictionary with duplicate-free keys: the built table is conflict-free exactly when the
rules of every symbol are pairwise predict-disjoint (the LL(1) condition on what was computed) -/
theorem not_ambiguous_iff_disjoint {G : Prods σ} {terms nulls : List σ} {first follow : SetMap σ}
    {T : Table σ}
    (hnd : (G.map (·.1)).Nodup) (hT : mkTable terms nulls first follow G = .ok T) :
    isAmbiguous T = false ↔
      ∀ A rules, (A, rules) ∈ G → rules.Pairwise (PredDisjoint terms nulls first follow A) :=
  ⟨disjoint_of_not_ambiguous hT, not_ambiguous_of_disjoint hnd hT⟩

end LL
