import AkVerif.Lemmas.GhistPar
import AkVerif.Lemmas.GhistInBump
import AkVerif.Lemmas.GhistBumps
/-!
Component side of C07: in the report graph of a repository, `RbAnc` (reachability through parent builds) between
two builds of the same branch is git ancestry between their commits.
-/
namespace Ghist
open Ak

section
variable {π β : Type} {h : Hist π}

/-! ### ids of pseudo builds -/

theorem finish_fakeCounter {pl : Plug π β} {head : Nat} {st st' : St β} {c : Nat} {cm : Commit π} {fr : List Nat}
    {rel : List Nat} (hf : finish pl head rel st c cm fr = .ok st') : st'.rp.fakeCounter = st.rp.fakeCounter := by
  cases finish_cases hf with
  | irrelevant => rfl
  | plain => simp only [Repo.addPlain]; split <;> rfl
  | plainMatch => rfl
  | skip bpar new pb pbs bumps => simp only [St.skipBuild, Repo.addPlain]; split <;> rfl
  | build bpar new pb pbs bumps bn na => rfl

theorem visit_fakeCounter (hT : h.Topo) {pl : Plug π β} {head : Nat} {fuel : Nat} {s s' : St β}
    {acc acc' : List Nat} {c : Nat} {rel : List Nat} (hv : visit h pl head fuel rel (s, acc) c = .ok (s', acc')) :
    s'.rp.fakeCounter = s.rp.fakeCounter := by
  have H : VisitHyps h pl head (fun _ => True) (fun _ _ _ => True)
      (fun s s' => s'.rp.fakeCounter = s.rp.fakeCounter) (fun _ => True) :=
    { Rrefl := fun _ => rfl, Rtrans := fun h1 h2 => h2.trans h1
      Qmono := fun _ _ _ _ => trivial, Qnil := fun _ _ => trivial, Qcls := fun _ _ _ _ => trivial
      Vstep := fun _ _ _ => trivial
      Hfin := fun _ _ _ _ _ hf => ⟨trivial, finish_fakeCounter hf⟩ }
  exact (visit_ind hT H fuel s [] acc c s' acc' trivial trivial trivial hv).2.2

theorem endBranch_fake {pl : Plug π β} {first : Bool} {b : Branch} {st : St β} {rheads : List Nat}
    {rp' : Repo β} {rb : RBranch β} (he : endBranch pl first b st rheads = .ok (rp', rb))
    (hn : ∀ x ∈ st.rp.builds, x.rcommit = some x.iid) :
    (∀ bd ∈ rb.rbuilds, bd.rcommit = none → bd.iid = st.rp.fakeCounter) ∧ st.rp.fakeCounter ≤ rp'.fakeCounter := by
  unfold endBranch at he
  split at he
  · cases he
  · rename_i seen hseen
    simp only at he
    generalize (if first = true then [] else notMerged seen 0 st.rp.rcs) = nm at he
    split at he
    · cases he
    · rename_i curBuilds hcb
      have hcur : ∀ x ∈ curBuilds, x.rcommit ≠ none := by
        intro x hx hnone
        have := hn x ((buildsOf_spec hcb).2 x hx)
        rw [hnone] at this; cases this
      split at he
      · cases he
      · rename_i pend hpend
        by_cases hfake : (!nm.isEmpty || !pl.isEmpty pend) = true
        · rw [if_pos hfake] at he
          cases he
          refine ⟨?_, Nat.le_succ _⟩
          intro bd hbd hnone
          rcases List.mem_append.mp hbd with h1 | h1
          · exact absurd hnone (hcur bd h1)
          · simp at h1; subst h1; rfl
        · rw [if_neg hfake] at he
          cases he
          refine ⟨?_, Nat.le_refl _⟩
          intro bd hbd hnone
          exact absurd hnone (hcur bd hbd)

/-- pseudo builds have ids from `_brcommits_counter` on -/
theorem rgraph_fakes (hT : h.Topo) {pl : Plug π β} {g : Graph β} {mt : Option Nat} (hg : rgraphNW h pl mt = .ok g) :
    ∀ rb ∈ g.all, ∀ bd ∈ rb.rbuilds, bd.rcommit = none → Gen.Ghist.fakeStart ≤ bd.iid := by
  unfold rgraphNW at hg
  split at hg
  · cases hg
  · rename_i rp rbs hr
    cases hg
    have hstep : ∀ (pre : List Branch) (rp : Repo β) (b : Branch) (rp' : Repo β) (rb : RBranch β),
        (RepoInv h pre rp ∧ Gen.Ghist.fakeStart ≤ rp.fakeCounter) →
        readBranch h pl pre.isEmpty rp b = .ok (rp', rb) →
        (RepoInv h (pre ++ [b]) rp' ∧ Gen.Ghist.fakeStart ≤ rp'.fakeCounter) ∧
          (∀ bd ∈ rb.rbuilds, bd.rcommit = none → Gen.Ghist.fakeStart ≤ bd.iid) := by
      intro pre rp b rp' rb ⟨inv, hfc⟩ hrb
      obtain ⟨h1, _, _⟩ := readBranch_sem hT inv hrb
      obtain ⟨hc0, st, rheads, hhc0, hv, he⟩ := readBranch_inv hrb
      have hfc1 := visit_fakeCounter hT hv
      have hn := visit_buildsNormal hT inv.normal hv
      obtain ⟨h2, h3⟩ := endBranch_fake he hn
      refine ⟨⟨h1, ?_⟩, ?_⟩
      · have : st.rp.fakeCounter = rp.fakeCounter := hfc1
        omega
      · intro bd hbd hnone
        rw [h2 bd hbd hnone, hfc1]; exact hfc
    obtain ⟨_, hlen, hF⟩ := readBranches_ind (fun pre rp => RepoInv h pre rp ∧ Gen.Ghist.fakeStart ≤ rp.fakeCounter)
      (fun _ _ rb => ∀ bd ∈ rb.rbuilds, bd.rcommit = none → Gen.Ghist.fakeStart ≤ bd.iid) hstep
      (branchesOf h) [] Repo.empty rp rbs ⟨repoInv_empty, by simp [Repo.empty]⟩ hr
    intro rb hrb
    obtain ⟨j, hj⟩ := List.mem_iff_getElem?.mp hrb
    have hjlt : j < (branchesOf h).length := by
      rw [← hlen]; exact (List.getElem?_eq_some_iff.mp hj).1
    exact hF j _ rb (List.getElem?_eq_getElem hjlt) hj

/-- below a commit `e`, every build of the branch lies below a nearest one -/
theorem exists_nearest (hT : h.Topo) {rcs : List RC} {rb : RBranch β} (e : Nat) :
    ∀ (k : Nat) (bq : RB β) (eq : Nat), bq ∈ rb.rbuilds → BuildAt rcs bq eq → eq ≠ e → Anc h eq e →
      e - eq ≤ k → ∃ bm ∈ rb.rbuilds, ∃ em, BuildAt rcs bm em ∧ em ≠ e ∧ Anc h em e ∧ Anc h eq em ∧
        ∀ br ∈ rb.rbuilds, ∀ er, BuildAt rcs br er → er ≠ em → er ≠ e → Anc h er e → ¬ Anc h em er := by
  intro k
  induction k with
  | zero =>
    intro bq eq _ _ hqe hqa hk
    have := hqa.le hT
    exact absurd (by omega) hqe
  | succ k ih =>
    intro bq eq hbq hbeq hqe hqa hk
    classical
    by_cases hmax : ∀ br ∈ rb.rbuilds, ∀ er, BuildAt rcs br er → er ≠ eq → er ≠ e → Anc h er e → ¬ Anc h eq er
    · exact ⟨bq, hbq, eq, hbeq, hqe, hqa, .refl _, hmax⟩
    · have : ∃ br ∈ rb.rbuilds, ∃ er, BuildAt rcs br er ∧ er ≠ eq ∧ er ≠ e ∧ Anc h er e ∧ Anc h eq er := by
        apply Classical.byContradiction
        intro hno
        apply hmax
        intro br hbr er hber h5 h6 h7 h8
        exact hno ⟨br, hbr, er, hber, h5, h6, h7, h8⟩
      obtain ⟨br, hbr, er, hber, h5, h6, h7, h8⟩ := this
      have hlt : eq < er := by
        have := h8.le hT
        rcases Nat.lt_or_ge eq er with h9 | h9
        · exact h9
        · exact absurd (by omega) h5
      have hle := h7.le hT
      obtain ⟨bm, hbm, em, h10, h11, h12, h13, h14⟩ := ih br er hbr hber h6 h7 (by omega)
      exact ⟨bm, hbm, em, h10, h11, h12, h8.trans h13, h14⟩

/-- `findBuild` finds the build with a build commit that carries the id -/
theorem findBuild_normal (hT : h.Topo) {pl : Plug π β} {g : Graph β} {mt : Option Nat} (hg : rgraphNW h pl mt = .ok g)
    (hlen : g.rcs.length ≤ Gen.Ghist.fakeStart) {rb : RBranch β} (hrb : rb ∈ g.all) {bd : RB β}
    (hbd : bd ∈ rb.rbuilds) (hn : bd.rcommit = some bd.iid) : g.findBuild bd.iid = some bd := by
  have hfacts := rgraph_facts hT hg
  have hbok := rgraph_bumpsOk hT (RelInv.trivial h pl) hg
  have hfk := rgraph_fakes hT hg
  obtain ⟨hl, hsem⟩ := rgraph_sem hT hg
  have hlt : ∀ rb' ∈ g.all, ∀ b' ∈ rb'.rbuilds, b'.rcommit.isSome = true → b'.iid < g.rcs.length := by
    intro rb' hrb' b' hb' hs
    obtain ⟨j, hj⟩ := List.mem_iff_getElem?.mp hrb'
    have hjlt : j < (branchesOf h).length := by
      rw [← hl]; exact (List.getElem?_eq_some_iff.mp hj).1
    exact ((hsem j _ rb' (List.getElem?_eq_getElem hjlt) hj).1.bound b' hb').2 hs
  unfold Graph.findBuild
  cases hf : (g.all.flatMap (·.rbuilds)).find? (fun b => b.iid == bd.iid) with
  | none =>
    exfalso
    have := List.find?_eq_none.mp hf bd (List.mem_flatMap.mpr ⟨rb, hrb, hbd⟩)
    simp at this
  | some b' =>
    have hmem := List.mem_of_find?_eq_some hf
    have hiid : b'.iid = bd.iid := by simpa using List.find?_some hf
    obtain ⟨rb', hrb', hb'⟩ := List.mem_flatMap.mp hmem
    have hbdlt := hlt rb hrb bd hbd (by rw [hn]; rfl)
    have hsome : b'.rcommit.isSome = true := by
      cases hc : b'.rcommit with
      | some _ => rfl
      | none =>
        have := hfk rb' hrb' b' hb' hc
        omega
    have h1 : b' ∈ g.builds := hbok.2 rb' hrb' b' hb' hsome
    have h2 : bd ∈ g.builds := hbok.2 rb hrb bd hbd (by rw [hn]; rfl)
    have e1 := build?_of_mem (rp := { (Repo.empty : Repo β) with builds := g.builds }) hfacts.bldInc h1
    have e2 := build?_of_mem (rp := { (Repo.empty : Repo β) with builds := g.builds }) hfacts.bldInc h2
    rw [hiid, e2] at e1
    rw [Option.some.inj e1]

/-- reachability through parent builds between two builds of one branch is git ancestry between their commits -/
theorem rbAnc_iff_anc (hT : h.Topo) {pl : Plug π β} {g : Graph β} {mt : Option Nat} (hg : rgraphNW h pl mt = .ok g)
    (hlen : g.rcs.length ≤ Gen.Ghist.fakeStart) {rb : RBranch β} (hrb : rb ∈ g.all) :
    ∀ (et : Nat) (bx bt : RB β) (ex : Nat), bx ∈ rb.rbuilds → bt ∈ rb.rbuilds → BuildAt g.rcs bx ex →
      BuildAt g.rcs bt et → (RbAnc g bx.iid bt.iid ↔ Anc h ex et) := by
  have hpar := rgraph_par hT hg rb hrb
  have hfacts := rgraph_facts hT hg
  have hfind : ∀ bd ∈ rb.rbuilds, ∀ e, BuildAt g.rcs bd e → g.findBuild bd.iid = some bd :=
    fun bd hbd e he => findBuild_normal hT hg hlen hrb hbd he.1
  intro et
  induction et using Nat.strongRecOn with
  | _ et ih =>
    intro bx bt ex hbx hbt hex het
    constructor
    · intro hr
      -- peel the first step of the path from `bt`
      unfold RbAnc at hr
      generalize hxi : bx.iid = x at hr
      generalize hti : bt.iid = t at hr
      cases hr with
      | refl _ hfb =>
        obtain ⟨_, rcx, h1, h2⟩ := hex
        obtain ⟨_, rct, h3, h4⟩ := het
        rw [hxi] at h1; rw [hti] at h3
        rw [h1] at h3; cases h3
        rw [← h2, ← h4]; exact .refl _
      | step _ hfb hp hrest =>
        rw [← hti, hfind bt hbt et het] at hfb; cases hfb
        obtain ⟨bp, hbp, hbpi, ep, hbep, hne, hanc, _⟩ := ((hpar bt hbt et het).2 _).mp hp
        have hlt : ep < et := by
          have := hanc.le hT
          rcases Nat.lt_or_ge ep et with h5 | h5
          · exact h5
          · exact absurd (by omega) hne
        rw [← hbpi, ← hxi] at hrest
        exact ((ih ep hlt bx bp ex hbx hbp hex hbep).mp hrest).trans hanc
    · intro hanc
      by_cases hxe : ex = et
      · -- the same commit: the same build
        obtain ⟨hn1, rcx, h1, h2⟩ := hex
        obtain ⟨hn2, rct, h3, h4⟩ := het
        have : bx.iid = bt.iid := hfacts.rcInj _ _ rcx rct h1 h3 (by rw [h2, h4, hxe])
        rw [this]
        exact .refl (by simp) (hfind bt hbt et ⟨hn2, rct, h3, h4⟩)
      · obtain ⟨bm, hbm, em, hbem, hme, hma, hxm, hmax⟩ :=
          exists_nearest hT et (et - ex) bx ex hbx hex hxe hanc (Nat.le_refl _)
        have hmpar : bm.iid ∈ bt.parents := ((hpar bt hbt et het).2 bm.iid).mpr ⟨bm, hbm, rfl, em, hbem, hme, hma, hmax⟩
        have hlt : em < et := by
          have := hma.le hT
          rcases Nat.lt_or_ge em et with h5 | h5
          · exact h5
          · exact absurd (by omega) hme
        have := (ih em hlt bx bm ex hbx hbm hex hbem).mpr hxm
        exact .step (by simp) (hfind bt hbt et het) hmpar this

end

end Ghist
