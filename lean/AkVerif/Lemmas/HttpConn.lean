import AkVerif.Model.HttpConn
/-!
Lemmas about one request (no heap): what a list of adapters does to the path and to the headers,
and what `urllib.request.Request`'s header normalisation keeps.
-/
namespace HttpConn
open Ak

/-! ## dictionaries -/

theorem dget_dset_same (d : Dict) (k : Str) (v : HVal) : dget (dset d k v) k = some v := by
  induction d with
  | nil => simp [dset, dget]
  | cons kv r ih =>
    obtain ⟨k', v'⟩ := kv
    by_cases h : k' = k <;> simp [dset, dget, h, ih]

theorem dget_dset_ne (d : Dict) {k k' : Str} (v : HVal) (h : k ≠ k') : dget (dset d k v) k' = dget d k' := by
  induction d with
  | nil => simp [dset, dget, h]
  | cons kv r ih =>
    obtain ⟨k0, v0⟩ := kv
    by_cases h0 : k0 = k
    · subst h0; simp [dset, dget, h]
    · by_cases h1 : k0 = k'
      · subst h1; simp [dset, dget, h0]
      · simp [dset, dget, h0, h1, ih]

theorem dhas_eq_isSome (d : Dict) (k : Str) : dhas d k = (dget d k).isSome := by
  induction d with
  | nil => simp [dhas, dget]
  | cons kv r ih =>
    obtain ⟨k0, v0⟩ := kv
    by_cases h0 : k0 = k
    · simp [dhas, dget, h0]
    · simp only [dhas] at ih
      simp [dhas, dget, h0, ih]

theorem dhas_false_iff (d : Dict) (k : Str) : dhas d k = false ↔ dget d k = none := by
  rw [dhas_eq_isSome]; cases dget d k <;> simp

def keys (d : Dict) : List Str := d.map (·.1)

theorem keys_dset (d : Dict) (k : Str) (v : HVal) :
    keys (dset d k v) = if k ∈ keys d then keys d else keys d ++ [k] := by
  induction d with
  | nil => simp [dset, keys]
  | cons kv r ih =>
    obtain ⟨k0, v0⟩ := kv
    simp only [keys] at ih
    by_cases h0 : k0 = k
    · subst h0; simp [dset, keys]
    · have h0' : ¬ k = k0 := fun h => h0 h.symm
      simp only [dset, h0, keys, if_false, List.map_cons, List.mem_cons, h0', false_or]
      rw [ih]
      split <;> simp [*]

theorem keys_nodup_dset (d : Dict) (k : Str) (v : HVal) (h : (keys d).Nodup) : (keys (dset d k v)).Nodup := by
  rw [keys_dset]
  split
  · exact h
  · rename_i hk
    rw [List.nodup_append]
    refine ⟨h, by simp, ?_⟩
    intro a ha b hb
    simp at hb; subst hb
    intro hab; subst hab; exact hk ha

theorem mem_keys_of_dget {d : Dict} {k : Str} {v : HVal} (h : dget d k = some v) : k ∈ keys d := by
  induction d with
  | nil => simp [dget] at h
  | cons kv r ih =>
    obtain ⟨k0, v0⟩ := kv
    by_cases h0 : k0 = k
    · simp [keys, h0]
    · simp only [dget, h0, if_false] at h
      have := ih h
      simp only [keys] at this
      simp [keys, this]

/-- a name occurs at most once among keys without repetition -/
theorem count_key_le_one {d : Dict} (h : (keys d).Nodup) (k : Str) : (d.filter (·.1 = k)).length ≤ 1 := by
  induction d with
  | nil => simp
  | cons kv r ih =>
    obtain ⟨k0, v0⟩ := kv
    simp only [keys, List.map_cons, List.nodup_cons] at h
    have ih' := ih h.2
    by_cases h0 : k0 = k
    · subst h0
      have : r.filter (·.1 = k0) = [] := by
        rw [List.filter_eq_nil_iff]
        intro a ha hk
        simp at hk
        exact h.1 (by rw [← hk]; exact List.mem_map_of_mem ha)
      simp [this]
    · simp [h0]; exact ih'

theorem mem_of_dget {d : Dict} {k : Str} {v : HVal} (h : dget d k = some v) : (k, v) ∈ d := by
  induction d with
  | nil => simp [dget] at h
  | cons kv r ih =>
    obtain ⟨k0, v0⟩ := kv
    by_cases h0 : k0 = k
    · simp only [dget, h0, if_true] at h
      cases h; simp [h0]
    · simp only [dget, h0, if_false] at h
      exact List.mem_cons_of_mem _ (ih h)

theorem count_key_eq_one {d : Dict} (h : (keys d).Nodup) {k : Str} {v : HVal} (hv : dget d k = some v) :
    (d.filter (·.1 = k)).length = 1 := by
  have h1 := count_key_le_one h k
  have hm : (k, v) ∈ d.filter (·.1 = k) := by
    rw [List.mem_filter]; exact ⟨mem_of_dget hv, by simp⟩
  have := List.length_pos_of_mem hm
  omega

/-! ## `Request` header normalisation -/

/-- the value that survives `capitalize`-collapse under name `K`: the one of the last key that
capitalises to `K` -/
def lastCap : Dict → Str → Option HVal
  | [], _ => none
  | (k, v) :: r, K =>
    match lastCap r K with
    | some w => some w
    | none => if capitalize k = K then some v else none

theorem dget_foldl_normalize (d acc : Dict) (K : Str) :
    dget (d.foldl (fun acc kv => dset acc (capitalize kv.1) kv.2) acc) K =
      match lastCap d K with
      | some w => some w
      | none => dget acc K := by
  induction d generalizing acc with
  | nil => simp [lastCap]
  | cons kv r ih =>
    obtain ⟨k, v⟩ := kv
    simp only [List.foldl_cons, lastCap]
    rw [ih]
    cases lastCap r K with
    | some w => rfl
    | none =>
      simp only []
      by_cases h : capitalize k = K
      · subst h; simp [dget_dset_same]
      · simp [h, dget_dset_ne _ _ h]

theorem dget_normalize (d : Dict) (K : Str) : dget (normalize d) K = lastCap d K := by
  unfold normalize
  rw [dget_foldl_normalize]
  cases lastCap d K <;> simp [dget]

theorem keys_nodup_foldl_normalize (d acc : Dict) (h : (keys acc).Nodup) :
    (keys (d.foldl (fun acc kv => dset acc (capitalize kv.1) kv.2) acc)).Nodup := by
  induction d generalizing acc with
  | nil => exact h
  | cons kv r ih => exact ih _ (keys_nodup_dset _ _ _ h)

/-- `Request.headers` never has two entries of one name -/
theorem keys_nodup_normalize (d : Dict) : (keys (normalize d)).Nodup :=
  keys_nodup_foldl_normalize d [] (by simp [keys])

theorem lastCap_dset_other (d : Dict) {k K : Str} (v : HVal) (h : capitalize k ≠ K) :
    lastCap (dset d k v) K = lastCap d K := by
  induction d with
  | nil => simp [dset, lastCap, h]
  | cons kv r ih =>
    obtain ⟨k0, v0⟩ := kv
    by_cases h0 : k0 = k
    · subst h0; simp [dset, lastCap, h]
    · simp [dset, h0, lastCap, ih]

theorem lastCap_dset_new (d : Dict) {k K : Str} (v : HVal) (hn : dget d k = none) (h : capitalize k = K) :
    lastCap (dset d k v) K = some v := by
  induction d with
  | nil => simp [dset, lastCap, h]
  | cons kv r ih =>
    obtain ⟨k0, v0⟩ := kv
    by_cases h0 : k0 = k
    · simp [dget, h0] at hn
    · simp only [dget, h0, if_false] at hn
      simp [dset, h0, lastCap, ih hn]

/-! ## adapters -/

theorem applyAll_append (a b : List Adapter) (ra : RA) :
    applyAll (a ++ b) ra = match applyAll a ra with
      | .ok ra' => applyAll b ra'
      | .error e => .error e := by
  induction a generalizing ra with
  | nil => simp [applyAll]
  | cons x xs ih =>
    simp only [List.cons_append, applyAll]
    cases applyReq x ra with
    | ok ra' => simp [ih]
    | error e => rfl

def pfxOf : Adapter → Option Str
  | .pfx p => some p
  | _ => none

/-- the prefixes of a chain, in the order of application -/
def prefixesOf (as : List Adapter) : List Str := as.filterMap pfxOf

/-- apply prefixes one after the other: the first is innermost (next to the caller's path) -/
def prefixFold (ps : List Str) (path : Str) : Str := ps.foldl (fun acc p => joinPrefix p acc) path

theorem prefixFold_append (a b : List Str) (path : Str) :
    prefixFold (a ++ b) path = prefixFold b (prefixFold a path) := by
  simp [prefixFold]

theorem applyReq_path {a : Adapter} {ra ra' : RA} (h : applyReq a ra = .ok ra') :
    ra'.path = match pfxOf a with
      | some p => joinPrefix p ra.path
      | none => ra.path := by
  cases a with
  | pfx p => simp [applyReq] at h; subst h; rfl
  | auth k hd =>
    simp only [applyReq] at h
    split at h
    · cases h
    · cases h; rfl
  | trace t =>
    simp only [applyReq] at h
    split at h <;> first | (cases h; rfl) | cases h
  | unwrap _ | count | compact | nullify | addParam _ _ | wrapData _ | nested _ _ _ _ => cases h; rfl
  | boom b => cases b <;> cases h; rfl

theorem applyAll_path {as : List Adapter} {ra ra' : RA} (h : applyAll as ra = .ok ra') :
    ra'.path = prefixFold (prefixesOf as) ra.path := by
  induction as generalizing ra with
  | nil => simp [applyAll] at h; subst h; rfl
  | cons a as ih =>
    simp only [applyAll] at h
    cases h1 : applyReq a ra with
    | error e => rw [h1] at h; cases h
    | ok r1 =>
      rw [h1] at h
      rw [ih h, applyReq_path h1]
      cases hp : pfxOf a <;> simp [prefixesOf, hp, prefixFold]

theorem joinPrefix_isPrefix (p path : Str) : p <+: joinPrefix p path := by
  unfold joinPrefix
  split
  · split <;> exact List.prefix_append _ _
  · exact List.prefix_append _ _

theorem joinPrefix_plain (p path : Str) (h : ¬ (endsWithSlash p = true ∧ startsWithSlash path = true)) :
    joinPrefix p path = p ++ path := by
  unfold joinPrefix
  split
  · rename_i r
    split
    · rename_i he; exact absurd ⟨he, rfl⟩ h
    · rfl
  · rfl

theorem joinPrefix_slash (p r : Str) (h : endsWithSlash p = true) : joinPrefix p ('/' :: r) = p ++ r := by
  simp [joinPrefix, h]

/-! ### headers -/

def authHdrOf : Adapter → Option HVal
  | .auth _ h => some h
  | _ => none

/-- the header values of the authenticating adapters of a chain -/
def authHdrs (as : List Adapter) : List HVal := as.filterMap authHdrOf

def traceTags (as : List Adapter) : List Str := as.filterMap traceTag

theorem xtrace_ne_auth : xtrace ≠ Gen.C17.authHeader := by decide

/-- the tracing header holds text (or is absent): true for every copy of caller headers -/
def TraceOk (d : Dict) : Prop := dget d xtrace = none ∨ ∃ s, dget d xtrace = some (.str s)

theorem applyReq_other {a : Adapter} {ra ra' : RA} (h : applyReq a ra = .ok ra') {k : Str}
    (h1 : k ≠ Gen.C17.authHeader) (h2 : k ≠ xtrace) : dget ra'.headers k = dget ra.headers k := by
  cases a with
  | pfx p => simp [applyReq] at h; subst h; rfl
  | auth kd hd =>
    simp only [applyReq] at h
    split at h
    · cases h
    · cases h; exact dget_dset_ne _ _ (Ne.symm h1)
  | trace t =>
    simp only [applyReq] at h
    split at h <;> first | (cases h; exact dget_dset_ne _ _ (Ne.symm h2)) | cases h
  | unwrap _ | count | compact | nullify | addParam _ _ | wrapData _ | nested _ _ _ _ => cases h; rfl
  | boom b => cases b <;> cases h; rfl

/-- headers other than `Authorization` and the harness's trace header are not touched by a chain -/
theorem applyAll_other {as : List Adapter} {ra ra' : RA} (h : applyAll as ra = .ok ra') {k : Str}
    (h1 : k ≠ Gen.C17.authHeader) (h2 : k ≠ xtrace) : dget ra'.headers k = dget ra.headers k := by
  induction as generalizing ra with
  | nil => simp [applyAll] at h; subst h; rfl
  | cons a as ih =>
    simp only [applyAll] at h
    cases hr : applyReq a ra with
    | error e => rw [hr] at h; cases h
    | ok r1 => rw [hr] at h; rw [ih h, applyReq_other hr h1 h2]

/-- the invariant that makes the `Authorization` entry the one `Request` keeps -/
def AuthLast (d : Dict) : Prop :=
  ∀ h, dget d Gen.C17.authHeader = some h → lastCap d Gen.C17.authHeader = some h

theorem cap_xtrace_ne_auth : capitalize xtrace ≠ Gen.C17.authHeader := by decide
theorem cap_auth : capitalize Gen.C17.authHeader = Gen.C17.authHeader := by decide

/-- one adapter: what happens to `Authorization` -/
theorem applyReq_auth {a : Adapter} {ra ra' : RA} (h : applyReq a ra = .ok ra') :
    (authHdrOf a = none ∧ dget ra'.headers Gen.C17.authHeader = dget ra.headers Gen.C17.authHeader ∧
        lastCap ra'.headers Gen.C17.authHeader = lastCap ra.headers Gen.C17.authHeader) ∨
    (∃ hv, authHdrOf a = some hv ∧ dget ra.headers Gen.C17.authHeader = none ∧
        dget ra'.headers Gen.C17.authHeader = some hv ∧ lastCap ra'.headers Gen.C17.authHeader = some hv) := by
  cases a with
  | pfx p => simp [applyReq] at h; subst h; exact Or.inl ⟨rfl, rfl, rfl⟩
  | auth kd hd =>
    simp only [applyReq] at h
    split at h
    · cases h
    · rename_i hh
      cases h
      have hn : dget ra.headers Gen.C17.authHeader = none := by
        rw [← dhas_false_iff]; simpa using hh
      exact Or.inr ⟨hd, rfl, hn, dget_dset_same _ _ _, lastCap_dset_new _ _ hn cap_auth⟩
  | trace t =>
    simp only [applyReq] at h
    split at h <;>
      first
      | (cases h
         exact Or.inl ⟨rfl, dget_dset_ne _ _ xtrace_ne_auth, lastCap_dset_other _ _ cap_xtrace_ne_auth⟩)
      | cases h
  | unwrap _ | count | compact | nullify | addParam _ _ | wrapData _ | nested _ _ _ _ => cases h; exact Or.inl ⟨rfl, rfl, rfl⟩
  | boom b => cases b <;> cases h; exact Or.inl ⟨rfl, rfl, rfl⟩

/-- a chain that is accepted has at most one authenticating adapter; with one, the header is its
value; with none, the header is what the caller passed -/
theorem applyAll_auth {as : List Adapter} {ra ra' : RA} (h : applyAll as ra = .ok ra') :
    (authHdrs as = [] ∧ dget ra'.headers Gen.C17.authHeader = dget ra.headers Gen.C17.authHeader ∧
        lastCap ra'.headers Gen.C17.authHeader = lastCap ra.headers Gen.C17.authHeader) ∨
    (∃ hv, authHdrs as = [hv] ∧ dget ra.headers Gen.C17.authHeader = none ∧
        dget ra'.headers Gen.C17.authHeader = some hv ∧ lastCap ra'.headers Gen.C17.authHeader = some hv) := by
  induction as generalizing ra with
  | nil => simp [applyAll] at h; subst h; exact Or.inl ⟨rfl, rfl, rfl⟩
  | cons a as ih =>
    simp only [applyAll] at h
    cases hr : applyReq a ra with
    | error e => rw [hr] at h; cases h
    | ok r1 =>
      rw [hr] at h
      rcases applyReq_auth hr with ⟨ha, hd, hl⟩ | ⟨hv, ha, hn, hd, hl⟩
      · rcases ih h with ⟨hs, hd', hl'⟩ | ⟨hv', hs, hn', hd', hl'⟩
        · exact Or.inl ⟨by simp [authHdrs, ha] at hs ⊢; exact hs, hd'.trans hd, hl'.trans hl⟩
        · exact Or.inr ⟨hv', by simp [authHdrs, ha] at hs ⊢; exact hs, hd ▸ hn', hd', hl'⟩
      · rcases ih h with ⟨hs, hd', hl'⟩ | ⟨hv', hs, hn', hd', hl'⟩
        · exact Or.inr ⟨hv, by simp [authHdrs, ha] at hs ⊢; exact hs, hn, hd'.trans hd, hl'.trans hl⟩
        · rw [hd] at hn'; cases hn'

theorem TraceOk_applyReq {a : Adapter} {ra ra' : RA} (h : applyReq a ra = .ok ra') (ht : TraceOk ra.headers) :
    TraceOk ra'.headers := by
  cases a with
  | pfx p => simp [applyReq] at h; subst h; exact ht
  | auth kd hd =>
    simp only [applyReq] at h
    split at h
    · cases h
    · cases h
      unfold TraceOk
      simp only []
      rw [dget_dset_ne _ _ (Ne.symm xtrace_ne_auth)]
      exact ht
  | trace t =>
    simp only [applyReq] at h
    split at h <;> first | (cases h; exact Or.inr ⟨_, dget_dset_same _ _ _⟩) | cases h
  | unwrap _ | count | compact | nullify | addParam _ _ | wrapData _ | nested _ _ _ _ => cases h; exact ht
  | boom b => cases b <;> cases h; exact ht

/-- one adapter refuses only for a second `Authorization`, or because it is the refusing adapter -/
theorem applyReq_ok_or {a : Adapter} {ra : RA} (ht : TraceOk ra.headers) :
    (∃ ra', applyReq a ra = .ok ra') ∨
    (applyReq a ra = .error .assertion ∧ (authHdrOf a).isSome ∧ (dget ra.headers Gen.C17.authHeader).isSome) ∨
    (a = .boom true ∧ applyReq a ra = .error .valueError) := by
  cases a with
  | pfx p => exact Or.inl ⟨_, rfl⟩
  | auth kd hd =>
    simp only [applyReq]
    by_cases hh : dhas ra.headers Gen.C17.authHeader = true
    · right; left
      simp [hh, authHdrOf]
      rw [← dhas_eq_isSome]; exact hh
    · left; simp [hh]
  | trace t =>
    left
    simp only [applyReq]
    rcases ht with h | ⟨s, h⟩ <;> rw [h] <;> exact ⟨_, rfl⟩
  | unwrap _ | count | compact | nullify | addParam _ _ | wrapData _ | nested _ _ _ _ => exact Or.inl ⟨_, rfl⟩
  | boom b =>
    cases b
    · exact Or.inl ⟨_, rfl⟩
    · exact Or.inr (Or.inr ⟨rfl, rfl⟩)

/-- progress: a chain with at most one authenticating adapter, and no `Authorization` key of the
caller next to it, is never refused -/
theorem applyAll_accepts (as : List Adapter) (ra : RA) (ht : TraceOk ra.headers)
    (hb : Adapter.boom true ∉ as)
    (h : authHdrs as = [] ∨ (∃ hv, authHdrs as = [hv]) ∧ dget ra.headers Gen.C17.authHeader = none) :
    ∃ ra', applyAll as ra = .ok ra' := by
  induction as generalizing ra with
  | nil => exact ⟨ra, rfl⟩
  | cons a as ih =>
    simp only [applyAll]
    rcases applyReq_ok_or (a := a) ht with ⟨r1, hr⟩ | ⟨_, hs, hd⟩ | ⟨hab, _⟩
    · rw [hr]
      apply ih r1 (TraceOk_applyReq hr ht) (fun hm => hb (List.mem_cons_of_mem _ hm))
      rcases applyReq_auth hr with ⟨ha, hd, _⟩ | ⟨hv, ha, hn, hd, _⟩
      · rcases h with h | ⟨⟨hv, h⟩, hn⟩
        · left; simpa [authHdrs, ha] using h
        · right; exact ⟨⟨hv, by simpa [authHdrs, ha] using h⟩, hd ▸ hn⟩
      · left
        rcases h with h | ⟨⟨hv', h⟩, _⟩
        · simp [authHdrs, ha] at h
        · have h' : hv :: authHdrs as = [hv'] := by simpa [authHdrs, ha] using h
          exact (List.cons.inj h').2
    · exfalso
      cases ha : authHdrOf a with
      | none => simp [ha] at hs
      | some hv =>
        rcases h with h | ⟨_, hn⟩
        · simp [authHdrs, ha] at h
        · simp [hn] at hd
    · exact absurd (hab ▸ List.mem_cons_self) hb

/-- two authenticating layers (and no refusing adapter): the request is refused with `AssertionError` -/
theorem applyAll_two_auth (as : List Adapter) (ra : RA) (ht : TraceOk ra.headers)
    (hb : Adapter.boom true ∉ as) (h : 2 ≤ (authHdrs as).length) : applyAll as ra = .error .assertion := by
  cases hr : applyAll as ra with
  | ok ra' =>
    rcases applyAll_auth hr with ⟨hs, _⟩ | ⟨hv, hs, _⟩ <;> simp [hs] at h
  | error e =>
    clear h
    induction as generalizing ra with
    | nil => simp [applyAll] at hr
    | cons a as ih =>
      simp only [applyAll] at hr
      rcases applyReq_ok_or (a := a) ht with ⟨r1, h1⟩ | ⟨h1, _⟩ | ⟨hab, _⟩
      · rw [h1] at hr
        exact ih r1 (TraceOk_applyReq h1 ht) (fun hm => hb (List.mem_cons_of_mem _ hm)) hr
      · rw [h1] at hr; cases hr; rfl
      · exact absurd (hab ▸ List.mem_cons_self) hb

/-- a chain with the refusing adapter never lets a request through; whatever it raises is an
adapter's exception, never an error invented by the loop -/
theorem applyAll_boom (as : List Adapter) (ra : RA) (hb : Adapter.boom true ∈ as) :
    ∃ e, applyAll as ra = .error e := by
  induction as generalizing ra with
  | nil => cases hb
  | cons a as ih =>
    simp only [applyAll]
    cases hr : applyReq a ra with
    | error e => exact ⟨e, rfl⟩
    | ok r1 =>
      rcases List.mem_cons.mp hb with h | h
      · subst h; cases hr
      · exact ih r1 h

/-- the tracing header after a chain: the text that was there, then the tags in list order -/
theorem applyAll_trace {as : List Adapter} {ra ra' : RA} (h : applyAll as ra = .ok ra') :
    (∀ s, dget ra.headers xtrace = some (.str s) →
        dget ra'.headers xtrace = some (.str (s ++ (traceTags as).flatten))) ∧
    (dget ra.headers xtrace = none →
        (traceTags as = [] ∧ dget ra'.headers xtrace = none) ∨
        (traceTags as ≠ [] ∧ dget ra'.headers xtrace = some (.str (traceTags as).flatten))) := by
  induction as generalizing ra with
  | nil => simp [applyAll] at h; subst h; simp [traceTags]
  | cons a as ih =>
    simp only [applyAll] at h
    cases hr : applyReq a ra with
    | error e => rw [hr] at h; cases h
    | ok r1 =>
      rw [hr] at h
      obtain ⟨ih1, ih2⟩ := ih h
      cases a with
      | pfx p =>
        simp [applyReq] at hr; subst hr
        rw [show traceTags (.pfx p :: as) = traceTags as from rfl]
        exact ⟨ih1, ih2⟩
      | auth kd hd =>
        simp only [applyReq] at hr
        split at hr
        · cases hr
        · cases hr
          simp only [] at ih1 ih2
          rw [dget_dset_ne _ _ (Ne.symm xtrace_ne_auth)] at ih1 ih2
          rw [show traceTags (.auth kd hd :: as) = traceTags as from rfl]
          exact ⟨ih1, ih2⟩
      | trace t =>
        simp only [applyReq] at hr
        split at hr
        · rename_i hn
          cases hr
          simp only [] at ih1
          rw [dget_dset_same] at ih1
          rw [show traceTags (.trace t :: as) = t :: traceTags as from rfl]
          refine ⟨fun s hs => (by rw [hn] at hs; cases hs), fun _ => Or.inr ⟨by simp, ?_⟩⟩
          simpa using ih1 t rfl
        · rename_i s hs
          cases hr
          simp only [] at ih1
          rw [dget_dset_same] at ih1
          rw [show traceTags (.trace t :: as) = t :: traceTags as from rfl]
          refine ⟨fun s' hs' => ?_, fun hn => (by rw [hn] at hs; cases hs)⟩
          rw [hs] at hs'; cases hs'
          simpa [List.append_assoc] using ih1 (s ++ t) rfl
        · cases hr
      | unwrap _ | count | compact | nullify | addParam _ _ | wrapData _ | nested _ _ _ _ =>
        cases hr
        exact ⟨ih1, ih2⟩
      | boom b =>
        cases b <;> cases hr
        exact ⟨ih1, ih2⟩

/-! ### response processors -/

/-- the adapters of the repository (prefix, auth) return the response as it is -/
theorem procResp_builtin (a : Adapter) (v : J) (h : (pfxOf a).isSome ∨ (authHdrOf a).isSome) :
    procResp a v = .ok v := by
  cases a <;> simp [pfxOf, authHdrOf] at h <;> cases v <;> rfl

theorem respFold_append (a b : List Adapter) (dec0 : J) :
    respFold (a ++ b) dec0 = match respFold b dec0 with
      | .ok v => respFold a v
      | .error e => .error e := by
  induction a with
  | nil => simp [respFold]; cases respFold b dec0 <;> rfl
  | cons x xs ih =>
    simp only [List.cons_append, respFold, ih]
    cases respFold b dec0 with
    | ok v => rfl
    | error e => rfl

theorem respFold_single (a : Adapter) (dec0 : J) : respFold [a] dec0 = procResp a dec0 := rfl

/-- as a fold: the reversed list, each processor once, applied to the decoded response -/
theorem respFold_eq_foldl (as : List Adapter) (dec0 : J) :
    respFold as dec0 = as.reverse.foldl (fun acc a => match acc with
      | .ok v => procResp a v
      | .error e => .error e) (.ok dec0) := by
  induction as with
  | nil => rfl
  | cons a as ih =>
    simp only [respFold, List.reverse_cons, List.foldl_append, List.foldl_cons, List.foldl_nil, ← ih]
    cases respFold as dec0 <;> rfl

/-! ### copies of caller headers -/

/-- the headers argument is absent or a dict of the caller (text values only) -/
def CallerDict (hd : Option Dict) : Prop := ∀ d, hd = some d → ∃ u : UDict, d = ofUDict u

theorem dget_ofUDict_str (u : UDict) (k : Str) :
    dget (ofUDict u) k = none ∨ ∃ s, dget (ofUDict u) k = some (.str s) := by
  induction u with
  | nil => left; rfl
  | cons kv r ih =>
    by_cases h : kv.1 = k
    · right; exact ⟨kv.2, by simp [ofUDict, dget, h]⟩
    · simpa [ofUDict, dget, h] using ih

theorem TraceOk_copyHeaders (hd : Option Dict) (h : CallerDict hd) : TraceOk (copyHeaders hd) := by
  cases hd with
  | none => left; rfl
  | some d =>
    obtain ⟨u, rfl⟩ := h d rfl
    exact dget_ofUDict_str u xtrace

theorem toUDict_ofUDict (u : UDict) : toUDict (ofUDict u) = some u := by
  induction u with
  | nil => rfl
  | cons kv r ih => simp [ofUDict, toUDict, HVal.text] at ih ⊢; simp [ih]

/-! ### from the adapters' result to `Request.headers` -/

theorem cap_id_ne_auth : capitalize Gen.C17.idHeader ≠ Gen.C17.authHeader := by decide
theorem cap_ct_ne_auth : capitalize Gen.C17.ctHeader ≠ Gen.C17.authHeader := by decide

theorem withId_lastCap (s : Bool) (d : Dict) {K : Str} (h : capitalize Gen.C17.idHeader ≠ K) :
    lastCap (withId s d).1 K = lastCap d K := by
  unfold withId
  split
  · exact lastCap_dset_other _ _ h
  · rfl

theorem mkBody_lastCap (data : Body) (d : Dict) {K : Str} (h : capitalize Gen.C17.ctHeader ≠ K) :
    lastCap (mkBody data d).2 K = lastCap d K := by
  cases data with
  | json v =>
    simp only [mkBody]
    split
    · rfl
    · exact lastCap_dset_other _ _ h
  | _ => rfl

/-- a header name that neither the id nor the content type collapses into is sent with the value of
the last caller/adapter key that capitalises to it -/
theorem assemble_header (impl : Impl) (ra : RA) (m : Option Str) (pd : Option UDict) (data : Body)
    (resp : Except Err J) {K : Str} (h1 : capitalize Gen.C17.idHeader ≠ K) (h2 : capitalize Gen.C17.ctHeader ≠ K) :
    dget (assemble impl ra m pd data resp).headers K = lastCap ra.headers K := by
  simp only [assemble]
  rw [dget_normalize, mkBody_lastCap _ _ h2, withId_lastCap _ _ h1]

theorem assemble_keys_nodup (impl : Impl) (ra : RA) (m : Option Str) (pd : Option UDict) (data : Body)
    (resp : Except Err J) : (keys (assemble impl ra m pd data resp).headers).Nodup := by
  simp only [assemble]
  exact keys_nodup_normalize _

/-! ### params objects: association lists, every pair kept -/

theorem toUDict_spec {d : Dict} {u : UDict} (h : toUDict d = some u) :
    u.map (·.1) = d.map (·.1) ∧ u.length = d.length ∧
    ∀ (i : Nat) (k : Str) (v : HVal), d[i]? = some (k, v) → ∃ t, HVal.text v = some t ∧ u[i]? = some (k, t) := by
  induction d generalizing u with
  | nil => simp [toUDict] at h; subst h; simp
  | cons kv r ih =>
    obtain ⟨k0, v0⟩ := kv
    simp only [toUDict] at h
    cases ht : HVal.text v0 with
    | none => simp [ht] at h
    | some t0 =>
      cases hr : toUDict r with
      | none => simp [ht, hr] at h
      | some u' =>
        simp [ht, hr] at h; subst h
        obtain ⟨h1, h2, h3⟩ := ih hr
        refine ⟨by simp [h1], by simp [h2], ?_⟩
        intro i k v hi
        cases i with
        | zero => simp at hi; obtain ⟨rfl, rfl⟩ := hi; exact ⟨t0, ht, by simp⟩
        | succ j => simp at hi; simpa using h3 j k v hi

def pairText (kv : Str × Str) : Str := quotePlus kv.1 ++ '=' :: quotePlus kv.2

theorem urlencode_cons (kv kv' : Str × Str) (r : UDict) :
    urlencode (kv :: kv' :: r) = pairText kv ++ '&' :: urlencode (kv' :: r) := by
  obtain ⟨k, v⟩ := kv
  simp [urlencode, pairText]

theorem urlencode_single (kv : Str × Str) : urlencode [kv] = pairText kv := by
  obtain ⟨k, v⟩ := kv; simp [urlencode, pairText]

/-! ### the metaclass's table of wrappers -/

/-- the value a dict built by successive assignments ends up with: the last one for the key -/
def lookupLast {β} : List (Str × β) → Str → Option β
  | [], _ => none
  | (k, v) :: r, m =>
    match lookupLast r m with
    | some w => some w
    | none => if k = m then some v else none

def firstSome {β} : List (Option β) → Option β
  | [] => none
  | some x :: _ => some x
  | none :: r => firstSome r

theorem lookup_aset {β} (l : List (Str × β)) (k k' : Str) (v : β) :
    lookup (aset l k v) k' = if k = k' then some v else lookup l k' := by
  induction l with
  | nil => simp [aset, lookup]
  | cons kv r ih =>
    obtain ⟨k0, v0⟩ := kv
    by_cases h0 : k0 = k
    · subst h0
      by_cases h1 : k0 = k' <;> simp [aset, lookup, h1]
    · by_cases h1 : k0 = k'
      · subst h1
        have : ¬ k = k0 := fun h => h0 h.symm
        simp [aset, lookup, h0, this]
      · simp [aset, lookup, h0, h1, ih]

theorem lookup_asetAll {β} (acc l : List (Str × β)) (m : Str) :
    lookup (asetAll acc l) m = match lookupLast l m with
      | some v => some v
      | none => lookup acc m := by
  induction l generalizing acc with
  | nil => simp [asetAll, lookupLast]
  | cons kv r ih =>
    obtain ⟨k, v⟩ := kv
    have : asetAll acc ((k, v) :: r) = asetAll (aset acc k v) r := by simp [asetAll]
    rw [this, ih, lookupLast]
    cases lookupLast r m with
    | some w => rfl
    | none =>
      simp only [lookup_aset]
      by_cases hk : k = m <;> simp [hk]

theorem lookup_foldl_bases {β} (bs : List (List (Str × β))) (acc : List (Str × β)) (m : Str) :
    lookup (bs.reverse.foldl asetAll acc) m = match firstSome (bs.map (lookupLast · m)) with
      | some v => some v
      | none => lookup acc m := by
  induction bs with
  | nil => simp [firstSome]
  | cons b r ih =>
    simp only [List.reverse_cons, List.foldl_append, List.foldl_cons, List.foldl_nil, List.map_cons]
    rw [lookup_asetAll]
    cases hb : lookupLast b m with
    | some v => simp [firstSome]
    | none => simp only [firstSome]; exact ih

/-- the table the metaclass builds: the wrapper of the class body wins; otherwise the entry of the
first direct base (in the order of the class statement) whose table has the name -/
theorem lookup_mergeMetas (bs : List (List (Str × Comps))) (own : List (Str × Comps)) (m : Str) :
    lookup (mergeMetas bs own) m = match lookupLast own m with
      | some c => some c
      | none => firstSome (bs.map (lookupLast · m)) := by
  unfold mergeMetas
  rw [lookup_asetAll]
  cases lookupLast own m with
  | some c => rfl
  | none =>
    simp only []
    rw [lookup_foldl_bases]
    cases firstSome (bs.map (lookupLast · m)) <;> simp [lookup]

end HttpConn
