import AkVerif.Lemmas.CHTextSlice
/-!
Lemmas about the `CHText` model, part 5: operation trees. `ref` evaluates a tree on plain cell
lists with Python's `str`/`list` operations; `Expr.ty` is the typing of the modelled fragment;
`eval_sim`: on a typed tree the model gives a canonical value showing exactly `ref`'s cells, or
both raise the same exception.
-/
namespace CHText
open Ak

inductive Ty where
  | str | chunk | text
  | list (tuple : Bool)
  deriving DecidableEq, Repr

def Part.ty : Part → Ty
  | .str _ => .str
  | .chunk _ => .chunk
  | .text _ => .text
  | .list tp _ => .list tp

/-- operand types for which `a + b` is an operation of `CHText` / `Chunk` -/
def addTy : Ty → Ty → Option Ty
  | .text, _ => some .text
  | .chunk, _ => some .text
  | .str, .chunk => some .text
  | .str, .text => some .text
  | .list _, .chunk => some .text
  | .list _, .text => some .text
  | _, _ => none

/-- … and `a += b` -/
def iaddTy : Ty → Ty → Option Ty
  | .text, _ => some .text
  | .chunk, _ => some .text
  | .str, .chunk => some .text
  | .str, .text => some .text
  | _, _ => none

def objTy : Ty → Bool
  | .text => true
  | .chunk => true
  | _ => false

mutual
/-- the type of the value of a tree; `none` outside the modelled fragment -/
def Expr.ty : Expr → Option Ty
  | .str _ => some .str
  | .chunk _ _ => some .chunk
  | .list tp es => if tyList es then some (.list tp) else none
  | .mk es => if tyList es then some .text else none
  | .add a b =>
    match a.ty, b.ty with
    | some x, some y => addTy x y
    | _, _ => none
  | .iadd a b =>
    match a.ty, b.ty with
    | some x, some y => iaddTy x y
    | _, _ => none
  | .join sep _ es =>
    match sep.ty with
    | some x => if objTy x && tyList es then some .text else none
    | none => none
  | .idx a _ =>
    match a.ty with
    | some x => if objTy x then some x else none
    | none => none
  | .slice a _ _ =>
    match a.ty with
    | some x => if objTy x then some x else none
    | none => none
  | .fixedLen a _ =>
    match a.ty with
    | some x => if objTy x then some .text else none
    | none => none
  | .iter a =>
    match a.ty with
    | some x => if objTy x then some (.list false) else none
    | none => none
  | .joinIt sep a =>
    match sep.ty, a.ty with
    | some x, some y => if objTy x && objTy y then some .text else none
    | _, _ => none
def tyList : List Expr → Bool
  | [] => true
  | e :: es => e.ty.isSome && tyList es
end

mutual
/-- the same operations on plain sequences of (character, colour): what `str` does to the
characters, done to the colours as well -/
def ref : Expr → Except Err Cells
  | .str s => .ok (plainCells s)
  | .chunk col s => .ok (s.map (·, col))
  | .list _ es => do
    let cs ← refList es
    .ok cs.flatten
  | .mk es => do
    let cs ← refList es
    .ok cs.flatten
  | .add a b => do
    let x ← ref a
    let y ← ref b
    .ok (x ++ y)
  | .iadd a b => do
    let x ← ref a
    let y ← ref b
    .ok (x ++ y)
  | .join sep _ es => do
    let s ← ref sep
    let cs ← refList es
    .ok (pyJoin s cs)
  | .idx a i => do
    let c ← ref a
    let x ← pyIndex c i
    .ok [x]
  | .slice a i j => do
    let c ← ref a
    .ok (pySlice c i j)
  | .fixedLen a n => do
    let c ← ref a
    .ok (pyFixedLen c n)
  | .iter a => ref a
  | .joinIt sep a => do
    let s ← ref sep
    let c ← ref a
    .ok (pyJoin s (c.map fun x => [x]))      -- `sep.join(text)`: one item per character
def refList : List Expr → Except Err (List Cells)
  | [] => .ok []
  | e :: es => do
    let c ← ref e
    let cs ← refList es
    .ok (c :: cs)
end

/-- model result vs reference result -/
def Sim (τ : Ty) : Except Fail Part → Except Err Cells → Prop
  | .ok p, .ok c => p.ty = τ ∧ p.Canon ∧ p.cells = c
  | .error (.py e₁), .error e₂ => e₁ = e₂
  | _, _ => False

def SimList : Except Fail (List Part) → Except Err (List Cells) → Prop
  | .ok ps, .ok cs => Part.CanonList ps ∧ ps.map Part.cells = cs
  | .error (.py e₁), .error e₂ => e₁ = e₂
  | _, _ => False

@[simp] theorem ok_bind {ε α β} (a : α) (f : α → Except ε β) : (Except.ok a >>= f) = f a := rfl
@[simp] theorem error_bind {ε α β} (e : ε) (f : α → Except ε β) : ((Except.error e : Except ε α) >>= f) = .error e := rfl

theorem cellsList_eq (ps : List Part) : Part.cellsList ps = (ps.map Part.cells).flatten := by
  induction ps with
  | nil => rfl
  | cons p ps ih => simp [Part.cellsList, ih]

theorem pyAdd_sim (x y : Part) (τ : Ty) (h : addTy x.ty y.ty = some τ) :
    ∃ t, pyAdd x y = .ok (.text t) ∧ τ = .text ∧ Canon t ∧ t.cells = x.cells ++ y.cells := by
  cases x <;> cases y <;> simp only [Part.ty, addTy, Option.some.injEq, reduceCtorEq] at h <;>
    (subst h
     refine ⟨_, rfl, rfl, ?_, ?_⟩
     · first | exact add_canon _ _ | exact construct_canon _
     · simp [add_cells, radd_cells, construct_cells, Part.cellsList, Part.cells])

theorem pyIAdd_sim (x y : Part) (τ : Ty) (hx : x.Canon) (h : iaddTy x.ty y.ty = some τ) :
    ∃ t, pyIAdd x y = .ok (.text t) ∧ τ = .text ∧ Canon t ∧ t.cells = x.cells ++ y.cells := by
  cases x <;> cases y <;> simp only [Part.ty, iaddTy, Option.some.injEq, reduceCtorEq] at h <;>
    (subst h
     refine ⟨_, rfl, rfl, ?_, ?_⟩
     · first | exact iadd_canon _ _ hx | exact construct_canon _
     · simp [iadd_cells, radd_cells, construct_cells, Part.cellsList, Part.cells])

theorem canonList_texts (l : Cells) : Part.CanonList ((l.map cellText).map Part.text) := by
  induction l with
  | nil => trivial
  | cons x xs ih => exact ⟨fromChunks_canon _, ih⟩

theorem canonList_chunks (l : List Chunk) : Part.CanonList (l.map Part.chunk) := by
  induction l with
  | nil => trivial
  | cons x xs ih => exact ⟨trivial, ih⟩

theorem cellsList_texts (l : Cells) : Part.cellsList ((l.map cellText).map Part.text) = l := by
  induction l with
  | nil => rfl
  | cons x xs ih => simp only [List.map_cons, Part.cellsList, ih, Part.cells, cellText_cells]; rfl

theorem cellsList_chunks (l : Cells) :
    Part.cellsList ((l.map (fun x => (⟨x.2, [x.1]⟩ : Chunk))).map Part.chunk) = l := by
  induction l with
  | nil => rfl
  | cons x xs ih => simp only [List.map_cons, Part.cellsList, ih, Part.cells, Chunk.cells]; rfl

theorem Sim.inv {τ : Ty} {x : Except Fail Part} {r : Except Err Cells} (h : Sim τ x r) :
    (∃ p c, x = .ok p ∧ r = .ok c ∧ p.ty = τ ∧ p.Canon ∧ p.cells = c) ∨
    (∃ e, x = .error (.py e) ∧ r = .error e) := by
  cases x with
  | ok p =>
    cases r with
    | ok c => exact Or.inl ⟨p, c, rfl, rfl, h⟩
    | error e => exact h.elim
  | error f =>
    cases r with
    | ok c => cases f <;> exact h.elim
    | error e =>
      cases f with
      | py e₁ => exact Or.inr ⟨e, by rw [show e₁ = e from h], rfl⟩
      | unmodelled => exact h.elim

theorem SimList.inv {x : Except Fail (List Part)} {r : Except Err (List Cells)} (h : SimList x r) :
    (∃ ps cs, x = .ok ps ∧ r = .ok cs ∧ Part.CanonList ps ∧ ps.map Part.cells = cs) ∨
    (∃ e, x = .error (.py e) ∧ r = .error e) := by
  cases x with
  | ok p =>
    cases r with
    | ok c => exact Or.inl ⟨p, c, rfl, rfl, h⟩
    | error e => exact h.elim
  | error f =>
    cases r with
    | ok c => cases f <;> exact h.elim
    | error e =>
      cases f with
      | py e₁ => exact Or.inr ⟨e, by rw [show e₁ = e from h], rfl⟩
      | unmodelled => exact h.elim

theorem not_objTy_str : objTy .str = false := rfl
theorem not_objTy_list (tp : Bool) : objTy (.list tp) = false := rfl

mutual
theorem eval_sim (e : Expr) (τ : Ty) (h : e.ty = some τ) : Sim τ (eval e) (ref e) := by
  cases e with
  | str s => simp only [Expr.ty, Option.some.injEq] at h; subst h; exact ⟨rfl, trivial, rfl⟩
  | chunk col s => simp only [Expr.ty, Option.some.injEq] at h; subst h; exact ⟨rfl, trivial, rfl⟩
  | list tp es =>
    simp only [Expr.ty] at h
    split at h
    · next hl =>
      cases h
      rcases (evalList_sim es hl).inv with ⟨ps, cs, he, hr, hcan, hcells⟩ | ⟨e, he, hr⟩
      · simp only [eval, ref, he, hr, ok_bind]
        exact ⟨rfl, hcan, by rw [Part.cells, cellsList_eq, hcells]⟩
      · simp only [eval, ref, he, hr, error_bind]; exact rfl
    · cases h
  | mk es =>
    simp only [Expr.ty] at h
    split at h
    · next hl =>
      cases h
      rcases (evalList_sim es hl).inv with ⟨ps, cs, he, hr, hcan, hcells⟩ | ⟨e, he, hr⟩
      · simp only [eval, ref, he, hr, ok_bind]
        exact ⟨rfl, construct_canon _, by rw [Part.cells, construct_cells, cellsList_eq, hcells]⟩
      · simp only [eval, ref, he, hr, error_bind]; exact rfl
    · cases h
  | add a b =>
    simp only [Expr.ty] at h
    cases hta : a.ty with
    | none => simp [hta] at h
    | some x =>
      cases htb : b.ty with
      | none => simp [hta, htb] at h
      | some y =>
        simp only [hta, htb] at h
        rcases (eval_sim a x hta).inv with ⟨p, c, hea, hra, hpt, hpc, hpcells⟩ | ⟨e, hea, hra⟩
        · rcases (eval_sim b y htb).inv with ⟨q, d, heb, hrb, hqt, hqc, hqcells⟩ | ⟨e, heb, hrb⟩
          · obtain ⟨t, ht, hτ, hc, hcells⟩ := pyAdd_sim p q τ (by rw [hpt, hqt]; exact h)
            simp only [eval, ref, hea, hra, heb, hrb, ok_bind, ht]
            exact ⟨hτ.symm, hc, by rw [Part.cells, hcells, hpcells, hqcells]⟩
          · simp only [eval, ref, hea, hra, heb, hrb, ok_bind, error_bind]; exact rfl
        · simp only [eval, ref, hea, hra, error_bind]; exact rfl
  | iadd a b =>
    simp only [Expr.ty] at h
    cases hta : a.ty with
    | none => simp [hta] at h
    | some x =>
      cases htb : b.ty with
      | none => simp [hta, htb] at h
      | some y =>
        simp only [hta, htb] at h
        rcases (eval_sim a x hta).inv with ⟨p, c, hea, hra, hpt, hpc, hpcells⟩ | ⟨e, hea, hra⟩
        · rcases (eval_sim b y htb).inv with ⟨q, d, heb, hrb, hqt, hqc, hqcells⟩ | ⟨e, heb, hrb⟩
          · obtain ⟨t, ht, hτ, hc, hcells⟩ := pyIAdd_sim p q τ hpc (by rw [hpt, hqt]; exact h)
            simp only [eval, ref, hea, hra, heb, hrb, ok_bind, ht]
            exact ⟨hτ.symm, hc, by rw [Part.cells, hcells, hpcells, hqcells]⟩
          · simp only [eval, ref, hea, hra, heb, hrb, ok_bind, error_bind]; exact rfl
        · simp only [eval, ref, hea, hra, error_bind]; exact rfl
  | join sep tp es =>
    simp only [Expr.ty] at h
    cases hts : sep.ty with
    | none => simp [hts] at h
    | some x =>
      simp only [hts] at h
      split at h
      · next hcond =>
        cases h
        simp only [Bool.and_eq_true] at hcond
        rcases (eval_sim sep x hts).inv with ⟨p, c, hea, hra, hpt, hpc, hpcells⟩ | ⟨e, hea, hra⟩
        · rcases (evalList_sim es hcond.2).inv with ⟨ps, cs, hel, hrl, hcan, hcells⟩ | ⟨e, hel, hrl⟩
          · simp only [eval, ref, hea, hra, hel, hrl, ok_bind]
            cases p with
            | text t =>
              exact ⟨rfl, join_canon _ _, by rw [Part.cells, join_cells, hcells, ← hpcells]; rfl⟩
            | chunk ch =>
              refine ⟨rfl, join_canon _ _, ?_⟩
              rw [Part.cells, join_cells, hcells, construct_cells, ← hpcells]
              simp [Part.cellsList, Part.cells]
            | str s => rw [← hpt, Part.ty, not_objTy_str] at hcond; cases hcond.1
            | list tp' ps' => rw [← hpt, Part.ty, not_objTy_list] at hcond; cases hcond.1
          · simp only [eval, ref, hea, hra, hel, hrl, ok_bind, error_bind]; exact rfl
        · simp only [eval, ref, hea, hra, error_bind]; exact rfl
      · cases h
  | idx a i =>
    simp only [Expr.ty] at h
    cases hta : a.ty with
    | none => simp [hta] at h
    | some x =>
      simp only [hta] at h
      split at h
      · next hobj =>
        cases h
        rcases (eval_sim a τ hta).inv with ⟨p, c, hea, hra, hpt, hpc, hpcells⟩ | ⟨e, hea, hra⟩
        · simp only [eval, ref, hea, hra, ok_bind]
          cases p with
          | text t =>
            show Sim τ (liftErr (Except.map Part.text (t.getIndex i))) _
            rw [getIndex_spec t hpc.2, ← hpcells, Part.cells]
            cases pyIndex t.cells i with
            | ok x => exact ⟨hpt, fromChunks_canon _, cellText_cells x⟩
            | error e => exact rfl
          | chunk ch =>
            show Sim τ (liftErr (Except.map Part.chunk (ch.getIndex i))) _
            rw [chunk_getIndex_eq, ← hpcells, Part.cells]
            cases pyIndex ch.cells i with
            | ok x => exact ⟨hpt, trivial, by simp [Part.cells, Chunk.cells]⟩
            | error e => exact rfl
          | str s => rw [← hpt, Part.ty, not_objTy_str] at hobj; cases hobj
          | list tp' ps' => rw [← hpt, Part.ty, not_objTy_list] at hobj; cases hobj
        · simp only [eval, ref, hea, hra, error_bind]; exact rfl
      · cases h
  | slice a i j =>
    simp only [Expr.ty] at h
    cases hta : a.ty with
    | none => simp [hta] at h
    | some x =>
      simp only [hta] at h
      split at h
      · next hobj =>
        cases h
        rcases (eval_sim a τ hta).inv with ⟨p, c, hea, hra, hpt, hpc, hpcells⟩ | ⟨e, hea, hra⟩
        · simp only [eval, ref, hea, hra, ok_bind]
          cases p with
          | text t =>
            exact ⟨hpt, getSlice_canon _ _ _, by rw [Part.cells, getSlice_cells t hpc.2, ← hpcells]; rfl⟩
          | chunk ch => exact ⟨hpt, trivial, by rw [Part.cells, chunk_getSlice_cells, ← hpcells]; rfl⟩
          | str s => rw [← hpt, Part.ty, not_objTy_str] at hobj; cases hobj
          | list tp' ps' => rw [← hpt, Part.ty, not_objTy_list] at hobj; cases hobj
        · simp only [eval, ref, hea, hra, error_bind]; exact rfl
      · cases h
  | fixedLen a n =>
    simp only [Expr.ty] at h
    cases hta : a.ty with
    | none => simp [hta] at h
    | some x =>
      simp only [hta] at h
      split at h
      · next hobj =>
        cases h
        rcases (eval_sim a x hta).inv with ⟨p, c, hea, hra, hpt, hpc, hpcells⟩ | ⟨e, hea, hra⟩
        · simp only [eval, ref, hea, hra, ok_bind]
          cases p with
          | text t =>
            exact ⟨rfl, fixedLen_canon t n, by rw [Part.cells, fixedLen_cells t hpc.2, ← hpcells]; rfl⟩
          | chunk ch =>
            refine ⟨rfl, ?_, by rw [Part.cells, chunk_fixedLen_cells, ← hpcells]; rfl⟩
            unfold Chunk.fixedLen
            simp only []
            split
            · exact construct_canon _
            · split <;> exact construct_canon _
          | str s => rw [← hpt, Part.ty, not_objTy_str] at hobj; cases hobj
          | list tp' ps' => rw [← hpt, Part.ty, not_objTy_list] at hobj; cases hobj
        · simp only [eval, ref, hea, hra, error_bind]; exact rfl
      · cases h
  | iter a =>
    simp only [Expr.ty] at h
    cases hta : a.ty with
    | none => simp [hta] at h
    | some x =>
      simp only [hta] at h
      split at h
      · next hobj =>
        cases h
        rcases (eval_sim a x hta).inv with ⟨p, c, hea, hra, hpt, hpc, hpcells⟩ | ⟨e, hea, hra⟩
        · simp only [eval, ref, hea, hra, ok_bind]
          cases p with
          | text t =>
            show Sim _ (liftErr (t.iter.map fun ts => Part.list false (ts.map Part.text))) _
            rw [iter_spec t hpc.2]
            exact ⟨rfl, canonList_texts _, by rw [← hpcells]; exact cellsList_texts _⟩
          | chunk ch =>
            show Sim _ (liftErr (ch.iter.map fun cs => Part.list false (cs.map Part.chunk))) _
            rw [chunk_iter_spec]
            exact ⟨rfl, canonList_chunks _, by rw [← hpcells]; exact cellsList_chunks _⟩
          | str s => rw [← hpt, Part.ty, not_objTy_str] at hobj; cases hobj
          | list tp' ps' => rw [← hpt, Part.ty, not_objTy_list] at hobj; cases hobj
        · simp only [eval, ref, hea, hra, error_bind]; exact rfl
      · cases h
  | joinIt sep a =>
    simp only [Expr.ty] at h
    cases hts : sep.ty with
    | none => simp [hts] at h
    | some x =>
      cases hta : a.ty with
      | none => simp [hts, hta] at h
      | some y =>
        simp only [hts, hta] at h
        split at h
        · next hcond =>
          cases h
          simp only [Bool.and_eq_true] at hcond
          rcases (eval_sim sep x hts).inv with ⟨p, c, hea, hra, hpt, hpc, hpcells⟩ | ⟨e, hea, hra⟩
          · rcases (eval_sim a y hta).inv with ⟨q, d, heb, hrb, hqt, hqc, hqcells⟩ | ⟨e, heb, hrb⟩
            · simp only [eval, ref, hea, hra, heb, hrb, ok_bind]
              -- the items of the iterable
              have hitems : ∃ items, iterItems q = Except.ok items ∧
                  items.map Part.cells = d.map (fun x => [x]) := by
                cases q with
                | text t =>
                  refine ⟨(t.cells.map cellText).map Part.text, ?_, ?_⟩
                  · show liftErr (t.iter.map fun ts => ts.map Part.text) = _
                    rw [iter_spec t hqc.2]; rfl
                  rw [← hqcells, Part.cells]
                  simp [Part.cells, cellText_cells, Function.comp_def]
                | chunk ch =>
                  refine ⟨(ch.cells.map (fun x => (⟨x.2, [x.1]⟩ : Chunk))).map Part.chunk, ?_, ?_⟩
                  · show liftErr (ch.iter.map fun cs => cs.map Part.chunk) = _
                    rw [chunk_iter_spec]; rfl
                  rw [← hqcells, Part.cells]
                  simp [Part.cells, Chunk.cells, Function.comp_def]
                | str s => rw [← hqt, Part.ty, not_objTy_str] at hcond; cases hcond.2
                | list tp' ps' => rw [← hqt, Part.ty, not_objTy_list] at hcond; cases hcond.2
              obtain ⟨items, hit, hcells⟩ := hitems
              rw [hit]
              simp only [ok_bind]
              cases p with
              | text t =>
                exact ⟨rfl, join_canon _ _, by rw [Part.cells, join_cells, hcells, ← hpcells]; rfl⟩
              | chunk ch =>
                refine ⟨rfl, join_canon _ _, ?_⟩
                rw [Part.cells, join_cells, hcells, construct_cells, ← hpcells]
                simp [Part.cellsList, Part.cells]
              | str s => rw [← hpt, Part.ty, not_objTy_str] at hcond; cases hcond.1
              | list tp' ps' => rw [← hpt, Part.ty, not_objTy_list] at hcond; cases hcond.1
            · simp only [eval, ref, hea, hra, heb, hrb, ok_bind, error_bind]; exact rfl
          · simp only [eval, ref, hea, hra, error_bind]; exact rfl
        · cases h
theorem evalList_sim (es : List Expr) (h : tyList es = true) : SimList (evalList es) (refList es) := by
  cases es with
  | nil => exact ⟨trivial, rfl⟩
  | cons e es =>
    simp only [tyList, Bool.and_eq_true, Option.isSome_iff_exists] at h
    obtain ⟨⟨τ, hτ⟩, hl⟩ := h
    rcases (eval_sim e τ hτ).inv with ⟨p, c, hea, hra, hpt, hpc, hpcells⟩ | ⟨e, hea, hra⟩
    · rcases (evalList_sim es hl).inv with ⟨ps, cs, hel, hrl, hcan, hcells⟩ | ⟨e, hel, hrl⟩
      · simp only [evalList, refList, hea, hra, hel, hrl, ok_bind]
        exact ⟨⟨hpc, hcan⟩, by simp [hpcells, hcells]⟩
      · simp only [evalList, refList, hea, hra, hel, hrl, ok_bind, error_bind]; exact rfl
    · simp only [evalList, refList, hea, hra, error_bind]; exact rfl
end

theorem bind_error_inv {ε α β} {x : Except ε α} {f : α → Except ε β} {e : ε}
    (h : (x >>= f) = .error e) : x = .error e ∨ ∃ a, x = .ok a ∧ f a = .error e := by
  cases x with
  | error e' => left; simpa using h
  | ok a => right; exact ⟨a, rfl, h⟩

mutual
/-- the only exception of the reference semantics is the `IndexError` of `s[i]` -/
theorem ref_error (e : Expr) (err : Err) (h : ref e = .error err) : err = .indexError := by
  cases e with
  | str s => cases h
  | chunk col s => cases h
  | list tp es =>
    simp only [ref] at h
    rcases bind_error_inv h with h1 | ⟨_, _, h2⟩
    · exact refList_error es err h1
    · cases h2
  | mk es =>
    simp only [ref] at h
    rcases bind_error_inv h with h1 | ⟨_, _, h2⟩
    · exact refList_error es err h1
    · cases h2
  | add a b =>
    simp only [ref] at h
    rcases bind_error_inv h with h1 | ⟨_, _, h2⟩
    · exact ref_error a err h1
    · rcases bind_error_inv h2 with h3 | ⟨_, _, h4⟩
      · exact ref_error b err h3
      · cases h4
  | iadd a b =>
    simp only [ref] at h
    rcases bind_error_inv h with h1 | ⟨_, _, h2⟩
    · exact ref_error a err h1
    · rcases bind_error_inv h2 with h3 | ⟨_, _, h4⟩
      · exact ref_error b err h3
      · cases h4
  | join sep tp es =>
    simp only [ref] at h
    rcases bind_error_inv h with h1 | ⟨_, _, h2⟩
    · exact ref_error sep err h1
    · rcases bind_error_inv h2 with h3 | ⟨_, _, h4⟩
      · exact refList_error es err h3
      · cases h4
  | idx a i =>
    simp only [ref] at h
    rcases bind_error_inv h with h1 | ⟨c, _, h2⟩
    · exact ref_error a err h1
    · rcases bind_error_inv h2 with h3 | ⟨_, _, h4⟩
      · exact pyIndex_error_eq c i err h3
      · cases h4
  | slice a i j =>
    simp only [ref] at h
    rcases bind_error_inv h with h1 | ⟨_, _, h2⟩
    · exact ref_error a err h1
    · cases h2
  | fixedLen a n =>
    simp only [ref] at h
    rcases bind_error_inv h with h1 | ⟨_, _, h2⟩
    · exact ref_error a err h1
    · cases h2
  | iter a => simp only [ref] at h; exact ref_error a err h
  | joinIt sep a =>
    simp only [ref] at h
    rcases bind_error_inv h with h1 | ⟨_, _, h2⟩
    · exact ref_error sep err h1
    · rcases bind_error_inv h2 with h3 | ⟨_, _, h4⟩
      · exact ref_error a err h3
      · cases h4
theorem refList_error (es : List Expr) (err : Err) (h : refList es = .error err) : err = .indexError := by
  cases es with
  | nil => cases h
  | cons e es =>
    simp only [refList] at h
    rcases bind_error_inv h with h1 | ⟨_, _, h2⟩
    · exact ref_error e err h1
    · rcases bind_error_inv h2 with h3 | ⟨_, _, h4⟩
      · exact refList_error es err h3
      · cases h4
end

end CHText
