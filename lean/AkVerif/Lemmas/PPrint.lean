import AkVerif.Model.PPrint
/-!
Helper lemmas for C11, part 1: induction over `J`, the list-recursive helpers as `map`s, the key
order and the sort, `text`, `groupLines`.
-/
namespace PPrint

/-! ## induction over values -/

section ind
set_option linter.unusedSectionVars false
variable {P : J → Prop}
  (hs : ∀ s, P (.str s)) (hi : ∀ n, P (.int n)) (hn : ∀ t, P (.num t)) (hk : ∀ k, P (.kw k))
  (hl : ∀ xs, (∀ x, x ∈ xs → P x) → P (.list xs))
  (hd : ∀ kvs : List (Key × J), (∀ kv, kv ∈ kvs → P kv.2) → P (.dict kvs))
include hs hi hn hk hl hd

mutual
theorem J.ind : ∀ v, P v
  | .str s => hs s
  | .int n => hi n
  | .num t => hn t
  | .kw k => hk k
  | .list xs => hl xs (J.indList xs)
  | .dict kvs => hd kvs (J.indEntries kvs)
theorem J.indList : ∀ xs : List J, ∀ x, x ∈ xs → P x
  | [], _, h => by cases h
  | y :: ys, x, h => by
    rcases List.mem_cons.mp h with h | h
    · exact h ▸ J.ind y
    · exact J.indList ys x h
theorem J.indEntries : ∀ kvs : List (Key × J), ∀ kv, kv ∈ kvs → P kv.2
  | [], _, h => by cases h
  | (k, v) :: r, kv, h => by
    rcases List.mem_cons.mp h with h | h
    · exact h ▸ J.ind v
    · exact J.indEntries r kv h
end
end ind

/-! ## the list helpers are maps -/

theorem genList_eq (c : Consts) (L : Limits) (xs : List J) (off : Nat) :
    genList c L xs off = xs.map (fun x => gen c L x off) := by
  induction xs with
  | nil => simp [genList]
  | cons x xs ih => simp [genList, ih]

theorem genEntries_eq (c : Consts) (L : Limits) (kvs : List (Key × J)) (off : Nat) :
    genEntries c L kvs off = kvs.map (fun kv => (kv.1, gen c L kv.2 off)) := by
  induction kvs with
  | nil => simp [genEntries]
  | cons kv r ih => obtain ⟨k, v⟩ := kv; simp [genEntries, ih]

theorem normList_eq (xs : List J) : normList xs = xs.map norm := by
  induction xs with
  | nil => simp [normList]
  | cons x xs ih => simp [normList, ih]

theorem normEntries_eq (kvs : List (Key × J)) :
    normEntries kvs = kvs.map (fun kv => (kv.1, norm kv.2)) := by
  induction kvs with
  | nil => simp [normEntries]
  | cons kv r ih => obtain ⟨k, v⟩ := kv; simp [normEntries, ih]

theorem WFList_iff (sk : Bool) (xs : List J) : WFList sk xs ↔ ∀ x, x ∈ xs → WF sk x := by
  induction xs with
  | nil => simp [WFList]
  | cons x xs ih => simp [WFList, ih]

theorem WFEntries_iff (sk : Bool) (kvs : List (Key × J)) :
    WFEntries sk kvs ↔ ∀ kv, kv ∈ kvs → keyOk sk kv.1 = true ∧ WF sk kv.2 := by
  induction kvs with
  | nil => simp [WFEntries]
  | cons kv r ih =>
    obtain ⟨k, v⟩ := kv
    simp only [WFEntries, ih, List.mem_cons, forall_eq_or_imp]
    constructor
    · rintro ⟨a, b, c⟩; exact ⟨⟨a, b⟩, c⟩
    · rintro ⟨⟨a, b⟩, c⟩; exact ⟨a, b, c⟩

/-- a simple value is printed as its one chunk, whatever the offset -/
theorem gen_of_simple (c : Consts) (L : Limits) {v : J} {s : Simple} (h : v.simple? = some s)
    (off : Nat) : gen c L v off = [some (simpleChunk c s)] := by
  cases v with
  | str _ => simp [J.simple?] at h; subst h; simp [gen]
  | int _ => simp [J.simple?] at h; subst h; simp [gen]
  | num _ => simp [J.simple?] at h; subst h; simp [gen]
  | kw _ => simp [J.simple?] at h; subst h; simp [gen]
  | list xs =>
    cases xs with
    | nil => simp [J.simple?] at h; subst h; simp [gen, renderList]
    | cons _ _ => simp [J.simple?] at h
  | dict kvs =>
    cases kvs with
    | nil => simp [J.simple?] at h; subst h; simp [gen, renderDict]
    | cons _ _ => simp [J.simple?] at h

theorem allSimple?_gen (c : Consts) (L : Limits) {xs : List J} {ss : List Simple}
    (h : allSimple? xs = some ss) (off : Nat) :
    xs.map (fun x => gen c L x off) = ss.map (fun s => [some (simpleChunk c s)]) := by
  induction xs generalizing ss with
  | nil => simp [allSimple?] at h; subst h; rfl
  | cons x xs ih =>
    simp only [allSimple?] at h
    split at h
    · rename_i s ss' h1 h2
      cases h
      simp [gen_of_simple c L h1, ih h2]
    · cases h

theorem allSimpleD?_gen (c : Consts) (L : Limits) {kvs : List (Key × J)}
    {ss : List (Key × Simple)} (h : allSimpleD? kvs = some ss) (off : Nat) :
    kvs.map (fun kv => (kv.1, gen c L kv.2 off)) =
      ss.map (fun ks => (ks.1, [some (simpleChunk c ks.2)])) := by
  induction kvs generalizing ss with
  | nil => simp [allSimpleD?] at h; subst h; rfl
  | cons kv r ih =>
    obtain ⟨k, v⟩ := kv
    simp only [allSimpleD?] at h
    split at h
    · rename_i s ss' h1 h2
      cases h
      simp [gen_of_simple c L h1, ih h2]
    · cases h

/-! ## key order -/

theorem keyLt_irrefl (a : List Char) : keyLt a a = false := by
  induction a with
  | nil => rfl
  | cons x xs ih => simp [keyLt, ih]

theorem keyLt_asymm : ∀ {a b : List Char}, keyLt a b = true → keyLt b a = false
  | [], [], h => by simp [keyLt] at h
  | [], _ :: _, _ => by simp [keyLt]
  | _ :: _, [], h => by simp [keyLt] at h
  | x :: xs, y :: ys, h => by
    simp only [keyLt] at h ⊢
    by_cases hxy : x = y
    · subst hxy; simp at h ⊢; exact keyLt_asymm h
    · have hyx : ¬ y = x := fun e => hxy e.symm
      simp [hxy] at h; simp [hyx]; omega

theorem keyLt_trans : ∀ {a b c : List Char}, keyLt a b = true → keyLt b c = true → keyLt a c = true
  | [], [], _, h, _ => by simp [keyLt] at h
  | [], _ :: _, [], _, h => by simp [keyLt] at h
  | [], _ :: _, _ :: _, _, _ => by simp [keyLt]
  | _ :: _, [], _, h, _ => by simp [keyLt] at h
  | _ :: _, _ :: _, [], _, h => by simp [keyLt] at h
  | x :: xs, y :: ys, z :: zs, h1, h2 => by
    simp only [keyLt] at h1 h2 ⊢
    by_cases hxy : x = y
    · subst hxy
      by_cases hxz : x = z
      · subst hxz; simp at h1 h2 ⊢; exact keyLt_trans h1 h2
      · simp [hxz] at h2 ⊢; exact h2
    · simp [hxy] at h1
      by_cases hyz : y = z
      · subst hyz; simp [hxy]; exact h1
      · simp [hyz] at h2
        have hxz : ¬ x = z := by intro e; subst e; omega
        simp [hxz]; omega

theorem keyLt_total : ∀ (a b : List Char), keyLt a b = true ∨ a = b ∨ keyLt b a = true
  | [], [] => by simp
  | [], _ :: _ => by simp [keyLt]
  | _ :: _, [] => by simp [keyLt]
  | x :: xs, y :: ys => by
    simp only [keyLt]
    by_cases hxy : x = y
    · subst hxy
      rcases keyLt_total xs ys with h | h | h
      · simp [h]
      · simp [h]
      · simp [h]
    · have hyx : ¬ y = x := fun e => hxy e.symm
      have : x.toNat ≠ y.toNat := fun e => hxy (Char.toNat_inj.mp e)
      simp [hxy, hyx]; omega

theorem kwStr_inj : ∀ a b : Kw, kwStr a = kwStr b → a = b := by
  intro a b h; cases a <;> cases b <;> first | rfl | (revert h; decide)

theorem kLt_asymm {a b : Key} (h : kLt a b = true) : kLt b a = false := by
  cases a <;> cases b <;> simp [kLt, Key.rank] at h ⊢
  · exact keyLt_asymm h
  · omega
  · exact keyLt_asymm h

theorem kLt_trans {a b c : Key} (h1 : kLt a b = true) (h2 : kLt b c = true) : kLt a c = true := by
  cases a <;> cases b <;> cases c <;> simp [kLt, Key.rank] at h1 h2 ⊢
  · exact keyLt_trans h1 h2
  · omega
  · exact keyLt_trans h1 h2

theorem kLt_total (a b : Key) : kLt a b = true ∨ a = b ∨ kLt b a = true := by
  cases a <;> cases b <;> simp [kLt, Key.rank]
  · exact keyLt_total _ _
  · omega
  · rename_i x y
    rcases keyLt_total (kwStr x) (kwStr y) with h | h | h
    · exact Or.inl h
    · exact Or.inr (Or.inl (kwStr_inj _ _ h))
    · exact Or.inr (Or.inr h)

/-- `a ≤ b` in key order -/
def keyLe (a b : Key) : Prop := kLt b a = false

theorem keyLe_trans {a b c : Key} (h1 : keyLe a b) (h2 : keyLe b c) : keyLe a c := by
  unfold keyLe at *
  cases hca : kLt c a with
  | false => rfl
  | true =>
    rcases kLt_total a b with h | h | h
    · have := kLt_trans hca h; simp [this] at h2
    · subst h; simp [hca] at h2
    · simp [h] at h1

theorem keyLe_antisymm {a b : Key} (h1 : keyLe a b) (h2 : keyLe b a) : a = b := by
  unfold keyLe at *
  rcases kLt_total a b with h | h | h
  · simp [h] at h2
  · exact h
  · simp [h] at h1

/-! ## the sort -/

theorem insertE_perm {α : Type} (e : Key × α) (l : List (Key × α)) :
    (insertE e l).Perm (e :: l) := by
  induction l with
  | nil => simp [insertE]
  | cons f r ih =>
    simp only [insertE]
    split
    · exact ((List.perm_cons f).mpr ih).trans (List.Perm.swap e f r)
    · exact List.Perm.refl _

theorem sortE_perm {α : Type} (l : List (Key × α)) : (sortE l).Perm l := by
  induction l with
  | nil => simp [sortE]
  | cons e r ih =>
    simp only [sortE]
    exact (insertE_perm e _).trans ((List.perm_cons e).mpr ih)

theorem mem_sortE {α : Type} {l : List (Key × α)} {e : Key × α} :
    e ∈ sortE l ↔ e ∈ l := (sortE_perm l).mem_iff

theorem sortE_length {α : Type} (l : List (Key × α)) : (sortE l).length = l.length :=
  (sortE_perm l).length_eq

theorem insertE_sorted {α : Type} (e : Key × α) (l : List (Key × α))
    (h : l.Pairwise (fun a b => keyLe a.1 b.1)) :
    (insertE e l).Pairwise (fun a b => keyLe a.1 b.1) := by
  induction l with
  | nil => simp [insertE]
  | cons f r ih =>
    rw [List.pairwise_cons] at h
    simp only [insertE]
    split
    · rename_i hfe
      rw [List.pairwise_cons]
      refine ⟨?_, ih h.2⟩
      intro g hg
      rcases List.mem_cons.mp ((insertE_perm e r).mem_iff.mp hg) with hg | hg
      · subst hg; exact kLt_asymm hfe
      · exact h.1 g hg
    · rename_i hfe
      have hef : keyLe e.1 f.1 := by unfold keyLe; simpa using hfe
      rw [List.pairwise_cons]
      refine ⟨?_, List.pairwise_cons.mpr h⟩
      intro g hg
      rcases List.mem_cons.mp hg with hg | hg
      · subst hg; exact hef
      · exact keyLe_trans hef (h.1 g hg)

/-- the entries come out in non-decreasing key order -/
theorem sortE_sorted {α : Type} (l : List (Key × α)) :
    (sortE l).Pairwise (fun a b => keyLe a.1 b.1) := by
  induction l with
  | nil => simp [sortE]
  | cons e r ih => exact insertE_sorted e _ ih

/-- sorting commutes with any map that keeps the keys: "render, then sort" = "sort, then render" -/
theorem insertE_map {α β : Type} (f : Key × α → β) (e : Key × α)
    (l : List (Key × α)) :
    insertE (e.1, f e) (l.map fun x => (x.1, f x)) = (insertE e l).map fun x => (x.1, f x) := by
  induction l with
  | nil => simp [insertE]
  | cons g r ih =>
    simp only [List.map_cons, insertE]
    split <;> simp [ih]

theorem sortE_map {α β : Type} (f : Key × α → β) (l : List (Key × α)) :
    sortE (l.map fun x => (x.1, f x)) = (sortE l).map fun x => (x.1, f x) := by
  induction l with
  | nil => simp [sortE]
  | cons e r ih => simp only [List.map_cons, sortE, ih, insertE_map]

/-- with distinct keys the order is strict -/
theorem sortE_strict {α : Type} (l : List (Key × α)) (hnd : (l.map (·.1)).Nodup) :
    (sortE l).Pairwise (fun a b => kLt a.1 b.1 = true) := by
  have hs := sortE_sorted l
  have hnd' : ((sortE l).map (·.1)).Nodup := ((sortE_perm l).map _).nodup_iff.mpr hnd
  generalize sortE l = m at hs hnd'
  induction m with
  | nil => exact .nil
  | cons e r ih =>
    rw [List.pairwise_cons] at hs ⊢
    simp only [List.map_cons, List.nodup_cons] at hnd'
    refine ⟨?_, ih hs.2 hnd'.2⟩
    intro g hg
    rcases kLt_total e.1 g.1 with h | h | h
    · exact h
    · exact absurd (h ▸ List.mem_map_of_mem (f := (·.1)) hg) hnd'.1
    · have := hs.1 g hg; unfold keyLe at this; simp [h] at this

/-! ## text and lines -/

@[simp] theorem plain_text (t : List Char) : (plain t).text = t := rfl
@[simp] theorem plain_kind (t : List Char) : (plain t).kind = .text := rfl
@[simp] theorem text_nil : text [] = [] := rfl
@[simp] theorem text_none (r : List (Option Chunk)) : text (none :: r) = '\n' :: text r := rfl
@[simp] theorem text_some (ch : Chunk) (r : List (Option Chunk)) :
    text (some ch :: r) = ch.text ++ text r := rfl

theorem text_append (a b : List (Option Chunk)) : text (a ++ b) = text a ++ text b := by
  induction a with
  | nil => rfl
  | cons x r ih => cases x <;> simp [ih]

theorem joinLines_cons (l : List Chunk) (ls : List (List Chunk)) (h : ls ≠ []) :
    joinLines (l :: ls) = lineText l ++ '\n' :: joinLines ls := by
  cases ls with
  | nil => exact absurd rfl h
  | cons m r => rfl

theorem groupLinesGo_ne_nil (acc : List Chunk) (cs : List (Option Chunk)) (ch : Chunk) :
    groupLinesGo acc (cs ++ [some ch]) ≠ [] := by
  induction cs generalizing acc with
  | nil => simp [groupLinesGo]
  | cons x r ih =>
    cases x with
    | none => simp [groupLinesGo]
    | some d => simpa [groupLinesGo] using ih _

/-- joining the lines gives the chunk text back, for any chunk list that ends with a chunk -/
theorem joinLines_groupLinesGo (acc : List Chunk) (cs : List (Option Chunk)) (ch : Chunk) :
    joinLines (groupLinesGo acc (cs ++ [some ch])) = lineText acc ++ text (cs ++ [some ch]) := by
  induction cs generalizing acc with
  | nil => simp [groupLinesGo, joinLines, lineText]
  | cons x r ih =>
    cases x with
    | none =>
      simp only [List.cons_append, groupLinesGo, text_none]
      rw [joinLines_cons _ _ (groupLinesGo_ne_nil _ _ _), ih]
      simp [lineText]
    | some d =>
      simp only [List.cons_append, groupLinesGo, text_some]
      rw [ih]
      simp [lineText]

/-- a line that has been closed by a marker is not affected by anything that follows -/
theorem groupLinesGo_split (acc : List Chunk) (a b : List (Option Chunk)) :
    groupLinesGo acc (a ++ none :: b) = groupLinesGo acc (a ++ [none]) ++ groupLinesGo [] b := by
  induction a generalizing acc with
  | nil => simp [groupLinesGo]
  | cons x r ih =>
    cases x with
    | none => simp [groupLinesGo, ih]
    | some d => simpa [groupLinesGo] using ih _

end PPrint
