import AkVerif.Lemmas.LLTmpl
import AkVerif.Lemmas.LLLl1Final
import AkVerif.Lemmas.LLUniqueTop
import AkVerif.Lemmas.LLLeast
import AkVerif.Lemmas.LLTable2
/-!
The remaining composed statements of C02 for `constructG` (dictionaries with production templates; what the
driver executes, up to the `verify_grammar` stage of `constructGN`, see `Lemmas/LLCtorN.lean`):
exact FIRST/FOLLOW sets, the exact conflict report, "LL(1) as written ⇒ not ambiguous", uniqueness of the
derivation tree, `parse` returns that tree, independence of `smart_factorization`.
The proofs are those of the `construct` versions: they use the stages recorded in `BuiltG` and the
well-formedness of the expanded dictionary (`createProdsT_wf`, needs `PlainNames`).
-/
set_option linter.unusedSectionVars false
namespace LL
open Ak

section G
variable {T : Tmpl} {inp : CtorIn} {P : Parser}

theorem sets_exact_G (hB : BuiltG T inp P) (X t : Sym) :
    ((∃ f, dget X P.first = some f ∧ t ∈ f) ↔ First P.prods P.terminals P.nullables X t) ∧
    ((∃ w, dget X P.follow = some w ∧ t ∈ w) ↔
        Follow P.prods P.terminals P.nullables P.first P.start endSym X t) := by
  have h1 := verifyPart1_ok hB.hV
  have hnt := lst_nulls_not_terms hB.hN (fun k hk => h1.disjoint k hk)
  exact ⟨firstSets_exact hB.hFi hnt X t, followSets_exact hB.hFo hnt X t⟩

theorem conflict_report_exact_G (hB : BuiltG T inp P) :
    isAmbiguous P.table = false ↔
      ∀ A rules, (A, rules) ∈ P.prods →
        rules.Pairwise (PredDisjoint P.terminals P.nullables P.first P.follow A) :=
  not_ambiguous_iff_disjoint (builtG_struct hB).1 hB.hT

theorem l1z_facts_G (hB : BuiltG T inp P) (hpl : PlainNames inp.prods) {NU : List Sym} {FU : SetMap Sym}
    (hNU : nullables P.userProds = .ok NU)
    (hFU : firstSets P.terminals NU P.userProds = .ok FU)
    (hne : ∀ X rules, (X, rules) ∈ P.userProds → rules ≠ [])
    (hstart : inp.start ∈ inp.prods.map (·.1)) :
    l1z_Facts P.userProds P.prods P.suffix P.terminals NU P.nullables FU P.first P.start := by
  obtain ⟨hR, hndG⟩ := factRelD_of_builtG hB hpl
  obtain ⟨hUwf, _⟩ := createProdsT_wf hB.hU hpl userWF_nil
  have hterm := terms_path_nil hB.hD
  obtain ⟨hne', hext⟩ := factorize_helpers hUwf hterm hB.hF
  have href := factorize_referenced hUwf hterm hB.hF
  have hprod : ∀ s ∈ P.suffix, ∃ e, FlatD P.prods P.suffix s e := by
    refine tr_productive (fun s => s.path.length) hne' ?_
    intro s p hp l hl hlS
    obtain ⟨rules, hm, r, hr, hrp⟩ := mem_gramRules.1 hp
    exact Ext_path_lt (hext s rules hm r hr l (by rw [hrp]; exact hl) hlS)
  have hP1 := verifyPart1_ok hB.hV
  have hSpath : ∀ s ∈ P.suffix, s.path ≠ [] := by
    intro s hs hp
    have := (factorize_struct hB.hF).2 s hs
    simp [Sym.isSuf, hp] at this
  have hkG : ∀ k ∈ pkeys P.prods, k ∉ P.terminals := hP1.disjoint
  have hST : ∀ s ∈ P.suffix, s ∉ P.terminals := fun s hs => hkG s (hR.sufKeys s hs)
  have hkU : ∀ k ∈ pkeys P.userProds, k ∉ P.terminals := fun k hk => hkG k (hR.keys k hk)
  have hntG : ∀ s ∈ P.nullables, s ∉ P.terminals := lst_nulls_not_terms hB.hN hkG
  have hntU : ∀ s ∈ NU, s ∉ P.terminals := lst_nulls_not_terms hNU hkU
  have knownU : ∀ s ∈ psyms P.userProds, s ∈ P.terminals ∨ s ∈ pkeys P.userProds := by
    intro s hs
    obtain ⟨X, rules, hm, r, hr, hsr⟩ := mem_psyms.1 hs
    have hfl := hR.flatOut X r.rhs (mem_gramRules.2 ⟨rules, hm, r, hr, rfl⟩)
    obtain ⟨hsS, hsG⟩ := l1c_flat_syms hR.inner hfl s hsr
    rcases hP1.known s hsG with h | h
    · exact Or.inl h
    · exact Or.inr (hR.keysBack s h hsS)
  have hrankU : ∃ rank : Sym → Nat, ∀ X Y, Reach1 P.userProds NU X Y → Y ∈ pkeys P.userProds →
      rank Y < rank X := by
    obtain ⟨rank, hr⟩ := recCheck_rank hndG (fun k hk => mem_sortedKeys.2 hk) hB.hR
    refine ⟨rank, fun X Y hXY hY => ?_⟩
    exact plus_rank hr hkG (plus_transfer_rev hR hNU hB.hN (Plus.one hXY)) (hR.keys Y hY)
  exact {
    hR := hR, hndG := hndG, hUwf := hUwf, hNU := hNU, hNG := hB.hN, hFU := hFU, hFG := hB.hFi,
    hntU := hntU, hntG := hntG, hST := hST, hprod := hprod, hSpath := hSpath, hext := hext,
    href := href, hstart := hUwf.keyUser _ (start_user_of_builtG hB hpl hstart), hkU := hkU, hkG := hkG,
    knownU := knownU, knownG := hP1.known, hneU := hne, hrankU := hrankU,
    hexA := factorize_exA hUwf hterm hB.hF }

/-- what the constructor guarantees about the expanded (user's) dictionary itself: its symbols are terminals or
keys, its keys are no terminals, the start symbol is a key -/
theorem userDict_facts_G (hB : BuiltG T inp P) (hpl : PlainNames inp.prods)
    (hstart : inp.start ∈ inp.prods.map (·.1)) :
    (∀ s ∈ psyms P.userProds, s ∈ P.terminals ∨ s ∈ pkeys P.userProds) ∧
    (∀ k ∈ pkeys P.userProds, k ∉ P.terminals) ∧ P.start ∈ pkeys P.userProds ∧ endSym ∈ P.terminals := by
  obtain ⟨hR, _⟩ := factRelD_of_builtG hB hpl
  have hP1 := verifyPart1_ok hB.hV
  refine ⟨?_, fun k hk => hP1.disjoint k (hR.keys k hk), start_user_of_builtG hB hpl hstart, hB.core.hendT⟩
  intro s hs
  obtain ⟨X, rules, hm, r, hr, hsr⟩ := mem_psyms.1 hs
  have hfl := hR.flatOut X r.rhs (mem_gramRules.2 ⟨rules, hm, r, hr, rfl⟩)
  obtain ⟨hsS, hsG⟩ := l1c_flat_syms hR.inner hfl s hsr
  rcases hP1.known s hsG with h | h
  · exact Or.inl h
  · exact Or.inr (hR.keysBack s h hsS)

/-- **a grammar (with templates) that is LL(1) as written is reported as not ambiguous** -/
theorem ll1_unambiguous_G (hP : constructG T inp = .ok P) (hpl : PlainNames inp.prods)
    {NU : List Sym} {FU WU : SetMap Sym}
    (hNU : nullables P.userProds = .ok NU)
    (hFU : firstSets P.terminals NU P.userProds = .ok FU)
    (hWU : followSets P.terminals NU FU P.userProds P.start endSym = .ok WU)
    (hne : ∀ X rules, (X, rules) ∈ P.userProds → rules ≠ [])
    (hstart : inp.start ∈ inp.prods.map (·.1))
    (hLL1 : ∀ X rules, (X, rules) ∈ P.userProds →
        rules.Pairwise (PredDisjoint P.terminals NU FU WU X)) :
    isAmbiguous P.table = false := by
  have hB := constructG_built hP
  have hF := l1z_facts_G hB hpl hNU hFU hne hstart
  refine (not_ambiguous_iff_disjoint hF.hndG hB.hT).2 ?_
  intro A rulesG hmG
  have hA : A ∈ pkeys P.prods := List.mem_map.2 ⟨_, hmG, rfl⟩
  obtain ⟨c, hBel⟩ := below_exists hF.hR hF.hUwf hF.hext hF.href A hA
  have hXG : rootOf A ∈ pkeys P.prods := l1c_below_key hBel hA
  have hXS : rootOf A ∉ P.suffix := fun h => hF.hSpath _ h rfl
  have hXU : rootOf A ∈ pkeys P.userProds := hF.hR.keysBack _ hXG hXS
  obtain ⟨⟨X', rulesU⟩, hmU, eX⟩ := List.mem_map.1 hXU
  simp only at eX
  subst eX
  have hLLs : rulesU.Pairwise fun r1 r2 => ∀ t,
      PredS P.userProds P.terminals NU FU P.start endSym (rootOf A) r1.rhs t →
      PredS P.userProds P.terminals NU FU P.start endSym (rootOf A) r2.rhs t → False :=
    List.Pairwise.imp_of_mem
      (fun h1 h2 h => (predDisjoint_iff_predS hNU hFU hWU hF.hkU hF.knownU hmU h1 h2).1 h)
      (hLL1 _ rulesU hmU)
  have hd : dget A P.prods = some rulesG := dget_of_mem_nodup hF.hndG hmG
  have hkey := l1z_key hF (endS := endSym) hBel rfl hd hmU hLLs
  exact List.Pairwise.imp_of_mem
    (fun h1 h2 h => (predDisjoint_iff_predS hB.hN hB.hFi hB.hFo hF.hkG hF.knownG hmG h1 h2).2 h)
    hkey

/-! ### a single derivation tree -/

theorem unique_gtree_G (hB : BuiltG T inp P) (hnd : (P.prods.map (·.1)).Nodup)
    (hamb : isAmbiguous P.table = false) (d1 d2 : Tree Sym)
    (h1 : GTree P.terminals P.prods d1) (h2 : GTree P.terminals P.prods d2)
    (hn1 : d1.name = P.start) (hn2 : d2.name = P.start) (hy : d1.yield = d2.yield) : d1 = d2 := by
  have hv := verifyPart1_ok hB.hV
  obtain ⟨hC, hW⟩ := model_closed P.suffix hnd (fun k hk => hv.disjoint k hk) hB.hN hB.hFi hB.hFo hB.hT hamb
  exact tree_unique_root hC P.start endSym hW d1 d2 (pvalid_of_gtree P.table P.suffix d1 h1)
    (pvalid_of_gtree P.table P.suffix d2 h2) hn1 hn2 hy

theorem unique_user_tree_G (hB : BuiltG T inp P) (hD : FactRelD P.userProds P.prods P.suffix)
    (hnd : (P.prods.map (·.1)).Nodup) (hamb : isAmbiguous P.table = false) (t1 t2 : Tree Sym)
    (h1 : Derives P.terminals P.userProds t1) (h2 : Derives P.terminals P.userProds t2)
    (hn1 : t1.name = P.start) (hn2 : t2.name = P.start) (hy : t1.yield = t2.yield) : t1 = t2 := by
  have hv := verifyPart1_ok hB.hV
  have hdisj : ∀ k ∈ pkeys P.prods, k ∉ P.terminals := fun k hk => hv.disjoint k hk
  obtain ⟨d1, g1, n1, y1, u1⟩ := gtree_of_derives_unf' hD hdisj t1 h1
  obtain ⟨d2, g2, n2, y2, u2⟩ := gtree_of_derives_unf' hD hdisj t2 h2
  have : d1 = d2 := unique_gtree_G hB hnd hamb d1 d2 g1 g2 (n1.trans hn1) (n2.trans hn2)
    (by rw [y1, y2, hy])
  rw [← u1, ← u2, this]

theorem parse_is_the_tree_G (hB : BuiltG T inp P) (hD : FactRelD P.userProds P.prods P.suffix)
    (hnd : (P.prods.map (·.1)).Nodup) (hamb : isAmbiguous P.table = false)
    (hsu : P.start ∈ pkeys P.userProds) (raw : List (List Char × List Char))
    (hEnd : ∀ tok ∈ (P.tokens raw).dropLast, tok.name ≠ endSym)
    (fuel : Nat) (t : Tree Sym) (h : P.parse raw fuel = .ok t)
    (u : Tree Sym) (hu : Derives P.terminals P.userProds u) (hun : u.name = P.start)
    (huy : u.yield = (P.tokens raw).dropLast) : u = t := by
  have hv := verifyPart1_ok hB.hV
  obtain ⟨hn, hd, _, hy⟩ := parse_sound_of_rel hB.core (factRel_of_D hv hD) hsu raw hEnd fuel t h
  exact unique_user_tree_G hB hD hnd hamb u t hu hd hun hn (by rw [huy, hy])

end G

/-! ### both `smart_factorization` settings -/

theorem smart_indep_G {T : Tmpl} {inp : CtorIn} {P1 P2 : Parser}
    (h1 : constructG T { inp with smart := true } = .ok P1)
    (h2 : constructG T { inp with smart := false } = .ok P2)
    (hpl : PlainNames inp.prods) (hstart : inp.start ∈ inp.prods.map (·.1))
    (ha1 : isAmbiguous P1.table = false) (ha2 : isAmbiguous P2.table = false)
    (raw : List (List Char × List Char))
    (hEnd : ∀ tok ∈ (P1.tokens raw).dropLast, tok.name ≠ endSym) :
    (∃ fuel t, P1.parse raw fuel = .ok t) ↔ (∃ fuel t, P2.parse raw fuel = .ok t) := by
  have b1 := constructG_built h1
  have b2 := constructG_built h2
  have eU : P1.userProds = P2.userProds := by
    have := b1.hU; rw [show ({ inp with smart := true } : CtorIn).prods = inp.prods from rfl] at this
    have t2 := b2.hU; rw [show ({ inp with smart := false } : CtorIn).prods = inp.prods from rfl] at t2
    rw [this] at t2; injection t2
  have eT : P1.terminals = P2.terminals := by rw [b1.hterms, b2.hterms]; rfl
  have eS : P1.start = P2.start := by rw [b1.hstart, b2.hstart]
  have esk : P1.skip = P2.skip := by
    have := b1.hskip
    have t2 := b2.hskip
    rw [show skipSet ({ inp with smart := true } : CtorIn) (tokenNames { inp with smart := true }) =
      skipSet ({ inp with smart := false } : CtorIn) (tokenNames { inp with smart := false }) from rfl] at this
    rw [this] at t2; injection t2
  have etok : P1.tokens raw = P2.tokens raw := by
    have er : P1.rename = P2.rename := by
      funext r; simp [Parser.rename, b1.hsyn, b2.hsyn, b1.hkw, b2.hkw]
    simp [Parser.tokens, er, esk]
  rw [exact_G h1 hpl hstart ha1 raw hEnd, exact_G h2 hpl hstart ha2 raw (etok ▸ hEnd),
    eU, eT, eS, etok]

/-! ### `parse(text, start_symbol_name=s)` on a dictionary with templates -/

theorem parseFrom_sound_G {T : Tmpl} {inp : CtorIn} {P : Parser} (hB : BuiltG T inp P)
    (hpl : PlainNames inp.prods) (s : List Char)
    (hs : s ∈ inp.prods.map (·.1)) (raw : List (List Char × List Char))
    (hEnd : ∀ tok ∈ (P.tokens raw).dropLast, tok.name ≠ endSym)
    (fuel : Nat) (t : Tree Sym) (h : P.parseFrom s raw fuel = .ok t) :
    t.name = parseSym s ∧ Derives P.terminals P.userProds t ∧ NoHelper P.suffix t ∧
      t.yield = (P.tokens raw).dropLast := by
  obtain ⟨hD, _⟩ := factRelD_of_builtG hB hpl
  have hsU : parseSym s ∈ pkeys P.userProds := by
    obtain ⟨_, hk⟩ := createProdsT_wf hB.hU hpl userWF_nil
    rw [hk]
    simp only [pkeys, List.map_nil, List.nil_append, List.mem_map]
    obtain ⟨e, he, hes⟩ := List.mem_map.1 hs
    exact ⟨e, he, by rw [hes]⟩
  have hsG : parseSym s ∈ pkeys P.prods := hD.keys _ hsU
  rw [parseFrom_eq P s raw fuel hsG] at h
  let P' : Parser := { P with start := parseSym s }
  have hC : Core P' := hB.core.withStart hsG
  exact parse_sound_of_rel (P := P') hC (factRel_of_D hC.hV hD) hsU raw hEnd fuel t h

theorem parseFrom_total_G {T : Tmpl} {inp : CtorIn} {P : Parser} (hB : BuiltG T inp P) (s : List Char)
    (raw : List (List Char × List Char)) :
    ∃ k, ∀ fuel, k ≤ fuel → (∃ t, P.parseFrom s raw fuel = .ok t) ∨
      P.parseFrom s raw fuel = .error .parsingError ∨ P.parseFrom s raw fuel = .error .assertion := by
  by_cases hs : parseSym s ∈ P.prods.map (·.1)
  · obtain ⟨hnd, hsuf⟩ := builtG_struct hB
    let P' : Parser := { P with start := parseSym s }
    have hC : Core P' := hB.core.withStart hs
    obtain ⟨k, hk⟩ := parse_total_of_built (P := P') hC hnd hsuf raw
    refine ⟨k, fun fuel hf => ?_⟩
    rw [parseFrom_eq P s raw fuel hs]
    rcases hk fuel hf with h | h
    · exact Or.inl h
    · exact Or.inr (Or.inl h)
  · exact ⟨0, fun fuel _ => Or.inr (Or.inr (parseFrom_not_key P s raw fuel hs))⟩

end LL
