import AkVerif.Lemmas.GhistTotal
/-!
Value-level specification of `_find_new_rcommits_in_build`: the parent builds computed for a report commit are the
*maximal* builds of the current branch among the report commits properly reachable from it (`IsMax (BR …)`), and
`rbuilds_ancestors` of a build is the set of all builds of the branch properly reachable from it.
-/
namespace Ghist
open Ak

/-! ### order theory on the graph of report commits -/

theorem RReach.antisymm {rcs : List RC} (hT : RcTopo rcs) {a b : Nat} (h1 : RReach rcs a b) (h2 : RReach rcs b a) :
    a = b := by
  have := h1.lt_or_eq hT; have := h2.lt_or_eq hT; omega

/-- `x` is maximal among the report commits satisfying `P` (w.r.t. reachability) -/
def IsMax (rcs : List RC) (P : Nat → Prop) (x : Nat) : Prop := P x ∧ ∀ q, P q → q ≠ x → ¬ RReach rcs x q

/-- in a bounded set every element lies below a maximal one -/
theorem exists_max {rcs : List RC} (hT : RcTopo rcs) (P : Nat → Prop) (N : Nat) (hb : ∀ x, P x → x < N) :
    ∀ (k x : Nat), N - x ≤ k → P x → ∃ m, IsMax rcs P m ∧ RReach rcs x m := by
  intro k
  induction k with
  | zero => intro x hk hx; have := hb x hx; omega
  | succ k ih =>
    intro x hk hx
    classical
    by_cases hmax : ∀ q, P q → q ≠ x → ¬ RReach rcs x q
    · exact ⟨x, ⟨hx, hmax⟩, .refl x⟩
    · have : ∃ q, P q ∧ q ≠ x ∧ RReach rcs x q := by
        apply Classical.byContradiction
        intro hne
        apply hmax
        intro q hq hqx hr
        exact hne ⟨q, hq, hqx, hr⟩
      obtain ⟨q, hq, hqx, hr⟩ := this
      have hle := hr.lt_or_eq hT
      have hqN := hb q hq
      obtain ⟨m, hm, hqm⟩ := ih q (by omega) hq
      exact ⟨m, hm, hr.trans hqm⟩

/-- two sets with the same "cofinal" part have the same maximal elements -/
theorem isMax_cofinal {rcs : List RC} (hT : RcTopo rcs) {P Q : Nat → Prop} (hsub : ∀ x, Q x → P x)
    (hcof : ∀ x, P x → ∃ r, Q r ∧ RReach rcs x r) (x : Nat) : IsMax rcs Q x ↔ IsMax rcs P x := by
  constructor
  · rintro ⟨hq, hmax⟩
    refine ⟨hsub x hq, ?_⟩
    intro q hpq hne hr
    obtain ⟨r, hqr, hr2⟩ := hcof q hpq
    by_cases hrx : r = x
    · subst hrx
      exact hne (RReach.antisymm hT hr2 hr)
    · exact hmax r hqr hrx (hr.trans hr2)
  · rintro ⟨hp, hmax⟩
    obtain ⟨r, hqr, hr⟩ := hcof x hp
    have : r = x := by
      apply Classical.byContradiction
      intro hne
      exact hmax r (hsub r hqr) hne hr
    subst this
    exact ⟨hqr, fun q hq hne => hmax q (hsub q hq) hne⟩

/-! ### lists as sets -/

theorem nodup_addNew : ∀ (l acc : List Nat), acc.Nodup → (addNew acc l).Nodup := by
  intro l
  unfold addNew
  induction l with
  | nil => intro acc h; simpa using h
  | cons a l ih =>
    intro acc h
    rw [List.foldl_cons]
    apply ih
    split
    · exact h
    · rename_i hc
      rw [List.nodup_append]
      refine ⟨h, by simp, ?_⟩
      intro x hx y hy
      simp at hy; subst hy
      intro hxy; subst hxy
      exact hc (by simpa using hx)

/-- a duplicate-free list contained in a list that is not longer has the same elements -/
theorem subset_of_length_le : ∀ (a b : List Nat), a.Nodup → (∀ x ∈ a, x ∈ b) → b.length ≤ a.length →
    ∀ y ∈ b, y ∈ a := by
  intro a
  induction a with
  | nil => intro b _ _ hl y hy; cases b with
    | nil => cases hy
    | cons z zs => simp at hl
  | cons x a ih =>
    intro b hnd hsub hl y hy
    rw [List.nodup_cons] at hnd
    have hxb : x ∈ b := hsub x (by simp)
    by_cases hyx : y = x
    · subst hyx; simp
    · have hy' : y ∈ b.erase x := (List.mem_erase_of_ne hyx).mpr hy
      have := ih (b.erase x) hnd.2
        (fun z hz => (List.mem_erase_of_ne (by intro h; subst h; exact hnd.1 hz)).mpr (hsub z (by simp [hz])))
        (by rw [List.length_erase_of_mem hxb]; simp at hl; omega) y hy'
      exact List.mem_cons_of_mem _ this

theorem sameSet_mem {a b : List Nat} (ha : a.Nodup) (hs : sameSet a b = true) (x : Nat) : x ∈ b ↔ x ∈ a := by
  simp only [sameSet, Bool.and_eq_true, beq_iff_eq, List.all_eq_true, List.contains_eq_mem,
    decide_eq_true_eq] at hs
  constructor
  · exact subset_of_length_le a b ha hs.2 (by omega) x
  · exact hs.2 x

theorem reuse_spec (bpar : List (Nat × List Nat)) (prs : List Nat) (hnd : prs.Nodup)
    (hvn : ∀ p l, bpar.lookup p = some l → l.Nodup) : ∀ (ps : List Nat),
    (reuse bpar prs ps).Nodup ∧ ∀ x, x ∈ reuse bpar prs ps ↔ x ∈ prs := by
  intro ps
  induction ps with
  | nil => exact ⟨hnd, fun _ => Iff.rfl⟩
  | cons p ps ih =>
    simp only [reuse]
    split
    · rename_i l hl
      split
      · rename_i hs
        exact ⟨hvn p l hl, fun x => sameSet_mem hnd hs x⟩
      · exact ih
    · exact ih

/-! ### the loops of `_find_new_rcommits_in_build`, value level -/

section
variable {β : Type}

def CurB (rp : Repo β) (x : Nat) : Prop := isCurBuild rp x = true

/-- builds of the current branch properly reachable from the report commit `r` -/
def BRr (rp : Repo β) (r x : Nat) : Prop := CurB rp x ∧ x ≠ r ∧ RReach rp.rcs x r

/-- builds of the current branch reachable from one of `ps` -/
def URr (rp : Repo β) (ps : List Nat) (x : Nat) : Prop := CurB rp x ∧ ∃ p ∈ ps, RReach rp.rcs x p

def AncSpec (rp : Repo β) (anc : List (Nat × List Nat)) : Prop :=
  ∀ j a, anc.lookup j = some a → ∀ x, x ∈ a ↔ BRr rp j x

def ValSpec (rp : Repo β) (bpar : List (Nat × List Nat)) : Prop :=
  ∀ r v, bpar.lookup r = some v → v.Nodup ∧ ∀ x, x ∈ v ↔ IsMax rp.rcs (BRr rp r) x

theorem isExtra_spec (anc : List (Nat × List Nat)) : ∀ (js : List Nat) (i : Nat) (b : Bool),
    isExtra anc js i = .ok b → (b = true ↔ ∃ j ∈ js, ∃ a, anc.lookup j = some a ∧ i ∈ a) := by
  intro js
  induction js with
  | nil => intro i b h; simp [isExtra] at h; subst h; simp
  | cons j js ih =>
    intro i b h
    simp only [isExtra] at h
    split at h
    · cases h
    · rename_i a ha
      split at h
      · rename_i hc
        cases h
        simp only [true_iff]
        exact ⟨j, by simp, a, ha, by simpa using hc⟩
      · rename_i hc
        rw [ih i b h]
        constructor
        · rintro ⟨j', hj', a', ha', hi'⟩; exact ⟨j', by simp [hj'], a', ha', hi'⟩
        · rintro ⟨j', hj', a', ha', hi'⟩
          rcases List.mem_cons.mp hj' with h1 | h1
          · subst h1; rw [ha] at ha'; cases ha'; exact absurd (by simpa using hi') hc
          · exact ⟨j', h1, a', ha', hi'⟩

theorem extras_spec (anc : List (Nat × List Nat)) (s : List Nat) : ∀ (is r : List Nat),
    extras anc s is = .ok r → ∀ i, i ∈ r ↔ i ∈ is ∧ ∃ j ∈ s, ∃ a, anc.lookup j = some a ∧ i ∈ a := by
  intro is
  induction is with
  | nil => intro r h i; simp [extras] at h; subst h; simp
  | cons i0 is ih =>
    intro r h i
    simp only [extras] at h
    split at h
    · cases h
    · rename_i b hb
      split at h
      · cases h
      · rename_i r' hr'
        cases h
        have hspec := isExtra_spec anc s i0 b hb
        have ih' := ih r' hr' i
        cases b with
        | true =>
          simp only [if_true, List.mem_cons, ih']
          constructor
          · rintro (h1 | ⟨h1, h2⟩)
            · subst h1; exact ⟨Or.inl rfl, hspec.mp rfl⟩
            · exact ⟨Or.inr h1, h2⟩
          · rintro ⟨h1 | h1, h2⟩
            · exact Or.inl h1
            · exact Or.inr ⟨h1, h2⟩
        | false =>
          simp only [Bool.false_eq_true, if_false, List.mem_cons, ih']
          constructor
          · rintro ⟨h1, h2⟩; exact ⟨Or.inr h1, h2⟩
          · rintro ⟨h1 | h1, h2⟩
            · subst h1; exact absurd (hspec.mpr h2) (by simp)
            · exact ⟨h1, h2⟩

theorem maximal_spec (anc : List (Nat × List Nat)) : ∀ (fuel : Nat) (s r : List Nat), s.Nodup →
    maximal anc fuel s = .ok r →
    r.Nodup ∧ ∀ x, x ∈ r ↔ x ∈ s ∧ ¬ ∃ j ∈ s, ∃ a, anc.lookup j = some a ∧ x ∈ a := by
  intro fuel
  induction fuel with
  | zero => intro s r _ h; simp [maximal] at h
  | succ fuel ih =>
    intro s r hnd h
    simp only [maximal] at h
    split at h
    · cases h
    · rename_i hex
      cases h
      refine ⟨hnd, fun x => ?_⟩
      have := extras_spec anc s s [] hex x
      simp only [List.not_mem_nil, false_iff, not_and] at this
      exact ⟨fun hx => ⟨hx, this hx⟩, fun hx => hx.1⟩
    · rename_i y ex hex
      have hspec := extras_spec anc s s (y :: ex) hex
      obtain ⟨h1, h2⟩ := ih (s.filter fun i => !(y :: ex).contains i) r (hnd.filter _) h
      refine ⟨h1, fun x => ?_⟩
      rw [h2 x]
      simp only [List.mem_filter, Bool.not_eq_true', List.contains_eq_mem, decide_eq_false_iff_not]
      constructor
      · rintro ⟨⟨hxs, hxe⟩, hno⟩
        refine ⟨hxs, ?_⟩
        intro hx
        exact hxe ((hspec x).mpr ⟨hxs, hx⟩)
      · rintro ⟨hxs, hno⟩
        refine ⟨⟨hxs, fun hxe => hno ((hspec x).mp hxe).2⟩, ?_⟩
        rintro ⟨j, ⟨hj, _⟩, a, ha, hxa⟩
        exact hno ⟨j, hj, a, ha, hxa⟩

theorem rawParents_spec {rp : Repo β} {bpar : List (Nat × List Nat)} : ∀ (ps acc raw : List Nat),
    rawParents rp bpar ps acc = .ok raw →
    (acc.Nodup → raw.Nodup) ∧ (∀ p ∈ ps, ¬ CurB rp p → ∃ v, bpar.lookup p = some v) ∧
    ∀ x, x ∈ raw ↔ x ∈ acc ∨ ∃ p ∈ ps, (CurB rp p ∧ x = p) ∨
      (¬ CurB rp p ∧ ∃ v, bpar.lookup p = some v ∧ x ∈ v) := by
  intro ps
  induction ps with
  | nil => intro acc raw h; simp [rawParents] at h; subst h; simp
  | cons p ps ih =>
    intro acc raw h
    simp only [rawParents] at h
    split at h
    · rename_i hc
      obtain ⟨h1, h2, h3⟩ := ih _ raw h
      refine ⟨fun hn => h1 (nodup_addNew _ _ hn), ?_, ?_⟩
      · intro q hq hnq
        rcases List.mem_cons.mp hq with h4 | h4
        · subst h4; exact absurd hc hnq
        · exact h2 q h4 hnq
      · intro x
        rw [h3 x, mem_addNew]
        simp only [List.mem_cons, List.not_mem_nil, or_false, exists_eq_or_imp]
        constructor
        · rintro ((h4 | h4) | h4)
          · exact Or.inl h4
          · exact Or.inr (Or.inl (Or.inl ⟨hc, h4⟩))
          · exact Or.inr (Or.inr h4)
        · rintro (h4 | (h4 | h4) | h4)
          · exact Or.inl (Or.inl h4)
          · exact Or.inl (Or.inr h4.2)
          · exact absurd hc h4.1
          · exact Or.inr h4
    · rename_i hc
      have hc' : ¬ CurB rp p := hc
      split at h
      · cases h
      · rename_i l hl
        obtain ⟨h1, h2, h3⟩ := ih _ raw h
        refine ⟨fun hn => h1 (nodup_addNew _ _ hn), ?_, ?_⟩
        · intro q hq hnq
          rcases List.mem_cons.mp hq with h4 | h4
          · subst h4; exact ⟨l, hl⟩
          · exact h2 q h4 hnq
        · intro x
          rw [h3 x, mem_addNew]
          simp only [List.mem_cons, exists_eq_or_imp]
          constructor
          · rintro ((h4 | h4) | h4)
            · exact Or.inl h4
            · exact Or.inr (Or.inl (Or.inr ⟨hc', l, hl, h4⟩))
            · exact Or.inr (Or.inr h4)
          · rintro (h4 | (h4 | ⟨_, v, hv, hx⟩) | h4)
            · exact Or.inl (Or.inl h4)
            · exact absurd h4.1 hc'
            · rw [hl] at hv; cases hv; exact Or.inl (Or.inr hx)
            · exact Or.inr h4

/-- the parent builds of a report commit with report parents `ps` : the maximal builds of the current branch
reachable from `ps` -/
theorem prsOf_spec {rp : Repo β} {anc bpar : List (Nat × List Nat)} (hT : RcTopo rp.rcs)
    (hlt : ∀ x, CurB rp x → x < rp.rcs.length) (ha : AncSpec rp anc) (hanck : ∀ x, CurB rp x → x ∈ keys anc)
    (hv : ValSpec rp bpar) {ps prs : List Nat} (h : prsOf rp anc bpar ps = .ok prs) :
    prs.Nodup ∧ ∀ x, x ∈ prs ↔ IsMax rp.rcs (URr rp ps) x := by
  unfold prsOf at h
  split at h
  · cases h
  · rename_i raw hraw
    split at h
    · cases h
    · rename_i m hm
      cases h
      obtain ⟨hrn, hlook, hrmem⟩ := rawParents_spec ps [] raw hraw
      have hrn := hrn List.nodup_nil
      obtain ⟨hmn, hmmem⟩ := maximal_spec anc _ raw m hrn hm
      obtain ⟨h1, h2⟩ := reuse_spec bpar m hmn (fun p l hl => (hv p l hl).1) ps
      refine ⟨h1, fun x => ?_⟩
      rw [h2 x]
      -- raw ⊆ U, cofinal in U
      have hsub : ∀ x, x ∈ raw → URr rp ps x := by
        intro x hx
        rcases (hrmem x).mp hx with h3 | ⟨p, hp, h3 | ⟨_, v, hvl, hxv⟩⟩
        · cases h3
        · obtain ⟨hc, rfl⟩ := h3; exact ⟨hc, x, hp, .refl x⟩
        · obtain ⟨hc, _, hr⟩ := (((hv p v hvl).2 x).mp hxv).1
          exact ⟨hc, p, hp, hr⟩
      have hcof : ∀ x, URr rp ps x → ∃ r, r ∈ raw ∧ RReach rp.rcs x r := by
        rintro x ⟨hc, p, hp, hr⟩
        classical
        by_cases hcp : CurB rp p
        · exact ⟨p, (hrmem p).mpr (Or.inr ⟨p, hp, Or.inl ⟨hcp, rfl⟩⟩), hr⟩
        · obtain ⟨v, hvl⟩ := hlook p hp hcp
          have hxp : x ≠ p := by intro h; subst h; exact hcp hc
          obtain ⟨mx, hmx, hxm⟩ := exists_max hT (BRr rp p) rp.rcs.length (fun y hy => hlt y hy.1)
            (rp.rcs.length - x) x (Nat.le_refl _) ⟨hc, hxp, hr⟩
          exact ⟨mx, (hrmem mx).mpr (Or.inr ⟨p, hp, Or.inr ⟨hcp, v, hvl, ((hv p v hvl).2 mx).mpr hmx⟩⟩), hxm⟩
      rw [← isMax_cofinal hT hsub hcof x, hmmem x]
      constructor
      · rintro ⟨hxr, hno⟩
        refine ⟨hxr, ?_⟩
        intro q hq hne hr
        apply hno
        have hqk := hanck q (hsub q hq).1
        obtain ⟨a, hal⟩ : ∃ a, anc.lookup q = some a := by
          cases hl : anc.lookup q with
          | none => exact absurd hqk ((lookup_eq_none_iff_keys anc q).mp hl)
          | some a => exact ⟨a, rfl⟩
        exact ⟨q, hq, a, hal, ((ha q a hal) x).mpr ⟨(hsub x hxr).1, fun h => hne h.symm, hr⟩⟩
      · rintro ⟨hxr, hmax⟩
        refine ⟨hxr, ?_⟩
        rintro ⟨j, hj, a, hal, hxa⟩
        obtain ⟨_, hne, hr⟩ := ((ha j a hal) x).mp hxa
        exact hmax j hj (fun h => hne h.symm) hr

end

/-! ### `bp` / `findNew`, value level -/

section
variable {β : Type}

theorem isMax_congr {rcs : List RC} {P Q : Nat → Prop} (h : ∀ x, P x ↔ Q x) (x : Nat) :
    IsMax rcs P x ↔ IsMax rcs Q x := by
  simp only [IsMax, h]

theorem brr_iff_urr {rp : Repo β} (hT : RcTopo rp.rcs) {r : Nat} {rc : RC} (hrc : rp.rcs[r]? = some rc) (x : Nat) :
    BRr rp r x ↔ URr rp rc.parents x := by
  constructor
  · rintro ⟨hc, hne, hr⟩
    cases hr with
    | refl => exact absurd rfl hne
    | step hrc' hp hr' =>
      rw [hrc] at hrc'; cases hrc'
      exact ⟨hc, _, hp, hr'⟩
  · rintro ⟨hc, p, hp, hr⟩
    refine ⟨hc, ?_, .step hrc hp hr⟩
    have h1 := hr.lt_or_eq hT
    have h2 := hT r rc hrc p hp
    omega

theorem bp_vals {rp : Repo β} {anc : List (Nat × List Nat)} (hT : RcTopo rp.rcs)
    (hlt : ∀ x, CurB rp x → x < rp.rcs.length) (ha : AncSpec rp anc) (hanck : ∀ x, CurB rp x → x ∈ keys anc) :
    BpHyps rp anc (fun fs => ValSpec rp fs.bparents) (fun _ _ => True) (fun _ _ => True) (fun _ => True) where
  Vstep := fun _ _ _ => trivial
  Rrefl := fun _ => trivial
  Rtrans := fun _ _ => trivial
  Cmono := fun _ _ => trivial
  Cstop := fun _ _ => trivial
  Hadd := by
    intro s0 s r rc prs _ _ _ _ hrc _ hP _ hprs
    refine ⟨?_, trivial, trivial⟩
    obtain ⟨hnd, hmem⟩ := prsOf_spec hT hlt ha hanck hP hprs
    intro k v hl
    simp only [FS.add] at hl
    by_cases hk : k = r
    · subst hk
      rw [lookup_cons_self] at hl; cases hl
      refine ⟨hnd, fun x => ?_⟩
      rw [hmem x]
      exact (isMax_congr (fun y => (brr_iff_urr hT hrc y).symm) x)
    · rw [lookup_cons_ne _ _ _ _ hk] at hl
      exact hP k v hl

theorem findNew_vals {rp : Repo β} {br : Br} (hT : RcTopo rp.rcs)
    (hlt : ∀ x, CurB rp x → x < rp.rcs.length) (ha : AncSpec rp br.anc)
    (hanck : ∀ x, CurB rp x → x ∈ keys br.anc) (hv : ValSpec rp br.bparents) {heads : List Nat}
    {bpar : List (Nat × List Nat)} {new pb : List Nat} (hf : findNew rp br heads = .ok (bpar, new, pb)) :
    ValSpec rp bpar ∧ pb.Nodup ∧ ∀ x, x ∈ pb ↔ IsMax rp.rcs (URr rp heads) x := by
  unfold findNew at hf
  split at hf
  · cases hf
  · rename_i fs hfold
    split at hf
    · cases hf
    · rename_i pb' hpb
      cases hf
      have H := bp_vals hT hlt ha hanck
      obtain ⟨hP, _, _⟩ := bp_fold_ind (bp rp br.anc rp.rcs.length) H (bp_ind hT H rp.rcs.length)
        heads.reverse ⟨br.bparents, []⟩ fs hv (fun _ _ => trivial) hfold
      exact ⟨hP, prsOf_spec hT hlt ha hanck hP hpb⟩

theorem newAncestors_spec (anc : List (Nat × List Nat)) : ∀ (ps acc r : List Nat),
    newAncestors anc ps acc = .ok r →
    (∀ p ∈ ps, ∃ a, anc.lookup p = some a) ∧
    ∀ x, x ∈ r ↔ x ∈ acc ∨ x ∈ ps ∨ ∃ p ∈ ps, ∃ a, anc.lookup p = some a ∧ x ∈ a := by
  intro ps
  induction ps with
  | nil => intro acc r h; simp [newAncestors] at h; subst h; simp
  | cons p ps ih =>
    intro acc r h
    simp only [newAncestors] at h
    split at h
    · cases h
    · rename_i a ha
      obtain ⟨h1, h2⟩ := ih _ r h
      refine ⟨?_, ?_⟩
      · intro q hq
        rcases List.mem_cons.mp hq with h3 | h3
        · subst h3; exact ⟨a, ha⟩
        · exact h1 q h3
      · intro x
        rw [h2 x, mem_addNew, mem_addNew]
        simp only [List.mem_cons, List.not_mem_nil, or_false, exists_eq_or_imp]
        constructor
        · rintro (((h3 | h3) | h3) | h3 | h3)
          · exact Or.inl h3
          · exact Or.inr (Or.inl (Or.inl h3))
          · exact Or.inr (Or.inr (Or.inl ⟨a, ha, h3⟩))
          · exact Or.inr (Or.inl (Or.inr h3))
          · exact Or.inr (Or.inr (Or.inr h3))
        · rintro (h3 | (h3 | h3) | (⟨a', ha', h3⟩ | h3))
          · exact Or.inl (Or.inl (Or.inl h3))
          · exact Or.inl (Or.inl (Or.inr h3))
          · exact Or.inr (Or.inl h3)
          · rw [ha] at ha'; cases ha'; exact Or.inl (Or.inr h3)
          · exact Or.inr (Or.inr h3)

end

/-! ### the value-level invariant of the DFS state -/

section
variable {π β : Type} {h : Hist π}

structure VInv (st : St β) : Prop where
  anc : AncSpec st.rp st.br.anc
  vals : ValSpec st.rp st.br.bparents
  parents : ∀ b ∈ st.rp.builds, CurB st.rp b.iid →
    b.parents.Nodup ∧ ∀ x, x ∈ b.parents ↔ IsMax st.rp.rcs (BRr st.rp b.iid) x

theorem brr_stable {rp rp' : Repo β} (hpre : ∃ ext, rp'.rcs = rp.rcs ++ ext) (hT' : RcTopo rp'.rcs)
    (hcur : ∀ x, x < rp.rcs.length → (CurB rp' x ↔ CurB rp x)) {r : Nat} (hr : r < rp.rcs.length) (x : Nat) :
    BRr rp' r x ↔ BRr rp r x := by
  constructor
  · rintro ⟨hc, hne, hrr⟩
    have hle := hrr.lt_or_eq hT'
    exact ⟨(hcur x (by omega)).mp hc, hne, (rreach_ext_iff hpre hT' hr).mp hrr⟩
  · rintro ⟨hc, hne, hrr⟩
    have hrr' := (rreach_ext_iff hpre hT' hr).mpr hrr
    have hle := hrr'.lt_or_eq hT'
    exact ⟨(hcur x (by omega)).mpr hc, hne, hrr'⟩

theorem isMax_stable {rp rp' : Repo β} (hpre : ∃ ext, rp'.rcs = rp.rcs ++ ext) (hT' : RcTopo rp'.rcs)
    (hcur : ∀ x, x < rp.rcs.length → (CurB rp' x ↔ CurB rp x)) {r : Nat} (hr : r < rp.rcs.length) (x : Nat) :
    IsMax rp'.rcs (BRr rp' r) x ↔ IsMax rp.rcs (BRr rp r) x := by
  have hb := brr_stable hpre hT' hcur hr
  simp only [IsMax, hb]
  constructor
  · rintro ⟨h1, h2⟩
    refine ⟨h1, fun q hq hne hrr => h2 q hq hne ?_⟩
    obtain ⟨ext, hext⟩ := hpre
    rw [hext]; exact hrr.append
  · rintro ⟨h1, h2⟩
    refine ⟨h1, fun q hq hne hrr => h2 q hq hne ?_⟩
    have hT : RcTopo rp.rcs := by
      obtain ⟨ext, hext⟩ := hpre
      intro i rc hi p hp
      exact hT' i rc (by rw [hext, List.getElem?_append_left (List.getElem?_eq_some_iff.mp hi).1]; exact hi) p hp
    have hql : q < rp.rcs.length := by have := hq.2.2.lt_or_eq hT; omega
    exact (rreach_ext_iff hpre hT' hql).mp hrr

/-- entries of the old state stay valid when report commits are appended and (possibly) the last one becomes a
build -/
theorem VInv.carry {st : St β} (v : VInv st) (w : WF h st) {rp' : Repo β} (hpre : ∃ ext, rp'.rcs = st.rp.rcs ++ ext)
    (hT' : RcTopo rp'.rcs) (hcur : ∀ x, x < st.rp.rcs.length → (CurB rp' x ↔ CurB st.rp x)) :
    AncSpec rp' st.br.anc ∧ ValSpec rp' st.br.bparents ∧
    (∀ b ∈ st.rp.builds, CurB rp' b.iid →
      b.parents.Nodup ∧ ∀ x, x ∈ b.parents ↔ IsMax rp'.rcs (BRr rp' b.iid) x) := by
  refine ⟨?_, ?_, ?_⟩
  · intro j a hl x
    have hj : j < st.rp.rcs.length := w.ancLt j (lookup_some_mem_keys hl)
    rw [brr_stable hpre hT' hcur hj x]
    exact v.anc j a hl x
  · intro r vv hl
    have hr : r < st.rp.rcs.length := (w.keyOk r (lookup_some_mem_keys hl)).1
    obtain ⟨h1, h2⟩ := v.vals r vv hl
    exact ⟨h1, fun x => by rw [isMax_stable hpre hT' hcur hr x]; exact h2 x⟩
  · intro b hb hc
    have hr := w.bldLt b hb
    obtain ⟨h1, h2⟩ := v.parents b hb ((hcur b.iid hr).mp hc)
    exact ⟨h1, fun x => by rw [isMax_stable hpre hT' hcur hr x]; exact h2 x⟩

theorem finish_vinv {pl : Plug π β} {head : Nat} {st st' : St β} {c : Nat} {cm : Commit π} {fr : List Nat}
    (w : WF h st) (w' : WF h st') (v : VInv st) (hfr : ∀ r ∈ fr, r < st.rp.rcs.length)
    {rel : List Nat} (hf : finish pl head rel st c cm fr = .ok st') : VInv st' := by
  obtain ⟨rp, br⟩ := st
  have hpre := finish_prefix hf
  have hfr : ∀ r ∈ fr, r < rp.rcs.length := hfr
  have hlt : ∀ x, CurB rp x → x < rp.rcs.length := by
    intro x hx
    simp only [CurB, isCurBuild, Bool.and_eq_true, List.any_eq_true] at hx
    obtain ⟨⟨b, hb, he⟩, _⟩ := hx
    have : b.iid = x := by simpa using he
    rw [← this]; exact w.bldLt b hb
  have hanck : ∀ x, CurB rp x → x ∈ keys br.anc := fun x hx => w.ancKeys x ((w.curIff x).mpr hx)
  cases finish_cases hf with
  | irrelevant => exact ⟨v.anc, v.vals, v.parents⟩
  | plain =>
    have hb : (rp.addPlain c fr).builds = rp.builds := by simp only [Repo.addPlain]; split <;> rfl
    have hr : (rp.addPlain c fr).rcs = rp.rcs := by simp only [Repo.addPlain]; split <;> rfl
    have hcur : ∀ i, isCurBuild (rp.addPlain c fr) i = isCurBuild rp i := by
      intro i; simp only [Repo.addPlain]; split <;> rfl
    obtain ⟨h1, h2, h3⟩ := v.carry w (rp' := rp.addPlain c fr) ⟨[], by simp [hr]⟩ (by rw [hr]; exact w.rcPar)
      (fun x _ => by simp only [CurB, hcur])
    exact ⟨h1, h2, fun b hb' => h3 b (by rw [hb] at hb'; exact hb')⟩
  | plainMatch =>
    obtain ⟨h1, h2, h3⟩ := v.carry w (rp' := rp.addRC { commit := c, parents := fr, explicit := true, bns := [], time := cm.time })
      ⟨[_], rfl⟩ w'.rcPar (fun x _ => Iff.rfl)
    exact ⟨h1, h2, h3⟩
  | skip bpar new pb pbs bumps _ _ hfn =>
    have hb : (rp.addPlain c fr).builds = rp.builds := by simp only [Repo.addPlain]; split <;> rfl
    have hr : (rp.addPlain c fr).rcs = rp.rcs := by simp only [Repo.addPlain]; split <;> rfl
    have hcur : ∀ i, isCurBuild (rp.addPlain c fr) i = isCurBuild rp i := by
      intro i; simp only [Repo.addPlain]; split <;> rfl
    obtain ⟨hvb, _, _⟩ := findNew_vals w.rcPar hlt v.anc hanck v.vals hfn
    -- the new map, seen from the new state (same report commits, same builds)
    have w1 : WF h ⟨rp, { br with bparents := bpar, bnMap := br.bnMap }⟩ := w.setBpar (findNew_spec w.rcPar hfn) _
    have v1 : VInv (⟨rp, { br with bparents := bpar, bnMap := br.bnMap }⟩ : St β) := ⟨v.anc, hvb, v.parents⟩
    obtain ⟨h1, h2, h3⟩ := v1.carry w1 (rp' := rp.addPlain c fr) ⟨[], by simp [hr]⟩ (by rw [hr]; exact w.rcPar)
      (fun x _ => by simp only [CurB, hcur])
    exact ⟨h1, h2, fun b hb' => h3 b (by simp only [St.skipBuild] at hb'; rw [hb] at hb'; exact hb')⟩
  | build bpar new pb pbs bumps bn na _ hfn _ _ _ _ hna =>
    obtain ⟨hvb, hpbn, hpbm⟩ := findNew_vals w.rcPar hlt v.anc hanck v.vals hfn
    let rc : RC := { commit := c, parents := fr, explicit := cm.isMatch, bns := buildNums cm (c == head), time := cm.time }
    let s1 : St β := St.addBuild ⟨rp, br⟩ rc bn bpar new pb bumps na
    have hs1rcs : s1.rp.rcs = rp.rcs ++ [rc] := rfl
    have hnp : rp.rcs.length ∉ rp.prevBuilds := fun hm' => by have := w.prevLt _ hm'; simp only at this; omega
    have hcur1 : ∀ i, isCurBuild s1.rp i = (isCurBuild rp i || i == rp.rcs.length) := fun i =>
      isCurBuild_push (rp.addRC rc) _ hnp i
    have hcurlt : ∀ x, x < rp.rcs.length → (CurB s1.rp x ↔ CurB rp x) := by
      intro x hx
      simp only [CurB, hcur1]
      have : (x == rp.rcs.length) = false := by simpa using (show x ≠ rp.rcs.length by omega)
      simp [this]
    have w1 : WF h ⟨rp, { br with bparents := bpar, bnMap := br.bnMap }⟩ := w.setBpar (findNew_spec w.rcPar hfn) _
    have v1 : VInv (⟨rp, { br with bparents := bpar, bnMap := br.bnMap }⟩ : St β) := ⟨v.anc, hvb, v.parents⟩
    obtain ⟨h1, h2, h3⟩ := v1.carry w1 (rp' := s1.rp) ⟨[rc], rfl⟩ w'.rcPar hcurlt
    -- the builds of the branch reachable from the new report commit
    have hnew : ∀ x, BRr s1.rp rp.rcs.length x ↔ URr rp fr x := by
      intro x
      constructor
      · rintro ⟨hc, hne, hrr⟩
        rw [hs1rcs] at hrr
        have hT1 : RcTopo (rp.rcs ++ [rc]) := w'.rcPar
        rcases RReach.last hT1 hrr with h4 | ⟨p, hp, hpr⟩
        · exact absurd h4 hne
        · have hxl : x < rp.rcs.length := by
            have := hpr.lt_or_eq w.rcPar; have := hfr p hp; omega
          exact ⟨(hcurlt x hxl).mp hc, p, hp, hpr⟩
      · rintro ⟨hc, p, hp, hpr⟩
        have hxl : x < rp.rcs.length := by
          have := hpr.lt_or_eq w.rcPar; have := hfr p hp; omega
        refine ⟨(hcurlt x hxl).mpr hc, by omega, ?_⟩
        rw [hs1rcs]
        exact .step (rc := rc) (by simp) hp hpr.append
    have hmaxnew : ∀ x, IsMax s1.rp.rcs (BRr s1.rp rp.rcs.length) x ↔ IsMax rp.rcs (URr rp fr) x := by
      intro x
      simp only [IsMax, hnew]
      constructor
      · rintro ⟨h4, h5⟩
        refine ⟨h4, fun q hq hne hrr => h5 q hq hne ?_⟩
        rw [hs1rcs]; exact hrr.append
      · rintro ⟨h4, h5⟩
        refine ⟨h4, fun q hq hne hrr => h5 q hq hne ?_⟩
        have hql : q < rp.rcs.length := by
          obtain ⟨_, p, hp, hpr⟩ := hq
          have := hpr.lt_or_eq w.rcPar; have := hfr p hp; omega
        exact (rreach_ext_iff ⟨[rc], rfl⟩ w'.rcPar hql).mp hrr
    obtain ⟨hlook, hnamem⟩ := newAncestors_spec br.anc pb [] na hna
    refine ⟨?_, h2, ?_⟩
    · -- ancestors
      intro j a hl x
      simp only [s1, St.addBuild] at hl
      by_cases hj : j = rp.rcs.length
      · subst hj
        rw [lookup_cons_self] at hl; cases hl
        rw [hnew x, hnamem x]
        simp only [List.not_mem_nil, false_or]
        constructor
        · rintro (h4 | ⟨p, hp, a', ha', hxa⟩)
          · exact ((hpbm x).mp h4).1
          · obtain ⟨hc, _, hrr⟩ := (v.anc p a' ha' x).mp hxa
            obtain ⟨_, q, hq, hpq⟩ := ((hpbm p).mp hp).1
            exact ⟨hc, q, hq, hrr.trans hpq⟩
        · intro hu
          obtain ⟨m, hm, hxm⟩ := exists_max w.rcPar (URr rp fr) rp.rcs.length (fun y hy => hlt y hy.1)
            (rp.rcs.length - x) x (Nat.le_refl _) hu
          have hmpb := (hpbm m).mpr hm
          by_cases hxm' : x = m
          · subst hxm'; exact Or.inl hmpb
          · obtain ⟨a', ha'⟩ := hlook m hmpb
            exact Or.inr ⟨m, hmpb, a', ha', (v.anc m a' ha' x).mpr ⟨hu.1, hxm', hxm⟩⟩
      · rw [lookup_cons_ne _ _ _ _ hj] at hl
        exact h1 j a hl x
    · -- parent builds
      intro b hb hc
      simp only [s1, St.addBuild, Repo.addRC] at hb
      rcases List.mem_append.mp hb with hb | hb
      · exact h3 b hb hc
      · simp at hb; subst hb
        exact ⟨hpbn, fun x => by rw [hmaxnew x]; exact hpbm x⟩

end

end Ghist
