import AkVerif.Lemmas.LLC03
import AkVerif.Lemmas.LLFactAll
/-!
Left recursion of the factorised dictionary versus left recursion of the user's dictionary.

* `nullables_least`     — the computed nullable set is the least set closed under the rules,
* `nullables_transfer`  — for `FactRelD U G S`: the nullable sets of `U` and `G` agree outside `S`
                          (and `NU ⊆ NG` without restriction, `nullables_user_sub`),
* `cycle_transfer_rev`  — a `Reach1`-cycle of `U` gives a `Reach1`-cycle of `G` (only `FactRelD`),
* `cycle_transfer_fwd`  — a cycle of `G` gives a cycle of `U`; needs two more facts about `G` that
                          `FactRelD` does not contain: every helper symbol has a flattened expansion
                          (`hprod`) and a rank grows along "rule of `k` ends in the helper `l`" (`hrank`),
* `cycle_transfer`      — the equivalence under these hypotheses,
* `accepted_user_acyclic` — a grammar the constructor accepts is not left recursive as the user wrote it.

The two extra hypotheses are established for the result of `factorize` in `LLTransfer2.lean`.
-/
set_option linter.unusedSectionVars false
namespace LL
open Ak

/-! ### Step 1: the computed nullable set is the least closed set -/

theorem nullables_least {σ : Type} [DecidableEq σ] {G : Prods σ} {N : List σ} (h : nullables G = .ok N)
    (M : σ → Prop)
    (hM : ∀ X rules, (X, rules) ∈ G → ∀ r ∈ rules, (∀ s ∈ r.rhs, M s) → M X) : ∀ X ∈ N, M X := by
  refine (nullLoop_inv (G := G) (fun c => ∀ X ∈ c, M X) ?_ _ [] N (by simp) h).1
  intro c hc X hX
  rcases mem_nullPass c G c X hX with h | ⟨rules, r, hm, hr, hall⟩
  · exact hc X h
  · exact hM X rules hm r hr (fun s hs => hc s (hall s hs))

theorem Plus.trans {α : Type} {r : α → α → Prop} {a b c : α} (h1 : Plus r a b) (h2 : Plus r b c) :
    Plus r a c := by
  induction h1 with
  | one h => exact .step h h2
  | step h _ ih => exact .step h (ih h2)

/-! ### list helpers -/

/-- the symbol at position `k` is in `dropLast`, or `k` is the last position -/
theorem tr_idx_cases {α : Type} {y : α} : ∀ {l : List α} {k : Nat}, l[k]? = some y →
    y ∈ l.dropLast ∨ l = l.take k ++ [y]
  | [], k, h => by simp at h
  | [a], 0, h => by
    simp only [List.getElem?_cons_zero, Option.some.injEq] at h
    subst h; right; simp
  | [a], k + 1, h => by simp at h
  | a :: b :: t, 0, h => by
    simp only [List.getElem?_cons_zero, Option.some.injEq] at h
    subst h; left; simp
  | a :: b :: t, k + 1, h => by
    simp only [List.getElem?_cons_succ] at h
    rcases tr_idx_cases h with h' | h'
    · left
      rw [List.dropLast_cons_cons]
      exact List.mem_cons_of_mem _ h'
    · right
      rw [List.take_succ_cons, List.cons_append, ← h']

theorem tr_take_dropLast {α : Type} {y : α} {l : List α} {k : Nat} (h : l[k]? = some y) :
    ∀ x ∈ l.take k, x ∈ l.dropLast := by
  intro x hx
  obtain ⟨hlt, _⟩ := List.getElem?_eq_some_iff.1 h
  rw [List.dropLast_eq_take]
  have : l.take k = (l.take (l.length - 1)).take k := by
    rw [List.take_take, Nat.min_eq_left (by omega)]
  rw [this] at hx
  exact List.mem_of_mem_take hx

theorem tr_split_last {α : Type} {l : List α} {a : α} (h : l.getLast? = some a) : l.dropLast ++ [a] = l := by
  obtain ⟨ys, e⟩ := List.getLast?_eq_some_iff.1 h
  rw [e, List.dropLast_concat]

section Transfer
variable {U G : Prods Sym} {S NU NG : List Sym}

/-! ### Step 2: nullables agree on non-helper symbols -/

theorem tr_flat_null (hNG : nullables G = .ok NG) {s : Sym} {e : List Sym} (h : FlatD G S s e) :
    (∀ x ∈ e, x ∈ NG) → s ∈ NG := by
  induction h with
  | @base s p hp _ =>
    intro hall
    obtain ⟨rules, hm, r, hr, hrp⟩ := mem_gramRules.1 hp
    exact nullables_closed hNG s rules hm r hr (by rw [hrp]; exact hall)
  | @step s pre s' e hp _ _ ih =>
    intro hall
    have hs' : s' ∈ NG := ih (fun x hx => hall x (List.mem_append_right _ hx))
    obtain ⟨rules, hm, r, hr, hrp⟩ := mem_gramRules.1 hp
    refine nullables_closed hNG s rules hm r hr ?_
    rw [hrp]
    intro x hx
    rcases List.mem_append.1 hx with hx | hx
    · exact hall x (List.mem_append_left _ hx)
    · rw [List.mem_singleton.1 hx]; exact hs'

/-- every nullable symbol of the user's dictionary is nullable in the factorised one -/
theorem nullables_user_sub (hR : FactRelD U G S) (hNU : nullables U = .ok NU) (hNG : nullables G = .ok NG) :
    ∀ X ∈ NU, X ∈ NG := by
  refine nullables_least hNU (· ∈ NG) ?_
  intro X rules hm r hr hall
  exact tr_flat_null hNG (hR.flatOut X r.rhs (mem_gramRules.2 ⟨rules, hm, r, hr, rfl⟩)) hall

theorem tr_flat_user_null (hR : FactRelD U G S) (hNU : nullables U = .ok NU) {s : Sym} (hs : s ∉ S)
    (h : ∃ e, FlatD G S s e ∧ ∀ x ∈ e, x ∈ NU) : s ∈ NU := by
  obtain ⟨e, he, hall⟩ := h
  obtain ⟨rules, hm, r, hr, hrp⟩ := mem_gramRules.1 (hR.flatIn s hs e he)
  exact nullables_closed hNU s rules hm r hr (by rw [hrp]; exact hall)

/-- "has a flattened expansion made of `NU`" is closed under the rules of `G` -/
theorem tr_null_closed (hR : FactRelD U G S) (hNU : nullables U = .ok NU) :
    ∀ X rules, (X, rules) ∈ G → ∀ r ∈ rules,
      (∀ s ∈ r.rhs, ∃ e, FlatD G S s e ∧ ∀ x ∈ e, x ∈ NU) → ∃ e, FlatD G S X e ∧ ∀ x ∈ e, x ∈ NU := by
  intro X rules hm r hr hall
  have hp : r.rhs ∈ gramRules G X := mem_gramRules.2 ⟨rules, hm, r, hr, rfl⟩
  have hinner : ∀ x ∈ r.rhs.dropLast, x ∈ NU := fun x hx =>
    tr_flat_user_null hR hNU (hR.inner X rules hm r hr x hx) (hall x (mem_of_mem_dropLast' hx))
  cases hl : r.rhs.getLast? with
  | none =>
    refine ⟨r.rhs, FlatD.base hp (fun l h => by rw [hl] at h; cases h), ?_⟩
    rw [List.getLast?_eq_none_iff.1 hl]
    simp
  | some l =>
    have hsplit := tr_split_last hl
    have hlmem : l ∈ r.rhs := List.mem_of_getLast? hl
    by_cases hlS : l ∈ S
    · obtain ⟨e, he, hen⟩ := hall l hlmem
      refine ⟨r.rhs.dropLast ++ e, FlatD.step (by rw [hsplit]; exact hp) hlS he, ?_⟩
      intro x hx
      rcases List.mem_append.1 hx with hx | hx
      · exact hinner x hx
      · exact hen x hx
    · refine ⟨r.rhs, FlatD.base hp (fun l' hl' => by rw [hl] at hl'; cases hl'; exact hlS), ?_⟩
      intro x hx
      rw [← hsplit] at hx
      rcases List.mem_append.1 hx with hx | hx
      · exact hinner x hx
      · rw [List.mem_singleton.1 hx]
        exact tr_flat_user_null hR hNU hlS (hall l hlmem)

theorem nullables_transfer (hR : FactRelD U G S) (hNU : nullables U = .ok NU) (hNG : nullables G = .ok NG) :
    ∀ X, X ∉ S → (X ∈ NG ↔ X ∈ NU) := by
  intro X hX
  constructor
  · intro h
    exact tr_flat_user_null hR hNU hX
      (nullables_least hNG (fun s => ∃ e, FlatD G S s e ∧ ∀ x ∈ e, x ∈ NU) (tr_null_closed hR hNU) X h)
  · exact nullables_user_sub hR hNU hNG X

/-! ### Step 3 (←): a cycle of `U` is a cycle of `G` -/

/-- along a flattened expansion `e` of `s`: the symbol at a position behind nullables is reached from `s` -/
theorem tr_flat_reach {s Y : Sym} {e : List Sym} (h : FlatD G S s e) :
    ∀ k, e[k]? = some Y → (∀ x ∈ e.take k, x ∈ NG) → Plus (Reach1 G NG) s Y := by
  induction h with
  | @base s p hp _ =>
    intro k hk hall
    obtain ⟨rules, hm, r, hr, hrp⟩ := mem_gramRules.1 hp
    exact .one ⟨rules, r, k, hm, hr, by rw [hrp]; exact hall, by rw [hrp]; exact hk⟩
  | @step s pre s' e hp hs' _ ih =>
    intro k hk hall
    obtain ⟨rules, hm, r, hr, hrp⟩ := mem_gramRules.1 hp
    by_cases hlt : k < pre.length
    · refine .one ⟨rules, r, k, hm, hr, ?_, ?_⟩
      · rw [hrp]
        intro x hx
        apply hall x
        rw [List.take_append_of_le_length (Nat.le_of_lt hlt)] at hx ⊢
        exact hx
      · rw [hrp, List.getElem?_append_left hlt]
        rw [List.getElem?_append_left hlt] at hk
        exact hk
    · have hge : pre.length ≤ k := Nat.le_of_not_lt hlt
      rw [List.getElem?_append_right hge] at hk
      have htake : List.take k (pre ++ e) = pre ++ List.take (k - pre.length) e := by
        rw [List.take_append, List.take_of_length_le hge]
      rw [htake] at hall
      have h2 : Plus (Reach1 G NG) s' Y :=
        ih (k - pre.length) hk (fun x hx => hall x (List.mem_append_right _ hx))
      have h1 : Reach1 G NG s s' := by
        refine ⟨rules, r, pre.length, hm, hr, ?_, ?_⟩
        · rw [hrp]
          intro x hx
          rw [List.take_left'] at hx
          · exact hall x (List.mem_append_left _ hx)
          · rfl
        · rw [hrp]; simp
      exact .step h1 h2

theorem tr_edge_UG (hR : FactRelD U G S) (hNU : nullables U = .ok NU) (hNG : nullables G = .ok NG)
    {X Y : Sym} (h : Reach1 U NU X Y) : Plus (Reach1 G NG) X Y := by
  obtain ⟨rules, r, k, hm, hr, hall, hk⟩ := h
  exact tr_flat_reach (hR.flatOut X r.rhs (mem_gramRules.2 ⟨rules, hm, r, hr, rfl⟩)) k hk
    (fun x hx => nullables_user_sub hR hNU hNG x (hall x hx))

/-- reachability in the user's dictionary is reachability in the factorised one -/
theorem plus_transfer_rev (hR : FactRelD U G S) (hNU : nullables U = .ok NU) (hNG : nullables G = .ok NG)
    {X Y : Sym} (h : Plus (Reach1 U NU) X Y) : Plus (Reach1 G NG) X Y := by
  induction h with
  | one h => exact tr_edge_UG hR hNU hNG h
  | step h _ ih => exact (tr_edge_UG hR hNU hNG h).trans ih

theorem cycle_transfer_rev (hR : FactRelD U G S) (hNU : nullables U = .ok NU) (hNG : nullables G = .ok NG) :
    (∃ X, Plus (Reach1 U NU) X X) → ∃ X, Plus (Reach1 G NG) X X := by
  rintro ⟨X, hX⟩
  exact ⟨X, plus_transfer_rev hR hNU hNG hX⟩

/-! ### Step 3 (→): a cycle of `G` is a cycle of `U` -/

/-- `s` is reached from `X` through last positions of rules, over helper symbols only, with the
nullable symbols `acc` in front -/
inductive TrAnc (G : Prods Sym) (S NG : List Sym) (X : Sym) : Sym → List Sym → Prop
  | refl : TrAnc G S NG X X []
  | down {s acc p s'} : TrAnc G S NG X s acc → p ++ [s'] ∈ gramRules G s → s' ∈ S → (∀ x ∈ p, x ∈ NG) →
      TrAnc G S NG X s' (acc ++ p)

theorem tr_anc_flat {X s : Sym} {acc : List Sym} (hA : TrAnc G S NG X s acc) :
    ∀ e, FlatD G S s e → FlatD G S X (acc ++ e) := by
  induction hA with
  | refl => intro e he; simpa using he
  | down _ hp hs' _ ih =>
    intro e he
    have := ih _ (FlatD.step hp hs' he)
    rwa [← List.append_assoc] at this

theorem tr_anc_acc (hR : FactRelD U G S) {X s : Sym} {acc : List Sym} (hA : TrAnc G S NG X s acc) :
    ∀ x ∈ acc, x ∈ NG ∧ x ∉ S := by
  induction hA with
  | refl => intro x hx; simp at hx
  | @down s acc p s' _ hp _ hall ih =>
    intro x hx
    rcases List.mem_append.1 hx with hx | hx
    · exact ih x hx
    · obtain ⟨rules, hm, r, hr, hrp⟩ := mem_gramRules.1 hp
      refine ⟨hall x hx, hR.inner s rules hm r hr x ?_⟩
      rw [hrp, List.dropLast_concat]
      exact hx

theorem tr_anc_nonhelper {X t : Sym} {acc : List Sym} (hA : TrAnc G S NG X t acc) (ht : t ∉ S) : t = X := by
  cases hA with
  | refl => rfl
  | down _ _ hs' _ => exact absurd hs' ht

/-- a rule of `s` with the non-helper `Y` at position `k` has a flattened expansion with the same
first `k + 1` symbols (helper symbols have expansions: `hprod`) -/
theorem tr_flat_exists (hprod : ∀ s ∈ S, ∃ e, FlatD G S s e) {s Y : Sym} {p : List Sym} {k : Nat}
    (hp : p ∈ gramRules G s) (hk : p[k]? = some Y) (hY : Y ∉ S) :
    ∃ e, FlatD G S s e ∧ e[k]? = some Y ∧ e.take k = p.take k := by
  cases hl : p.getLast? with
  | none => exact ⟨p, FlatD.base hp (fun l h => by rw [hl] at h; cases h), hk, rfl⟩
  | some l =>
    by_cases hlS : l ∈ S
    · have hsplit := tr_split_last hl
      obtain ⟨e', he'⟩ := hprod l hlS
      have hlt : k < p.dropLast.length := by
        obtain ⟨hlt, _⟩ := List.getElem?_eq_some_iff.1 hk
        have hlen : p.length = p.dropLast.length + 1 := by
          conv => lhs; rw [← hsplit]
          simp
        rcases Nat.lt_or_ge k p.dropLast.length with h | h
        · exact h
        · exfalso
          have hkeq : k = p.dropLast.length := by omega
          rw [← hsplit, hkeq] at hk
          simp only [List.getElem?_concat_length, Option.some.injEq] at hk
          exact hY (hk ▸ hlS)
      refine ⟨p.dropLast ++ e', FlatD.step (by rw [hsplit]; exact hp) hlS he', ?_, ?_⟩
      · rw [List.getElem?_append_left hlt]
        rw [← hsplit, List.getElem?_append_left hlt] at hk
        exact hk
      · rw [List.take_append_of_le_length (Nat.le_of_lt hlt)]
        conv => rhs; rw [← hsplit]
        rw [List.take_append_of_le_length (Nat.le_of_lt hlt)]
    · exact ⟨p, FlatD.base hp (fun l' hl' => by rw [hl] at hl'; cases hl'; exact hlS), hk, rfl⟩

/-- one edge of `G`, seen from the non-helper ancestor `X` of its source -/
theorem tr_edge_GU (hR : FactRelD U G S) (hNU : nullables U = .ok NU) (hNG : nullables G = .ok NG)
    (hprod : ∀ s ∈ S, ∃ e, FlatD G S s e) {X s Y : Sym} {acc : List Sym} (hX : X ∉ S)
    (hA : TrAnc G S NG X s acc) (h : Reach1 G NG s Y) :
    (Y ∉ S ∧ Reach1 U NU X Y) ∨ (Y ∈ S ∧ ∃ acc', TrAnc G S NG X Y acc') := by
  obtain ⟨rules, r, k, hm, hr, hall, hk⟩ := h
  have hp : r.rhs ∈ gramRules G s := mem_gramRules.2 ⟨rules, hm, r, hr, rfl⟩
  by_cases hY : Y ∈ S
  · right
    refine ⟨hY, ?_⟩
    rcases tr_idx_cases hk with hdl | hsplit
    · exact absurd hY (hR.inner s rules hm r hr Y hdl)
    · exact ⟨_, TrAnc.down hA (by rw [← hsplit]; exact hp) hY hall⟩
  · left
    refine ⟨hY, ?_⟩
    obtain ⟨e, he, hek, hetake⟩ := tr_flat_exists hprod hp hk hY
    obtain ⟨rules', hm', r', hr', hrp'⟩ := mem_gramRules.1 (hR.flatIn X hX _ (tr_anc_flat hA e he))
    refine ⟨rules', r', acc.length + k, hm', hr', ?_, ?_⟩
    · rw [hrp']
      have : List.take (acc.length + k) (acc ++ e) = acc ++ List.take k e := by
        rw [List.take_append, List.take_of_length_le (Nat.le_add_right _ _), Nat.add_sub_cancel_left]
      rw [this, hetake]
      intro x hx
      rcases List.mem_append.1 hx with hx | hx
      · obtain ⟨h1, h2⟩ := tr_anc_acc hR hA x hx
        exact (nullables_transfer hR hNU hNG x h2).1 h1
      · have h2 : x ∉ S := hR.inner s rules hm r hr x (tr_take_dropLast hk x hx)
        exact (nullables_transfer hR hNU hNG x h2).1 (hall x hx)
    · rw [hrp', List.getElem?_append_right (Nat.le_add_right _ _), Nat.add_sub_cancel_left]
      exact hek

/-- a path of `G`, seen from the non-helper ancestor of its source -/
theorem tr_sim (hR : FactRelD U G S) (hNU : nullables U = .ok NU) (hNG : nullables G = .ok NG)
    (hprod : ∀ s ∈ S, ∃ e, FlatD G S s e) {s t : Sym} (h : Plus (Reach1 G NG) s t) :
    ∀ X acc, X ∉ S → TrAnc G S NG X s acc →
      ∃ X' acc', X' ∉ S ∧ TrAnc G S NG X' t acc' ∧ ((X' = X ∧ t ∈ S) ∨ Plus (Reach1 U NU) X X') := by
  induction h with
  | @one s t h =>
    intro X acc hX hA
    rcases tr_edge_GU hR hNU hNG hprod hX hA h with ⟨hY, hr⟩ | ⟨hY, acc', hA'⟩
    · exact ⟨t, [], hY, TrAnc.refl, Or.inr (.one hr)⟩
    · exact ⟨X, acc', hX, hA', Or.inl ⟨rfl, hY⟩⟩
  | @step s b t h _ ih =>
    intro X acc hX hA
    rcases tr_edge_GU hR hNU hNG hprod hX hA h with ⟨hb, hr⟩ | ⟨hb, acc1, hA1⟩
    · obtain ⟨X', acc', hX', hA', hc⟩ := ih b [] hb TrAnc.refl
      refine ⟨X', acc', hX', hA', Or.inr ?_⟩
      rcases hc with ⟨e, _⟩ | hc
      · rw [e]; exact .one hr
      · exact .step hr hc
    · exact ih X acc1 hX hA1

theorem tr_edge_rank (hR : FactRelD U G S) (rank : Sym → Nat)
    (hrank : ∀ k rules, (k, rules) ∈ G → ∀ r ∈ rules, ∀ l, r.rhs.getLast? = some l → l ∈ S → rank k < rank l)
    {s Y : Sym} (h : Reach1 G NG s Y) (hY : Y ∈ S) : rank s < rank Y := by
  obtain ⟨rules, r, k, hm, hr, _, hk⟩ := h
  rcases tr_idx_cases hk with hdl | hsplit
  · exact absurd hY (hR.inner s rules hm r hr Y hdl)
  · exact hrank s rules hm r hr Y (by rw [hsplit]; simp) hY

/-- a path of `G` climbs in rank or passes a non-helper symbol -/
theorem tr_path_split (hR : FactRelD U G S) (rank : Sym → Nat)
    (hrank : ∀ k rules, (k, rules) ∈ G → ∀ r ∈ rules, ∀ l, r.rhs.getLast? = some l → l ∈ S → rank k < rank l)
    {a b : Sym} (h : Plus (Reach1 G NG) a b) :
    rank a < rank b ∨ ∃ Z, Z ∉ S ∧ Plus (Reach1 G NG) a Z ∧ (Z = b ∨ Plus (Reach1 G NG) Z b) := by
  induction h with
  | @one a b h =>
    by_cases hb : b ∈ S
    · exact Or.inl (tr_edge_rank hR rank hrank h hb)
    · exact Or.inr ⟨b, hb, .one h, Or.inl rfl⟩
  | @step a c b h h2 ih =>
    by_cases hc : c ∈ S
    · have h1 := tr_edge_rank hR rank hrank h hc
      rcases ih with ih | ⟨Z, hZ, hcZ, hZb⟩
      · exact Or.inl (Nat.lt_trans h1 ih)
      · exact Or.inr ⟨Z, hZ, .step h hcZ, hZb⟩
    · exact Or.inr ⟨c, hc, .one h, Or.inr h2⟩

/-- every cycle of `G` can be started at a non-helper symbol -/
theorem tr_cycle_nonhelper (hR : FactRelD U G S) (rank : Sym → Nat)
    (hrank : ∀ k rules, (k, rules) ∈ G → ∀ r ∈ rules, ∀ l, r.rhs.getLast? = some l → l ∈ S → rank k < rank l)
    {X : Sym} (h : Plus (Reach1 G NG) X X) : ∃ Z, Z ∉ S ∧ Plus (Reach1 G NG) Z Z := by
  rcases tr_path_split hR rank hrank h with hlt | ⟨Z, hZ, h1, h2⟩
  · exact absurd hlt (Nat.lt_irrefl _)
  · rcases h2 with e | h2
    · exact ⟨Z, hZ, by rw [e]; exact h⟩
    · exact ⟨Z, hZ, h2.trans h1⟩

theorem cycle_transfer_fwd (hR : FactRelD U G S) (hNU : nullables U = .ok NU) (hNG : nullables G = .ok NG)
    (hprod : ∀ s ∈ S, ∃ e, FlatD G S s e) (rank : Sym → Nat)
    (hrank : ∀ k rules, (k, rules) ∈ G → ∀ r ∈ rules, ∀ l, r.rhs.getLast? = some l → l ∈ S → rank k < rank l) :
    (∃ X, Plus (Reach1 G NG) X X) → ∃ X, Plus (Reach1 U NU) X X := by
  rintro ⟨X, hX⟩
  obtain ⟨Z, hZ, hZZ⟩ := tr_cycle_nonhelper hR rank hrank hX
  obtain ⟨X', acc', _, hA', hc⟩ := tr_sim hR hNU hNG hprod hZZ Z [] hZ TrAnc.refl
  have hXZ : Z = X' := tr_anc_nonhelper hA' hZ
  rcases hc with ⟨_, hS⟩ | hc
  · exact absurd hS hZ
  · exact ⟨Z, by rw [← hXZ] at hc; exact hc⟩

/-- left recursion of the factorised dictionary ⟺ left recursion of the user's dictionary -/
theorem cycle_transfer (hR : FactRelD U G S) (hNU : nullables U = .ok NU) (hNG : nullables G = .ok NG)
    (hprod : ∀ s ∈ S, ∃ e, FlatD G S s e) (rank : Sym → Nat)
    (hrank : ∀ k rules, (k, rules) ∈ G → ∀ r ∈ rules, ∀ l, r.rhs.getLast? = some l → l ∈ S → rank k < rank l) :
    (∃ X, Plus (Reach1 G NG) X X) ↔ (∃ X, Plus (Reach1 U NU) X X) :=
  ⟨cycle_transfer_fwd hR hNU hNG hprod rank hrank, cycle_transfer_rev hR hNU hNG⟩

end Transfer

/-! ### Step 4: constructor level -/

/-- a grammar the constructor accepts is not left recursive as the user wrote it (with the nullable
set `_get_nullables` computes for the user's productions) -/
theorem accepted_user_acyclic {inp : CtorIn} {P : Parser} (h : construct inp = .ok P) {NU : List Sym}
    (hNU : nullables P.userProds = .ok NU) : ¬ ∃ X, Plus (Reach1 P.userProds NU) X X := by
  have hB := construct_built h
  obtain ⟨hR, hnd⟩ := factRelD_of_built hB
  have h1 := verifyPart1_ok hB.hV
  have hknown : ∀ X rules, (X, rules) ∈ P.prods → ∀ r ∈ rules, ∀ s ∈ r.rhs,
      s ∈ P.terminals ∨ s ∈ P.prods.map (·.1) :=
    fun X rules hm r hr s hs => h1.known s (mem_psyms.2 ⟨X, rules, hm, r, hr, hs⟩)
  have hno : ¬ ∃ X, Plus (Reach1 P.prods P.nullables) X X :=
    ((recCheck_rec_iff hnd (fun k hk => h1.disjoint k hk) hknown (fun k hk => mem_sortedKeys.2 hk)
      (fun s hs => Or.inr (mem_sortedKeys.1 hs))).2).1 hB.hR
  exact fun hc => hno (cycle_transfer_rev hR hNU hB.hN hc)

end LL
