import AkVerif.Model.PaletteState
import AkVerif.Lemmas.Render
/-!
Invariant of the palette state machine (C10) — part 1: association lists, colour resolution,
configurations (`addItems`, `register`).
-/
namespace PaletteState
open Ak Render

/-! ### association lists -/
section Lookup
variable {κ : Type} {ν : Type} [BEq κ] [LawfulBEq κ]

theorem lookup_cons_eq (k : κ) (v : ν) (l : List (κ × ν)) : List.lookup k ((k, v) :: l) = some v := by
  simp

theorem lookup_cons_ne {k k' : κ} (v : ν) (l : List (κ × ν)) (h : k' ≠ k) :
    List.lookup k' ((k, v) :: l) = List.lookup k' l := by
  have : (k' == k) = false := by simpa using h
  simp [List.lookup_cons, this]

theorem lookup_cons (k k' : κ) (v : ν) (l : List (κ × ν)) [DecidableEq κ] :
    List.lookup k' ((k, v) :: l) = if k' = k then some v else List.lookup k' l := by
  by_cases h : k' = k
  · subst h; simp
  · simp [h, lookup_cons_ne]

theorem lookup_mem {k : κ} {v : ν} {l : List (κ × ν)} (h : List.lookup k l = some v) : (k, v) ∈ l := by
  induction l with
  | nil => simp at h
  | cons e l ih =>
    obtain ⟨k0, v0⟩ := e
    by_cases hk : k = k0
    · subst hk; rw [lookup_cons_eq] at h; cases h; simp
    · rw [lookup_cons_ne _ _ hk] at h; simp [ih h]

theorem lookup_isSome_of_mem {k : κ} {v : ν} {l : List (κ × ν)} (h : (k, v) ∈ l) : (List.lookup k l).isSome := by
  induction l with
  | nil => simp at h
  | cons e l ih =>
    obtain ⟨k0, v0⟩ := e
    by_cases hk : k = k0
    · subst hk; simp
    · rw [lookup_cons_ne _ _ hk]
      simp at h
      rcases h with ⟨h1, _⟩ | h
      · exact absurd h1 hk
      · exact ih h

theorem lookup_none_of_not_key {k : κ} {l : List (κ × ν)} (h : k ∉ l.map Prod.fst) : List.lookup k l = none := by
  cases hl : List.lookup k l with
  | none => rfl
  | some v => exact absurd (List.mem_map.mpr ⟨(k, v), lookup_mem hl, rfl⟩) h

theorem key_of_lookup {k : κ} {v : ν} {l : List (κ × ν)} (h : List.lookup k l = some v) : k ∈ l.map Prod.fst :=
  List.mem_map.mpr ⟨(k, v), lookup_mem h, rfl⟩

theorem lookup_filter_key (p : κ → Bool) (k : κ) (l : List (κ × ν)) :
    List.lookup k (l.filter fun e => p e.1) = if p k then List.lookup k l else none := by
  induction l with
  | nil => simp
  | cons e l ih =>
    obtain ⟨k0, v0⟩ := e
    simp only [List.filter_cons]
    by_cases hk : k = k0
    · subst hk
      by_cases hp : p k = true
      · simp [hp]
      · simp [hp, ih]
    · by_cases hp0 : p k0 = true
      · simp [hp0, lookup_cons_ne _ _ hk, ih]
      · simp [hp0, lookup_cons_ne _ _ hk, ih]

omit [LawfulBEq κ] in
theorem lookup_append_some {k : κ} {v : ν} (a b : List (κ × ν)) (h : List.lookup k a = some v) :
    List.lookup k (a ++ b) = some v := by
  simp [List.lookup_append, h]

omit [LawfulBEq κ] in
theorem lookup_append_none {k : κ} (a b : List (κ × ν)) (h : List.lookup k a = none) :
    List.lookup k (a ++ b) = List.lookup k b := by
  simp [List.lookup_append, h]

end Lookup

/-! ### colour resolution is monotone in the map -/

def Sub (m m' : SMap) : Prop := ∀ x d, m.lookup x = some d → m'.lookup x = some d

theorem Sub.refl (m : SMap) : Sub m m := fun _ _ h => h
theorem Sub.trans {a b c : SMap} (h1 : Sub a b) (h2 : Sub b c) : Sub a c := fun x d h => h2 x d (h1 x d h)

theorem resolve_mono {m m' : SMap} (h : Sub m m') :
    ∀ (f f' : Nat) (x : SyntId) (a : Attr), f ≤ f' → resolve m f x = some a → resolve m' f' x = some a := by
  intro f
  induction f with
  | zero => intro f' x a _ hr; simp [resolve] at hr
  | succ f ih =>
    intro f' x a hle hr
    cases f' with
    | zero => omega
    | succ f' =>
      simp only [resolve] at hr ⊢
      cases hl : m.lookup x with
      | none => simp [hl] at hr
      | some d =>
        rw [hl] at hr
        rw [h x d hl]
        simp only [] at hr ⊢
        cases hp : d.parent with
        | none => simpa [hp] using hr
        | some p =>
          simp only [hp] at hr ⊢
          cases hrp : resolve m f p with
          | none => simp [hrp] at hr
          | some ap =>
            rw [ih f' p ap (by omega) hrp]
            simpa [hrp] using hr

/-- every syntax of the map has a colour -/
def AllResolved (m : SMap) : Prop := ∀ x, (m.lookup x).isSome → (resolve m (m.length + 1) x).isSome

theorem allResolved_of_bool {m : SMap} (h : allResolved m = true) : AllResolved m := by
  intro x hx
  cases hl : m.lookup x with
  | none => simp [hl] at hx
  | some d =>
    have hm := lookup_mem hl
    simp only [allResolved, List.all_eq_true] at h
    exact h _ hm

theorem getColor_ext (dflt : SyntId) {c c' : Conf} (hd : (c.smap.lookup dflt).isSome)
    (hres : AllResolved c.smap) (hsub : Sub c.smap c'.smap) (hlen : c.smap.length ≤ c'.smap.length)
    (hnc : c'.noColor = c.noColor) (x : SyntId)
    (hx : (c.smap.lookup x).isSome ∨ (c'.smap.lookup x).isNone) :
    getColor dflt c' x = getColor dflt c x := by
  have key : ∀ y, (c.smap.lookup y).isSome →
      resolve c'.smap (c'.smap.length + 1) y = resolve c.smap (c.smap.length + 1) y := by
    intro y hy
    have := hres y hy
    cases hr : resolve c.smap (c.smap.length + 1) y with
    | none => simp [hr] at this
    | some a => exact resolve_mono hsub _ _ y a (by omega) hr
  unfold getColor
  rcases hx with hx | hx
  · have hx' : (c'.smap.lookup x).isSome := by
      cases hl : c.smap.lookup x with
      | none => simp [hl] at hx
      | some d => simp [hsub x d hl]
    simp only [hx, hx', if_true, key x hx, hnc]
  · have hx0 : (c.smap.lookup x).isSome = false := by
      cases hl : c.smap.lookup x with
      | none => rfl
      | some d => simp [hsub x d hl] at hx
    have hx1 : (c'.smap.lookup x).isSome = false := by
      cases hl : c'.smap.lookup x with
      | none => rfl
      | some d => simp [hl] at hx
    simp only [hx0, hx1, Bool.false_eq_true, if_false, key dflt hd, hnc]

/-! ### well-formed colours -/

def Attr.Valid (a : Attr) : Prop :=
  (∀ e, a.fg = some e → validElem e = true) ∧ (∀ e, a.bg = some e → validElem e = true)

theorem ownAttr_valid (d : Descr) (h : d.wf = true) : (ownAttr d).Valid := by
  simp only [Descr.wf, Bool.and_eq_true] at h
  obtain ⟨⟨hf, hb⟩, _⟩ := h
  constructor
  · intro e he
    cases hfg : d.fg <;> simp [ownAttr, specOwn, hfg] at he
    subst he; simpa [Spec.wf, hfg] using hf
  · intro e he
    cases hbg : d.bg <;> simp [ownAttr, specOwn, hbg] at he
    subst he; simpa [Spec.wf, hbg] using hb

theorem overlay_valid (d : Descr) (p : Attr) (h : d.wf = true) (hp : p.Valid) : (overlay d p).Valid := by
  simp only [Descr.wf, Bool.and_eq_true] at h
  obtain ⟨⟨hf, hb⟩, _⟩ := h
  constructor
  · intro e he
    cases hfg : d.fg <;> simp [overlay, specOver, hfg] at he
    · exact hp.1 e he
    · subst he; simpa [Spec.wf, hfg] using hf
  · intro e he
    cases hbg : d.bg <;> simp [overlay, specOver, hbg] at he
    · exact hp.2 e he
    · subst he; simpa [Spec.wf, hbg] using hb

def SMapWf (m : SMap) : Prop := ∀ x d, m.lookup x = some d → d.wf = true

theorem resolve_valid {m : SMap} (hm : SMapWf m) :
    ∀ (f : Nat) (x : SyntId) (a : Attr), resolve m f x = some a → a.Valid := by
  intro f
  induction f with
  | zero => intro x a h; simp [resolve] at h
  | succ f ih =>
    intro x a h
    simp only [resolve] at h
    cases hl : m.lookup x with
    | none => simp [hl] at h
    | some d =>
      rw [hl] at h
      simp only [] at h
      cases hp : d.parent with
      | none =>
        simp [hp] at h; subst h; exact ownAttr_valid d (hm x d hl)
      | some p =>
        simp only [hp] at h
        cases hr : resolve m f p with
        | none => simp [hr] at h
        | some ap =>
          simp [hr] at h; subst h
          exact overlay_valid d ap (hm x d hl) (ih p ap hr)

theorem isSgrParam_of_validElem {e : List Char} (h : validElem e = true) : ∀ c ∈ e, isSgrParam c = true := by
  intro c hc
  simp only [validElem, Bool.and_eq_true, List.all_eq_true] at h
  have := h.2 c hc
  simp only [isSgrParam]
  simp only [Bool.or_eq_true] at this ⊢
  rcases this with h1 | h1
  · left; left; exact h1
  · right; exact h1

theorem intercalate_params (cs : List (List Char)) (h : ∀ e ∈ cs, ∀ c ∈ e, isSgrParam c = true) :
    ∀ c ∈ [';'].intercalate cs, isSgrParam c = true := by
  induction cs with
  | nil => simp [List.intercalate]
  | cons e rest ih =>
    intro c hc
    cases rest with
    | nil =>
      simp [List.intercalate] at hc
      exact h e (by simp) c hc
    | cons e2 r2 =>
      have hrec := ih (fun x hx => h x (by simp [hx]))
      simp only [List.intercalate, List.intersperse, List.flatten_cons, List.mem_append] at hc hrec
      rcases hc with hc | hc | hc
      · exact h e (by simp) c hc
      · simp at hc; subst hc; simp [isSgrParam]
      · exact hrec c hc

theorem codesOf_params (a : Attr) (h : a.Valid) : ∀ e ∈ codesOf a, ∀ c ∈ e, isSgrParam c = true := by
  intro e he c hc
  simp only [codesOf, List.mem_append, List.mem_filterMap] at he
  rcases he with he | he | ⟨mc, hmc, he⟩
  · cases hfg : a.fg with
    | none => simp [hfg] at he
    | some e0 =>
      simp [hfg] at he; subst he
      exact isSgrParam_of_validElem (h.1 _ hfg) c hc
  · cases hbg : a.bg with
    | none => simp [hbg] at he
    | some e0 =>
      simp [hbg] at he; subst he
      exact isSgrParam_of_validElem (h.2 _ hbg) c hc
  · split at he
    · cases he
      have : mc.2 ∈ modCodes := (List.of_mem_zip hmc).2
      simp [modCodes] at this
      rcases this with h1 | h1 | h1 | h1 | h1 <;> (rw [h1] at hc; simp at hc; subst hc; simp [isSgrParam])
    · cases he

theorem prefixOf_valid (a : Attr) (h : a.Valid) : ValidPrefix (prefixOf a) := by
  unfold prefixOf
  split
  · left; rfl
  · rename_i cs hne
    right
    refine ⟨[';'].intercalate (codesOf a), ?_, rfl⟩
    exact intercalate_params _ (codesOf_params a h)

theorem getColor_valid (dflt : SyntId) (c : Conf) (hm : SMapWf c.smap) (x : SyntId) :
    ValidPrefix (getColor dflt c x) := by
  unfold getColor
  simp only []
  split
  · left; rfl
  · rename_i a hr
    split
    · left; rfl
    · exact prefixOf_valid a (resolve_valid hm _ _ a hr)

/-! ### configurations -/

def keys (m : SMap) : List SyntId := m.map Prod.fst

def defaultIds (ci : ClassInfo) : List SyntId :=
  match ci.defaults with
  | none => []
  | some d => keys d

def allDefaultIds (cfg : Cfg) : List SyntId := cfg.classes.flatMap defaultIds

/-- facts about the generated class table that the invariant rests on (decided for `Gen.C10.cfg`) -/
def cfgOk (cfg : Cfg) : Bool :=
  (cfg.builtin.lookup cfg.dfltId).isSome
  && cfg.builtin.all (fun e => e.2.wf)
  && cfg.classes.all (fun ci => match ci.defaults with
      | none => true
      | some d => d.all fun e => e.2.wf && (match e.2.parent with
          | none => true
          | some p => (cfg.builtin.lookup p).isSome))

theorem cfgOk_dflt {cfg : Cfg} (h : cfgOk cfg = true) : (cfg.builtin.lookup cfg.dfltId).isSome := by
  simp only [cfgOk, Bool.and_eq_true] at h; exact h.1.1

theorem cfgOk_builtin_wf {cfg : Cfg} (h : cfgOk cfg = true) : ∀ e ∈ cfg.builtin, e.2.wf = true := by
  simp only [cfgOk, Bool.and_eq_true, List.all_eq_true] at h; exact h.1.2

theorem cfgOk_defaults {cfg : Cfg} (h : cfgOk cfg = true) {ci : ClassInfo} (hci : ci ∈ cfg.classes)
    {d : SMap} (hd : ci.defaults = some d) :
    ∀ e ∈ d, e.2.wf = true ∧ (∀ p, e.2.parent = some p → (cfg.builtin.lookup p).isSome) := by
  simp only [cfgOk, Bool.and_eq_true, List.all_eq_true] at h
  have := h.2 ci hci
  rw [hd] at this
  simp only [List.all_eq_true, Bool.and_eq_true] at this
  intro e he
  refine ⟨(this e he).1, ?_⟩
  intro p hp
  have h2 := (this e he).2
  rw [hp] at h2
  exact h2

theorem mem_newItems {m items : SMap} {e : SyntId × Descr} (h : e ∈ newItems m items) :
    e ∈ items ∧ m.lookup e.1 = none := by
  simp only [newItems, List.mem_filter] at h
  refine ⟨h.1, ?_⟩
  cases hl : m.lookup e.1 with
  | none => rfl
  | some d => simp [hl] at h

/-- the map after `add_new_items` -/
theorem addItems_smap (c : Conf) (items : SMap) :
    (c.addItems items).smap = c.smap ++ newItems c.smap items := by
  unfold Conf.addItems
  split
  · rename_i h; simp [h]
  · rename_i n ns h; simp [h]

theorem addItems_fields (c : Conf) (items : SMap) :
    (c.addItems items).noColor = c.noColor ∧ (c.addItems items).closed = c.closed ∧
    (c.addItems items).registered = c.registered ∧
    ((c.addItems items).cache = c.cache ∨ (c.addItems items).cache = []) := by
  unfold Conf.addItems
  split <;> simp

theorem addItems_same (c : Conf) (items : SMap)
    (h : (c.addItems items).smap.length = c.smap.length) : c.addItems items = c := by
  rw [addItems_smap] at h
  have h0 : newItems c.smap items = [] := by
    simpa using h
  unfold Conf.addItems
  rw [h0]

theorem sub_append (m ns : SMap) : Sub m (m ++ ns) := fun _ _ h => lookup_append_some m ns h

theorem sub_addItems (c : Conf) (items : SMap) : Sub c.smap (c.addItems items).smap := by
  rw [addItems_smap]; exact sub_append _ _

theorem lookup_addItems_isSome (c : Conf) (items : SMap) (x : SyntId)
    (h : ((c.addItems items).smap.lookup x).isSome) :
    (c.smap.lookup x).isSome ∨ x ∈ keys items := by
  rw [addItems_smap] at h
  cases hl : c.smap.lookup x with
  | some d => simp
  | none =>
    right
    rw [lookup_append_none _ _ hl] at h
    cases hn : (newItems c.smap items).lookup x with
    | none => simp [hn] at h
    | some d =>
      have := (mem_newItems (lookup_mem hn)).1
      exact List.mem_map.mpr ⟨(x, d), this, rfl⟩

theorem addItems_has (c : Conf) (items : SMap) (x : SyntId) (h : x ∈ keys items) :
    ((c.addItems items).smap.lookup x).isSome := by
  rw [addItems_smap]
  cases hl : c.smap.lookup x with
  | some d => simp [lookup_append_some _ _ hl]
  | none =>
    rw [lookup_append_none _ _ hl]
    obtain ⟨e, he, hx⟩ := List.mem_map.mp h
    obtain ⟨x0, d⟩ := e
    simp at hx; subst hx
    apply lookup_isSome_of_mem (v := d)
    simp [newItems, List.mem_filter, he, hl]

/-- new items whose parents are already resolved keep the map resolved -/
theorem allResolved_addItems (c : Conf) (items : SMap) (hres : AllResolved c.smap)
    (hpar : ∀ e ∈ items, ∀ p, e.2.parent = some p → (c.smap.lookup p).isSome) :
    AllResolved (c.addItems items).smap := by
  intro x hx
  have hsub := sub_addItems c items
  have hlen : c.smap.length ≤ (c.addItems items).smap.length := by rw [addItems_smap]; simp
  cases hl : c.smap.lookup x with
  | some d =>
    have := hres x (by simp [hl])
    cases hr : resolve c.smap (c.smap.length + 1) x with
    | none => simp [hr] at this
    | some a => rw [resolve_mono hsub _ _ x a (by omega) hr]; rfl
  | none =>
    -- a new item: one step to its parent, which is resolved in the old map
    rw [addItems_smap] at hx
    rw [lookup_append_none _ _ hl] at hx
    cases hn : (newItems c.smap items).lookup x with
    | none => simp [hn] at hx
    | some d =>
      have hmem := (mem_newItems (lookup_mem hn)).1
      have hlk : (c.addItems items).smap.lookup x = some d := by
        rw [addItems_smap, lookup_append_none _ _ hl, hn]
      have hne : c.smap.length < (c.addItems items).smap.length := by
        rw [addItems_smap]
        have : (newItems c.smap items) ≠ [] := by intro h0; rw [h0] at hn; simp at hn
        have : 0 < (newItems c.smap items).length := List.length_pos_iff.mpr this
        simp; omega
      simp only [resolve, hlk]
      cases hp : d.parent with
      | none => simp
      | some p =>
        simp only []
        have hp' := hpar (x, d) hmem p hp
        have := hres p hp'
        cases hr : resolve c.smap (c.smap.length + 1) p with
        | none => simp [hr] at this
        | some a => rw [resolve_mono hsub _ _ p a (by omega) hr]; rfl

theorem smapWf_addItems (c : Conf) (items : SMap) (hm : SMapWf c.smap) (hi : ∀ e ∈ items, e.2.wf = true) :
    SMapWf (c.addItems items).smap := by
  intro x d hl
  rw [addItems_smap] at hl
  cases h0 : c.smap.lookup x with
  | some d0 => rw [lookup_append_some _ _ h0] at hl; cases hl; exact hm x _ h0
  | none =>
    rw [lookup_append_none _ _ h0] at hl
    exact hi (x, d) (mem_newItems (lookup_mem hl)).1

/-- what is true of every configuration of a reachable state -/
structure ConfOk (cfg : Cfg) (c : Conf) : Prop where
  builtin : ∀ x, (cfg.builtin.lookup x).isSome → (c.smap.lookup x).isSome
  wf : SMapWf c.smap
  closed : c.closed = true → AllResolved c.smap
  reg : ∀ cls ∈ c.registered, ∀ ci, cfg.classes[cls]? = some ci → ∀ x ∈ defaultIds ci, (c.smap.lookup x).isSome

/-- how a configuration changes while palettes are made: it only learns new syntax ids -/
structure ConfStep (cfg : Cfg) (c c' : Conf) : Prop where
  nc : c'.noColor = c.noColor
  closed : c'.closed = c.closed
  sub : Sub c.smap c'.smap
  len : c.smap.length ≤ c'.smap.length
  ids : ∀ x, (c'.smap.lookup x).isSome → (c.smap.lookup x).isSome ∨ x ∈ allDefaultIds cfg
  cache : c'.cache = c.cache ∨ c'.cache = []
  same : c'.smap.length = c.smap.length → c'.smap = c.smap ∧ c'.cache = c.cache
  /-- a palette that is still cached was cached before, and the syntax map has not changed since -/
  keep : ∀ cls a, c'.cache.lookup cls = some a → c'.smap = c.smap ∧ c.cache.lookup cls = some a

theorem ConfStep.refl (cfg : Cfg) (c : Conf) : ConfStep cfg c c :=
  ⟨rfl, rfl, Sub.refl _, Nat.le_refl _, fun _ h => Or.inl h, Or.inl rfl, fun _ => ⟨rfl, rfl⟩, fun _ _ h => ⟨rfl, h⟩⟩

theorem ConfStep.trans {cfg : Cfg} {a b c : Conf} (h1 : ConfStep cfg a b) (h2 : ConfStep cfg b c) :
    ConfStep cfg a c := by
  refine ⟨h2.nc.trans h1.nc, h2.closed.trans h1.closed, h1.sub.trans h2.sub, Nat.le_trans h1.len h2.len, ?_, ?_, ?_, ?_⟩
  rotate_left 3
  · intro cls x hx
    obtain ⟨e1, e2⟩ := h2.keep cls x hx
    obtain ⟨e3, e4⟩ := h1.keep cls x e2
    exact ⟨e1.trans e3, e4⟩
  · intro x hx
    rcases h2.ids x hx with h | h
    · exact h1.ids x h
    · exact Or.inr h
  · rcases h2.cache with h | h
    · rw [h]; exact h1.cache
    · exact Or.inr h
  · intro hl
    have e1 : b.smap.length = a.smap.length := by have := h1.len; have := h2.len; omega
    have e2 : c.smap.length = b.smap.length := by omega
    exact ⟨(h2.same e2).1.trans (h1.same e1).1, (h2.same e2).2.trans (h1.same e1).2⟩

/-- one registration of the defaults of class `ci` -/
theorem step_addDefaults {cfg : Cfg} (hcfg : cfgOk cfg = true) {c : Conf} (hc : ConfOk cfg c)
    {cls : ClassId} {ci : ClassInfo} (hci : cfg.classes[cls]? = some ci) {d : SMap} (hd : ci.defaults = some d) :
    let c' := ({ c with registered := cls :: c.registered } : Conf).addItems d
    ConfOk cfg c' ∧ ConfStep cfg c c' ∧ cls ∈ c'.registered := by
  intro c'
  let c0 : Conf := { c with registered := cls :: c.registered }
  have hmem : ci ∈ cfg.classes := List.mem_of_getElem? hci
  have hdef := cfgOk_defaults hcfg hmem hd
  have hf := addItems_fields c0 d
  have hsub : Sub c.smap c'.smap := sub_addItems c0 d
  refine ⟨⟨?_, ?_, ?_, ?_⟩, ⟨hf.1, hf.2.1, hsub, ?_, ?_, hf.2.2.2, ?_, ?_⟩, ?_⟩
  · intro x hx
    have := hc.builtin x hx
    cases hl : c.smap.lookup x with
    | none => simp [hl] at this
    | some dd => simp [hsub x dd hl]
  · exact smapWf_addItems c0 d hc.wf (fun e he => (hdef e he).1)
  · intro hcl
    have hcl' : c.closed = true := by rw [← hcl]; exact hf.2.1.symm
    exact allResolved_addItems c0 d (hc.closed hcl') (fun e he p hp => hc.builtin p ((hdef e he).2 p hp))
  · intro cls' hcls' ci' hci' x hx
    rw [hf.2.2.1] at hcls'
    simp only [c0, List.mem_cons] at hcls'
    rcases hcls' with rfl | hcls'
    · rw [hci] at hci'; cases hci'
      simp only [defaultIds, hd] at hx
      exact addItems_has c0 d x hx
    · have := hc.reg cls' hcls' ci' hci' x hx
      cases hl : c.smap.lookup x with
      | none => simp [hl] at this
      | some dd => simp [hsub x dd hl]
  · show c.smap.length ≤ (c0.addItems d).smap.length
    rw [addItems_smap]; simp [c0]
  · intro x hx
    rcases lookup_addItems_isSome c0 d x hx with h | h
    · exact Or.inl h
    · right
      simp only [allDefaultIds, List.mem_flatMap]
      exact ⟨ci, hmem, by simp [defaultIds, hd, h]⟩
  · intro hl
    have := addItems_same c0 d hl
    show (c0.addItems d).smap = c.smap ∧ (c0.addItems d).cache = c.cache
    rw [this]; exact ⟨rfl, rfl⟩
  · intro cls' x hx
    show (c0.addItems d).smap = c.smap ∧ c.cache.lookup cls' = some x
    have hx' : (c0.addItems d).cache.lookup cls' = some x := hx
    unfold Conf.addItems at hx' ⊢
    split
    · rename_i hnew
      rw [hnew] at hx'
      exact ⟨rfl, hx'⟩
    · rename_i n ns hnew
      rw [hnew] at hx'
      simp at hx'
  · rw [hf.2.2.1]; simp [c0]

theorem foldlM_register {cfg : Cfg} (f : Nat)
    (ih : ∀ cls c c', ConfOk cfg c → register cfg f cls c = .ok c' → ConfOk cfg c' ∧ ConfStep cfg c c') :
    ∀ (ps : List ClassId) (c c' : Conf), ConfOk cfg c →
      ps.foldlM (fun acc p => register cfg f p acc) c = .ok c' → ConfOk cfg c' ∧ ConfStep cfg c c' := by
  intro ps
  induction ps with
  | nil =>
    intro c c' hc h
    simp [List.foldlM, pure, Except.pure] at h
    subst h; exact ⟨hc, ConfStep.refl _ _⟩
  | cons p ps ihp =>
    intro c c' hc h
    simp only [List.foldlM, bind, Except.bind] at h
    cases hr : register cfg f p c with
    | error e => simp [hr] at h
    | ok c1 =>
      rw [hr] at h
      obtain ⟨h1, s1⟩ := ih p c c1 hc hr
      obtain ⟨h2, s2⟩ := ihp c1 c' h1 h
      exact ⟨h2, s1.trans s2⟩

theorem register_ok {cfg : Cfg} (hcfg : cfgOk cfg = true) :
    ∀ (f : Nat) (cls : ClassId) (c c' : Conf), ConfOk cfg c → register cfg f cls c = .ok c' →
      ConfOk cfg c' ∧ ConfStep cfg c c' := by
  intro f
  induction f with
  | zero => intro cls c c' _ h; simp [register] at h
  | succ f ih =>
    intro cls c c' hc h
    simp only [register] at h
    split at h
    · cases h; exact ⟨hc, ConfStep.refl _ _⟩
    · split at h
      · cases h
      · rename_i ci hci
        simp only [bind, Except.bind] at h
        cases hp : ci.parents.foldlM (fun acc p => register cfg f p acc) c with
        | error e => simp [hp] at h
        | ok c1 =>
          rw [hp] at h
          obtain ⟨h1, s1⟩ := foldlM_register f ih ci.parents c c1 hc hp
          simp only [] at h
          split at h
          · cases h; exact ⟨h1, s1⟩
          · rename_i d hd
            cases h
            obtain ⟨h2, s2, _⟩ := step_addDefaults hcfg h1 hci hd
            exact ⟨h2, s1.trans s2⟩

/-- after `register_in_colors_conf(cls)` the defaults of `cls` are known to the configuration -/
theorem register_has {cfg : Cfg} (hcfg : cfgOk cfg = true) (f : Nat) (cls : ClassId) (c c' : Conf)
    (hc : ConfOk cfg c) (h : register cfg (f + 1) cls c = .ok c') (ci : ClassInfo)
    (hci : cfg.classes[cls]? = some ci) : ∀ x ∈ defaultIds ci, (c'.smap.lookup x).isSome := by
  simp only [register] at h
  split at h
  · rename_i hreg
    cases h
    exact hc.reg cls (by simpa using hreg) ci hci
  · rw [hci] at h
    simp only [bind, Except.bind] at h
    cases hp : ci.parents.foldlM (fun acc p => register cfg f p acc) c with
    | error e => simp [hp] at h
    | ok c1 =>
      rw [hp] at h
      obtain ⟨h1, _⟩ := foldlM_register f (register_ok hcfg f) ci.parents c c1 hc hp
      simp only [] at h
      split at h
      · rename_i hd; cases h
        intro x hx; simp [defaultIds, hd] at hx
      · rename_i d hd
        cases h
        obtain ⟨h2, _, hin⟩ := step_addDefaults hcfg h1 hci hd
        exact h2.reg cls hin ci hci

end PaletteState
