import AkVerif.Model.Interleave
/-! C16: the id format is injective in the number (helper lemmas, core Lean only). -/
namespace Interleave

/-! ### the id format -/

def valLE : List Nat → Nat
  | [] => 0
  | d :: ds => d + 10 * valLE ds

theorem valLE_decLE (f n : Nat) (h : n < f) : valLE (decLE f n) = n := by
  induction f generalizing n with
  | zero => omega
  | succ f ih =>
    unfold decLE
    split
    · simp [valLE]
    · have : n / 10 < f := by omega
      simp only [valLE, ih _ this]
      omega

theorem decLE_lt10 (f n : Nat) : ∀ d ∈ decLE f n, d < 10 := by
  induction f generalizing n with
  | zero => intro d hd; cases hd
  | succ f ih =>
    unfold decLE
    split
    · intro d hd; simp at hd; omega
    · intro d hd
      rcases List.mem_cons.mp hd with h | h
      · omega
      · exact ih _ d h

theorem decLE_length_le (f n w : Nat) (h : n < 10 ^ w) (hw : 1 ≤ w) : (decLE f n).length ≤ w := by
  induction f generalizing n w with
  | zero => simp [decLE]
  | succ f ih =>
    unfold decLE
    split
    · simpa using hw
    · rename_i h10
      cases w with
      | zero => omega
      | succ w =>
        cases w with
        | zero => simp at h; omega
        | succ w =>
          have : n / 10 < 10 ^ (w + 1) := by
            rw [Nat.pow_succ] at h; omega
          have := ih (n / 10) (w + 1) this (by omega)
          simp; omega

theorem valLE_append_zeros (ds : List Nat) (k : Nat) : valLE (ds ++ List.replicate k 0) = valLE ds := by
  induction ds with
  | nil =>
    induction k with
    | zero => rfl
    | succ k ih => simp [List.replicate_succ, valLE] at ih ⊢; omega
  | cons d ds ih => simp [valLE, ih]

theorem padLE_val (w n : Nat) : valLE (padLE w n) = n := by
  unfold padLE
  simp only [valLE_append_zeros]
  exact valLE_decLE (n + 1) n (by omega)

theorem padLE_lt10 (w n : Nat) : ∀ d ∈ padLE w n, d < 10 := by
  unfold padLE
  intro d hd
  simp only [List.mem_append, List.mem_replicate] at hd
  rcases hd with h | h
  · exact decLE_lt10 _ _ d h
  · omega

theorem padLE_length (w n : Nat) (h : n < 10 ^ w) (hw : 1 ≤ w) : (padLE w n).length = w := by
  unfold padLE
  have := decLE_length_le (n + 1) n w h hw
  simp; omega

theorem digitChar_inj : ∀ a, a < 10 → ∀ b, b < 10 → digitChar a = digitChar b → a = b := by decide

theorem map_digitChar_inj : ∀ (l1 l2 : List Nat), (∀ d ∈ l1, d < 10) → (∀ d ∈ l2, d < 10) →
    l1.map digitChar = l2.map digitChar → l1 = l2 := by
  intro l1
  induction l1 with
  | nil => intro l2 _ _ h; cases l2 with
    | nil => rfl
    | cons => simp at h
  | cons a l1 ih =>
    intro l2 h1 h2 h
    cases l2 with
    | nil => simp at h
    | cons b l2 =>
      simp only [List.map_cons, List.cons.injEq] at h
      have hab := digitChar_inj a (h1 a (by simp)) b (h2 b (by simp)) h.1
      have := ih l2 (fun d hd => h1 d (by simp [hd])) (fun d hd => h2 d (by simp [hd])) h.2
      rw [hab, this]

theorem pad_inj (w n m : Nat) (h : pad w n = pad w m) : n = m := by
  unfold pad at h
  have h' := map_digitChar_inj _ _
    (fun d hd => padLE_lt10 w n d (List.mem_reverse.mp hd))
    (fun d hd => padLE_lt10 w m d (List.mem_reverse.mp hd)) h
  have h'' := List.reverse_inj.mp h'
  rw [← padLE_val w n, ← padLE_val w m, h'']

theorem pad_length (w n : Nat) (h : n < 10 ^ w) (hw : 1 ≤ w) : (pad w n).length = w := by
  unfold pad; simp [padLE_length w n h hw]

/-- pieces whose rendering has the same length for every number -/
def fixedLen : Piece → Bool
  | .conn => true
  | .lit _ => true
  | .num (some m) w => decide (0 < m) && decide (m ≤ 10 ^ w) && decide (1 ≤ w)
  | .num none _ => false

def pieceLen (cpLen : Nat) : Piece → Nat
  | .conn => cpLen
  | .lit s => s.length
  | .num _ w => w

/-- the format ends with the whole number (zero padded) and everything before it has a fixed
length -/
def formatOk (f : List Piece) : Bool :=
  match f.reverse with
  | .num none _ :: pre => pre.all fixedLen
  | _ => false

theorem renderPiece_length (cp : List Char) (n : Nat) (q : Piece) (h : fixedLen q = true) :
    (renderPiece cp n q).length = pieceLen cp.length q := by
  cases q with
  | conn => rfl
  | lit s => rfl
  | num mo w =>
    cases mo with
    | none => simp [fixedLen] at h
    | some m =>
      simp only [fixedLen, Bool.and_eq_true, decide_eq_true_eq] at h
      simp only [renderPiece, pieceLen]
      apply pad_length _ _ _ h.2
      have := Nat.mod_lt n h.1.1
      omega

theorem render_length (cp : List Char) (n : Nat) (l : List Piece) (h : ∀ q ∈ l, fixedLen q = true) :
    (render cp l n).length = (l.map (pieceLen cp.length)).sum := by
  unfold render
  induction l with
  | nil => rfl
  | cons q l ih =>
    simp only [List.map_cons, List.flatten_cons, List.length_append, List.sum_cons]
    rw [renderPiece_length cp n q (h q (by simp)), ih (fun q hq => h q (by simp [hq]))]

theorem render_append (cp : List Char) (n : Nat) (a b : List Piece) :
    render cp (a ++ b) n = render cp a n ++ render cp b n := by
  unfold render; simp

theorem render_injective (cp : List Char) (f : List Piece) (h : formatOk f = true) (n m : Nat)
    (e : render cp f n = render cp f m) : n = m := by
  unfold formatOk at h
  split at h
  · rename_i w pre hrev
    have hf : f = pre.reverse ++ [.num none w] := by
      have := congrArg List.reverse hrev
      simpa using this
    have hall : ∀ q ∈ pre.reverse, fixedLen q = true := by
      intro q hq
      exact List.all_eq_true.mp h q (List.mem_reverse.mp hq)
    rw [hf, render_append, render_append] at e
    have hl : (render cp pre.reverse n).length = (render cp pre.reverse m).length := by
      rw [render_length cp n _ hall, render_length cp m _ hall]
    have := (List.append_inj e hl).2
    simp only [render, List.map_cons, List.map_nil, List.flatten_cons, List.flatten_nil,
      List.append_nil, renderPiece] at this
    exact pad_inj w n m this
  · cases h

end Interleave
