import AkVerif.Lemmas.GhistSem
import AkVerif.Lemmas.GhistOrder
/-!
Totality: on a topologically numbered history whose branch heads exist, with a component plug that does not fail,
the model returns a graph — no `KeyError` / `AssertionError` of the code's lookups is reachable and no fuel runs out.
Needs one more invariant (`VF`): the parent builds stored in `rcommits_bparents` are builds of the current branch.
-/
namespace Ghist
open Ak

section
variable {π β : Type} {h : Hist π}

/-! ### the small loops of `_find_new_rcommits_in_build` -/

theorem isExtra_total (anc : List (Nat × List Nat)) : ∀ (js : List Nat) (i : Nat),
    (∀ j ∈ js, j ∈ keys anc) → ∃ b, isExtra anc js i = .ok b := by
  intro js
  induction js with
  | nil => intro i _; exact ⟨false, rfl⟩
  | cons j js ih =>
    intro i hj
    simp only [isExtra]
    have hk := hj j (by simp)
    cases hl : anc.lookup j with
    | none => exact absurd hk ((lookup_eq_none_iff_keys anc j).mp hl)
    | some a =>
      simp only
      split
      · exact ⟨true, rfl⟩
      · exact ih i (fun x hx => hj x (by simp [hx]))

theorem extras_total (anc : List (Nat × List Nat)) (s : List Nat) (hs : ∀ j ∈ s, j ∈ keys anc) :
    ∀ (is : List Nat), ∃ r, extras anc s is = .ok r ∧ ∀ x ∈ r, x ∈ is := by
  intro is
  induction is with
  | nil => exact ⟨[], rfl, by simp⟩
  | cons i is ih =>
    obtain ⟨b, hb⟩ := isExtra_total anc s i hs
    obtain ⟨r, hr, hsub⟩ := ih
    simp only [extras, hb, hr]
    cases b with
    | true => exact ⟨i :: r, rfl, by intro x hx; rcases List.mem_cons.mp hx with h1 | h1 <;> simp [h1, hsub]⟩
    | false => exact ⟨r, rfl, fun x hx => List.mem_cons_of_mem _ (hsub x hx)⟩

theorem maximal_total (anc : List (Nat × List Nat)) : ∀ (fuel : Nat) (s : List Nat), s.length < fuel →
    (∀ j ∈ s, j ∈ keys anc) → ∃ r, maximal anc fuel s = .ok r ∧ ∀ x ∈ r, x ∈ s := by
  intro fuel
  induction fuel with
  | zero => intro s hl; omega
  | succ fuel ih =>
    intro s hl hs
    obtain ⟨ex, hex, hsub⟩ := extras_total anc s hs s
    simp only [maximal, hex]
    cases ex with
    | nil => exact ⟨s, rfl, fun x hx => hx⟩
    | cons x ex =>
      simp only
      have hxs : x ∈ s := hsub x (by simp)
      have hlt : (s.filter fun i => !(x :: ex).contains i).length < s.length := by
        apply List.length_filter_lt_length_iff_exists.mpr
        exact ⟨x, hxs, by simp⟩
      obtain ⟨r, hr, hrs⟩ := ih (s.filter fun i => !(x :: ex).contains i) (by omega)
        (fun j hj => hs j (List.mem_filter.mp hj).1)
      exact ⟨r, hr, fun y hy => (List.mem_filter.mp (hrs y hy)).1⟩

theorem reuse_mem (bpar : List (Nat × List Nat)) (prs : List Nat) : ∀ (ps : List Nat) (x : Nat),
    x ∈ reuse bpar prs ps → x ∈ prs ∨ ∃ p v, bpar.lookup p = some v ∧ x ∈ v := by
  intro ps
  induction ps with
  | nil => intro x hx; exact Or.inl hx
  | cons p ps ih =>
    intro x hx
    simp only [reuse] at hx
    split at hx
    · rename_i l hl
      split at hx
      · exact Or.inr ⟨p, l, hl, hx⟩
      · exact ih x hx
    · exact ih x hx

/-- values of `rcommits_bparents` are builds of the current branch -/
def ValsCur (cur : List Nat) (bpar : List (Nat × List Nat)) : Prop :=
  ∀ k v, bpar.lookup k = some v → ∀ x ∈ v, x ∈ cur

theorem rawParents_total {rp : Repo β} {bpar : List (Nat × List Nat)} {cur : List Nat}
    (hcur : ∀ i, isCurBuild rp i = true → i ∈ cur) (hv : ValsCur cur bpar) :
    ∀ (ps acc : List Nat), (∀ p ∈ ps, Covered rp bpar p) → (∀ x ∈ acc, x ∈ cur) →
      ∃ raw, rawParents rp bpar ps acc = .ok raw ∧ ∀ x ∈ raw, x ∈ cur := by
  intro ps
  induction ps with
  | nil => intro acc _ hacc; exact ⟨acc, rfl, hacc⟩
  | cons p ps ih =>
    intro acc hcov hacc
    simp only [rawParents]
    split
    · rename_i hc
      apply ih _ (fun q hq => hcov q (by simp [hq]))
      intro x hx
      rcases (mem_addNew acc [p] x).mp hx with h1 | h1
      · exact hacc x h1
      · simp at h1; subst h1; exact hcur _ hc
    · rename_i hc
      cases hl : bpar.lookup p with
      | none =>
        exfalso
        rcases hcov p (by simp) with h1 | h1
        · exact hc h1
        · exact (lookup_eq_none_iff_keys bpar p).mp hl h1
      | some l =>
        simp only
        apply ih _ (fun q hq => hcov q (by simp [hq]))
        intro x hx
        rcases (mem_addNew acc l x).mp hx with h1 | h1
        · exact hacc x h1
        · exact hv p l hl x h1

theorem prsOf_total {rp : Repo β} {anc bpar : List (Nat × List Nat)} {cur : List Nat}
    (hcur : ∀ i, isCurBuild rp i = true → i ∈ cur) (hv : ValsCur cur bpar) (hanc : ∀ i ∈ cur, i ∈ keys anc)
    (ps : List Nat) (hcov : ∀ p ∈ ps, Covered rp bpar p) :
    ∃ prs, prsOf rp anc bpar ps = .ok prs ∧ ∀ x ∈ prs, x ∈ cur := by
  obtain ⟨raw, hraw, hrc⟩ := rawParents_total hcur hv ps [] hcov (by simp)
  obtain ⟨m, hm, hms⟩ := maximal_total anc (raw.length + 1) raw (by omega) (fun j hj => hanc j (hrc j hj))
  refine ⟨reuse bpar m ps, by simp [prsOf, hraw, hm], ?_⟩
  intro x hx
  rcases reuse_mem bpar m ps x hx with h1 | ⟨p, v, h1, h2⟩
  · exact hrc x (hms x h1)
  · exact hv p v h1 x h2

/-! ### `bp` and `findNew` never fail -/

theorem bp_total {rp : Repo β} {anc : List (Nat × List Nat)} {cur : List Nat} (hT : RcTopo rp.rcs)
    (hcur : ∀ i, isCurBuild rp i = true → i ∈ cur) (hanc : ∀ i ∈ cur, i ∈ keys anc) :
    ∀ (fuel : Nat) (fs : FS) (r : Nat), r < fuel → r < rp.rcs.length → ValsCur cur fs.bparents →
      ∃ fs', bp rp anc fuel fs r = .ok fs' ∧ ValsCur cur fs'.bparents ∧ Covered rp fs'.bparents r ∧
        ∀ k, k ∈ keys fs.bparents → k ∈ keys fs'.bparents := by
  intro fuel
  induction fuel with
  | zero => intro fs r hr; omega
  | succ fuel ih =>
    intro fs r hr hlen hv
    rw [bp_succ]
    split
    · rename_i hstop
      exact ⟨fs, rfl, hv, (bpStop_iff rp fs r).mp hstop, fun k hk => hk⟩
    · rename_i hstop
      have hstop : bpStop rp fs r = false := by simpa using hstop
      obtain ⟨rc, hrc⟩ : ∃ rc, rp.rcs[r]? = some rc := ⟨rp.rcs[r], List.getElem?_eq_getElem hlen⟩
      simp only [hrc]
      -- the fold over the parents
      have hfold : ∀ (l : List Nat) (fs0 : FS), (∀ p ∈ l, p < r) → ValsCur cur fs0.bparents →
          ∃ fs1, l.foldlM (bp rp anc fuel) fs0 = .ok fs1 ∧ ValsCur cur fs1.bparents ∧
            (∀ p ∈ l, Covered rp fs1.bparents p) ∧ ∀ k, k ∈ keys fs0.bparents → k ∈ keys fs1.bparents := by
        intro l
        induction l with
        | nil => intro fs0 _ hv0; exact ⟨fs0, rfl, hv0, by simp, fun k hk => hk⟩
        | cons p l ihl =>
          intro fs0 hlt hv0
          obtain ⟨fsa, h1, h2, h3, h4⟩ := ih fs0 p (by have := hlt p (by simp); omega)
            (by have := hlt p (by simp); omega) hv0
          obtain ⟨fsb, h5, h6, h7, h8⟩ := ihl fsa (fun q hq => hlt q (by simp [hq])) h2
          refine ⟨fsb, by rw [List.foldlM_cons, h1]; exact h5, h6, ?_, fun k hk => h8 k (h4 k hk)⟩
          intro q hq
          rcases List.mem_cons.mp hq with hq | hq
          · subst hq
            rcases h3 with h9 | h9
            · exact Or.inl h9
            · exact Or.inr (h8 _ h9)
          · exact h7 q hq
      obtain ⟨fs1, hf1, hv1, hc1, hk1⟩ := hfold rc.parents.reverse fs
        (fun p hp => hT r rc hrc p (List.mem_reverse.mp hp)) hv
      simp only [hf1]
      obtain ⟨prs, hprs, hpc⟩ := prsOf_total hcur hv1 hanc rc.parents
        (fun p hp => hc1 p (List.mem_reverse.mpr hp))
      simp only [hprs]
      refine ⟨_, rfl, ?_, Or.inr (by simp [FS.add, keys_cons]), ?_⟩
      · intro k v hl x hx
        simp only [FS.add] at hl
        by_cases hk : k = r
        · subst hk; rw [lookup_cons_self] at hl; cases hl; exact hpc x hx
        · rw [lookup_cons_ne _ _ _ _ hk] at hl; exact hv1 k v hl x hx
      · intro k hk
        simp only [FS.add, keys_cons]
        exact List.mem_cons_of_mem _ (hk1 k hk)

theorem findNew_total {rp : Repo β} {br : Br} (hT : RcTopo rp.rcs)
    (hcur : ∀ i, isCurBuild rp i = true → i ∈ br.cur) (hanc : ∀ i ∈ br.cur, i ∈ keys br.anc)
    (hv : ValsCur br.cur br.bparents) (heads : List Nat) (hh : ∀ r ∈ heads, r < rp.rcs.length) :
    ∃ bpar new pb, findNew rp br heads = .ok (bpar, new, pb) ∧ ValsCur br.cur bpar ∧ ∀ x ∈ pb, x ∈ br.cur := by
  have hfold : ∀ (l : List Nat) (fs0 : FS), (∀ p ∈ l, p < rp.rcs.length) → ValsCur br.cur fs0.bparents →
      ∃ fs1, l.foldlM (bp rp br.anc rp.rcs.length) fs0 = .ok fs1 ∧ ValsCur br.cur fs1.bparents ∧
        (∀ p ∈ l, Covered rp fs1.bparents p) ∧ ∀ k, k ∈ keys fs0.bparents → k ∈ keys fs1.bparents := by
    intro l
    induction l with
    | nil => intro fs0 _ hv0; exact ⟨fs0, rfl, hv0, by simp, fun k hk => hk⟩
    | cons p l ihl =>
      intro fs0 hlt hv0
      obtain ⟨fsa, h1, h2, h3, h4⟩ := bp_total hT hcur hanc rp.rcs.length fs0 p (hlt p (by simp)) (hlt p (by simp)) hv0
      obtain ⟨fsb, h5, h6, h7, h8⟩ := ihl fsa (fun q hq => hlt q (by simp [hq])) h2
      refine ⟨fsb, by rw [List.foldlM_cons, h1]; exact h5, h6, ?_, fun k hk => h8 k (h4 k hk)⟩
      intro q hq
      rcases List.mem_cons.mp hq with hq | hq
      · subst hq
        rcases h3 with h9 | h9
        · exact Or.inl h9
        · exact Or.inr (h8 _ h9)
      · exact h7 q hq
  obtain ⟨fs, hf, hvf, hcf, _⟩ := hfold heads.reverse ⟨br.bparents, []⟩ (fun p hp => hh p (List.mem_reverse.mp hp)) hv
  obtain ⟨pb, hpb, hpc⟩ := prsOf_total hcur hvf hanc heads (fun p hp => hcf p (List.mem_reverse.mpr hp))
  exact ⟨fs.bparents, fs.new, pb, by simp [findNew, hf, hpb], hvf, hpc⟩

/-! ### `finish` never fails -/

/-- the component plug does not raise on bumps that satisfy `J`, and `J` holds for the bumps it computes -/
structure PlugTotal (pl : Plug π β) (J : β → Prop) : Prop where
  mkB : ∀ rel pins l, (∀ x ∈ l, J x) → ∃ x, pl.mkBumps rel pins l = .ok x ∧ J x
  pend : ∀ x, J x → ∃ y, pl.pending x = .ok y

theorem buildsOf_total {rp : Repo β} : ∀ (is : List Nat), (∀ i ∈ is, isCurBuild rp i = true) →
    ∃ bs, buildsOf rp is = some bs := by
  intro is
  induction is with
  | nil => intro _; exact ⟨[], rfl⟩
  | cons i is ih =>
    intro hi
    obtain ⟨bs, hbs⟩ := ih (fun j hj => hi j (by simp [hj]))
    have hc := hi i (by simp)
    simp only [isCurBuild, Bool.and_eq_true, List.any_eq_true] at hc
    obtain ⟨⟨b, hb, hbi⟩, _⟩ := hc
    have : ∃ b', rp.build? i = some b' := by
      unfold Repo.build?
      cases hf : rp.builds.find? (fun b => b.iid == i) with
      | some b' => exact ⟨b', rfl⟩
      | none =>
        have := List.find?_eq_none.mp hf b hb
        simp [hbi] at this
    obtain ⟨b', hb'⟩ := this
    exact ⟨b' :: bs, by simp [buildsOf, hb', hbs]⟩

theorem newAncestors_total (anc : List (Nat × List Nat)) : ∀ (ps acc : List Nat), (∀ p ∈ ps, p ∈ keys anc) →
    ∃ r, newAncestors anc ps acc = .ok r := by
  intro ps
  induction ps with
  | nil => intro acc _; exact ⟨acc, rfl⟩
  | cons p ps ih =>
    intro acc hp
    simp only [newAncestors]
    cases hl : anc.lookup p with
    | none => exact absurd (hp p (by simp)) ((lookup_eq_none_iff_keys anc p).mp hl)
    | some a => exact ih _ (fun q hq => hp q (by simp [hq]))

theorem buildNums_head {cm : Commit π} {isHead : Bool} (hel : cm.tags ≠ [] ∨ isHead = true) :
    ∃ bn, (buildNums cm isHead).head? = some bn := by
  unfold buildNums
  simp only
  have hlen := (sortBy_perm BN.lt cm.tags).length_eq
  cases hs : sortBy BN.lt cm.tags with
  | nil =>
    rw [hs] at hlen
    have ht : cm.tags = [] := List.length_eq_zero_iff.mp hlen.symm
    rcases hel with h1 | h1
    · exact absurd ht h1
    · exact ⟨fakeNB, by simp [h1]⟩
  | cons x xs => exact ⟨x, by cases isHead <;> simp⟩

theorem dset_vals {ν} (k : BN) (v : ν) : ∀ (m : List (BN × ν)), ∀ e ∈ dset k v m, e.2 = v ∨ e ∈ m := by
  intro m
  induction m with
  | nil => intro e he; simp only [dset, List.mem_singleton] at he; subst he; exact .inl rfl
  | cons a m ih =>
    intro e he
    obtain ⟨k', v'⟩ := a
    simp only [dset] at he
    split at he
    · rcases List.mem_cons.mp he with he | he
      · subst he; exact .inl rfl
      · exact .inr (List.mem_cons_of_mem _ he)
    · rcases List.mem_cons.mp he with he | he
      · subst he; exact .inr (by simp)
      · rcases ih e he with h1 | h1
        · exact .inl h1
        · exact .inr (List.mem_cons_of_mem _ h1)

theorem setAll_vals (i : Nat) : ∀ (bns : List BN) (m : List (BN × Nat)), ∀ e ∈ setAll bns i m, e.2 = i ∨ e ∈ m := by
  unfold setAll
  intro bns
  induction bns with
  | nil => intro m e he; exact .inr he
  | cons b bns ih =>
    intro m e he
    rw [List.foldl_cons] at he
    rcases ih _ e he with h1 | h1
    · exact .inl h1
    · exact dset_vals b i m e h1

theorem foldl_setAll_vals (bns : List BN) : ∀ (pb : List Nat) (m : List (BN × Nat)),
    ∀ e ∈ pb.foldl (fun m rb => setAll bns rb m) m, e.2 ∈ pb ∨ e ∈ m := by
  intro pb
  induction pb with
  | nil => intro m e he; exact .inr he
  | cons p pb ih =>
    intro m e he
    rw [List.foldl_cons] at he
    rcases ih _ e he with h1 | h1
    · exact .inl (List.mem_cons_of_mem _ h1)
    · rcases setAll_vals p bns m e h1 with h2 | h2
      · exact .inl (by rw [h2]; simp)
      · exact .inr h2

theorem addPlain_builds (rp : Repo β) (c : Nat) (fr : List Nat) : (rp.addPlain c fr).builds = rp.builds := by
  unfold Repo.addPlain; split <;> rfl

/-- value-level facts needed for totality: the builds stored in `rcommits_bparents` and in `bn_map` are builds of the
current branch, and the bumps of every build satisfy the invariant `J` of the plug -/
def VF (J : β → Prop) (st : St β) : Prop :=
  ValsCur st.br.cur st.br.bparents ∧ (∀ e ∈ st.br.bnMap, e.2 ∈ st.br.cur) ∧ ∀ b ∈ st.rp.builds, J b.bumps

theorem finish_total {pl : Plug π β} {J : β → Prop} (hpl : PlugTotal pl J) {head : Nat} (rel : List Nat) {st : St β}
    {c : Nat} {cm : Commit π} {fr : List Nat} (w : WF h st) (v : VF J st) (hfr : ∀ r ∈ fr, r < st.rp.rcs.length) :
    ∃ st', finish pl head rel st c cm fr = .ok st' ∧ VF J st' := by
  obtain ⟨rp, br⟩ := st
  have hcur : ∀ i, isCurBuild rp i = true → i ∈ br.cur := fun i hi => (w.curIff i).mpr hi
  unfold finish
  split
  · exact ⟨_, rfl, v⟩
  · split
    · rename_i _ hel
      obtain ⟨bpar, new, pb, hfn, hvb, hpb⟩ := findNew_total w.rcPar hcur w.ancKeys v.1 fr hfr
      obtain ⟨pbs, hpbs⟩ := buildsOf_total (rp := rp) pb (fun i hi => (w.curIff i).mp (hpb i hi))
      have hJp : ∀ x ∈ pbs.map (·.bumps), J x := by
        intro x hx
        obtain ⟨b, hb, rfl⟩ := List.mem_map.mp hx
        exact v.2.2 b ((buildsOf_spec hpbs).2 b hb)
      obtain ⟨bumps, hbumps, hJb⟩ := hpl.mkB rel cm.pins (pbs.map (·.bumps)) hJp
      simp only [hfn, hpbs, hbumps]
      split
      · have hel' : cm.tags ≠ [] ∨ (c == head) = true := by
          simp only [Bool.or_eq_true, Bool.not_eq_true', beq_iff_eq] at hel
          rcases hel with h1 | h1
          · left; intro ht; rw [ht] at h1; simp at h1
          · right; simpa using h1
        obtain ⟨bn, hbn⟩ := buildNums_head hel'
        obtain ⟨na, hna⟩ := newAncestors_total br.anc pb [] (fun p hp => w.ancKeys p (hpb p hp))
        simp only [hbn, hna]
        refine ⟨_, rfl, ?_, ?_, ?_⟩
        · intro k vv hl x hx
          simp only [St.addBuild] at hl ⊢
          exact List.mem_append_left _ (hvb k vv hl x hx)
        · intro e he
          simp only [St.addBuild] at he ⊢
          rcases setAll_vals _ _ _ e he with h1 | h1
          · rw [h1]; simp
          · exact List.mem_append_left _ (v.2.1 e h1)
        · intro b hb
          simp only [St.addBuild, Repo.addRC] at hb
          rcases List.mem_append.mp hb with hb | hb
          · exact v.2.2 b hb
          · simp only [List.mem_singleton] at hb; subst hb; exact hJb
      · refine ⟨_, rfl, ?_, ?_, ?_⟩
        · intro k vv hl x hx
          simp only [St.skipBuild] at hl ⊢
          exact hvb k vv hl x hx
        · intro e he
          simp only [St.skipBuild] at he ⊢
          rcases foldl_setAll_vals _ _ _ e he with h1 | h1
          · exact hpb _ h1
          · exact v.2.1 e h1
        · intro b hb
          simp only [St.skipBuild, addPlain_builds] at hb
          exact v.2.2 b hb
    · split
      · exact ⟨_, rfl, v⟩
      · refine ⟨_, rfl, v.1, v.2.1, ?_⟩
        intro b hb
        simp only [addPlain_builds] at hb
        exact v.2.2 b hb

/-! ### the commit DFS never fails -/

theorem classify_after_finish {pl : Plug π β} {head : Nat} {st st' : St β} {c : Nat} {cm : Commit π}
    {fr : List Nat} (hcl : classify st.rp c = none) {rel : List Nat} (hf : finish pl head rel st c cm fr = .ok st') :
    ∃ cl, classify st'.rp c = some cl := by
  rcases (finish_cacheStep hf).cls_self hcl with ⟨h1, _⟩ | ⟨h1, _⟩ | ⟨_, h1, _⟩
  · exact ⟨_, h1⟩
  · exact ⟨_, h1⟩
  · exact ⟨_, h1⟩

theorem visit_total (hT : h.Topo) {pl : Plug π β} {J : β → Prop} (hpl : PlugTotal pl J) (head : Nat) :
    ∀ (fuel : Nat) (rel : List Nat) (st : St β) (acc : List Nat) (c : Nat), c < fuel → c < h.commits.length →
      WF h st → VF J st → (∀ r ∈ acc, r < st.rp.rcs.length) →
      ∃ st' acc', visit h pl head fuel rel (st, acc) c = .ok (st', acc') ∧ VF J st' := by
  intro fuel
  induction fuel with
  | zero => intro rel st acc c hc; omega
  | succ fuel ih =>
    intro rel st acc c hc hlen w v hacc
    rw [visit]
    cases hcl : classify st.rp c with
    | some cl => exact ⟨st, _, rfl, v⟩
    | none =>
      simp only
      obtain ⟨cm, hcm⟩ : ∃ cm, h.commits[c]? = some cm := ⟨h.commits[c], List.getElem?_eq_getElem hlen⟩
      simp only [hcm]
      -- the fold over the parents
      have hfold : ∀ (l : List Nat) (s0 : St β) (a0 : List Nat), (∀ p ∈ l, p < c) → WF h s0 → VF J s0 →
          (∀ r ∈ a0, r < s0.rp.rcs.length) →
          ∃ s1 a1, l.foldlM (visit h pl head fuel (pl.relStep cm.time rel)) (s0, a0) = .ok (s1, a1) ∧ WF h s1 ∧
            VF J s1 ∧ (∀ r ∈ a1, r < s1.rp.rcs.length) ∧
            (∀ x, (∀ p ∈ l, p < x) → classify s1.rp x = classify s0.rp x) := by
        intro l
        induction l with
        | nil => intro s0 a0 _ w0 v0 ha0; exact ⟨s0, a0, rfl, w0, v0, ha0, fun _ _ => rfl⟩
        | cons p l ihl =>
          intro s0 a0 hlt w0 v0 ha0
          have hp := hlt p (by simp)
          obtain ⟨sa, aa, h1, va⟩ := ih (pl.relStep cm.time rel) s0 a0 p (by omega) (by omega) w0 v0 ha0
          obtain ⟨wa, haa, _⟩ := visit_wf hT w0 ha0 h1
          obtain ⟨sb, ab, h2, wb, vb, hab, hfr⟩ := ihl sa aa (fun q hq => hlt q (by simp [hq])) wa va haa
          refine ⟨sb, ab, by rw [List.foldlM_cons, h1]; exact h2, wb, vb, hab, ?_⟩
          intro x hx
          rw [hfr x (fun q hq => hx q (by simp [hq]))]
          exact visit_frame hT pl head fuel s0 a0 p sa aa h1 x (hx p (by simp))
      obtain ⟨s1, fr, hf1, w1, v1, hfr1, hframe⟩ := hfold cm.parents.reverse st []
        (fun p hp => hT c cm hcm p (List.mem_reverse.mp hp)) w v (by simp)
      simp only [hf1]
      obtain ⟨s2, hfin, v2⟩ := finish_total hpl (head := head) (pl.relStep cm.time rel) (c := c) (cm := cm) w1 v1 hfr1
      simp only [hfin]
      have hcl1 : classify s1.rp c = none := by
        rw [hframe c (fun p hp => hT c cm hcm p (List.mem_reverse.mp hp))]; exact hcl
      obtain ⟨cl, hcl2⟩ := classify_after_finish hcl1 hfin
      simp only [hcl2]
      exact ⟨s2, _, rfl, v2⟩

/-! ### the end of a branch, the loop over the branches -/

theorem reach_total {rcs : List RC} (hT : RcTopo rcs) : ∀ (fuel : Nat) (seen : List Nat) (r : Nat),
    r < fuel → r < rcs.length → ∃ s, reach rcs fuel seen r = .ok s := by
  intro fuel
  induction fuel with
  | zero => intro seen r hr; omega
  | succ fuel ih =>
    intro seen r hr hlen
    rw [reach]
    split
    · exact ⟨seen, rfl⟩
    · obtain ⟨rc, hrc⟩ : ∃ rc, rcs[r]? = some rc := ⟨rcs[r], List.getElem?_eq_getElem hlen⟩
      simp only [hrc]
      have hfold : ∀ (l : List Nat) (s0 : List Nat), (∀ p ∈ l, p < r) → ∃ s1, l.foldlM (reach rcs fuel) s0 = .ok s1 := by
        intro l
        induction l with
        | nil => intro s0 _; exact ⟨s0, rfl⟩
        | cons p l ihl =>
          intro s0 hlt
          have hp := hlt p (by simp)
          obtain ⟨sa, h1⟩ := ih s0 p (by omega) (by omega)
          obtain ⟨sb, h2⟩ := ihl sa (fun q hq => hlt q (by simp [hq]))
          exact ⟨sb, by rw [List.foldlM_cons, h1]; exact h2⟩
      exact hfold rc.parents (r :: seen) (fun p hp => hT r rc hrc p hp)

theorem ite_ok {α} (c : Prop) [Decidable c] (a b : α) :
    ∃ r, (if c then Except.ok a else Except.ok b : Except Err α) = .ok r := by
  split <;> exact ⟨_, rfl⟩

theorem endBranch_total {pl : Plug π β} {J : β → Prop} (hpl : PlugTotal pl J) (first : Bool) (b : Branch) {st : St β}
    (w : WF h st) (hJ : ∀ b ∈ st.rp.builds, J b.bumps) {rheads : List Nat} (hr : ∀ r ∈ rheads, r < st.rp.rcs.length) :
    ∃ res, endBranch pl first b st rheads = .ok res := by
  have hfold : ∀ (l : List Nat) (s0 : List Nat), (∀ p ∈ l, p < st.rp.rcs.length) →
      ∃ s1, l.foldlM (reach st.rp.rcs st.rp.rcs.length) s0 = .ok s1 := by
    intro l
    induction l with
    | nil => intro s0 _; exact ⟨s0, rfl⟩
    | cons p l ihl =>
      intro s0 hlt
      obtain ⟨sa, h1⟩ := reach_total w.rcPar st.rp.rcs.length s0 p (hlt p (by simp)) (hlt p (by simp))
      obtain ⟨sb, h2⟩ := ihl sa (fun q hq => hlt q (by simp [hq]))
      exact ⟨sb, by rw [List.foldlM_cons, h1]; exact h2⟩
  obtain ⟨seen, hseen⟩ := hfold rheads [] hr
  obtain ⟨curBuilds, hcb⟩ := buildsOf_total (rp := st.rp) st.br.cur (fun i hi => (w.curIff i).mp hi)
  unfold endBranch
  simp only [hseen, hcb]
  cases hm : (maxOf st.br.cur).bind st.rp.build? with
  | none =>
    simp only
    exact ite_ok _ _ _
  | some lb =>
    have hlb : lb ∈ st.rp.builds := by
      cases hmx : maxOf st.br.cur with
      | none => rw [hmx] at hm; cases hm
      | some i => rw [hmx] at hm; exact (build?_some hm).1
    obtain ⟨pend, hpend⟩ := hpl.pend lb.bumps (hJ lb hlb)
    simp only [hpend]
    exact ite_ok _ _ _

theorem vf_empty {J : β → Prop} {rp : Repo β} (hJ : ∀ b ∈ rp.builds, J b.bumps) : VF J (⟨rp, Br.empty⟩ : St β) := by
  refine ⟨?_, ?_, hJ⟩
  · intro k v hl; simp [Br.empty] at hl
  · intro e he; simp [Br.empty] at he

theorem readBranch_total (hT : h.Topo) {pl : Plug π β} {J : β → Prop} (hpl : PlugTotal pl J) (first : Bool)
    {rp : Repo β} (w : WF h ⟨rp, Br.empty⟩) (hJ : ∀ b ∈ rp.builds, J b.bumps) (b : Branch)
    (hb : b.head < h.commits.length) :
    ∃ rp1 rb, readBranch h pl first rp b = .ok (rp1, rb) ∧ ∀ b ∈ rp1.builds, J b.bumps := by
  obtain ⟨hc, hhc⟩ : ∃ hc, h.commits[b.head]? = some hc := ⟨h.commits[b.head], List.getElem?_eq_getElem hb⟩
  obtain ⟨st, rheads, hv, vf⟩ := visit_total hT hpl b.head h.commits.length (pl.relStep hc.time pl.relInit)
    ⟨rp, Br.empty⟩ [] b.head hb hb w (vf_empty hJ) (by simp)
  obtain ⟨w1, hr, _⟩ := visit_wf hT w (by simp) hv
  obtain ⟨⟨rp1, rb⟩, hres⟩ := endBranch_total hpl first b w1 vf.2.2 hr
  refine ⟨rp1, rb, by simp [readBranch, hhc, hv, hres], ?_⟩
  rw [(endBranch_spec hres).builds]
  exact vf.2.2

/-- the builds stored in `rcommits_bparents` and in `bn_map` are builds of the current branch -/
def VB (st : St β) : Prop := ValsCur st.br.cur st.br.bparents ∧ ∀ e ∈ st.br.bnMap, e.2 ∈ st.br.cur

theorem vb_empty (rp : Repo β) : VB (⟨rp, Br.empty⟩ : St β) :=
  ⟨by intro k v hl; simp [Br.empty] at hl, by intro e he; simp [Br.empty] at he⟩

theorem finish_vb {pl : Plug π β} {head : Nat} {rel : List Nat} {s s' : St β} {c : Nat} {cm : Commit π}
    {fr : List Nat} (w : WF h s) (v : VB s) (hQ : ∀ r ∈ fr, r < s.rp.rcs.length)
    (hf : finish pl head rel s c cm fr = .ok s') : VB s' := by
  have hcur : ∀ i, isCurBuild s.rp i = true → i ∈ s.br.cur := fun i hi => (w.curIff i).mpr hi
  cases finish_cases hf with
  | irrelevant => exact v
  | plain => exact v
  | plainMatch => exact v
  | skip bpar new pb pbs bumps _ _ hfn =>
    obtain ⟨bpar', new', pb', hfn', hvb, hpb⟩ := findNew_total w.rcPar hcur w.ancKeys v.1 fr hQ
    rw [hfn] at hfn'; cases hfn'
    refine ⟨fun k vv hl x hx => hvb k vv hl x hx, ?_⟩
    intro e he
    simp only [St.skipBuild] at he ⊢
    rcases foldl_setAll_vals _ _ _ e he with h1 | h1
    · exact hpb _ h1
    · exact v.2 e h1
  | build bpar new pb pbs bumps bn na _ hfn =>
    obtain ⟨bpar', new', pb', hfn', hvb, hpb⟩ := findNew_total w.rcPar hcur w.ancKeys v.1 fr hQ
    rw [hfn] at hfn'; cases hfn'
    refine ⟨?_, ?_⟩
    · intro k vv hl x hx
      simp only [St.addBuild] at hl ⊢
      exact List.mem_append_left _ (hvb k vv hl x hx)
    · intro e he
      simp only [St.addBuild] at he ⊢
      rcases setAll_vals _ _ _ e he with h1 | h1
      · rw [h1]; simp
      · exact List.mem_append_left _ (v.2 e h1)

/-- the builds in the `bn_map` of a finished branch are report commits of the graph -/
theorem readBranch_bnLt (hT : h.Topo) {pl : Plug π β} {first : Bool} {rp : Repo β}
    (w : WF h ⟨rp, Br.empty⟩) {b : Branch} {rp1 : Repo β} {rb : RBranch β}
    (hr : readBranch h pl first rp b = .ok (rp1, rb)) : ∀ e ∈ rb.bnMap, e.2 < rp1.rcs.length := by
  obtain ⟨hc0, st, rheads, hhc0, hv, he⟩ := readBranch_inv hr
  have H : VisitHyps h pl b.head (fun s => WF h s ∧ VB s ∧ ∀ e ∈ s.br.bnMap, e.2 < s.rp.rcs.length)
      (fun s _ acc => ∀ r ∈ acc, r < s.rp.rcs.length)
      (fun s s' => s.rp.rcs.length ≤ s'.rp.rcs.length) (fun _ => True) :=
    { Rrefl := fun _ => Nat.le_refl _
      Rtrans := fun h1 h2 => Nat.le_trans h1 h2
      Qmono := by
        intro s s' _ acc _ _ hR hQ r hr
        have := hQ r hr; omega
      Qnil := by intro s _ r hr; simp at hr
      Qcls := by
        intro s _ acc c cl hP hQ _ hc r hr
        rcases (mem_addCls acc cl r).mp hr with hr | hr
        · exact hQ r hr
        · exact hP.1.cls_lt hc r hr
      Vstep := fun _ _ _ => trivial
      Hfin := by
        intro rel s c cm fr s' hP _ hcl hcm hQ hf
        obtain ⟨w', hlen⟩ := finish_wf (h := h) hP.1 hQ hcl hcm hf
        have hv' : VB s' := finish_vb hP.1 hP.2.1 hQ hf
        refine ⟨⟨w', hv', ?_⟩, hlen⟩
        intro e he
        exact w'.ancLt _ (w'.ancKeys _ (hv'.2 e he)) }
  have hfin := visit_ind hT H h.commits.length ⟨rp, Br.empty⟩ [] [] b.head st rheads
    ⟨w, vb_empty rp, by simp [Br.empty]⟩ (by simp) trivial hv
  intro e hmem
  rw [endBranch_bnMap he] at hmem
  rw [(endBranch_spec he).rcs]
  exact hfin.1.2.2 e hmem

theorem minTs_total {rcs : List RC} : ∀ (bm : List (BN × Nat)) (mt : Option Nat),
    (∀ e ∈ bm, e.2 < rcs.length) → ∃ mt1, minTs rcs mt bm = .ok mt1 := by
  intro bm
  induction bm with
  | nil => intro mt _; exact ⟨mt, rfl⟩
  | cons e bm ih =>
    intro mt hb
    obtain ⟨bn, i⟩ := e
    have hi : i < rcs.length := hb (bn, i) (by simp)
    obtain ⟨rc, hrc⟩ : ∃ rc, rcs[i]? = some rc := ⟨rcs[i], List.getElem?_eq_getElem hi⟩
    simp only [minTs, hrc]
    exact ih _ (fun e' he' => hb e' (by simp [he']))

theorem readBranchesNW_total (hT : h.Topo) {pl : Plug π β} {J : β → Prop} (hpl : PlugTotal pl J) :
    ∀ (bs : List Branch) (first : Bool) (rp : Repo β), WF h ⟨rp, Br.empty⟩ → (∀ b ∈ rp.builds, J b.bumps) →
      (∀ b ∈ bs, b.head < h.commits.length) → ∃ res, readBranchesNW h pl first rp bs = .ok res := by
  intro bs
  induction bs with
  | nil => intro first rp _ _ _; exact ⟨_, rfl⟩
  | cons b bs ih =>
    intro first rp w hJ hb
    obtain ⟨rp1, rb, h1, hJ1⟩ := readBranch_total hT hpl first w hJ b (hb b (by simp))
    obtain ⟨hc0, st, rheads, hhc0, hv, he⟩ := readBranch_inv h1
    obtain ⟨w1, _, _⟩ := visit_wf hT w (by simp) hv
    have w2 := endBranch_wf w1 he
    obtain ⟨⟨rp2, rbs⟩, h2⟩ := ih false rp1 w2 hJ1 (fun b' hb' => hb b' (by simp [hb']))
    exact ⟨(rp2, rb :: rbs), by simp only [readBranchesNW, h1, h2]⟩

/-- the loop over the branches, with the obsolete-branch test, never fails (whatever the commit times are) -/
theorem readBranches_total (hT : h.Topo) {pl : Plug π β} {J : β → Prop} (hpl : PlugTotal pl J) :
    ∀ (bs : List Branch) (mt : Option Nat) (first : Bool) (rp : Repo β), WF h ⟨rp, Br.empty⟩ →
      (∀ b ∈ rp.builds, J b.bumps) → (∀ b ∈ bs, b.head < h.commits.length) →
      ∃ res, readBranches h pl mt first rp bs = .ok res ∧ ∀ b ∈ res.1.builds, J b.bumps := by
  intro bs
  induction bs with
  | nil => intro mt first rp _ hJ _; exact ⟨_, rfl, hJ⟩
  | cons b bs ih =>
    intro mt first rp w hJ hb
    have hlt := hb b (by simp)
    obtain ⟨hc, hhc⟩ : ∃ hc, h.commits[b.head]? = some hc := ⟨h.commits[b.head], List.getElem?_eq_getElem hlt⟩
    simp only [readBranches, hhc]
    by_cases hobs : obsolete mt hc.time = true
    · obtain ⟨⟨rp2, rbs, mt2⟩, h2, hJ2⟩ := ih mt first rp w hJ (fun b' hb' => hb b' (by simp [hb']))
      exact ⟨(rp2, RBranch.skipped b.name :: rbs, mt2), by simp only [hobs, if_true, h2], hJ2⟩
    · obtain ⟨rp1, rb, h1, hJ1⟩ := readBranch_total hT hpl first w hJ b hlt
      obtain ⟨hc0, st, rheads, hhc0, hv, he⟩ := readBranch_inv h1
      obtain ⟨w1, _, _⟩ := visit_wf hT w (by simp) hv
      have w2 := endBranch_wf w1 he
      obtain ⟨mt1, hm⟩ := minTs_total rb.bnMap mt (readBranch_bnLt hT w h1)
      obtain ⟨⟨rp2, rbs, mt2⟩, h2, hJ2⟩ := ih mt1 false rp1 w2 hJ1 (fun b' hb' => hb b' (by simp [hb']))
      exact ⟨(rp2, rb :: rbs, mt2), by simp only [hobs, h1, hm, h2]; rfl, hJ2⟩

theorem rgraphNW_total (hT : h.Topo) {pl : Plug π β} {J : β → Prop} (hpl : PlugTotal pl J) (mt : Option Nat)
    (hheads : ∀ b ∈ branchesOf h, b.head < h.commits.length) : ∃ g, rgraphNW h pl mt = .ok g := by
  obtain ⟨⟨rp, rbs⟩, hr⟩ := readBranchesNW_total hT hpl (branchesOf h) true Repo.empty wf_empty
    (by intro b hb; simp [Repo.empty] at hb) hheads
  exact ⟨{ rcs := rp.rcs, builds := rp.builds, all := rbs,
           branches := rbs.reverse.filter (fun rb => !rb.rbuilds.isEmpty), minTs := mt }, by simp only [rgraphNW, hr]⟩

/-- on a well-formed history the graph is always produced; the bumps of its builds satisfy the plug's invariant -/
theorem rgraph_total (hT : h.Topo) {pl : Plug π β} {J : β → Prop} (hpl : PlugTotal pl J)
    (hheads : ∀ b ∈ branchesOf h, b.head < h.commits.length) :
    ∃ g, rgraph h pl = .ok g ∧ ∀ b ∈ g.builds, J b.bumps := by
  obtain ⟨⟨rp, rbs, mt⟩, hr, hJ⟩ := readBranches_total hT hpl (branchesOf h) none true Repo.empty wf_empty
    (by intro b hb; simp [Repo.empty] at hb) hheads
  exact ⟨{ rcs := rp.rcs, builds := rp.builds, all := rbs,
           branches := rbs.reverse.filter (fun rb => !rb.rbuilds.isEmpty), minTs := mt }, by simp only [rgraph, hr], hJ⟩

/-- the heads of the release branches are heads of refs -/
theorem heads_of_refs (hrefs : ∀ r ∈ h.refs, r.2 < h.commits.length) :
    ∀ b ∈ branchesOf h, b.head < h.commits.length := by
  intro b hb
  have hb' := (mem_sortBy _ _ _).mp hb
  simp only [releaseBranches, List.mem_flatMap] at hb'
  obtain ⟨r, hr, hbr⟩ := hb'
  have : b.head = r.2 := by
    simp only [releaseBranch, List.mem_append] at hbr
    rcases hbr with h1 | h1
    · split at h1
      · simp at h1; rw [h1]
      · cases h1
    · split at h1
      · simp at h1; rw [h1]
      · cases h1
  rw [this]; exact hrefs r hr

theorem plugTotal_none : PlugTotal (Plug.none : Plug π Unit) (fun _ => True) :=
  ⟨fun _ _ _ _ => ⟨(), rfl, trivial⟩, fun _ _ => ⟨(), rfl⟩⟩

end

end Ghist
