import AkVerif.Lemmas.PPrint
import AkVerif.Lemmas.PPrintInt
/-!
Helper lemmas for C11, part 2: what the lexer does on the pieces the printer emits
(white space, punctuation, quoted strings, number and keyword tokens).
-/
namespace PPrint

/-- prepend tokens to a lexing result -/
def addT (ts : List Tok) (o : Option (List Tok)) : Option (List Tok) := o.map (ts ++ ·)

@[simp] theorem addT_nil (o : Option (List Tok)) : addT [] o = o := by
  cases o <;> simp [addT]

@[simp] theorem addT_addT (a b : List Tok) (o : Option (List Tok)) :
    addT a (addT b o) = addT (a ++ b) o := by
  cases o <;> simp [addT]

@[simp] theorem addT_none (a : List Tok) : addT a none = none := rfl
@[simp] theorem addT_some (a r : List Tok) : addT a (some r) = some (a ++ r) := rfl

theorem lexGo_cons (c : Consts) (s : LState) (ch : Char) (cs : List Char) :
    lexGo c s (ch :: cs) =
      match step c s ch with
      | none => none
      | some (s', ts) => addT ts (lexGo c s' cs) := by
  rw [lexGo]
  cases step c s ch with
  | none => rfl
  | some p => obtain ⟨s', ts⟩ := p; cases h : lexGo c s' cs <;> simp [addT, h]

/-- the text starts with a character that may follow a number / keyword, or is empty -/
def Delim (r : List Char) : Prop := ∀ ch, r.head? = some ch → isDelim ch = true

theorem Delim_nil : Delim [] := by intro ch h; simp at h
theorem Delim_cons {ch : Char} {r : List Char} (h : isDelim ch = true) : Delim (ch :: r) := by
  intro d hd; simp at hd; subst hd; exact h
theorem Delim_append {a : List Char} (b : List Char) (h : Delim a) (hne : a ≠ []) :
    Delim (a ++ b) := by
  cases a with
  | nil => exact absurd rfl hne
  | cons x r => intro d hd; exact h d (by simpa using hd)

/-! ### characters -/

theorem isDelim_not_numChar {ch : Char} (h : isDelim ch = true) : numChar ch = false := by
  simp only [isDelim, isWs, Bool.or_eq_true, decide_eq_true_eq] at h
  rcases h with (((h | h) | h) | h) | h
  · rcases h with h | h <;> subst h <;> decide
  all_goals subst h; decide

theorem isDelim_not_letter {ch : Char} (h : isDelim ch = true) : isLetter ch = false := by
  simp only [isDelim, isWs, Bool.or_eq_true, decide_eq_true_eq] at h
  rcases h with (((h | h) | h) | h) | h
  · rcases h with h | h <;> subst h <;> decide
  all_goals subst h; decide

theorem strOk_ne_quote {ch : Char} (h : strOk ch = true) : ch ≠ '"' := by
  rintro rfl; revert h; decide

theorem idleStep_numStart {ch : Char} (h : numStart ch = true) :
    idleStep ch = some (.inNum [ch], []) := by
  have h1 : isWs ch = false := by
    cases hw : isWs ch with
    | false => rfl
    | true =>
      simp only [isWs, Bool.or_eq_true, decide_eq_true_eq] at hw
      rcases hw with rfl | rfl <;> revert h <;> decide
  have n1 : ch ≠ '[' := by rintro rfl; revert h; decide
  have n2 : ch ≠ ']' := by rintro rfl; revert h; decide
  have n3 : ch ≠ '{' := by rintro rfl; revert h; decide
  have n4 : ch ≠ '}' := by rintro rfl; revert h; decide
  have n5 : ch ≠ ',' := by rintro rfl; revert h; decide
  have n6 : ch ≠ ':' := by rintro rfl; revert h; decide
  have n7 : ch ≠ '"' := by rintro rfl; revert h; decide
  simp [idleStep, h1, n1, n2, n3, n4, n5, n6, n7, h]

theorem isLetter_not_numStart {ch : Char} (h : isLetter ch = true) : numStart ch = false := by
  simp only [isLetter, numStart, isDigit, Bool.or_eq_true, Bool.and_eq_true, decide_eq_true_eq,
    Bool.or_eq_false_iff, Bool.and_eq_false_iff, decide_eq_false_iff_not] at h ⊢
  have e0 : '0'.toNat = 48 := by decide
  have e9 : '9'.toNat = 57 := by decide
  have ea : 'a'.toNat = 97 := by decide
  have ez : 'z'.toNat = 122 := by decide
  have eA : 'A'.toNat = 65 := by decide
  have eZ : 'Z'.toNat = 90 := by decide
  constructor
  · omega
  · rintro rfl
    have : '-'.toNat = 45 := by decide
    omega

theorem idleStep_letter {ch : Char} (h : isLetter ch = true) :
    idleStep ch = some (.inWord [ch], []) := by
  have h1 : isWs ch = false := by
    cases hw : isWs ch with
    | false => rfl
    | true =>
      simp only [isWs, Bool.or_eq_true, decide_eq_true_eq] at hw
      rcases hw with rfl | rfl <;> revert h <;> decide
  have n1 : ch ≠ '[' := by rintro rfl; revert h; decide
  have n2 : ch ≠ ']' := by rintro rfl; revert h; decide
  have n3 : ch ≠ '{' := by rintro rfl; revert h; decide
  have n4 : ch ≠ '}' := by rintro rfl; revert h; decide
  have n5 : ch ≠ ',' := by rintro rfl; revert h; decide
  have n6 : ch ≠ ':' := by rintro rfl; revert h; decide
  have n7 : ch ≠ '"' := by rintro rfl; revert h; decide
  simp [idleStep, h1, n1, n2, n3, n4, n5, n6, n7, h, isLetter_not_numStart h]

/-! ### white space and punctuation -/

variable (c : Consts)

@[simp] theorem lex_space (cs : List Char) : lexGo c .idle (' ' :: cs) = lexGo c .idle cs := by
  rw [lexGo_cons]; simp [step, idleStep, isWs]

@[simp] theorem lex_nl (cs : List Char) : lexGo c .idle ('\n' :: cs) = lexGo c .idle cs := by
  rw [lexGo_cons]; simp [step, idleStep, isWs]

@[simp] theorem lex_spaces (n : Nat) (cs : List Char) :
    lexGo c .idle (spaces n ++ cs) = lexGo c .idle cs := by
  induction n with
  | zero => simp [spaces]
  | succ n ih => simp only [spaces, List.replicate_succ, List.cons_append, lex_space]; exact ih

@[simp] theorem lex_lbrack (cs : List Char) :
    lexGo c .idle ('[' :: cs) = addT [.lbrack] (lexGo c .idle cs) := by
  rw [lexGo_cons]; simp [step, idleStep, isWs]

@[simp] theorem lex_rbrack (cs : List Char) :
    lexGo c .idle (']' :: cs) = addT [.rbrack] (lexGo c .idle cs) := by
  rw [lexGo_cons]; simp [step, idleStep, isWs]

@[simp] theorem lex_lbrace (cs : List Char) :
    lexGo c .idle ('{' :: cs) = addT [.lbrace] (lexGo c .idle cs) := by
  rw [lexGo_cons]; simp [step, idleStep, isWs]

@[simp] theorem lex_rbrace (cs : List Char) :
    lexGo c .idle ('}' :: cs) = addT [.rbrace] (lexGo c .idle cs) := by
  rw [lexGo_cons]; simp [step, idleStep, isWs]

@[simp] theorem lex_comma (cs : List Char) :
    lexGo c .idle (',' :: cs) = addT [.comma] (lexGo c .idle cs) := by
  rw [lexGo_cons]; simp [step, idleStep, isWs]

@[simp] theorem lex_colon (cs : List Char) :
    lexGo c .idle (':' :: cs) = addT [.colon] (lexGo c .idle cs) := by
  rw [lexGo_cons]; simp [step, idleStep, isWs]

/-! ### strings -/

theorem lex_inStr (acc s rest : List Char) (hs : s.all strOk = true) :
    lexGo c (.inStr acc) (s ++ '"' :: rest) = addT [.str (acc.reverse ++ s)] (lexGo c .idle rest) := by
  induction s generalizing acc with
  | nil => rw [List.nil_append, lexGo_cons]; simp [step]
  | cons x r ih =>
    simp only [List.all_cons, Bool.and_eq_true] at hs
    rw [List.cons_append, lexGo_cons]
    simp only [step, strOk_ne_quote hs.1, if_false, hs.1, if_true]
    rw [ih _ hs.2]
    simp

theorem lex_quoted (s rest : List Char) (hs : s.all strOk = true) :
    lexGo c .idle (quoted s ++ rest) = addT [.str s] (lexGo c .idle rest) := by
  have : quoted s ++ rest = '"' :: (s ++ '"' :: rest) := by simp [quoted]
  rw [this, lexGo_cons]
  simp only [step, idleStep]
  have e : isWs '"' = false := by decide
  simp [e, lex_inStr c [] s rest hs]

/-! ### numbers and keywords: closed by a delimiter or the end of the text -/

theorem lex_close (st : LState) (t : Tok) (d : Char) (r : List Char) (hd : isDelim d = true)
    (hst : step c st d = closeWith t d) :
    lexGo c st (d :: r) = addT [t] (lexGo c .idle (d :: r)) := by
  rw [lexGo_cons, lexGo_cons, hst]
  simp only [closeWith, hd, if_true, step]
  cases idleStep d with
  | none => rfl
  | some p => obtain ⟨s', ts⟩ := p; simp

theorem nstep_numChar {s s' : NSt} {ch : Char} (h : nstep s ch = some s') : numChar ch = true := by
  have h0 : numChar '0' = true := by decide
  cases s <;> simp only [nstep] at h <;> (repeat' split at h) <;>
    simp_all [numChar] <;> (rename_i hh; rcases hh with hh | hh <;> simp [hh])

theorem nrun_numChar {s s' : NSt} {t : List Char} (h : nrun s t = some s') :
    t.all numChar = true := by
  induction t generalizing s with
  | nil => rfl
  | cons x r ih =>
    simp only [nrun] at h
    split at h
    · rename_i s1 h1
      simp [nstep_numChar h1, ih h]
    · cases h

theorem numOk_shape {t : List Char} (h : numOk t = true) :
    ∃ x r, t = x :: r ∧ numStart x = true ∧ r.all numChar = true := by
  cases t with
  | nil => simp [numOk, nrun, naccept] at h
  | cons x r =>
    refine ⟨x, r, rfl, ?_, ?_⟩
    · have h0 : numStart '0' = true := by decide
      by_cases h1 : x = '-'
      · simp [numStart, h1]
      · by_cases h2 : x = '0'
        · rw [h2]; exact h0
        · by_cases h3 : isDigit x = true
          · simp [numStart, h3]
          · simp [numOk, nrun, nstep, h1, h2, h3] at h
    · simp only [numOk] at h
      split at h
      · rename_i s1 h1
        have := nrun_numChar h1
        simp only [List.all_cons, Bool.and_eq_true] at this
        exact this.2
      · cases h

theorem lex_inNum (acc t rest : List Char) (ht : t.all numChar = true)
    (hk : numOk (acc.reverse ++ t) = true) (hr : Delim rest) :
    lexGo c (.inNum acc) (t ++ rest) = addT [numTok (acc.reverse ++ t)] (lexGo c .idle rest) := by
  induction t generalizing acc with
  | nil =>
    simp only [List.append_nil] at hk
    cases rest with
    | nil => simp [lexGo, finish, hk]
    | cons d r =>
      have hd : isDelim d = true := hr d rfl
      rw [List.nil_append, lex_close c _ (numTok acc.reverse) d r hd]
      · simp
      · simp [step, isDelim_not_numChar hd, hk]
  | cons x r ih =>
    simp only [List.all_cons, Bool.and_eq_true] at ht
    rw [List.cons_append, lexGo_cons]
    simp only [step, ht.1, if_true]
    rw [ih (x :: acc) ht.2 (by simpa using hk)]
    simp

theorem lex_numTok (t rest : List Char) (ht : numOk t = true) (hr : Delim rest) :
    lexGo c .idle (t ++ rest) = addT [numTok t] (lexGo c .idle rest) := by
  obtain ⟨x, r, rfl, hx, hrr⟩ := numOk_shape ht
  rw [List.cons_append, lexGo_cons]
  simp only [step, idleStep_numStart hx]
  rw [lex_inNum c [x] r rest hrr (by simpa using ht) hr]
  simp

/-- a float text gives a `num` token -/
theorem lex_num (t rest : List Char) (ht : numOk t = true) (hf : intOf? t = none) (hr : Delim rest) :
    lexGo c .idle (t ++ rest) = addT [.num t] (lexGo c .idle rest) := by
  rw [lex_numTok c t rest ht hr, numTok_float hf]

/-- the text of an int gives the `int` token of that int -/
theorem lex_int (n : Int) (rest : List Char) (hr : Delim rest) :
    lexGo c .idle (showInt n ++ rest) = addT [.int n] (lexGo c .idle rest) := by
  rw [lex_numTok c _ rest (numOk_showInt n) hr, numTok_showInt]

theorem lex_inWord (acc w rest : List Char) (k : Kw) (hw : w.all isLetter = true)
    (hk : kwOf c (acc.reverse ++ w) = some k) (hr : Delim rest) :
    lexGo c (.inWord acc) (w ++ rest) = addT [.kw k] (lexGo c .idle rest) := by
  induction w generalizing acc with
  | nil =>
    simp only [List.append_nil] at hk
    cases rest with
    | nil => simp [lexGo, finish, hk]
    | cons d r =>
      have hd : isDelim d = true := hr d rfl
      rw [List.nil_append, lex_close c _ (.kw k) d r hd]
      simp [step, isDelim_not_letter hd, hk]
  | cons x r ih =>
    simp only [List.all_cons, Bool.and_eq_true] at hw
    rw [List.cons_append, lexGo_cons]
    simp only [step, hw.1, if_true]
    rw [ih (x :: acc) hw.2 (by simpa using hk)]
    simp

theorem kwOf_lit (hc : c.ok = true) (k : Kw) : kwOf c (c.lit k) = some k := by
  simp only [Consts.ok, Bool.and_eq_true, decide_eq_true_eq] at hc
  obtain ⟨⟨⟨⟨_, h1⟩, h2⟩, h3⟩, _⟩ := hc
  cases k
  · simp [kwOf, Consts.lit]
  · simp [kwOf, Consts.lit, Ne.symm h1]
  · simp [kwOf, Consts.lit, Ne.symm h2, Ne.symm h3]

theorem lit_letters (hc : c.ok = true) (k : Kw) :
    (c.lit k).all isLetter = true ∧ c.lit k ≠ [] := by
  simp only [Consts.ok, Bool.and_eq_true, decide_eq_true_eq, Bool.not_eq_true',
    List.isEmpty_eq_false_iff] at hc
  obtain ⟨⟨⟨⟨⟨⟨⟨⟨⟨a1, a2⟩, a3⟩, b1⟩, b2⟩, b3⟩, _⟩, _⟩, _⟩, _⟩ := hc
  cases k
  · exact ⟨a1, b1⟩
  · exact ⟨a2, b2⟩
  · exact ⟨a3, b3⟩

theorem lex_kw (hc : c.ok = true) (k : Kw) (rest : List Char) (hr : Delim rest) :
    lexGo c .idle (c.lit k ++ rest) = addT [.kw k] (lexGo c .idle rest) := by
  obtain ⟨hl, hne⟩ := lit_letters c hc k
  have hk := kwOf_lit c hc k
  cases hw : c.lit k with
  | nil => exact absurd hw hne
  | cons x r =>
    rw [hw] at hl hk
    simp only [List.all_cons, Bool.and_eq_true] at hl
    rw [List.cons_append, lexGo_cons]
    simp only [step, idleStep_letter hl.1]
    rw [lex_inWord c [x] r rest k hl.2 (by simpa using hk) hr]
    simp

/-- in a mode with keyword keys the literals are Python's names -/
theorem lit_kwStr (hc : c.ok = true) (hs : c.strKeys = false) (k : Kw) : c.lit k = kwStr k := by
  simp only [Consts.ok, Bool.and_eq_true, hs, Bool.false_or, decide_eq_true_eq] at hc
  obtain ⟨_, ⟨h1, h2⟩, h3⟩ := hc
  cases k <;> simp [Consts.lit, h1, h2, h3]

end PPrint
