import AkVerif.Model.Xls
/-!
Helper lemmas for C18 (`Props/C18.lean`): `mapE`, dictionaries, title binding, one row → one
object, the data rows of a table, the ladder fill.
-/
namespace Xls
open Ak

/-! ## mapE -/

theorem mapE_length {α β : Type} (f : α → Except Err β) :
    ∀ (l : List α) (r : List β), mapE f l = .ok r → r.length = l.length := by
  intro l
  induction l with
  | nil => intro r h; simp [mapE] at h; subst h; rfl
  | cons a as ih =>
    intro r h
    simp only [mapE] at h
    split at h
    · cases h
    · split at h
      · cases h
      · rename_i bs hbs
        cases h
        simp [ih _ hbs]

theorem mapE_get {α β : Type} (f : α → Except Err β) :
    ∀ (l : List α) (r : List β), mapE f l = .ok r →
      ∀ (i : Nat) (b : β), r[i]? = some b → ∃ a, l[i]? = some a ∧ f a = .ok b := by
  intro l
  induction l with
  | nil => intro r h i b hb; simp [mapE] at h; subst h; simp at hb
  | cons a as ih =>
    intro r h i b hb
    simp only [mapE] at h
    split at h
    · cases h
    · rename_i b0 hb0
      split at h
      · cases h
      · rename_i bs hbs
        cases h
        cases i with
        | zero => simp at hb; subst hb; exact ⟨a, by simp, hb0⟩
        | succ i => simp at hb; simpa using ih _ hbs i b hb

theorem mapE_get' {α β : Type} (f : α → Except Err β) (l : List α) (r : List β)
    (h : mapE f l = .ok r) (i : Nat) (a : α) (ha : l[i]? = some a) :
    ∃ b, r[i]? = some b ∧ f a = .ok b := by
  have hl := mapE_length f l r h
  have hi : i < l.length := by
    rcases Nat.lt_or_ge i l.length with h' | h'
    · exact h'
    · rw [List.getElem?_eq_none h'] at ha; cases ha
  have hi' : i < r.length := by omega
  obtain ⟨a', ha', hf⟩ := mapE_get f l r h i r[i] (by simp [hi'])
  rw [ha] at ha'; cases ha'
  exact ⟨r[i], by simp [hi'], hf⟩

/-! ## dictionaries -/

/-- value of the last pair with key `k` -/
def lastVal {X : Type} : List (Key × X) → Key → Option X
  | [], _ => none
  | (k', x) :: r, k =>
    match lastVal r k with
    | some y => some y
    | none => if k' = k then some x else none

theorem dictGet_dictSet {X : Type} (d : List (Key × X)) (k k' : Key) (x : X) :
    dictGet (dictSet d k x) k' = if k = k' then some x else dictGet d k' := by
  induction d with
  | nil => simp [dictSet, dictGet]
  | cons p r ih =>
    obtain ⟨k0, x0⟩ := p
    simp only [dictSet]
    by_cases h0 : k0 = k
    · subst h0
      simp only [if_true, dictGet]
      by_cases h1 : k0 = k' <;> simp [h1]
    · simp only [h0, if_false, dictGet, ih]
      by_cases h1 : k0 = k'
      · subst h1; simp [Ne.symm h0]
      · simp [h1]

theorem dictGet_foldl {X : Type} (l : List (Key × X)) :
    ∀ (d : List (Key × X)) (k : Key),
      dictGet (l.foldl (fun d kx => dictSet d kx.1 kx.2) d) k =
        match lastVal l k with
        | some x => some x
        | none => dictGet d k := by
  induction l with
  | nil => intro d k; simp [lastVal]
  | cons p r ih =>
    intro d k
    obtain ⟨k0, x0⟩ := p
    simp only [List.foldl_cons, ih, lastVal]
    cases hl : lastVal r k with
    | some y => simp
    | none => simp only [dictGet_dictSet]; by_cases h : k0 = k <;> simp [h]

theorem dictGet_dictOf {X : Type} (l : List (Key × X)) (k : Key) :
    dictGet (dictOf l) k = lastVal l k := by
  unfold dictOf
  rw [dictGet_foldl]
  cases lastVal l k <;> simp [dictGet]

theorem lastVal_zip_none {X : Type} :
    ∀ (names : List Key) (xs : List X) (k : Key),
      lastVal (names.zip xs) k = none → ∀ (m : Nat), m < xs.length → names[m]? ≠ some k := by
  intro names
  induction names with
  | nil => intro xs k _ m _; simp
  | cons n ns ih =>
    intro xs k h m hm
    cases xs with
    | nil => simp at hm
    | cons y ys =>
      simp only [List.zip_cons_cons, lastVal] at h
      cases hl : lastVal (ns.zip ys) k with
      | some z => rw [hl] at h; cases h
      | none =>
        rw [hl] at h
        simp only [] at h
        cases m with
        | zero =>
          simp only [List.getElem?_cons_zero]
          intro hc; cases hc
          simp at h
        | succ m =>
          simp only [List.getElem?_cons_succ]
          exact ih ys k hl m (by simpa using hm)

/-- the pair `lastVal` picks sits at the last index whose key is `k` -/
theorem lastVal_zip {X : Type} :
    ∀ (names : List Key) (xs : List X) (k : Key) (x : X),
      lastVal (names.zip xs) k = some x →
        ∃ m, names[m]? = some k ∧ xs[m]? = some x ∧
          ∀ m', m < m' → m' < xs.length → names[m']? ≠ some k := by
  intro names
  induction names with
  | nil => intro xs k x h; simp [lastVal] at h
  | cons n ns ih =>
    intro xs k x h
    cases xs with
    | nil => simp [lastVal] at h
    | cons y ys =>
      simp only [List.zip_cons_cons, lastVal] at h
      cases hl : lastVal (ns.zip ys) k with
      | some z =>
        rw [hl] at h; cases h
        obtain ⟨m, h1, h2, h3⟩ := ih ys k x hl
        refine ⟨m + 1, by simpa using h1, by simpa using h2, ?_⟩
        intro m' hm hlen
        cases m' with
        | zero => omega
        | succ m' => simpa using h3 m' (by omega) (by simpa using hlen)
      | none =>
        rw [hl] at h
        simp only [] at h
        split at h
        · rename_i hk
          cases h
          refine ⟨0, by simp [hk], by simp, ?_⟩
          intro m' hm hlen
          cases m' with
          | zero => omega
          | succ m' =>
            simp only [List.getElem?_cons_succ]
            exact lastVal_zip_none ns ys k hl m' (by simpa using hlen)
        · cases h

theorem lastVal_zip_of_get {X : Type} :
    ∀ (names : List Key) (xs : List X) (k : Key) (m : Nat) (x : X),
      names[m]? = some k → xs[m]? = some x → ∃ y, lastVal (names.zip xs) k = some y := by
  intro names
  induction names with
  | nil => intro xs k m x h; simp at h
  | cons n ns ih =>
    intro xs k m x h1 h2
    cases xs with
    | nil => simp at h2
    | cons y ys =>
      simp only [List.zip_cons_cons, lastVal]
      cases hl : lastVal (ns.zip ys) k with
      | some z => exact ⟨z, rfl⟩
      | none =>
        cases m with
        | zero => simp at h1; simp [h1]
        | succ m =>
          obtain ⟨z, hz⟩ := ih ys k m x (by simpa using h1) (by simpa using h2)
          rw [hl] at hz; cases hz

theorem mem_setOf (l : List Key) (k : Key) : k ∈ setOf l ↔ k ∈ l := by
  unfold setOf
  suffices ∀ (s : List Key), k ∈ l.foldl (fun s k => if s.contains k then s else s ++ [k]) s ↔ k ∈ s ∨ k ∈ l by
    simpa using this []
  induction l with
  | nil => intro s; simp
  | cons a as ih =>
    intro s
    simp only [List.foldl_cons, ih, List.mem_cons]
    by_cases h : s.contains a
    · simp only [h, if_true]
      have ha : a ∈ s := by simpa using h
      constructor
      · rintro (h1 | h1)
        · exact Or.inl h1
        · exact Or.inr (Or.inr h1)
      · rintro (h1 | h1 | h1)
        · exact Or.inl h1
        · exact Or.inl (h1 ▸ ha)
        · exact Or.inr h1
    · simp only [h]
      simp only [Bool.false_eq_true, if_false, List.mem_append, List.mem_singleton]
      constructor
      · rintro ((h1 | h1) | h1)
        · exact Or.inl h1
        · exact Or.inr (Or.inl h1)
        · exact Or.inr (Or.inr h1)
      · rintro (h1 | h1 | h1)
        · exact Or.inl (Or.inl h1)
        · exact Or.inl (Or.inr h1)
        · exact Or.inr h1

theorem mem_markedKeys {V : Type} (cv : Conv V) :
    ∀ (names : List Key) (vs : List V) (k : Key),
      k ∈ markedKeys cv (names.zip vs) ↔
        ∃ (m : Nat) (v : V), names[m]? = some k ∧ vs[m]? = some v ∧ cv.truthy v = true := by
  intro names
  induction names with
  | nil => intro vs k; simp [markedKeys]
  | cons n ns ih =>
    intro vs k
    cases vs with
    | nil => simp [markedKeys]
    | cons v vs =>
      simp only [List.zip_cons_cons, markedKeys]
      constructor
      · intro h
        by_cases ht : cv.truthy v = true
        · simp only [ht, if_true, List.mem_cons] at h
          rcases h with h | h
          · exact ⟨0, v, by simp [h], by simp, ht⟩
          · obtain ⟨m, w, h1, h2, h3⟩ := (ih vs k).mp h
            exact ⟨m + 1, w, by simpa using h1, by simpa using h2, h3⟩
        · simp only [ht] at h
          obtain ⟨m, w, h1, h2, h3⟩ := (ih vs k).mp h
          exact ⟨m + 1, w, by simpa using h1, by simpa using h2, h3⟩
      · rintro ⟨m, w, h1, h2, h3⟩
        cases m with
        | zero =>
          simp at h1 h2; subst h1; subst h2
          simp [h3]
        | succ m =>
          have : k ∈ markedKeys cv (ns.zip vs) :=
            (ih vs k).mpr ⟨m, w, by simpa using h1, by simpa using h2, h3⟩
          by_cases ht : cv.truthy v = true
          · simp [ht, this]
          · simp [ht, this]

/-! ## title binding -/

theorem lookupLast_some :
    ∀ (ts : List Key) (t : Key) (j : Nat), lookupLast ts t = some j →
      ts[j]? = some t ∧ ∀ k, j < k → ts[k]? ≠ some t := by
  intro ts
  induction ts with
  | nil => intro t j h; simp [lookupLast] at h
  | cons a as ih =>
    intro t j h
    simp only [lookupLast] at h
    cases hl : lookupLast as t with
    | some j' =>
      rw [hl] at h; cases h
      obtain ⟨h1, h2⟩ := ih t j' hl
      refine ⟨by simpa using h1, ?_⟩
      intro k hk
      cases k with
      | zero => omega
      | succ k => simpa using h2 k (by omega)
    | none =>
      rw [hl] at h
      simp only [] at h
      split at h
      · rename_i ha
        cases h
        refine ⟨by simp [ha], ?_⟩
        intro k hk
        cases k with
        | zero => omega
        | succ k =>
          simp only [List.getElem?_cons_succ]
          intro hc
          have hmem : t ∈ as := List.mem_of_getElem? hc
          clear ih hk ha
          -- `lookupLast as t = none` contradicts `t ∈ as`
          induction as generalizing k with
          | nil => cases hmem
          | cons b bs ih2 =>
            simp only [lookupLast] at hl
            cases hl2 : lookupLast bs t with
            | some _ => rw [hl2] at hl; cases hl
            | none =>
              rw [hl2] at hl
              simp only [] at hl
              split at hl
              · cases hl
              · rename_i hb
                cases k with
                | zero => simp at hc; exact hb hc
                | succ k =>
                  exact ih2 hl2 k (by simpa using hc) (List.mem_of_getElem? (by simpa using hc))
      · cases h

theorem lookupLast_none : ∀ (ts : List Key) (t : Key), lookupLast ts t = none → t ∉ ts := by
  intro ts
  induction ts with
  | nil => intro t _; simp
  | cons a as ih =>
    intro t h
    simp only [lookupLast] at h
    cases hl : lookupLast as t with
    | some _ => rw [hl] at h; cases h
    | none =>
      rw [hl] at h
      simp only [] at h
      split at h
      · cases h
      · rename_i ha
        simp only [List.mem_cons, not_or]
        exact ⟨fun hc => ha hc.symm, ih t hl⟩

theorem lookupLast_of_mem (ts : List Key) (t : Key) (h : t ∈ ts) : ∃ j, lookupLast ts t = some j := by
  cases hl : lookupLast ts t with
  | some j => exact ⟨j, rfl⟩
  | none => exact absurd h (lookupLast_none ts t hl)

theorem lookupAllLast_spec (titles : List Key) :
    ∀ (names : List Key) (ids : List Nat), lookupAllLast titles names = some ids →
      ids.length = names.length ∧
      ∀ (m : Nat) (n : Key), names[m]? = some n →
        ∃ j, ids[m]? = some j ∧ lookupLast titles n = some j := by
  intro names
  induction names with
  | nil => intro ids h; simp [lookupAllLast] at h; subst h; simp
  | cons n ns ih =>
    intro ids h
    simp only [lookupAllLast] at h
    split at h
    · rename_i j js hj hjs
      cases h
      obtain ⟨h1, h2⟩ := ih js hjs
      refine ⟨by simp [h1], ?_⟩
      intro m n' hm
      cases m with
      | zero => simp at hm; subst hm; exact ⟨j, by simp, hj⟩
      | succ m => simpa using h2 m n' (by simpa using hm)
    · cases h

theorem lookupAllLast_of_mem (titles : List Key) :
    ∀ (names : List Key), (∀ n ∈ names, n ∈ titles) → ∃ ids, lookupAllLast titles names = some ids := by
  intro names
  induction names with
  | nil => intro _; exact ⟨[], rfl⟩
  | cons n ns ih =>
    intro h
    obtain ⟨j, hj⟩ := lookupLast_of_mem titles n (h n (by simp))
    obtain ⟨js, hjs⟩ := ih (fun x hx => h x (by simp [hx]))
    exact ⟨j :: js, by simp [lookupAllLast, hj, hjs]⟩

theorem takeWhile_all {α : Type} (p : α → Bool) :
    ∀ (l : List α), ∀ x ∈ l.takeWhile p, p x = true := by
  intro l
  induction l with
  | nil => intro x hx; simp at hx
  | cons a as ih =>
    intro x hx
    simp only [List.takeWhile_cons] at hx
    split at hx
    · rename_i ha
      simp only [List.mem_cons] at hx
      rcases hx with hx | hx
      · exact hx ▸ ha
      · exact ih x hx
    · cases hx

theorem dropWhile_head {α : Type} (p : α → Bool) :
    ∀ (l : List α) (x : α) (rest : List α), l.dropWhile p = x :: rest → p x = false := by
  intro l
  induction l with
  | nil => intro x rest h; simp at h
  | cons a as ih =>
    intro x rest h
    simp only [List.dropWhile_cons] at h
    split at h
    · exact ih x rest h
    · rename_i ha
      cases h
      simpa using ha

theorem mem_of_mem_dropWhile {α : Type} (p : α → Bool) (l : List α) (x : α)
    (h : x ∈ l.dropWhile p) : x ∈ l := by
  have := List.takeWhile_append_dropWhile (p := p) (l := l)
  rw [← this]; exact List.mem_append_right _ h

theorem mem_of_mem_takeWhile {α : Type} (p : α → Bool) (l : List α) (x : α)
    (h : x ∈ l.takeWhile p) : x ∈ l := by
  have := List.takeWhile_append_dropWhile (p := p) (l := l)
  rw [← this]; exact List.mem_append_left _ h

theorem rangeNames_mem (known titles : List Key) (k : Key) (h : k ∈ rangeNames known titles) :
    k ∈ titles ∧ isRangeCol known k = true :=
  ⟨mem_of_mem_dropWhile _ _ _ (mem_of_mem_takeWhile _ _ _ h), takeWhile_all _ _ k h⟩

/-- the range columns are the first maximal run of titled columns that no rule names -/
theorem rangeNames_run (known titles : List Key) :
    ∃ pre post, titles = pre ++ rangeNames known titles ++ post ∧
      (∀ t ∈ pre, isRangeCol known t = false) ∧
      (∀ t ∈ rangeNames known titles, isRangeCol known t = true) ∧
      (∀ t rest, post = t :: rest → isRangeCol known t = false) := by
  refine ⟨titles.takeWhile (fun t => !isRangeCol known t),
    (titles.dropWhile (fun t => !isRangeCol known t)).dropWhile (isRangeCol known), ?_, ?_, ?_, ?_⟩
  · unfold rangeNames
    rw [List.append_assoc, List.takeWhile_append_dropWhile, List.takeWhile_append_dropWhile]
  · intro t ht
    have := takeWhile_all _ _ t ht
    simpa using this
  · intro t ht; exact takeWhile_all _ _ t ht
  · intro t rest h; exact dropWhile_head _ _ t rest h

theorem bindTitles_spec {V : Type} (titles known : List Key) (rules : List (Rule V))
    (slots : List Slot) (h : bindTitles titles known rules = .ok slots) :
    slots.length = rules.length ∧
    ∀ (i : Nat) (r : Rule V) (sl : Slot), rules[i]? = some r → slots[i]? = some sl →
      bindRule titles known r = .ok sl := by
  unfold bindTitles at h
  refine ⟨mapE_length _ _ _ h, ?_⟩
  intro i r sl hr hs
  obtain ⟨r', hr', hb⟩ := mapE_get _ _ _ h i sl hs
  rw [hr] at hr'; cases hr'; exact hb

/-! ## one row → one object -/

theorem zipInit_spec {V : Type} (cv : Conv V) (k : Nat) :
    ∀ (rules : List (Rule V)) (srcs : List Src) (attrs : List (AVal V × Origin)),
      zipInit cv k rules srcs = .ok attrs →
        attrs.length = min rules.length srcs.length ∧
        ∀ (i : Nat) (a : AVal V × Origin), attrs[i]? = some a →
          ∃ r s, rules[i]? = some r ∧ srcs[i]? = some s ∧ initAttr cv k r s = .ok a := by
  intro rules
  induction rules with
  | nil => intro srcs attrs h; simp [zipInit] at h; subst h; simp
  | cons r rs ih =>
    intro srcs attrs h
    cases srcs with
    | nil => simp [zipInit] at h; subst h; simp
    | cons s ss =>
      simp only [zipInit] at h
      split at h
      · cases h
      · rename_i a ha
        split at h
        · cases h
        · rename_i as has
          cases h
          obtain ⟨h1, h2⟩ := ih ss as has
          refine ⟨by simp [h1], ?_⟩
          intro i a' hi
          cases i with
          | zero => simp at hi; subst hi; exact ⟨r, s, by simp, by simp, ha⟩
          | succ i => simpa using h2 i a' (by simpa using hi)

theorem construct_some {V : Type} (cv : Conv V) (numId : Nat) (rules : List (Rule V))
    (slots : List Slot) (k : Nat) (row : Row) (o : Obj V)
    (h : construct cv numId rules slots k row = .ok (some o)) :
    ∃ srcs, mapE (srcOf row) slots = .ok srcs ∧ zipInit cv k rules srcs = .ok o.attrs ∧
      o.serial = k := by
  unfold construct at h
  split at h
  · cases h
  · rename_i srcs hs
    refine ⟨srcs, hs, ?_⟩
    split at h
    · cases h
    · split at h
      · cases h
      · split at h
        · cases h
        · split at h
          · cases h
          · rename_i attrs ha
            split at h
            · cases h
            · cases h; exact ⟨ha, rfl⟩

/-- every attribute of an object built from `row` comes from its rule, its slot and `row` -/
theorem construct_attr {V : Type} (cv : Conv V) (numId : Nat) (rules : List (Rule V))
    (slots : List Slot) (k : Nat) (row : Row) (o : Obj V)
    (h : construct cv numId rules slots k row = .ok (some o)) (hlen : slots.length = rules.length) :
    o.attrs.length = rules.length ∧ o.serial = k ∧
    ∀ (i : Nat) (a : AVal V × Origin), o.attrs[i]? = some a →
      ∃ r sl s, rules[i]? = some r ∧ slots[i]? = some sl ∧ srcOf row sl = .ok s ∧
        initAttr cv k r s = .ok a := by
  obtain ⟨srcs, hs, hz, hser⟩ := construct_some cv numId rules slots k row o h
  have hl := mapE_length _ _ _ hs
  obtain ⟨h1, h2⟩ := zipInit_spec cv k rules srcs o.attrs hz
  refine ⟨by omega, hser, ?_⟩
  intro i a ha
  obtain ⟨r, s, hr, hsi, hi⟩ := h2 i a ha
  obtain ⟨sl, hsl, hso⟩ := mapE_get _ _ _ hs i s hsi
  exact ⟨r, sl, s, hr, hsl, hso, hi⟩

/-! ## what an attribute and its reported origin say about each other -/

/-- ranged attribute: `items` is the reported `{title: coordinate}` -/
def RangeOk {V : Type} (cv : Conv V) (titles known : List Key) (look : Nat → Cell → Prop)
    (kind : RangeKind) (ct : Nat) (val : AVal V) (items : List (Key × List Char)) : Prop :=
  (∀ k c, dictGet items k = some c →
      ∃ (j : Nat) (cell : Cell) (v : V), titles[j]? = some k ∧ (∀ j', j < j' → titles[j']? ≠ some k) ∧
        isRangeCol known k = true ∧ look j cell ∧ cell.coord = c ∧
        cv.conv ct cell.val = .ok v ∧
        match kind with
        | .dict => ∃ d, val = .dict d ∧ dictGet d k = some v
        | .set => ∃ ks, val = .set ks ∧ (k ∈ ks ↔ cv.truthy v = true)) ∧
  (∀ k, (∃ c, dictGet items k = some c) ↔ k ∈ rangeNames known titles) ∧
  (match val with
   | .dict d => ∀ k v, dictGet d k = some v → ∃ c, dictGet items k = some c
   | .set ks => ∀ k, k ∈ ks → ∃ c, dictGet items k = some c
   | .plain _ => False)

/-- one attribute `a = (value, origin)` read by `rule` under the titles `titles`; `look j cell`:
`cell` is the cell that holds the value of column `j` for the row the object was made from -/
def AttrOk {V : Type} (cv : Conv V) (titles known : List Key) (look : Nat → Cell → Prop) (k : Nat)
    (rule : Rule V) (a : AVal V × Origin) : Prop :=
  match a.2 with
  | .na => ∃ d, rule = .ext d ∧ a.1 = .plain (d k)
  | .skipped => ∃ t ct d, rule = .col t ct (some d) ∧ t ∉ titles ∧ a.1 = .plain (d k)
  | .cell c => ∃ (t : Key) (ct : Nat) (d : Option (Nat → V)) (j : Nat) (cell : Cell) (v : V),
      rule = .col t ct d ∧ titles[j]? = some t ∧
      (∀ j', j < j' → titles[j']? ≠ some t) ∧ look j cell ∧ cell.coord = c ∧
      cv.conv ct cell.val = .ok v ∧ a.1 = .plain v
  | .range items => ∃ kind ct opt, rule = .range kind ct opt ∧
      RangeOk cv titles known look kind ct a.1 items

theorem getCell_ok (row : Row) (j : Nat) (c : Cell) (h : getCell row j = .ok c) : row[j]? = some c := by
  unfold getCell at h
  split at h
  · rename_i c' hc; cases h; exact hc
  · cases h

theorem getElem?_lt_of_some {α : Type} (l : List α) (i : Nat) (a : α) (h : l[i]? = some a) :
    i < l.length := by
  rcases Nat.lt_or_ge i l.length with h' | h'
  · exact h'
  · rw [List.getElem?_eq_none h'] at h; cases h

section range
variable {V : Type} (cv : Conv V) (titles known : List Key) (row : Row) (ct : Nat)
variable (ids : List Nat) (cells : List Cell) (vs : List V)

/-- the chain title → position → cell → converted value for the `m`-th range column -/
theorem range_chain
    (hids : lookupAllLast titles (rangeNames known titles) = some ids)
    (hcells : mapE (getCell row) ids = .ok cells)
    (hvs : mapE (fun c => cv.conv ct c.val) cells = .ok vs)
    (m : Nat) (n : Key) (hm : (rangeNames known titles)[m]? = some n) :
    ∃ (j : Nat) (cell : Cell) (v : V), lookupLast titles n = some j ∧ row[j]? = some cell ∧
      cells[m]? = some cell ∧ vs[m]? = some v ∧ cv.conv ct cell.val = .ok v := by
  obtain ⟨_, h2⟩ := lookupAllLast_spec titles _ ids hids
  obtain ⟨j, hj, hl⟩ := h2 m n hm
  obtain ⟨cell, hc, hg⟩ := mapE_get' _ _ _ hcells m j hj
  obtain ⟨v, hv, hcv⟩ := mapE_get' _ _ _ hvs m cell hc
  exact ⟨j, cell, v, hl, getCell_ok _ _ _ hg, hc, hv, hcv⟩

theorem range_lengths
    (hids : lookupAllLast titles (rangeNames known titles) = some ids)
    (hcells : mapE (getCell row) ids = .ok cells)
    (hvs : mapE (fun c => cv.conv ct c.val) cells = .ok vs) :
    cells.length = (rangeNames known titles).length ∧ vs.length = (rangeNames known titles).length := by
  have h1 := (lookupAllLast_spec titles _ ids hids).1
  have h2 := mapE_length _ _ _ hcells
  have h3 := mapE_length _ _ _ hvs
  omega

theorem range_ok (kind : RangeKind) (opt : Bool) (a : AVal V × Origin)
    (hids : lookupAllLast titles (rangeNames known titles) = some ids)
    (hcells : mapE (getCell row) ids = .ok cells)
    (k : Nat)
    (hinit : initAttr cv k (.range kind ct opt) (.range (rangeNames known titles) cells) = .ok a) :
    ∃ items, a.2 = .range items ∧
      RangeOk cv titles known (fun j c => row[j]? = some c) kind ct a.1 items := by
  simp only [initAttr] at hinit
  split at hinit
  · cases hinit
  · rename_i vs hvs
    have hchain := range_chain cv titles known row ct ids cells vs hids hcells hvs
    obtain ⟨hlc, hlv⟩ := range_lengths cv titles known row ct ids cells vs hids hcells hvs
    -- facts about the reported origins, independent of the kind
    have hkeys : ∀ k, (∃ c, dictGet (dictOf ((rangeNames known titles).zip (cells.map fun c => c.coord))) k = some c)
        ↔ k ∈ rangeNames known titles := by
      intro k
      constructor
      · rintro ⟨c, hc⟩
        rw [dictGet_dictOf] at hc
        obtain ⟨m, hm, _, _⟩ := lastVal_zip _ _ _ _ hc
        exact List.mem_of_getElem? hm
      · intro hk
        obtain ⟨m, hm⟩ := List.getElem?_of_mem hk
        obtain ⟨j, cell, v, _, _, hcm, _, _⟩ := hchain m k hm
        obtain ⟨y, hy⟩ := lastVal_zip_of_get (rangeNames known titles) (cells.map fun c => c.coord) k m
          cell.coord hm (by simp [hcm])
        exact ⟨y, by rw [dictGet_dictOf]; exact hy⟩
    have horg : ∀ k c, dictGet (dictOf ((rangeNames known titles).zip (cells.map fun c => c.coord))) k = some c →
        ∃ (m j : Nat) (cell : Cell) (v : V), (rangeNames known titles)[m]? = some k ∧
          (∀ m', m < m' → m' < cells.length → (rangeNames known titles)[m']? ≠ some k) ∧
          lookupLast titles k = some j ∧ row[j]? = some cell ∧ cell.coord = c ∧
          vs[m]? = some v ∧ cv.conv ct cell.val = .ok v := by
      intro k c hc
      rw [dictGet_dictOf] at hc
      obtain ⟨m, hm, hcm, hlast⟩ := lastVal_zip _ _ _ _ hc
      obtain ⟨j, cell, v, hl, hr, hcell, hv, hcv⟩ := hchain m k hm
      refine ⟨m, j, cell, v, hm, ?_, hl, hr, ?_, hv, hcv⟩
      · intro m' h1 h2; exact hlast m' h1 (by simpa using h2)
      · simp [hcell] at hcm; exact hcm
    cases kind with
    | dict =>
      simp only [] at hinit
      cases hinit
      refine ⟨_, rfl, ?_, hkeys, ?_⟩
      · intro k c hc
        obtain ⟨m, j, cell, v, hm, hlast, hl, hr, hco, hv, hcv⟩ := horg k c hc
        obtain ⟨ht, hlastj⟩ := lookupLast_some titles k j hl
        refine ⟨j, cell, v, ht, hlastj, (rangeNames_mem known titles k (List.mem_of_getElem? hm)).2, hr, hco, hcv, ?_⟩
        refine ⟨_, rfl, ?_⟩
        rw [dictGet_dictOf]
        obtain ⟨y, hy⟩ := lastVal_zip_of_get (rangeNames known titles) vs k m v hm hv
        obtain ⟨m2, hm2, hv2, hlast2⟩ := lastVal_zip _ _ _ _ hy
        have hm2lt := getElem?_lt_of_some _ _ _ hv2
        have hmlt := getElem?_lt_of_some _ _ _ hv
        have : m = m2 := by
          rcases Nat.lt_trichotomy m m2 with h | h | h
          · exact absurd hm2 (hlast m2 h (by omega))
          · exact h
          · exact absurd hm (hlast2 m h hmlt)
        subst this
        rw [hv] at hv2; cases hv2; exact hy
      · intro k v hk
        rw [dictGet_dictOf] at hk
        obtain ⟨m, hm, _, _⟩ := lastVal_zip _ _ _ _ hk
        exact (hkeys k).mpr (List.mem_of_getElem? hm)
    | set =>
      simp only [] at hinit
      cases hinit
      refine ⟨_, rfl, ?_, hkeys, ?_⟩
      · intro k c hc
        obtain ⟨m, j, cell, v, hm, hlast, hl, hr, hco, hv, hcv⟩ := horg k c hc
        obtain ⟨ht, hlastj⟩ := lookupLast_some titles k j hl
        refine ⟨j, cell, v, ht, hlastj, (rangeNames_mem known titles k (List.mem_of_getElem? hm)).2, hr, hco, hcv, ?_⟩
        refine ⟨_, rfl, ?_⟩
        rw [mem_setOf, mem_markedKeys]
        constructor
        · rintro ⟨m', v', hm', hv', htr⟩
          obtain ⟨j', cell', v'', hl', hr', _, hv'', hcv'⟩ := hchain m' k hm'
          rw [hl] at hl'; cases hl'
          rw [hr] at hr'; cases hr'
          rw [hcv] at hcv'; cases hcv'
          rw [hv'] at hv''; cases hv''
          exact htr
        · intro htr; exact ⟨m, v, hm, hv, htr⟩
      · intro k hk
        rw [mem_setOf, mem_markedKeys] at hk
        obtain ⟨m, _, hm, _, _⟩ := hk
        exact (hkeys k).mpr (List.mem_of_getElem? hm)

end range

theorem attr_ok {V : Type} (cv : Conv V) (titles known : List Key) (row : Row) (r : Rule V)
    (sl : Slot) (s : Src) (a : AVal V × Origin)
    (hb : bindRule titles known r = .ok sl) (hs : srcOf row sl = .ok s)
    (k : Nat) (hi : initAttr cv k r s = .ok a) :
    AttrOk cv titles known (fun j c => row[j]? = some c) k r a := by
  cases r with
  | ext d =>
    simp only [bindRule] at hb; cases hb
    simp only [srcOf] at hs; cases hs
    simp only [initAttr] at hi; cases hi
    exact ⟨d, rfl, rfl⟩
  | col t ct dflt =>
    simp only [bindRule] at hb
    cases hl : lookupLast titles t with
    | some j =>
      rw [hl] at hb; cases hb
      simp only [srcOf] at hs
      split at hs
      · rename_i c hc
        cases hs
        simp only [initAttr] at hi
        split at hi
        · rename_i v hv
          cases hi
          obtain ⟨ht, hlast⟩ := lookupLast_some titles t j hl
          exact ⟨t, ct, dflt, j, c, v, rfl, ht, hlast, getCell_ok _ _ _ hc, rfl, hv, rfl⟩
        · cases hi
      · cases hs
    | none =>
      rw [hl] at hb
      simp only [] at hb
      split at hb
      · rename_i hd
        cases hb
        simp only [srcOf] at hs; cases hs
        cases dflt with
        | none => simp at hd
        | some d =>
          simp only [initAttr] at hi; cases hi
          exact ⟨t, ct, d, rfl, lookupLast_none titles t hl, rfl⟩
      · cases hb
  | range kind ct opt =>
    simp only [bindRule] at hb
    split at hb
    · cases hb
    · split at hb
      · rename_i ids hids
        cases hb
        simp only [srcOf] at hs
        split at hs
        · rename_i cells hcells
          cases hs
          obtain ⟨items, ho, hr⟩ := range_ok cv titles known row ct ids cells kind opt a hids hcells k hi
          unfold AttrOk
          rw [ho]
          exact ⟨kind, ct, opt, rfl, hr⟩
        · cases hs
      · cases hb

/-- no `KeyError` in `col_names_ids[n]`: binding fails only with `ValueError` -/
theorem bindRule_error {V : Type} (titles known : List Key) (r : Rule V) (e : Err)
    (h : bindRule titles known r = .error e) : e = .valueError := by
  cases r with
  | ext d => simp [bindRule] at h
  | col t ct dflt =>
    simp only [bindRule] at h
    split at h
    · cases h
    · split at h
      · cases h
      · cases h; rfl
  | range kind ct opt =>
    simp only [bindRule] at h
    split at h
    · cases h; rfl
    · split at h
      · cases h
      · rename_i hn
        obtain ⟨ids, hids⟩ := lookupAllLast_of_mem titles (rangeNames known titles)
          (fun n hn => (rangeNames_mem known titles n hn).1)
        rw [hids] at hn; cases hn

theorem AttrOk.mono {V : Type} (cv : Conv V) (titles known : List Key) (look look' : Nat → Cell → Prop)
    (hm : ∀ j c, look j c → look' j c) (k : Nat) (rule : Rule V) (a : AVal V × Origin)
    (h : AttrOk cv titles known look k rule a) : AttrOk cv titles known look' k rule a := by
  unfold AttrOk at h ⊢
  split
  · rename_i ho; simp only [ho] at h; exact h
  · rename_i ho; simp only [ho] at h; exact h
  · rename_i c ho
    simp only [ho] at h
    obtain ⟨t, ct, d, j, cell, v, h1, h2, h3, h4, h5⟩ := h
    exact ⟨t, ct, d, j, cell, v, h1, h2, h3, hm j cell h4, h5⟩
  · rename_i items ho
    simp only [ho] at h
    obtain ⟨kind, ct, opt, h1, h2, h3, h4⟩ := h
    refine ⟨kind, ct, opt, h1, ?_, h3, h4⟩
    intro k c hk
    obtain ⟨j, cell, v, g1, g2, g3, g4, g5⟩ := h2 k c hk
    exact ⟨j, cell, v, g1, g2, g3, hm j cell g4, g5⟩

end Xls
