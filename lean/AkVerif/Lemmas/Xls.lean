import AkVerif.Model.Xls
/-!
Helper lemmas for C18 (`Props/C18.lean`): `mapE`, dictionaries, title binding, one row → one
object, the data rows of a table, the ladder fill.
-/
namespace Xls
open Ak

/-! ## mapE -/

theorem mapE_length {α β : Type} (f : α → Except Err β) :
    ∀ (l : List α) (r : List β), mapE f l = .ok r → r.length = l.length := by
  intro l
  induction l with
  | nil => intro r h; simp [mapE] at h; subst h; rfl
  | cons a as ih =>
    intro r h
    simp only [mapE] at h
    split at h
    · cases h
    · split at h
      · cases h
      · rename_i bs hbs
        cases h
        simp [ih _ hbs]

theorem mapE_get {α β : Type} (f : α → Except Err β) :
    ∀ (l : List α) (r : List β), mapE f l = .ok r →
      ∀ (i : Nat) (b : β), r[i]? = some b → ∃ a, l[i]? = some a ∧ f a = .ok b := by
  intro l
  induction l with
  | nil => intro r h i b hb; simp [mapE] at h; subst h; simp at hb
  | cons a as ih =>
    intro r h i b hb
    simp only [mapE] at h
    split at h
    · cases h
    · rename_i b0 hb0
      split at h
      · cases h
      · rename_i bs hbs
        cases h
        cases i with
        | zero => simp at hb; subst hb; exact ⟨a, by simp, hb0⟩
        | succ i => simp at hb; simpa using ih _ hbs i b hb

theorem mapE_get' {α β : Type} (f : α → Except Err β) (l : List α) (r : List β)
    (h : mapE f l = .ok r) (i : Nat) (a : α) (ha : l[i]? = some a) :
    ∃ b, r[i]? = some b ∧ f a = .ok b := by
  have hl := mapE_length f l r h
  have hi : i < l.length := by
    rcases Nat.lt_or_ge i l.length with h' | h'
    · exact h'
    · rw [List.getElem?_eq_none h'] at ha; cases ha
  have hi' : i < r.length := by omega
  obtain ⟨a', ha', hf⟩ := mapE_get f l r h i r[i] (by simp [hi'])
  rw [ha] at ha'; cases ha'
  exact ⟨r[i], by simp [hi'], hf⟩

/-! ## dictionaries -/

/-- value of the last pair with key `k` -/
def lastVal {X : Type} : List (Key × X) → Key → Option X
  | [], _ => none
  | (k', x) :: r, k =>
    match lastVal r k with
    | some y => some y
    | none => if k' = k then some x else none

theorem dictGet_dictSet {X : Type} (d : List (Key × X)) (k k' : Key) (x : X) :
    dictGet (dictSet d k x) k' = if k = k' then some x else dictGet d k' := by
  induction d with
  | nil => simp [dictSet, dictGet]
  | cons p r ih =>
    obtain ⟨k0, x0⟩ := p
    simp only [dictSet]
    by_cases h0 : k0 = k
    · subst h0
      simp only [if_true, dictGet]
      by_cases h1 : k0 = k' <;> simp [h1]
    · simp only [h0, if_false, dictGet, ih]
      by_cases h1 : k0 = k'
      · subst h1; simp [Ne.symm h0]
      · simp [h1]

theorem dictGet_foldl {X : Type} (l : List (Key × X)) :
    ∀ (d : List (Key × X)) (k : Key),
      dictGet (l.foldl (fun d kx => dictSet d kx.1 kx.2) d) k =
        match lastVal l k with
        | some x => some x
        | none => dictGet d k := by
  induction l with
  | nil => intro d k; simp [lastVal]
  | cons p r ih =>
    intro d k
    obtain ⟨k0, x0⟩ := p
    simp only [List.foldl_cons, ih, lastVal]
    cases hl : lastVal r k with
    | some y => simp
    | none => simp only [dictGet_dictSet]; by_cases h : k0 = k <;> simp [h]

theorem dictGet_dictOf {X : Type} (l : List (Key × X)) (k : Key) :
    dictGet (dictOf l) k = lastVal l k := by
  unfold dictOf
  rw [dictGet_foldl]
  cases lastVal l k <;> simp [dictGet]

theorem lastVal_zip_none {X : Type} :
    ∀ (names : List Key) (xs : List X) (k : Key),
      lastVal (names.zip xs) k = none → ∀ (m : Nat), m < xs.length → names[m]? ≠ some k := by
  intro names
  induction names with
  | nil => intro xs k _ m _; simp
  | cons n ns ih =>
    intro xs k h m hm
    cases xs with
    | nil => simp at hm
    | cons y ys =>
      simp only [List.zip_cons_cons, lastVal] at h
      cases hl : lastVal (ns.zip ys) k with
      | some z => rw [hl] at h; cases h
      | none =>
        rw [hl] at h
        simp only [] at h
        cases m with
        | zero =>
          simp only [List.getElem?_cons_zero]
          intro hc; cases hc
          simp at h
        | succ m =>
          simp only [List.getElem?_cons_succ]
          exact ih ys k hl m (by simpa using hm)

/-- the pair `lastVal` picks sits at the last index whose key is `k` -/
theorem lastVal_zip {X : Type} :
    ∀ (names : List Key) (xs : List X) (k : Key) (x : X),
      lastVal (names.zip xs) k = some x →
        ∃ m, names[m]? = some k ∧ xs[m]? = some x ∧
          ∀ m', m < m' → m' < xs.length → names[m']? ≠ some k := by
  intro names
  induction names with
  | nil => intro xs k x h; simp [lastVal] at h
  | cons n ns ih =>
    intro xs k x h
    cases xs with
    | nil => simp [lastVal] at h
    | cons y ys =>
      simp only [List.zip_cons_cons, lastVal] at h
      cases hl : lastVal (ns.zip ys) k with
      | some z =>
        rw [hl] at h; cases h
        obtain ⟨m, h1, h2, h3⟩ := ih ys k x hl
        refine ⟨m + 1, by simpa using h1, by simpa using h2, ?_⟩
        intro m' hm hlen
        cases m' with
        | zero => omega
        | succ m' => simpa using h3 m' (by omega) (by simpa using hlen)
      | none =>
        rw [hl] at h
        simp only [] at h
        split at h
        · rename_i hk
          cases h
          refine ⟨0, by simp [hk], by simp, ?_⟩
          intro m' hm hlen
          cases m' with
          | zero => omega
          | succ m' =>
            simp only [List.getElem?_cons_succ]
            exact lastVal_zip_none ns ys k hl m' (by simpa using hlen)
        · cases h

theorem lastVal_zip_of_get {X : Type} :
    ∀ (names : List Key) (xs : List X) (k : Key) (m : Nat) (x : X),
      names[m]? = some k → xs[m]? = some x → ∃ y, lastVal (names.zip xs) k = some y := by
  intro names
  induction names with
  | nil => intro xs k m x h; simp at h
  | cons n ns ih =>
    intro xs k m x h1 h2
    cases xs with
    | nil => simp at h2
    | cons y ys =>
      simp only [List.zip_cons_cons, lastVal]
      cases hl : lastVal (ns.zip ys) k with
      | some z => exact ⟨z, rfl⟩
      | none =>
        cases m with
        | zero => simp at h1; simp [h1]
        | succ m =>
          obtain ⟨z, hz⟩ := ih ys k m x (by simpa using h1) (by simpa using h2)
          rw [hl] at hz; cases hz

theorem mem_setOf (l : List Key) (k : Key) : k ∈ setOf l ↔ k ∈ l := by
  unfold setOf
  suffices ∀ (s : List Key), k ∈ l.foldl (fun s k => if s.contains k then s else s ++ [k]) s ↔ k ∈ s ∨ k ∈ l by
    simpa using this []
  induction l with
  | nil => intro s; simp
  | cons a as ih =>
    intro s
    simp only [List.foldl_cons, ih, List.mem_cons]
    by_cases h : s.contains a
    · simp only [h, if_true]
      have ha : a ∈ s := by simpa using h
      constructor
      · rintro (h1 | h1)
        · exact Or.inl h1
        · exact Or.inr (Or.inr h1)
      · rintro (h1 | h1 | h1)
        · exact Or.inl h1
        · exact Or.inl (h1 ▸ ha)
        · exact Or.inr h1
    · simp only [h]
      simp only [Bool.false_eq_true, if_false, List.mem_append, List.mem_singleton]
      constructor
      · rintro ((h1 | h1) | h1)
        · exact Or.inl h1
        · exact Or.inr (Or.inl h1)
        · exact Or.inr (Or.inr h1)
      · rintro (h1 | h1 | h1)
        · exact Or.inl (Or.inl h1)
        · exact Or.inl (Or.inr h1)
        · exact Or.inr h1

theorem mem_markedKeys {V : Type} (cv : Conv V) :
    ∀ (names : List Key) (vs : List V) (k : Key),
      k ∈ markedKeys cv (names.zip vs) ↔
        ∃ (m : Nat) (v : V), names[m]? = some k ∧ vs[m]? = some v ∧ cv.truthy v = true := by
  intro names
  induction names with
  | nil => intro vs k; simp [markedKeys]
  | cons n ns ih =>
    intro vs k
    cases vs with
    | nil => simp [markedKeys]
    | cons v vs =>
      simp only [List.zip_cons_cons, markedKeys]
      constructor
      · intro h
        by_cases ht : cv.truthy v = true
        · simp only [ht, if_true, List.mem_cons] at h
          rcases h with h | h
          · exact ⟨0, v, by simp [h], by simp, ht⟩
          · obtain ⟨m, w, h1, h2, h3⟩ := (ih vs k).mp h
            exact ⟨m + 1, w, by simpa using h1, by simpa using h2, h3⟩
        · simp only [ht] at h
          obtain ⟨m, w, h1, h2, h3⟩ := (ih vs k).mp h
          exact ⟨m + 1, w, by simpa using h1, by simpa using h2, h3⟩
      · rintro ⟨m, w, h1, h2, h3⟩
        cases m with
        | zero =>
          simp at h1 h2; subst h1; subst h2
          simp [h3]
        | succ m =>
          have : k ∈ markedKeys cv (ns.zip vs) :=
            (ih vs k).mpr ⟨m, w, by simpa using h1, by simpa using h2, h3⟩
          by_cases ht : cv.truthy v = true
          · simp [ht, this]
          · simp [ht, this]

end Xls
