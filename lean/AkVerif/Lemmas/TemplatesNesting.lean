import AkVerif.Lemmas.TemplatesConform
/-!
C05, nesting: for the json-like grammar `VALUE -> WORD | LIST | MAP`, `LIST = ListProds(.., VALUE, ..)`,
`MAP = MapProds(.., WORD, .., VALUE, ..)` (any well-formed option combination) the clean-up of the raw tree of a value
is the Python value it denotes, to any depth.
-/
namespace Templates
open Ak

/-- nested data: words, lists, maps with word keys (pairs in source order, keys may repeat) -/
inductive Data where
  | word (s : List Char)
  | list (xs : List Data)
  | map (kvs : List (List Char × Data))

mutual
/-- the Python value denoted by the data: `str`, `list`, `dict` (last value of a repeated key, at the position of
its first occurrence) -/
def pyval : Data → Val
  | .word s => .str s
  | .list xs => .list (pyvals xs)
  | .map kvs => .dict ((dictOf (pykvs kvs)).map fun p => (Val.str p.1, p.2))
def pyvals : List Data → List Val
  | [] => []
  | d :: ds => pyval d :: pyvals ds
def pykvs : List (List Char × Data) → List (List Char × Val)
  | [] => []
  | (k, d) :: r => (k, pyval d) :: pykvs r
end

/-- the json-like grammar and its cleanuper -/
structure JsonG where
  cl : Cleanuper
  value : Name
  word : Name
  lo : ListOpts
  mo : MapOpts
  lwf : lo.WF
  mwf : mo.WF
  item_value : lo.item = value
  key_word : mo.key = word
  val_value : mo.val = value
  tpl_list : lookup cl.templates lo.result = some (.list lo)
  tpl_map : lookup cl.templates mo.result = some (.map mo)
  tpl_value : lookup cl.templates value = none
  tpl_word : lookup cl.templates word = none
  squash_value : value ∈ cl.squash
  choice_value : value ∈ cl.choice
  keep_value : value ∉ cl.keep

def JsonG.vnode (G : JsonG) (x : Val) : Val := .elem G.value false (.list [x])
def JsonG.wtok (G : JsonG) (s : List Char) : Val := .elem G.word true (.str s)

def DenAll (R : Val → Data → Prop) : List Val → List Data → Prop
  | [], [] => True
  | i :: is, d :: ds => R i d ∧ DenAll R is ds
  | _, _ => False

def DenPairs (G : JsonG) (R : Val → Data → Prop) : List (Val × Val) → List (List Char × Data) → Prop
  | [], [] => True
  | (k, w) :: ps, (s, d) :: kvs => k = G.wtok s ∧ R w d ∧ DenPairs G R ps kvs
  | _, _ => False

/-- `Den G n t d`: the raw tree `t` of the value symbol denotes `d` (nesting depth below `n`) -/
def Den (G : JsonG) : Nat → Val → Data → Prop
  | 0, _, _ => False
  | n + 1, t, d =>
    (∃ s, t = G.vnode (G.wtok s) ∧ d = .word s) ∨
    (∃ lt items fin ds, t = G.vnode lt ∧ ListShape G.lo lt (some (items, fin)) ∧ d = .list ds ∧
      DenAll (Den G n) items ds) ∨
    (∃ mt pairs fin kvs, t = G.vnode mt ∧ MapShape G.mo mt (some (pairs, fin)) ∧ d = .map kvs ∧
      DenPairs G (Den G n) pairs kvs)

theorem pyval_ne_none (d : Data) : (pyval d).isNone = false := by
  cases d <;> simp [pyval, Val.isNone]

theorem lastIsNone_pyvals (ds : List Data) : lastIsNone (pyvals ds) = false := by
  induction ds with
  | nil => simp [pyvals, lastIsNone]
  | cons d ds ih =>
    cases ds with
    | nil => simp [pyvals, lastIsNone, pyval_ne_none]
    | cons e es => simpa [pyvals, lastIsNone] using ih

theorem adjust_pyvals (o : ListOpts) (ds : List Data) : adjust o (pyvals ds) = pyvals ds := by
  simp only [adjust, lastIsNone_pyvals]
  simp
  split
  · rename_i h1 h2
    cases ds with
    | nil => simp [pyvals] at h2
    | cons d ds =>
      cases ds with
      | nil =>
        simp [pyvals] at h2
        have := pyval_ne_none d
        rw [h2] at this
        simp [Val.isNone] at this
      | cons e es => simp [pyvals] at h2
  · rfl

theorem cleanup_wtok (G : JsonG) (s : List Char) (fc fch : Bool) :
    cleanup G.cl (G.wtok s) fc fch = .ok ((G.word, true, .str s), fch) := by
  simp [JsonG.wtok, cleanup, G.tpl_word]

theorem cleanup_vnode (G : JsonG) (x : Val) (r : El × Bool) (fc : Bool) (h : cleanup G.cl x false true = .ok r)
    (hr : r.2 = true) : cleanup G.cl (G.vnode x) fc false = .ok r := by
  have h1 : decide (G.value ∈ G.cl.choice) = true := by simp [G.choice_value]
  have h2 : decide (G.value ∈ G.cl.keep) = false := by simp [G.keep_value]
  simp only [JsonG.vnode, cleanup, G.tpl_value, cleanupAll, h1, h, bind, Except.bind, pure, Except.pure, squashStep,
    G.squash_value, if_true, h2, Bool.false_or, Bool.false_and, hr, Bool.true_or]
  simp
  cases r; simp_all

theorem cleanItem_of_cleanup {cl : Cleanuper} {t : Val} {r : El × Bool} (h : cleanup cl t true false = .ok r) :
    cleanItem cl t = .ok r.1 := by
  simp [cleanItem, h]

theorem denAll_clean (G : JsonG) (n : Nat)
    (ih : ∀ t d, Den G n t d → ∃ r, cleanup G.cl t true false = .ok r ∧ entry r.1 = pyval d ∧ r.2 = true) :
    ∀ items ds, DenAll (Den G n) items ds →
      ∃ es, cleanItems G.cl items = .ok es ∧ es.map entry = pyvals ds := by
  intro items
  induction items with
  | nil =>
    intro ds h
    cases ds with
    | nil => exact ⟨[], by simp [cleanItems], by simp [pyvals]⟩
    | cons d ds => simp [DenAll] at h
  | cons i is ihl =>
    intro ds h
    cases ds with
    | nil => simp [DenAll] at h
    | cons d ds =>
      simp only [DenAll] at h
      obtain ⟨r, hr, he, _⟩ := ih i d h.1
      obtain ⟨es, hes, hm⟩ := ihl ds h.2
      refine ⟨r.1 :: es, ?_, ?_⟩
      · simp [cleanItems, cleanItem_of_cleanup hr, hes]
      · simp [pyvals, he, hm]

theorem denPairs_clean (G : JsonG) (n : Nat)
    (ih : ∀ t d, Den G n t d → ∃ r, cleanup G.cl t true false = .ok r ∧ entry r.1 = pyval d ∧ r.2 = true) :
    ∀ pairs kvs, DenPairs G (Den G n) pairs kvs →
      cleanPairs G.cl pairs = .ok ((pykvs kvs).map fun p => (Val.str p.1, p.2)) := by
  intro pairs
  induction pairs with
  | nil =>
    intro kvs h
    cases kvs with
    | nil => simp [cleanPairs, pykvs]
    | cons d ds => simp [DenPairs] at h
  | cons p ps ihl =>
    intro kvs h
    obtain ⟨k, w⟩ := p
    cases kvs with
    | nil => simp [DenPairs] at h
    | cons kd kvs =>
      obtain ⟨s, d⟩ := kd
      simp only [DenPairs] at h
      obtain ⟨rfl, hw, hps⟩ := h
      obtain ⟨r, hr, he, _⟩ := ih w d hw
      have hk : cleanItem G.cl (G.wtok s) = .ok (G.word, true, .str s) := by
        simp [cleanItem, cleanup_wtok]
      have hks : entry (G.word, true, Val.str s) = Val.str s := by simp [entry]
      simp only [cleanPairs, cleanPair, hk, cleanItem_of_cleanup hr, ihl kvs hps, pykvs, he, hks, List.map_cons]

/-- **Nesting.** The clean-up of a raw tree that denotes `d` (as a container item or not: `fc` arbitrary) is an element
whose entry in the enclosing container is exactly the Python value of `d` — for every depth `n`; the element must not
be squashed further (`r.2`). -/
theorem den_clean_fc (G : JsonG) : ∀ n t d, Den G n t d → ∀ fc,
    ∃ r, cleanup G.cl t fc false = .ok r ∧ entry r.1 = pyval d ∧ r.2 = true := by
  intro n
  induction n with
  | zero => intro t d h; simp [Den] at h
  | succ n ih =>
    intro t d h fc
    simp only [Den] at h
    rcases h with ⟨s, rfl, rfl⟩ | ⟨lt, items, fin, ds, rfl, hs, rfl, hall⟩ | ⟨mt, pairs, fin, kvs, rfl, hs, rfl, hall⟩
    · exact ⟨_, cleanup_vnode G _ _ fc (cleanup_wtok G s false true) rfl, by simp [entry, pyval], rfl⟩
    · obtain ⟨es, hes, hm⟩ := denAll_clean G n (fun t d h => ih t d h true) items ds hall
      have hc := cleanup_list G.cl G.lo G.lwf G.tpl_list hs false true
      simp only [listResult, hes] at hc
      refine ⟨_, cleanup_vnode G _ _ fc hc rfl, ?_, rfl⟩
      simp [entry, pyval, hm, adjust_pyvals]
    · have hp := denPairs_clean G n (fun t d h => ih t d h true) pairs kvs hall
      have hc := cleanup_map G.cl G.mo G.mwf G.tpl_map hs false true
      simp only [mapResult, hp, pyDict_str] at hc
      refine ⟨_, cleanup_vnode G _ _ fc hc rfl, ?_, rfl⟩
      simp [entry, pyval]

theorem den_clean (G : JsonG) (n : Nat) (t : Val) (d : Data) (h : Den G n t d) :
    ∃ r, cleanup G.cl t true false = .ok r ∧ entry r.1 = pyval d := by
  obtain ⟨r, h1, h2, _⟩ := den_clean_fc G n t d h true
  exact ⟨r, h1, h2⟩

theorem Den_mono (G : JsonG) : ∀ n m t d, n ≤ m → Den G n t d → Den G m t d := by
  intro n
  induction n with
  | zero => intro m t d _ h; simp [Den] at h
  | succ n ih =>
    intro m t d hm h
    cases m with
    | zero => omega
    | succ m =>
      have hnm : n ≤ m := by omega
      have hall : ∀ items ds, DenAll (Den G n) items ds → DenAll (Den G m) items ds := by
        intro items
        induction items with
        | nil => intro ds h; cases ds <;> simp_all [DenAll]
        | cons i is ihl =>
          intro ds h
          cases ds with
          | nil => simp [DenAll] at h
          | cons d ds => exact ⟨ih m i d hnm h.1, ihl ds h.2⟩
      have hpairs : ∀ ps kvs, DenPairs G (Den G n) ps kvs → DenPairs G (Den G m) ps kvs := by
        intro ps
        induction ps with
        | nil => intro kvs h; cases kvs <;> simp_all [DenPairs]
        | cons p ps ihl =>
          intro kvs h
          obtain ⟨k, w⟩ := p
          cases kvs with
          | nil => simp [DenPairs] at h
          | cons kd kvs =>
            obtain ⟨s, d⟩ := kd
            exact ⟨h.1, ih m w d hnm h.2.1, ihl kvs h.2.2⟩
      simp only [Den] at h ⊢
      rcases h with h | ⟨lt, items, fin, ds, e1, hs, e2, hd⟩ | ⟨mt, pairs, fin, kvs, e1, hs, e2, hd⟩
      · exact Or.inl h
      · exact Or.inr (Or.inl ⟨lt, items, fin, ds, e1, hs, e2, hall items ds hd⟩)
      · exact Or.inr (Or.inr ⟨mt, pairs, fin, kvs, e1, hs, e2, hpairs pairs kvs hd⟩)

/-- a squashable symbol that is not kept disappears around a container item: cleaning `name[x]` as a container item
is cleaning `x` (as the child of `name`) -/
theorem cleanup_squash_in_container (cl : Cleanuper) (name : Name) (x : Val)
    (hT : lookup cl.templates name = none) (hs : name ∈ cl.squash) (hk : name ∉ cl.keep) :
    cleanup cl (.elem name false (.list [x])) true false = cleanup cl x false (decide (name ∈ cl.choice)) := by
  have h2 : decide (name ∈ cl.keep) = false := by simp [hk]
  simp only [cleanup, hT, cleanupAll, bind, Except.bind, pure, Except.pure]
  cases cleanup cl x false (decide (name ∈ cl.choice)) with
  | error e => simp
  | ok r => simp [squashStep, hs, h2]

/-- a kept squashable symbol stays (as a non-leaf element with its single cleaned child) when the child is kept too:
because it is a kept symbol or because it was selected by a choice symbol -/
theorem cleanup_kept_in_container (cl : Cleanuper) (name : Name) (x : Val) (r : El × Bool) (fc : Bool)
    (hT : lookup cl.templates name = none) (hs : name ∈ cl.squash) (hk : name ∈ cl.keep)
    (hx : cleanup cl x false (decide (name ∈ cl.choice)) = .ok r) (hc : r.2 = true ∨ r.1.1 ∈ cl.keep) :
    cleanup cl (.elem name false (.list [x])) fc false = .ok ((name, false, .list [r.1.toVal]), true) := by
  have h2 : decide (name ∈ cl.keep) = true := by simp [hk]
  have h3 : (r.2 || decide (r.1.1 ∈ cl.keep)) = true := by
    rcases hc with h | h <;> simp [h]
  simp only [cleanup, hT, cleanupAll, bind, Except.bind, pure, Except.pure, hx]
  simp [squashStep, hs, h2, h3]

end Templates
