import AkVerif.Lemmas.LLBasic
set_option linter.unusedSectionVars false
namespace LL
variable {σ : Type} [DecidableEq σ]

theorem Valid_leaf (G : Cfg σ) (U P : Gram σ) (n : σ) (v : List Char) :
    Valid G U P (.leaf n v) ↔ G.isTerm n = true := by
  unfold Valid; rfl

theorem Valid_node (G : Cfg σ) (U P : Gram σ) (n : σ) (cs : List (Tree σ)) :
    Valid G U P (.node n cs) ↔
      (∀ c ∈ cs, Valid G U P c ∧ G.isSuffix c.name = false ∧ U.ok c.name) ∧
      (if G.isSuffix n then Flat G P n (cs.map Tree.name) else cs.map Tree.name ∈ U.prods n) := by
  rw [Valid]

/-- slice of the token list -/
def seg (toks : List (Tok σ)) (a b : Nat) : List (Tok σ) := (toks.drop a).take (b - a)

theorem seg_self (toks : List (Tok σ)) (a : Nat) : seg toks a a = [] := by simp [seg]

theorem seg_append (toks : List (Tok σ)) {a b c : Nat} (h1 : a ≤ b) (h2 : b ≤ c) :
    seg toks a b ++ seg toks b c = seg toks a c := by
  unfold seg
  have : c - a = (b - a) + (c - b) := by omega
  rw [this, List.take_add]
  congr 1
  rw [List.drop_drop]
  congr 2
  omega

theorem seg_succ (toks : List (Tok σ)) {a b : Nat} (tok : Tok σ) (h1 : a ≤ b)
    (h : toks[b]? = some tok) : seg toks a (b + 1) = seg toks a b ++ [tok] := by
  rw [← seg_append toks h1 (Nat.le_succ b)]
  congr 1
  unfold seg
  have : b + 1 - b = 1 := by omega
  rw [this]
  have hb : b < toks.length := by
    rcases Nat.lt_or_ge b toks.length with h' | h'
    · exact h'
    · simp [List.getElem?_eq_none h'] at h
  have htok : toks[b] = tok := by simpa [List.getElem?_eq_getElem hb] using h
  rw [List.drop_eq_getElem_cons hb, htok]
  simp


/-! ### the invariant -/

structure FrameOK (G : Cfg σ) (U P : Gram σ) (toks : List (Tok σ)) (f : Frame σ) (prod : List σ) : Prop where
  cur : f.alts[f.idx]? = some prod
  alts : ∀ p ∈ f.alts, p ∈ P.prods f.sym
  names : f.vals.map Tree.name = prod.take f.vals.length
  len : f.vals.length ≤ prod.length
  valid : ∀ v ∈ f.vals, Valid G U P v
  yld : yieldL f.vals = seg toks f.start f.cur
  le : f.start ≤ f.cur

def FOK (G : Cfg σ) (U P : Gram σ) (toks : List (Tok σ)) (f : Frame σ) : Prop :=
  ∃ prod, FrameOK G U P toks f prod

/-- `f` is the frame opened to match the next symbol of `g` -/
def Link (G : Cfg σ) (f g : Frame σ) : Prop :=
  ∃ prod, g.alts[g.idx]? = some prod ∧ prod[g.vals.length]? = some f.sym ∧ f.start = g.cur ∧
    G.isTerm f.sym = false

def StackOK (G : Cfg σ) (U P : Gram σ) (toks : List (Tok σ)) : List (Frame σ) → Prop
  | [] => False
  | [b] => FOK G U P toks b
  | f :: g :: rest => FOK G U P toks f ∧ Link G f g ∧ StackOK G U P toks (g :: rest)

theorem StackOK_cons {G : Cfg σ} {U P : Gram σ} {toks : List (Tok σ)} {f : Frame σ} {rest : List (Frame σ)}
    (h : StackOK G U P toks (f :: rest)) : FOK G U P toks f := by
  cases rest with
  | nil => exact h
  | cons g r => exact h.1

/-- replacing the top frame by one with the same `sym`, `start` keeps the links -/
theorem StackOK_replace_top {G : Cfg σ} {U P : Gram σ} {toks : List (Tok σ)} {f f' : Frame σ}
    {rest : List (Frame σ)} (h : StackOK G U P toks (f :: rest)) (hf : FOK G U P toks f')
    (hs : f'.sym = f.sym) (hst : f'.start = f.start) : StackOK G U P toks (f' :: rest) := by
  cases rest with
  | nil => exact hf
  | cons g r =>
    refine ⟨hf, ?_, h.2.2⟩
    obtain ⟨prod, h1, h2, h3, h4⟩ := h.2.1
    exact ⟨prod, h1, by rw [hs]; exact h2, by rw [hst]; exact h3, by rw [hs]; exact h4⟩

theorem backtrack_ok {G : Cfg σ} {U P : Gram σ} {toks : List (Tok σ)} :
    ∀ (st st' : List (Frame σ)), StackOK G U P toks st → backtrack st = .cont st' →
      StackOK G U P toks st'
  | [], _, h, _ => h.elim
  | f :: rest, st', h, hb => by
    unfold backtrack at hb
    split at hb
    · rename_i hlt
      injection hb with hb
      subst hb
      obtain ⟨prod, hf⟩ := StackOK_cons h
      have hget : f.alts[f.idx + 1]? = some (f.alts[f.idx + 1]'hlt) := List.getElem?_eq_getElem hlt
      refine StackOK_replace_top h ⟨f.alts[f.idx + 1]'hlt, ?_⟩ rfl rfl
      exact { cur := hget, alts := hf.alts, names := by simp, len := by simp, valid := by simp,
              yld := by simp [seg_self], le := Nat.le_refl _ }
    · cases rest with
      | nil => simp [backtrack] at hb
      | cons g r => exact backtrack_ok (g :: r) st' h.2.2 hb


theorem list_nil_or_snoc {α : Type} (l : List α) : l = [] ∨ ∃ a b, l = a ++ [b] := by
  rcases List.eq_nil_or_concat l with h | ⟨a, b, h⟩
  · exact Or.inl h
  · exact Or.inr ⟨a, b, by simpa [List.concat_eq_append] using h⟩

theorem prod_mem {G : Cfg σ} {U P : Gram σ} {toks : List (Tok σ)} {f : Frame σ} {prod : List σ}
    (hf : FrameOK G U P toks f prod) : prod ∈ P.prods f.sym :=
  hf.alts _ (List.mem_of_getElem? hf.cur)

/-- the node built on completion of a production is valid, and splicing keeps the yield -/
theorem complete_valid {G : Cfg σ} {U P : Gram σ} {toks : List (Tok σ)} (hF : FactOK G U P)
    {f : Frame σ} {prod : List σ} (hf : FrameOK G U P toks f prod)
    (hlen : f.vals.length = prod.length) :
    Valid G U P (.node f.sym (splice G prod f.vals)) ∧
      yieldL (splice G prod f.vals) = yieldL f.vals := by
  have hnames : f.vals.map Tree.name = prod := by
    have := hf.names; rw [hlen, List.take_length] at this; exact this
  have hmem := prod_mem hf
  -- common: node over children `cs` with names `ns`, given the grammar fact
  have mk : ∀ cs : List (Tree σ),
      (∀ c ∈ cs, Valid G U P c ∧ G.isSuffix c.name = false ∧ U.ok c.name) →
      (if G.isSuffix f.sym then Flat G P f.sym (cs.map Tree.name)
        else cs.map Tree.name ∈ U.prods f.sym) →
      Valid G U P (.node f.sym cs) := fun cs h1 h2 => (Valid_node ..).2 ⟨h1, h2⟩
  rcases list_nil_or_snoc f.vals with hnil | ⟨vs, v, hvs⟩
  · -- empty production
    have hp : prod = [] := by rw [← hnames, hnil]; rfl
    have hs : splice G prod f.vals = [] := by simp [splice, hp, hnil]
    rw [hs, hnil]
    refine ⟨mk [] (by simp) ?_, rfl⟩
    subst hp
    split
    · exact Flat.base hmem (by simp)
    · rename_i hns
      exact hF.plain _ _ (by simpa using hns) hmem (by simp)
  · -- prod = pre ++ [l]
    have hp : prod = vs.map Tree.name ++ [v.name] := by rw [← hnames, hvs]; simp
    have hvalid_vs : ∀ c ∈ vs, Valid G U P c ∧ G.isSuffix c.name = false ∧ U.ok c.name := by
      intro c hc
      refine ⟨hf.valid c (by rw [hvs]; simp [hc]), ?_, ?_⟩
      · apply hF.inner _ _ hmem
        rw [hp]; simp
        exact ⟨c, hc, rfl⟩
      · apply hF.symOk _ _ hmem
        rw [hp]; simp
        exact Or.inl ⟨c, hc, rfl⟩
    have hvalid_v : Valid G U P v := hf.valid v (by rw [hvs]; simp)
    by_cases hsuf : G.isSuffix v.name = true
    · -- suffix: splice
      have hs : splice G prod f.vals = vs ++ v.children := by
        simp [splice, hp, hvs, hsuf]
      cases v with
      | leaf n val =>
        have : G.isTerm n = true := (Valid_leaf ..).1 hvalid_v
        have := hF.suffNT n hsuf
        simp_all
      | node n cs =>
        obtain ⟨hcs, hflat⟩ := (Valid_node ..).1 hvalid_v
        simp only [Tree.name] at hsuf hp
        rw [if_pos hsuf] at hflat
        rw [hs, hvs]
        refine ⟨mk _ ?_ ?_, by simp [Tree.children]⟩
        · intro c hc
          simp [Tree.children] at hc
          rcases hc with hc | hc
          · exact hvalid_vs c hc
          · exact hcs c hc
        · have hmem' : vs.map Tree.name ++ [n] ∈ P.prods f.sym := hp ▸ hmem
          simp only [Tree.children, List.map_append]
          split
          · exact Flat.step hmem' hsuf hflat
          · rename_i hns
            exact hF.grp _ _ _ _ (by simpa using hns) hmem' hsuf hflat
    · -- no splice
      have hsuf' : G.isSuffix v.name = false := by simpa using hsuf
      have hs : splice G prod f.vals = f.vals := by
        simp [splice, hp, hvs, hsuf']
      rw [hs]
      refine ⟨mk _ ?_ ?_, rfl⟩
      · intro c hc
        rw [hvs] at hc
        simp at hc
        rcases hc with hc | hc
        · exact hvalid_vs c hc
        · subst hc
          refine ⟨hvalid_v, hsuf', ?_⟩
          apply hF.symOk _ _ hmem
          rw [hp]; simp
      · rw [hnames]
        have hlast : ∀ l, prod.getLast? = some l → G.isSuffix l = false := by
          intro l hl; rw [hp] at hl; simp at hl; subst hl; exact hsuf'
        split
        · exact Flat.base hmem hlast
        · rename_i hns
          exact hF.plain _ _ (by simpa using hns) hmem hlast


/-- what a `done` answer means -/
def DoneOK (G : Cfg σ) (U P : Gram σ) (toks : List (Tok σ)) (st : List (Frame σ)) (r : Tree σ) : Prop :=
  ∃ b cs, st = [b] ∧ Valid G U P (.node b.sym cs) ∧ yieldL cs = seg toks b.start b.cur ∧
    cs.head? = some r

theorem backtrack_not_done (st : List (Frame σ)) (r : Tree σ) : backtrack st ≠ .done r := by
  induction st with
  | nil => simp [backtrack]
  | cons a l ih => unfold backtrack; split <;> simp_all

theorem step_cont {G : Cfg σ} {U P : Gram σ} {toks : List (Tok σ)} (hF : FactOK G U P)
    (hT : TableWF G P) (st st' : List (Frame σ)) (h : StackOK G U P toks st)
    (hs : step G toks st = .cont st') : StackOK G U P toks st' := by
  cases st with
  | nil => exact h.elim
  | cons top rest =>
    obtain ⟨prod, hf⟩ := StackOK_cons h
    unfold step at hs
    simp only [hf.cur] at hs
    split at hs
    · -- production complete
      rename_i hlen
      obtain ⟨hv, hy⟩ := complete_valid hF hf hlen
      cases rest with
      | nil =>
        simp only [Tree.children] at hs
        split at hs <;> simp at hs
      | cons parent rest' =>
        simp only at hs
        injection hs with hs
        subst hs
        obtain ⟨hftop, ⟨pprod, hp1, hp2, hp3, hp4⟩, hrest⟩ := h
        obtain ⟨pprod', hpf⟩ := StackOK_cons hrest
        have hpe : pprod' = pprod := by
          have := hpf.cur; rw [hp1] at this; injection this with this; exact this.symm
        subst hpe
        have hlt : parent.vals.length < pprod'.length := by
          rcases Nat.lt_or_ge parent.vals.length pprod'.length with h' | h'
          · exact h'
          · simp [List.getElem?_eq_none h'] at hp2
        refine StackOK_replace_top hrest ⟨pprod', ?_⟩ rfl rfl
        refine { cur := hpf.cur, alts := hpf.alts, names := ?_, len := ?_, valid := ?_, yld := ?_, le := ?_ }
        · simp only [List.map_append, List.length_append, List.length_cons, List.length_nil,
            List.map_cons, List.map_nil, Tree.name]
          rw [hpf.names, List.take_add_one, hp2]
          simp
        · simp; omega
        · intro v hv'
          simp at hv'
          rcases hv' with hv' | hv'
          · exact hpf.valid v hv'
          · subst hv'; exact hv
        · simp only [yieldL_append, yieldL_single, yield_node, hy, hf.yld, hpf.yld]
          rw [hp3]
          exact seg_append toks hpf.le (hp3 ▸ hf.le)
        · have := hpf.le; have := hf.le; simp only; omega
    · -- production not complete
      rename_i hlen
      split at hs
      · rename_i c tok hc htok
        split at hs
        · rename_i hterm
          split at hs
          · -- terminal matched
            rename_i hname
            injection hs with hs
            subst hs
            refine StackOK_replace_top h ⟨prod, ?_⟩ rfl rfl
            refine { cur := hf.cur, alts := hf.alts, names := ?_, len := ?_, valid := ?_, yld := ?_, le := ?_ }
            · simp only [List.map_append, List.length_append, List.length_cons, List.length_nil,
                List.map_cons, List.map_nil, Tree.name]
              rw [hf.names, List.take_add_one, hc]
              simp
            · have := hf.len
              simp; omega
            · intro v hv'
              simp at hv'
              rcases hv' with hv' | hv'
              · exact hf.valid v hv'
              · subst hv'; exact (Valid_leaf ..).2 hterm
            · simp only [yieldL_append, yieldL_single, Tree.yield, hf.yld]
              rw [seg_succ toks tok hf.le htok]
              subst hname
              rfl
            · have := hf.le; simp only; omega
          · exact backtrack_ok _ _ h hs
        · rename_i hterm
          split at hs
          · rename_i alts halts
            injection hs with hs
            subst hs
            obtain ⟨hne, hsub⟩ := hT.sub _ _ _ halts
            cases alts with
            | nil => exact absurd rfl hne
            | cons a as =>
              refine ⟨⟨a, ?_⟩, ⟨prod, hf.cur, hc, rfl, by simpa using hterm⟩, h⟩
              exact { cur := by simp, alts := hsub, names := by simp, len := by simp,
                      valid := by simp, yld := by simp [seg_self], le := Nat.le_refl _ }
          · exact backtrack_ok _ _ h hs
      · simp at hs

theorem step_done {G : Cfg σ} {U P : Gram σ} {toks : List (Tok σ)} (hF : FactOK G U P)
    (st : List (Frame σ)) (r : Tree σ) (h : StackOK G U P toks st)
    (hs : step G toks st = .done r) : DoneOK G U P toks st r := by
  cases st with
  | nil => exact h.elim
  | cons top rest =>
    obtain ⟨prod, hf⟩ := StackOK_cons h
    unfold step at hs
    simp only [hf.cur] at hs
    split at hs
    · rename_i hlen
      obtain ⟨hv, hy⟩ := complete_valid hF hf hlen
      cases rest with
      | nil =>
        simp only [Tree.children] at hs
        split at hs
        · rename_i r' hr
          injection hs with hs
          subst hs
          exact ⟨top, _, rfl, hv, by rw [hy]; exact hf.yld, hr⟩
        · simp at hs
      | cons parent rest' => simp at hs
    · split at hs
      · split at hs
        · split at hs
          · simp at hs
          · exact absurd hs (backtrack_not_done _ _)
        · split at hs
          · simp at hs
          · exact absurd hs (backtrack_not_done _ _)
      · simp at hs

/-- C01 core: whatever `run` returns from a state satisfying the invariant is a valid derivation
    of the *user's* grammar whose leaves are the tokens consumed. -/
theorem run_sound {G : Cfg σ} {U P : Gram σ} {toks : List (Tok σ)} (hF : FactOK G U P)
    (hT : TableWF G P) : ∀ (fuel : Nat) (st : List (Frame σ)) (r : Tree σ),
    StackOK G U P toks st → run G toks fuel st = .ok r →
    ∃ st' , StackOK G U P toks st' ∧ DoneOK G U P toks st' r
  | 0, _, _, _, h => by simp [run] at h
  | fuel + 1, st, r, hst, h => by
    unfold run at h
    split at h
    · rename_i st' hs
      exact run_sound hF hT fuel st' r (step_cont hF hT _ _ hst hs) h
    · rename_i t hs
      injection h with h
      subst h
      exact ⟨st, hst, step_done hF _ _ hst hs⟩
    · simp at h
    · simp at h

end LL
