import AkVerif.Lemmas.Table
/-!
Lemmas about whole renderings (`Table.render`): the stored widths do not influence what is printed,
printing twice prints the same, the lines as a function of what they depend on (`linesWith`), the
"never printed" view of a table (`fresh`), and how wide negotiation makes the columns.
Used by `Props/C12.lean` and by the C13 lemmas.
-/
namespace Table
open Ak

/-! ## the stored widths do not influence what is printed -/

/-- `ReprColumn.clone()`: the column without its negotiated width -/
def Col.reset (c : Col) : Col := { c with width := Option.none }

/-- the same columns with other values in the `width` slot -/
def rew (k : Col × Nat → Option Nat) (ws : List (Col × Nat)) : List (Col × Nat) :=
  ws.map fun cw => ({ cw.1 with width := k cw }, cw.2)

theorem rew_widths (k) (ws : List (Col × Nat)) : (rew k ws).map (·.2) = ws.map (·.2) := by
  simp [rew, List.map_map, Function.comp_def]

theorem rew_ne (k) (ws : List (Col × Nat)) : rew k ws = [] ↔ ws = [] := by simp [rew]

theorem recordCells_rew (k) (r : Record) (ws : List (Col × Nat)) :
    recordCells r (rew k ws) = recordCells r ws := by
  induction ws with
  | nil => rfl
  | cons cw cs ih =>
    obtain ⟨c, w⟩ := cw
    simp only [rew, List.map_cons] at ih ⊢
    simp only [recordCells, ih]

theorem titleCells_rew (k) (i : Nat) (ws : List (Col × Nat)) : titleCells i (rew k ws) = titleCells i ws := by
  induction ws with
  | nil => rfl
  | cons cw cs ih =>
    obtain ⟨c, w⟩ := cw
    simp only [rew, List.map_cons] at ih ⊢
    simp only [titleCells, ih]

theorem bodyLines_rew (k) (ws : List (Col × Nat)) (tw : Nat) (n : Int) (tls : List TLine) :
    bodyLines (rew k ws) tw n tls = bodyLines ws tw n tls := by
  induction tls with
  | nil => rfl
  | cons t ts ih =>
    have : bodyLine (rew k ws) tw n t = bodyLine ws tw n t := by
      cases t <;> simp [bodyLine, recordCells_rew]
    simp only [bodyLines, this, ih]

theorem titleCount_rew (k) (ws : List (Col × Nat)) : titleCount (rew k ws) = titleCount ws := by
  simp [titleCount, rew, List.map_map, Function.comp_def]

theorem titleLinesOf_rew (k) (ws : List (Col × Nat)) (n : Nat) : titleLinesOf (rew k ws) n = titleLinesOf ws n := by
  simp [titleLinesOf, titleCells_rew]

theorem borderLine_rew (k) (ws : List (Col × Nat)) : borderLine (rew k ws) = borderLine ws := by
  simp [borderLine, rew_widths]

theorem setWidths_rew (k) (ws : List (Col × Nat)) : setWidths (rew k ws) = setWidths ws := by
  simp [setWidths, rew, List.map_map, Function.comp_def]

theorem breakFields_map_width (cols : List Col) (k : Col → Option Nat) :
    breakFields (cols.map fun c => { c with width := k c }) = breakFields cols := by
  induction cols with
  | nil => rfl
  | cons c cs ih =>
    simp only [breakFields, List.map_cons, List.filter_cons] at ih ⊢
    by_cases hb : c.breakBy = true <;> simp [hb, ih]

theorem breakFields_setWidths (ws : List (Col × Nat)) :
    breakFields (setWidths ws) = breakFields (ws.map (·.1)) := by
  induction ws with
  | nil => rfl
  | cons cw cs ih =>
    simp only [breakFields, setWidths, List.map_cons, List.filter_cons] at ih ⊢
    by_cases hb : cw.1.breakBy = true <;> simp [hb, ih]

theorem finalWidths_cols (cols : List Col) (vis : List Record) (ws : List (Col × Nat))
    (h : finalWidths cols vis = .ok ws) : ws.map (·.1) = cols := by
  unfold finalWidths at h
  split at h
  · clear vis
    induction cols generalizing ws with
    | nil => simp [List.mapM_nil, pure, Except.pure] at h; subst h; rfl
    | cons c cs ih =>
      rename_i hall
      rw [List.mapM_cons] at h
      simp only [bind_ok] at h
      obtain ⟨cw, hcw, rest, hr, h⟩ := h
      simp only [pure, Except.pure, Except.ok.injEq] at h
      subst h
      cases hw : c.width with
      | none => simp [hw] at hcw
      | some w =>
        simp only [hw, Except.ok.injEq] at hcw
        subst hcw
        have hall' : (cs.all fun c => c.width.isSome) = true := by
          simp only [List.all_cons, Bool.and_eq_true] at hall; exact hall.2
        simp [ih rest hall' hr]
  · exact (detectWidths_ok cols vis ws h).1

/-- printing with all widths present uses exactly those widths -/
theorem finalWidths_setWidths (ws : List (Col × Nat)) (vis : List Record) :
    finalWidths (setWidths ws) vis = .ok (rew (fun cw => some cw.2) ws) := by
  unfold finalWidths
  have hall : ((setWidths ws).all fun c => c.width.isSome) = true := by
    simp [setWidths, List.all_map]
  rw [if_pos hall]
  clear hall
  induction ws with
  | nil => rfl
  | cons cw cs ih =>
    simp only [setWidths, List.map_cons] at ih ⊢
    rw [List.mapM_cons, ih]
    rfl

/-- the printed lines of a table -/
def lines (t : Tbl) : Except Err (List Line) :=
  match render t with
  | .ok (_, ls) => .ok ls
  | .error e => .error e

theorem lines_of_render {t t' : Tbl} {ls : List Line} (h : render t = .ok (t', ls)) : lines t = .ok ls := by
  simp [lines, h]

/-- printing a second time prints the same lines and leaves the state alone -/
theorem render_idem {t t' : Tbl} {ls : List Line} (h : render t = .ok (t', ls)) : render t' = .ok (t', ls) := by
  obtain ⟨tls, ws, nTitle, body, R⟩ := render_elim h
  have hcols := finalWidths_cols _ _ _ R.ws_eq
  have hst := R.state_eq
  have hls := R.lines_eq
  subst hst
  have hb : breakFields (printed t ws (applyLimits t.fmt.limF t.fmt.limL tls t.records.length).2).fmt.cols
      = breakFields t.fmt.cols := by
    simp only [printed]
    rw [breakFields_setWidths, hcols]
  have hne : rew (fun cw => some cw.2) ws ≠ [] := by
    intro e; exact R.ws_ne ((rew_ne _ _).mp e)
  have := @render_intro (printed t ws (applyLimits t.fmt.limF t.fmt.limL tls t.records.length).2) tls
    (rew (fun cw => some cw.2) ws) nTitle body
    (by rw [hb]; exact R.tls_eq)
    (by simp only [printed]; exact finalWidths_setWidths ws _)
    hne
    (by rw [titleCount_rew]; exact R.title_eq)
    (by simp only [printed, rew_widths, bodyLines_rew]; exact R.body_eq)
  rw [this, hls]
  simp only [printed, rew_widths, borderLine_rew, titleLinesOf_rew, setWidths_rew]
  rfl

/-- the printed lines as a function of what they depend on: records, header, footer, columns and
the effect of the limits on the body lines -/
def linesWith (records : List Record) (header : Option (List Char)) (footer : List Char) (cols : List Col)
    (lim : List TLine → List TLine × Int) : Except Err (List Line) := do
  let tls ← mkTableLines (breakFields cols) Option.none records
  let ws ← finalWidths cols ((lim tls).1.filterMap TLine.row?)
  if ws.isEmpty then .error .assertion else
  let nTitle ← titleCount ws
  let body ← bodyLines ws (tableWidth (ws.map (·.2))) (lim tls).2 (lim tls).1
  .ok ([borderLine ws] ++ headerLinesOf header (tableWidth (ws.map (·.2))) ++ titleLinesOf ws nTitle
    ++ [borderLine ws] ++ body ++ [borderLine ws] ++ footerLinesOf footer (tableWidth (ws.map (·.2))))

theorem lines_eq_linesWith (t : Tbl) :
    lines t = linesWith t.records t.header t.footer t.fmt.cols
      (fun tls => applyLimits t.fmt.limF t.fmt.limL tls t.records.length) := by
  unfold lines render linesWith
  simp only [bind, Except.bind]
  cases mkTableLines (breakFields t.fmt.cols) Option.none t.records with
  | error e => rfl
  | ok tls =>
    simp only
    cases finalWidths t.fmt.cols
        ((applyLimits t.fmt.limF t.fmt.limL tls t.records.length).1.filterMap TLine.row?) with
    | error e => rfl
    | ok ws =>
      simp only
      cases hws : ws.isEmpty with
      | true => rfl
      | false =>
        simp only [Bool.false_eq_true, if_false]
        cases titleCount ws with
        | error e => rfl
        | ok n =>
          simp only
          cases bodyLines ws (tableWidth (ws.map (·.2)))
              (applyLimits t.fmt.limF t.fmt.limL tls t.records.length).2
              (applyLimits t.fmt.limF t.fmt.limL tls t.records.length).1 with
          | error e => rfl
          | ok body => rfl

theorem linesWith_congr (records : List Record) (header : Option (List Char)) (footer : List Char)
    (cols : List Col) (lim lim' : List TLine → List TLine × Int)
    (h : ∀ tls, mkTableLines (breakFields cols) Option.none records = .ok tls → lim tls = lim' tls) :
    linesWith records header footer cols lim = linesWith records header footer cols lim' := by
  unfold linesWith
  cases hm : mkTableLines (breakFields cols) Option.none records with
  | error e => rfl
  | ok tls => simp only [bind, Except.bind, h tls hm]

/-- the table as if it had never been printed -/
def fresh (t : Tbl) : Tbl :=
  { t with fmt := { t.fmt with cols := t.fmt.cols.map Col.reset, anySkipped := Option.none } }

theorem reset_setWidths (ws : List (Col × Nat)) : (setWidths ws).map Col.reset = (ws.map (·.1)).map Col.reset := by
  simp [setWidths, Col.reset, List.map_map, Function.comp_def]

theorem map_reset_of_fresh (cols : List Col) (h : ∀ c ∈ cols, c.width = Option.none) : cols.map Col.reset = cols := by
  induction cols with
  | nil => rfl
  | cons c cs ih =>
    have hc := h c (by simp)
    simp only [List.map_cons, ih (fun x hx => h x (List.mem_cons_of_mem _ hx))]
    congr 1
    cases c
    simp only at hc
    subst hc
    rfl

/-- printing does not depend on the stored widths: the invariant of all reachable tables -/
def WidthsFaithful (t : Tbl) : Prop := lines t = lines (fresh t)

theorem widthsFaithful_of_fresh (t : Tbl) (h : ∀ c ∈ t.fmt.cols, c.width = Option.none) : WidthsFaithful t := by
  unfold WidthsFaithful
  rw [lines_eq_linesWith, lines_eq_linesWith]
  simp only [fresh, map_reset_of_fresh _ h]

theorem widthsFaithful_render {t t' : Tbl} {ls : List Line} (h : render t = .ok (t', ls))
    (hw : WidthsFaithful t) : WidthsFaithful t' := by
  obtain ⟨tls, ws, nTitle, body, R⟩ := render_elim h
  have hcols := finalWidths_cols _ _ _ R.ws_eq
  unfold WidthsFaithful at hw ⊢
  rw [lines_of_render (render_idem h), ← lines_of_render h, hw]
  have : fresh t' = fresh t := by
    rw [R.state_eq]
    simp only [fresh, printed, reset_setWidths, hcols]
  rw [this]

/-! ## negotiated widths are wide enough for every visible cell (up to the maximum) -/

/-- every column is at least as wide as the cells of the records in `R` ask for, capped by its maximum -/
def Wide (R : List Record) (ws : List (Col × Nat)) : Prop :=
  ∀ cw ∈ ws, ∀ r ∈ R, ∀ v l, fetch cw.1.field r = .ok v → cellLen cw.1.field.ftype cw.1.modifier v = .ok l →
    min cw.1.maxW l ≤ cw.2

theorem wide_of_allMax (R : List Record) (ws : List (Col × Nat)) (h : allMax ws = true) : Wide R ws := by
  intro cw hcw r _ v l _ _
  simp only [allMax, List.all_eq_true, beq_iff_eq] at h
  have := h cw hcw
  omega

theorem updWidths_wide (R : List Record) (r : Record) (ws ws' : List (Col × Nat)) (hq : Wide R ws)
    (h : updWidths r ws = .ok ws') : Wide (r :: R) ws' := by
  induction ws generalizing ws' with
  | nil => simp [updWidths] at h; subst h; intro cw hcw; simp at hcw
  | cons cw cs ih =>
    obtain ⟨c, w⟩ := cw
    simp only [updWidths, bind_ok] at h
    obtain ⟨w', hw', rest, hr, h⟩ := h
    cases h
    have hq' : Wide R cs := fun x hx => hq x (List.mem_cons_of_mem _ hx)
    have ih' := ih rest hq' hr
    intro x hx r0 hr0 v l hv hl
    rcases List.mem_cons.mp hx with rfl | hx
    · have hold := hq (c, w) List.mem_cons_self
      simp only at hv hl ⊢
      split at hw'
      · simp only [bind_ok] at hw'
        obtain ⟨v1, hv1, l1, hl1, hw'⟩ := hw'
        cases hw'
        rcases List.mem_cons.mp hr0 with rfl | hr0
        · rw [hv1] at hv; cases hv
          rw [hl1] at hl; cases hl
          omega
        · have := hold r0 hr0 v l hv hl
          simp only at this
          omega
      · cases hw'
        rename_i hge
        omega
    · exact ih' x hx r0 hr0 v l hv hl

theorem detectLoop_wide (R body : List Record) (ws ws' : List (Col × Nat)) (hq : Wide R ws)
    (h : detectLoop ws body = .ok ws') : Wide (body ++ R) ws' := by
  induction body generalizing ws R with
  | nil => simp [detectLoop] at h; subst h; simpa using hq
  | cons r rs ih =>
    simp only [detectLoop, bind_ok] at h
    obtain ⟨ws1, h1, h⟩ := h
    have hq1 := updWidths_wide R r ws ws1 hq h1
    split at h
    · cases h
      rename_i hall
      exact wide_of_allMax _ _ hall
    · have := ih (r :: R) ws1 hq1 h
      intro cw hcw r0 hr0
      apply this cw hcw r0
      simp only [List.mem_append, List.mem_cons] at hr0 ⊢
      rcases hr0 with (rfl | hr0) | hr0
      · exact Or.inr (Or.inl rfl)
      · exact Or.inl hr0
      · exact Or.inr (Or.inr hr0)

theorem detectWidths_wide (cols : List Col) (body : List Record) (ws : List (Col × Nat))
    (h : detectWidths cols body = .ok ws) : Wide body ws := by
  simp only [detectWidths, bind_ok] at h
  obtain ⟨ws0, _, h⟩ := h
  have := detectLoop_wide [] body ws0 ws (by intro cw _ r hr; simp at hr) h
  simpa using this

/-- every column is at least as wide as its title asks for, capped by its maximum -/
def TitleWide (ws : List (Col × Nat)) : Prop :=
  ∀ cw ∈ ws, ∀ tl, titleLen cw.1.field = .ok tl → min cw.1.maxW tl ≤ cw.2

theorem initWidths_titleWide (cols : List Col) (ws : List (Col × Nat)) (h : initWidths cols = .ok ws) :
    TitleWide ws := by
  induction cols generalizing ws with
  | nil => simp [initWidths] at h; subst h; intro cw hcw; simp at hcw
  | cons c cs ih =>
    simp only [initWidths, bind_ok] at h
    obtain ⟨t, ht, rest, hr, h⟩ := h
    cases h
    intro cw hcw tl htl
    rcases List.mem_cons.mp hcw with rfl | hcw
    · simp only at htl ⊢
      rw [ht] at htl; cases htl
      omega
    · exact ih rest hr cw hcw tl htl

theorem updWidths_titleWide (r : Record) (ws ws' : List (Col × Nat)) (hq : TitleWide ws)
    (h : updWidths r ws = .ok ws') : TitleWide ws' := by
  induction ws generalizing ws' with
  | nil => simp [updWidths] at h; subst h; exact hq
  | cons cw cs ih =>
    obtain ⟨c, w⟩ := cw
    simp only [updWidths, bind_ok] at h
    obtain ⟨w', hw', rest, hr, h⟩ := h
    cases h
    have ih' := ih rest (fun x hx => hq x (List.mem_cons_of_mem _ hx)) hr
    intro x hx tl htl
    rcases List.mem_cons.mp hx with rfl | hx
    · have hold := hq (c, w) List.mem_cons_self tl htl
      simp only at hold ⊢
      split at hw'
      · simp only [bind_ok] at hw'
        obtain ⟨v1, _, l1, _, hw'⟩ := hw'
        cases hw'
        omega
      · cases hw'; exact hold
    · exact ih' x hx tl htl

theorem detectLoop_titleWide (body : List Record) (ws ws' : List (Col × Nat)) (hq : TitleWide ws)
    (h : detectLoop ws body = .ok ws') : TitleWide ws' := by
  induction body generalizing ws with
  | nil => simp [detectLoop] at h; subst h; exact hq
  | cons r rs ih =>
    simp only [detectLoop, bind_ok] at h
    obtain ⟨ws1, h1, h⟩ := h
    have hq1 := updWidths_titleWide r ws ws1 hq h1
    split at h
    · cases h; exact hq1
    · exact ih ws1 hq1 h

theorem detectWidths_titleWide (cols : List Col) (body : List Record) (ws : List (Col × Nat))
    (h : detectWidths cols body = .ok ws) : TitleWide ws := by
  simp only [detectWidths, bind_ok] at h
  obtain ⟨ws0, h0, h⟩ := h
  exact detectLoop_titleWide body ws0 ws (initWidths_titleWide cols ws0 h0) h

theorem finalWidths_fresh (cols : List Col) (vis : List Record) (ws : List (Col × Nat))
    (hfresh : ∀ c ∈ cols, c.width = Option.none) (hne : ws ≠ [])
    (h : finalWidths cols vis = .ok ws) : detectWidths cols vis = .ok ws := by
  unfold finalWidths at h
  split at h
  · rename_i hall
    cases cols with
    | nil => simp [List.mapM_nil, pure, Except.pure] at h; exact absurd h hne
    | cons c cs =>
      simp only [List.all_cons, Bool.and_eq_true] at hall
      rw [hfresh c (by simp)] at hall
      simp at hall
  · exact h

/-! ## helpers of `Props/C12.lean` -/

theorem getLast_frame (x y : Char) (l : List Char) : (x :: (l ++ [y])).getLast? = some y := by
  rw [← List.cons_append, List.getLast?_append]; simp

theorem setWidths_ok (cols : List Col) (ws : List (Col × Nat))
    (h : (cols.mapM fun c => match c.width with
      | some w => Except.ok (c, w)
      | Option.none => Except.error Err.assertion) = .ok ws)
    (hinv : ∀ c ∈ cols, ∀ w, c.width = some w → WOk (c, w)) :
    ws.map (·.1) = cols ∧ ∀ cw ∈ ws, WOk cw := by
  induction cols generalizing ws with
  | nil => simp [List.mapM_nil, pure, Except.pure] at h; subst h; simp
  | cons c cs ih =>
    rw [List.mapM_cons] at h
    simp only [bind_ok] at h
    obtain ⟨cw, hcw, rest, hr, h⟩ := h
    simp only [pure, Except.pure, Except.ok.injEq] at h
    subst h
    cases hw : c.width with
    | none => simp [hw] at hcw
    | some w =>
      simp only [hw, Except.ok.injEq] at hcw
      subst hcw
      obtain ⟨h1, h2⟩ := ih rest hr (fun c' hc' => hinv c' (List.mem_cons_of_mem _ hc'))
      refine ⟨by simp [h1], ?_⟩
      intro x hx
      rcases List.mem_cons.mp hx with rfl | hx
      · exact hinv c List.mem_cons_self w hw
      · exact h2 x hx

theorem finalWidths_ok (cols : List Col) (vis : List Record) (ws : List (Col × Nat))
    (h : finalWidths cols vis = .ok ws)
    (hinv : ∀ c ∈ cols, ∀ w, c.width = some w → WOk (c, w)) :
    ws.map (·.1) = cols ∧ ∀ cw ∈ ws, WOk cw := by
  unfold finalWidths at h
  split at h
  · exact setWidths_ok cols ws h hinv
  · exact detectWidths_ok cols vis ws h

/-- a table with the same records, header, footer and columns (widths forgotten) whose limits act
like `t`'s prints what `t` prints -/
theorem lines_of_same (t u : Tbl) (hw : WidthsFaithful t) (hr : u.records = t.records)
    (hh : u.header = t.header) (hf : u.footer = t.footer) (hc : u.fmt.cols = t.fmt.cols.map Col.reset)
    (hl : ∀ tls, mkTableLines (breakFields t.fmt.cols) Option.none t.records = .ok tls →
      applyLimits u.fmt.limF u.fmt.limL tls t.records.length
        = applyLimits t.fmt.limF t.fmt.limL tls t.records.length) : lines u = lines t := by
  rw [hw, lines_eq_linesWith, lines_eq_linesWith]
  simp only [fresh, hr, hh, hf, hc]
  apply linesWith_congr
  intro tls htls
  have hb : breakFields (t.fmt.cols.map Col.reset) = breakFields t.fmt.cols :=
    breakFields_map_width t.fmt.cols (fun _ => Option.none)
  rw [hb] at htls
  exact hl tls htls

/-- printing changes nothing that a later printing could see -/
theorem lines_after_render {t t' : Tbl} {ls : List Line} (h : render t = .ok (t', ls)) : lines t' = lines t := by
  rw [lines_of_render (render_idem h), lines_of_render h]

/-- interleaved iterators: each one yields the lines of its own table as it was at the beginning -/
theorem startIters_lines (tables0 tables : List Tbl) (iters order : List Nat)
    (acc res : List (Nat × List Line))
    (hlen : tables.length = tables0.length)
    (hsame : ∀ (k : Nat) (t t0 : Tbl), tables[k]? = some t → tables0[k]? = some t0 → lines t = lines t0)
    (hacc : ∀ p ∈ acc, ∃ ti t0, iters[p.1]? = some ti ∧ tables0[ti]? = some t0 ∧ lines t0 = .ok p.2)
    (h : startIters tables iters order acc = .ok res) :
    ∀ p ∈ res, ∃ ti t0, iters[p.1]? = some ti ∧ tables0[ti]? = some t0 ∧ lines t0 = .ok p.2 := by
  induction order generalizing tables acc with
  | nil => simp [startIters] at h; subst h; exact hacc
  | cons i rest ih =>
    unfold startIters at h
    cases hi : iters[i]? with
    | none => simp [hi] at h
    | some ti =>
      simp only [hi] at h
      cases ht : tables[ti]? with
      | none => simp [ht] at h
      | some t =>
        simp only [ht] at h
        cases hr : render t with
        | error e => simp [hr] at h
        | ok pr =>
          obtain ⟨t', ls⟩ := pr
          simp only [hr] at h
          have hti : ti < tables0.length := by
            have := (List.getElem?_eq_some_iff.mp ht).1
            omega
          obtain ⟨t0, ht0⟩ : ∃ t0, tables0[ti]? = some t0 := ⟨tables0[ti], by simp [hti]⟩
          have hl0 : lines t0 = .ok ls := by rw [← hsame ti t t0 ht ht0]; exact lines_of_render hr
          apply ih (tables.set ti t') (acc ++ [(i, ls)]) (by simp [hlen]) ?_ ?_ h
          · intro k a a0 hk hk0
            by_cases hkt : k = ti
            · subst hkt
              have hlt : k < tables.length := by omega
              rw [List.getElem?_set_self hlt] at hk
              cases hk
              rw [ht0] at hk0; cases hk0
              rw [lines_after_render hr]
              exact hsame _ t _ ht ht0
            · rw [List.getElem?_set_ne (fun e => hkt e.symm)] at hk
              exact hsame k a a0 hk hk0
          · intro p hp
            rcases List.mem_append.mp hp with hp | hp
            · exact hacc p hp
            · simp only [List.mem_singleton] at hp
              subst hp
              exact ⟨ti, t0, hi, ht0, hl0⟩

/-! ## the state after printing is determined by what was printed -/

theorem replicate_append_inj (d c : Char) (hdc : d ≠ c) (w w' : Nat) (x x' : List Char)
    (h : List.replicate w d ++ c :: x = List.replicate w' d ++ c :: x') : w = w' ∧ x = x' := by
  induction w generalizing w' with
  | zero =>
    cases w' with
    | zero => simpa using h
    | succ k => simp [List.replicate_succ] at h; exact absurd h.1.symm hdc
  | succ n ih =>
    cases w' with
    | zero => simp [List.replicate_succ] at h; exact absurd h.1 hdc
    | succ k =>
      simp only [List.replicate_succ, List.cons_append, List.cons.injEq, true_and] at h
      obtain ⟨h1, h2⟩ := ih k h
      exact ⟨by omega, h2⟩

theorem borderText_head (ws : List Nat) : ∃ x, borderText ws = Gen.C12.cornerChar :: x := by
  cases ws <;> exact ⟨_, rfl⟩

/-- the border line tells the widths -/
theorem borderText_inj (ws ws' : List Nat) (h : borderText ws = borderText ws') : ws = ws' := by
  have hdc : Gen.C12.dashChar ≠ Gen.C12.cornerChar := by decide
  induction ws generalizing ws' with
  | nil =>
    cases ws' with
    | nil => rfl
    | cons w' r' =>
      obtain ⟨x, hx⟩ := borderText_head r'
      simp [borderText, hx] at h
  | cons w r ih =>
    cases ws' with
    | nil =>
      obtain ⟨x, hx⟩ := borderText_head r
      simp [borderText, hx] at h
    | cons w' r' =>
      obtain ⟨x, hx⟩ := borderText_head r
      obtain ⟨x', hx'⟩ := borderText_head r'
      simp only [borderText, List.cons.injEq, true_and] at h
      rw [hx, hx'] at h
      obtain ⟨h1, h2⟩ := replicate_append_inj _ _ hdc w w' x x' h
      have : borderText r = borderText r' := by rw [hx, hx', h2]
      rw [h1, ih r' this]

theorem setWidths_eq_zip (ws : List (Col × Nat)) :
    setWidths ws = List.zipWith (fun c w => { c with width := some w }) (ws.map (·.1)) (ws.map (·.2)) := by
  induction ws with
  | nil => rfl
  | cons cw cs ih => simp only [setWidths, List.map_cons, List.zipWith_cons_cons] at ih ⊢; rw [ih]

theorem zip_reset (cols : List Col) (widths : List Nat) :
    List.zipWith (fun c w => { c with width := some w }) (cols.map Col.reset) widths
      = List.zipWith (fun (c : Col) w => { c with width := some w }) cols widths := by
  induction cols generalizing widths with
  | nil => rfl
  | cons c cs ih =>
    cases widths with
    | nil => rfl
    | cons w ws => simp only [List.map_cons, List.zipWith_cons_cons, ih]; rfl

/-- Two tables with the same records, header and footer and the same columns (widths apart) that
print the same lines are, after printing, in states with the same columns *including the
negotiated widths*. -/
theorem printed_cols_eq {t u t' u' : Tbl} {ls : List Line} (ht : render t = .ok (t', ls))
    (hu : render u = .ok (u', ls)) (hc : u.fmt.cols = t.fmt.cols.map Col.reset) :
    u'.fmt.cols = t'.fmt.cols := by
  obtain ⟨tls, ws, nT, body, R⟩ := render_elim ht
  obtain ⟨tls2, ws2, nT2, body2, R2⟩ := render_elim hu
  have h1 := finalWidths_cols _ _ _ R.ws_eq
  have h2 := finalWidths_cols _ _ _ R2.ws_eq
  have hb : borderLine ws = borderLine ws2 := by
    have e1 := R.lines_eq
    have e2 := R2.lines_eq
    rw [e1] at e2
    simp only [List.append_assoc, List.cons_append] at e2
    exact (List.cons.inj e2).1
  have hw : ws.map (·.2) = ws2.map (·.2) := by
    simp only [borderLine, Line.mk.injEq, true_and] at hb
    exact borderText_inj _ _ hb
  rw [R.state_eq, R2.state_eq]
  simp only [printed]
  rw [setWidths_eq_zip, setWidths_eq_zip, h1, h2, hc, ← hw, zip_reset]

/-- without changes in between, `runEvents` is `startIters` -/
theorem runEvents_starts (tables : List Tbl) (iters order : List Nat) (acc : List (Nat × List Line)) :
    runEvents tables iters (order.map Ev.start) acc = startIters tables iters order acc := by
  induction order generalizing tables acc with
  | nil => rfl
  | cons i rest ih =>
    simp only [List.map_cons, runEvents, startIters]
    cases iters[i]? with
    | none => rfl
    | some ti =>
      simp only
      cases tables[ti]? with
      | none => rfl
      | some t =>
        simp only
        cases render t with
        | error e => rfl
        | ok p => simp only [ih]

/-- what an iterator has been given when it was started is never touched by later events -/
theorem runEvents_prefix (tables : List Tbl) (iters : List Nat) (evs : List Ev)
    (acc res : List (Nat × List Line)) (h : runEvents tables iters evs acc = .ok res) : acc <+: res := by
  induction evs generalizing tables acc with
  | nil => simp [runEvents] at h; subst h; exact List.prefix_refl _
  | cons e rest ih =>
    cases e with
    | start i =>
      unfold runEvents at h
      cases hi : iters[i]? with
      | none => simp [hi] at h
      | some ti =>
        simp only [hi] at h
        cases ht : tables[ti]? with
        | none => simp [ht] at h
        | some t =>
          simp only [ht] at h
          cases hr : render t with
          | error e => simp [hr] at h
          | ok p =>
            simp only [hr] at h
            exact List.IsPrefix.trans (List.prefix_append _ _) (ih _ _ h)
    | setLimits ti a b =>
      unfold runEvents at h
      cases ht : tables[ti]? with
      | none => simp [ht] at h
      | some t => simp only [ht] at h; exact ih _ _ h
    | append ti r =>
      unfold runEvents at h
      cases ht : tables[ti]? with
      | none => simp [ht] at h
      | some t => simp only [ht] at h; exact ih _ _ h
    | replace ti i r =>
      unfold runEvents at h
      cases ht : tables[ti]? with
      | none => simp [ht] at h
      | some t =>
        simp only [ht] at h
        split at h
        · exact ih _ _ h
        · cases h
    | reverse ti =>
      unfold runEvents at h
      cases ht : tables[ti]? with
      | none => simp [ht] at h
      | some t => simp only [ht] at h; exact ih _ _ h

/-- the lines an iterator is given are those of its table as it is at that moment -/
theorem runEvents_start (tables : List Tbl) (iters : List Nat) (i : Nat) (rest : List Ev)
    (acc res : List (Nat × List Line)) (h : runEvents tables iters (Ev.start i :: rest) acc = .ok res) :
    ∃ ti t ls, iters[i]? = some ti ∧ tables[ti]? = some t ∧ lines t = .ok ls ∧ acc ++ [(i, ls)] <+: res := by
  unfold runEvents at h
  cases hi : iters[i]? with
  | none => simp [hi] at h
  | some ti =>
    simp only [hi] at h
    cases ht : tables[ti]? with
    | none => simp [ht] at h
    | some t =>
      simp only [ht] at h
      cases hr : render t with
      | error e => simp [hr] at h
      | ok p =>
        obtain ⟨t', ls⟩ := p
        simp only [hr] at h
        exact ⟨ti, t, ls, rfl, ht, lines_of_render hr, runEvents_prefix _ _ _ _ _ h⟩

end Table
