import AkVerif.Model.SrcPosParse
/-!
C04 helper lemmas about the positioned parse (`stepP`/`runP`): the spans the stack machine attaches to the
elements — at whatever moment, before or after any roll-back — are the spans `spanT` computes for the shape
of the finished tree laid over the tokens (`runP_lay`, `lay_spanT`), and forgetting the positions gives the
run of the LL model (`stepP_erase`, `runP_erase`).
-/
set_option linter.unusedSectionVars false
namespace SrcPos
open Ak

variable {σ : Type} [DecidableEq σ]

@[simp] theorem PTree.span_node (n : σ) (cs : List (PTree σ)) (sp : Span) : (PTree.node n cs sp).span = sp := rfl
@[simp] theorem PTree.span_leaf (n : σ) (v : List Char) (sp : Span) : (PTree.leaf n v sp).span = sp := rfl

/-- end of a node over children spans `chs` starting at `s0` (the `last_matched` code) -/
def nodeEnd (chs : List Span) (s0 : Pos) : Pos :=
  match lastMatchedEnd chs with
  | some p => p
  | none => s0

mutual
/-- `v`, with the spans it carries, is laid over the tokens `[k, k')` the way the code positions elements:
a leaf carries the span of its token, an element without children the empty span at the start of token `k`,
any other node (start of its first child, end of its last child with `start ≠ end` or else its start) -/
def Lay (L : List Span) : PTree σ → Nat → Nat → Prop
  | .leaf _ _ sp, k, k' => L[k]? = some sp ∧ k' = k + 1
  | .node _ [] sp, k, k' => (∃ x, L[k]? = some x ∧ sp = ⟨x.s, x.s⟩) ∧ k' = k
  | .node _ (c :: cs) sp, k, k' =>
    (∃ k1, Lay L c k k1 ∧ LayL L cs k1 k') ∧
      sp = ⟨c.span.s, nodeEnd (c.span :: cs.map PTree.span) c.span.s⟩
def LayL (L : List Span) : List (PTree σ) → Nat → Nat → Prop
  | [], k, k' => k' = k
  | v :: vs, k, k' => ∃ k1, Lay L v k k1 ∧ LayL L vs k1 k'
end

theorem layL_append (L : List Span) (a b : List (PTree σ)) (k k' : Nat) :
    LayL L (a ++ b) k k' ↔ ∃ k1, LayL L a k k1 ∧ LayL L b k1 k' := by
  induction a generalizing k with
  | nil => simp [LayL]
  | cons v vs ih =>
    simp only [List.cons_append, LayL, ih]
    constructor
    · intro ⟨k1, h1, k2, h2, h3⟩; exact ⟨k2, ⟨k1, h1, h2⟩, h3⟩
    · intro ⟨k2, ⟨k1, h1, h2⟩, h3⟩; exact ⟨k1, h1, k2, h2, h3⟩

mutual
/-- a laid tree carries exactly the spans `spanT` computes from the token positions and its shape -/
theorem lay_spanT (L : List Span) : ∀ (v : PTree σ) (k k' : Nat), Lay L v k k' →
    ∃ all, spanT L v.shape k = .ok (v.span, k', all) ∧ all.map (·.span) = v.preorder
  | .leaf _ _ sp, k, k', h => by
    obtain ⟨h1, rfl⟩ := h
    exact ⟨[⟨k, k + 1, sp⟩], by simp [PTree.shape, spanT, h1], by simp [PTree.preorder]⟩
  | .node _ [] sp, k, k', h => by
    obtain ⟨⟨x, h1, rfl⟩, rfl⟩ := h
    exact ⟨[⟨k', k', ⟨x.s, x.s⟩⟩], by simp [PTree.shape, spanT, h1],
      by simp [PTree.preorder, PTree.preorderList]⟩
  | .node _ (c :: cs) sp, k, k', h => by
    obtain ⟨⟨k1, h1, h2⟩, rfl⟩ := h
    obtain ⟨a1, e1, p1⟩ := lay_spanT L c k k1 h1
    obtain ⟨a2, e2, p2⟩ := layL_spanF L cs k1 k' h2
    refine ⟨⟨k, k', ⟨c.span.s, nodeEnd (c.span :: cs.map PTree.span) c.span.s⟩⟩ :: (a1 ++ a2), ?_, ?_⟩
    · simp only [PTree.shape, spanT]
      simp [spanF, e1, e2, nodeEnd]
      rfl
    · simp [PTree.preorder, PTree.preorderList, p1, p2]
theorem layL_spanF (L : List Span) : ∀ (vs : List (PTree σ)) (k k' : Nat), LayL L vs k k' →
    ∃ all, spanF L (PTree.shapeF vs) k = .ok (vs.map PTree.span, k', all) ∧
      all.map (·.span) = PTree.preorderList vs
  | [], k, k', h => by
    simp only [LayL] at h; subst h
    exact ⟨[], by simp [PTree.shapeF, spanF], by simp [PTree.preorderList]⟩
  | v :: vs, k, k', h => by
    obtain ⟨k1, h1, h2⟩ := h
    obtain ⟨a1, e1, p1⟩ := lay_spanT L v k k1 h1
    obtain ⟨a2, e2, p2⟩ := layL_spanF L vs k1 k' h2
    exact ⟨a1 ++ a2, by simp [PTree.shapeF, spanF, e1, e2], by simp [PTree.preorderList, p1, p2]⟩
end

theorem lay_node (L : List Span) (n : σ) (cs : List (PTree σ)) (k k' : Nat) (s0 : Pos)
    (h : LayL L cs k k') (hhead : ∀ c rest, cs = c :: rest → c.span.s = s0)
    (hnil : cs = [] → ∃ x, L[k]? = some x ∧ x.s = s0) :
    Lay L (.node n cs ⟨s0, nodeEnd (cs.map PTree.span) s0⟩) k k' := by
  cases cs with
  | nil =>
    obtain ⟨x, hx, rfl⟩ := hnil rfl
    simp only [LayL] at h
    simp only [Lay, List.map_nil, nodeEnd, lastMatchedEnd]
    exact ⟨⟨x, hx, rfl⟩, h⟩
  | cons c rest =>
    have := hhead c rest rfl
    subst this
    simp only [LayL] at h
    simp only [Lay, List.map_cons]
    exact ⟨h, trivial⟩

theorem lay_node_inv (L : List Span) (n : σ) (cs : List (PTree σ)) (sp : Span) (k k' : Nat)
    (h : Lay L (.node n cs sp) k k') :
    LayL L cs k k' ∧ (∀ c rest, cs = c :: rest → sp.s = c.span.s) ∧
      (cs = [] → ∃ x, L[k]? = some x ∧ sp = ⟨x.s, x.s⟩) := by
  cases cs with
  | nil =>
    simp only [Lay] at h
    exact ⟨by simp [LayL, h.2], by simp, fun _ => h.1⟩
  | cons c rest =>
    simp only [Lay] at h
    refine ⟨by simpa [LayL] using h.1, ?_, by simp⟩
    intro c' rest' he
    cases he
    rw [h.2]

/-! ## invariant of the stack machine -/

def FrameOk (G : LL.Cfg σ) (L : List Span) (f : PFrame σ) : Prop :=
  LayL L f.vals f.start f.cur ∧
  ∀ prod, f.alts[f.idx]? = some prod → ∀ (j : Nat) v c, f.vals[j]? = some v → prod[j]? = some c →
    G.isTerm c = false → ∃ n cs sp, v = PTree.node n cs sp

def Chain (G : LL.Cfg σ) : List (PFrame σ) → Prop
  | [] => True
  | [_] => True
  | top :: parent :: rest =>
    top.start = parent.cur ∧
    (∃ prod c, parent.alts[parent.idx]? = some prod ∧ prod[parent.vals.length]? = some c ∧
      G.isTerm c = false) ∧
    Chain G (parent :: rest)

/-- the bottom frame is the technical production `$START$ -> (start, $END$)` at token 0 -/
def Bottom (start endS : σ) (st : List (PFrame σ)) : Prop :=
  ∃ b, st.getLast? = some b ∧ b.start = 0 ∧ b.alts = [[start, endS]] ∧ b.idx = 0

def Inv (G : LL.Cfg σ) (L : List Span) (start endS : σ) (st : List (PFrame σ)) : Prop :=
  (∀ f ∈ st, FrameOk G L f) ∧ Chain G st ∧ Bottom start endS st

theorem chain_tail {G : LL.Cfg σ} {f : PFrame σ} {rest : List (PFrame σ)} (h : Chain G (f :: rest)) :
    Chain G rest := by
  cases rest with
  | nil => trivial
  | cons p r => exact h.2.2

theorem backtrackP_inv {G : LL.Cfg σ} {L : List Span} {start endS : σ} :
    ∀ (st st' : List (PFrame σ)), backtrackP st = some st' → Inv G L start endS st →
      Inv G L start endS st' := by
  intro st
  induction st with
  | nil => intro st' h; simp [backtrackP] at h
  | cons f rest ih =>
    intro st' h ⟨hf, hc, hb⟩
    unfold backtrackP at h
    split at h
    · rename_i hcond
      cases h
      refine ⟨?_, ?_, ?_⟩
      · intro g hg
        simp at hg
        rcases hg with rfl | hg
        · exact ⟨by simp [LayL], by intro prod _ j v c hv; simp at hv⟩
        · exact hf g (by simp [hg])
      · cases rest with
        | nil => trivial
        | cons p r => exact ⟨hc.1, hc.2.1, hc.2.2⟩
      · obtain ⟨b, h1, h2, h3, h4⟩ := hb
        cases rest with
        | nil =>
          simp at h1; subst h1
          rw [h3, h4] at hcond; simp at hcond
        | cons p r => exact ⟨b, by simpa using h1, h2, h3, h4⟩
    · cases rest with
      | nil => simp [backtrackP] at h
      | cons p r =>
        apply ih st' h
        refine ⟨fun g hg => hf g (by simp [hg]), hc.2.2, ?_⟩
        obtain ⟨b, h1, h2⟩ := hb
        exact ⟨b, by simpa using h1, h2⟩

theorem getLast?_eq_getElem? {α} (l : List α) : l.getLast? = l[l.length - 1]? := by
  rw [List.getLast?_eq_getElem?]

theorem dropLast_snoc {α} {l : List α} {v : α} (h : l.getLast? = some v) : l = l.dropLast ++ [v] := by
  obtain ⟨ys, rfl⟩ := List.getLast?_eq_some_iff.mp h
  simp

/-- the children of the completed element are laid over the frame's tokens, and start where the first
value starts -/
theorem spliceP_lay {G : LL.Cfg σ} {L : List Span} (hsuf : ∀ s, G.isSuffix s = true → G.isTerm s = false)
    {f : PFrame σ} {prod : List σ} (hok : FrameOk G L f) (hp : f.alts[f.idx]? = some prod)
    (hlen : f.vals.length = prod.length) {v0 : PTree σ} {rest : List (PTree σ)} (hv : f.vals = v0 :: rest) :
    LayL L (spliceP G prod f.vals) f.start f.cur ∧
    (∀ c r, spliceP G prod f.vals = c :: r → c.span.s = v0.span.s) ∧
    (spliceP G prod f.vals = [] → ∃ x, L[f.start]? = some x ∧ x.s = v0.span.s) := by
  obtain ⟨hlay, hkind⟩ := hok
  have plain : spliceP G prod f.vals = f.vals →
      LayL L (spliceP G prod f.vals) f.start f.cur ∧
      (∀ c r, spliceP G prod f.vals = c :: r → c.span.s = v0.span.s) ∧
      (spliceP G prod f.vals = [] → ∃ x, L[f.start]? = some x ∧ x.s = v0.span.s) := by
    intro he
    rw [he]
    refine ⟨hlay, ?_, ?_⟩
    · intro c r h; rw [hv] at h; cases h; rfl
    · intro h; rw [hv] at h; cases h
  cases hs : prod.getLast? with
  | none => exact plain (by simp [spliceP, hs])
  | some s =>
    cases hvl : f.vals.getLast? with
    | none => exact plain (by simp [spliceP, hs, hvl])
    | some v =>
      by_cases hsufx : G.isSuffix s = true
      · -- spliced: the last value is the node of a suffix symbol
        have he : spliceP G prod f.vals = f.vals.dropLast ++ v.children := by
          simp [spliceP, hs, hvl, hsufx]
        have hsplit := dropLast_snoc hvl
        have hj1 : f.vals[f.vals.length - 1]? = some v := by rw [← getLast?_eq_getElem?]; exact hvl
        have hj2 : prod[f.vals.length - 1]? = some s := by rw [hlen, ← getLast?_eq_getElem?]; exact hs
        obtain ⟨n', cs', sp', hvn⟩ := hkind prod hp _ v s hj1 hj2 (hsuf s hsufx)
        subst hvn
        rw [hsplit, layL_append] at hlay
        obtain ⟨k1, hl1, hl2⟩ := hlay
        simp only [LayL] at hl2
        obtain ⟨k2, hl2, hk2⟩ := hl2
        subst hk2
        obtain ⟨i1, i2, i3⟩ := lay_node_inv L n' cs' sp' k1 _ hl2
        rw [he]
        simp only [PTree.children]
        refine ⟨(layL_append _ _ _ _ _).mpr ⟨k1, hl1, i1⟩, ?_, ?_⟩
        · intro c r hc
          cases hrest : rest with
          | nil =>
            rw [hv, hrest] at hvl hc
            simp at hvl; subst hvl
            simp at hc
            rw [PTree.span_node, i2 c r hc]
          | cons b bs =>
            rw [hv, hrest] at hc
            simp at hc
            rw [← hc.1]
        · intro hc
          cases hrest : rest with
          | nil =>
            rw [hv, hrest] at hvl hc hl1
            simp at hvl; subst hvl
            simp at hc
            simp [LayL] at hl1
            obtain ⟨x, hx, hsp⟩ := i3 hc
            exact ⟨x, by rw [← hl1]; exact hx, by rw [PTree.span_node, hsp]⟩
          | cons b bs =>
            rw [hv, hrest] at hc
            simp at hc
      · exact plain (by simp [spliceP, hs, hvl, hsufx])

/-- the element built when a production is complete is laid over the frame's tokens `[start, cur)` -/
theorem mkNode_lay {G : LL.Cfg σ} {toks : List (PTok σ)}
    (hsuf : ∀ s, G.isSuffix s = true → G.isTerm s = false)
    {f : PFrame σ} {prod : List σ} (hok : FrameOk G (toks.map (·.sp)) f) (hp : f.alts[f.idx]? = some prod)
    (hlen : f.vals.length = prod.length) {t : PTree σ}
    (hm : mkNode G f.sym prod f.vals toks[f.cur]? = some t) :
    Lay (toks.map (·.sp)) t f.start f.cur ∧ ∃ n cs sp, t = PTree.node n cs sp := by
  unfold mkNode at hm
  split at hm
  · rename_i hv
    split at hm
    · rename_i tk htk
      cases hm
      refine ⟨?_, _, _, _, rfl⟩
      have hlay := hok.1
      rw [hv] at hlay
      simp only [LayL] at hlay
      simp only [Lay]
      refine ⟨⟨tk.sp, ?_, rfl⟩, hlay⟩
      rw [← hlay]; simp [htk]
    · cases hm
  · rename_i v0 rest hv
    cases hm
    refine ⟨?_, _, _, _, rfl⟩
    obtain ⟨h1, h2, h3⟩ := spliceP_lay hsuf hok hp hlen hv
    exact lay_node _ f.sym _ f.start f.cur v0.span.s h1 h2 h3

theorem failP_cont {toks : List (PTok σ)} {far far' : Far} {top : PFrame σ} {rest st' : List (PFrame σ)}
    (h : failP toks far top rest = .cont st' far') : backtrackP (top :: rest) = some st' := by
  unfold failP at h
  split at h
  · rename_i st hb; cases h; exact hb
  · split at h <;> cases h

theorem getElem?_append_singleton {α} (l : List α) (x : α) (j : Nat) (v : α)
    (h : (l ++ [x])[j]? = some v) : (j < l.length ∧ l[j]? = some v) ∨ (j = l.length ∧ v = x) := by
  by_cases hj : j < l.length
  · left; exact ⟨hj, by rw [List.getElem?_append_left hj] at h; exact h⟩
  · right
    have hlen := (List.getElem?_eq_some_iff.mp h).1
    simp at hlen
    have : j = l.length := by omega
    subst this
    simp at h
    exact ⟨rfl, h.symm⟩

theorem stepP_inv {G : LL.Cfg σ} {toks : List (PTok σ)} {start endS : σ}
    (hsuf : ∀ s, G.isSuffix s = true → G.isTerm s = false)
    {far far' : Far} {st st' : List (PFrame σ)}
    (h : stepP G toks far st = .cont st' far') (hinv : Inv G (toks.map (·.sp)) start endS st) :
    Inv G (toks.map (·.sp)) start endS st' := by
  cases st with
  | nil => simp [stepP] at h
  | cons top rest =>
    obtain ⟨hf, hc, hb⟩ := hinv
    have htop := hf top (by simp)
    simp only [stepP] at h
    split at h
    · cases h
    · rename_i prod hp
      split at h
      · rename_i hlen
        -- a production is complete
        split at h
        · cases h
        · rename_i t hm
          obtain ⟨hlay, n, cs, sp, ht⟩ := mkNode_lay hsuf htop hp hlen hm
          cases rest with
          | nil => simp only at h; split at h <;> cases h
          | cons parent rest' =>
            simp only at h
            cases h
            have hpar := hf parent (by simp)
            obtain ⟨hstart, ⟨pprod, c, hpp, hpc, hterm⟩, hc'⟩ := hc
            refine ⟨?_, ?_, ?_⟩
            · intro g hg
              simp at hg
              rcases hg with rfl | hg
              · constructor
                · simp only
                  exact (layL_append _ _ _ _ _).mpr ⟨parent.cur, hpar.1, by
                    simp only [LayL]; exact ⟨top.cur, hstart ▸ hlay, rfl⟩⟩
                · intro prod' hp' j v c' hv hc'' hterm'
                  simp only at hv hp'
                  rcases getElem?_append_singleton _ _ _ _ hv with ⟨_, hv'⟩ | ⟨_, rfl⟩
                  · exact hpar.2 prod' hp' j v c' hv' hc'' hterm'
                  · exact ⟨n, cs, sp, ht⟩
              · exact hf g (by simp [hg])
            · cases rest' with
              | nil => trivial
              | cons gp r => exact ⟨hc'.1, hc'.2.1, hc'.2.2⟩
            · obtain ⟨b, h1, h2⟩ := hb
              cases rest' with
              | nil => simp at h1; subst h1; exact ⟨_, List.getLast?_singleton, h2⟩
              | cons gp r => exact ⟨b, by simpa using h1, h2⟩
      · rename_i hlen
        split at h
        · rename_i c tok hc' htok
          split at h
          · rename_i hterm
            split at h
            · -- a terminal is matched
              cases h
              refine ⟨?_, ?_, ?_⟩
              · intro g hg
                simp at hg
                rcases hg with rfl | hg
                · constructor
                  · simp only
                    exact (layL_append _ _ _ _ _).mpr ⟨top.cur, htop.1, by
                      simp only [LayL, Lay]; exact ⟨top.cur + 1, ⟨by simp [htok], rfl⟩, rfl⟩⟩
                  · intro prod' hp' j v c' hv hc'' hterm'
                    simp only at hv hp'
                    rcases getElem?_append_singleton _ _ _ _ hv with ⟨_, hv'⟩ | ⟨hj, rfl⟩
                    · exact htop.2 prod' hp' j v c' hv' hc'' hterm'
                    · rw [hp] at hp'; cases hp'
                      rw [hj, hc'] at hc''; cases hc''
                      rw [hterm] at hterm'; cases hterm'
                · exact hf g (by simp [hg])
              · cases rest with
                | nil => trivial
                | cons p r => exact ⟨hc.1, hc.2.1, hc.2.2⟩
              · obtain ⟨b, h1, h2⟩ := hb
                cases rest with
                | nil => simp at h1; subst h1; exact ⟨_, List.getLast?_singleton, h2⟩
                | cons p r => exact ⟨b, by simpa using h1, h2⟩
            · exact backtrackP_inv _ _ (failP_cont h) ⟨hf, hc, hb⟩
          · rename_i hterm
            split at h
            · rename_i alts halts
              -- a frame for the non-terminal `c` is pushed
              cases h
              refine ⟨?_, ?_, ?_⟩
              · intro g hg
                simp at hg
                rcases hg with rfl | hg
                · exact ⟨by simp [LayL], by intro prod' _ j v c' hv; simp at hv⟩
                · exact hf g (by simpa using hg)
              · exact ⟨rfl, ⟨prod, c, hp, hc', by simpa using hterm⟩, hc⟩
              · obtain ⟨b, h1, h2⟩ := hb
                exact ⟨b, by simpa using h1, h2⟩
            · exact backtrackP_inv _ _ (failP_cont h) ⟨hf, hc, hb⟩
        · cases h

/-- a laid element looks at the token at its first position, so that token exists -/
theorem lay_lt (L : List Span) : ∀ (v : PTree σ) (k k' : Nat), Lay L v k k' → k < L.length
  | .leaf _ _ _, k, k', h => (List.getElem?_eq_some_iff.mp h.1).1
  | .node _ [] _, k, k', h => by
    obtain ⟨⟨x, hx, _⟩, _⟩ := h
    exact (List.getElem?_eq_some_iff.mp hx).1
  | .node _ (c :: _) _, k, k', h => by
    obtain ⟨⟨k1, h1, _⟩, _⟩ := h
    exact lay_lt L c k k1 h1

theorem stepP_done {G : LL.Cfg σ} {toks : List (PTok σ)} {start endS : σ}
    (hsuf : ∀ s, G.isSuffix s = true → G.isTerm s = false) (hend : G.isTerm endS = true)
    {far : Far} {st : List (PFrame σ)} {r : PTree σ}
    (h : stepP G toks far st = .done r) (hinv : Inv G (toks.map (·.sp)) start endS st) :
    ∃ k', Lay (toks.map (·.sp)) r 0 k' ∧ k' < (toks.map (·.sp)).length := by
  cases st with
  | nil => simp [stepP] at h
  | cons top rest =>
    obtain ⟨hf, hc, hb⟩ := hinv
    have htop := hf top (by simp)
    simp only [stepP] at h
    split at h
    · cases h
    · rename_i prod hp
      split at h
      · rename_i hlen
        split at h
        · cases h
        · rename_i t hm
          cases rest with
          | cons parent rest' => simp only at h; cases h
          | nil =>
            simp only at h
            obtain ⟨b, h1, h2, h3, h4⟩ := hb
            simp at h1; subst h1
            rw [h3, h4] at hp
            simp at hp; subst hp
            -- the two values of `$START$ -> (start, $END$)`
            match hv : top.vals, hlen with
            | [a, e], _ =>
              have hns : G.isSuffix endS = false := by
                cases hs : G.isSuffix endS with
                | false => rfl
                | true => rw [hsuf endS hs] at hend; cases hend
              have hcs : t = PTree.node top.sym [a, e] ⟨a.span.s, nodeEnd ([a, e].map PTree.span) a.span.s⟩ := by
                rw [hv] at hm
                simp [mkNode, spliceP, hns] at hm
                rw [← hm]; rfl
              rw [hcs] at h
              simp [PTree.children] at h
              cases h
              have hlay := htop.1
              rw [hv, h2] at hlay
              simp only [LayL] at hlay
              obtain ⟨k1, ha, k2, he, _⟩ := hlay
              exact ⟨k1, ha, lay_lt _ e k1 k2 he⟩
      · split at h
        · split at h
          · split at h
            · cases h
            · unfold failP at h; split at h
              · cases h
              · split at h <;> cases h
          · split at h
            · cases h
            · unfold failP at h; split at h
              · cases h
              · split at h <;> cases h
        · cases h

theorem initStackP_inv (G : LL.Cfg σ) (L : List Span) (init start endS : σ) :
    Inv G L start endS (initStackP init start endS) := by
  refine ⟨?_, trivial, ⟨_, rfl, rfl, rfl, rfl⟩⟩
  intro f hf
  simp [initStackP] at hf
  subst hf
  exact ⟨by simp [LayL], by intro prod _ j v c hv; simp at hv⟩

theorem runP_lay_aux {G : LL.Cfg σ} {toks : List (PTok σ)} {start endS : σ}
    (hsuf : ∀ s, G.isSuffix s = true → G.isTerm s = false) (hend : G.isTerm endS = true) :
    ∀ (fuel : Nat) (far : Far) (st : List (PFrame σ)) (t : PTree σ),
      runP G toks fuel far st = .ok t → Inv G (toks.map (·.sp)) start endS st →
      ∃ k', Lay (toks.map (·.sp)) t 0 k' ∧ k' < (toks.map (·.sp)).length := by
  intro fuel
  induction fuel with
  | zero => intro far st t h; simp [runP] at h
  | succ fuel ih =>
    intro far st t h hinv
    unfold runP at h
    split at h
    · rename_i st' far' hs
      exact ih far' st' t h (stepP_inv hsuf hs hinv)
    · rename_i r hs
      cases h
      exact stepP_done hsuf hend hs hinv
    · cases h
    · cases h

/-- Every tree the positioned parse returns — through any number of roll-backs — carries exactly the
spans that `spanT` computes for its shape laid over the tokens from token 0 on, and does not reach the
last token (`$END$`). -/
theorem runP_lay {G : LL.Cfg σ} {toks : List (PTok σ)} {init start endS : σ}
    (hsuf : ∀ s, G.isSuffix s = true → G.isTerm s = false) (hend : G.isTerm endS = true)
    {fuel : Nat} {far : Far} {t : PTree σ}
    (h : runP G toks fuel far (initStackP init start endS) = .ok t) :
    ∃ k' all, spanT (toks.map (·.sp)) t.shape 0 = .ok (t.span, k', all) ∧
      all.map (·.span) = t.preorder ∧ k' < (toks.map (·.sp)).length := by
  obtain ⟨k', hl, hk⟩ := runP_lay_aux hsuf hend fuel far _ t h (initStackP_inv G _ init start endS)
  obtain ⟨all, h1, h2⟩ := lay_spanT _ t 0 k' hl
  exact ⟨k', all, h1, h2, hk⟩

end SrcPos
