import AkVerif.Lemmas.LLFollow
import AkVerif.Lemmas.LLTable
import AkVerif.Lemmas.LLComplete
/-!
The hypothesis record `Closed` of `LLComplete.lean` holds for what the model of the constructor
computes (`model_closed`): nullables, FIRST and FOLLOW sets are closed (`LLSets.lean`,
`LLFollow.lean`), and a conflict-free table built by `mkTable` has exactly the entry `[r]` at every
`(X, t)` with `t` a start symbol of the rule `r` of `X`.
-/
set_option linter.unusedSectionVars false
namespace LL

/-! ### `dappend` -/
section Dict
variable {κ γ : Type} [DecidableEq κ]

theorem dget_dappend_self (k : κ) (x : γ) : ∀ (d : List (κ × List γ)),
    ∃ l, dget k (dappend k x d) = some l ∧ x ∈ l
  | [] => ⟨[x], by simp [dappend, dget], by simp⟩
  | (k', l) :: rest => by
    unfold dappend
    by_cases hk : k' = k
    · exact ⟨l ++ [x], by simp [hk, dget], by simp⟩
    · obtain ⟨l', h1, h2⟩ := dget_dappend_self k x rest
      exact ⟨l', by simp [hk, dget, h1], h2⟩

/-- `d[k].append(x)` keeps every key and every member -/
theorem DLe_dappend (k : κ) (x : γ) : ∀ (d : List (κ × List γ)), DLe d (dappend k x d)
  | [] => by intro k1 v1 h; simp [dget] at h
  | (k', l) :: rest => by
    intro k1 v1 h
    unfold dappend
    by_cases hk : k' = k
    · subst hk
      by_cases hk1 : k' = k1
      · subst hk1
        simp only [dget, if_true] at h
        cases h
        exact ⟨l ++ [x], by simp [dget], fun y hy => List.mem_append_left _ hy⟩
      · simp only [dget, hk1, if_false] at h
        exact ⟨v1, by simp [dget, hk1, h], fun _ hy => hy⟩
    · by_cases hk1 : k' = k1
      · subst hk1
        simp only [dget, if_true] at h
        cases h
        exact ⟨l, by simp [hk, dget], fun _ hy => hy⟩
      · simp only [dget, hk1, if_false] at h
        obtain ⟨v', h1, h2⟩ := DLe_dappend k x rest k1 v1 h
        exact ⟨v', by simp [hk, dget, hk1, h1], h2⟩

theorem dget_map_val {β β' : Type} (f : β → β') (k : κ) : ∀ (d : List (κ × β)),
    dget k (d.map fun (k, l) => (k, f l)) = (dget k d).map f
  | [] => rfl
  | (k', v) :: rest => by
    simp only [List.map_cons, dget]
    by_cases hk : k' = k
    · simp [hk]
    · simp [hk, dget_map_val f k rest]

end Dict

variable {σ : Type} [DecidableEq σ]

/-! ### the table -/

theorem foldl_dappend_ok (A : σ) (r : Rule σ) : ∀ (ss : List σ) (T : Table σ),
    DLe T (ss.foldl (fun T t => dappend (A, t) r T) T) ∧
    ∀ t ∈ ss, ∃ l, dget (A, t) (ss.foldl (fun T t => dappend (A, t) r T) T) = some l ∧ r ∈ l
  | [], T => ⟨DLe.refl _, fun t ht => by simp at ht⟩
  | t0 :: ss, T => by
    simp only [List.foldl_cons]
    obtain ⟨hle, hall⟩ := foldl_dappend_ok A r ss (dappend (A, t0) r T)
    refine ⟨(DLe_dappend _ _ _).trans hle, ?_⟩
    intro t ht
    rcases List.mem_cons.1 ht with e | ht
    · subst e
      exact hle.mem (dget_dappend_self _ _ _)
    · exact hall t ht

theorem startSyms_ok {terms nulls : List σ} {first follow : SetMap σ} {A : σ} :
    ∀ (l acc ss : List σ), startSyms terms nulls first follow A l acc = .ok ss →
    (∀ y ∈ acc, y ∈ ss) ∧ (∀ t, FirstIn terms nulls first l t → t ∈ ss) ∧
    (NullIn terms nulls l → ∀ w, dget A follow = some w → ∀ t ∈ w, t ∈ ss)
  | [], acc, ss, h => by
    unfold startSyms at h
    split at h
    · obtain ⟨w, hw, h⟩ := exc_bind_ok h
      have hw := dgetE_ok hw
      simp only [Except.ok.injEq] at h
      subst h
      refine ⟨fun y hy => mem_sunion.2 (Or.inl hy), fun t ht => ht.elim, fun _ w' hw' t ht => ?_⟩
      rw [hw] at hw'; cases hw'
      exact mem_sunion.2 (Or.inr ht)
    · cases h
  | s :: rest, acc, ss, h => by
    unfold startSyms at h
    split at h
    · rename_i hs
      simp only [Except.ok.injEq] at h
      subst h
      refine ⟨sadd_sub acc s, ?_, fun hN => absurd hs (hN s (by simp)).1⟩
      intro t hF
      simp only [FirstIn] at hF
      rcases hF with ⟨_, h2⟩ | ⟨h1, _⟩
      · subst h2; exact mem_sadd.2 (Or.inr rfl)
      · exact absurd hs h1
    · rename_i hs
      obtain ⟨f, hf, h⟩ := exc_bind_ok h
      have hf := dgetE_ok hf
      have hrest : (∀ y ∈ sunion acc f, y ∈ ss) ∧
          (s ∈ nulls → (∀ t, FirstIn terms nulls first rest t → t ∈ ss) ∧
            (NullIn terms nulls rest → ∀ w, dget A follow = some w → ∀ t ∈ w, t ∈ ss)) := by
        split at h
        · have := startSyms_ok rest _ ss h
          exact ⟨this.1, fun _ => this.2⟩
        · rename_i hn
          simp only [Except.ok.injEq] at h
          subst h
          exact ⟨fun _ hy => hy, fun h => absurd h hn⟩
      obtain ⟨hsub, hrest⟩ := hrest
      refine ⟨fun y hy => hsub y (mem_sunion.2 (Or.inl hy)), ?_, ?_⟩
      · intro t hF
        simp only [FirstIn] at hF
        rcases hF with ⟨h1, _⟩ | ⟨_, ⟨f', hf', htf⟩ | ⟨hn, hr⟩⟩
        · exact absurd h1 hs
        · rw [hf] at hf'; cases hf'
          exact hsub t (mem_sunion.2 (Or.inr htf))
        · exact (hrest hn).1 t hr
      · intro hN
        exact (hrest (hN s (by simp)).2).2 (fun x hx => hN x (List.mem_cons_of_mem _ hx))

/-- `r` was stored under `(A, t)` for every start symbol `t` of `r` -/
def Stored (terms nulls : List σ) (first follow : SetMap σ) (A : σ) (r : Rule σ) (T : Table σ) : Prop :=
  ∃ ss, startSyms terms nulls first follow A r.rhs [] = .ok ss ∧
    ∀ t ∈ ss, ∃ l, dget (A, t) T = some l ∧ r ∈ l

theorem Stored.mono {terms nulls : List σ} {first follow : SetMap σ} {A : σ} {r : Rule σ}
    {T T' : Table σ} (h : Stored terms nulls first follow A r T) (hle : DLe T T') :
    Stored terms nulls first follow A r T' := by
  obtain ⟨ss, hss, hall⟩ := h
  exact ⟨ss, hss, fun t ht => hle.mem (hall t ht)⟩

theorem tableRules_ok {terms nulls : List σ} {first follow : SetMap σ} {A : σ} :
    ∀ (rs : List (Rule σ)) (T T' : Table σ),
    tableRules terms nulls first follow A rs T = .ok T' →
    DLe T T' ∧ ∀ r ∈ rs, Stored terms nulls first follow A r T'
  | [], T, T', h => by
    simp only [tableRules, Except.ok.injEq] at h
    subst h
    exact ⟨DLe.refl _, fun r hr => by simp at hr⟩
  | r0 :: rest, T, T', h => by
    unfold tableRules at h
    obtain ⟨ss, hss, h⟩ := exc_bind_ok h
    obtain ⟨hle1, h0⟩ := foldl_dappend_ok A r0 ss T
    obtain ⟨hle2, hall⟩ := tableRules_ok rest _ T' h
    refine ⟨hle1.trans hle2, ?_⟩
    intro r hr
    rcases List.mem_cons.1 hr with e | hr
    · subst e
      exact Stored.mono ⟨ss, hss, h0⟩ hle2
    · exact hall r hr

theorem tableFill_ok {terms nulls : List σ} {first follow : SetMap σ} :
    ∀ (G : Prods σ) (T T' : Table σ),
    tableFill terms nulls first follow G T = .ok T' →
    DLe T T' ∧ ∀ A rules, (A, rules) ∈ G → ∀ r ∈ rules, Stored terms nulls first follow A r T'
  | [], T, T', h => by
    simp only [tableFill, Except.ok.injEq] at h
    subst h
    exact ⟨DLe.refl _, fun A rules hm => by simp at hm⟩
  | (A0, rs0) :: rest, T, T', h => by
    unfold tableFill at h
    obtain ⟨T1, h1, h⟩ := exc_bind_ok h
    obtain ⟨hle1, h0⟩ := tableRules_ok rs0 T T1 h1
    obtain ⟨hle2, hall⟩ := tableFill_ok rest T1 T' h
    refine ⟨hle1.trans hle2, ?_⟩
    intro A rules hm r hr
    rcases List.mem_cons.1 hm with e | hm
    · cases e; exact (h0 r hr).mono hle2
    · exact hall A rules hm r hr

theorem isAmbiguous_false {T : Table σ} (h : isAmbiguous T = false) :
    ∀ k l, dget k T = some l → l.length = 1 := by
  intro k l hk
  have hm := dget_mem hk
  unfold isAmbiguous at h
  rw [List.any_eq_false] at h
  have := h (k, l) hm
  simpa using this

/-- the entry of a conflict-free table at a start symbol of `r` is `[r]` -/
theorem mkTable_entry {terms nulls : List σ} {first follow : SetMap σ} {G : Prods σ} {T : Table σ}
    (hT : mkTable terms nulls first follow G = .ok T) (hamb : isAmbiguous T = false)
    {A : σ} {rules : List (Rule σ)} (hm : (A, rules) ∈ G) {r : Rule σ} (hr : r ∈ rules) :
    ∃ ss, startSyms terms nulls first follow A r.rhs [] = .ok ss ∧
      ∀ t ∈ ss, dget (A, t) T = some [r] := by
  unfold mkTable at hT
  obtain ⟨T0, h0, hT⟩ := exc_bind_ok hT
  simp only [Except.ok.injEq] at hT
  obtain ⟨ss, hss, hall⟩ := (tableFill_ok G [] T0 h0).2 A rules hm r hr
  refine ⟨ss, hss, ?_⟩
  intro t ht
  obtain ⟨l, hl, hrl⟩ := hall t ht
  have hget : dget (A, t) T = some (sortRules l) := by
    rw [← hT, dget_map_val, hl]; rfl
  have hlen := isAmbiguous_false hamb _ _ hget
  have hmem : r ∈ sortRules l := mem_sortRules.2 hrl
  rw [hget]
  cases hsl : sortRules l with
  | nil => rw [hsl] at hlen; simp at hlen
  | cons a b =>
    rw [hsl] at hlen hmem
    cases b with
    | nil => simp at hmem; rw [hmem]
    | cons c d => simp at hlen

/-! ### the bridge to `LLComplete.lean` -/
set_option linter.unusedVariables false

def setsOf (nulls : List σ) (first follow : SetMap σ) : Sets σ :=
  { N := fun s => decide (s ∈ nulls),
    F := fun X t => match dget X first with | some f => decide (t ∈ f) | none => false,
    W := fun X t => match dget X follow with | some w => decide (t ∈ w) | none => false }

theorem setsOf_F {nulls : List σ} {first follow : SetMap σ} {X t : σ} :
    (setsOf nulls first follow).F X t = true ↔ ∃ f, dget X first = some f ∧ t ∈ f := by
  unfold setsOf
  cases hd : dget X first with
  | none => simp [hd]
  | some f => simp [hd]

theorem setsOf_W {nulls : List σ} {first follow : SetMap σ} {X t : σ} :
    (setsOf nulls first follow).W X t = true ↔ ∃ w, dget X follow = some w ∧ t ∈ w := by
  unfold setsOf
  cases hd : dget X follow with
  | none => simp [hd]
  | some f => simp [hd]

theorem firstIn_of_firstSeq {terms nulls suffix : List σ} {first follow : SetMap σ} {T : Table σ} :
    ∀ (l : List σ) (t : σ),
    firstSeq (cfgOf terms T suffix) (setsOf nulls first follow) l t = true →
    FirstIn terms nulls first l t
  | [], t, h => by simp [firstSeq] at h
  | s :: rest, t, h => by
    unfold firstSeq at h
    simp only [FirstIn]
    split at h
    · rename_i hs
      have hs : s ∈ terms := by simpa [cfgOf] using hs
      exact Or.inl ⟨hs, by simpa using h⟩
    · rename_i hs
      have hs : s ∉ terms := by simpa [cfgOf] using hs
      refine Or.inr ⟨hs, ?_⟩
      simp only [Bool.or_eq_true, Bool.and_eq_true] at h
      rcases h with h | ⟨h1, h2⟩
      · exact Or.inl (setsOf_F.1 h)
      · exact Or.inr ⟨by simpa [setsOf] using h1, firstIn_of_firstSeq rest t h2⟩

theorem nullIn_of_nullSeq {terms nulls suffix : List σ} {first follow : SetMap σ} {T : Table σ} :
    ∀ (l : List σ), nullSeq (cfgOf terms T suffix) (setsOf nulls first follow) l = true →
    NullIn terms nulls l
  | [], _ => fun s hs => by simp at hs
  | s :: rest, h => by
    unfold nullSeq at h
    simp only [Bool.and_eq_true, Bool.not_eq_true'] at h
    obtain ⟨⟨h1, h2⟩, h3⟩ := h
    intro x hx
    rcases List.mem_cons.1 hx with e | hx
    · subst e
      exact ⟨by simpa [cfgOf] using h1, by simpa [setsOf] using h2⟩
    · exact nullIn_of_nullSeq rest h3 x hx

/-- `Closed` holds for what the constructor computes.  (`hnd` and `hdisj` are not used: every pass
visits every entry of `G`, and the fields of `Closed` that need a non-terminal assume it.) -/
theorem model_closed {G : Prods σ} {terms nulls : List σ} {first follow : SetMap σ} {T : Table σ}
    {start endS : σ} (suffix : List σ)
    (hnd : (G.map (·.1)).Nodup) (hdisj : ∀ k ∈ G.map (·.1), k ∉ terms)
    (hN : nullables G = .ok nulls) (hF : firstSets terms nulls G = .ok first)
    (hW : followSets terms nulls first G start endS = .ok follow)
    (hT : mkTable terms nulls first follow G = .ok T) (hamb : isAmbiguous T = false) :
    Closed (cfgOf terms T suffix) { prods := gramRules G } (setsOf nulls first follow)
      ∧ (setsOf nulls first follow).W start endS = true := by
  obtain ⟨hstart, hfol⟩ := followSets_closed hW
  refine ⟨⟨?_, ?_, ?_, ?_, ?_⟩, setsOf_W.2 hstart⟩
  · -- nul
    intro X p hp hnull
    obtain ⟨rules, hm, r, hr, rfl⟩ := mem_gramRules.1 hp
    have := nullables_closed hN X rules hm r hr (fun s hs => (nullIn_of_nullSeq _ hnull s hs).2)
    simpa [setsOf] using this
  · -- fst
    intro X p t hp hfs
    obtain ⟨rules, hm, r, hr, rfl⟩ := mem_gramRules.1 hp
    exact setsOf_F.2 (firstSets_closed hF X rules hm r hr t (firstIn_of_firstSeq _ t hfs))
  · -- fol1
    intro A p i X t hp hi hX hfs
    obtain ⟨rules, hm, r, hr, rfl⟩ := mem_gramRules.1 hp
    have hX : X ∉ terms := by simpa [cfgOf] using hX
    exact setsOf_W.2 ((hfol A rules hm r hr i X hi hX).1 t (firstIn_of_firstSeq _ t hfs))
  · -- fol2
    intro A p i X t hp hi hX hnull hWA
    obtain ⟨rules, hm, r, hr, rfl⟩ := mem_gramRules.1 hp
    have hX : X ∉ terms := by simpa [cfgOf] using hX
    obtain ⟨w, wa, hw, hwa, hs⟩ := (hfol A rules hm r hr i X hi hX).2 (nullIn_of_nullSeq _ hnull)
    obtain ⟨wa', hwa', ht⟩ := setsOf_W.1 hWA
    rw [hwa] at hwa'; cases hwa'
    exact setsOf_W.2 ⟨w, hw, hs t ht⟩
  · -- tbl
    intro X p t _ hp hcase
    obtain ⟨rules, hm, r, hr, rfl⟩ := mem_gramRules.1 hp
    obtain ⟨ss, hss, hall⟩ := mkTable_entry hT hamb hm hr
    obtain ⟨_, hfirst, hnullw⟩ := startSyms_ok _ _ _ hss
    have ht : t ∈ ss := by
      rcases hcase with h | ⟨h1, h2⟩
      · exact hfirst t (firstIn_of_firstSeq _ t h)
      · obtain ⟨w, hw, htw⟩ := setsOf_W.1 h2
        exact hnullw (nullIn_of_nullSeq _ h1) w hw t htw
    simp [cfgOf, hall t ht]

end LL
