import AkVerif.Lemmas.InterleaveWorld
/-!
C16: ids supplied by adapters of the caller's, wherever in the chain they stand (constructor argument,
inherited from the parent, or attached later with `add_adapter`).  Helper lemmas, core Lean only.
-/
namespace Interleave

/-- two characters with the same lower-case form have the same upper-case form -/
theorem upper_of_lower_eq (c d : Char) (h : lowerAscii c = lowerAscii d) :
    upperAscii c = upperAscii d := by
  have h' := congrArg Char.toNat h
  rw [toNat_lower, toNat_lower] at h'
  apply Char.toNat_inj.mp
  rw [toNat_upper, toNat_upper]
  split at h' <;> split at h' <;> split <;> split <;> omega

/-- names that are equal after lowering are filed by `urllib` under the same key -/
theorem capitalize_of_lower_eq : ∀ (a b : List Char), a.map lowerAscii = b.map lowerAscii →
    capitalize a = capitalize b := by
  intro a b h
  cases a with
  | nil => cases b with
    | nil => rfl
    | cons d ds => simp at h
  | cons c cs => cases b with
    | nil => simp at h
    | cons d ds =>
      simp only [List.map_cons, List.cons.injEq] at h
      simp only [capitalize, List.cons.injEq]
      exact ⟨upper_of_lower_eq c d h.1, h.2⟩

/-- the header name is the id header in some capitalisation -/
def isIdName (k : List Char) : Bool := k.map lowerAscii == idAdapterLower

/-- the id an adapter of the caller's may put into the request -/
def Adapter.idValue : Adapter → Option (List Char)
  | .setId v => some v
  | .politeId v => some v
  | .auth _ => none

/-- every id the caller supplied for a request: the values of the id headers it passed (any
capitalisation) and the ids of the id-supplying adapters of the connection's chain -/
def suppliedIds (hs0 : Headers) (ads : List Adapter) : List (List Char) :=
  (hs0.filter fun kv => isIdName kv.1).map (·.2) ++ ads.filterMap Adapter.idValue

theorem mem_setHeader (hs : Headers) (k v : List Char) (kv : List Char × List Char)
    (h : kv ∈ setHeader hs k v) : kv ∈ hs ∨ kv = (k, v) := by
  induction hs with
  | nil => simp [setHeader] at h; exact Or.inr h
  | cons e hs ih =>
    obtain ⟨k', x⟩ := e
    unfold setHeader at h
    split at h
    · rename_i hk
      rcases List.mem_cons.mp h with h | h
      · exact Or.inr (by rw [h, hk])
      · exact Or.inl (List.mem_cons_of_mem _ h)
    · rcases List.mem_cons.mp h with h | h
      · exact Or.inl (by rw [h]; exact List.mem_cons_self)
      · rcases ih h with h | h
        · exact Or.inl (List.mem_cons_of_mem _ h)
        · exact Or.inr h

/-- `headers[k] = v` removes no key -/
theorem any_setHeader_mono (P : List Char → Bool) (hs : Headers) (k v : List Char)
    (h : hs.any (fun kv => P kv.1) = true) : (setHeader hs k v).any (fun kv => P kv.1) = true := by
  induction hs with
  | nil => simp at h
  | cons e hs ih =>
    obtain ⟨k', x⟩ := e
    unfold setHeader
    split
    · simpa using h
    · simp only [List.any_cons, Bool.or_eq_true] at h ⊢
      rcases h with h | h
      · exact Or.inl h
      · exact Or.inr (ih h)

theorem any_setHeader_self (P : List Char → Bool) (hs : Headers) (k v : List Char) (hk : P k = true) :
    (setHeader hs k v).any (fun kv => P kv.1) = true := by
  induction hs with
  | nil => simp [setHeader, hk]
  | cons e hs ih =>
    obtain ⟨k', x⟩ := e
    unfold setHeader
    split
    · rename_i e; simp [e, hk]
    · simp only [List.any_cons, Bool.or_eq_true]; exact Or.inr ih

theorem isIdName_adapterName : isIdName idAdapterName = true := by decide
theorem isIdName_authName : isIdName authName = false := by decide

/-- an id that is present stays present through the rest of the chain -/
theorem applyAdapters_any_mono : ∀ (ads : List Adapter) (hs0 hs1 : Headers),
    applyAdapters ads hs0 = some hs1 → hs0.any (fun kv => isIdName kv.1) = true →
    hs1.any (fun kv => isIdName kv.1) = true := by
  intro ads
  induction ads with
  | nil => intro hs0 hs1 h h0; simp [applyAdapters] at h; subst h; exact h0
  | cons a ads ih =>
    intro hs0 hs1 h h0
    cases a with
    | auth v =>
      unfold applyAdapters at h
      split at h
      · cases h
      · exact ih _ _ h (any_setHeader_mono _ _ _ _ h0)
    | setId v =>
      unfold applyAdapters at h
      exact ih _ _ h (any_setHeader_mono _ _ _ _ h0)
    | politeId v =>
      unfold applyAdapters at h
      split at h
      · exact ih _ _ h h0
      · exact ih _ _ h (any_setHeader_mono _ _ _ _ h0)

/-- **an id-supplying adapter anywhere in the chain**: when the adapters are done the request has an id -/
theorem applyAdapters_has_id : ∀ (ads : List Adapter) (hs0 hs1 : Headers) (a : Adapter),
    a ∈ ads → a.idValue.isSome = true → applyAdapters ads hs0 = some hs1 →
    hs1.any (fun kv => isIdName kv.1) = true := by
  intro ads
  induction ads with
  | nil => intro hs0 hs1 a ha; cases ha
  | cons b ads ih =>
    intro hs0 hs1 a ha hv h
    rcases List.mem_cons.mp ha with e | ha'
    · subst e
      cases a with
      | auth v => simp [Adapter.idValue] at hv
      | setId v =>
        unfold applyAdapters at h
        exact applyAdapters_any_mono _ _ _ h (any_setHeader_self _ _ _ _ isIdName_adapterName)
      | politeId v =>
        unfold applyAdapters at h
        split at h
        · rename_i hany
          exact applyAdapters_any_mono _ _ _ h hany
        · exact applyAdapters_any_mono _ _ _ h (any_setHeader_self _ _ _ _ isIdName_adapterName)
    · cases b with
      | auth v =>
        unfold applyAdapters at h
        split at h
        · cases h
        · exact ih _ _ a ha' hv h
      | setId v =>
        unfold applyAdapters at h
        exact ih _ _ a ha' hv h
      | politeId v =>
        unfold applyAdapters at h
        split at h
        · exact ih _ _ a ha' hv h
        · exact ih _ _ a ha' hv h

theorem suppliedIds_setHeader (hs0 : Headers) (k v x : List Char) (rest : List Adapter)
    (hx : x ∈ suppliedIds (setHeader hs0 k v) rest) :
    x = v ∨ x ∈ suppliedIds hs0 rest := by
  unfold suppliedIds at hx ⊢
  rcases List.mem_append.mp hx with h | h
  · obtain ⟨kv, hkv, rfl⟩ := List.mem_map.mp h
    obtain ⟨hm, hp⟩ := List.mem_filter.mp hkv
    rcases mem_setHeader _ _ _ _ hm with h1 | h1
    · exact Or.inr (List.mem_append_left _ (List.mem_map.mpr ⟨kv, List.mem_filter.mpr ⟨h1, hp⟩, rfl⟩))
    · exact Or.inl (by rw [h1])
  · exact Or.inr (List.mem_append_right _ h)

theorem suppliedIds_cons (hs0 : Headers) (a : Adapter) (rest : List Adapter) (x : List Char)
    (hx : x ∈ suppliedIds hs0 rest) : x ∈ suppliedIds hs0 (a :: rest) := by
  unfold suppliedIds at hx ⊢
  rcases List.mem_append.mp hx with h | h
  · exact List.mem_append_left _ h
  · apply List.mem_append_right
    rw [List.filterMap_cons]
    split
    · exact h
    · exact List.mem_cons_of_mem _ h

theorem suppliedIds_head (hs0 : Headers) (a : Adapter) (rest : List Adapter) (v : List Char)
    (ha : a.idValue = some v) : v ∈ suppliedIds hs0 (a :: rest) := by
  unfold suppliedIds
  apply List.mem_append_right
  rw [List.filterMap_cons, ha]
  exact List.mem_cons_self

/-- **where the ids of a request come from**: after the adapters ran, the value of every id header (any
capitalisation) is one the caller passed in its headers or one of an id-supplying adapter of the chain -/
theorem applyAdapters_ids : ∀ (ads : List Adapter) (hs0 hs1 : Headers),
    applyAdapters ads hs0 = some hs1 →
    ∀ kv, kv ∈ hs1 → isIdName kv.1 = true → kv.2 ∈ suppliedIds hs0 ads := by
  intro ads
  induction ads with
  | nil =>
    intro hs0 hs1 h kv hkv hid
    simp [applyAdapters] at h; subst h
    unfold suppliedIds
    exact List.mem_append_left _ (List.mem_map.mpr ⟨kv, List.mem_filter.mpr ⟨hkv, hid⟩, rfl⟩)
  | cons a ads ih =>
    intro hs0 hs1 h kv hkv hid
    cases a with
    | auth v =>
      unfold applyAdapters at h
      split at h
      · cases h
      · have := ih _ _ h kv hkv hid
        apply suppliedIds_cons
        unfold suppliedIds at this ⊢
        rw [filter_setHeader_other isIdName hs0 authName v isIdName_authName] at this
        exact this
    | setId v =>
      unfold applyAdapters at h
      rcases suppliedIds_setHeader _ _ _ _ _ (ih _ _ h kv hkv hid) with e | e
      · rw [e]; exact suppliedIds_head hs0 _ ads v rfl
      · exact suppliedIds_cons _ _ _ _ e
    | politeId v =>
      unfold applyAdapters at h
      split at h
      · exact suppliedIds_cons _ _ _ _ (ih _ _ h kv hkv hid)
      · rcases suppliedIds_setHeader _ _ _ _ _ (ih _ _ h kv hkv hid) with e | e
        · rw [e]; exact suppliedIds_head hs0 _ ads v rfl
        · exact suppliedIds_cons _ _ _ _ e

/-- a dict with an id header (any capitalisation): what `urllib` sends under the id key is the value of
one of its id headers -/
theorem sentId_of_any (name : List Char) (hname : isIdName name = true) (hs : Headers)
    (h : hs.any (fun kv => isIdName kv.1) = true) :
    ∃ kv, kv ∈ hs ∧ isIdName kv.1 = true ∧ sentId name hs = some kv.2 := by
  obtain ⟨kv0, hkv0, hid0⟩ := List.any_eq_true.mp h
  have hlow : ∀ k, isIdName k = true → k.map lowerAscii = name.map lowerAscii := by
    intro k hk
    unfold isIdName at hk hname
    rw [beq_iff_eq] at hk hname
    rw [hk, hname]
  have hin : kv0 ∈ hs.filter (fun kv => capitalize kv.1 == capitalize name) := by
    apply List.mem_filter.mpr
    exact ⟨hkv0, by rw [beq_iff_eq]; exact capitalize_of_lower_eq _ _ (hlow _ hid0)⟩
  unfold sentId
  cases hl : (hs.filter (fun kv => capitalize kv.1 == capitalize name)).getLast? with
  | none =>
    rw [List.getLast?_eq_none_iff] at hl
    rw [hl] at hin; cases hin
  | some kv =>
    have hmem := List.mem_of_getLast? hl
    obtain ⟨hm, hc⟩ := List.mem_filter.mp hmem
    rw [beq_iff_eq] at hc
    refine ⟨kv, hm, ?_, rfl⟩
    have := lower_of_capitalize_eq _ _ hc
    unfold isIdName at hname ⊢
    rw [beq_iff_eq] at hname ⊢
    rw [this, hname]

/-! ### well-formed worlds: every connection refers to an implementation object that exists -/

def World.WF (w : World) : Prop := ∀ (c : Nat) (cn : Conn), w.conns[c]? = some cn → cn.impl < w.impls.length

theorem wf_empty : World.empty.WF := by
  intro c cn h; simp [World.empty] at h

theorem wf_of_same {w w' : World} (hc : w'.conns = w.conns) (hl : w'.impls.length = w.impls.length)
    (H : w.WF) : w'.WF := by
  intro c cn h; rw [hc] at h; rw [hl]; exact H c cn h

theorem mem_append_single {α : Type} (l : List α) (x y : α) (c : Nat) (h : (l ++ [x])[c]? = some y) :
    l[c]? = some y ∨ y = x := by
  by_cases hlt : c < l.length
  · rw [List.getElem?_append_left hlt] at h; exact Or.inl h
  · rw [List.getElem?_append_right (by omega)] at h
    cases hk : c - l.length with
    | zero => rw [hk] at h; simp at h; exact Or.inr h.symm
    | succ k => rw [hk] at h; simp at h

theorem wf_newImpl (w : World) (cp : List Char) (ids : Bool) (H : w.WF) : (w.newImpl cp ids).1.WF := by
  intro c cn h
  simp only [World.newImpl, List.length_append, List.length_singleton] at h ⊢
  rcases mem_append_single _ _ _ _ h with h | h
  · have := H c cn h; omega
  · subst h; simp

theorem wf_wrap (g : Cfg) (w w' : World) (c k : Nat) (cls : List Char) (ad : Option Adapter) (H : w.WF)
    (h : w.wrap g c cls ad = .ok (w', k)) : w'.WF := by
  unfold World.wrap at h
  split at h
  · rename_i cn hcn _
    simp only [Except.ok.injEq, Prod.mk.injEq] at h
    obtain ⟨hw, _⟩ := h
    subst hw
    intro d cd hd
    rcases mem_append_single _ _ _ _ hd with hd | hd
    · exact H d cd hd
    · subst hd; exact H c cn hcn
  · rename_i cn hcn _
    split at h
    · simp only [Except.ok.injEq, Prod.mk.injEq] at h
      obtain ⟨hw, _⟩ := h
      subst hw
      intro d cd hd
      simp only [List.length_append, List.length_singleton]
      rcases mem_append_single _ _ _ _ hd with hd | hd
      · have := H d cd hd; omega
      · subst hd; simp
    · cases h
  · cases h

theorem wf_addAdapter (w w' : World) (c : Nat) (ad : Option Adapter) (H : w.WF)
    (h : w.addAdapter c ad = .ok w') : w'.WF := by
  unfold World.addAdapter at h
  split at h
  · cases h
  · rename_i cn hcn
    simp only [Except.ok.injEq] at h
    subst h
    intro d cd hd
    simp only [List.getElem?_set] at hd
    split at hd
    · split at hd
      · cases hd; exact H c cn hcn
      · cases hd
    · exact H d cd hd

theorem idBranch_same (g : Cfg) (w w' : World) (i : Nat) (im : Impl) (hs hs' : Headers)
    (h : w.idBranch g i im hs = .ok (w', hs')) :
    w'.conns = w.conns ∧ w'.impls.length = w.impls.length := by
  unfold World.idBranch at h
  split at h
  · cases h; exact ⟨rfl, rfl⟩
  · split at h
    · cases h; exact ⟨rfl, rfl⟩
    · split at h
      · cases h
      · cases h; exact ⟨rfl, by simp [setImpl]⟩

theorem writeBack_same (g : Cfg) (w : World) (src : HdrSrc) (a b : Headers) :
    (writeBack g w src a b).conns = w.conns ∧ (writeBack g w src a b).impls = w.impls := by
  unfold writeBack
  split
  · split <;> exact ⟨rfl, rfl⟩
  · exact ⟨rfl, rfl⟩

theorem request_same (g : Cfg) (w w' : World) (c : Nat) (src : HdrSrc) (d : Bool) (hs' : Headers)
    (h : w.request g c src d = .ok (w', hs')) :
    w'.conns = w.conns ∧ w'.impls.length = w.impls.length := by
  unfold World.request at h
  split at h
  · cases h
  split at h
  · cases h
  split at h
  · cases h
  split at h
  · cases h
  split at h
  · cases h
  rename_i w1 hs2 hid
  simp only [Except.ok.injEq, Prod.mk.injEq] at h
  obtain ⟨hw, _⟩ := h
  subst hw
  obtain ⟨h1, h2⟩ := idBranch_same g _ _ _ _ _ _ hid
  exact ⟨by rw [(writeBack_same g w1 src _ _).1, h1], by rw [(writeBack_same g w1 src _ _).2, h2]⟩

theorem parCore_same (g : Cfg) (w w' : World) (i : Nat) (threads : List (List ParReq))
    (sched : List (Nat × Nat)) (out : List (List Headers))
    (h : w.parCore g i threads sched = .ok (w', out)) :
    w'.conns = w.conns ∧ w'.impls.length = w.impls.length := by
  unfold World.parCore at h
  split at h
  · cases h
  split at h
  · cases h
  split at h
  · cases h; exact ⟨rfl, rfl⟩
  split at h
  · cases h
  split at h
  · cases h
  · cases h; exact ⟨rfl, by simp [setImpl]⟩

/-- every operation of a history keeps the world well formed -/
theorem wf_histStep (g : Cfg) (st : World × IdLog) (op : Op) (H : st.1.WF) : (histStep g st op).1.WF := by
  cases op with
  | newImpl cp ids => exact wf_newImpl _ _ _ H
  | newDict hs => exact wf_of_same rfl rfl H
  | wrap c cls ad =>
    simp only [histStep]
    split
    · rename_i w' k hw; exact wf_wrap g _ _ _ _ _ _ H hw
    · exact H
  | addAdapter c ad =>
    simp only [histStep]
    split
    · rename_i w' hw; exact wf_addAdapter _ _ _ _ H hw
    · exact H
  | req c src d o =>
    simp only [histStep]
    split
    · rename_i cn w' hs' r hc hreq0
      obtain ⟨h1, h2⟩ := request_same g _ _ _ _ _ _ (requestOutcome_ok hreq0).1
      exact wf_of_same h1 h2 H
    · exact H
  | batch c threads sched =>
    simp only [histStep]
    split
    · exact H
    · split
      · exact H
      · split
        · exact H
        · rename_i w' out hpar
          obtain ⟨h1, h2⟩ := parCore_same g _ _ _ _ _ _ hpar
          exact wf_of_same h1 h2 H

theorem wf_runOps (g : Cfg) (ops : List Op) : ∀ (st : World × IdLog), st.1.WF → (runOps g st ops).1.WF := by
  induction ops with
  | nil => intro st H; exact H
  | cons op ops ih => intro st H; exact ih _ (wf_histStep g st op H)

end Interleave
